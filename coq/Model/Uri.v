(* Uri.v — model of uri.go: URI.parse, splitHostURI, parseHost, unescape, shouldEscape, validUserinfo, isValidScheme,
   stringContainsCTLByte, the getters Scheme/Path, RequestURI, FullURI/AppendBytes/appendSchemeHost, and of
   bytesconv.go: appendQuotedPath, lowercaseBytes — as the code is written.

   Conventions: []byte = bytes; slice indices = nat; -1 = None; errors = the enum uerr (messages dropped).
   A URI value is the record `URI` of its byte fields; DisablePathNormalizing = false (the property's "path normalisation on")
   and parsedQueryArgs = false (QueryArgs() not called) throughout: RequestURI takes its `else if len(u.queryString) > 0` arm.
   In-place tricks are modelled by value: unescape overwrites its argument and parseHost re-appends the three decoded pieces
   into the same buffer (append = memmove, destination never ahead of the source), so the results are the decoded strings.
   normalizePath is Model/PathNorm.v; validateIPv6Literal, validOptionalPort, ishex, unhex are Model/IPv6.v.
   Tables and literal sets come from Gen/GenC27.v.  No proofs in this file. *)
From FH Require Import Model.Base Gen.GenC27 Model.IPv6 Model.PathNorm.
Open Scope N_scope.

Record URI := mkURI {
  u_scheme : bytes; u_host : bytes; u_pathOriginal : bytes; u_path : bytes;
  u_queryString : bytes; u_hash : bytes; u_username : bytes; u_password : bytes }.

Inductive uerr :=
| ErrorInvalidURI          (* control byte / bad userinfo *)
| ErrInvalidScheme
| ErrMissingBracket        (* "missing ']' in host" *)
| ErrInvalidPort
| ErrInvalidHost           (* '[' or ']' in a non-bracketed host *)
| ErrMultiplePorts
| ErrEscape                (* EscapeError *)
| ErrHostChar              (* InvalidHostError *)
| ErrIPv6 (e : v6err).

Inductive ures (A : Type) := UOk (v : A) | UErr (e : uerr).
Arguments UOk {A} v.
Arguments UErr {A} e.

(* func stringContainsCTLByte(s []byte) bool *)
Definition stringContainsCTLByte (s : bytes) : bool := existsb (fun b => (b <? 32) || (b =? 127)) s.

Definition inset (c : N) (set : list Z) : bool := existsb (Z.eqb (Z.of_N c)) set.
Definition isAlpha (c : N) : bool := ((97 <=? c) && (c <=? 122)) || ((65 <=? c) && (c <=? 90)).
Definition isAlnum (c : N) : bool := isAlpha c || ((48 <=? c) && (c <=? 57)).

(* func validUserinfo(userinfo []byte) bool *)
Definition validUserinfo (userinfo : bytes) : bool := forallb (fun c => isAlnum c || inset c userinfoChars) userinfo.

(* func isValidScheme(scheme []byte) bool *)
Definition isValidScheme (scheme : bytes) : bool :=
  match scheme with
  | [] => false
  | first :: rest => isAlpha first && forallb (fun c => isAlnum c || inset c schemeExtraChars) rest
  end.

(* func lowercaseBytes(b []byte) *)
Definition lowercaseBytes (b : bytes) : bytes := map (tbl toLowerTable) b.

Inductive encoding := encodeHost | encodeZone.

(* func shouldEscape(c byte, mode encoding) bool — mode is always encodeHost or encodeZone in fasthttp *)
Definition shouldEscape (c : N) (mode : encoding) : bool :=
  if isAlnum c then false
  else if inset c hostSubDelims then false                                  (* mode == encodeHost || mode == encodeZone *)
  else if (c =? 45) || (c =? 95) || (c =? 46) || (c =? 126) then false    (* '-' '_' '.' '~' *)
  else true.

Definition is_pct25 (c1 c2 : N) : bool := (c1 =? 50) && (c2 =? 53).       (* bytes.Equal(s[i:i+3], "%25") *)

(* the first loop of unescape (validation); None = no error *)
Fixpoint unescape_check (s : bytes) (mode : encoding) : option uerr :=
  match s with
  | [] => None
  | c :: r =>
      if c =? PCT then
        match r with
        | c1 :: c2 :: r' =>                                                  (* i+2 < len(s) *)
            if negb (ishex c1) || negb (ishex c2) then Some ErrEscape
            else if (match mode with encodeHost => true | _ => false end) && (unhex c1 <? 8) && negb (is_pct25 c1 c2) then Some ErrEscape
            else if (match mode with encodeZone => true | _ => false end)
                    && (let v := N.lor (N.shiftl (unhex c1) 4 mod 256) (unhex c2) in
                        negb (is_pct25 c1 c2) && negb (v =? SP) && shouldEscape v encodeHost) then Some ErrEscape
            else unescape_check r' mode                                      (* i += 3 *)
        | _ => Some ErrEscape
        end
      else if (c <? 128) && shouldEscape c mode then Some ErrHostChar
      else unescape_check r mode
  end.

(* the second loop of unescape (decoding) *)
Fixpoint unescape_decode (s : bytes) : bytes :=
  match s with
  | [] => []
  | c :: r =>
      if c =? PCT then
        match r with
        | c1 :: c2 :: r' => N.lor (N.shiftl (unhex c1) 4 mod 256) (unhex c2) :: unescape_decode r'
        | _ => [c]                                                           (* unreachable after unescape_check *)
        end
      else c :: unescape_decode r
  end.

(* func unescape(s []byte, mode encoding) ([]byte, error) *)
Definition unescape (s : bytes) (mode : encoding) : ures bytes :=
  match unescape_check s mode with
  | Some e => UErr e
  | None => UOk (unescape_decode s)        (* n == 0: s itself, which unescape_decode also returns *)
  end.

Definition v6_then (host : bytes) : ures bytes :=
  match validateIPv6Literal host with V6Nil => UOk host | e => UErr (ErrIPv6 e) end.

Definition strPct25 : bytes := [37; 50; 53].

(* func parseHost(host []byte) ([]byte, error) *)
Definition parseHost (host : bytes) : ures bytes :=
  let plain (host : bytes) :=
    match unescape host encodeHost with
    | UErr e => UErr e
    | UOk host => v6_then host
    end in
  match host with
  | c0 :: _ =>
      if c0 =? LBR then
        match IPv6.lastIdxByte host RBR with
        | None => UErr ErrMissingBracket
        | Some i =>
            let colonPort := skipn (S i) host in
            if negb (validOptionalPort colonPort) then UErr ErrInvalidPort else
            match index (firstn i host) strPct25 with
            | Some zone =>
                match unescape (firstn zone host) encodeHost with
                | UErr e => UErr e
                | UOk host1 =>
                    match unescape (skipn zone (firstn i host)) encodeZone with
                    | UErr e => UErr e
                    | UOk host2 =>
                        match unescape (skipn i host) encodeHost with
                        | UErr e => UErr e
                        | UOk host3 => v6_then (host1 ++ (host2 ++ host3))
                        end
                    end
                end
            | None => plain host
            end
        end
      else
        if (match IPv6.idxByte host LBR with Some _ => true | None => false end)
           || (match IPv6.idxByte host RBR with Some _ => true | None => false end) then UErr ErrInvalidHost
        else
          match IPv6.lastIdxByte host COLON with
          | Some i =>
              if (match IPv6.idxByte (firstn i host) COLON with Some _ => true | None => false end) then UErr ErrMultiplePorts
              else if negb (validOptionalPort (skipn i host)) then UErr ErrInvalidPort
              else plain host
          | None => plain host
          end
  | [] => plain host
  end.

(* smaller of two search results, as splitHostURI picks it: `if nq >= 0 && (n < 0 || nq < n) { n = nq }` *)
Definition pick_min (n nq : option nat) : option nat :=
  match nq with
  | Some q => match n with None => Some q | Some p => if Nat.ltb q p then Some q else Some p end
  | None => n
  end.

(* func splitHostURI(host, uri []byte) ([]byte, []byte, []byte) *)
Definition splitHostURI (host uri : bytes) : bytes * bytes * bytes :=
  match index uri uStrSlashSlash with
  | None => (uStrHTTP, host, uri)
  | Some n =>
      let scheme := firstn n uri in
      match IPv6.idxByte scheme SLASH with
      | Some _ => (uStrHTTP, host, uri)
      | None =>
          let scheme := match rev scheme with c :: _ => if c =? COLON then removelast scheme else scheme | [] => scheme end in
          let uri := skipn (n + length uStrSlashSlash) uri in
          let n := IPv6.idxByte uri SLASH in
          let n := pick_min n (IPv6.idxByte uri QM) in          (* a hack for urls like foobar.com?a=b/xyz *)
          let n := pick_min n (IPv6.idxByte uri HASH) in        (* a hack for urls like foobar.com#abc.com *)
          match n with
          | None => (scheme, uri, uStrSlash)
          | Some n => (scheme, firstn n uri, skipn n uri)
          end
      end
  end.

(* the part of URI.parse after the host has been parsed: query / fragment split of `b := uri` *)
Definition parse_tail (scheme host username password uri : bytes) : URI :=
  let b := uri in
  let queryIndex := IPv6.idxByte b QM in
  let fragmentIndex := IPv6.idxByte b HASH in
  (* ignore query in fragment part *)
  let queryIndex := match fragmentIndex, queryIndex with
                    | Some f, Some q => if Nat.ltb f q then None else Some q
                    | _, _ => queryIndex
                    end in
  match queryIndex, fragmentIndex with
  | None, None => mkURI scheme host b (normalizePath b) [] [] username password
  | Some q, None => mkURI scheme host (firstn q b) (normalizePath (firstn q b)) (skipn (S q) b) [] username password
  | Some q, Some f => mkURI scheme host (firstn q b) (normalizePath (firstn q b))
                            (firstn (f - S q) (skipn (S q) b)) (skipn (S f) b) username password
  | None, Some f => mkURI scheme host (firstn f b) (normalizePath (firstn f b)) [] (skipn (S f) b) username password
  end.

(* func (u *URI) parse(host, uri []byte, isTLS bool) error, isTLS = false (URI.Parse) *)
Definition parse (host uri : bytes) : ures URI :=
  if stringContainsCTLByte uri then UErr ErrorInvalidURI else
  let split := match host with [] => true | _ => match index uri uStrColonSlashSlash with Some _ => true | None => false end end in
  let '(schemeOk, scheme, host, uri) :=
    if split then
      let '(scheme, newHost, newURI) := splitHostURI host uri in
      (match scheme with [] => true | _ => isValidScheme scheme end, lowercaseBytes scheme, newHost, newURI)
    else (true, [], host, uri) in
  if negb schemeOk then UErr ErrInvalidScheme else
  let userinfo :=
    match IPv6.lastIdxByte host AT with
    | Some n =>
        let auth := firstn n host in
        if negb (validUserinfo auth) then None
        else Some (skipn (S n) host,
                   match IPv6.idxByte auth COLON with                    (* bytes.Cut(auth, ":") *)
                   | Some k => (firstn k auth, skipn (S k) auth)
                   | None => (auth, [])
                   end)
    | None => Some (host, ([], []))
    end in
  match userinfo with
  | None => UErr ErrorInvalidURI
  | Some (host, (username, password)) =>
      match parseHost host with
      | UErr e => UErr e
      | UOk parsedHost => UOk (parse_tail scheme (lowercaseBytes parsedHost) username password uri)
      end
  end.

(* ---- getters ---- *)
Definition Scheme (u : URI) : bytes := match u_scheme u with [] => uStrHTTP | s => s end.
Definition Path (u : URI) : bytes := match u_path u with [] => uStrSlash | p => p end.
Definition Host (u : URI) : bytes := u_host u.
Definition QueryString (u : URI) : bytes := u_queryString u.
Definition Hash (u : URI) : bytes := u_hash u.

(* func appendQuotedPath(dst, src []byte) []byte *)
Definition quote_byte (c : N) : bytes :=
  if negb (tbl quotedPathShouldEscapeTable c =? 0) then [PCT; tbl upperhex (N.shiftr c 4); tbl upperhex (N.land c 15)] else [c].
Definition appendQuotedPath (dst src : bytes) : bytes :=
  match src with
  | [c] => if c =? 42 then dst ++ [42] else dst ++ quote_byte c          (* len(src) == 1 && src[0] == '*' *)
  | _ => dst ++ flat_map quote_byte src
  end.

(* func (u *URI) RequestURI() []byte — DisablePathNormalizing = false, parsedQueryArgs = false *)
Definition RequestURI (u : URI) : bytes :=
  let dst := appendQuotedPath [] (Path u) in
  match u_queryString u with
  | [] => dst
  | qs => (dst ++ [QM]) ++ qs
  end.

(* func (u *URI) appendSchemeHost(dst []byte) []byte *)
Definition appendSchemeHost (dst : bytes) (u : URI) : bytes := ((dst ++ Scheme u) ++ uStrColonSlashSlash) ++ Host u.

(* func (u *URI) AppendBytes(dst []byte) []byte *)
Definition AppendBytes (dst : bytes) (u : URI) : bytes :=
  let dst := appendSchemeHost dst u in
  let dst := dst ++ RequestURI u in
  match u_hash u with
  | [] => dst
  | h => (dst ++ [HASH]) ++ h
  end.

(* func (u *URI) FullURI() []byte *)
Definition FullURI (u : URI) : bytes := AppendBytes [] u.
