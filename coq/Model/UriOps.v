(* UriOps.v — the rest of the URI object's public API (uri.go), on top of Model/Uri.v: the setters, CopyTo, Reset, QueryArgs()
   (parsedQueryArgs + queryArgs), DisablePathNormalizing, RequestURI/FullURI in all their branches, Update/UpdateBytes with
   isAuthorityDelimiter.  A URI object is `ustate`: the byte fields, the parsedQueryArgs flag, the parsed args (Model/Args.v:
   only their live entries are observable here) and the DisablePathNormalizing flag.  The fullURI/requestURI scratch buffers
   hold nothing that is read back, so they are not state.  No proofs in this file. *)
From FH Require Import Model.Base Gen.GenC27 Model.IPv6 Model.PathNorm Model.Uri.
From FH Require Model.Args.
Open Scope N_scope.

Record ustate := mkUS { us_uri : URI; us_parsed : bool; us_args : Args.args; us_raw : bool }.

Definition emptyURI : URI := mkURI [] [] [] [] [] [] [] [].
(* func (u *URI) Reset() *)
Definition uReset : ustate := mkUS emptyURI false Args.emptyArgs false.
Definition of_parse (u : URI) : ustate := mkUS u false Args.emptyArgs false.     (* parse starts with u.Reset() *)

Definition with_uri (st : ustate) (u : URI) : ustate := mkUS u (us_parsed st) (us_args st) (us_raw st).
Definition set_scheme (u : URI) v := mkURI v (u_host u) (u_pathOriginal u) (u_path u) (u_queryString u) (u_hash u) (u_username u) (u_password u).
Definition set_host (u : URI) v := mkURI (u_scheme u) v (u_pathOriginal u) (u_path u) (u_queryString u) (u_hash u) (u_username u) (u_password u).
Definition set_path (u : URI) po p := mkURI (u_scheme u) (u_host u) po p (u_queryString u) (u_hash u) (u_username u) (u_password u).
Definition set_qs (u : URI) v := mkURI (u_scheme u) (u_host u) (u_pathOriginal u) (u_path u) v (u_hash u) (u_username u) (u_password u).
Definition set_hash (u : URI) v := mkURI (u_scheme u) (u_host u) (u_pathOriginal u) (u_path u) (u_queryString u) v (u_username u) (u_password u).
Definition set_user (u : URI) v := mkURI (u_scheme u) (u_host u) (u_pathOriginal u) (u_path u) (u_queryString u) (u_hash u) v (u_password u).
Definition set_pw (u : URI) v := mkURI (u_scheme u) (u_host u) (u_pathOriginal u) (u_path u) (u_queryString u) (u_hash u) (u_username u) v.

(* SetScheme/SetSchemeBytes, SetHost/SetHostBytes (lower-cased), SetPath/SetPathBytes (normalised), SetQueryString(Bytes)
   (forgets the parsed args), SetHash(Bytes), SetUsername(Bytes), SetPassword(Bytes) *)
Definition SetScheme (st : ustate) (v : bytes) := with_uri st (set_scheme (us_uri st) (lowercaseBytes v)).
Definition SetHost (st : ustate) (v : bytes) := with_uri st (set_host (us_uri st) (lowercaseBytes v)).
Definition SetPath (st : ustate) (v : bytes) := with_uri st (set_path (us_uri st) v (normalizePath v)).
Definition SetQueryString (st : ustate) (v : bytes) := mkUS (set_qs (us_uri st) v) false (us_args st) (us_raw st).
Definition SetHash (st : ustate) (v : bytes) := with_uri st (set_hash (us_uri st) v).
Definition SetUsername (st : ustate) (v : bytes) := with_uri st (set_user (us_uri st) v).
Definition SetPassword (st : ustate) (v : bytes) := with_uri st (set_pw (us_uri st) v).

(* func (u *URI) parseQueryArgs(): None = the args model ran out of fuel (never) *)
Definition QueryArgs (st : ustate) : option ustate :=
  if us_parsed st then Some st
  else match Args.ParseBytes (us_args st) (u_queryString (us_uri st)) with
       | Some a => Some (mkUS (us_uri st) true a (us_raw st))
       | None => None
       end.

(* func (u *URI) RequestURI() []byte — all branches *)
Definition RequestURI_st (st : ustate) : bytes :=
  let u := us_uri st in
  let dst := if us_raw st then u_pathOriginal u else appendQuotedPath [] (Path u) in
  if us_parsed st && (0 <? Args.Len (us_args st))%Z then (dst ++ [QM]) ++ Args.AppendBytes (us_args st) []
  else match u_queryString u with [] => dst | qs => (dst ++ [QM]) ++ qs end.
Definition FullURI_st (st : ustate) : bytes :=
  let u := us_uri st in
  let dst := appendSchemeHost [] u ++ RequestURI_st st in
  match u_hash u with [] => dst | h => (dst ++ [HASH]) ++ h end.

(* func isAuthorityDelimiter(uri []byte, n int) bool *)
Definition isAuthorityDelimiter (uri : bytes) (n : nat) : bool :=
  match n with
  | O => true
  | _ => let scheme := firstn n uri in
         match rev scheme with
         | c :: _ => if negb (c =? COLON) then false
                     else match removelast scheme with [] => true | s => isValidScheme s end
         | [] => true
         end
  end.

Definition parse_st (host uri : bytes) : option ustate :=
  match parse host uri with UOk u => Some (of_parse u) | UErr _ => None end.

(* func (u *URI) updateBytes(newURI, buf []byte) []byte.  None = the inner Parse failed: the object is left half-reset
   (its host buffer possibly rewritten in place by unescape), a state this model does not describe. *)
Definition Update (st : ustate) (newURI : bytes) : option ustate :=
  let u := us_uri st in
  match newURI with
  | [] => Some st
  | c0 :: rest =>
      let abs := match index newURI uStrSlashSlash with Some n => isAuthorityDelimiter newURI n | None => false end in
      if abs then
        match parse_st [] newURI with
        | None => None
        | Some st' =>
            match u_scheme u, u_scheme (us_uri st') with
            | _ :: _, [] => Some (with_uri st' (set_scheme (us_uri st') (u_scheme u)))      (* the original scheme is preserved *)
            | _, _ => Some st'
            end
        end
      else if c0 =? SLASH then parse_st [] (appendSchemeHost [] u ++ newURI)
      else if c0 =? QM then Some (SetQueryString st rest)
      else if c0 =? HASH then Some (SetHash st rest)
      else
        let path := Path u in
        match IPv6.lastIdxByte path SLASH with
        | None => None                                        (* panic("BUG: path must contain at least one slash") *)
        | Some n => parse_st [] ((appendSchemeHost [] u ++ flat_map quote_byte (firstn (S n) path)) ++ newURI)
        end
  end.

(* operations the harness drives *)
Inductive uop :=
| USetScheme (v : bytes) | USetHost (v : bytes) | USetPath (v : bytes) | USetQueryString (v : bytes) | USetHash (v : bytes)
| USetUsername (v : bytes) | USetPassword (v : bytes)
| UQueryArgs | UCopyTo | URaw (b : bool) | UUpdate (v : bytes) | UParse (host uri : bytes) | UReset.

Definition ustep (st : ustate) (o : uop) : option ustate :=
  match o with
  | USetScheme v => Some (SetScheme st v) | USetHost v => Some (SetHost st v) | USetPath v => Some (SetPath st v)
  | USetQueryString v => Some (SetQueryString st v) | USetHash v => Some (SetHash st v)
  | USetUsername v => Some (SetUsername st v) | USetPassword v => Some (SetPassword st v)
  | UQueryArgs => QueryArgs st
  | UCopyTo => Some st                                   (* the copy has the same fields, args and flags *)
  | URaw b => Some (mkUS (us_uri st) (us_parsed st) (us_args st) b)
  | UUpdate v => Update st v
  | UParse h u => parse_st h u
  | UReset => Some uReset
  end.
