(* Model of workerpool.go (property C13): a labelled transition system whose labels are
   exactly the code's lock regions and channel operations.

     Serve(c)      = (GetChPop c | GetChSpawn c | GetChFail c) ; Send c
     workerFunc    = loop { WorkerRecv ; WorkerServe ; WorkerStamp ; WorkerRelease } ; WorkerExit
     clean         = CleanBegin (time.Now) ; CleanCollect (locked region) ; CleanNotify* (outside the lock)
     Stop          = one locked region: nil to every ready channel, ready = [], mustStop = true

   Any number of acceptor threads (one per connection handed to Serve), any number of workers,
   one cleaner goroutine (Start creates exactly one), Stop called at most once.
   Time is logical (Z, nanoseconds); `Tick` advances the clock.

   A channel send is a step that is enabled only when the Go send would not block:
     cap >= 1 : fewer than cap items queued;   cap = 0 : the receiver is parked in `range ch.ch`
   (then WorkerRecv completes the rendezvous).  A send to a worker that does not exist is `None`
   here; Properties/C13.v proves that every pending send of a reachable state is enabled, so
   this never hides a behaviour of the code.

   No proofs in this file. *)
From Coq Require Import List ZArith Bool Arith.
Import ListNotations.
Open Scope Z_scope.

Definition wid := nat.
Definition conn := nat.

Inductive item := INil | IConn (c : conn).

(* program counter of a worker goroutine (workerFunc) *)
Inductive wpc :=
| WWait                (* parked at `for c = range ch.ch` *)
| WBusy (c : conn)     (* received c, inside wp.WorkerFunc(c) *)
| WStamp               (* WorkerFunc returned, conn closed / reported hijacked; about to call release *)
| WRel (t : Z)         (* release: ch.lastUseTime = t written, waiting for wp.lock *)
| WExiting.            (* left the loop, waiting for wp.lock to do workersCount-- *)

Record wstate := mkW { pc : wpc; ch : list item }.

(* an entry of wp.ready: the worker, its lastUseTime, and (ghost) the time it was appended *)
Record rent := mkR { r_w : wid; r_stamp : Z; r_enq : Z }.

Inductive cleaner :=
| CIdle
| CCrit (crit : Z)            (* criticalTime computed, waiting for wp.lock *)
| CNotify (ws : list wid).    (* scratch: workers still to be sent nil, outside the lock *)

Record cfg := mkCfg { cap : Z; maxw : Z; maxIdle : Z }.

Record st := mkSt {
  ready : list rent;                  (* wp.ready, oldest first; getCh pops the last *)
  wk : wid -> option wstate;          (* live worker goroutines and their channels *)
  nextw : wid;                        (* fresh worker ids *)
  wcount : Z;                         (* wp.workersCount *)
  mustStop : bool;                    (* wp.mustStop *)
  clock : Z;
  seen : list conn;                   (* connections handed to Serve so far *)
  rejected : list conn;               (* Serve returned false *)
  holding : list (conn * wid);        (* acceptors between getCh and `ch.ch <- c` *)
  cln : cleaner;
  served : list (conn * wid * bool)   (* log of WorkerFunc calls: conn, worker, hijacked? *)
}.

Inductive label :=
| GetChPop (c : conn) | GetChSpawn (c : conn) | GetChFail (c : conn)
| Send (c : conn)
| WorkerRecv (w : wid)
| WorkerServe (w : wid) (hij : bool)
| WorkerStamp (w : wid)
| WorkerRelease (w : wid) (ok : bool)
| WorkerExit (w : wid)
| CleanBegin
| CleanCollect (k : Z)
| CleanNotify
| Stop
| Tick (d : Z).

Definition init : st := mkSt [] (fun _ => None) O 0 false 0 [] [] [] CIdle [].

Definition upd {A} (f : nat -> A) (k : nat) (v : A) : nat -> A :=
  fun x => if Nat.eqb x k then v else f x.

Fixpoint cnt (x : nat) (l : list nat) : nat :=
  match l with [] => O | y :: r => (if Nat.eqb y x then 1 else 0) + cnt x r end.
Definition memb (x : nat) (l : list nat) : bool := existsb (Nat.eqb x) l.

Fixpoint unsnoc {A} (l : list A) : option (list A * A) :=
  match l with
  | [] => None
  | x :: r => match unsnoc r with None => Some ([], x) | Some (r', y) => Some (x :: r', y) end
  end.

(* remove the acceptor entry of conn c *)
Fixpoint take_hold (c : conn) (h : list (conn * wid)) : option (wid * list (conn * wid)) :=
  match h with
  | [] => None
  | (c', w) :: r =>
      if Nat.eqb c' c then Some (w, r)
      else match take_hold c r with Some (w', r') => Some (w', (c', w) :: r') | None => None end
  end.

(* getMaxIdleWorkerDuration *)
Definition defaultIdle : Z := 10 * 1000000000.
Definition effIdle (cf : cfg) : Z := if maxIdle cf <=? 0 then defaultIdle else maxIdle cf.

(* would `ch <- x` complete now? *)
Definition can_send (cf : cfg) (x : wstate) : bool :=
  if cap cf <=? 0
  then match pc x, ch x with WWait, [] => true | _, _ => false end
  else Z.of_nat (length (ch x)) <? cap cf.

Definition push (f : wid -> option wstate) (w : wid) (it : item) : wid -> option wstate :=
  match f w with
  | Some x => upd f w (Some (mkW (pc x) (ch x ++ [it])))
  | None => f
  end.

Definition sendable (cf : cfg) (f : wid -> option wstate) (w : wid) : bool :=
  match f w with Some x => can_send cf x | None => false end.

(* the binary search of clean: returns r (-1 .. n-1); None = out of fuel / index panic *)
Fixpoint bsearch (fuel : nat) (crit : Z) (rd : list rent) (l r : Z) : option Z :=
  if l <=? r then
    match fuel with
    | O => None
    | S f =>
        let mid := (l + r) / 2 in
        match nth_error rd (Z.to_nat mid) with
        | Some e =>
            if crit >? r_stamp e                      (* criticalTime.After(lastUseTime) *)
            then bsearch f crit rd (mid + 1) r
            else bsearch f crit rd l (mid - 1)
        | None => None
        end
    end
  else Some r.

Definition clean_index (crit : Z) (rd : list rent) : option Z :=
  bsearch (S (length rd)) crit rd 0 (Z.of_nat (length rd) - 1).

Definition set_wk (s : st) (f : wid -> option wstate) : st :=
  mkSt (ready s) f (nextw s) (wcount s) (mustStop s) (clock s) (seen s) (rejected s) (holding s) (cln s) (served s).

Definition step (cf : cfg) (s : st) (l : label) : option st :=
  match l with
  | GetChPop c =>
      if memb c (seen s) then None else
      match unsnoc (ready s) with
      | Some (rd', r) =>
          Some (mkSt rd' (wk s) (nextw s) (wcount s) (mustStop s) (clock s) (c :: seen s) (rejected s)
                     ((c, r_w r) :: holding s) (cln s) (served s))
      | None => None
      end
  | GetChSpawn c =>
      if memb c (seen s) then None else
      match ready s with
      | [] =>
          if wcount s <? maxw cf then
            Some (mkSt [] (upd (wk s) (nextw s) (Some (mkW WWait []))) (S (nextw s)) (wcount s + 1) (mustStop s)
                       (clock s) (c :: seen s) (rejected s) ((c, nextw s) :: holding s) (cln s) (served s))
          else None
      | _ => None
      end
  | GetChFail c =>
      if memb c (seen s) then None else
      match ready s with
      | [] =>
          if wcount s <? maxw cf then None else
            Some (mkSt [] (wk s) (nextw s) (wcount s) (mustStop s) (clock s) (c :: seen s) (c :: rejected s)
                       (holding s) (cln s) (served s))
      | _ => None
      end
  | Send c =>
      match take_hold c (holding s) with
      | Some (w, h') =>
          if sendable cf (wk s) w then
            Some (mkSt (ready s) (push (wk s) w (IConn c)) (nextw s) (wcount s) (mustStop s) (clock s) (seen s)
                       (rejected s) h' (cln s) (served s))
          else None
      | None => None
      end
  | WorkerRecv w =>
      match wk s w with
      | Some (mkW WWait (it :: rest)) =>
          let p := match it with INil => WExiting | IConn c => WBusy c end in
          Some (set_wk s (upd (wk s) w (Some (mkW p rest))))
      | _ => None
      end
  | WorkerServe w hij =>
      match wk s w with
      | Some (mkW (WBusy c) q) =>
          Some (mkSt (ready s) (upd (wk s) w (Some (mkW WStamp q))) (nextw s) (wcount s) (mustStop s) (clock s)
                     (seen s) (rejected s) (holding s) (cln s) ((c, w, hij) :: served s))
      | _ => None
      end
  | WorkerStamp w =>
      match wk s w with
      | Some (mkW WStamp q) => Some (set_wk s (upd (wk s) w (Some (mkW (WRel (clock s)) q))))
      | _ => None
      end
  | WorkerRelease w ok =>
      match wk s w with
      | Some (mkW (WRel t) q) =>
          if mustStop s then
            if ok then None else Some (set_wk s (upd (wk s) w (Some (mkW WExiting q))))
          else
            if ok then
              Some (mkSt (ready s ++ [mkR w t (clock s)]) (upd (wk s) w (Some (mkW WWait q))) (nextw s) (wcount s)
                         (mustStop s) (clock s) (seen s) (rejected s) (holding s) (cln s) (served s))
            else None
      | _ => None
      end
  | WorkerExit w =>
      match wk s w with
      | Some (mkW WExiting q) =>
          Some (mkSt (ready s) (upd (wk s) w None) (nextw s) (wcount s - 1) (mustStop s) (clock s) (seen s)
                     (rejected s) (holding s) (cln s) (served s))
      | _ => None
      end
  | CleanBegin =>
      match cln s with
      | CIdle => Some (mkSt (ready s) (wk s) (nextw s) (wcount s) (mustStop s) (clock s) (seen s) (rejected s)
                            (holding s) (CCrit (clock s - effIdle cf)) (served s))
      | _ => None
      end
  | CleanCollect k =>
      match cln s with
      | CCrit crit =>
          match clean_index crit (ready s) with
          | Some i =>
              if negb (k =? i + 1) then None else
              if i =? -1 then
                Some (mkSt (ready s) (wk s) (nextw s) (wcount s) (mustStop s) (clock s) (seen s) (rejected s)
                           (holding s) CIdle (served s))
              else
                let n := Z.to_nat (i + 1) in
                Some (mkSt (skipn n (ready s)) (wk s) (nextw s) (wcount s) (mustStop s) (clock s) (seen s) (rejected s)
                           (holding s) (CNotify (map r_w (firstn n (ready s)))) (served s))
          | None => None
          end
      | _ => None
      end
  | CleanNotify =>
      match cln s with
      | CNotify [] =>
          Some (mkSt (ready s) (wk s) (nextw s) (wcount s) (mustStop s) (clock s) (seen s) (rejected s)
                     (holding s) CIdle (served s))
      | CNotify (w :: rest) =>
          if sendable cf (wk s) w then
            Some (mkSt (ready s) (push (wk s) w INil) (nextw s) (wcount s) (mustStop s) (clock s) (seen s) (rejected s)
                       (holding s) (match rest with [] => CIdle | _ => CNotify rest end) (served s))
          else None
      | _ => None
      end
  | Stop =>
      if mustStop s then None else
      if forallb (fun r => sendable cf (wk s) (r_w r)) (ready s) then
        Some (mkSt [] (fold_left (fun f r => push f (r_w r) INil) (ready s) (wk s)) (nextw s) (wcount s) true (clock s)
                   (seen s) (rejected s) (holding s) (cln s) (served s))
      else None
  | Tick d =>
      if d <? 0 then None else
        Some (mkSt (ready s) (wk s) (nextw s) (wcount s) (mustStop s) (clock s + d) (seen s) (rejected s) (holding s)
                   (cln s) (served s))
  end.

Fixpoint run (cf : cfg) (s : st) (tr : list label) : option st :=
  match tr with
  | [] => Some s
  | l :: r => match step cf s l with Some s' => run cf s' r | None => None end
  end.

Inductive reach (cf : cfg) : st -> Prop :=
| reach_init : reach cf init
| reach_step s l s' : reach cf s -> step cf s l = Some s' -> reach cf s'.

(* labels that are not new inputs from the environment (a new Serve call, the clock, a new clean pass, Stop) *)
Definition internal (l : label) : bool :=
  match l with
  | Send _ | WorkerRecv _ | WorkerServe _ _ | WorkerStamp _ | WorkerRelease _ _ | WorkerExit _
  | CleanCollect _ | CleanNotify => true
  | _ => false
  end.

Definition clist (c : cleaner) : list wid := match c with CNotify ws => ws | _ => [] end.

Definition idle_worker (o : option wstate) : bool :=
  match o with
  | None => true
  | Some (mkW WWait []) => true
  | _ => false
  end.

(* nothing left to do without new input *)
Definition quiescent (s : st) : bool :=
  match holding s, cln s with
  | [], CIdle => forallb (fun w => idle_worker (wk s w)) (seq 0 (nextw s))
  | _, _ => false
  end.

(* observables used by the correspondence check *)
Definition ready_ids (s : st) : list wid := map r_w (ready s).
