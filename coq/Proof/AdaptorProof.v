(* Proofs for C36: the adaptor's writer + fasthttp's ResponseHeader against net/http's ResponseWriter. *)
From FH Require Import Model.Base Gen.GenC36 Spec.NetHttpRW Model.Adaptor.
From Coq Require Import Lia ZifyBool ZifyN ZifyNat.
Open Scope N_scope.

(* ------------------------------------------------------------------ *)
(* basics *)
Lemma beq_false_neq a b : beq a b = false <-> a <> b.
Proof.
  split.
  - intros H E. subst. rewrite beq_refl in H. discriminate.
  - intros H. destruct (beq a b) eqn:E; [|reflexivity]. apply beq_eq in E. contradiction.
Qed.

Lemma beq_sym a b : beq a b = beq b a.
Proof.
  destruct (beq a b) eqn:E.
  - apply beq_eq in E. subst. now rewrite beq_refl.
  - symmetry. apply beq_false_neq. apply beq_false_neq in E. congruence.
Qed.

Lemma ieq_refl a : ieq a a = true.
Proof. unfold ieq. apply beq_refl. Qed.
Lemma ieq_sym a b : ieq a b = ieq b a.
Proof. unfold ieq. apply beq_sym. Qed.

Lemma f_get_app a b n : f_get (a ++ b) n = f_get a n ++ f_get b n.
Proof. unfold f_get. now rewrite filter_app, map_app. Qed.

Lemma f_get_nil n : f_get [] n = [].
Proof. reflexivity. Qed.

(* ------------------------------------------------------------------ *)
(* http.Header as an association list with unique keys *)
Definition keys (h : hmap) : list bytes := map fst h.

Lemma h_get_notin h k : ~ In k (keys h) -> h_get h k = [].
Proof.
  induction h as [|[k' vs] r IH]; cbn; [reflexivity|].
  intros H. destruct (beq k' k) eqn:E.
  - apply beq_eq in E. subst. exfalso. apply H. now left.
  - apply IH. intros Hin. apply H. now right.
Qed.

Lemma keys_h_add h k v : forall x, In x (keys (h_add h k v)) <-> In x (keys h) \/ x = k.
Proof.
  induction h as [|[k' vs] r IH]; cbn; intros x.
  - split; [intros [H|[]]; auto | intros [[]|H]; auto].
  - destruct (beq k' k) eqn:E; cbn.
    + apply beq_eq in E. subst. split; [intros [H|H]; auto | intros [[H|H]|H]; auto].
    + rewrite IH. split; [intros [H|[H|H]]; auto | intros [[H|H]|H]; auto].
Qed.
Lemma keys_h_set h k v : forall x, In x (keys (h_set h k v)) <-> In x (keys h) \/ x = k.
Proof.
  induction h as [|[k' vs] r IH]; cbn; intros x.
  - split; [intros [H|[]]; auto | intros [[]|H]; auto].
  - destruct (beq k' k) eqn:E; cbn.
    + apply beq_eq in E. subst. split; [intros [H|H]; auto | intros [[H|H]|H]; auto].
    + rewrite IH. split; [intros [H|[H|H]]; auto | intros [[H|H]|H]; auto].
Qed.
Lemma keys_h_del h k : forall x, In x (keys (h_del h k)) <-> In x (keys h) /\ x <> k.
Proof.
  induction h as [|[k' vs] r IH]; cbn; intros x; [tauto|].
  destruct (beq k' k) eqn:E; cbn.
  - apply beq_eq in E. subst. rewrite IH. split; [tauto|]. intros [[H|H] Hn]; [congruence|tauto].
  - apply beq_false_neq in E. rewrite IH. split.
    + intros [H|H]; [subst; auto | tauto].
    + intros [[H|H] Hn]; [auto | tauto].
Qed.

Lemma nodup_h_add h k v : NoDup (keys h) -> NoDup (keys (h_add h k v)).
Proof.
  induction h as [|[k' vs] r IH]; cbn; intros H.
  - constructor; [intros []|constructor].
  - inversion H as [|? ? Hn Hr]; subst. destruct (beq k' k) eqn:E; cbn.
    + now constructor.
    + constructor; [|now apply IH]. intros Hin. apply keys_h_add in Hin as [Hin|Hin]; [contradiction|].
      subst. rewrite beq_refl in E. discriminate.
Qed.
Lemma nodup_h_set h k v : NoDup (keys h) -> NoDup (keys (h_set h k v)).
Proof.
  induction h as [|[k' vs] r IH]; cbn; intros H.
  - constructor; [intros []|constructor].
  - inversion H as [|? ? Hn Hr]; subst. destruct (beq k' k) eqn:E; cbn.
    + now constructor.
    + constructor; [|now apply IH]. intros Hin. apply keys_h_set in Hin as [Hin|Hin]; [contradiction|].
      subst. rewrite beq_refl in E. discriminate.
Qed.
Lemma nodup_h_del h k : NoDup (keys h) -> NoDup (keys (h_del h k)).
Proof.
  induction h as [|[k' vs] r IH]; cbn; intros H; [constructor|].
  inversion H as [|? ? Hn Hr]; subst. destruct (beq k' k); cbn; [now apply IH|].
  constructor; [|now apply IH]. intros Hin. apply keys_h_del in Hin. tauto.
Qed.

Lemma h_get_h_del h k n : h_get (h_del h k) n = if beq k n then [] else h_get h n.
Proof.
  unfold h_del. induction h as [|[k' vs] r IH]; cbn [filter h_get fst].
  - now destruct (beq k n).
  - destruct (beq k' k) eqn:E; cbn [negb h_get].
    + apply beq_eq in E. subst. rewrite IH. now destruct (beq k n).
    + rewrite IH. destruct (beq k' n) eqn:E2; [|reflexivity].
      apply beq_eq in E2. subst. rewrite beq_sym, E. reflexivity.
Qed.

(* hdr_step keeps keys unique and only introduces canonical keys of the names used *)
Definition op_name (o : op) : option bytes :=
  match o with HAdd k _ | HSet k _ | HDel k => Some k | _ => None end.

Lemma nodup_hdr_step h o : NoDup (keys h) -> NoDup (keys (hdr_step h o)).
Proof. destruct o; cbn; auto using nodup_h_add, nodup_h_set, nodup_h_del. Qed.

Lemma keys_hdr_step (P : bytes -> Prop) h o :
  (forall k, In k (keys h) -> P k) -> (forall k, op_name o = Some k -> P (canon k)) ->
  forall k, In k (keys (hdr_step h o)) -> P k.
Proof.
  intros Hh Ho k. destruct o; cbn; auto.
  - intros H. apply keys_h_add in H as [H| ->]; auto.
  - intros H. apply keys_h_set in H as [H| ->]; auto.
  - intros H. apply keys_h_del in H as [H _]; auto.
Qed.

(* ------------------------------------------------------------------ *)
(* spec side: the wire fields of a header map, per name *)
Lemma hmap_fields_cons k vs r : hmap_fields ((k, vs) :: r) = map (fun v => (k, wire_val v)) vs ++ hmap_fields r.
Proof. reflexivity. Qed.

Lemma f_get_entry_other k n vs : beq k n = false -> f_get (map (fun v => (k, wire_val v)) vs) n = [].
Proof.
  intros E. induction vs as [|v vs IH]; [reflexivity|]. unfold f_get in *. cbn. now rewrite E.
Qed.

Lemma f_get_hmap_fields_notin h n : ~ In n (keys h) -> f_get (hmap_fields h) n = [].
Proof.
  induction h as [|[k vs] r IH]; [reflexivity|]. intros H. rewrite hmap_fields_cons.
  rewrite f_get_app, IH by (intros Hx; apply H; now right). rewrite app_nil_r.
  apply f_get_entry_other. apply beq_false_neq. intros ->. apply H. now left.
Qed.

Lemma f_get_entry_same k vs : f_get (map (fun v => (k, wire_val v)) vs) k = map wire_val vs.
Proof.
  induction vs as [|v vs IH]; [reflexivity|]. unfold f_get in *. cbn. rewrite beq_refl. cbn. now rewrite IH.
Qed.
Lemma f_get_hmap_fields h n : NoDup (keys h) -> f_get (hmap_fields h) n = map wire_val (h_get h n).
Proof.
  induction h as [|[k vs] r IH]; [reflexivity|]. intros H. inversion H as [|? ? Hn Hr]; subst.
  rewrite hmap_fields_cons, f_get_app. cbn [h_get]. destruct (beq k n) eqn:E.
  - apply beq_eq in E. subst. rewrite f_get_entry_same, f_get_hmap_fields_notin by assumption. now rewrite app_nil_r.
  - rewrite f_get_entry_other by assumption. now apply IH.
Qed.

(* ------------------------------------------------------------------ *)
(* adaptor side: ResponseHeader.Add over the flattened header map *)
Definition flat (h : hmap) : list (bytes * bytes) := flat_map (fun e => map (fun v => (fst e, v)) (snd e)) h.
Definition nvals (l : list (bytes * bytes)) (n : bytes) : list bytes := map snd (filter (fun kv => beq (fst kv) n) l).
Definition fh_fold (l : list (bytes * bytes)) (f : fhdr) : fhdr := fold_left (fun f kv => fh_add f (fst kv) (snd kv)) l f.

Lemma fh_of_hmap_flat h : fh_of_hmap h = fh_fold (flat h) f_init.
Proof.
  unfold fh_of_hmap, fh_fold. generalize f_init. induction h as [|[k vs] r IH]; intros f; cbn; [reflexivity|].
  rewrite fold_left_app, IH. f_equal. clear. revert f. induction vs as [|v vs IHv]; intros f; cbn; [reflexivity|]. apply IHv.
Qed.

Lemma nvals_app a b n : nvals (a ++ b) n = nvals a n ++ nvals b n.
Proof. unfold nvals. now rewrite filter_app, map_app. Qed.

Lemma flat_cons k vs r : flat ((k, vs) :: r) = map (fun v => (k, v)) vs ++ flat r.
Proof. reflexivity. Qed.

Lemma nvals_entry_same n vs : nvals (map (fun v => (n, v)) vs) n = vs.
Proof. induction vs as [|v vs IH]; [reflexivity|]. unfold nvals in *. cbn. rewrite beq_refl. cbn. now rewrite IH. Qed.
Lemma nvals_entry_other k n vs : beq k n = false -> nvals (map (fun v => (k, v)) vs) n = [].
Proof. intros E. induction vs as [|v vs IH]; [reflexivity|]. unfold nvals in *. cbn. now rewrite E. Qed.

Lemma nvals_flat_notin h n : ~ In n (keys h) -> nvals (flat h) n = [].
Proof.
  induction h as [|[k vs] r IH]; [reflexivity|]. intros H. rewrite flat_cons, nvals_app.
  rewrite IH by (intros Hx; apply H; now right). rewrite app_nil_r.
  apply nvals_entry_other. apply beq_false_neq. intros ->. apply H. now left.
Qed.

Lemma nvals_flat h n : NoDup (keys h) -> nvals (flat h) n = h_get h n.
Proof.
  induction h as [|[k vs] r IH]; [reflexivity|]. intros H. inversion H as [|? ? Hn Hr]; subst.
  rewrite flat_cons, nvals_app. cbn [h_get]. destruct (beq k n) eqn:E.
  - apply beq_eq in E. subst. rewrite nvals_entry_same, nvals_flat_notin by assumption. now rewrite app_nil_r.
  - rewrite nvals_entry_other by assumption. now apply IH.
Qed.

Definition fhkey (k : bytes) : bytes := canon (remove_newlines k).

(* which class a key falls in must be decided by its exact spelling (true of canonical token names: class_exact_canon) *)
Definition class_exact (k : bytes) : Prop :=
  match classify k with
  | KContentType => k = hdrContentType
  | KContentEncoding => k = hdrContentEncoding
  | KServer => k = hdrServer
  | KSetCookie => k = hdrSetCookie
  | _ => True
  end.

Definition is_singleton_class (c : hclass) : bool :=
  match c with KContentType | KContentEncoding | KServer => true | _ => false end.

(* an entry in the flattened map is handled like net/http handles it *)
Definition entry_ok (before : list (bytes * bytes)) (kv : bytes * bytes) : Prop :=
  fhkey (fst kv) = fst kv /\ class_exact (fst kv) /\
  (is_singleton_class (classify (fst kv)) = true -> snd kv <> [] /\ nvals before (fst kv) = []).

Definition all_ok (l : list (bytes * bytes)) : Prop :=
  forall l1 kv l2, l = l1 ++ kv :: l2 -> entry_ok l1 kv.

Definition lines_of (f : fhdr) : list (bytes * bytes) := client_fields (fh_lines f).

Lemma client_fields_app a b : client_fields (a ++ b) = client_fields a ++ client_fields b.
Proof. unfold client_fields. apply map_app. Qed.

Lemma f_get_client_opt k v n : beq k n = false -> f_get (client_fields (opt_line k v)) n = [].
Proof. intros E. destruct v; [reflexivity|]. unfold f_get. cbn. now rewrite E. Qed.

Lemma f_get_client_cons k v l n :
  f_get (client_fields ((k, v) :: l)) n = (if beq k n then [trim_ows v] else []) ++ f_get (client_fields l) n.
Proof. unfold f_get, client_fields. cbn. destruct (beq k n); reflexivity. Qed.

Lemma f_get_client_filter_date l n :
  beq hdrDate n = false ->
  f_get (client_fields (filter (fun kv => negb (beq (fst kv) hdrDate)) l)) n = f_get (client_fields l) n.
Proof.
  intros E. induction l as [|[k v] r IH]; [reflexivity|]. cbn [filter fst].
  destruct (beq k hdrDate) eqn:Ek; cbn [negb].
  - rewrite IH, f_get_client_cons. apply beq_eq in Ek. subst. now rewrite E.
  - now rewrite !f_get_client_cons, IH.
Qed.

Lemma f_get_client_set_arg l k v n :
  beq k n = false -> f_get (client_fields (set_arg l k v)) n = f_get (client_fields l) n.
Proof.
  intros E. induction l as [|[k' v'] r IH]; cbn [set_arg].
  - rewrite f_get_client_cons, E. reflexivity.
  - destruct (beq k' k) eqn:Ek.
    + apply beq_eq in Ek. subst. now rewrite !f_get_client_cons, E.
    + now rewrite !f_get_client_cons, IH.
Qed.

Lemma excluded_of_ieq k S :
  ieq S k = true ->
  (S = hdrDate \/ S = hdrContentLength \/ S = hdrConnection \/ S = hdrTransferEncoding \/ S = hdrTrailer) ->
  excluded_name k = true.
Proof.
  intros H HS. unfold excluded_name. rewrite ieq_sym in H.
  destruct HS as [->|[->|[->|[->| ->]]]];
  [change hdrDate with (s2b "Date") in H | change hdrContentLength with (s2b "Content-Length") in H
  |change hdrConnection with (s2b "Connection") in H | change hdrTransferEncoding with (s2b "Transfer-Encoding") in H
  |change hdrTrailer with (s2b "Trailer") in H]; rewrite H; now rewrite ?orb_true_r.
Qed.

(* the per-name view of the lines after one more Add *)
Lemma fh_add_lines f k v n :
  excluded_name n = false ->
  fhkey k = k -> class_exact k ->
  (is_singleton_class (classify k) = true -> v <> [] /\ f_get (lines_of f) k = []) ->
  f_get (lines_of (fh_add f k v)) n = f_get (lines_of f) n ++ (if beq k n then [wire_val v] else []).
Proof.
  intros Hn Hk Hex Hs. unfold fh_add. fold (fhkey k). rewrite Hk.
  assert (Hdate : beq hdrDate n = false).
  { apply beq_false_neq. intros <-. revert Hn. now vm_compute. }
  unfold class_exact in Hex. unfold lines_of, fh_lines in *.
  destruct (classify k) eqn:Ec; cbn [is_singleton_class] in Hs; cbn [f_ct f_ce f_server f_h f_cookies].
  - (* Content-Type *)
    subst k. destruct Hs as [Hv Hprev]; [reflexivity|].
    rewrite !client_fields_app, !f_get_app in *.
    apply app_eq_nil in Hprev as [H1 Hprev]. apply app_eq_nil in Hprev as [H2 Hprev].
    apply app_eq_nil in Hprev as [H3 Hprev]. apply app_eq_nil in Hprev as [H4 H5].
    destruct (beq hdrContentType n) eqn:E.
    + apply beq_eq in E. subst n. rewrite H1, H3, H4, H5.
      assert (E2 : f_get (client_fields (opt_line hdrContentType (f_ct f))) hdrContentType = []) by exact H2.
      rewrite E2. cbn [app].
      destruct (remove_newlines v) eqn:Ev; [destruct v; [congruence|discriminate]|].
      unfold f_get. cbn. unfold wire_val. unfold remove_newlines in Ev. now rewrite Ev.
    + rewrite (f_get_client_opt hdrContentType (f_ct f)), (f_get_client_opt hdrContentType (remove_newlines v)) by assumption.
      now rewrite app_nil_r.
  - (* Content-Length: excluded, untouched *)
    assert (E : beq k n = false).
    { apply beq_false_neq. intros ->. unfold classify in Ec.
      destruct (ieq hdrContentType n); [discriminate|]. destruct (ieq hdrContentLength n) eqn:E2; [|discriminate].
      rewrite (excluded_of_ieq n hdrContentLength) in Hn; [discriminate|assumption|tauto]. }
    rewrite E. now rewrite app_nil_r.
  - (* Content-Encoding *)
    subst k. destruct Hs as [Hv Hprev]; [reflexivity|].
    rewrite !client_fields_app, !f_get_app in *.
    apply app_eq_nil in Hprev as [H1 Hprev]. apply app_eq_nil in Hprev as [H2 Hprev].
    apply app_eq_nil in Hprev as [H3 Hprev]. apply app_eq_nil in Hprev as [H4 H5].
    destruct (beq hdrContentEncoding n) eqn:E.
    + apply beq_eq in E. subst n. rewrite H1, H2, H4, H5.
      assert (E2 : f_get (client_fields (opt_line hdrContentEncoding (f_ce f))) hdrContentEncoding = []) by exact H3.
      cbn [app].
      destruct (remove_newlines v) eqn:Ev; [destruct v; [congruence|discriminate]|].
      unfold f_get. cbn. unfold wire_val. unfold remove_newlines in Ev. now rewrite Ev.
    + rewrite (f_get_client_opt hdrContentEncoding (f_ce f)), (f_get_client_opt hdrContentEncoding (remove_newlines v)) by assumption.
      now rewrite app_nil_r.
  - (* Connection: excluded; stored with set semantics or as the close flag *)
    assert (E : beq k n = false).
    { apply beq_false_neq. intros ->. unfold classify in Ec.
      destruct (ieq hdrContentType n); [discriminate|]. destruct (ieq hdrContentLength n); [discriminate|].
      destruct (ieq hdrContentEncoding n); [discriminate|]. destruct (ieq hdrConnection n) eqn:E2; [|discriminate].
      rewrite (excluded_of_ieq n hdrConnection) in Hn; [discriminate|assumption|tauto]. }
    rewrite E, app_nil_r. destruct (beq (remove_newlines v) tokClose); [reflexivity|].
    cbn [f_ct f_ce f_server f_h f_cookies]. rewrite !client_fields_app, !f_get_app.
    rewrite !f_get_client_filter_date by assumption. now rewrite f_get_client_set_arg by assumption.
  - (* Server *)
    subst k. destruct Hs as [Hv Hprev]; [reflexivity|].
    rewrite !client_fields_app, !f_get_app in *.
    apply app_eq_nil in Hprev as [H1 Hprev]. apply app_eq_nil in Hprev as [H2 Hprev].
    apply app_eq_nil in Hprev as [H3 Hprev]. apply app_eq_nil in Hprev as [H4 H5].
    destruct (beq hdrServer n) eqn:E.
    + apply beq_eq in E. subst n. rewrite H2, H3, H4, H5.
      destruct (remove_newlines v) eqn:Ev; [destruct v; [congruence|discriminate]|].
      assert (E2 : f_get (client_fields (opt_line hdrServer (f_server f))) hdrServer = []) by exact H1.
      rewrite E2. unfold f_get. cbn. unfold wire_val. unfold remove_newlines in Ev. now rewrite Ev.
    + rewrite (f_get_client_opt hdrServer (f_server f)), (f_get_client_opt hdrServer (remove_newlines v)) by assumption.
      now rewrite app_nil_r.
  - (* Set-Cookie *)
    subst k. rewrite !client_fields_app, !f_get_app, map_app, client_fields_app, f_get_app, <- !app_assoc.
    do 4 f_equal. unfold f_get. cbn. destruct (beq hdrSetCookie n); reflexivity.
  - (* Transfer-Encoding *)
    assert (E : beq k n = false).
    { apply beq_false_neq. intros ->. unfold classify in Ec.
      repeat match type of Ec with (if ?c then _ else _) = _ => destruct c eqn:?; try discriminate end.
      rewrite (excluded_of_ieq n hdrTransferEncoding) in Hn; [discriminate|assumption|tauto]. }
    rewrite E. now rewrite app_nil_r.
  - (* Trailer *)
    assert (E : beq k n = false).
    { apply beq_false_neq. intros ->. unfold classify in Ec.
      repeat match type of Ec with (if ?c then _ else _) = _ => destruct c eqn:?; try discriminate end.
      rewrite (excluded_of_ieq n hdrTrailer) in Hn; [discriminate|assumption|tauto]. }
    rewrite E. now rewrite app_nil_r.
  - (* Date *)
    assert (E : beq k n = false).
    { apply beq_false_neq. intros ->. unfold classify in Ec.
      repeat match type of Ec with (if ?c then _ else _) = _ => destruct c eqn:?; try discriminate end.
      rewrite (excluded_of_ieq n hdrDate) in Hn; [discriminate|assumption|tauto]. }
    rewrite E. now rewrite app_nil_r.
  - (* plain *)
    assert (Ekd : beq k hdrDate = false).
    { apply beq_false_neq. intros ->. unfold classify in Ec.
      repeat match type of Ec with (if ?c then _ else _) = _ => destruct c eqn:?; try discriminate end.
      rewrite ieq_refl in *. discriminate. }
    rewrite !client_fields_app, !f_get_app. rewrite filter_app, client_fields_app, f_get_app, <- !app_assoc.
    do 3 f_equal. cbn [filter fst]. rewrite Ekd. cbn [negb].
    rewrite (app_assoc (f_get (client_fields (filter _ (f_h f))) n)).
    assert (Ecomm : forall (A B C : list bytes), (A ++ B) ++ C = A ++ C ++ B -> True) by auto.
    (* the new line sits between h.h and the cookies; cookies have another name *)
    destruct (beq k n) eqn:E.
    + apply beq_eq in E. subst n.
      assert (Ec2 : f_get (client_fields (map (fun v0 => (hdrSetCookie, v0)) (f_cookies f))) k = []).
      { assert (Ek : beq hdrSetCookie k = false).
        { apply beq_false_neq. intros <-. revert Ec. now vm_compute. }
        clear - Ek. induction (f_cookies f) as [|c r IH]; [reflexivity|]. unfold f_get in *. cbn. now rewrite Ek. }
      rewrite Ec2, !app_nil_r. unfold f_get. cbn. rewrite beq_refl. reflexivity.
    + unfold f_get at 2. cbn. rewrite E. cbn. now rewrite app_nil_r.
Qed.

Lemma fh_fold_lines l : forall f l0,
  all_ok (l0 ++ l) ->
  (forall n, excluded_name n = false -> f_get (lines_of f) n = map wire_val (nvals l0 n)) ->
  forall n, excluded_name n = false -> f_get (lines_of (fh_fold l f)) n = map wire_val (nvals (l0 ++ l) n).
Proof.
  induction l as [|[k v] r IH]; intros f l0 Hok Hf n Hn.
  - rewrite app_nil_r. now apply Hf.
  - cbn [fh_fold fold_left fst snd]. change (fold_left _ r ?x) with (fh_fold r x).
    replace (l0 ++ (k, v) :: r) with ((l0 ++ [(k, v)]) ++ r) in * by now rewrite <- app_assoc.
    apply IH; [assumption| |assumption].
    intros m Hm. destruct (Hok l0 (k, v) r) as (Hk & Hex & Hs); [now rewrite <- app_assoc|].
    cbn [fst snd] in *.
    rewrite fh_add_lines; [|assumption|assumption|assumption|].
    + rewrite Hf by assumption. rewrite nvals_app, map_app. f_equal. unfold nvals. cbn. now destruct (beq k m).
    + intros Hsc. destruct (Hs Hsc) as [Hv Hb]. split; [assumption|].
      assert (Hke : excluded_name k = false).
      { unfold class_exact in Hex. destruct (classify k); try discriminate; subst k; now vm_compute. }
      rewrite Hf by assumption. now rewrite Hb.
Qed.

Lemma lines_of_init n : f_get (lines_of f_init) n = [].
Proof. reflexivity. Qed.

(* header maps that the fasthttp layer renders like net/http *)
Definition hmap_ok (h : hmap) : Prop :=
  NoDup (keys h) /\
  (forall k, In k (keys h) -> fhkey k = k /\ class_exact k) /\
  (forall k, In k (keys h) -> is_singleton_class (classify k) = true -> exists v, h_get h k = [v] /\ v <> []).

Lemma flat_split h l1 kv l2 :
  flat h = l1 ++ kv :: l2 ->
  exists h1 vs1 vs2 h2, h = h1 ++ (fst kv, vs1 ++ snd kv :: vs2) :: h2 /\ l1 = flat h1 ++ map (fun v => (fst kv, v)) vs1.
Proof.
  revert l1. induction h as [|[k vs] r IH]; intros l1 H; cbn in H.
  - destruct l1; discriminate.
  - (* either the split point is inside this entry or later *)
    assert (Hcase : (exists vs1 vs2, vs = vs1 ++ snd kv :: vs2 /\ fst kv = k /\ l1 = map (fun v => (k, v)) vs1)
                    \/ (exists l1', l1 = map (fun v => (k, v)) vs ++ l1' /\ flat r = l1' ++ kv :: l2)).
    { clear IH. revert l1 H. induction vs as [|v vs IHv]; intros l1 H; cbn in H.
      - right. exists l1. auto.
      - destruct l1 as [|x l1]; cbn in H.
        + injection H as <- H. left. exists [], vs. auto.
        + injection H as <- H. destruct (IHv l1 H) as [(vs1 & vs2 & -> & Hk & ->)|(l1' & -> & H2)].
          * left. exists (v :: vs1), vs2. auto.
          * right. exists l1'. auto. }
    destruct Hcase as [(vs1 & vs2 & -> & <- & ->)|(l1' & -> & H2)].
    + exists [], vs1, vs2, r. auto.
    + destruct (IH l1' H2) as (h1 & vs1 & vs2 & h2 & -> & ->).
      exists ((k, vs) :: h1), vs1, vs2, h2. cbn. split; [reflexivity|]. now rewrite app_assoc.
Qed.

Lemma hmap_ok_all_ok h : hmap_ok h -> all_ok (flat h).
Proof.
  intros (Hnd & Hk & Hs) l1 kv l2 E.
  destruct (flat_split h l1 kv l2 E) as (h1 & vs1 & vs2 & h2 & -> & ->).
  assert (Hin : In (fst kv) (keys (h1 ++ (fst kv, vs1 ++ snd kv :: vs2) :: h2))).
  { unfold keys. rewrite map_app. apply in_or_app. right. now left. }
  destruct (Hk _ Hin) as [H1 H2]. split; [assumption|]. split; [assumption|].
  intros Hsc. destruct (Hs _ Hin Hsc) as (v & Hv & Hne).
  (* the entry's value list is [v]: nothing before it *)
  assert (Hg : h_get (h1 ++ (fst kv, vs1 ++ snd kv :: vs2) :: h2) (fst kv) = vs1 ++ snd kv :: vs2).
  { unfold keys in Hnd. rewrite map_app in Hnd. cbn in Hnd. apply NoDup_remove_2 in Hnd.
    assert (Hn1 : ~ In (fst kv) (keys h1)) by (intros Hx; apply Hnd; apply in_or_app; now left).
    clear - Hn1. induction h1 as [|[k' vs'] r IH]; cbn.
    - now rewrite beq_refl.
    - destruct (beq k' (fst kv)) eqn:E.
      + apply beq_eq in E. exfalso. apply Hn1. now left.
      + apply IH. intros Hx. apply Hn1. now right. }
  rewrite Hg in Hv. destruct vs1 as [|a vs1]; [|destruct vs1; discriminate].
  cbn in Hv. injection Hv as Hv _. split; [congruence|].
  cbn [map]. rewrite app_nil_r.
  assert (Hn1 : ~ In (fst kv) (keys h1)).
  { unfold keys in Hnd. rewrite map_app in Hnd. cbn in Hnd. apply NoDup_remove_2 in Hnd.
    intros Hx. apply Hnd. apply in_or_app. now left. }
  clear - Hn1. induction h1 as [|[k' vs'] r IH]; [reflexivity|]. cbn. rewrite nvals_app.
  assert (E : beq k' (fst kv) = false) by (apply beq_false_neq; intros ->; apply Hn1; now left).
  rewrite IH by (intros Hx; apply Hn1; now right). rewrite app_nil_r.
  clear - E. induction vs' as [|v vs IH]; [reflexivity|]. unfold nvals in *. cbn. now rewrite E.
Qed.

(* Lemma B: under hmap_ok the adaptor's handler-set fields are net/http's, name by name *)
Lemma adaptor_fields_hmap h n :
  hmap_ok h -> excluded_name n = false ->
  f_get (client_fields (fh_lines (fh_of_hmap h))) n = map wire_val (h_get h n).
Proof.
  intros Hok Hn. rewrite fh_of_hmap_flat.
  change (client_fields (fh_lines ?f)) with (lines_of f).
  rewrite (fh_fold_lines (flat h) f_init []); cbn [app]; try assumption.
  - rewrite nvals_flat; [reflexivity|apply Hok].
  - now apply hmap_ok_all_ok.
  - intros m _. reflexivity.
Qed.

(* dropping Content-Length (streaming mode) is invisible on the compared names *)
Lemma hmap_ok_del h k : hmap_ok h -> hmap_ok (h_del h k).
Proof.
  intros (Hnd & Hk & Hs). split; [now apply nodup_h_del|]. split.
  - intros x Hx. apply keys_h_del in Hx as [Hx _]. auto.
  - intros x Hx Hc. apply keys_h_del in Hx as [Hx Hne]. destruct (Hs x Hx Hc) as (v & Hv & Hnv).
    exists v. split; [|assumption]. rewrite h_get_h_del.
    destruct (beq k x) eqn:E; [apply beq_eq in E; congruence|assumption].
Qed.

(* ------------------------------------------------------------------ *)
(* the writer against net/http's response writer *)
Definition is_hdr_op (o : op) : bool := match o with HAdd _ _ | HSet _ _ | HDel _ => true | _ => false end.

(* committed: the header has been committed in net/http's sense; codeset: the adaptor's statusCode is set;
   flushed: the first Flush happened.  A program is late-free when, between the commit and the first Flush
   (or the end), it neither mutates Header() nor calls a non-informational WriteHeader that the adaptor would
   still accept. *)
Fixpoint late_free_from (committed codeset flushed : bool) (p : prog) : bool :=
  match p with
  | [] => true
  | o :: r =>
      match o with
      | WriteHeader c =>
          if informational c then late_free_from committed codeset flushed r
          else if committed then (codeset || flushed) && late_free_from true true flushed r
          else late_free_from true true flushed r
      | Write _ => late_free_from true codeset flushed r
      | Flush => late_free_from true codeset true r
      | _ => (negb committed || flushed) && late_free_from committed codeset flushed r
      end
  end.
Definition late_free (p : prog) : bool := late_free_from false false false p.

Lemma consts : StatusOK = 200%Z /\ StatusSwitchingProtocols = 101%Z /\ StatusNoContent = 204%Z /\ StatusNotModified = 304%Z.
Proof. now vm_compute. Qed.

(* simulation relation, indexed by the three flags *)
Definition sim (cm cs fl : bool) (w : wstate) (s : rwstate) : Prop :=
  w_panic w = false /\ r_h s = w_h w /\
  match cm, fl with
  | false, _ => r_committed s = None /\ w_code w = 0%Z /\ w_flushed w = None /\ w_buf w = r_body s /\ cs = false /\ fl = false
  | true, false =>
      exists c fh, r_committed s = Some (c, fh) /\ w_flushed w = None /\ w_h w = fh /\ w_buf w = r_body s /\
                   (if cs then w_code w = c /\ c <> 0%Z else w_code w = 0%Z /\ c = 200%Z)
  | true, true =>
      exists c fh, r_committed s = Some (c, fh) /\ w_flushed w = Some (c, drop_content_length fh) /\
                   w_buf w ++ w_pipe w = r_body s
  end.

Lemma sim_run p : forall cm cs fl w s,
  (forall c, In (WriteHeader c) p -> valid_code c = true) ->
  late_free_from cm cs fl p = true -> sim cm cs fl w s ->
  exists cm' cs' fl', sim cm' cs' fl' (fold_left w_step p w) (fold_left rw_step p s).
Proof.
  induction p as [|o r IH]; intros cm cs fl w s Hv Hl Hs; [exists cm, cs, fl; exact Hs|].
  cbn [fold_left]. assert (Hv' : forall c, In (WriteHeader c) r -> valid_code c = true) by (intros c Hc; apply Hv; now right).
  destruct consts as (EOK & ESW & _ & _).
  destruct Hs as (Hp & Hh & Hs). unfold w_step at 2. rewrite Hp.
  destruct o as [c|k v|k v|k|b|]; cbn [late_free_from] in Hl.
  - (* WriteHeader *)
    assert (Hc : valid_code c = true) by (apply Hv; now left). unfold valid_code in Hc.
    replace ((c <? 100) || (c >? 999))%Z with false by lia.
    rewrite ESW. unfold rw_step at 2. fold (informational c). unfold informational in *.
    destruct ((100 <=? c) && (c <=? 199) && negb (c =? 101))%Z eqn:Ei.
    + eapply IH; eauto. now repeat split.
    + destruct cm.
      * apply andb_true_iff in Hl as [Hl1 Hl2].
        destruct fl.
        -- destruct Hs as (c0 & fh & H1 & H2 & H3).
           eapply (IH true true true); eauto. split; [|split].
           ++ destruct (w_code w =? 0)%Z; assumption.
           ++ unfold rw_commit. rewrite H1. destruct (w_code w =? 0)%Z; assumption.
           ++ exists c0, fh. unfold rw_commit. rewrite H1. destruct (w_code w =? 0)%Z; cbn; auto.
        -- rewrite orb_false_r in Hl1. subst cs.
           destruct Hs as (c0 & fh & H1 & H2 & H3 & H4 & H5 & H6).
           eapply (IH true true false); eauto.
           replace (w_code w =? 0)%Z with false by lia.
           split; [assumption|]. unfold rw_commit. rewrite H1. split; [assumption|].
           exists c0, fh. auto.
      * destruct Hs as (H1 & H2 & H3 & H4 & H5 & H6). subst cs fl.
        eapply (IH true true false); eauto. rewrite H2. cbn.
        split; [reflexivity|]. unfold rw_commit. rewrite H1. cbn. split; [assumption|].
        exists c, (r_h s). repeat split; auto; lia.
  - (* HAdd *)
    apply andb_true_iff in Hl as [Hl1 Hl2]. eapply IH; eauto.
    split; [reflexivity|]. cbn [rw_step r_h w_h hdr_step]. split; [now rewrite Hh|].
    destruct cm; [destruct fl; [|discriminate]|]; cbn in *; auto.
  - (* HSet *)
    apply andb_true_iff in Hl as [Hl1 Hl2]. eapply IH; eauto.
    split; [reflexivity|]. cbn [rw_step r_h w_h hdr_step]. split; [now rewrite Hh|].
    destruct cm; [destruct fl; [|discriminate]|]; cbn in *; auto.
  - (* HDel *)
    apply andb_true_iff in Hl as [Hl1 Hl2]. eapply IH; eauto.
    split; [reflexivity|]. cbn [rw_step r_h w_h hdr_step]. split; [now rewrite Hh|].
    destruct cm; [destruct fl; [|discriminate]|]; cbn in *; auto.
  - (* Write *)
    destruct cm.
    + destruct fl.
      * destruct Hs as (c0 & fh & H1 & H2 & H3).
        eapply (IH true cs true); eauto. rewrite H2. split; [reflexivity|]. cbn. unfold rw_commit. rewrite H1. cbn.
        split; [assumption|]. exists c0, fh. repeat split; auto. now rewrite app_assoc, H3.
      * destruct Hs as (c0 & fh & H1 & H2 & H3 & H4 & H5).
        eapply (IH true cs false); eauto. rewrite H2. split; [reflexivity|]. cbn. unfold rw_commit. rewrite H1. cbn.
        split; [assumption|]. exists c0, fh. repeat split; auto. now rewrite H4.
    + destruct Hs as (H1 & H2 & H3 & H4 & H5 & H6). subst cs fl.
      eapply (IH true false false); eauto. rewrite H3. split; [reflexivity|]. cbn. unfold rw_commit. rewrite H1. cbn.
      split; [assumption|]. exists 200%Z, (r_h s). repeat split; auto. now rewrite H4.
  - (* Flush *)
    destruct cm.
    + destruct fl.
      * destruct Hs as (c0 & fh & H1 & H2 & H3).
        eapply (IH true cs true); eauto. rewrite H2. split; [assumption|]. cbn. unfold rw_commit. rewrite H1.
        split; [assumption|]. exists c0, fh. auto.
      * destruct Hs as (c0 & fh & H1 & H2 & H3 & H4 & H5).
        eapply (IH true cs true); eauto. rewrite H2. split; [reflexivity|]. cbn. unfold rw_commit. rewrite H1.
        split; [assumption|]. exists c0, fh. split; [reflexivity|]. rewrite app_nil_r. split; [|assumption].
        unfold w_status. rewrite H3. destruct cs.
        -- destruct H5 as [H5 H6]. replace (w_code w =? 0)%Z with false by lia. now rewrite H5.
        -- destruct H5 as [H5 H6]. rewrite H5. cbn. now rewrite EOK, H6.
    + destruct Hs as (H1 & H2 & H3 & H4 & H5 & H6). subst cs fl.
      eapply (IH true false true); eauto. rewrite H3. split; [reflexivity|]. cbn. unfold rw_commit. rewrite H1. cbn.
      split; [assumption|]. exists 200%Z, (r_h s). rewrite app_nil_r. repeat split; auto.
      unfold w_status. rewrite H2. cbn. now rewrite EOK, Hh.
Qed.

Lemma sim_init : sim false false false w_init rw_init.
Proof. repeat split. Qed.

(* what the simulation gives at the end of the handler *)
Lemma sim_final cm cs fl w s :
  sim cm cs fl w s ->
  w_panic w = false /\ w_out_status w = rw_status s /\ w_out_body w = r_body s /\
  (w_out_hdr w = rw_frozen s \/ w_out_hdr w = drop_content_length (rw_frozen s)).
Proof.
  destruct consts as (EOK & _). intros (Hp & Hh & Hs). split; [assumption|].
  unfold w_out_status, w_out_body, w_out_hdr, rw_status, rw_frozen.
  destruct cm.
  - destruct fl.
    + destruct Hs as (c & fh & -> & -> & H3). auto.
    + destruct Hs as (c & fh & -> & -> & H3 & H4 & H5). unfold w_status. destruct cs.
      * destruct H5 as [H5 H6]. replace (w_code w =? 0)%Z with false by lia. subst. auto.
      * destruct H5 as [H5 H6]. rewrite H5. cbn. subst. rewrite EOK. auto.
  - destruct Hs as (-> & H2 & -> & H4 & _). unfold w_status. rewrite H2. cbn. rewrite EOK, Hh. auto.
Qed.

Lemma must_skip_body_spec c : valid_code c = true -> must_skip_body c = negb (body_allowed c).
Proof.
  destruct consts as (EOK & _ & ENC & ENM). unfold must_skip_body, body_allowed, valid_code. rewrite EOK, ENC, ENM. lia.
Qed.

(* the status a valid program ends with is a valid code *)
Lemma rw_status_valid p : forall s,
  (forall c, In (WriteHeader c) p -> valid_code c = true) -> valid_code (rw_status s) = true ->
  valid_code (rw_status (fold_left rw_step p s)) = true.
Proof.
  induction p as [|o r IH]; intros s Hv Hs; [assumption|]. cbn [fold_left]. apply IH; [intros c Hc; apply Hv; now right|].
  destruct o; cbn; auto.
  - destruct (informational c); [assumption|]. unfold rw_commit, rw_status in *.
    destruct (r_committed s) as [[c0 fh]|]; cbn; [assumption|]. apply Hv. now left.
  - unfold rw_commit, rw_status in *. destruct (r_committed s) as [[c0 fh]|]; cbn; [assumption|reflexivity].
  - unfold rw_commit, rw_status in *. destruct (r_committed s) as [[c0 fh]|]; cbn; [assumption|reflexivity].
Qed.
