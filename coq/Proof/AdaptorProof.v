(* Proofs for C36: the adaptor's writer + fasthttp's ResponseHeader against net/http's ResponseWriter. *)
From FH Require Import Model.Base Gen.GenC36 Spec.NetHttpRW Model.Adaptor.
From Coq Require Import Lia ZifyBool ZifyN ZifyNat.
Open Scope N_scope.

(* ------------------------------------------------------------------ *)
(* basics *)
Lemma beq_false_neq a b : beq a b = false <-> a <> b.
Proof.
  split.
  - intros H E. subst. rewrite beq_refl in H. discriminate.
  - intros H. destruct (beq a b) eqn:E; [|reflexivity]. apply beq_eq in E. contradiction.
Qed.

Lemma beq_sym a b : beq a b = beq b a.
Proof.
  destruct (beq a b) eqn:E.
  - apply beq_eq in E. subst. now rewrite beq_refl.
  - symmetry. apply beq_false_neq. apply beq_false_neq in E. congruence.
Qed.

Lemma ieq_refl a : ieq a a = true.
Proof. unfold ieq. apply beq_refl. Qed.
Lemma ieq_sym a b : ieq a b = ieq b a.
Proof. unfold ieq. apply beq_sym. Qed.

Lemma f_get_app a b n : f_get (a ++ b) n = f_get a n ++ f_get b n.
Proof. unfold f_get. now rewrite filter_app, map_app. Qed.

Lemma f_get_nil n : f_get [] n = [].
Proof. reflexivity. Qed.

(* ------------------------------------------------------------------ *)
(* http.Header as an association list with unique keys *)
Definition keys (h : hmap) : list bytes := map fst h.

Lemma h_get_notin h k : ~ In k (keys h) -> h_get h k = [].
Proof.
  induction h as [|[k' vs] r IH]; cbn; [reflexivity|].
  intros H. destruct (beq k' k) eqn:E.
  - apply beq_eq in E. subst. exfalso. apply H. now left.
  - apply IH. intros Hin. apply H. now right.
Qed.

Lemma keys_h_add h k v : forall x, In x (keys (h_add h k v)) <-> In x (keys h) \/ x = k.
Proof.
  induction h as [|[k' vs] r IH]; cbn; intros x.
  - split; [intros [H|[]]; auto | intros [[]|H]; auto].
  - destruct (beq k' k) eqn:E; cbn.
    + apply beq_eq in E. subst. split; [intros [H|H]; auto | intros [[H|H]|H]; auto].
    + rewrite IH. split; [intros [H|[H|H]]; auto | intros [[H|H]|H]; auto].
Qed.
Lemma keys_h_set h k v : forall x, In x (keys (h_set h k v)) <-> In x (keys h) \/ x = k.
Proof.
  induction h as [|[k' vs] r IH]; cbn; intros x.
  - split; [intros [H|[]]; auto | intros [[]|H]; auto].
  - destruct (beq k' k) eqn:E; cbn.
    + apply beq_eq in E. subst. split; [intros [H|H]; auto | intros [[H|H]|H]; auto].
    + rewrite IH. split; [intros [H|[H|H]]; auto | intros [[H|H]|H]; auto].
Qed.
Lemma keys_h_del h k : forall x, In x (keys (h_del h k)) <-> In x (keys h) /\ x <> k.
Proof.
  induction h as [|[k' vs] r IH]; cbn; intros x; [tauto|].
  destruct (beq k' k) eqn:E; cbn.
  - apply beq_eq in E. subst. rewrite IH. split; [tauto|]. intros [[H|H] Hn]; [congruence|tauto].
  - apply beq_false_neq in E. rewrite IH. split.
    + intros [H|H]; [subst; auto | tauto].
    + intros [[H|H] Hn]; [auto | tauto].
Qed.

Lemma nodup_h_add h k v : NoDup (keys h) -> NoDup (keys (h_add h k v)).
Proof.
  induction h as [|[k' vs] r IH]; cbn; intros H.
  - constructor; [intros []|constructor].
  - inversion H as [|? ? Hn Hr]; subst. destruct (beq k' k) eqn:E; cbn.
    + now constructor.
    + constructor; [|now apply IH]. intros Hin. apply keys_h_add in Hin as [Hin|Hin]; [contradiction|].
      subst. rewrite beq_refl in E. discriminate.
Qed.
Lemma nodup_h_set h k v : NoDup (keys h) -> NoDup (keys (h_set h k v)).
Proof.
  induction h as [|[k' vs] r IH]; cbn; intros H.
  - constructor; [intros []|constructor].
  - inversion H as [|? ? Hn Hr]; subst. destruct (beq k' k) eqn:E; cbn.
    + now constructor.
    + constructor; [|now apply IH]. intros Hin. apply keys_h_set in Hin as [Hin|Hin]; [contradiction|].
      subst. rewrite beq_refl in E. discriminate.
Qed.
Lemma nodup_h_del h k : NoDup (keys h) -> NoDup (keys (h_del h k)).
Proof.
  induction h as [|[k' vs] r IH]; cbn; intros H; [constructor|].
  inversion H as [|? ? Hn Hr]; subst. destruct (beq k' k); cbn; [now apply IH|].
  constructor; [|now apply IH]. intros Hin. apply keys_h_del in Hin. tauto.
Qed.

Lemma h_get_h_del h k n : h_get (h_del h k) n = if beq k n then [] else h_get h n.
Proof.
  unfold h_del. induction h as [|[k' vs] r IH]; cbn [filter h_get fst].
  - now destruct (beq k n).
  - destruct (beq k' k) eqn:E; cbn [negb h_get].
    + apply beq_eq in E. subst. rewrite IH. now destruct (beq k n).
    + rewrite IH. destruct (beq k' n) eqn:E2; [|reflexivity].
      apply beq_eq in E2. subst. rewrite beq_sym, E. reflexivity.
Qed.

(* hdr_step keeps keys unique and only introduces canonical keys of the names used *)
Definition op_name (o : op) : option bytes :=
  match o with HAdd k _ | HSet k _ | HDel k => Some k | _ => None end.

Lemma nodup_hdr_step h o : NoDup (keys h) -> NoDup (keys (hdr_step h o)).
Proof. destruct o; cbn; auto using nodup_h_add, nodup_h_set, nodup_h_del. Qed.

Lemma keys_hdr_step (P : bytes -> Prop) h o :
  (forall k, In k (keys h) -> P k) -> (forall k, op_name o = Some k -> P (canon k)) ->
  forall k, In k (keys (hdr_step h o)) -> P k.
Proof.
  intros Hh Ho k. destruct o; cbn; auto.
  - intros H. apply keys_h_add in H as [H| ->]; auto.
  - intros H. apply keys_h_set in H as [H| ->]; auto.
  - intros H. apply keys_h_del in H as [H _]; auto.
Qed.

(* ------------------------------------------------------------------ *)
(* spec side: the wire fields of a header map, per name *)
Lemma hmap_fields_cons k vs r : hmap_fields ((k, vs) :: r) = map (fun v => (k, wire_val v)) vs ++ hmap_fields r.
Proof. reflexivity. Qed.

Lemma f_get_entry_other k n vs : beq k n = false -> f_get (map (fun v => (k, wire_val v)) vs) n = [].
Proof.
  intros E. induction vs as [|v vs IH]; [reflexivity|]. unfold f_get in *. cbn. now rewrite E.
Qed.

Lemma f_get_hmap_fields_notin h n : ~ In n (keys h) -> f_get (hmap_fields h) n = [].
Proof.
  induction h as [|[k vs] r IH]; [reflexivity|]. intros H. rewrite hmap_fields_cons.
  rewrite f_get_app, IH by (intros Hx; apply H; now right). rewrite app_nil_r.
  apply f_get_entry_other. apply beq_false_neq. intros ->. apply H. now left.
Qed.

Lemma f_get_entry_same k vs : f_get (map (fun v => (k, wire_val v)) vs) k = map wire_val vs.
Proof.
  induction vs as [|v vs IH]; [reflexivity|]. unfold f_get in *. cbn. rewrite beq_refl. cbn. now rewrite IH.
Qed.
Lemma f_get_hmap_fields h n : NoDup (keys h) -> f_get (hmap_fields h) n = map wire_val (h_get h n).
Proof.
  induction h as [|[k vs] r IH]; [reflexivity|]. intros H. inversion H as [|? ? Hn Hr]; subst.
  rewrite hmap_fields_cons, f_get_app. cbn [h_get]. destruct (beq k n) eqn:E.
  - apply beq_eq in E. subst. rewrite f_get_entry_same, f_get_hmap_fields_notin by assumption. now rewrite app_nil_r.
  - rewrite f_get_entry_other by assumption. now apply IH.
Qed.

(* ------------------------------------------------------------------ *)
(* adaptor side: ResponseHeader.Add over the flattened header map *)
Definition flat (h : hmap) : list (bytes * bytes) := flat_map (fun e => map (fun v => (fst e, v)) (snd e)) h.
Definition nvals (l : list (bytes * bytes)) (n : bytes) : list bytes := map snd (filter (fun kv => beq (fst kv) n) l).
Definition fh_fold (l : list (bytes * bytes)) (f : fhdr) : fhdr := fold_left (fun f kv => fh_add f (fst kv) (snd kv)) l f.

Lemma fh_of_hmap_flat h : fh_of_hmap h = fh_fold (flat h) f_init.
Proof.
  unfold fh_of_hmap, fh_fold. generalize f_init. induction h as [|[k vs] r IH]; intros f; cbn; [reflexivity|].
  rewrite fold_left_app, IH. f_equal. clear. revert f. induction vs as [|v vs IHv]; intros f; cbn; [reflexivity|]. apply IHv.
Qed.

Lemma nvals_app a b n : nvals (a ++ b) n = nvals a n ++ nvals b n.
Proof. unfold nvals. now rewrite filter_app, map_app. Qed.

Lemma flat_cons k vs r : flat ((k, vs) :: r) = map (fun v => (k, v)) vs ++ flat r.
Proof. reflexivity. Qed.

Lemma nvals_entry_same n vs : nvals (map (fun v => (n, v)) vs) n = vs.
Proof. induction vs as [|v vs IH]; [reflexivity|]. unfold nvals in *. cbn. rewrite beq_refl. cbn. now rewrite IH. Qed.
Lemma nvals_entry_other k n vs : beq k n = false -> nvals (map (fun v => (k, v)) vs) n = [].
Proof. intros E. induction vs as [|v vs IH]; [reflexivity|]. unfold nvals in *. cbn. now rewrite E. Qed.

Lemma nvals_flat_notin h n : ~ In n (keys h) -> nvals (flat h) n = [].
Proof.
  induction h as [|[k vs] r IH]; [reflexivity|]. intros H. rewrite flat_cons, nvals_app.
  rewrite IH by (intros Hx; apply H; now right). rewrite app_nil_r.
  apply nvals_entry_other. apply beq_false_neq. intros ->. apply H. now left.
Qed.

Lemma nvals_flat h n : NoDup (keys h) -> nvals (flat h) n = h_get h n.
Proof.
  induction h as [|[k vs] r IH]; [reflexivity|]. intros H. inversion H as [|? ? Hn Hr]; subst.
  rewrite flat_cons, nvals_app. cbn [h_get]. destruct (beq k n) eqn:E.
  - apply beq_eq in E. subst. rewrite nvals_entry_same, nvals_flat_notin by assumption. now rewrite app_nil_r.
  - rewrite nvals_entry_other by assumption. now apply IH.
Qed.

Definition fhkey (k : bytes) : bytes := canon (remove_newlines k).

(* which class a key falls in must be decided by its exact spelling (true of canonical token names: class_exact_canon) *)
Definition class_exact (k : bytes) : Prop :=
  match classify k with
  | KContentType => k = hdrContentType
  | KContentEncoding => k = hdrContentEncoding
  | KServer => k = hdrServer
  | KSetCookie => k = hdrSetCookie
  | _ => True
  end.

Definition is_singleton_class (c : hclass) : bool :=
  match c with KContentType | KContentEncoding | KServer => true | _ => false end.

(* an entry in the flattened map is handled like net/http handles it *)
Definition entry_ok (before : list (bytes * bytes)) (kv : bytes * bytes) : Prop :=
  fhkey (fst kv) = fst kv /\ class_exact (fst kv) /\
  (is_singleton_class (classify (fst kv)) = true -> snd kv <> [] /\ nvals before (fst kv) = []).

Definition all_ok (l : list (bytes * bytes)) : Prop :=
  forall l1 kv l2, l = l1 ++ kv :: l2 -> entry_ok l1 kv.

Definition lines_of (f : fhdr) : list (bytes * bytes) := client_fields (fh_lines f).

Lemma client_fields_app a b : client_fields (a ++ b) = client_fields a ++ client_fields b.
Proof. unfold client_fields. apply map_app. Qed.

Lemma f_get_client_opt k v n : beq k n = false -> f_get (client_fields (opt_line k v)) n = [].
Proof. intros E. destruct v; [reflexivity|]. unfold f_get. cbn. now rewrite E. Qed.

Lemma f_get_client_cons k v l n :
  f_get (client_fields ((k, v) :: l)) n = (if beq k n then [trim_ows v] else []) ++ f_get (client_fields l) n.
Proof. unfold f_get, client_fields. cbn. destruct (beq k n); reflexivity. Qed.

Lemma f_get_client_filter_date l n :
  beq hdrDate n = false ->
  f_get (client_fields (filter (fun kv => negb (beq (fst kv) hdrDate)) l)) n = f_get (client_fields l) n.
Proof.
  intros E. induction l as [|[k v] r IH]; [reflexivity|]. cbn [filter fst].
  destruct (beq k hdrDate) eqn:Ek; cbn [negb].
  - rewrite IH, f_get_client_cons. apply beq_eq in Ek. subst. now rewrite E.
  - now rewrite !f_get_client_cons, IH.
Qed.

Lemma f_get_client_set_arg l k v n :
  beq k n = false -> f_get (client_fields (set_arg l k v)) n = f_get (client_fields l) n.
Proof.
  intros E. induction l as [|[k' v'] r IH]; cbn [set_arg].
  - rewrite f_get_client_cons, E. reflexivity.
  - destruct (beq k' k) eqn:Ek.
    + apply beq_eq in Ek. subst. now rewrite !f_get_client_cons, E.
    + now rewrite !f_get_client_cons, IH.
Qed.

Lemma excluded_of_ieq k S :
  ieq S k = true ->
  (S = hdrDate \/ S = hdrContentLength \/ S = hdrConnection \/ S = hdrTransferEncoding \/ S = hdrTrailer) ->
  excluded_name k = true.
Proof.
  intros H HS. unfold excluded_name. rewrite ieq_sym in H.
  destruct HS as [->|[->|[->|[->| ->]]]];
  [change hdrDate with (s2b "Date") in H | change hdrContentLength with (s2b "Content-Length") in H
  |change hdrConnection with (s2b "Connection") in H | change hdrTransferEncoding with (s2b "Transfer-Encoding") in H
  |change hdrTrailer with (s2b "Trailer") in H]; rewrite H; now rewrite ?orb_true_r.
Qed.

Lemma classify_excluded k :
  match classify k with
  | KContentLength | KConnection | KTransferEncoding | KTrailer | KDate => excluded_name k = true
  | _ => True
  end.
Proof.
  unfold classify.
  destruct (ieq hdrContentType k) eqn:E1; [exact I|].
  destruct (ieq hdrContentLength k) eqn:E2; [apply (excluded_of_ieq k hdrContentLength); tauto|].
  destruct (ieq hdrContentEncoding k) eqn:E3; [exact I|].
  destruct (ieq hdrConnection k) eqn:E4; [apply (excluded_of_ieq k hdrConnection); tauto|].
  destruct (ieq hdrServer k) eqn:E5; [exact I|].
  destruct (ieq hdrSetCookie k) eqn:E6; [exact I|].
  destruct (ieq hdrTransferEncoding k) eqn:E7; [apply (excluded_of_ieq k hdrTransferEncoding); tauto|].
  destruct (ieq hdrTrailer k) eqn:E8; [apply (excluded_of_ieq k hdrTrailer); tauto|].
  destruct (ieq hdrDate k) eqn:E9; [apply (excluded_of_ieq k hdrDate); tauto|].
  exact I.
Qed.

Lemma classify_plain_not_date k : classify k = KPlain -> beq k hdrDate = false.
Proof.
  intros H. apply beq_false_neq. intros ->. revert H. now vm_compute.
Qed.

Lemma excluded_class_neq k n c :
  classify k = c -> excluded_name n = false ->
  match c with KContentLength | KConnection | KTransferEncoding | KTrailer | KDate => True | _ => False end ->
  beq k n = false.
Proof.
  intros Hc Hn Hm. apply beq_false_neq. intros ->. pose proof (classify_excluded n) as H. rewrite Hc in H.
  destruct c; try contradiction; rewrite H in Hn; discriminate Hn.
Qed.

(* replacing the value of a single-valued field that had no line yet *)
Lemma singleton_replace X Y S old new n :
  new <> [] ->
  f_get (client_fields (X ++ opt_line S old ++ Y)) S = [] ->
  f_get (client_fields (X ++ opt_line S new ++ Y)) n
  = f_get (client_fields (X ++ opt_line S old ++ Y)) n ++ (if beq S n then [trim_ows new] else []).
Proof.
  intros Hnew Hprev. rewrite !client_fields_app, !f_get_app in *.
  destruct (beq S n) eqn:E.
  - apply beq_eq in E. subst n.
    apply app_eq_nil in Hprev as [H1 Hprev]. apply app_eq_nil in Hprev as [H2 H3].
    rewrite H1, H2, H3. destruct new as [|c new]; [congruence|].
    unfold opt_line. rewrite f_get_client_cons, beq_refl. reflexivity.
  - rewrite !(f_get_client_opt S) by assumption. now rewrite app_nil_r.
Qed.

(* the per-name view of the lines after one more Add *)
Lemma fh_add_lines f k v n :
  excluded_name n = false ->
  fhkey k = k -> class_exact k ->
  (is_singleton_class (classify k) = true -> v <> [] /\ f_get (lines_of f) k = []) ->
  f_get (lines_of (fh_add f k v)) n = f_get (lines_of f) n ++ (if beq k n then [wire_val v] else []).
Proof.
  intros Hn Hk Hex Hs. unfold fh_add. fold (fhkey k). rewrite Hk.
  assert (Hdate : beq hdrDate n = false).
  { apply beq_false_neq. intros <-. revert Hn. now vm_compute. }
  assert (Hnew : v <> [] -> remove_newlines v <> []) by (destruct v; [congruence|discriminate]).
  change (wire_val v) with (trim_ows (remove_newlines v)).
  unfold class_exact in Hex. unfold lines_of, fh_lines in *.
  destruct (classify k) eqn:Ec; cbn [is_singleton_class] in Hs; cbn [f_ct f_ce f_server f_h f_cookies].
  - (* Content-Type *)
    subst k. destruct Hs as [Hv Hprev]; [reflexivity|]. clear Ec Hk.
    remember hdrContentType as S. remember (opt_line hdrServer (f_server f)) as X.
    apply singleton_replace; auto.
  - (* Content-Length: managed by fasthttp; excluded name *)
    assert (E : beq k n = false) by (eapply excluded_class_neq; eauto; exact I).
    rewrite E. now rewrite app_nil_r.
  - (* Content-Encoding *)
    subst k. destruct Hs as [Hv Hprev]; [reflexivity|]. clear Ec Hk.
    remember hdrContentEncoding as S.
    rewrite (app_assoc (opt_line hdrServer (f_server f)) (opt_line hdrContentType (f_ct f))) in Hprev.
    rewrite (app_assoc (opt_line hdrServer (f_server f)) (opt_line hdrContentType (f_ct f))).
    rewrite (app_assoc (opt_line hdrServer (f_server f)) (opt_line hdrContentType (f_ct f))).
    apply singleton_replace; auto.
  - (* Connection: excluded; stored with set semantics or as the close flag *)
    assert (E : beq k n = false) by (eapply excluded_class_neq; eauto; exact I).
    rewrite E, app_nil_r. destruct (has_header_value (remove_newlines v) tokClose); [reflexivity|].
    cbn [f_ct f_ce f_server f_h f_cookies]. rewrite !client_fields_app, !f_get_app.
    rewrite !f_get_client_filter_date by assumption. now rewrite f_get_client_set_arg by assumption.
  - (* Server *)
    subst k. destruct Hs as [Hv Hprev]; [reflexivity|]. clear Ec Hk.
    remember hdrServer as S.
    apply (singleton_replace [] _ S); auto.
  - (* Set-Cookie *)
    subst k. clear Ec Hk Hs. remember hdrSetCookie as S.
    rewrite !client_fields_app, !f_get_app, map_app, client_fields_app, f_get_app, <- !app_assoc.
    do 4 f_equal. cbn [map]. rewrite f_get_client_cons. now rewrite app_nil_r.
  - (* Transfer-Encoding *)
    assert (E : beq k n = false) by (eapply excluded_class_neq; eauto; exact I).
    rewrite E. now rewrite app_nil_r.
  - (* Trailer *)
    assert (E : beq k n = false) by (eapply excluded_class_neq; eauto; exact I).
    rewrite E. now rewrite app_nil_r.
  - (* Date *)
    assert (E : beq k n = false) by (eapply excluded_class_neq; eauto; exact I).
    rewrite E. now rewrite app_nil_r.
  - (* plain: appended to h.h, in front of the cookie lines, which have another name *)
    assert (Ekd : beq k hdrDate = false) by now apply classify_plain_not_date.
    assert (Eks : beq hdrSetCookie k = false).
    { apply beq_false_neq. intros <-. revert Ec. now vm_compute. }
    clear Ec Hk Hs Hex. remember hdrSetCookie as SC. remember hdrDate as D.
    rewrite !client_fields_app, !f_get_app. rewrite filter_app, client_fields_app, f_get_app, <- !app_assoc.
    do 3 f_equal. cbn [filter fst]. rewrite Ekd. cbn [negb].
    rewrite f_get_client_cons. cbn [client_fields map f_get filter app]. rewrite app_nil_r.
    destruct (beq k n) eqn:E.
    + apply beq_eq in E. subst n.
      assert (Ec2 : f_get (client_fields (map (fun v0 => (SC, v0)) (f_cookies f))) k = []).
      { clear - Eks. induction (f_cookies f) as [|c r IH]; [reflexivity|]. cbn [map]. now rewrite f_get_client_cons, Eks, IH. }
      rewrite Ec2. reflexivity.
    + now rewrite app_nil_r.
Qed.

Lemma fh_fold_lines l : forall f l0,
  all_ok (l0 ++ l) ->
  (forall n, excluded_name n = false -> f_get (lines_of f) n = map wire_val (nvals l0 n)) ->
  forall n, excluded_name n = false -> f_get (lines_of (fh_fold l f)) n = map wire_val (nvals (l0 ++ l) n).
Proof.
  induction l as [|[k v] r IH]; intros f l0 Hok Hf n Hn.
  - rewrite app_nil_r. now apply Hf.
  - cbn [fh_fold fold_left fst snd]. change (fold_left _ r ?x) with (fh_fold r x).
    replace (l0 ++ (k, v) :: r) with ((l0 ++ [(k, v)]) ++ r) in * by now rewrite <- app_assoc.
    apply IH; [assumption| |assumption].
    intros m Hm. destruct (Hok l0 (k, v) r) as (Hk & Hex & Hs); [now rewrite <- app_assoc|].
    cbn [fst snd] in *.
    rewrite fh_add_lines; [|assumption|assumption|assumption|].
    + rewrite Hf by assumption. rewrite nvals_app, map_app. f_equal. unfold nvals. cbn. now destruct (beq k m).
    + intros Hsc. destruct (Hs Hsc) as [Hv Hb]. split; [assumption|].
      assert (Hke : excluded_name k = false).
      { unfold class_exact in Hex. destruct (classify k); try discriminate; subst k; now vm_compute. }
      rewrite Hf by assumption. now rewrite Hb.
Qed.

Lemma lines_of_init n : f_get (lines_of f_init) n = [].
Proof. reflexivity. Qed.

(* header maps that the fasthttp layer renders like net/http *)
Definition hmap_ok (h : hmap) : Prop :=
  NoDup (keys h) /\
  (forall k, In k (keys h) -> fhkey k = k /\ class_exact k) /\
  (forall k, In k (keys h) -> is_singleton_class (classify k) = true -> exists v, h_get h k = [v] /\ v <> []).

Lemma flat_split h l1 kv l2 :
  flat h = l1 ++ kv :: l2 ->
  exists h1 vs1 vs2 h2, h = h1 ++ (fst kv, vs1 ++ snd kv :: vs2) :: h2 /\ l1 = flat h1 ++ map (fun v => (fst kv, v)) vs1.
Proof.
  revert l1. induction h as [|[k vs] r IH]; intros l1 H; cbn in H.
  - destruct l1; discriminate.
  - (* either the split point is inside this entry or later *)
    assert (Hcase : (exists vs1 vs2, vs = vs1 ++ snd kv :: vs2 /\ fst kv = k /\ l1 = map (fun v => (k, v)) vs1)
                    \/ (exists l1', l1 = map (fun v => (k, v)) vs ++ l1' /\ flat r = l1' ++ kv :: l2)).
    { clear IH. revert l1 H. induction vs as [|v vs IHv]; intros l1 H; cbn in H.
      - right. exists l1. auto.
      - destruct l1 as [|x l1]; cbn in H.
        + injection H as <- H. left. exists [], vs. auto.
        + injection H as <- H. destruct (IHv l1 H) as [(vs1 & vs2 & -> & Hk & ->)|(l1' & -> & H2)].
          * left. exists (v :: vs1), vs2. auto.
          * right. exists l1'. auto. }
    destruct Hcase as [(vs1 & vs2 & -> & <- & ->)|(l1' & -> & H2)].
    + exists [], vs1, vs2, r. auto.
    + destruct (IH l1' H2) as (h1 & vs1 & vs2 & h2 & -> & ->).
      exists ((k, vs) :: h1), vs1, vs2, h2. cbn. split; [reflexivity|]. now rewrite app_assoc.
Qed.

Lemma hmap_ok_all_ok h : hmap_ok h -> all_ok (flat h).
Proof.
  intros (Hnd & Hk & Hs) l1 kv l2 E.
  destruct (flat_split h l1 kv l2 E) as (h1 & vs1 & vs2 & h2 & -> & ->).
  assert (Hin : In (fst kv) (keys (h1 ++ (fst kv, vs1 ++ snd kv :: vs2) :: h2))).
  { unfold keys. rewrite map_app. apply in_or_app. right. now left. }
  destruct (Hk _ Hin) as [H1 H2]. split; [assumption|]. split; [assumption|].
  intros Hsc. destruct (Hs _ Hin Hsc) as (v & Hv & Hne).
  (* the entry's value list is [v]: nothing before it *)
  assert (Hg : h_get (h1 ++ (fst kv, vs1 ++ snd kv :: vs2) :: h2) (fst kv) = vs1 ++ snd kv :: vs2).
  { unfold keys in Hnd. rewrite map_app in Hnd. cbn in Hnd. apply NoDup_remove_2 in Hnd.
    assert (Hn1 : ~ In (fst kv) (keys h1)) by (intros Hx; apply Hnd; apply in_or_app; now left).
    clear - Hn1. induction h1 as [|[k' vs'] r IH]; cbn.
    - now rewrite beq_refl.
    - destruct (beq k' (fst kv)) eqn:E.
      + apply beq_eq in E. exfalso. apply Hn1. now left.
      + apply IH. intros Hx. apply Hn1. now right. }
  rewrite Hg in Hv. destruct vs1 as [|a vs1]; [|destruct vs1; discriminate].
  cbn in Hv. injection Hv as Hv _. split; [congruence|].
  cbn [map]. rewrite app_nil_r.
  assert (Hn1 : ~ In (fst kv) (keys h1)).
  { unfold keys in Hnd. rewrite map_app in Hnd. cbn in Hnd. apply NoDup_remove_2 in Hnd.
    intros Hx. apply Hnd. apply in_or_app. now left. }
  now apply nvals_flat_notin.
Qed.

(* Lemma B: under hmap_ok the adaptor's handler-set fields are net/http's, name by name *)
Lemma adaptor_fields_hmap h n :
  hmap_ok h -> excluded_name n = false ->
  f_get (client_fields (fh_lines (fh_of_hmap h))) n = map wire_val (h_get h n).
Proof.
  intros Hok Hn. rewrite fh_of_hmap_flat.
  change (client_fields (fh_lines ?f)) with (lines_of f).
  rewrite (fh_fold_lines (flat h) f_init []); cbn [app]; try assumption.
  - rewrite nvals_flat; [reflexivity|apply Hok].
  - now apply hmap_ok_all_ok.
  - intros m _. reflexivity.
Qed.

(* dropping Content-Length (streaming mode) is invisible on the compared names *)
Lemma hmap_ok_del h k : hmap_ok h -> hmap_ok (h_del h k).
Proof.
  intros (Hnd & Hk & Hs). split; [now apply nodup_h_del|]. split.
  - intros x Hx. apply keys_h_del in Hx as [Hx _]. auto.
  - intros x Hx Hc. apply keys_h_del in Hx as [Hx Hne]. destruct (Hs x Hx Hc) as (v & Hv & Hnv).
    exists v. split; [|assumption]. rewrite h_get_h_del.
    destruct (beq k x) eqn:E; [apply beq_eq in E; congruence|assumption].
Qed.

(* ------------------------------------------------------------------ *)
(* the writer against net/http's response writer *)
Lemma consts : StatusOK = 200%Z /\ StatusSwitchingProtocols = 101%Z /\ StatusNoContent = 204%Z /\ StatusNotModified = 304%Z.
Proof. now vm_compute. Qed.

(* simulation: both commit at the same operation, with the same snapshot; the adaptor records code 0 for the
   implicit commit, where net/http records 200 *)
Definition sim (w : wstate) (s : rwstate) : Prop :=
  w_panic w = false /\ r_h s = w_h w /\
  w_out_body w = r_body s /\ (w_flushed w = false -> w_pipe w = []) /\
  match r_committed s, w_committed w with
  | None, None => w_flushed w = false
  | Some (c, fh), Some (c', fh') => fh' = fh /\ c <> 0%Z /\ (c' = c \/ (c' = 0%Z /\ c = 200%Z))
  | _, _ => False
  end.

Lemma sim_commit w s c c' :
  sim w s -> c <> 0%Z -> (c' = c \/ (c' = 0%Z /\ c = 200%Z)) -> sim (w_commit w c') (rw_commit s c).
Proof.
  intros (Hp & Hh & Hb & Hpipe & Hc) Hc0 Hcc. unfold w_commit, rw_commit, sim.
  destruct (r_committed s) as [[c0 fh]|] eqn:E1, (w_committed w) as [[c1 fh1]|] eqn:E2; try contradiction.
  - rewrite E1, E2. auto.
  - cbn. unfold w_out_body in *. cbn. repeat split; auto.
Qed.

Lemma sim_step w s o :
  (forall c, o = WriteHeader c -> valid_code c = true) -> sim w s -> sim (w_step w o) (rw_step s o).
Proof.
  intros Hv Hs. destruct consts as (EOK & ESW & _ & _).
  pose proof Hs as (Hp & Hh & Hb & Hpipe & Hc). unfold w_step. rewrite Hp.
  destruct o as [c|k v|k v|k|b|]; cbn [rw_step].
  - assert (Hc' : valid_code c = true) by now apply Hv. unfold valid_code in Hc'.
    replace ((c <? 100) || (c >? 999))%Z with false by lia. rewrite ESW. fold (informational c).
    destruct (informational c); [exact Hs|]. apply sim_commit; auto. lia.
  - unfold sim in *. cbn. rewrite Hh. repeat split; auto.
  - unfold sim in *. cbn. rewrite Hh. repeat split; auto.
  - unfold sim in *. cbn. rewrite Hh. repeat split; auto.
  - pose proof (sim_commit w s 200%Z 0%Z Hs ltac:(lia) ltac:(right; auto)) as (Hp' & Hh' & Hb' & Hpipe' & Hc2).
    set (w' := w_commit w 0%Z) in *. set (s' := rw_commit s 200%Z) in *.
    unfold sim. destruct (w_flushed w') eqn:Ef; cbn [w_panic w_h r_h w_committed r_committed w_flushed r_body w_pipe].
    + unfold w_out_body in *. cbn [w_flushed w_buf w_pipe]. rewrite Ef in Hb'. rewrite app_assoc, Hb'.
      repeat split; auto. discriminate.
    + unfold w_out_body in *. cbn [w_flushed w_buf w_pipe]. rewrite Ef in Hb'. rewrite Hb'.
      repeat split; auto.
  - pose proof (sim_commit w s 200%Z 0%Z Hs ltac:(lia) ltac:(right; auto)) as (Hp' & Hh' & Hb' & Hpipe' & Hc2).
    set (w' := w_commit w 0%Z) in *. set (s' := rw_commit s 200%Z) in *.
    assert (Hcm : exists c0 fh, r_committed s' = Some (c0, fh)).
    { unfold s', rw_commit. destruct (r_committed s) as [[c0 fh]|] eqn:E; [rewrite E|cbn]; eauto. }
    destruct Hcm as (c0 & fh & Ecm).
    unfold sim. cbn [w_panic w_h r_h w_committed r_committed w_flushed r_body w_pipe].
    unfold w_out_body in *. cbn [w_flushed w_buf w_pipe].
    split; [reflexivity|]. split; [assumption|]. split.
    + destruct (w_flushed w') eqn:Ef; [assumption|]. rewrite (Hpipe' eq_refl), app_nil_r. assumption.
    + split; [discriminate|]. rewrite Ecm in *. destruct (w_committed w') as [[c1 fh1]|]; [assumption|contradiction].
Qed.

Lemma sim_run p : forall w s,
  (forall c, In (WriteHeader c) p -> valid_code c = true) -> sim w s -> sim (fold_left w_step p w) (fold_left rw_step p s).
Proof.
  induction p as [|o r IH]; intros w s Hv Hs; [exact Hs|]. cbn [fold_left]. apply IH.
  - intros c Hc. apply Hv. now right.
  - apply sim_step; [|assumption]. intros c ->. apply Hv. now left.
Qed.

Lemma sim_init : sim w_init rw_init.
Proof. repeat split. Qed.

(* what the simulation gives at the end of the handler *)
Lemma sim_final w s :
  sim w s ->
  w_panic w = false /\ w_out_status w = rw_status s /\ w_out_body w = r_body s /\
  (w_out_hdr w = rw_frozen s \/ w_out_hdr w = drop_content_length (rw_frozen s)).
Proof.
  destruct consts as (EOK & _). intros (Hp & Hh & Hb & _ & Hc). split; [assumption|].
  unfold w_out_status, w_out_hdr, rw_status, rw_frozen.
  destruct (r_committed s) as [[c fh]|], (w_committed w) as [[c' fh']|]; try contradiction.
  - destruct Hc as (-> & Hc0 & [-> | [-> ->]]).
    + replace (c =? 0)%Z with false by lia. repeat split; auto. destruct (w_flushed w); auto.
    + cbn. rewrite EOK. repeat split; auto. destruct (w_flushed w); auto.
  - rewrite EOK, Hh. auto.
Qed.

Lemma must_skip_body_spec c : valid_code c = true -> must_skip_body c = negb (body_allowed c).
Proof.
  destruct consts as (EOK & _ & ENC & ENM). unfold must_skip_body, body_allowed, valid_code. rewrite EOK, ENC, ENM.
  intros H. destruct ((c <? 100) || (c =? 200))%Z eqn:E.
  - assert (c = 200%Z) by lia. subst. reflexivity.
  - lia.
Qed.

(* the status a valid program ends with is a valid code *)
Lemma rw_status_valid p : forall s,
  (forall c, In (WriteHeader c) p -> valid_code c = true) -> valid_code (rw_status s) = true ->
  valid_code (rw_status (fold_left rw_step p s)) = true.
Proof.
  induction p as [|o r IH]; intros s Hv Hs; [assumption|]. cbn [fold_left]. apply IH; [intros c Hc; apply Hv; now right|].
  assert (Hcommit : forall c, valid_code c = true -> valid_code (rw_status (rw_commit s c)) = true).
  { intros c Hc. unfold rw_commit, rw_status in *. destruct (r_committed s) as [[c0 fh]|] eqn:E; cbn; [rewrite E; exact Hs | exact Hc]. }
  destruct o; cbn [rw_step]; auto.
  - destruct (informational c); [assumption|]. apply Hcommit. apply Hv. now left.
  - specialize (Hcommit 200%Z eq_refl). unfold rw_status in *. cbn. exact Hcommit.
Qed.

(* ------------------------------------------------------------------ *)
(* header names: bytes, no CR/LF (every RFC 9110 token qualifies) *)
Definition name_char_ok (c : N) : bool := (c <? 256) && negb (c =? CR) && negb (c =? LF).
Definition name_ok (k : bytes) : bool := forallb name_char_ok k.
Definition names_ok (p : prog) : Prop := forall o k, In o p -> op_name o = Some k -> name_ok k = true.

Definition letter_or_dash (c : N) : bool := ((65 <=? c) && (c <=? 90)) || ((97 <=? c) && (c <=? 122)) || (c =? DASH).

Definition range256 : list N := map N.of_nat (seq 0 256).
Lemma in_range256 c : c < 256 -> In c range256.
Proof.
  intros H. unfold range256. apply in_map_iff. exists (N.to_nat c). split; [apply N2Nat.id|].
  apply in_seq. lia.
Qed.

(* byte facts, by exhaustive computation *)
Lemma char_case_fact :
  forallb (fun s => forallb (fun x =>
    implb (letter_or_dash s && name_char_ok x && (or20 s =? or20 x))
          ((upperb s =? upperb x) && (lowerb s =? lowerb x))) range256) range256 = true.
Proof. vm_compute. reflexivity. Qed.

Lemma char_case s x :
  letter_or_dash s = true -> name_char_ok x = true -> or20 s = or20 x -> upperb s = upperb x /\ lowerb s = lowerb x.
Proof.
  intros Hs Hx E.
  assert (Hs256 : s < 256) by (unfold letter_or_dash, DASH in Hs; lia).
  assert (Hx256 : x < 256) by (unfold name_char_ok in Hx; lia).
  pose proof char_case_fact as F. rewrite forallb_forall in F. specialize (F s (in_range256 s Hs256)).
  rewrite forallb_forall in F. specialize (F x (in_range256 x Hx256)).
  rewrite Hs, Hx in F. apply N.eqb_eq in E. rewrite E in F. cbn [andb implb] in F. apply andb_true_iff in F as [F1 F2].
  split; now apply N.eqb_eq.
Qed.

Lemma char_ok_fact :
  forallb (fun x => implb (name_char_ok x)
     (name_char_ok (upperb x) && name_char_ok (lowerb x)
      && (upperb (upperb x) =? upperb x) && (lowerb (lowerb x) =? lowerb x)
      && (upperb (lowerb x) =? upperb x) && (lowerb (upperb x) =? lowerb x)
      && (nl_to_sp x =? x))) range256 = true.
Proof. vm_compute. reflexivity. Qed.

Lemma char_ok x : name_char_ok x = true ->
  name_char_ok (upperb x) = true /\ name_char_ok (lowerb x) = true /\
  upperb (upperb x) = upperb x /\ lowerb (lowerb x) = lowerb x /\
  upperb (lowerb x) = upperb x /\ lowerb (upperb x) = lowerb x /\ nl_to_sp x = x.
Proof.
  intros Hx. assert (Hx256 : x < 256) by (unfold name_char_ok in Hx; lia).
  pose proof char_ok_fact as F. rewrite forallb_forall in F. specialize (F x (in_range256 x Hx256)).
  rewrite Hx in F. cbn [implb] in F.
  apply andb_true_iff in F as [F H7]. apply andb_true_iff in F as [F H6]. apply andb_true_iff in F as [F H5].
  apply andb_true_iff in F as [F H4]. apply andb_true_iff in F as [F H3]. apply andb_true_iff in F as [H1 H2].
  repeat split; try assumption; now apply N.eqb_eq.
Qed.

Lemma canon_from_ok up k : name_ok k = true -> name_ok (canon_from up k) = true.
Proof.
  revert up. induction k as [|c r IH]; intros up H; [reflexivity|]. cbn in H. apply andb_true_iff in H as [Hc Hr].
  cbn [canon_from]. cbn. destruct (char_ok c Hc) as (H1 & H2 & _).
  destruct up; [rewrite H1|rewrite H2]; cbn; now apply IH.
Qed.

Lemma remove_newlines_ok k : name_ok k = true -> remove_newlines k = k.
Proof.
  induction k as [|c r IH]; intros H; [reflexivity|]. cbn in H. apply andb_true_iff in H as [Hc Hr].
  unfold remove_newlines in *. cbn [map]. rewrite IH by assumption. destruct (char_ok c Hc) as (_ & _ & _ & _ & _ & _ & ->). reflexivity.
Qed.

Lemma canon_from_idem up k : name_ok k = true -> canon_from up (canon_from up k) = canon_from up k.
Proof.
  revert up. induction k as [|c r IH]; intros up H; [reflexivity|]. cbn in H. apply andb_true_iff in H as [Hc Hr].
  destruct (char_ok c Hc) as (_ & _ & H3 & H4 & _).
  cbn [canon_from]. destruct up.
  - rewrite H3. f_equal. now apply IH.
  - rewrite H4. f_equal. now apply IH.
Qed.

Lemma fhkey_canon k : name_ok k = true -> fhkey (canon k) = canon k.
Proof.
  intros H. unfold fhkey, canon. rewrite remove_newlines_ok by now apply canon_from_ok. now apply canon_from_idem.
Qed.

(* a canonical key that matches a special name case-insensitively IS that name *)
Lemma ieq_canon_exact S : forall up k,
  forallb letter_or_dash S = true -> name_ok k = true ->
  map or20 S = map or20 (canon_from up k) -> canon_from up S = canon_from up k.
Proof.
  induction S as [|s S IH]; intros up k HS Hk E.
  - destruct k; [reflexivity|discriminate].
  - destruct k as [|c k]; [discriminate|]. cbn in HS, Hk. apply andb_true_iff in HS as [Hs HS]. apply andb_true_iff in Hk as [Hc Hk].
    cbn [canon_from map] in *. injection E as E1 E2.
    destruct (char_ok c Hc) as (Hu & Hl & Huu & Hll & Hul & Hlu & _).
    destruct up.
    + destruct (char_case s (upperb c) Hs Hu E1) as [F1 F2]. rewrite Huu in F1. rewrite F1. f_equal. now apply IH.
    + destruct (char_case s (lowerb c) Hs Hl E1) as [F1 F2]. rewrite Hll in F2. rewrite F2. f_equal. now apply IH.
Qed.

Lemma ieq_canon S k :
  forallb letter_or_dash S = true -> canon S = S -> name_ok k = true -> ieq S (canon k) = true -> canon k = S.
Proof.
  intros HS HcS Hk E. unfold ieq in E. apply beq_eq in E. unfold canon in *.
  rewrite <- HcS. symmetry. now apply ieq_canon_exact.
Qed.

Lemma class_exact_canon k : name_ok k = true -> class_exact (canon k).
Proof.
  intros Hk. unfold class_exact, classify.
  destruct (ieq hdrContentType (canon k)) eqn:E1; [apply ieq_canon; auto|].
  destruct (ieq hdrContentLength (canon k)) eqn:E2; [exact I|].
  destruct (ieq hdrContentEncoding (canon k)) eqn:E3; [apply ieq_canon; auto|].
  destruct (ieq hdrConnection (canon k)) eqn:E4; [exact I|].
  destruct (ieq hdrServer (canon k)) eqn:E5; [apply ieq_canon; auto|].
  destruct (ieq hdrSetCookie (canon k)) eqn:E6; [apply ieq_canon; auto|].
  destruct (ieq hdrTransferEncoding (canon k)); [exact I|].
  destruct (ieq hdrTrailer (canon k)); [exact I|].
  destruct (ieq hdrDate (canon k)); exact I.
Qed.

(* ------------------------------------------------------------------ *)
(* every header map reachable by a program with good names has unique, exact keys *)
Definition good_h (h : hmap) : Prop := NoDup (keys h) /\ forall k, In k (keys h) -> fhkey k = k /\ class_exact k.

Lemma good_hdr_step h o : good_h h -> (forall k, op_name o = Some k -> name_ok k = true) -> good_h (hdr_step h o).
Proof.
  intros [H1 H2] Ho. split; [now apply nodup_hdr_step|].
  apply (keys_hdr_step (fun k => fhkey k = k /\ class_exact k)); [assumption|].
  intros k Hk. split; [apply fhkey_canon|apply class_exact_canon]; auto.
Qed.

Definition good_rw (s : rwstate) : Prop :=
  good_h (r_h s) /\ match r_committed s with Some (_, fh) => good_h fh | None => True end.

Lemma good_rw_run p : forall s, (forall o k, In o p -> op_name o = Some k -> name_ok k = true) -> good_rw s -> good_rw (fold_left rw_step p s).
Proof.
  induction p as [|o r IH]; intros s Hn Hs; [assumption|]. cbn [fold_left]. apply IH; [intros o' k Hin; apply Hn; now right|].
  assert (Hc : forall c, good_rw (rw_commit s c)).
  { intros c. destruct Hs as [H1 H2]. unfold rw_commit, good_rw. destruct (r_committed s) as [[c0 fh]|] eqn:E; cbn; [rewrite E|]; auto. }
  destruct o; cbn [rw_step]; try (destruct (informational c)); auto.
  - destruct Hs as [H1 H2]. split; cbn; [|assumption]. apply (good_hdr_step (r_h s) (HAdd k v)); [assumption|]. intros k0 Hk0. apply (Hn (HAdd k v)); [now left|assumption].
  - destruct Hs as [H1 H2]. split; cbn; [|assumption]. apply (good_hdr_step (r_h s) (HSet k v)); [assumption|]. intros k0 Hk0. apply (Hn (HSet k v)); [now left|assumption].
  - destruct Hs as [H1 H2]. split; cbn; [|assumption]. apply (good_hdr_step (r_h s) (HDel k)); [assumption|]. intros k0 Hk0. apply (Hn (HDel k)); [now left|assumption].
  - specialize (Hc 200%Z). destruct Hc as [H1 H2]. split; cbn; assumption.
Qed.

Lemma good_frozen p : names_ok p -> good_h (rw_frozen (rw_run p)).
Proof.
  intros Hn. assert (H : good_rw (rw_run p)).
  { apply good_rw_run; [exact Hn|]. split; cbn; [|exact I]. split; [constructor|intros k []]. }
  destruct H as [H1 H2]. unfold rw_frozen. destruct (r_committed (rw_run p)) as [[c fh]|]; assumption.
Qed.

(* ------------------------------------------------------------------ *)
(* the guards of the main theorem *)
Definition singletons_ok (h : hmap) : Prop :=
  forall k, In k (keys h) -> is_singleton_class (classify k) = true -> exists v, h_get h k = [v] /\ v <> [].
Definition no_ct_on_304 (p : prog) : Prop :=
  rw_status (rw_run p) = 304%Z -> h_get (rw_frozen (rw_run p)) sContentType = [].

Theorem final_response_equal head p :
  valid_prog p -> names_ok p ->
  singletons_ok (rw_frozen (rw_run p)) -> no_ct_on_304 p ->
  adaptor_panics p = false /\
  m_status (adaptor_resp head p) = m_status (spec_resp head p) /\
  m_body (adaptor_resp head p) = m_body (spec_resp head p) /\
  forall n, excluded_name n = false -> f_get (m_fields (adaptor_resp head p)) n = f_get (m_fields (spec_resp head p)) n.
Proof.
  intros Hv Hn Hsg H304.
  pose proof (sim_run p w_init rw_init Hv sim_init) as Hsim.
  apply sim_final in Hsim. destruct Hsim as (Hp & Hst & Hbody & Hhdr).
  fold (w_run p) in *. fold (rw_run p) in *.
  assert (Hvalid : valid_code (rw_status (rw_run p)) = true) by (apply rw_status_valid; [exact Hv|reflexivity]).
  pose proof (good_frozen p Hn) as [Hnd Hkeys].
  assert (Hok : hmap_ok (rw_frozen (rw_run p))) by (split; [assumption|split; assumption]).
  unfold adaptor_panics, adaptor_resp, spec_resp, adaptor_final, rw_final. cbn [m_status m_body m_fields].
  split; [assumption|]. split; [assumption|]. split.
  - rewrite Hst, Hbody. now rewrite must_skip_body_spec.
  - intros n Hne.
    assert (Hncl : beq hdrContentLength n = false).
    { apply beq_false_neq. intros <-. revert Hne. now vm_compute. }
    assert (Ha : f_get (client_fields (fh_lines (fh_of_hmap (w_out_hdr (w_run p))))) n = map wire_val (h_get (rw_frozen (rw_run p)) n)).
    { destruct Hhdr as [-> | ->].
      - now apply adaptor_fields_hmap.
      - unfold drop_content_length. rewrite adaptor_fields_hmap; [|now apply hmap_ok_del|assumption].
        now rewrite h_get_h_del, Hncl. }
    rewrite Ha. unfold rw_wire_hdr. destruct (rw_status (rw_run p) =? 304)%Z eqn:E304.
    + rewrite f_get_hmap_fields by now apply nodup_h_del. rewrite h_get_h_del.
      destruct (beq sContentType n) eqn:Ect; [|reflexivity].
      apply beq_eq in Ect. subst n. rewrite H304; [reflexivity|lia].
    + now rewrite f_get_hmap_fields.
Qed.

(* ------------------------------------------------------------------ *)
(* witnesses: each guard is needed *)
Definition resp_agree (head : bool) (p : prog) : Prop :=
  m_status (adaptor_resp head p) = m_status (spec_resp head p) /\
  m_body (adaptor_resp head p) = m_body (spec_resp head p) /\
  forall n, excluded_name n = false -> f_get (m_fields (adaptor_resp head p)) n = f_get (m_fields (spec_resp head p)) n.

(* the former late-writeheader / late-header-mutation witnesses (repaired in 8ad8bae): now inside the theorem *)
Definition late_status_witness : prog := [Write (s2b "x"); WriteHeader 404].
Definition late_header_witness : prog := [Write (s2b "x"); HSet (s2b "X-A") (s2b "1")].
Definition singleton_witness : prog := [HAdd (s2b "Content-Encoding") (s2b "gzip"); HAdd (s2b "Content-Encoding") (s2b "br"); Write (s2b "zz")].
Definition ct304_witness : prog := [HSet (s2b "Content-Type") (s2b "a/b"); WriteHeader 304].

Lemma singleton_refuted : valid_prog singleton_witness /\ names_ok singleton_witness /\ ~ resp_agree false singleton_witness.
Proof.
  split; [intros c [H|[H|[H|[]]]]; inversion H|]. split; [intros o k [<-|[<-|[<-|[]]]] H; inversion H; reflexivity|].
  intros (_ & _ & H). specialize (H (s2b "Content-Encoding") eq_refl). vm_compute in H. discriminate.
Qed.
Lemma ct304_refuted : valid_prog ct304_witness /\ names_ok ct304_witness /\ ~ resp_agree false ct304_witness.
Proof.
  split; [intros c [H|[H|[]]]; inversion H; reflexivity|]. split; [intros o k [<-|[<-|[]]] H; inversion H; reflexivity|].
  intros (_ & _ & H). specialize (H (s2b "Content-Type") eq_refl). vm_compute in H. discriminate.
Qed.

(* the fixed B22 defect stays fixed in the model: informational codes never become the final status *)
Lemma informational_never_final head p c :
  valid_prog p -> informational c = true -> m_status (adaptor_resp head (WriteHeader c :: p)) = m_status (adaptor_resp head p).
Proof.
  intros _ Hi. unfold adaptor_resp, w_run. cbn [fold_left]. unfold w_step at 2. cbn [w_panic w_init].
  unfold informational in Hi. destruct consts as (_ & -> & _).
  replace ((c <? 100) || (c >? 999))%Z with false by lia. now rewrite Hi.
Qed.

(* ------------------------------------------------------------------ *)
(* ConvertRequest against http.ReadRequest (request line, Host, body; the header multimap minus Host is
   tied by the harness only) *)
Definition connect_auth (q : sreq) : bool := beq (q_method q) sCONNECT && negb (starts_with_slash (q_target q)).
Definition proto_10_or_11 (q : sreq) : Prop := q_proto q = s2b "HTTP/1.1" \/ q_proto q = s2b "HTTP/1.0".

Lemma convert_line_equal q :
  connect_auth q = false -> proto_10_or_11 q ->
  let a := convert_request q in let n := spec_read_request q in
  c_method a = c_method n /\ c_uri a = c_uri n /\ c_url a = c_url n /\ c_proto a = c_proto n /\
  c_major a = c_major n /\ c_minor a = c_minor n /\ c_body a = c_body n.
Proof.
  intros Hc Hp a n. subst a n. unfold convert_request, spec_read_request.
  cbn [c_method c_uri c_url c_proto c_major c_minor c_body]. unfold connect_auth in Hc. rewrite Hc.
  destruct Hp as [E|E]; rewrite E; repeat split; reflexivity.
Qed.

Lemma h_get_h_add h k v n : h_get (h_add h k v) n = if beq k n then h_get h n ++ [v] else h_get h n.
Proof.
  induction h as [|[k' vs] r IH]; cbn [h_add h_get].
  - destruct (beq k n); reflexivity.
  - destruct (beq k' k) eqn:E; cbn [h_get].
    + apply beq_eq in E. subst k'. destruct (beq k n); reflexivity.
    + rewrite IH. destruct (beq k' n) eqn:E2; [|reflexivity].
      apply beq_eq in E2. subst k'. rewrite beq_sym in E. now rewrite E.
Qed.

Definition conv_step (h : hmap) (kv : bytes * bytes) : hmap :=
  if beq (fst kv) sTransferEncoding then h else h_add h (canon (fst kv)) (snd kv).

Lemma h_get_conv_fold l : forall h n,
  h_get (fold_left conv_step l h) n
  = h_get h n ++ map snd (filter (fun kv => negb (beq (fst kv) sTransferEncoding) && beq (canon (fst kv)) n) l).
Proof.
  induction l as [|[k v] r IH]; intros h n; cbn [fold_left filter map]; [now rewrite app_nil_r|].
  rewrite IH. unfold conv_step. cbn [fst snd].
  destruct (beq k sTransferEncoding); cbn [negb andb]; [reflexivity|].
  rewrite h_get_h_add. destruct (beq (canon k) n); cbn [map]; [now rewrite <- app_assoc|reflexivity].
Qed.

Lemma h_get_hdr_of_lines l n :
  h_get (hdr_of_lines l) n = map snd (filter (fun kv => beq (canon (fst kv)) n) l).
Proof.
  unfold hdr_of_lines.
  assert (G : forall l h, h_get (fold_left (fun h kv => h_add h (canon (fst kv)) (snd kv)) l h) n
                          = h_get h n ++ map snd (filter (fun kv => beq (canon (fst kv)) n) l)).
  { clear l. induction l as [|[k v] r IH]; intros h; cbn [fold_left filter map]; [now rewrite app_nil_r|].
    rewrite IH, h_get_h_add. cbn [fst snd]. destruct (beq (canon k) n); cbn [map]; [now rewrite <- app_assoc|reflexivity]. }
  now rewrite G.
Qed.

(* case-insensitive match of a name against a canonical special name = equality of canonical forms *)
Lemma or20_canon_from up k : name_ok k = true -> map or20 (canon_from up k) = map or20 k.
Proof.
  revert up. induction k as [|c r IH]; intros up H; [reflexivity|]. cbn in H. apply andb_true_iff in H as [Hc Hr].
  cbn [canon_from map]. rewrite IH by assumption. f_equal.
  assert (F : forallb (fun x => (or20 (upperb x) =? or20 x) && (or20 (lowerb x) =? or20 x)) range256 = true) by (vm_compute; reflexivity).
  rewrite forallb_forall in F. assert (Hc256 : c < 256) by (unfold name_char_ok in Hc; lia).
  specialize (F c (in_range256 c Hc256)). apply andb_true_iff in F as [F1 F2]. apply N.eqb_eq in F1, F2. now destruct up.
Qed.

Lemma canon_beq_ieq S k :
  forallb letter_or_dash S = true -> canon S = S -> name_ok k = true -> beq (canon k) S = ieq k S.
Proof.
  intros HS HcS Hk. destruct (ieq k S) eqn:E.
  - apply beq_eq. apply ieq_canon; try assumption. rewrite ieq_sym. unfold ieq in *. unfold canon. now rewrite or20_canon_from.
  - apply beq_false_neq. intros Hc. rewrite <- Hc in E. unfold ieq, canon in E. rewrite or20_canon_from in E by assumption.
    now rewrite beq_refl in E.
Qed.

Definition line_names_ok (q : sreq) : Prop := forall kv, In kv (q_hdrs q) -> name_ok (fst kv) = true.

Lemma lines_get_canon l S :
  (forall kv, In kv l -> name_ok (fst kv) = true) -> forallb letter_or_dash S = true -> canon S = S ->
  lines_get l S = map snd (filter (fun kv => beq (canon (fst kv)) S) l).
Proof.
  intros Hn HS HcS. unfold lines_get. f_equal. apply filter_ext_in. intros kv Hin. symmetry. apply canon_beq_ieq; auto.
Qed.

(* r.Host through the adaptor is net/http's r.Host lower-cased: equal exactly for lower-case hosts *)
Lemma convert_host_lowercased q :
  line_names_ok q -> connect_auth q = false -> (length (lines_get (q_hdrs q) hdrHost) <= 1)%nat ->
  c_host (convert_request q) = lower_bytes (c_host (spec_read_request q)).
Proof.
  intros Hn Hc Hone. unfold connect_auth in Hc. unfold convert_request, spec_read_request. cbn [c_host]. rewrite Hc.
  unfold fh_parse. cbn [fq_host]. rewrite h_get_hdr_of_lines.
  change sHost with hdrHost. rewrite <- (lines_get_canon (q_hdrs q) hdrHost) by (auto; reflexivity).
  destruct (lines_get (q_hdrs q) hdrHost) as [|v [|v2 r]]; [reflexivity|reflexivity|cbn in Hone; lia].
Qed.

(* Host stays in r.Header through the adaptor, http.ReadRequest removes it: for every request with a Host line *)
Lemma convert_host_in_header q v :
  lines_get (q_hdrs q) hdrHost = [v] -> v <> [] ->
  (exists r, h_get (c_hdr (convert_request q)) sHost = v :: r) /\ h_get (c_hdr (spec_read_request q)) sHost = [].
Proof.
  intros Hl Hv. split.
  - unfold convert_request. cbn [c_hdr]. change (fun h kv => if beq (fst kv) sTransferEncoding then h else h_add h (canon (fst kv)) (snd kv)) with conv_step.
    rewrite h_get_conv_fold. cbn [h_get app]. unfold fh_all, fh_parse. cbn [fq_host]. rewrite Hl. cbn [last_or_empty last].
    destruct v as [|c v]; [congruence|]. cbn [opt_line app filter fst snd].
    replace (negb (beq hdrHost sTransferEncoding) && beq (canon hdrHost) sHost) with true by (vm_compute; reflexivity).
    cbn [map snd]. eexists. reflexivity.
  - unfold spec_read_request. cbn [c_hdr]. rewrite h_get_h_del. now rewrite beq_refl.
Qed.
