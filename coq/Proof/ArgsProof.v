(* Proofs for C28: the Args model refines the ordered multimap; parsing is the reference grammar;
   parse (serialise m) = m minus both-empty entries. *)
From FH Require Import Model.Base Gen.GenC28 Model.Args Spec.Multimap.
From Coq Require Import Lia ZifyBool ZifyN ZifyNat.
Open Scope N_scope.

(* ------------------------------------------------------------------ *)
(* Part A: refinement of the multimap                                   *)
(* ------------------------------------------------------------------ *)

Definition toE (kv : argsKV) : entry := (kv_key kv, kv_value kv, kv_noValue kv).
Definition abs (a : args) : mmap := map toE (live a).

Lemma beq_sym a b : beq a b = beq b a.
Proof.
  destruct (beq a b) eqn:E1, (beq b a) eqn:E2; try reflexivity.
  - apply beq_eq in E1. subst. now rewrite beq_refl in E2.
  - apply beq_eq in E2. subst. now rewrite beq_refl in E1.
Qed.

Lemma allocArg_live a : fst (fst (allocArg a)) = live a.
Proof. unfold allocArg. now destruct (spare a). Qed.

Lemma appendArg_live a k v nv :
  live (appendArg a k v nv) = live a ++ [mkKV k (if nv then [] else v) nv].
Proof. unfold appendArg, allocArg. destruct (spare a), nv; reflexivity. Qed.

Lemma abs_appendArg a k v nv : abs (appendArg a k v nv) = abs a ++ [(k, (if nv then [] else v), nv)].
Proof. unfold abs. rewrite appendArg_live, map_app. reflexivity. Qed.

Lemma setArg_loop_spec h k v nv :
  match setArg_loop h k v nv with
  | Some h' => map toE h' = mm_replace_first (map toE h) k (k, (if nv then [] else v), nv)
  | None => mm_replace_first (map toE h) k (k, (if nv then [] else v), nv) = map toE h ++ [(k, (if nv then [] else v), nv)]
  end.
Proof.
  induction h as [|kv r IH]; cbn [setArg_loop map mm_replace_first]; [reflexivity|].
  unfold has_key. cbn [toE e_key fst]. rewrite (beq_sym (kv_key kv) k).
  destruct (beq k (kv_key kv)) eqn:E.
  - apply beq_eq in E. subst k. destruct nv; reflexivity.
  - destruct (setArg_loop r k v nv) as [r'|]; cbn [map app].
    + now rewrite IH.
    + now rewrite IH.
Qed.

Lemma abs_setArg a k v nv : abs (setArg a k v nv) = mm_replace_first (abs a) k (k, (if nv then [] else v), nv).
Proof.
  unfold setArg, abs. pose proof (setArg_loop_spec (live a) k v nv) as H.
  destruct (setArg_loop (live a) k v nv) as [h|].
  - exact H.
  - fold (abs (appendArg a k v nv)). rewrite abs_appendArg. now rewrite H.
Qed.

Lemma del_loop_spec rest : forall kept parked key,
  fst (delAllArgsStable_loop kept rest parked key) = kept ++ filter (fun kv => negb (beq key (kv_key kv))) rest.
Proof.
  induction rest as [|kv r IH]; intros kept parked key; cbn [delAllArgsStable_loop filter].
  - now rewrite app_nil_r.
  - destruct (beq key (kv_key kv)); cbn [negb].
    + apply IH.
    + rewrite IH, <- app_assoc. reflexivity.
Qed.

Lemma abs_del a k : abs (delAllArgsStable a k) = mm_del (abs a) k.
Proof.
  unfold delAllArgsStable, abs, mm_del. pose proof (del_loop_spec (live a) [] [] k) as H.
  destruct (delAllArgsStable_loop [] (live a) [] k) as [kept parked]. cbn [fst live] in *. subst kept. cbn [app].
  induction (live a) as [|kv r IH]; cbn [filter map]; [reflexivity|].
  unfold has_key at 1. cbn [toE e_key fst]. rewrite (beq_sym (kv_key kv) k).
  destruct (beq k (kv_key kv)); cbn [negb map]; now rewrite IH.
Qed.

Lemma hasArg_spec h k : hasArg h k = mm_has (map toE h) k.
Proof.
  induction h as [|kv r IH]; cbn [hasArg map mm_has existsb]; [reflexivity|].
  unfold has_key at 1. cbn [toE e_key fst]. rewrite (beq_sym (kv_key kv) k).
  destruct (beq k (kv_key kv)); cbn [orb]; [reflexivity|]. exact IH.
Qed.

Lemma peekArgStr_spec h k : peekArgStr h k = mm_peek (map toE h) k.
Proof.
  unfold mm_peek.
  induction h as [|kv r IH]; cbn [peekArgStr map find]; [reflexivity|].
  unfold has_key at 1. cbn [toE e_key fst].
  destruct (beq (kv_key kv) k); [reflexivity|]. exact IH.
Qed.

Lemma PeekMulti_loop_spec h k : forall acc, PeekMulti_loop h k acc = acc ++ mm_peek_multi (map toE h) k.
Proof.
  unfold mm_peek_multi.
  induction h as [|kv r IH]; intros acc; cbn [PeekMulti_loop map filter].
  - now rewrite app_nil_r.
  - unfold has_key at 1. cbn [toE e_key fst].
    destruct (beq (kv_key kv) k); cbn [map].
    + rewrite IH, <- app_assoc. reflexivity.
    + apply IH.
Qed.

Lemma peekArgBytes_Str h k : peekArgBytes h k = peekArgStr h k.
Proof. induction h as [|kv r IH]; cbn [peekArgBytes peekArgStr]; [reflexivity|]. now rewrite IH. Qed.

Lemma PeekBytes_Peek a k : PeekBytes a k = Peek a k.
Proof. apply peekArgBytes_Str. Qed.

(* every getter of the model is the multimap getter on the abstraction *)
Lemma getters_abs a k :
  Peek a k = mm_peek (abs a) k /\ PeekMulti a k = mm_peek_multi (abs a) k /\ Has a k = mm_has (abs a) k
  /\ Len a = mm_len (abs a) /\ All a = mm_all (abs a) /\ map kv_noValue (live a) = map e_nov (abs a).
Proof.
  unfold Peek, PeekMulti, Has, Len, All, abs, mm_len, mm_all.
  rewrite peekArgStr_spec, PeekMulti_loop_spec, hasArg_spec, map_length, !map_map. cbn [app].
  repeat split; reflexivity.
Qed.

Definition op_of_mop (o : mop) : op :=
  match o with
  | MAdd k v => OAdd k v | MAddNoValue k => OAddNoValue k | MSet k v => OSet k v
  | MSetNoValue k => OSetNoValue k | MDel k => ODel k | MReset => OReset
  end.

Lemma abs_step a o : abs (step a (op_of_mop o)) = mm_step (abs a) o.
Proof.
  destruct o; cbn [op_of_mop step mm_step].
  - unfold Add. now rewrite abs_appendArg.
  - unfold AddNoValue. now rewrite abs_appendArg.
  - unfold Set_. now rewrite abs_setArg.
  - unfold SetNoValue. now rewrite abs_setArg.
  - apply abs_del.
  - reflexivity.
Qed.

Lemma abs_run ops : forall a, abs (run_ops a (map op_of_mop ops)) = mm_run (abs a) ops.
Proof.
  unfold run_ops, mm_run. induction ops as [|o r IH]; intros a; cbn [map fold_left]; [reflexivity|].
  now rewrite IH, abs_step.
Qed.

(* simulation, from ANY state of the model (any live entries, any stale spare slots) *)
Theorem refines_multimap_from : forall (a : args) (ops : list mop) (k : bytes),
  let a' := run_ops a (map op_of_mop ops) in
  let m' := mm_run (abs a) ops in
  Peek a' k = mm_peek m' k /\ PeekMulti a' k = mm_peek_multi m' k /\ Has a' k = mm_has m' k
  /\ Len a' = mm_len m' /\ All a' = mm_all m' /\ map kv_noValue (live a') = map e_nov m'.
Proof. intros a ops k a' m'. subst a' m'. rewrite <- abs_run. apply getters_abs. Qed.

(* ------------------------------------------------------------------ *)
(* Part B: quoting and decoding                                         *)
(* ------------------------------------------------------------------ *)

Definition all256 : list N := map N.of_nat (seq 0 256).
Lemma in_all256 c : c < 256 -> In c all256.
Proof. intros H. apply in_map_iff. exists (N.to_nat c). split; [lia|]. apply in_seq. lia. Qed.

(* one byte of AppendQuotedArg *)
Definition qbyte (c : N) : bytes :=
  if c =? SP then [PLUS]
  else if negb (tbl quotedArgShouldEscapeTable c =? 0)
  then [PCT; tbl upperhex (N.shiftr c 4); tbl upperhex (N.land c 15)]
  else [c].
Definition quote (s : bytes) : bytes := flat_map qbyte s.

Lemma AppendQuotedArg_spec src : forall dst, AppendQuotedArg dst src = dst ++ quote src.
Proof.
  induction src as [|c r IH]; intros dst; cbn [AppendQuotedArg quote flat_map].
  - now rewrite app_nil_r.
  - fold (quote r). unfold qbyte.
    destruct (c =? SP); [|destruct (negb (tbl quotedArgShouldEscapeTable c =? 0))]; rewrite IH, <- app_assoc; reflexivity.
Qed.

Definition special (c : N) : bool := (c =? PCT) || (c =? PLUS) || (c =? AMP) || (c =? EQS).

(* the finite fact about the three tables, checked for every byte:
   a byte is written as '+' (only for space), as itself (only when it is none of % + & =),
   or as %XY with X, Y hex digits that hex2intTable maps back to the byte *)
Definition qbyte_ok (c : N) : bool :=
  match qbyte c with
  | [p] => if p =? PLUS then c =? SP else (p =? c) && negb (special c)
  | [p; x; y] =>
      let x1 := tbl hex2intTable x in
      let x2 := tbl hex2intTable y in
      (p =? PCT) && negb (x1 =? 16) && negb (x2 =? 16) && (N.lor (N.shiftl x1 4 mod 256) x2 =? c)
      && negb (special x) && negb (special y)
  | _ => false
  end.
Lemma qbyte_ok_all : forallb qbyte_ok all256 = true.
Proof. vm_compute. reflexivity. Qed.
Lemma qbyte_ok_byte c : c < 256 -> qbyte_ok c = true.
Proof. intros H. pose proof qbyte_ok_all as A. rewrite forallb_forall in A. apply A, in_all256, H. Qed.

(* hex2intTable against the reference hex value, and the decoded byte is a byte *)
Definition hex_ok (c : N) : bool :=
  match hexv c with
  | Some v => (tbl hex2intTable c =? v) && (v <? 16)
  | None => tbl hex2intTable c =? 16
  end.
Lemma hex_ok_all : forallb hex_ok all256 = true.
Proof. vm_compute. reflexivity. Qed.
Lemma hex_ok_byte c : c < 256 -> hex_ok c = true.
Proof. intros H. pose proof hex_ok_all as A. rewrite forallb_forall in A. apply A, in_all256, H. Qed.

Definition all16 : list N := map N.of_nat (seq 0 16).
Lemma in_all16 c : c < 16 -> In c all16.
Proof. intros H. apply in_map_iff. exists (N.to_nat c). split; [lia|]. apply in_seq. lia. Qed.
Lemma lor_ok_all : forallb (fun a => forallb (fun b => N.lor (N.shiftl a 4 mod 256) b =? 16 * a + b) all16) all16 = true.
Proof. vm_compute. reflexivity. Qed.
Lemma lor_ok a b : a < 16 -> b < 16 -> N.lor (N.shiftl a 4 mod 256) b = 16 * a + b.
Proof.
  intros Ha Hb. pose proof lor_ok_all as A. rewrite forallb_forall in A.
  specialize (A a (in_all16 a Ha)). rewrite forallb_forall in A. apply N.eqb_eq, A, in_all16, Hb.
Qed.

(* bytes that the decoder copies *)
Definition plain (c : N) : bool := negb (c =? PCT) && negb (c =? PLUS).

Lemma decode_loop_plain p : forallb plain p = true -> forall r, decode_loop (p ++ r) = p ++ decode_loop r.
Proof.
  induction p as [|c p IH]; intros H r; [reflexivity|].
  cbn [forallb] in H. apply andb_true_iff in H as [Hc Hp]. unfold plain in Hc.
  apply andb_true_iff in Hc as [H1 H2]. apply negb_true_iff in H1, H2.
  cbn [app decode_loop]. rewrite H1, H2. now rewrite IH.
Qed.

Lemma decode_loop_plain_id p : forallb plain p = true -> decode_loop p = p.
Proof. intros H. rewrite <- (app_nil_r p) at 1. rewrite decode_loop_plain by exact H. cbn. now rewrite app_nil_r. Qed.

Lemma indexByte_none_plain s c : indexByte s c = None -> forallb (fun x => negb (x =? c)) s = true.
Proof.
  induction s as [|x r IH]; cbn [indexByte forallb]; [reflexivity|].
  destruct (x =? c); [discriminate|]. destruct (indexByte r c); [discriminate|]. intros _. now rewrite IH.
Qed.

(* the index the slow path starts at *)
Definition start_idx (s : bytes) : option nat :=
  match indexByte s PCT, indexByte s PLUS with
  | None, None => None
  | None, Some p => Some p
  | Some q, None => Some q
  | Some q, Some p => Some (if Nat.ltb p q then p else q)
  end.

Lemma start_idx_cons x r : start_idx (x :: r) = if (x =? PCT) || (x =? PLUS) then Some O else option_map S (start_idx r).
Proof.
  unfold start_idx. cbn [indexByte].
  destruct (x =? PCT) eqn:E1; destruct (x =? PLUS) eqn:E2; cbn [orb].
  - reflexivity.
  - destruct (indexByte r PLUS); reflexivity.
  - destruct (indexByte r PCT); reflexivity.
  - destruct (indexByte r PCT) as [q|], (indexByte r PLUS) as [p|]; cbn [option_map]; try reflexivity.
    change (Nat.ltb (S p) (S q)) with (Nat.ltb p q). now destruct (Nat.ltb p q).
Qed.

Lemma start_idx_spec s :
  match start_idx s with
  | None => forallb plain s = true
  | Some i => forallb plain (firstn i s) = true
  end.
Proof.
  induction s as [|x r IH]; [reflexivity|].
  rewrite start_idx_cons. destruct ((x =? PCT) || (x =? PLUS)) eqn:E.
  - reflexivity.
  - apply orb_false_iff in E as [E1 E2].
    destruct (start_idx r) as [i|]; cbn [option_map firstn forallb]; unfold plain at 1; rewrite E1, E2; exact IH.
Qed.

Lemma decodeArgAppend_spec dst src : decodeArgAppend dst src = dst ++ decode_loop src.
Proof.
  pose proof (start_idx_spec src) as H. unfold start_idx in H. unfold decodeArgAppend.
  destruct (indexByte src PCT) as [q|], (indexByte src PLUS) as [p|].
  - rewrite <- (firstn_skipn (if Nat.ltb p q then p else q) src) at 3.
    rewrite decode_loop_plain by exact H. now rewrite app_assoc.
  - rewrite <- (firstn_skipn q src) at 3. rewrite decode_loop_plain by exact H. now rewrite app_assoc.
  - rewrite <- (firstn_skipn p src) at 3. rewrite decode_loop_plain by exact H. now rewrite app_assoc.
  - now rewrite decode_loop_plain_id.
Qed.

Definition dec (s : bytes) : bytes := decodeArgAppend [] s.
Lemma dec_loop s : dec s = decode_loop s.
Proof. unfold dec. now rewrite decodeArgAppend_spec. Qed.

(* decode (quote x) = x, for every byte string *)
Lemma decode_quote_app x : wf_bytes x -> forall r, decode_loop (quote x ++ r) = x ++ decode_loop r.
Proof.
  induction 1 as [|c x Hc Hx IH]; intros r; [reflexivity|].
  cbn [quote flat_map]. fold (quote x). rewrite <- app_assoc.
  pose proof (qbyte_ok_byte c Hc) as Q. unfold qbyte_ok in Q.
  destruct (qbyte c) as [|p [|h1 [|h2 [|? ?]]]]; try discriminate.
  - cbn [app decode_loop]. destruct (p =? PLUS) eqn:EP.
    + apply N.eqb_eq in EP, Q. subst. cbn. now rewrite IH.
    + apply andb_true_iff in Q as [Q1 Q2]. apply N.eqb_eq in Q1. subst p.
      unfold special in Q2. apply negb_true_iff in Q2. apply orb_false_iff in Q2 as [Q2 _].
      apply orb_false_iff in Q2 as [Q2 _]. apply orb_false_iff in Q2 as [Q2 Q3].
      rewrite Q2. now rewrite IH.
  - repeat (apply andb_true_iff in Q as [Q ?]).
    apply N.eqb_eq in Q. subst p. cbn [app decode_loop]. rewrite N.eqb_refl.
    match goal with H1 : negb (tbl hex2intTable h1 =? 16) = true, H2 : negb (tbl hex2intTable h2 =? 16) = true |- _ =>
      apply negb_true_iff in H1, H2; rewrite H1, H2 end.
    cbn [orb]. match goal with H : (_ =? c) = true |- _ => apply N.eqb_eq in H; rewrite H end.
    now rewrite IH.
Qed.

Theorem decode_quote x : wf_bytes x -> dec (quote x) = x.
Proof.
  intros H. rewrite dec_loop. rewrite <- (app_nil_r (quote x)). rewrite decode_quote_app by exact H.
  cbn. now rewrite app_nil_r.
Qed.

(* quote output contains no '&' and no '=' at all; '+' and '%' only as escapes (previous lemma) *)
Definition sep_free (s : bytes) : bool := forallb (fun c => negb (c =? AMP) && negb (c =? EQS)) s.

Lemma quote_sep_free x : wf_bytes x -> sep_free (quote x) = true.
Proof.
  unfold sep_free. induction 1 as [|c x Hc Hx IH]; [reflexivity|].
  cbn [quote flat_map]. fold (quote x). rewrite forallb_app, IH, andb_true_r.
  pose proof (qbyte_ok_byte c Hc) as Q. unfold qbyte_ok in Q.
  destruct (qbyte c) as [|p [|h1 [|h2 [|? ?]]]]; try discriminate.
  - cbn [forallb]. destruct (p =? PLUS) eqn:EP.
    + apply N.eqb_eq in EP. subst p. reflexivity.
    + apply andb_true_iff in Q as [Q1 Q2]. apply N.eqb_eq in Q1. subst p.
      unfold special in Q2. apply negb_true_iff in Q2. apply orb_false_iff in Q2 as [Q2 Q4].
      apply orb_false_iff in Q2 as [Q2 Q3]. now rewrite Q3, Q4.
  - repeat (apply andb_true_iff in Q as [Q ?]).
    apply N.eqb_eq in Q. subst p. cbn [forallb].
    repeat match goal with H : negb (special _) = true |- _ =>
      unfold special in H; apply negb_true_iff in H; apply orb_false_iff in H as [H ?]; apply orb_false_iff in H as [_ H] end.
    repeat match goal with H : (_ =? _) = false |- _ => rewrite H; clear H end. reflexivity.
Qed.

(* an escape, when it appears in quote output, is well formed: '%' is always followed by two hex digits.
   Together with decode_quote this is "no '+' or '%' except as escapes". *)

(* the decoder is the reference decoder *)
Lemma decode_loop_spec_decode : forall n s, (length s <= n)%nat -> wf_bytes s -> decode_loop s = spec_decode s.
Proof.
  induction n as [|n IH]; intros s Hl Hwf.
  - destruct s; [reflexivity|cbn in Hl; lia].
  - destruct s as [|c r]; [reflexivity|]. cbn [decode_loop spec_decode].
    inversion Hwf as [|? ? Hc Hr]; subst. cbn [length] in Hl.
    destruct (c =? PCT) eqn:E1.
    + assert (E2 : (c =? PLUS) = false) by (apply N.eqb_eq in E1; subst c; reflexivity). rewrite E2.
      destruct r as [|c1 [|c2 r']]; try reflexivity.
      inversion Hr as [|? ? Hc1 Hr1]; subst. inversion Hr1 as [|? ? Hc2 Hr2]; subst.
      pose proof (hex_ok_byte c1 Hc1) as K1. pose proof (hex_ok_byte c2 Hc2) as K2. unfold hex_ok in K1, K2.
      cbn [length] in Hl.
      destruct (hexv c1) as [a|].
      * apply andb_true_iff in K1 as [K1 L1]. apply N.eqb_eq in K1. apply N.ltb_lt in L1.
        destruct (hexv c2) as [b|].
        -- apply andb_true_iff in K2 as [K2 L2]. apply N.eqb_eq in K2. apply N.ltb_lt in L2.
           rewrite K1, K2.
           destruct (a =? 16) eqn:Ea; [apply N.eqb_eq in Ea; lia|].
           destruct (b =? 16) eqn:Eb; [apply N.eqb_eq in Eb; lia|].
           cbn [orb]. rewrite lor_ok by assumption. f_equal. apply IH; [lia|assumption].
        -- apply N.eqb_eq in K2. rewrite K2. rewrite N.eqb_refl, orb_true_r. f_equal. apply IH; [cbn [length]; lia|assumption].
      * apply N.eqb_eq in K1. rewrite K1. rewrite N.eqb_refl. cbn [orb]. f_equal. apply IH; [cbn [length]; lia|assumption].
    + destruct (c =? PLUS) eqn:E2.
      * f_equal. apply IH; [lia|assumption].
      * f_equal. apply IH; [lia|assumption].
Qed.

Theorem dec_spec_decode s : wf_bytes s -> dec s = spec_decode s.
Proof. intros H. rewrite dec_loop. now apply (decode_loop_spec_decode (length s)). Qed.

(* decoding keeps bytes bytes *)
Lemma spec_decode_wf : forall n s, (length s <= n)%nat -> wf_bytes s -> wf_bytes (spec_decode s).
Proof.
  induction n as [|n IH]; intros s Hl Hwf.
  - destruct s; [constructor|cbn in Hl; lia].
  - destruct s as [|c r]; [constructor|]. cbn [spec_decode].
    inversion Hwf as [|? ? Hc Hr]; subst. cbn [length] in Hl.
    destruct (c =? PLUS).
    + constructor; [unfold SP; lia|]. apply IH; [lia|assumption].
    + destruct (c =? PCT).
      * destruct r as [|c1 [|c2 r']]; try exact Hwf.
        inversion Hr as [|? ? Hc1 Hr1]; subst. inversion Hr1 as [|? ? Hc2 Hr2]; subst.
        pose proof (hex_ok_byte c1 Hc1) as K1. pose proof (hex_ok_byte c2 Hc2) as K2. unfold hex_ok in K1, K2.
        cbn [length] in Hl.
        destruct (hexv c1) as [a|]; [destruct (hexv c2) as [b|]|].
        -- apply andb_true_iff in K1 as [_ L1]. apply andb_true_iff in K2 as [_ L2].
           constructor; [lia|]. apply IH; [lia|assumption].
        -- constructor; [unfold PCT; lia|]. apply IH; [cbn [length]; lia|assumption].
        -- constructor; [unfold PCT; lia|]. apply IH; [cbn [length]; lia|assumption].
      * constructor; [assumption|]. apply IH; [lia|assumption].
Qed.

Lemma dec_wf s : wf_bytes s -> wf_bytes (dec s).
Proof. intros H. rewrite dec_spec_decode by exact H. now apply (spec_decode_wf (length s)). Qed.

(* ------------------------------------------------------------------ *)
(* Part C: the scanner is the reference grammar                         *)
(* ------------------------------------------------------------------ *)

Definition tail_of (t : option bytes) : bytes := match t with Some x => x | None => [] end.
Definition lacks (c : N) (s : bytes) : bool := forallb (fun x => negb (x =? c)) s.

Lemma cut_first_acc c s : forall cur,
  cut_first c s cur = (rev cur ++ fst (cut_first c s []), snd (cut_first c s [])).
Proof.
  induction s as [|x r IH]; intros cur; cbn [cut_first].
  - cbn. now rewrite app_nil_r.
  - destruct (x =? c).
    + cbn. now rewrite app_nil_r.
    + rewrite (IH (x :: cur)), (IH [x]). cbn [rev fst snd app]. now rewrite <- app_assoc.
Qed.

Lemma cut_first_cons c x r :
  cut_first c (x :: r) [] = if x =? c then ([], Some r) else (x :: fst (cut_first c r []), snd (cut_first c r [])).
Proof. cbn [cut_first]. destruct (x =? c); [reflexivity|]. now rewrite cut_first_acc. Qed.

Lemma cut_first_lacks c s t : lacks c s = true ->
  cut_first c (s ++ t) [] = (s ++ fst (cut_first c t []), snd (cut_first c t [])).
Proof.
  induction s as [|x r IH]; intros H.
  - cbn [app]. now destruct (cut_first c t []).
  - cbn [lacks forallb] in H. apply andb_true_iff in H as [H1 H2]. apply negb_true_iff in H1.
    cbn [app]. rewrite cut_first_cons, H1. fold (lacks c r) in H2. now rewrite (IH H2).
Qed.

Lemma cut_first_lacks_nil c s : lacks c s = true -> cut_first c s [] = (s, None).
Proof. intros H. rewrite <- (app_nil_r s) at 1. rewrite cut_first_lacks by exact H. cbn. now rewrite app_nil_r. Qed.

Lemma cut_first_tail_len c s : forall t, snd (cut_first c s []) = Some t -> (length t < length s)%nat.
Proof.
  induction s as [|x r IH]; intros t; [discriminate|].
  rewrite cut_first_cons. destruct (x =? c); cbn [snd length].
  - intros [= <-]. lia.
  - intros H. specialize (IH t H). lia.
Qed.

Definition piece_kv (p : bytes) : argsKV :=
  match cut_first EQS p [] with
  | (k, None) => mkKV (dec k) [] true
  | (k, Some v) => mkKV (dec k) (dec v) false
  end.

Lemma toE_piece_kv p : toE (piece_kv p) = piece_entry dec p.
Proof. unfold piece_kv, piece_entry. now destruct (cut_first EQS p []) as [k [v|]]. Qed.

Lemma next_loop_val rest : forall cur kv,
  next_loop rest false cur kv =
  (mkKV (kv_key kv) (dec (rev cur ++ fst (cut_first AMP rest []))) (kv_noValue kv), tail_of (snd (cut_first AMP rest []))).
Proof.
  induction rest as [|c r IH]; intros cur kv.
  - cbn. now rewrite app_nil_r.
  - cbn [next_loop]. rewrite cut_first_cons. destruct (c =? EQS) eqn:E1.
    + apply N.eqb_eq in E1. subst c. change (EQS =? AMP) with false. cbv iota.
      rewrite IH. cbn [rev fst snd]. now rewrite <- app_assoc.
    + destruct (c =? AMP) eqn:E2.
      * cbn. now rewrite app_nil_r.
      * rewrite IH. cbn [rev fst snd]. now rewrite <- app_assoc.
Qed.

Lemma lacks_rev c s : lacks c (rev s) = lacks c s.
Proof.
  unfold lacks. induction s as [|x r IH]; [reflexivity|]. cbn [rev forallb].
  rewrite forallb_app, IH. cbn [forallb]. rewrite andb_true_r. apply andb_comm.
Qed.

Lemma next_loop_key rest : forall cur kv, kv_noValue kv = false -> lacks EQS cur = true ->
  next_loop rest true cur kv =
  (piece_kv (rev cur ++ fst (cut_first AMP rest [])), tail_of (snd (cut_first AMP rest []))).
Proof.
  induction rest as [|c r IH]; intros cur kv Hnv Hcur.
  - cbn [next_loop cut_first fst snd tail_of rev]. rewrite app_nil_r. unfold piece_kv.
    rewrite cut_first_lacks_nil by (now rewrite lacks_rev). reflexivity.
  - cbn [next_loop]. rewrite cut_first_cons. destruct (c =? EQS) eqn:E1.
    + apply N.eqb_eq in E1. subst c. change (EQS =? AMP) with false. cbv iota.
      rewrite next_loop_val. cbn [kv_key kv_noValue rev app fst snd]. unfold piece_kv.
      rewrite cut_first_lacks by (now rewrite lacks_rev). rewrite cut_first_cons. change (EQS =? EQS) with true. cbv iota.
      cbn [fst snd]. rewrite app_nil_r. now rewrite Hnv.
    + destruct (c =? AMP) eqn:E2.
      * cbn [fst snd tail_of]. rewrite app_nil_r. unfold piece_kv.
        rewrite cut_first_lacks_nil by (now rewrite lacks_rev). reflexivity.
      * rewrite IH; [|exact Hnv|cbn [lacks forallb]; rewrite E1; exact Hcur].
        cbn [rev fst snd]. now rewrite <- app_assoc.
Qed.

Lemma next_spec b kv : b <> [] ->
  next b kv = Some (piece_kv (fst (cut_first AMP b [])), tail_of (snd (cut_first AMP b []))).
Proof.
  intros H. unfold next. destruct b as [|x r]; [contradiction|].
  rewrite next_loop_key; reflexivity.
Qed.

Lemma split_on_cut c s : forall cur,
  split_on c s cur = fst (cut_first c s cur) :: match snd (cut_first c s cur) with None => [] | Some t => split_on c t [] end.
Proof.
  induction s as [|x r IH]; intros cur; cbn [split_on cut_first]; [reflexivity|].
  destruct (x =? c); [reflexivity|]. apply IH.
Qed.

Definition nonempty_kv (kv : argsKV) : bool :=
  negb (match kv_key kv, kv_value kv with [], [] => true | _, _ => false end).
Definition parse_kvs (b : bytes) : list argsKV := filter nonempty_kv (map piece_kv (split_on AMP b [])).

Lemma parse_kvs_nil : parse_kvs [] = [].
Proof. reflexivity. Qed.

Lemma parse_kvs_unfold b : b <> [] ->
  parse_kvs b = (if nonempty_kv (piece_kv (fst (cut_first AMP b []))) then [piece_kv (fst (cut_first AMP b []))] else [])
                ++ parse_kvs (tail_of (snd (cut_first AMP b []))).
Proof.
  intros _. unfold parse_kvs at 1. rewrite split_on_cut. cbn [map filter].
  destruct (snd (cut_first AMP b [])) as [t|]; cbn [tail_of].
  - destruct (nonempty_kv _); reflexivity.
  - rewrite parse_kvs_nil. destruct (nonempty_kv _); reflexivity.
Qed.

Lemma ParseBytes_loop_spec : forall fuel b done kv sp, (length b < fuel)%nat ->
  exists sp', ParseBytes_loop fuel b done kv sp = Some (mkArgs (done ++ parse_kvs b) sp').
Proof.
  induction fuel as [|fuel IH]; intros b done kv sp Hf; [lia|].
  cbn [ParseBytes_loop]. destruct b as [|x r].
  - cbn [next]. exists (kv :: sp). unfold releaseArg. rewrite parse_kvs_nil, app_nil_r. reflexivity.
  - assert (Hne : x :: r <> []) by discriminate.
    rewrite (next_spec (x :: r) kv Hne). rewrite (parse_kvs_unfold (x :: r) Hne).
    set (kv' := piece_kv (fst (cut_first AMP (x :: r) []))).
    set (b' := tail_of (snd (cut_first AMP (x :: r) []))).
    assert (Hb' : (length b' < fuel)%nat).
    { subst b'. destruct (snd (cut_first AMP (x :: r) [])) as [t|] eqn:Et; cbn [tail_of].
      - apply cut_first_tail_len in Et. lia.
      - cbn [length] in *. lia. }
    unfold nonempty_kv.
    destruct (kv_key kv') as [|k0 kr] eqn:Ek; [destruct (kv_value kv') as [|v0 vr] eqn:Ev|]; cbn [negb app].
    + apply IH. exact Hb'.
    + unfold allocArg. cbn [spare live]. destruct sp as [|s sp'].
      * destruct (IH b' (done ++ [kv']) zeroKV [] Hb') as [sp2 E]. exists sp2. rewrite E. now rewrite <- app_assoc.
      * destruct (IH b' (done ++ [kv']) s sp' Hb') as [sp2 E]. exists sp2. rewrite E. now rewrite <- app_assoc.
    + unfold allocArg. cbn [spare live]. destruct sp as [|s sp'].
      * destruct (IH b' (done ++ [kv']) zeroKV [] Hb') as [sp2 E]. exists sp2. rewrite E. now rewrite <- app_assoc.
      * destruct (IH b' (done ++ [kv']) s sp' Hb') as [sp2 E]. exists sp2. rewrite E. now rewrite <- app_assoc.
Qed.

Lemma abs_parse_kvs b : map toE (parse_kvs b) = spec_parse dec b.
Proof.
  unfold parse_kvs, spec_parse, mm_roundtrip.
  induction (split_on AMP b []) as [|p ps IH]; [reflexivity|].
  cbn [map filter]. rewrite <- toE_piece_kv.
  assert (E : nonempty_kv (piece_kv p) = negb (both_empty (toE (piece_kv p)))) by reflexivity.
  rewrite E. destruct (negb (both_empty (toE (piece_kv p)))); cbn [map]; now rewrite IH.
Qed.

(* ParseBytes never runs out of fuel, and yields exactly the reference parse of the raw bytes,
   whatever the Args held before (live or stale) *)
Theorem ParseBytes_spec a raw : exists a', ParseBytes a raw = Some a' /\ live a' = parse_kvs raw /\ abs a' = spec_parse dec raw.
Proof.
  unfold ParseBytes. destruct (allocArg (Reset a)) as [[h kv] sp] eqn:EA.
  assert (Hh : h = []). { pose proof (allocArg_live (Reset a)) as L. rewrite EA in L. exact L. }
  subst h. destruct (ParseBytes_loop_spec (S (length raw)) raw [] kv sp) as [sp' E]; [lia|].
  exists (mkArgs ([] ++ parse_kvs raw) sp'). split; [exact E|]. split; [reflexivity|].
  unfold abs. cbn [live app]. apply abs_parse_kvs.
Qed.

(* ------------------------------------------------------------------ *)
(* Part D: serialisation and the round trip                             *)
(* ------------------------------------------------------------------ *)

Definition ser (kv : argsKV) : bytes :=
  quote (kv_key kv) ++ (if kv_noValue kv then [] else EQS :: quote (kv_value kv)).

Fixpoint join (ps : list bytes) : bytes :=
  match ps with
  | [] => []
  | p :: r => match r with [] => p | _ => p ++ AMP :: join r end
  end.

Lemma AppendBytes_loop_spec h : forall dst, AppendBytes_loop dst h = dst ++ join (map ser h).
Proof.
  induction h as [|kv r IH]; intros dst; cbn [AppendBytes_loop map join].
  - now rewrite app_nil_r.
  - cbv zeta.
    match goal with |- AppendBytes_loop (match r with [] => ?D | _ => _ end) r = _ =>
      assert (HD : D = dst ++ ser kv) end.
    { unfold ser. rewrite AppendQuotedArg_spec. destruct (kv_noValue kv); cbn [negb].
      - now rewrite app_nil_r.
      - destruct (kv_value kv) eqn:Ev.
        + cbn [quote flat_map]. now rewrite <- app_assoc.
        + rewrite AppendQuotedArg_spec. rewrite <- !app_assoc. reflexivity. }
    rewrite HD, IH. destruct r as [|kv2 r']; cbn [map join].
    + now rewrite app_nil_r.
    + rewrite <- !app_assoc. reflexivity.
Qed.

Lemma QueryString_spec a : QueryString a = join (map ser (live a)).
Proof. unfold QueryString, AppendBytes. now rewrite AppendBytes_loop_spec. Qed.

Lemma split_on_lacks c p : lacks c p = true -> forall cur, split_on c p cur = [rev cur ++ p].
Proof.
  induction p as [|x r IH]; intros H cur; cbn [split_on].
  - now rewrite app_nil_r.
  - cbn [lacks forallb] in H. apply andb_true_iff in H as [H1 H2]. apply negb_true_iff in H1. rewrite H1.
    rewrite IH by exact H2. cbn [rev]. now rewrite <- app_assoc.
Qed.

Lemma split_on_lacks_app c p rest : lacks c p = true -> forall cur,
  split_on c (p ++ c :: rest) cur = (rev cur ++ p) :: split_on c rest [].
Proof.
  induction p as [|x r IH]; intros H cur; cbn [app split_on].
  - rewrite N.eqb_refl. now rewrite app_nil_r.
  - cbn [lacks forallb] in H. apply andb_true_iff in H as [H1 H2]. apply negb_true_iff in H1. rewrite H1.
    rewrite IH by exact H2. cbn [rev]. now rewrite <- app_assoc.
Qed.

Lemma split_join ps : ps <> [] -> Forall (fun p => lacks AMP p = true) ps -> split_on AMP (join ps) [] = ps.
Proof.
  induction ps as [|p r IH]; intros Hne HF; [contradiction|].
  inversion HF as [|? ? Hp Hr]; subst. cbn [join]. destruct r as [|p2 r'].
  - now rewrite split_on_lacks.
  - rewrite split_on_lacks_app by exact Hp. cbn [rev app]. f_equal. apply IH; [discriminate|exact Hr].
Qed.

(* the invariant of every entry the code can create *)
Definition kv_ok (kv : argsKV) : Prop :=
  wf_bytes (kv_key kv) /\ wf_bytes (kv_value kv) /\ (kv_noValue kv = true -> kv_value kv = []).
Definition inv (a : args) : Prop := Forall kv_ok (live a).

Lemma sep_free_lacks s : sep_free s = true -> lacks AMP s = true /\ lacks EQS s = true.
Proof.
  unfold sep_free, lacks. induction s as [|x r IH]; cbn [forallb]; [now split|].
  intros H. apply andb_true_iff in H as [H1 H2]. apply andb_true_iff in H1 as [H1 H3].
  destruct (IH H2) as [I1 I2]. now rewrite H1, H3, I1, I2.
Qed.

Lemma ser_lacks_amp kv : kv_ok kv -> lacks AMP (ser kv) = true.
Proof.
  intros (Hk & Hv & _). unfold ser, lacks. rewrite forallb_app.
  destruct (sep_free_lacks _ (quote_sep_free _ Hk)) as [A _]. unfold lacks in A. rewrite A.
  destruct (kv_noValue kv); [reflexivity|]. cbn [forallb andb].
  destruct (sep_free_lacks _ (quote_sep_free _ Hv)) as [B _]. exact B.
Qed.

Lemma piece_ser kv : kv_ok kv -> piece_kv (ser kv) = kv.
Proof.
  intros (Hk & Hv & Hn). unfold piece_kv, ser.
  destruct (sep_free_lacks _ (quote_sep_free _ Hk)) as [_ A].
  rewrite cut_first_lacks by exact A.
  destruct kv as [k v nv]. cbn [kv_key kv_value kv_noValue] in *. destruct nv.
  - cbn [cut_first fst snd]. rewrite app_nil_r, decode_quote by exact Hk. now rewrite Hn.
  - rewrite cut_first_cons. change (EQS =? EQS) with true. cbv iota. cbn [fst snd]. rewrite app_nil_r.
    now rewrite !decode_quote.
Qed.

Lemma map_piece_ser h : Forall kv_ok h -> map piece_kv (map ser h) = h.
Proof. induction 1 as [|kv r Hkv Hr IH]; cbn [map]; [reflexivity|]. now rewrite piece_ser, IH. Qed.

Lemma parse_query h : Forall kv_ok h -> parse_kvs (join (map ser h)) = filter nonempty_kv h.
Proof.
  intros H. destruct h as [|kv r]; [reflexivity|].
  unfold parse_kvs. rewrite split_join.
  - now rewrite map_piece_ser.
  - discriminate.
  - apply Forall_forall. intros p Hp. apply in_map_iff in Hp as (kv' & <- & Hin).
    rewrite Forall_forall in H. apply ser_lacks_amp, H, Hin.
Qed.

Lemma abs_filter_nonempty h : map toE (filter nonempty_kv h) = mm_roundtrip (map toE h).
Proof.
  unfold mm_roundtrip. induction h as [|kv r IH]; [reflexivity|]. cbn [filter map].
  assert (E : nonempty_kv kv = negb (both_empty (toE kv))) by reflexivity.
  rewrite E. destruct (negb (both_empty (toE kv))); cbn [map]; now rewrite IH.
Qed.

(* ParseBytes (QueryString a), into ANY Args b, gives a's entries minus the both-empty ones *)
Theorem query_roundtrip_inv a b : inv a ->
  exists b', ParseBytes b (QueryString a) = Some b' /\ abs b' = mm_roundtrip (abs a).
Proof.
  intros H. destruct (ParseBytes_spec b (QueryString a)) as (b' & E & L & _).
  exists b'. split; [exact E|]. unfold abs. rewrite L, QueryString_spec, parse_query by exact H.
  apply abs_filter_nonempty.
Qed.

(* ---- the invariant holds in every reachable state ---- *)
Definition op_wf (o : op) : Prop :=
  match o with
  | OAdd k v | OSet k v => wf_bytes k /\ wf_bytes v
  | OAddNoValue k | OSetNoValue k | ODel k => wf_bytes k
  | OReset => True
  | OParse raw => wf_bytes raw
  end.

Lemma wf_nil : wf_bytes []. Proof. constructor. Qed.

Lemma inv_appendArg a k v nv : inv a -> wf_bytes k -> wf_bytes v -> inv (appendArg a k v nv).
Proof.
  intros H Hk Hv. unfold inv. rewrite appendArg_live. apply Forall_app. split; [exact H|].
  constructor; [|constructor]. unfold kv_ok. cbn. destruct nv; repeat split; auto using wf_nil; discriminate.
Qed.

Lemma inv_setArg_loop h k v nv : Forall kv_ok h -> wf_bytes v ->
  match setArg_loop h k v nv with Some h' => Forall kv_ok h' | None => True end.
Proof.
  intros H Hv. induction H as [|kv r Hkv Hr IH]; cbn [setArg_loop]; [exact I|].
  destruct (beq k (kv_key kv)).
  - constructor; [|exact Hr]. destruct Hkv as (A & B & C). unfold kv_ok.
    destruct nv; cbn; repeat split; auto using wf_nil; discriminate.
  - destruct (setArg_loop r k v nv); [|exact I]. constructor; assumption.
Qed.

Lemma inv_setArg a k v nv : inv a -> wf_bytes k -> wf_bytes v -> inv (setArg a k v nv).
Proof.
  intros H Hk Hv. unfold setArg. pose proof (inv_setArg_loop (live a) k v nv H Hv) as L.
  destruct (setArg_loop (live a) k v nv); [exact L|]. now apply inv_appendArg.
Qed.

Lemma Forall_filter' {A} (P : A -> Prop) f l : Forall P l -> Forall P (filter f l).
Proof. induction 1 as [|x r Hx Hr IH]; cbn [filter]; [constructor|]. destruct (f x); [constructor|]; assumption. Qed.

Lemma inv_del a k : inv a -> inv (delAllArgsStable a k).
Proof.
  intros H. unfold inv, delAllArgsStable. pose proof (del_loop_spec (live a) [] [] k) as L.
  destruct (delAllArgsStable_loop [] (live a) [] k) as [kept parked]. cbn [fst live] in *. subst kept.
  cbn [app]. now apply Forall_filter'.
Qed.

Lemma wf_app_inv s t : wf_bytes (s ++ t) -> wf_bytes s /\ wf_bytes t.
Proof. unfold wf_bytes. apply Forall_app. Qed.

Lemma cut_first_wf c s : wf_bytes s ->
  wf_bytes (fst (cut_first c s [])) /\ wf_bytes (tail_of (snd (cut_first c s []))).
Proof.
  induction 1 as [|x r Hx Hr IH]; [split; constructor|].
  rewrite cut_first_cons. destruct (x =? c); cbn [fst snd tail_of].
  - split; [constructor|exact Hr].
  - destruct IH as [I1 I2]. split; [constructor; assumption|exact I2].
Qed.

Lemma piece_kv_ok p : wf_bytes p -> kv_ok (piece_kv p).
Proof.
  intros H. unfold piece_kv. destruct (cut_first_wf EQS p H) as [A B].
  destruct (cut_first EQS p []) as [k [v|]]; cbn [fst snd tail_of] in *; unfold kv_ok; cbn.
  - repeat split; auto using dec_wf. discriminate.
  - repeat split; auto using dec_wf, wf_nil.
Qed.

Lemma parse_kvs_ok : forall n b, (length b <= n)%nat -> wf_bytes b -> Forall kv_ok (parse_kvs b).
Proof.
  induction n as [|n IH]; intros b Hl Hwf.
  - destruct b; [constructor|cbn in Hl; lia].
  - destruct b as [|x r]; [constructor|].
    rewrite parse_kvs_unfold by discriminate.
    destruct (cut_first_wf AMP (x :: r) Hwf) as [A B]. apply Forall_app. split.
    + destruct (nonempty_kv _); constructor; [now apply piece_kv_ok|constructor].
    + apply IH; [|exact B].
      destruct (snd (cut_first AMP (x :: r) [])) as [t|] eqn:Et; cbn [tail_of].
      * apply cut_first_tail_len in Et. cbn [length] in *. lia.
      * cbn. lia.
Qed.

Lemma inv_step a o : inv a -> op_wf o -> inv (step a o).
Proof.
  intros H Ho. destruct o; cbn [step op_wf] in *.
  - destruct Ho. now apply inv_appendArg.
  - apply inv_appendArg; auto using wf_nil.
  - destruct Ho. now apply inv_setArg.
  - apply inv_setArg; auto using wf_nil.
  - now apply inv_del.
  - constructor.
  - destruct (ParseBytes_spec a raw) as (a' & E & L & _). rewrite E. unfold inv. rewrite L.
    now apply (parse_kvs_ok (length raw)).
Qed.

Lemma inv_run ops : forall a, inv a -> Forall op_wf ops -> inv (run_ops a ops).
Proof.
  unfold run_ops. induction ops as [|o r IH]; intros a H HF; cbn [fold_left]; [exact H|].
  inversion HF; subst. apply IH; [now apply inv_step|assumption].
Qed.

(* ---- both parts for ALL operation sequences, ParseBytes included ---- *)
Definition mm_step_op (m : mmap) (o : op) : mmap :=
  match o with
  | OAdd k v => mm_add m k v
  | OAddNoValue k => mm_add_novalue m k
  | OSet k v => mm_set m k v
  | OSetNoValue k => mm_set_novalue m k
  | ODel k => mm_del m k
  | OReset => []
  | OParse raw => spec_parse spec_decode raw
  end.
Definition mm_run_op (m : mmap) (ops : list op) : mmap := fold_left mm_step_op ops m.

Lemma map_ext_in' {A B} (f g : A -> B) l : (forall x, In x l -> f x = g x) -> map f l = map g l.
Proof. induction l as [|x r IH]; intros H; cbn [map]; [reflexivity|]. rewrite H by (now left). rewrite IH; [reflexivity|]. intros y Hy. apply H. now right. Qed.

Lemma split_on_wf c s : forall cur, wf_bytes s -> wf_bytes cur -> Forall wf_bytes (split_on c s cur).
Proof.
  induction s as [|x r IH]; intros cur Hs Hc; cbn [split_on].
  - constructor; [|constructor]. unfold wf_bytes in *. apply Forall_rev, Hc.
  - inversion Hs; subst. destruct (x =? c).
    + constructor; [unfold wf_bytes in *; apply Forall_rev, Hc|]. apply IH; [assumption|constructor].
    + apply IH; [assumption|constructor; assumption].
Qed.

Lemma piece_entry_dec p : wf_bytes p -> piece_entry dec p = piece_entry spec_decode p.
Proof.
  intros H. unfold piece_entry. destruct (cut_first_wf EQS p H) as [A B].
  destruct (cut_first EQS p []) as [k [v|]]; cbn [fst snd tail_of] in *; now rewrite !dec_spec_decode.
Qed.

Lemma spec_parse_dec raw : wf_bytes raw -> spec_parse dec raw = spec_parse spec_decode raw.
Proof.
  intros H. unfold spec_parse. f_equal. apply map_ext_in'. intros p Hp. apply piece_entry_dec.
  pose proof (split_on_wf AMP raw [] H wf_nil) as F. rewrite Forall_forall in F. now apply F.
Qed.

Lemma abs_step_op a o : op_wf o -> abs (step a o) = mm_step_op (abs a) o.
Proof.
  intros Ho. destruct o; cbn [step mm_step_op].
  - exact (abs_step a (MAdd k v)).
  - exact (abs_step a (MAddNoValue k)).
  - exact (abs_step a (MSet k v)).
  - exact (abs_step a (MSetNoValue k)).
  - exact (abs_step a (MDel k)).
  - reflexivity.
  - destruct (ParseBytes_spec a raw) as (a' & E & _ & L). rewrite E, L. now apply spec_parse_dec.
Qed.

Lemma abs_run_op ops : forall a, Forall op_wf ops -> abs (run_ops a ops) = mm_run_op (abs a) ops.
Proof.
  unfold run_ops, mm_run_op. induction ops as [|o r IH]; intros a HF; cbn [fold_left]; [reflexivity|].
  inversion HF; subst. rewrite IH by assumption. now rewrite abs_step_op.
Qed.

Theorem refines_multimap_ops : forall (ops : list op) (k : bytes), Forall op_wf ops ->
  let a' := run_ops emptyArgs ops in
  let m' := mm_run_op [] ops in
  Peek a' k = mm_peek m' k /\ PeekMulti a' k = mm_peek_multi m' k /\ Has a' k = mm_has m' k
  /\ Len a' = mm_len m' /\ All a' = mm_all m' /\ map kv_noValue (live a') = map e_nov m'.
Proof.
  intros ops k HF a' m'. subst a' m'. change ([] : mmap) with (abs emptyArgs).
  rewrite <- abs_run_op by exact HF. apply getters_abs.
Qed.

Theorem query_roundtrip_ops : forall (ops : list op) (b : args), Forall op_wf ops ->
  let a := run_ops emptyArgs ops in
  exists b', ParseBytes b (QueryString a) = Some b' /\ abs b' = mm_roundtrip (abs a).
Proof.
  intros ops b HF a. apply query_roundtrip_inv. apply inv_run; [constructor|exact HF].
Qed.

(* parsing a serialisation twice changes nothing more: the round trip is idempotent *)
Lemma roundtrip_idem m : mm_roundtrip (mm_roundtrip m) = mm_roundtrip m.
Proof.
  unfold mm_roundtrip. induction m as [|e r IH]; [reflexivity|]. cbn [filter].
  destruct (negb (both_empty e)) eqn:E; cbn [filter]; [rewrite E|]; now rewrite IH.
Qed.

(* ------------------------------------------------------------------ *)
(* CopyTo                                                               *)
(* ------------------------------------------------------------------ *)
Definition norm_entry (e : entry) : entry := (e_key e, (if e_nov e then [] else e_val e), e_nov e).

Lemma copy_loop_abs src : forall slots, map toE (fst (copy_loop slots src)) = map norm_entry (map toE src).
Proof.
  induction src as [|s sr IH]; intros slots; [reflexivity|]. cbn [copy_loop].
  destruct slots as [|d rest].
  - specialize (IH []). destruct (copy_loop [] sr) as [c sp]. cbn [fst map] in *. rewrite IH.
    f_equal. unfold copyKV, toE, norm_entry. cbn. now destruct (kv_noValue s).
  - specialize (IH rest). destruct (copy_loop rest sr) as [c sp]. cbn [fst map] in *. rewrite IH.
    f_equal. unfold copyKV, toE, norm_entry. cbn. now destruct (kv_noValue s).
Qed.

(* whatever dst held (live or stale), after a.CopyTo(dst) it holds a's entries (values of noValue entries cleared) *)
Theorem abs_CopyTo a dst : abs (CopyTo a dst) = map norm_entry (abs a).
Proof.
  unfold CopyTo, copyArgs, abs.
  set (slots := if Nat.ltb _ _ then _ else _).
  pose proof (copy_loop_abs (live a) slots) as H. destruct (copy_loop slots (live a)) as [c sp]. exact H.
Qed.

Lemma norm_inv h : Forall kv_ok h -> map norm_entry (map toE h) = map toE h.
Proof.
  induction 1 as [|kv r (Hk & Hv & Hn) Hr IH]; [reflexivity|]. cbn [map]. rewrite IH. f_equal.
  unfold norm_entry, toE. cbn. destruct (kv_noValue kv) eqn:E; [|reflexivity]. now rewrite (Hn eq_refl).
Qed.

Theorem CopyTo_exact a dst : inv a -> abs (CopyTo a dst) = abs a.
Proof. intros H. rewrite abs_CopyTo. now apply norm_inv. Qed.

Lemma inv_CopyTo a dst : inv a -> inv (CopyTo a dst).
Proof.
  intros H. unfold inv, CopyTo, copyArgs. set (slots := if Nat.ltb _ _ then _ else _). clearbody slots.
  revert slots. induction H as [|s sr (Hk & Hv & Hn) Hr IH]; intros slots; cbn [copy_loop live]; [constructor|].
  destruct slots as [|d rest].
  - specialize (IH []). destruct (copy_loop [] sr) as [c sp]. cbn [live] in *. constructor; [|exact IH].
    unfold kv_ok, copyKV. cbn. destruct (kv_noValue s); repeat split; auto using wf_nil.
  - specialize (IH rest). destruct (copy_loop rest sr) as [c sp]. cbn [live] in *. constructor; [|exact IH].
    unfold kv_ok, copyKV. cbn. destruct (kv_noValue s); repeat split; auto using wf_nil.
Qed.
