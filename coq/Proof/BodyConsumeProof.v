(* Proofs for C02 (Model/BodyConsume.v against Spec/BodyConsumeSpec.v). *)
From Coq Require Import Lia ZifyBool.
From FH Require Import Model.Base Gen.GenC02 Model.BodyConsume Spec.BodyConsumeSpec.
Open Scope Z_scope.

(* ------------------------------------------------------------------------------------ *)
(* the chunked stream reader on a complete input                                        *)
(* ------------------------------------------------------------------------------------ *)

(* wire bytes from the reader position to the end of the last data chunk *)
Definition rem_chs (chs : list chunk) (opened : bool) : Z :=
  match chs with
  | [] => 0
  | c :: cs' => (if opened then 0 else ch_line c) + ch_size c + (if ch_ok c then 2 else 1) + chunks_len cs'
  end.

Lemma rem_chs_closed' cs : rem_chs cs false = chunks_len cs.
Proof. destruct cs as [|c cs]; cbn; unfold chunk_len; lia. Qed.

Lemma cread_none : forall zl tl chs opened pos t want x st',
  cread None zl tl chs opened pos t want = (x, st') ->
  match x with
  | RcOk => s_fixed st' = false /\ s_eof st' = false /\ s_err st' = None
            /\ s_pos st' + rem_chs (s_chs st') (s_open st') = pos + rem_chs chs opened
            /\ forallb ch_ok (s_chs st') = forallb ch_ok chs
  | RcEof => s_pos st' = pos + rem_chs chs opened + zl + tl /\ forallb ch_ok chs = true
             /\ s_eof st' = true /\ s_fixed st' = false
  | RcErr => forallb ch_ok chs = false /\ s_fixed st' = false /\ s_eof st' = false /\ s_err st' = Some RcErr
  end.
Proof.
  intros zl tl chs; induction chs as [|c chs IH]; intros opened pos t want x st' H.
  - cbn in H. injection H as <- <-. cbn. repeat split; lia.
  - cbn [cread] in H. cbn [at_end] in H. rewrite andb_false_r in H.
    assert (Hline : (if opened then Some pos else adv None pos (ch_line c)) = Some (if opened then pos else pos + ch_line c))
      by (destruct opened; reflexivity).
    rewrite Hline in H; clear Hline.
    set (p1 := if opened then pos else pos + ch_line c) in *.
    set (n := match want with Some k => Z.min k (ch_size c) | None => ch_size c end) in *.
    cbn [adv] in H.
    destruct (n <? ch_size c) eqn:Hn.
    + injection H as <- <-. cbn. repeat split; try reflexivity.
      subst p1; destruct opened, (ch_ok c); lia.
    + destruct (ch_ok c) eqn:Hok.
      * assert (Step : forall want' x st', cread None zl tl chs false (p1 + n + 2) (t + n) want' = (x, st') ->
                  match x with
                  | RcOk => s_fixed st' = false /\ s_eof st' = false /\ s_err st' = None
                            /\ s_pos st' + rem_chs (s_chs st') (s_open st') = pos + rem_chs (c :: chs) opened
                            /\ forallb ch_ok (s_chs st') = forallb ch_ok (c :: chs)
                  | RcEof => s_pos st' = pos + rem_chs (c :: chs) opened + zl + tl /\ forallb ch_ok (c :: chs) = true
                             /\ s_eof st' = true /\ s_fixed st' = false
                  | RcErr => forallb ch_ok (c :: chs) = false /\ s_fixed st' = false /\ s_eof st' = false /\ s_err st' = Some RcErr
                  end).
        { intros w x0 st0 H0. apply IH in H0.
          assert (Hn' : n = ch_size c) by (subst n; destruct want; lia).
          assert (R : p1 + n + 2 + rem_chs chs false = pos + rem_chs (c :: chs) opened).
          { cbn [rem_chs]. rewrite Hok, rem_chs_closed', Hn'. subst p1. destruct opened; lia. }
          destruct x0.
          - destruct H0 as (F & E & Er & P & B). repeat split; auto; [lia|]. cbn [forallb]. rewrite Hok. exact B.
          - destruct H0 as (P & B & E & F). repeat split; auto; [lia|]. cbn [forallb]. rewrite Hok, B. reflexivity.
          - destruct H0 as (B & F & E & Er). repeat split; auto. cbn [forallb]. rewrite B. apply andb_false_r. }
        destruct want as [k|].
        -- destruct (k - n) as [|q|q] eqn:Hk.
           ++ injection H as <- <-. cbn. rewrite Hok. repeat split; try reflexivity.
              assert (Hn' : n = ch_size c) by (subst n; lia).
              rewrite rem_chs_closed'. subst p1. destruct opened; lia.
           ++ exact (Step _ _ _ H).
           ++ exact (Step _ _ _ H).
        -- exact (Step _ _ _ H).
      * injection H as <- <-. cbn [forallb]. rewrite Hok. cbn. repeat split; reflexivity.
Qed.

Lemma rem_chs_closed cs : rem_chs cs false = chunks_len cs.
Proof. apply rem_chs_closed'. Qed.

Lemma chunks_len_framed cs : forallb ch_ok cs = true ->
  chunks_len cs = fold_right (fun c a => chunk_framed c + a) 0 cs.
Proof.
  induction cs as [|c cs IH]; cbn; [reflexivity|]. intros H. apply andb_true_iff in H as [H1 H2].
  rewrite IH by assumption. unfold chunk_len, chunk_framed. rewrite H1. lia.
Qed.

(* invariant of a chunked requestStream over the complete body cs: at its end, running, or broken *)
Definition cinv (zl tl : Z) (cs : list chunk) (st : sst) : Prop :=
  s_fixed st = false /\
  ((s_eof st = true /\ s_pos st = chunks_len cs + zl + tl /\ forallb ch_ok cs = true) \/
   (s_eof st = false /\ s_err st = None /\ s_pos st + rem_chs (s_chs st) (s_open st) = chunks_len cs
    /\ forallb ch_ok (s_chs st) = forallb ch_ok cs) \/
   (s_eof st = false /\ s_err st = Some RcErr)).

Lemma sread_cinv zl tl cs st want x st' :
  cinv zl tl cs st -> sread None zl tl st want = (x, st') ->
  cinv zl tl cs st' /\ (x = RcEof -> s_eof st' = true).
Proof.
  intros (F & I) H. unfold sread in H.
  assert (Hgo : (if s_fixed st then fread None st want
                 else if s_eof st then (RcEof, st)
                 else match s_err st with
                      | Some e => (e, st)
                      | None => cread None zl tl (s_chs st) (s_open st) (s_pos st) (s_t st) want
                      end) = (x, st')
                \/ (x = RcOk /\ st' = st)).
  { destruct want as [[|q|q]|]; auto. injection H as <- <-. auto. }
  clear H. destruct Hgo as [H|[-> ->]].
  2:{ split; [split; assumption | discriminate]. }
  rewrite F in H. destruct I as [(E & P & B)|[(E & Er & P & B)|(E & Er)]]; rewrite E in H.
  - injection H as <- <-. split; [split; auto | auto].
  - rewrite Er in H. apply cread_none in H. destruct x.
    + destruct H as (F' & E' & Er' & P' & B'). split; [|discriminate].
      split; [assumption|]. right. left. repeat split; [assumption|assumption|lia|congruence].
    + destruct H as (P' & B' & E' & F'). split; [|auto].
      split; [assumption|]. left. repeat split; [assumption|lia|congruence].
    + destruct H as (B' & F' & E' & Er'). split; [|discriminate].
      split; [assumption|]. right. right. split; assumption.
  - rewrite Er in H. injection H as <- <-. split; [|discriminate].
    split; [assumption|]. right. right. split; assumption.
Qed.

(* invariant of a fixed-length requestStream *)
Definition finv (n : Z) (st : sst) : Prop :=
  s_fixed st = true /\ s_cl st = n /\ s_pos st = Z.max (s_pre st) (s_t st)
  /\ s_pre st <= n /\ 0 <= s_t st <= n.

Lemma sread_finv zl tl n st want x st' :
  finv n st -> sread None zl tl st want = (x, st') ->
  finv n st' /\ x <> RcErr /\ (x = RcEof -> s_pos st' = n).
Proof.
  intros (F & C & P & Hp & Ht) H. unfold sread in H.
  assert (Hgo : fread None st want = (x, st') \/ (x = RcOk /\ st' = st)).
  { rewrite F in H. destruct want as [[|q|q]|]; auto. injection H as <- <-. auto. }
  clear H. destruct Hgo as [H|[-> ->]].
  2:{ split; [repeat split; auto; lia|]. split; discriminate. }
  unfold fread in H. rewrite C in H.
  destruct (s_t st =? n) eqn:Et.
  - injection H as <- <-. split; [repeat split; auto; lia|]. split; [discriminate|]. intros _. lia.
  - set (target := match want with Some k => Z.min (s_t st + k) n | None => n end) in *.
    set (t' := Z.max (s_t st) target) in *.
    assert (Htg : target <= n) by (subst target; destruct want; lia).
    assert (Ht' : s_t st <= t' <= n) by (subst t'; lia).
    replace (t' <? target) with false in H by (subst t'; lia).
    assert (Inv : finv n (mkSst true n (s_pre st) [] false (Z.max (s_pos st) t') t' false None)).
    { repeat split; cbn; lia. }
    destruct want as [k|].
    + destruct (target =? s_t st + k) eqn:Ek; injection H as <- <-.
      * split; [exact Inv|]. split; discriminate.
      * split; [exact Inv|]. split; [discriminate|]. intros _. cbn. subst t' target. lia.
    + injection H as <- <-. split; [exact Inv|]. split; [discriminate|]. intros _. cbn. subst t' target. lia.
Qed.

(* ------------------------------------------------------------------------------------ *)
(* the handler phase and the drain                                                      *)
(* ------------------------------------------------------------------------------------ *)

Definition sinv (r : req) (st : sst) : Prop :=
  match r_fr r with
  | FNone => False
  | FFixed n => finv n st
  | FChunked cs zl tl => cinv zl tl cs st
  end.

Lemma sread_sinv r st want x st' :
  r_lim r = None -> sinv r st ->
  sread (r_lim r) (zl_of (r_fr r)) (tl_of (r_fr r)) st want = (x, st') ->
  sinv r st' /\ (x = RcEof -> framed_len (r_fr r) = Some (s_pos st')).
Proof.
  intros L I H. rewrite L in H. unfold sinv in *. destruct (r_fr r) as [|n|cs zl tl]; [contradiction| |].
  - cbn in H. apply (sread_finv _ _ n) in H; [|assumption]. destruct H as (I' & _ & E).
    split; [assumption|]. intros ->. cbn. rewrite E; reflexivity.
  - cbn in H. pose proof (sread_cinv _ _ _ _ _ _ _ I H) as (I' & E).
    split; [assumption|]. intros ->. specialize (E eq_refl).
    destruct I' as (_ & [(_ & P & B)|[(E' & _)|(E' & _)]]); [|congruence|congruence].
    cbn. rewrite B, P. rewrite chunks_len_framed by assumption. reflexivity.
Qed.

(* a drained stream is at the end of a framed body *)
Lemma drained_end r st : sinv r st -> drained st = true -> framed_len (r_fr r) = Some (s_pos st).
Proof.
  unfold sinv, drained. destruct (r_fr r) as [|n|cs zl tl]; [contradiction| |].
  - intros (F & C & P & Hp & Ht). rewrite F, C. intros E. cbn. f_equal. lia.
  - intros (F & I). rewrite F. intros E.
    destruct I as [(_ & P & B)|[(E' & _)|(E' & _)]]; [|congruence|congruence].
    cbn. rewrite B, P. rewrite chunks_len_framed by assumption. reflexivity.
Qed.

Lemma run_reads_sinv r st :
  r_lim r = None -> sinv r st -> sinv r (snd (run_reads r st)).
Proof.
  intros L I. unfold run_reads in *. destruct (r_rd r) as [|k|].
  - exact I.
  - destruct (sread _ _ _ st (Some k)) as [x st'] eqn:H. cbn [fst snd] in *.
    exact (proj1 (sread_sinv _ _ _ _ _ L I H)).
  - destruct (sread _ _ _ st None) as [x st'] eqn:H. cbn [fst snd] in *.
    exact (proj1 (sread_sinv _ _ _ _ _ L I H)).
Qed.

Lemma drain_end c r st st' :
  r_lim r = None -> sinv r st -> drain c r st = (false, st') -> framed_len (r_fr r) = Some (s_pos st').
Proof.
  intros L I H. unfold drain in H.
  destruct (sread _ _ _ st (Some (c_max c + 1))) as [x st2] eqn:Hs.
  destruct x; try discriminate. injection H as <-.
  exact (proj2 (sread_sinv _ _ _ _ _ L I Hs) eq_refl).
Qed.

(* whatever the handler does with the stream (reads, detaches it, times out, hijacks, asks for close):
   a kept-alive connection continues at the end of the framed body *)
Lemma after_handler_stream c r pos st evs off :
  r_lim r = None -> sinv r st ->
  after_handler c r pos (Some st) = (evs, Some off) -> framed_len (r_fr r) = Some off.
Proof.
  intros L I H. unfold after_handler in H.
  pose proof (run_reads_sinv _ _ L I) as I2.
  destruct (run_reads r st) as [[n x] st2] eqn:Hr. cbn [snd] in I2.
  destruct (r_fin r); cbn [andb negb orb] in H.
  - (* FinNone *)
    destruct (drain c r st2) as [cl st3] eqn:Hd.
    destruct ((c_nokeepalive c || r_close r || cl) || false) eqn:Hc; [discriminate|].
    injection H as _ <-. destruct cl; [rewrite orb_true_r in Hc; discriminate|].
    exact (drain_end _ _ _ _ L I2 Hd).
  - (* FinDetach *)
    destruct (negb (drained st2)) eqn:Hu; cbn in H; [discriminate|].
    destruct ((c_nokeepalive c || r_close r) || false); [discriminate|].
    injection H as _ <-. apply drained_end; [assumption|]. destruct (drained st2); [reflexivity|discriminate].
  - (* FinTimeout *) discriminate.
  - (* FinHijack *)
    destruct ((c_nokeepalive c || r_close r) || false); discriminate.
  - (* FinConnClose *)
    destruct (drain c r st2) as [cl st3] eqn:Hd. rewrite orb_true_r in H. discriminate.
Qed.

Lemma after_handler_plain c r pos evs off :
  after_handler c r pos None = (evs, Some off) -> off = pos.
Proof.
  unfold after_handler. intros H.
  destruct (r_fin r); cbn in H;
    destruct (c_nokeepalive c || r_close r); cbn in H; try discriminate; injection H as _ <-; reflexivity.
Qed.

(* ------------------------------------------------------------------------------------ *)
(* body reading before the handler                                                      *)
(* ------------------------------------------------------------------------------------ *)

Lemma nsChunked_ok max zl cs : forall pos dlen p,
  nsChunked None max cs zl pos dlen = NOk p -> p = pos + chunks_len cs + zl /\ forallb ch_ok cs = true.
Proof.
  induction cs as [|c cs IH]; intros pos dlen p H; cbn in H.
  - injection H as <-. cbn. split; [lia|reflexivity].
  - destruct ((max >? 0) && (dlen + ch_size c >? max)); [discriminate|].
    destruct (ch_ok c) eqn:Hok; [|discriminate].
    apply IH in H as [-> B]. cbn. unfold chunk_len. rewrite Hok, B. split; [lia|reflexivity].
Qed.

(* requests the theorems talk about: sizes are sizes *)
Definition wf_req (r : req) : Prop :=
  match r_fr r with
  | FNone => True
  | FFixed n => 0 <= n
  | FChunked cs _ _ => Forall (fun c => 0 <= ch_size c) cs
  end.
Definition wf_cfg (c : cfg) : Prop := 0 < c_max c.

Definition ready_ok (r : req) (pos : Z) (st : option sst) : Prop :=
  match st with
  | Some s => sinv r s
  | None => framed_len (r_fr r) = Some pos
  end.

Lemma read_body_ready c r b pos st :
  wf_cfg c -> wf_req r -> r_lim r = None -> read_body c r b = BReady pos st -> ready_ok r pos st.
Proof.
  intros Wc Wr L H. unfold read_body in H. unfold wf_req in Wr. unfold wf_cfg in Wc.
  destruct (c_stream c).
  - unfold continueReadBodyStream in H. rewrite L in H. unfold ready_ok, sinv.
    destruct (r_fr r) as [|n|cs zl tl].
    + injection H as <- <-. reflexivity.
    + destruct (if (0 <? n) && c_preparse c then r_mp r else None) as [ok|].
      * unfold readMultipart in H. destruct ok; [|discriminate]. injection H as <- <-. cbn. f_equal; try lia.
      * cbn in H. injection H as <- <-. unfold finv, prefetchLimit. cbn. repeat split; lia.
    + injection H as <- <-. unfold cinv. cbn. split; [reflexivity|]. right. left.
      rewrite rem_chs_closed. repeat split; lia.
  - unfold continueReadBody in H. rewrite L in H. unfold ready_ok.
    destruct (r_fr r) as [|n|cs zl tl].
    + injection H as <- <-. reflexivity.
    + destruct ((0 <? n) && (c_max c >? 0) && (n >? c_max c)); [destruct b; discriminate|].
      destruct (if (0 <? n) && c_preparse c then r_mp r else None) as [ok|].
      * unfold readMultipart in H. destruct ok; [|destruct b; discriminate]. injection H as <- <-. cbn. f_equal; try lia.
      * destruct ((c_max c >? 0) && (n >? c_max c)); [destruct b; discriminate|].
        cbn in H. injection H as <- <-. cbn. f_equal; try lia.
    + destruct (nsChunked None (c_max c) cs zl 0 0) as [p1| |] eqn:Hn; try (destruct b; discriminate).
      cbn in H. injection H as <- <-. apply nsChunked_ok in Hn as [-> B].
      cbn. rewrite B. rewrite chunks_len_framed by assumption. f_equal; try lia.
Qed.

Lemma before_handler_ready c r evs pos st :
  wf_cfg c -> wf_req r -> r_lim r = None -> before_handler c r = PRun evs pos st -> ready_ok r pos st.
Proof.
  intros Wc Wr L H. unfold before_handler in H.
  destruct (c_getonly c && negb (r_getlike r)); [discriminate|].
  destruct (r_expect r).
  - destruct (expect_verdict c r); [discriminate|].
    destruct (read_body c r true) as [p s| |] eqn:Hb; try discriminate.
    injection H as _ <- <-. exact (read_body_ready _ _ _ _ _ Wc Wr L Hb).
  - destruct (read_body c r false) as [p s| |] eqn:Hb; try discriminate.
    destruct (expect_verdict c r); [discriminate|].
    injection H as _ <- <-. exact (read_body_ready _ _ _ _ _ Wc Wr L Hb).
Qed.

Theorem next_starts_at_body_end c r evs off :
  wf_cfg c -> wf_req r -> r_lim r = None ->
  serve_one c r = (evs, Some off) -> framed_len (r_fr r) = Some off.
Proof.
  intros Wc Wr L H. unfold serve_one in H.
  destruct (before_handler c r) as [e|e pos st] eqn:Hb; [discriminate|].
  pose proof (before_handler_ready _ _ _ _ _ Wc Wr L Hb) as R.
  destruct (after_handler c r pos st) as [e2 nxt] eqn:Ha. injection H as _ ->.
  destruct st as [s|].
  - exact (after_handler_stream _ _ _ _ _ _ L R Ha).
  - apply after_handler_plain in Ha as ->. exact R.
Qed.

(* ------------------------------------------------------------------------------------ *)
(* rejected expectations                                                                *)
(* ------------------------------------------------------------------------------------ *)

Lemma expect_verdict_spec c r :
  expectation_rejected c r = match expect_verdict c r with Some _ => true | None => false end.
Proof.
  unfold expectation_rejected, expect_verdict, statusContinue, StatusContinue.
  destruct (r_expect r); [|reflexivity]. cbn [andb].
  destruct (c_expectH c).
  - destruct (r_expect_status r =? 100); reflexivity.
  - destruct (c_continueH c); [|reflexivity]. destruct (r_continue_ok r); reflexivity.
Qed.

Definition quiet (e : event) : Prop :=
  match e with EDispatch _ _ _ | E100 | EParse _ => False | _ => True end.

Theorem rejected_expectation_closes c r :
  expectation_rejected c r = true ->
  exists status, serve_one c r = ([EResp status true], None).
Proof.
  intros H. rewrite expect_verdict_spec in H. unfold serve_one, before_handler.
  destruct (c_getonly c && negb (r_getlike r)); [eexists; reflexivity|].
  assert (E : r_expect r = true).
  { unfold expect_verdict in H. destruct (r_expect r); [reflexivity|discriminate]. }
  rewrite E. destruct (expect_verdict c r) as [s|]; [|discriminate]. eexists; reflexivity.
Qed.

(* ------------------------------------------------------------------------------------ *)
(* whole connections                                                                    *)
(* ------------------------------------------------------------------------------------ *)

Lemma framed_wire f n : framed_len f = Some n -> wire_len f = n.
Proof.
  destruct f as [|m|cs zl tl]; cbn; intros H.
  - injection H as <-; reflexivity.
  - injection H as <-; reflexivity.
  - destruct (forallb ch_ok cs) eqn:B; [|discriminate]. injection H as <-.
    rewrite chunks_len_framed by assumption. reflexivity.
Qed.

Theorem body_bytes_never_parsed c : wf_cfg c -> forall rs base,
  Forall wf_req rs -> Forall (fun r => r_lim r = None) rs ->
  forall e, In e (serve c rs base) ->
    match e with
    | EParse off => In off (boundaries base rs)
    | EDesync _ _ _ => False
    | _ => True
    end.
Proof.
  intros Wc rs; induction rs as [|r rest IH]; intros base W L e He.
  - cbn in He. destruct He as [<-|[]]. exact I.
  - inversion W as [|? ? Wr Wrest]; inversion L as [|? ? Lr Lrest]; subst.
    cbn [serve] in He. destruct He as [<-|He]; [cbn; auto|].
    destruct (serve_one c r) as [evs nxt] eqn:H1. apply in_app_or in He as [He|He].
    + (* events of the iteration itself *)
      unfold serve_one in H1. destruct (before_handler c r) as [ev|ev pos st] eqn:Hb.
      * injection H1 as <- <-. unfold before_handler in Hb. revert He.
        repeat match type of Hb with
        | (if ?b then _ else _) = _ => destruct b
        | match ?x with _ => _ end = _ => destruct x
        end; try discriminate; injection Hb as <-; cbn; intros He;
        try (destruct (r_expect r); cbn in He);
        repeat (destruct He as [<-|He]; [exact I|]); try contradiction.
      * destruct (after_handler c r pos st) as [e2 n2] eqn:Ha. injection H1 as <- <-.
        assert (Hpre : ev = [E100] \/ ev = []).
        { unfold before_handler in Hb.
          repeat match type of Hb with
          | (if ?b then _ else _) = _ => destruct b
          | match ?x with _ => _ end = _ => destruct x
          end; try discriminate; injection Hb as <- _ _; try (destruct (r_expect r)); auto. }
        apply in_app_or in He as [He|He].
        -- destruct Hpre as [-> | ->]; cbn in He; [destruct He as [<-|[]]; exact I|contradiction].
        -- unfold after_handler in Ha.
           repeat match type of Ha with
           | (let '(_, _) := ?x in _) = _ => destruct x
           | (if ?b then _ else _) = _ => destruct b
           end; injection Ha as <- _; cbn in He;
           repeat (destruct He as [<-|He]; [exact I|]); try contradiction.
    + destruct nxt as [off|].
      * pose proof (next_starts_at_body_end _ _ _ _ Wc Wr Lr H1) as F.
        rewrite Lr in He. cbn [at_end] in He. unfold truncated in He. rewrite Lr in He. cbn [negb andb] in He.
        rewrite (framed_wire _ _ F), Z.eqb_refl in He.
        specialize (IH _ Wrest Lrest _ He).
        destruct e; auto. cbn [boundaries]. right.
        unfold req_len. rewrite F. replace (base + (r_head r + off)) with (base + r_head r + off) by lia. exact IH.
      * destruct He as [<-|[]]. exact I.
Qed.

(* ------------------------------------------------------------------------------------ *)
(* boundaries are never inside a message                                                *)
(* ------------------------------------------------------------------------------------ *)

Definition wf_lens (r : req) : Prop :=
  0 <= r_head r /\
  match r_fr r with
  | FNone => True
  | FFixed n => 0 <= n
  | FChunked cs zl tl => Forall (fun c => 0 <= ch_line c /\ 0 <= ch_size c) cs /\ 0 <= zl /\ 0 <= tl
  end.

Lemma req_len_nonneg r : wf_lens r -> 0 <= req_len r.
Proof.
  unfold wf_lens, req_len. intros [H1 H2]. destruct (r_fr r) as [|n|cs zl tl]; cbn; try lia.
  destruct (forallb ch_ok cs); [|lia]. destruct H2 as (F & Hz & Ht).
  assert (0 <= fold_right (fun c a => chunk_framed c + a) 0 cs).
  { induction F as [|c cs [Hl Hs] F IH]; cbn [fold_right]; [lia|]. unfold chunk_framed in *. lia. }
  lia.
Qed.

Lemma boundaries_ge rs : Forall wf_lens rs -> forall base off, In off (boundaries base rs) -> base <= off.
Proof.
  induction 1 as [|r rs Hr F IH]; intros base off Hin; cbn in Hin; [contradiction|].
  destruct Hin as [<-|Hin]; [lia|]. apply IH in Hin. pose proof (req_len_nonneg _ Hr). lia.
Qed.

Lemma inside_gt rs : Forall wf_lens rs -> forall base off, inside_some_message base rs off = true -> base < off.
Proof.
  induction 1 as [|r rs Hr F IH]; intros base off Hin; cbn in Hin; [discriminate|].
  apply orb_true_iff in Hin as [Hin|Hin]; [lia|]. apply IH in Hin. pose proof (req_len_nonneg _ Hr). lia.
Qed.

Lemma boundary_not_inside rs : Forall wf_lens rs -> forall base off,
  In off (boundaries base rs) -> inside_some_message base rs off = false.
Proof.
  induction 1 as [|r rs Hr F IH]; intros base off Hin; cbn in *; [contradiction|].
  pose proof (req_len_nonneg _ Hr) as Hl.
  destruct Hin as [<-|Hin].
  - apply orb_false_iff. split; [lia|].
    destruct (inside_some_message (base + req_len r) rs base) eqn:E; [|reflexivity].
    apply (inside_gt _ F) in E. lia.
  - apply orb_false_iff. split; [|exact (IH _ _ Hin)].
    apply (boundaries_ge _ F) in Hin. lia.
Qed.

(* ------------------------------------------------------------------------------------ *)
(* the model's traces satisfy the property oracle                                       *)
(* ------------------------------------------------------------------------------------ *)

Lemma nsChunked_err max zl cs : Forall (fun c => 0 <= ch_size c) cs -> forall pos dlen,
  match nsChunked None max cs zl pos dlen with
  | NOk _ => True
  | NEof => False
  | NErr => forallb ch_ok cs = false \/ max < dlen + fold_right (fun c a => ch_size c + a) 0 cs
  end.
Proof.
  induction 1 as [|c cs Hc F IH]; intros pos dlen; cbn; [exact I|].
  destruct ((max >? 0) && (dlen + ch_size c >? max)) eqn:Hm.
  - right. assert (0 <= fold_right (fun c a => ch_size c + a) 0 cs).
    { clear -F. induction F; cbn; lia. }
    lia.
  - destruct (ch_ok c) eqn:Hok; [|left; reflexivity].
    specialize (IH (pos + ch_line c + (ch_size c + 2)) (dlen + ch_size c)).
    destruct (nsChunked None max cs zl (pos + ch_line c + (ch_size c + 2)) (dlen + ch_size c)); auto.
    destruct IH as [B|B]; [left; cbn; exact B|right; lia].
Qed.

Definition refusable (c : cfg) (r : req) : bool :=
  negb (well_framed r) || (c_max c <? data_len (r_fr r)) || match r_mp r with Some false => true | _ => false end.

Lemma read_body_fail c r b :
  wf_cfg c -> wf_req r -> r_lim r = None ->
  match read_body c r b with BReady _ _ => True | _ => refusable c r = true end.
Proof.
  intros Wc Wr L. unfold read_body, refusable, well_framed. rewrite L. unfold wf_cfg in Wc. unfold wf_req in Wr.
  destruct (c_stream c).
  - unfold continueReadBodyStream. rewrite L. destruct (r_fr r) as [|n|cs zl tl]; try exact I.
    destruct ((0 <? n) && c_preparse c).
    + destruct (r_mp r) as [[|]|]; cbn; try exact I. destruct b; cbn; apply orb_true_r.
    + cbn. exact I.
  - unfold continueReadBody. rewrite L. destruct (r_fr r) as [|n|cs zl tl]; try exact I.
    + destruct ((0 <? n) && (c_max c >? 0) && (n >? c_max c)) eqn:E1.
      { assert (c_max c <? n = true) by lia. destruct b; cbn; rewrite H; reflexivity. }
      destruct ((0 <? n) && c_preparse c).
      * destruct (r_mp r) as [[|]|]; cbn; try exact I.
        -- destruct b; cbn; apply orb_true_r.
        -- destruct ((c_max c >? 0) && (n >? c_max c)) eqn:E2; [|exact I].
           assert (c_max c <? n = true) by lia. destruct b; cbn; rewrite H; reflexivity.
      * destruct ((c_max c >? 0) && (n >? c_max c)) eqn:E2; [|exact I].
        assert (c_max c <? n = true) by lia. destruct b; cbn; rewrite H; reflexivity.
    + pose proof (nsChunked_err (c_max c) zl cs Wr 0 0) as E.
      destruct (nsChunked None (c_max c) cs zl 0 0); cbn; [exact I|contradiction|].
      assert (G : negb (if forallb ch_ok cs then true else false) || (c_max c <? fold_right (fun c0 a => ch_size c0 + a) 0 cs) = true).
      { destruct E as [E|E]; [rewrite E; reflexivity|]. apply orb_true_iff. right. lia. }
      destruct b; cbn; destruct (forallb ch_ok cs); cbn in *; rewrite ?G; try reflexivity.
Qed.

Lemma may_refuse_split c r :
  may_refuse c r = (c_getonly c && negb (r_getlike r)) || expectation_rejected c r || refusable c r.
Proof.
  unfold may_refuse, refusable.
  destruct (c_getonly c && negb (r_getlike r)), (expectation_rejected c r), (negb (well_framed r)),
    (c_max c <? data_len (r_fr r)); reflexivity.
Qed.

Inductive shape (c : cfg) (r : req) : list event -> option Z -> Prop :=
| ShRefuse s : may_refuse c r = true -> shape c r [EResp s true] None
| ShSilent : shape c r [] None
| Sh100 : r_expect r = true -> shape c r [E100] None
| Sh100Refuse s : r_expect r = true -> may_refuse c r = true -> shape c r [E100; EResp s true] None
| ShRun pre n x s cl hj nxt :
    (pre = [] \/ (pre = [E100] /\ r_expect r = true)) -> expectation_rejected c r = false ->
    ((hj = [EHijack] /\ nxt = None) \/ hj = []) ->
    shape c r (pre ++ [EDispatch (r_id r) n x; EResp s cl] ++ hj) nxt.

Lemma after_handler_shape c r pos st :
  exists n x s cl hj, fst (after_handler c r pos st) = [EDispatch (r_id r) n x; EResp s cl] ++ hj
    /\ ((hj = [EHijack] /\ snd (after_handler c r pos st) = None) \/ hj = []).
Proof.
  unfold after_handler.
  repeat match goal with
  | |- context [let '(_, _) := ?x in _] => destruct x
  | |- context [if ?b then _ else _] => destruct b
  end; cbn; do 5 eexists; (split; [reflexivity|]); auto.
Qed.

Lemma serve_one_shape c r :
  wf_cfg c -> wf_req r -> r_lim r = None -> shape c r (fst (serve_one c r)) (snd (serve_one c r)).
Proof.
  intros Wc Wr L. unfold serve_one, before_handler.
  destruct (c_getonly c && negb (r_getlike r)) eqn:G.
  { cbn. apply ShRefuse. rewrite may_refuse_split, G. reflexivity. }
  pose proof (expect_verdict_spec c r) as EV.
  destruct (r_expect r) eqn:E.
  - destruct (expect_verdict c r) as [s|].
    { cbn. apply ShRefuse. rewrite may_refuse_split, EV, orb_true_r. reflexivity. }
    pose proof (read_body_fail c r true Wc Wr L) as RF.
    destruct (read_body c r true) as [p st| |].
    + destruct (after_handler_shape c r p st) as (n & x & s & cl & hj & H1 & H2).
      destruct (after_handler c r p st) as [e2 nxt]. cbn [fst snd] in *. subst e2.
      apply ShRun; auto.
    + cbn. apply Sh100; assumption.
    + cbn. apply Sh100Refuse; [assumption|]. rewrite may_refuse_split, RF. apply orb_true_r.
  - pose proof (read_body_fail c r false Wc Wr L) as RF.
    destruct (read_body c r false) as [p st| |].
    + destruct (expect_verdict c r) as [s|].
      { cbn. apply ShRefuse. rewrite may_refuse_split, EV, orb_true_r. reflexivity. }
      destruct (after_handler_shape c r p st) as (n & x & s & cl & hj & H1 & H2).
      destruct (after_handler c r p st) as [e2 nxt]. cbn [fst snd] in *. subst e2.
      apply (ShRun c r []); auto.
    + cbn. apply ShSilent.
    + cbn. apply ShRefuse. rewrite may_refuse_split, RF. apply orb_true_r.
Qed.

Lemma judge_nil c rs : judge c rs [] = true.
Proof. destruct rs; reflexivity. Qed.

Definition nohj (t : list event) : Prop := match t with EHijack :: _ => False | _ => True end.

Lemma judge_run c r rest pre n x s cl hj t :
  (pre = [] \/ (pre = [E100] /\ r_expect r = true)) -> expectation_rejected c r = false ->
  ((hj = [EHijack] /\ t = []) \/ (hj = [] /\ nohj t)) ->
  judge c (r :: rest) ((pre ++ [EDispatch (r_id r) n x; EResp s cl] ++ hj) ++ t)
  = if (match hj with [] => false | _ => true end) then true
    else if well_framed r then judge c rest t else match t with [] => true | _ => false end.
Proof.
  intros Hp Hr Hh.
  destruct Hp as [-> | [-> E]]; destruct Hh as [[-> ->] | [-> Ht]]; cbn; rewrite ?E, Hr, Z.eqb_refl; cbn;
    try reflexivity; destruct t as [|[] t]; cbn in *; try reflexivity; contradiction.
Qed.

Definition all_visible (l : list event) : Prop := filter visible l = l.

Theorem model_trace_judged c : wf_cfg c -> forall rs base,
  Forall wf_req rs -> Forall (fun r => r_lim r = None) rs ->
  judge c rs (filter visible (serve c rs base)) = true /\ nohj (filter visible (serve c rs base)).
Proof.
  intros Wc rs; induction rs as [|r rest IH]; intros base W L.
  - cbn. auto.
  - inversion W as [|? ? Wr Wrest]; inversion L as [|? ? Lr Lrest]; subst.
    cbn [serve filter visible].
    pose proof (serve_one_shape c r Wc Wr Lr) as Sh.
    pose proof (next_starts_at_body_end c r) as T1.
    destruct (serve_one c r) as [evs nxt] eqn:H1. cbn [fst snd] in Sh.
    rewrite filter_app.
    (* the tail of the trace *)
    set (tail := match nxt with
                 | Some off => if at_end (r_lim r) off then [EClose]
                               else if negb (truncated r) && (off =? wire_len (r_fr r))
                                    then serve c rest (base + r_head r + off)
                                    else [EDesync (r_id r) off (base + r_head r + off)]
                 | None => [EClose] end).
    assert (Htail : (nxt = None /\ filter visible tail = []) \/
                    (exists off, nxt = Some off /\ well_framed r = true
                                 /\ judge c rest (filter visible tail) = true /\ nohj (filter visible tail))).
    { subst tail. destruct nxt as [off|]; [right|left; auto].
      specialize (T1 evs off Wc Wr Lr eq_refl).
      exists off. split; [reflexivity|]. unfold well_framed. rewrite T1, Lr. split; [reflexivity|].
      cbn [at_end]. unfold truncated. rewrite Lr. cbn [negb andb].
      rewrite (framed_wire _ _ T1), Z.eqb_refl. exact (IH _ Wrest Lrest). }
    clearbody tail.
    inversion Sh as [s M E1 E2 | E1 E2 | Ex E1 E2 | s Ex M E1 E2 | pre n x s cl hj nxt' Hp Hr Hh E1 E2]; subst.
    + destruct Htail as [[_ ->] | (off & Hn & _)]; [|discriminate]. cbn. rewrite M. auto.
    + destruct Htail as [[_ ->] | (off & Hn & _)]; [|discriminate]. cbn. auto.
    + destruct Htail as [[_ ->] | (off & Hn & _)]; [|discriminate]. cbn. rewrite Ex. auto.
    + destruct Htail as [[_ ->] | (off & Hn & _)]; [|discriminate]. cbn. rewrite Ex, M. auto.
    + assert (V : filter visible (pre ++ [EDispatch (r_id r) n x; EResp s cl] ++ hj)
                  = pre ++ [EDispatch (r_id r) n x; EResp s cl] ++ hj).
      { destruct Hp as [-> | [-> _]]; destruct Hh as [[-> _] | ->]; reflexivity. }
      rewrite V. split.
      * rewrite judge_run; auto.
        -- destruct Hh as [[-> ->] | ->]; [reflexivity|]. cbn.
           destruct Htail as [[-> ->] | (off & -> & Wf & J & _)].
           ++ rewrite judge_nil. destruct (well_framed r); reflexivity.
           ++ rewrite Wf. exact J.
        -- destruct Hh as [[-> ->] | ->]; [left|right].
           ++ destruct Htail as [[_ ->] | (off & Hn & _)]; [auto|discriminate].
           ++ split; [reflexivity|]. destruct Htail as [[_ ->] | (off & _ & _ & _ & N)]; [exact I|exact N].
      * destruct Hp as [-> | [-> _]]; exact I.
Qed.

(* ------------------------------------------------------------------------------------ *)
(* non-vacuity: the three behaviours that used to desynchronise the connection          *)
(* ------------------------------------------------------------------------------------ *)

Definition wit_cfg : cfg := mkCfg true 20000 false true false false false.
Definition wit_detach : req := mkReq 1 58 false false false (FFixed 10000) None None 0 false RNone FinDetach.
Definition wit_timeout : req := mkReq 1 58 false false false (FFixed 10000) None None 0 false RNone FinTimeout.
Definition wit_sticky : req :=
  mkReq 1 58 false false false (FChunked [mkChunk 3 5 false; mkChunk 4 64 true] 3 2) None None 0 false REOF FinNone.
Definition wit_detach_read : req := mkReq 1 58 false false false (FFixed 10000) None None 0 false REOF FinDetach.

(* detaching an unread stream, timing out, reading into a broken chunk: the connection is closed;
   detaching after reading everything: the connection goes on at the end of the body *)
Lemma former_findings_close :
  snd (serve_one wit_cfg wit_detach) = None /\ snd (serve_one wit_cfg wit_timeout) = None /\
  snd (serve_one wit_cfg wit_sticky) = None /\ snd (serve_one wit_cfg wit_detach_read) = Some 10000.
Proof. vm_compute. auto. Qed.
