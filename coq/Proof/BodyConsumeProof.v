(* Proofs for C02 (Model/BodyConsume.v against Spec/BodyConsumeSpec.v). *)
From Coq Require Import Lia ZifyBool.
From FH Require Import Model.Base Gen.GenC02 Model.BodyConsume Spec.BodyConsumeSpec.
Open Scope Z_scope.

(* ------------------------------------------------------------------------------------ *)
(* the chunked stream reader on a complete input                                        *)
(* ------------------------------------------------------------------------------------ *)

(* wire bytes from the reader position to the end of the last data chunk *)
Definition rem_chs (chs : list chunk) (opened : bool) : Z :=
  match chs with
  | [] => 0
  | c :: cs' => (if opened then 0 else ch_line c) + ch_size c + (if ch_ok c then 2 else 1) + chunks_len cs'
  end.

Lemma rem_chs_closed' cs : rem_chs cs false = chunks_len cs.
Proof. destruct cs as [|c cs]; cbn; unfold chunk_len; lia. Qed.

Lemma cread_none : forall zl tl chs opened pos t want x st',
  cread None zl tl chs opened pos t want = (x, st') ->
  match x with
  | RcOk => s_fixed st' = false /\ s_eof st' = false /\ s_err st' = None
            /\ s_pos st' + rem_chs (s_chs st') (s_open st') = pos + rem_chs chs opened
            /\ forallb ch_ok (s_chs st') = forallb ch_ok chs
  | RcEof => s_pos st' = pos + rem_chs chs opened + zl + tl /\ forallb ch_ok chs = true
             /\ s_eof st' = true /\ s_fixed st' = false
  | RcErr => forallb ch_ok chs = false /\ s_fixed st' = false /\ s_eof st' = false /\ s_err st' = Some RcErr
  end.
Proof.
  intros zl tl chs; induction chs as [|c chs IH]; intros opened pos t want x st' H.
  - cbn in H. injection H as <- <-. cbn. repeat split; lia.
  - cbn [cread] in H. cbn [at_end] in H. rewrite andb_false_r in H.
    assert (Hline : (if opened then Some pos else adv None pos (ch_line c)) = Some (if opened then pos else pos + ch_line c))
      by (destruct opened; reflexivity).
    rewrite Hline in H; clear Hline.
    set (p1 := if opened then pos else pos + ch_line c) in *.
    set (n := match want with Some k => Z.min k (ch_size c) | None => ch_size c end) in *.
    cbn [adv] in H.
    destruct (n <? ch_size c) eqn:Hn.
    + injection H as <- <-. cbn. repeat split; try reflexivity.
      subst p1; destruct opened, (ch_ok c); lia.
    + destruct (ch_ok c) eqn:Hok.
      * assert (Step : forall want' x st', cread None zl tl chs false (p1 + n + 2) (t + n) want' = (x, st') ->
                  match x with
                  | RcOk => s_fixed st' = false /\ s_eof st' = false /\ s_err st' = None
                            /\ s_pos st' + rem_chs (s_chs st') (s_open st') = pos + rem_chs (c :: chs) opened
                            /\ forallb ch_ok (s_chs st') = forallb ch_ok (c :: chs)
                  | RcEof => s_pos st' = pos + rem_chs (c :: chs) opened + zl + tl /\ forallb ch_ok (c :: chs) = true
                             /\ s_eof st' = true /\ s_fixed st' = false
                  | RcErr => forallb ch_ok (c :: chs) = false /\ s_fixed st' = false /\ s_eof st' = false /\ s_err st' = Some RcErr
                  end).
        { intros w x0 st0 H0. apply IH in H0.
          assert (Hn' : n = ch_size c) by (subst n; destruct want; lia).
          assert (R : p1 + n + 2 + rem_chs chs false = pos + rem_chs (c :: chs) opened).
          { cbn [rem_chs]. rewrite Hok, rem_chs_closed', Hn'. subst p1. destruct opened; lia. }
          destruct x0.
          - destruct H0 as (F & E & Er & P & B). repeat split; auto; [lia|]. cbn [forallb]. rewrite Hok. exact B.
          - destruct H0 as (P & B & E & F). repeat split; auto; [lia|]. cbn [forallb]. rewrite Hok, B. reflexivity.
          - destruct H0 as (B & F & E & Er). repeat split; auto. cbn [forallb]. rewrite B. apply andb_false_r. }
        destruct want as [k|].
        -- destruct (k - n) as [|q|q] eqn:Hk.
           ++ injection H as <- <-. cbn. rewrite Hok. repeat split; try reflexivity.
              assert (Hn' : n = ch_size c) by (subst n; lia).
              rewrite rem_chs_closed'. subst p1. destruct opened; lia.
           ++ exact (Step _ _ _ H).
           ++ exact (Step _ _ _ H).
        -- exact (Step _ _ _ H).
      * injection H as <- <-. cbn [forallb]. rewrite Hok. cbn. repeat split; reflexivity.
Qed.

Lemma rem_chs_closed cs : rem_chs cs false = chunks_len cs.
Proof. apply rem_chs_closed'. Qed.

Lemma chunks_len_framed cs : forallb ch_ok cs = true ->
  chunks_len cs = fold_right (fun c a => chunk_framed c + a) 0 cs.
Proof.
  induction cs as [|c cs IH]; cbn; [reflexivity|]. intros H. apply andb_true_iff in H as [H1 H2].
  rewrite IH by assumption. unfold chunk_len, chunk_framed. rewrite H1. lia.
Qed.

(* invariant of a chunked requestStream over the complete body cs: at its end, running, or broken *)
Definition cinv (zl tl : Z) (cs : list chunk) (st : sst) : Prop :=
  s_fixed st = false /\
  ((s_eof st = true /\ s_pos st = chunks_len cs + zl + tl /\ forallb ch_ok cs = true) \/
   (s_eof st = false /\ s_err st = None /\ s_pos st + rem_chs (s_chs st) (s_open st) = chunks_len cs
    /\ forallb ch_ok (s_chs st) = forallb ch_ok cs) \/
   (s_eof st = false /\ s_err st = Some RcErr)).

Lemma sread_cinv zl tl cs st want x st' :
  cinv zl tl cs st -> sread None zl tl st want = (x, st') ->
  cinv zl tl cs st' /\ (x = RcEof -> s_eof st' = true).
Proof.
  intros (F & I) H. unfold sread in H.
  assert (Hgo : (if s_fixed st then fread None st want
                 else if s_eof st then (RcEof, st)
                 else match s_err st with
                      | Some e => (e, st)
                      | None => cread None zl tl (s_chs st) (s_open st) (s_pos st) (s_t st) want
                      end) = (x, st')
                \/ (x = RcOk /\ st' = st)).
  { destruct want as [[|q|q]|]; auto. injection H as <- <-. auto. }
  clear H. destruct Hgo as [H|[-> ->]].
  2:{ split; [split; assumption | discriminate]. }
  rewrite F in H. destruct I as [(E & P & B)|[(E & Er & P & B)|(E & Er)]]; rewrite E in H.
  - injection H as <- <-. split; [split; auto | auto].
  - rewrite Er in H. apply cread_none in H. destruct x.
    + destruct H as (F' & E' & Er' & P' & B'). split; [|discriminate].
      split; [assumption|]. right. left. repeat split; [assumption|assumption|lia|congruence].
    + destruct H as (P' & B' & E' & F'). split; [|auto].
      split; [assumption|]. left. repeat split; [assumption|lia|congruence].
    + destruct H as (B' & F' & E' & Er'). split; [|discriminate].
      split; [assumption|]. right. right. split; assumption.
  - rewrite Er in H. injection H as <- <-. split; [|discriminate].
    split; [assumption|]. right. right. split; assumption.
Qed.

(* invariant of a fixed-length requestStream *)
Definition finv (n : Z) (st : sst) : Prop :=
  s_fixed st = true /\ s_cl st = n /\ s_pos st = Z.max (s_pre st) (s_t st)
  /\ s_pre st <= n /\ 0 <= s_t st <= n.

Lemma sread_finv zl tl n st want x st' :
  finv n st -> sread None zl tl st want = (x, st') ->
  finv n st' /\ x <> RcErr /\ (x = RcEof -> s_pos st' = n).
Proof.
  intros (F & C & P & Hp & Ht) H. unfold sread in H.
  assert (Hgo : fread None st want = (x, st') \/ (x = RcOk /\ st' = st)).
  { rewrite F in H. destruct want as [[|q|q]|]; auto. injection H as <- <-. auto. }
  clear H. destruct Hgo as [H|[-> ->]].
  2:{ split; [repeat split; auto; lia|]. split; discriminate. }
  unfold fread in H. rewrite C in H.
  destruct (s_t st =? n) eqn:Et.
  - injection H as <- <-. split; [repeat split; auto; lia|]. split; [discriminate|]. intros _. lia.
  - replace (n <? s_t st) with false in H by lia.
    set (target := match want with Some k => Z.min (s_t st + k) n | None => n end) in *.
    set (base := Z.max (s_t st) (s_pre st)) in *.
    assert (Htg : target <= n) by (subst target; destruct want; lia).
    assert (Hr : (if target <=? base then target else target) = target) by (destruct (target <=? base); reflexivity).
    rewrite Hr in H.
    set (t' := Z.max (s_t st) target) in *.
    assert (Ht' : s_t st <= t' <= n) by (subst t'; lia).
    replace (t' <? target) with false in H by (subst t'; lia).
    assert (Inv : finv n (mkSst true n (s_pre st) [] false (s_pos st + Z.max 0 (t' - base)) t' false None)).
    { repeat split; cbn; subst base; lia. }
    destruct want as [k|].
    + destruct (target =? s_t st + k) eqn:Ek; injection H as <- <-.
      * split; [exact Inv|]. split; discriminate.
      * split; [exact Inv|]. split; [discriminate|]. intros _. cbn. subst t' target base. lia.
    + injection H as <- <-. split; [exact Inv|]. split; [discriminate|]. intros _. cbn. subst t' target base. lia.
Qed.

(* ------------------------------------------------------------------------------------ *)
(* the handler phase and the drain                                                      *)
(* ------------------------------------------------------------------------------------ *)

Definition sinv (r : req) (st : sst) : Prop :=
  match r_fr r with
  | FNone => False
  | FFixed n => finv n st
  | FChunked cs zl tl => cinv zl tl cs st
  end.

Lemma sread_sinv r st want x st' :
  r_lim r = None -> sinv r st ->
  sread (r_lim r) (zl_of (r_fr r)) (tl_of (r_fr r)) st want = (x, st') ->
  sinv r st' /\ (x = RcEof -> framed_len (r_fr r) = Some (s_pos st')).
Proof.
  intros L I H. rewrite L in H. unfold sinv in *. destruct (r_fr r) as [|n|cs zl tl]; [contradiction| |].
  - cbn in H. apply (sread_finv _ _ n) in H; [|assumption]. destruct H as (I' & _ & E).
    split; [assumption|]. intros ->. cbn. rewrite E; reflexivity.
  - cbn in H. pose proof (sread_cinv _ _ _ _ _ _ _ I H) as (I' & E).
    split; [assumption|]. intros ->. specialize (E eq_refl).
    destruct I' as (_ & [(_ & P & B)|[(E' & _)|(E' & _)]]); [|congruence|congruence].
    cbn. rewrite B, P. rewrite chunks_len_framed by assumption. reflexivity.
Qed.

(* a drained stream is at the end of a framed body *)
Lemma drained_end r st : sinv r st -> drained st = true -> framed_len (r_fr r) = Some (s_pos st).
Proof.
  unfold sinv, drained. destruct (r_fr r) as [|n|cs zl tl]; [contradiction| |].
  - intros (F & C & P & Hp & Ht). rewrite F, C. intros E. cbn. f_equal. lia.
  - intros (F & I). rewrite F. intros E.
    destruct I as [(_ & P & B)|[(E' & _)|(E' & _)]]; [|congruence|congruence].
    cbn. rewrite B, P. rewrite chunks_len_framed by assumption. reflexivity.
Qed.

(* a stream whose pooled object carried nothing *)
Definition dinv (r : req) (d : dstream) : Prop := d_skip d = 0 /\ sinv r (d_st d).

Lemma dread_clean lim zl tl cs alt d want :
  d_skip d = 0 ->
  dread lim zl tl cs alt d want = (fst (sread lim zl tl (d_st d) want), mkD 0 (snd (sread lim zl tl (d_st d) want))).
Proof.
  intros H. destruct d as [k st]. cbn in H. subst k. unfold dread. cbn [d_st d_skip].
  assert (E : s_fixed st || s_eof st || match s_err st with Some _ => true | None => false end || (0 <=? 0) = true)
    by (rewrite orb_true_r; reflexivity).
  destruct want as [[|q|q]|]; [reflexivity| | |]; rewrite E;
    match goal with |- context [sread ?a ?b ?c ?d ?e] => destruct (sread a b c d e) end; reflexivity.
Qed.

Lemma rread_dinv r d want x d' :
  r_lim r = None -> dinv r d -> rread r d want = (x, d') ->
  dinv r d' /\ (x = RcEof -> framed_len (r_fr r) = Some (s_pos (d_st d'))).
Proof.
  intros L (K & I) H. unfold rread in H. rewrite (dread_clean _ _ _ _ _ _ _ K) in H.
  destruct (sread (r_lim r) (zl_of (r_fr r)) (tl_of (r_fr r)) (d_st d) want) as [x0 st'] eqn:Hs.
  cbn [fst snd] in H. injection H as <- <-.
  pose proof (sread_sinv _ _ _ _ _ L I Hs) as (I' & E). split; [split; [reflexivity|exact I']|exact E].
Qed.

Lemma run_reads_dinv r d :
  r_lim r = None -> dinv r d -> dinv r (snd (run_reads r d)).
Proof.
  intros L I. unfold run_reads in *. destruct (r_rd r) as [|k|].
  - exact I.
  - destruct (rread r d (Some k)) as [x d'] eqn:H. cbn [fst snd] in *.
    exact (proj1 (rread_dinv _ _ _ _ _ L I H)).
  - destruct (rread r d None) as [x d'] eqn:H. cbn [fst snd] in *.
    exact (proj1 (rread_dinv _ _ _ _ _ L I H)).
Qed.

Lemma drain_end c r d d' :
  r_lim r = None -> dinv r d -> drain c r d = (false, d') -> framed_len (r_fr r) = Some (s_pos (d_st d')).
Proof.
  intros L I H. unfold drain in H.
  destruct (rread r d (Some (emax c r + 1))) as [x d2] eqn:Hs.
  destruct x; try discriminate. injection H as <-.
  exact (proj2 (rread_dinv _ _ _ _ _ L I Hs) eq_refl).
Qed.

(* whatever the handler does with the stream (reads, detaches it, times out, hijacks, asks for close):
   a kept-alive connection continues at the end of the framed body *)
Lemma after_handler_stream c r pos d evs off dfin :
  r_lim r = None -> dinv r d ->
  after_handler c r pos (Some d) = (evs, Some off, dfin) -> framed_len (r_fr r) = Some off.
Proof.
  intros L I H. unfold after_handler in H.
  pose proof (run_reads_dinv _ _ L I) as I2.
  destruct (run_reads r d) as [[n x] d2] eqn:Hr. cbn [snd] in I2.
  destruct (r_fin r); cbn [andb negb orb] in H.
  - (* FinNone *)
    destruct (drain c r d2) as [cl d3] eqn:Hd.
    destruct ((c_nokeepalive c || r_close r || cl) || false) eqn:Hc; [discriminate|].
    injection H as _ <- _. destruct cl; [rewrite orb_true_r in Hc; discriminate|].
    exact (drain_end _ _ _ _ L I2 Hd).
  - (* FinDetach *)
    destruct (negb (drained (d_st d2))) eqn:Hu; cbn in H; [discriminate|].
    destruct ((c_nokeepalive c || r_close r) || false); [discriminate|].
    injection H as _ <- _. apply drained_end; [exact (proj2 I2)|]. destruct (drained (d_st d2)); [reflexivity|discriminate].
  - (* FinTimeout *) discriminate.
  - (* FinHijack *)
    destruct ((c_nokeepalive c || r_close r) || false); discriminate.
  - (* FinConnClose *)
    destruct (drain c r d2) as [cl d3] eqn:Hd. rewrite orb_true_r in H. discriminate.
Qed.

Lemma after_handler_plain c r pos evs off dfin :
  after_handler c r pos None = (evs, Some off, dfin) -> off = pos.
Proof.
  unfold after_handler. intros H.
  destruct (r_fin r); cbn in H;
    destruct (c_nokeepalive c || r_close r); cbn in H; try discriminate; injection H as _ <- _; reflexivity.
Qed.

(* ------------------------------------------------------------------------------------ *)
(* body reading before the handler                                                      *)
(* ------------------------------------------------------------------------------------ *)

Lemma nsChunked_ok max zl cs : forall pos dlen p,
  nsChunked None max cs zl pos dlen = NOk p -> p = pos + chunks_len cs + zl /\ forallb ch_ok cs = true.
Proof.
  induction cs as [|c cs IH]; intros pos dlen p H; cbn in H.
  - injection H as <-. cbn. split; [lia|reflexivity].
  - destruct ((max >? 0) && (dlen + ch_size c >? max)); [discriminate|].
    destruct (ch_ok c) eqn:Hok; [|discriminate].
    apply IH in H as [-> B]. cbn. unfold chunk_len. rewrite Hok, B. split; [lia|reflexivity].
Qed.

(* requests the theorems talk about: sizes are sizes *)
Definition wf_req (r : req) : Prop :=
  match r_fr r with
  | FNone => True
  | FFixed n => 0 <= n
  | FChunked cs _ _ => Forall (fun c => 0 <= ch_size c) cs
  end.
Definition wf_cfg (c : cfg) : Prop := 0 < c_max c.
Lemma emax_pos c r : wf_cfg c -> 0 < emax c r.
Proof. unfold wf_cfg, emax. destruct (0 <? r_max r) eqn:E; lia. Qed.

Definition ready_ok (r : req) (pos : Z) (st : option sst) : Prop :=
  match st with
  | Some s => sinv r s /\ s_t s = 0 /\ s_eof s = false /\ s_err s = None
  | None => framed_len (r_fr r) = Some pos
  end.

Lemma read_body_ready c r b pos st :
  wf_cfg c -> wf_req r -> r_lim r = None -> read_body c r b = BReady pos st -> ready_ok r pos st.
Proof.
  intros Wc Wr L H. unfold read_body in H. unfold wf_req in Wr. apply (emax_pos c r) in Wc.
  destruct (c_stream c).
  - unfold continueReadBodyStream in H. rewrite L in H. unfold ready_ok, sinv.
    destruct (r_fr r) as [|n|cs zl tl].
    + injection H as <- <-. reflexivity.
    + destruct (if (0 <? n) && c_preparse c then r_mp r else None) as [ok|].
      * unfold readMultipart in H. destruct ok; [|discriminate]. injection H as <- <-. cbn. f_equal; try lia.
      * cbn in H. injection H as <- <-. unfold finv, prefetchLimit. cbn. repeat split; lia.
    + injection H as <- <-. unfold cinv. cbn. split; [|auto]. split; [reflexivity|]. right. left.
      rewrite rem_chs_closed. repeat split; lia.
  - unfold continueReadBody in H. rewrite L in H. unfold ready_ok.
    destruct (r_fr r) as [|n|cs zl tl].
    + injection H as <- <-. reflexivity.
    + destruct ((0 <? n) && (emax c r >? 0) && (n >? emax c r)); [destruct b; discriminate|].
      destruct (if (0 <? n) && c_preparse c then r_mp r else None) as [ok|].
      * unfold readMultipart in H. destruct ok; [|destruct b; discriminate]. injection H as <- <-. cbn. f_equal; try lia.
      * destruct ((emax c r >? 0) && (n >? emax c r)); [destruct b; discriminate|].
        cbn in H. injection H as <- <-. cbn. f_equal; try lia.
    + destruct (nsChunked None (emax c r) cs zl 0 0) as [p1| |] eqn:Hn; try (destruct b; discriminate).
      cbn in H. injection H as <- <-. apply nsChunked_ok in Hn as [-> B].
      cbn. rewrite B. rewrite chunks_len_framed by assumption. f_equal; try lia.
Qed.

Lemma before_handler_ready c r evs pos st :
  wf_cfg c -> wf_req r -> r_lim r = None -> before_handler c r = PRun evs pos st -> ready_ok r pos st.
Proof.
  intros Wc Wr L H. unfold before_handler in H.
  destruct (negb (r_uri_ok r)); [discriminate|].
  destruct (c_getonly c && negb (r_getlike r)); [discriminate|].
  destruct (r_expect r).
  - destruct (expect_verdict c r); [discriminate|].
    destruct (read_body c r true) as [p s| |] eqn:Hb; try discriminate.
    injection H as _ <- <-. exact (read_body_ready _ _ _ _ _ Wc Wr L Hb).
  - destruct (read_body c r false) as [p s| |] eqn:Hb; try discriminate.
    destruct (expect_verdict c r); [discriminate|].
    injection H as _ <- <-. exact (read_body_ready _ _ _ _ _ Wc Wr L Hb).
Qed.

(* ---- the requestStream pool ---- *)

(* what the C02 statements need from releaseRequestStream: whatever the stream's state, the object it
   puts back is indistinguishable from a new one *)
Definition rel_resets (rel : rsobj -> rsobj) : Prop := forall o, rel o = rs_new.

Lemma releaseRequestStream_resets : rel_resets releaseRequestStream.
Proof. intros o. reflexivity. Qed.

Definition pool_ok (p : rspool) : Prop := Forall (fun o => o = rs_new) p.

Lemma rs_acquire_ok p k o p' : pool_ok p -> rs_acquire p k = (o, p') -> o = rs_new /\ pool_ok p'.
Proof.
  intros Hp H. unfold rs_acquire in H. destruct (nth_error p k) as [x|] eqn:E.
  - injection H as <- <-. unfold pool_ok in *. rewrite Forall_forall in Hp. split.
    + apply Hp. exact (nth_error_In _ _ E).
    + apply Forall_forall. intros y Hy. apply Hp. apply in_app_or in Hy as [Hy|Hy].
      * revert Hy. clear. revert p. induction k; intros [|z p]; cbn; try tauto. intros [H|H]; auto.
      * revert Hy. clear. revert p. induction k; intros [|z p]; cbn; try tauto; intros H; right; auto.
  - injection H as <- <-. auto.
Qed.

Lemma stream_on_new st : s_t st = 0 -> s_eof st = false -> s_err st = None -> stream_on rs_new st = mkD 0 st.
Proof.
  intros T E R. destruct st as [f cl pre chs op pos t eof err]. cbn in *. subst. unfold stream_on. cbn.
  destruct f; reflexivity.
Qed.

(* one iteration, any pool of released objects: a kept-alive connection continues at the end of the
   framed body, and the pool stays clean *)
Theorem next_starts_at_body_end rel c r p evs off p' :
  rel_resets rel -> pool_ok p ->
  wf_cfg c -> wf_req r -> r_lim r = None ->
  serve_one rel c r p = (evs, Some off, p') -> framed_len (r_fr r) = Some off.
Proof.
  intros Hrel Hp Wc Wr L H. unfold serve_one in H.
  destruct (before_handler c r) as [e|e pos st] eqn:Hb; [discriminate|].
  pose proof (before_handler_ready _ _ _ _ _ Wc Wr L Hb) as R.
  destruct st as [s|].
  - destruct (rs_acquire p (r_pick r)) as [o p1] eqn:Ea.
    destruct (rs_acquire_ok _ _ _ _ Hp Ea) as [-> Hp1].
    destruct R as (I & T & E & Er). rewrite (stream_on_new s T E Er) in H.
    destruct (after_handler c r pos (Some (mkD 0 s))) as [[e2 nxt] dfin] eqn:Ha. injection H as _ -> _.
    apply (after_handler_stream _ _ _ _ _ _ _ L) in Ha; [exact Ha|]. split; [reflexivity|exact I].
  - destruct (after_handler c r pos None) as [[e2 nxt] dfin] eqn:Ha. injection H as _ -> _.
    apply after_handler_plain in Ha as ->. exact R.
Qed.

Lemma serve_one_pool rel c r p : rel_resets rel -> pool_ok p -> pool_ok (snd (serve_one rel c r p)).
Proof.
  intros Hrel Hp. unfold serve_one.
  destruct (before_handler c r) as [e|e pos st]; [exact Hp|].
  destruct st as [s|].
  - destruct (rs_acquire p (r_pick r)) as [o p1] eqn:Ea.
    destruct (rs_acquire_ok _ _ _ _ Hp Ea) as [_ Hp1].
    destruct (after_handler c r pos (Some (stream_on o s))) as [[e2 nxt] dfin]. cbn [snd].
    destruct dfin as [df|]; [|exact Hp1].
    destruct (r_fin r); try exact Hp1; constructor; auto.
  - destruct (after_handler c r pos None) as [[e2 nxt] dfin]. cbn [snd].
    destruct dfin as [df|]; [|exact Hp].
    destruct (r_fin r); try exact Hp; constructor; auto.
Qed.

(* ------------------------------------------------------------------------------------ *)
(* rejected expectations                                                                *)
(* ------------------------------------------------------------------------------------ *)

Lemma expect_verdict_spec c r :
  expectation_rejected c r = match expect_verdict c r with Some _ => true | None => false end.
Proof.
  unfold expectation_rejected, expect_verdict, statusContinue, StatusContinue.
  destruct (r_expect r); [|reflexivity]. cbn [andb].
  destruct (c_expectH c).
  - destruct (r_expect_status r =? 100); reflexivity.
  - destruct (c_continueH c); [|reflexivity]. destruct (r_continue_ok r); reflexivity.
Qed.

Definition quiet (e : event) : Prop :=
  match e with EDispatch _ _ _ | E100 | EParse _ => False | _ => True end.

Theorem rejected_expectation_closes rel c r p :
  expectation_rejected c r = true ->
  exists status, serve_one rel c r p = ([EResp status true], None, p).
Proof.
  intros H. rewrite expect_verdict_spec in H. unfold serve_one, before_handler.
  destruct (negb (r_uri_ok r)); [eexists; reflexivity|].
  destruct (c_getonly c && negb (r_getlike r)); [eexists; reflexivity|].
  assert (E : r_expect r = true).
  { unfold expect_verdict in H. destruct (r_expect r); [reflexivity|discriminate]. }
  rewrite E. destruct (expect_verdict c r) as [s|]; [|discriminate]. eexists; reflexivity.
Qed.

(* ------------------------------------------------------------------------------------ *)
(* whole connections                                                                    *)
(* ------------------------------------------------------------------------------------ *)

Lemma framed_wire f n : framed_len f = Some n -> wire_len f = n.
Proof.
  destruct f as [|m|cs zl tl]; cbn; intros H.
  - injection H as <-; reflexivity.
  - injection H as <-; reflexivity.
  - destruct (forallb ch_ok cs) eqn:B; [|discriminate]. injection H as <-.
    rewrite chunks_len_framed by assumption. reflexivity.
Qed.

(* ------------------------------------------------------------------------------------ *)
(* boundaries are never inside a message                                                *)
(* ------------------------------------------------------------------------------------ *)

Definition wf_lens (r : req) : Prop :=
  0 <= r_head r /\
  match r_fr r with
  | FNone => True
  | FFixed n => 0 <= n
  | FChunked cs zl tl => Forall (fun c => 0 <= ch_line c /\ 0 <= ch_size c) cs /\ 0 <= zl /\ 0 <= tl
  end.

Lemma req_len_nonneg r : wf_lens r -> 0 <= req_len r.
Proof.
  unfold wf_lens, req_len. intros [H1 H2]. destruct (r_fr r) as [|n|cs zl tl]; cbn; try lia.
  destruct (forallb ch_ok cs); [|lia]. destruct H2 as (F & Hz & Ht).
  assert (0 <= fold_right (fun c a => chunk_framed c + a) 0 cs).
  { induction F as [|c cs [Hl Hs] F IH]; cbn [fold_right]; [lia|]. unfold chunk_framed in *. lia. }
  lia.
Qed.

Lemma boundaries_ge rs : Forall wf_lens rs -> forall base off, In off (boundaries base rs) -> base <= off.
Proof.
  induction 1 as [|r rs Hr F IH]; intros base off Hin; cbn in Hin; [contradiction|].
  destruct Hin as [<-|Hin]; [lia|]. apply IH in Hin. pose proof (req_len_nonneg _ Hr). lia.
Qed.

Lemma inside_gt rs : Forall wf_lens rs -> forall base off, inside_some_message base rs off = true -> base < off.
Proof.
  induction 1 as [|r rs Hr F IH]; intros base off Hin; cbn in Hin; [discriminate|].
  apply orb_true_iff in Hin as [Hin|Hin]; [lia|]. apply IH in Hin. pose proof (req_len_nonneg _ Hr). lia.
Qed.

Lemma boundary_not_inside rs : Forall wf_lens rs -> forall base off,
  In off (boundaries base rs) -> inside_some_message base rs off = false.
Proof.
  induction 1 as [|r rs Hr F IH]; intros base off Hin; cbn in *; [contradiction|].
  pose proof (req_len_nonneg _ Hr) as Hl.
  destruct Hin as [<-|Hin].
  - apply orb_false_iff. split; [lia|].
    destruct (inside_some_message (base + req_len r) rs base) eqn:E; [|reflexivity].
    apply (inside_gt _ F) in E. lia.
  - apply orb_false_iff. split; [|exact (IH _ _ Hin)].
    apply (boundaries_ge _ F) in Hin. lia.
Qed.

(* ------------------------------------------------------------------------------------ *)
(* the model's traces satisfy the property oracle                                       *)
(* ------------------------------------------------------------------------------------ *)

Lemma nsChunked_err max zl cs : Forall (fun c => 0 <= ch_size c) cs -> forall pos dlen,
  match nsChunked None max cs zl pos dlen with
  | NOk _ => True
  | NEof => False
  | NErr => forallb ch_ok cs = false \/ max < dlen + fold_right (fun c a => ch_size c + a) 0 cs
  end.
Proof.
  induction 1 as [|c cs Hc F IH]; intros pos dlen; cbn; [exact I|].
  destruct ((max >? 0) && (dlen + ch_size c >? max)) eqn:Hm.
  - right. assert (0 <= fold_right (fun c a => ch_size c + a) 0 cs).
    { clear -F. induction F; cbn; lia. }
    lia.
  - destruct (ch_ok c) eqn:Hok; [|left; reflexivity].
    specialize (IH (pos + ch_line c + (ch_size c + 2)) (dlen + ch_size c)).
    destruct (nsChunked None max cs zl (pos + ch_line c + (ch_size c + 2)) (dlen + ch_size c)); auto.
    destruct IH as [B|B]; [left; cbn; exact B|right; lia].
Qed.

Definition refusable (c : cfg) (r : req) : bool :=
  negb (well_framed r) || (emax c r <? data_len (r_fr r)) || match r_mp r with Some false => true | _ => false end.

Lemma read_body_fail c r b :
  wf_cfg c -> wf_req r -> r_lim r = None ->
  match read_body c r b with BReady _ _ => True | _ => refusable c r = true end.
Proof.
  intros Wc Wr L. unfold read_body, refusable, well_framed. rewrite L. apply (emax_pos c r) in Wc. unfold wf_req in Wr.
  destruct (c_stream c).
  - unfold continueReadBodyStream. rewrite L. destruct (r_fr r) as [|n|cs zl tl]; try exact I.
    destruct ((0 <? n) && c_preparse c).
    + destruct (r_mp r) as [[|]|]; cbn; try exact I. destruct b; cbn; apply orb_true_r.
    + cbn. exact I.
  - unfold continueReadBody. rewrite L. destruct (r_fr r) as [|n|cs zl tl]; try exact I.
    + destruct ((0 <? n) && (emax c r >? 0) && (n >? emax c r)) eqn:E1.
      { assert (emax c r <? n = true) by lia. destruct b; cbn; rewrite H; reflexivity. }
      destruct ((0 <? n) && c_preparse c).
      * destruct (r_mp r) as [[|]|]; cbn; try exact I.
        -- destruct b; cbn; apply orb_true_r.
        -- destruct ((emax c r >? 0) && (n >? emax c r)) eqn:E2; [|exact I].
           assert (emax c r <? n = true) by lia. destruct b; cbn; rewrite H; reflexivity.
      * destruct ((emax c r >? 0) && (n >? emax c r)) eqn:E2; [|exact I].
        assert (emax c r <? n = true) by lia. destruct b; cbn; rewrite H; reflexivity.
    + pose proof (nsChunked_err (emax c r) zl cs Wr 0 0) as E.
      destruct (nsChunked None (emax c r) cs zl 0 0); cbn; [exact I|contradiction|].
      assert (G : negb (if forallb ch_ok cs then true else false) || (emax c r <? fold_right (fun c0 a => ch_size c0 + a) 0 cs) = true).
      { destruct E as [E|E]; [rewrite E; reflexivity|]. apply orb_true_iff. right. lia. }
      destruct b; cbn; destruct (forallb ch_ok cs); cbn in *; rewrite ?G; try reflexivity.
Qed.

Lemma may_refuse_split c r :
  may_refuse c r = negb (r_uri_ok r) || (c_getonly c && negb (r_getlike r)) || expectation_rejected c r || refusable c r.
Proof.
  unfold may_refuse, refusable.
  destruct (negb (r_uri_ok r)), (c_getonly c && negb (r_getlike r)), (expectation_rejected c r), (negb (well_framed r)),
    (emax c r <? data_len (r_fr r)); reflexivity.
Qed.

Inductive shape (c : cfg) (r : req) : list event -> option Z -> Prop :=
| ShRefuse s : may_refuse c r = true -> shape c r [EResp s true] None
| ShSilent : shape c r [ESilent] None
| Sh100 : r_expect r = true -> shape c r [E100; ESilent] None
| Sh100Refuse s : r_expect r = true -> may_refuse c r = true -> shape c r [E100; EResp s true] None
| ShRun pre n x s cl hj nxt :
    (pre = [] \/ (pre = [E100] /\ r_expect r = true)) -> expectation_rejected c r = false ->
    ((hj = [EHijack] /\ nxt = None) \/ hj = []) ->
    shape c r (pre ++ [EDispatch (r_id r) n x; EResp s cl] ++ hj) nxt.

Lemma after_handler_shape c r pos st :
  exists n x s cl hj, fst (fst (after_handler c r pos st)) = [EDispatch (r_id r) n x; EResp s cl] ++ hj
    /\ ((hj = [EHijack] /\ snd (fst (after_handler c r pos st)) = None) \/ hj = []).
Proof.
  unfold after_handler.
  repeat match goal with
  | |- context [let '(_, _) := ?x in _] => destruct x
  | |- context [if ?b then _ else _] => destruct b
  end; cbn; do 5 eexists; (split; [reflexivity|]); auto.
Qed.

Lemma serve_one_shape rel c r p :
  wf_cfg c -> wf_req r -> r_lim r = None ->
  shape c r (fst (fst (serve_one rel c r p))) (snd (fst (serve_one rel c r p))).
Proof.
  intros Wc Wr L. unfold serve_one, before_handler.
  destruct (negb (r_uri_ok r)) eqn:U.
  { cbn. apply ShRefuse. rewrite may_refuse_split, U. reflexivity. }
  destruct (c_getonly c && negb (r_getlike r)) eqn:G.
  { cbn. apply ShRefuse. rewrite may_refuse_split, G, orb_true_r. reflexivity. }
  pose proof (expect_verdict_spec c r) as EV.
  assert (Run : forall pre0 pos st,
            (pre0 = [] \/ (pre0 = [E100] /\ r_expect r = true)) -> expectation_rejected c r = false ->
            let x := (let '(d, p1) := match st with
                                      | Some s => let '(o, p1) := rs_acquire p (r_pick r) in (Some (stream_on o s), p1)
                                      | None => (None, p) end in
                      let '(evs2, nxt, dfin) := after_handler c r pos d in
                      (pre0 ++ evs2, nxt,
                       match dfin, r_fin r with
                       | Some _, FinTimeout => p1
                       | Some df, _ => rel (obj_of df) :: p1
                       | None, _ => p1
                       end)) in
            shape c r (fst (fst x)) (snd (fst x))).
  { intros pre0 pos st Hp Hr.
    destruct (match st with
              | Some s => let '(o, p1) := rs_acquire p (r_pick r) in (Some (stream_on o s), p1)
              | None => (None, p) end) as [d p1].
    destruct (after_handler_shape c r pos d) as (n & x & s & cl & hj & H1 & H2).
    destruct (after_handler c r pos d) as [[e2 nxt] dfin]. cbn [fst snd] in *. subst e2.
    apply ShRun; auto. }
  destruct (r_expect r) eqn:E.
  - destruct (expect_verdict c r) as [s|].
    { cbn. apply ShRefuse. rewrite may_refuse_split, EV, orb_true_r. reflexivity. }
    pose proof (read_body_fail c r true Wc Wr L) as RF.
    destruct (read_body c r true) as [pos st| |].
    + apply Run; auto.
    + cbn. apply Sh100; assumption.
    + cbn. apply Sh100Refuse; [assumption|]. rewrite may_refuse_split, RF. apply orb_true_r.
  - pose proof (read_body_fail c r false Wc Wr L) as RF.
    destruct (read_body c r false) as [pos st| |].
    + destruct (expect_verdict c r) as [s|].
      { cbn. apply ShRefuse. rewrite may_refuse_split, EV, orb_true_r. reflexivity. }
      apply Run; auto.
    + cbn. apply ShSilent.
    + cbn. apply ShRefuse. rewrite may_refuse_split, RF. apply orb_true_r.
Qed.

(* the events of an iteration are only "100 Continue", the handler call, responses and the hijack *)
Lemma shape_events c r evs nxt e : shape c r evs nxt -> In e evs ->
  match e with EParse _ | EDesync _ _ _ | EClose => False | _ => True end.
Proof.
  intros Sh He. inversion Sh as [s M E1 E2 | E1 E2 | Ex E1 E2 | s Ex M E1 E2 | pre n x s cl hj nxt' Hp Hr Hh E1 E2]; subst; cbn in He.
  - destruct He as [<-|[]]; exact I.
  - destruct He as [<-|[]]; exact I.
  - destruct He as [<-|[<-|[]]]; exact I.
  - destruct He as [<-|[<-|[]]]; exact I.
  - apply in_app_or in He as [He|He].
    + destruct Hp as [-> | [-> _]]; cbn in He; [contradiction|destruct He as [<-|[]]; exact I].
    + cbn in He. destruct He as [<-|[<-|He]]; try exact I.
      destruct Hh as [[-> _] | ->]; cbn in He; [destruct He as [<-|[]]; exact I|contradiction].
Qed.

(* Whole connections over any clean pool, any number of pipelined requests: every head parse starts at
   a message boundary, the server never goes on at another offset, and the pool stays clean. *)
Theorem body_bytes_never_parsed rel c : rel_resets rel -> wf_cfg c -> forall rs base p,
  pool_ok p -> Forall wf_req rs -> Forall (fun r => r_lim r = None) rs ->
  pool_ok (snd (serve_p rel c rs base p)) /\
  forall e, In e (fst (serve_p rel c rs base p)) ->
    match e with
    | EParse off => In off (boundaries base rs)
    | EDesync _ _ _ => False
    | _ => True
    end.
Proof.
  intros Hrel Wc rs; induction rs as [|r rest IH]; intros base p Hp W L.
  - cbn. split; [exact Hp|]. intros e [<-|[]]. exact I.
  - inversion W as [|? ? Wr Wrest]; inversion L as [|? ? Lr Lrest]; subst.
    cbn [serve_p].
    pose proof (serve_one_shape rel c r p Wc Wr Lr) as Sh.
    pose proof (serve_one_pool rel c r p Hrel Hp) as Hp1.
    pose proof (next_starts_at_body_end rel c r p) as T1.
    destruct (serve_one rel c r p) as [[evs nxt] p1] eqn:H1. cbn [fst snd] in Sh, Hp1.
    destruct nxt as [off|].
    + specialize (T1 evs off p1 Hrel Hp Wc Wr Lr eq_refl).
      rewrite Lr. cbn [at_end]. unfold truncated. rewrite Lr. cbn [negb andb].
      rewrite (framed_wire _ _ T1), Z.eqb_refl.
      specialize (IH (base + r_head r + off) p1 Hp1 Wrest Lrest).
      destruct (serve_p rel c rest (base + r_head r + off) p1) as [tail p2]. cbn [fst snd] in *.
      destruct IH as [IHp IHe]. split; [exact IHp|].
      intros e [<-|He]; [cbn; auto|]. apply in_app_or in He as [He|He].
      * pose proof (shape_events _ _ _ _ e Sh He). destruct e; auto; contradiction.
      * specialize (IHe e He). destruct e; auto. cbn [boundaries]. right.
        unfold req_len. rewrite T1. replace (base + (r_head r + off)) with (base + r_head r + off) by lia. exact IHe.
    + cbn [fst snd]. split; [exact Hp1|].
      intros e [<-|He]; [cbn; auto|]. apply in_app_or in He as [He|He].
      * pose proof (shape_events _ _ _ _ e Sh He). destruct e; auto; contradiction.
      * destruct He as [<-|[]]. exact I.
Qed.

Lemma judge_nil c rs : judge c rs [] = true.
Proof. destruct rs; reflexivity. Qed.

Definition nohj (t : list event) : Prop := match t with EHijack :: _ => False | _ => True end.

Lemma judge_run c r rest pre n x s cl hj t :
  (pre = [] \/ (pre = [E100] /\ r_expect r = true)) -> expectation_rejected c r = false ->
  ((hj = [EHijack] /\ t = []) \/ (hj = [] /\ nohj t)) ->
  judge c (r :: rest) ((pre ++ [EDispatch (r_id r) n x; EResp s cl] ++ hj) ++ t)
  = if (match hj with [] => false | _ => true end) then true
    else if well_framed r then judge c rest t else match t with [] => true | _ => false end.
Proof.
  intros Hp Hr Hh.
  destruct Hp as [-> | [-> E]]; destruct Hh as [[-> ->] | [-> Ht]]; cbn; rewrite ?E, Hr, Z.eqb_refl; cbn;
    try reflexivity; destruct t as [|[] t]; cbn in *; try reflexivity; contradiction.
Qed.

Theorem model_trace_judged rel c : rel_resets rel -> wf_cfg c -> forall rs base p,
  pool_ok p -> Forall wf_req rs -> Forall (fun r => r_lim r = None) rs ->
  judge c rs (filter visible (fst (serve_p rel c rs base p))) = true
  /\ nohj (filter visible (fst (serve_p rel c rs base p))).
Proof.
  intros Hrel Wc rs; induction rs as [|r rest IH]; intros base p Hp W L.
  - cbn. auto.
  - inversion W as [|? ? Wr Wrest]; inversion L as [|? ? Lr Lrest]; subst.
    cbn [serve_p].
    pose proof (serve_one_shape rel c r p Wc Wr Lr) as Sh.
    pose proof (serve_one_pool rel c r p Hrel Hp) as Hp1.
    pose proof (next_starts_at_body_end rel c r p) as T1.
    destruct (serve_one rel c r p) as [[evs nxt] p1] eqn:H1. cbn [fst snd] in Sh, Hp1.
    (* the tail of the trace *)
    set (tp := match nxt with
               | Some off => if at_end (r_lim r) off then ([EClose], p1)
                             else if negb (truncated r) && (off =? wire_len (r_fr r))
                                  then serve_p rel c rest (base + r_head r + off) p1
                                  else ([EDesync (r_id r) off (base + r_head r + off)], p1)
               | None => ([EClose], p1) end).
    assert (Htail : (nxt = None /\ filter visible (fst tp) = []) \/
                    (exists off, nxt = Some off /\ well_framed r = true
                                 /\ judge c rest (filter visible (fst tp)) = true /\ nohj (filter visible (fst tp)))).
    { subst tp. destruct nxt as [off|]; [right|left; auto].
      specialize (T1 evs off p1 Hrel Hp Wc Wr Lr eq_refl).
      exists off. split; [reflexivity|]. unfold well_framed. rewrite T1, Lr. split; [reflexivity|].
      cbn [at_end]. unfold truncated. rewrite Lr. cbn [negb andb].
      rewrite (framed_wire _ _ T1), Z.eqb_refl. exact (IH _ _ Hp1 Wrest Lrest). }
    clearbody tp. destruct tp as [tail p2]. cbn [fst snd] in *.
    cbn [filter visible]. rewrite filter_app.
    inversion Sh as [s M E1 E2 | E1 E2 | Ex E1 E2 | s Ex M E1 E2 | pre n x s cl hj nxt' Hp' Hr Hh E1 E2]; subst.
    + destruct Htail as [[_ ->] | (off & Hn & _)]; [|discriminate]. cbn. rewrite M. auto.
    + destruct Htail as [[_ ->] | (off & Hn & _)]; [|discriminate]. cbn. auto.
    + destruct Htail as [[_ ->] | (off & Hn & _)]; [|discriminate]. cbn. rewrite Ex. auto.
    + destruct Htail as [[_ ->] | (off & Hn & _)]; [|discriminate]. cbn. rewrite Ex, M. auto.
    + assert (V : filter visible (pre ++ [EDispatch (r_id r) n x; EResp s cl] ++ hj)
                  = pre ++ [EDispatch (r_id r) n x; EResp s cl] ++ hj).
      { destruct Hp' as [-> | [-> _]]; destruct Hh as [[-> _] | ->]; reflexivity. }
      rewrite V. split.
      * rewrite judge_run; auto.
        -- destruct Hh as [[-> ->] | ->]; [reflexivity|]. cbn.
           destruct Htail as [[-> ->] | (off & -> & Wf & J & _)].
           ++ rewrite judge_nil. destruct (well_framed r); reflexivity.
           ++ rewrite Wf. exact J.
        -- destruct Hh as [[-> ->] | ->]; [left|right].
           ++ destruct Htail as [[_ ->] | (off & Hn & _)]; [auto|discriminate].
           ++ split; [reflexivity|]. destruct Htail as [[_ ->] | (off & _ & _ & _ & N)]; [exact I|exact N].
      * destruct Hp' as [-> | [-> _]]; exact I.
Qed.

(* several connections one after the other over the same pool *)
Theorem conns_judged rel c : rel_resets rel -> wf_cfg c -> forall conns p,
  pool_ok p -> Forall (Forall wf_req) conns -> Forall (Forall (fun r => r_lim r = None)) conns ->
  Forall2 (fun rs tr => judge c rs (filter visible tr) = true /\
                        forall e, In e tr -> match e with EParse off => In off (boundaries 0 rs) | EDesync _ _ _ => False | _ => True end)
          conns (serve_conns rel c conns p).
Proof.
  intros Hrel Wc conns; induction conns as [|rs more IH]; intros p Hp W L; cbn [serve_conns]; [constructor|].
  inversion W as [|? ? W1 W2]; inversion L as [|? ? L1 L2]; subst.
  pose proof (body_bytes_never_parsed rel c Hrel Wc rs 0 p Hp W1 L1) as [Hp1 He].
  pose proof (model_trace_judged rel c Hrel Wc rs 0 p Hp W1 L1) as [J _].
  destruct (serve_p rel c rs 0 p) as [tr p1]. cbn [fst snd] in *.
  constructor; [split; assumption|]. exact (IH p1 Hp1 W2 L2).
Qed.

(* ------------------------------------------------------------------------------------ *)
(* non-vacuity                                                                          *)
(* ------------------------------------------------------------------------------------ *)

Definition wit_cfg : cfg := mkCfg true 20000 false true false false false.
Definition wit_detach : req := mkReq 1 58 false false false (FFixed 10000) None None 0 false RNone FinDetach 0 true O None.
Definition wit_timeout : req := mkReq 1 58 false false false (FFixed 10000) None None 0 false RNone FinTimeout 0 true O None.
Definition wit_sticky : req :=
  mkReq 1 58 false false false (FChunked [mkChunk 3 5 false; mkChunk 4 64 true] 3 2) None None 0 false REOF FinNone 0 true O None.
Definition wit_detach_read : req := mkReq 1 58 false false false (FFixed 10000) None None 0 false REOF FinDetach 0 true O None.

Definition nxt_of (x : list event * option Z * rspool) : option Z := snd (fst x).

(* detaching an unread stream, timing out, reading into a broken chunk: the connection is closed;
   detaching after reading everything: the connection goes on at the end of the body *)
Lemma former_findings_close :
  nxt_of (serve_one releaseRequestStream wit_cfg wit_detach []) = None /\
  nxt_of (serve_one releaseRequestStream wit_cfg wit_timeout []) = None /\
  nxt_of (serve_one releaseRequestStream wit_cfg wit_sticky []) = None /\
  nxt_of (serve_one releaseRequestStream wit_cfg wit_detach_read []) = Some 10000.
Proof. vm_compute. auto. Qed.

(* ---- the statements depend on releaseRequestStream resetting the object ---- *)

(* a release that forgets rs.chunkLeft (every other field is reset) *)
Definition release_forgets_chunkLeft (o : rsobj) : rsobj := mkRs 0 (o_left o) false None.
Definition release_forgets_total (o : rsobj) : rsobj := mkRs (o_t o) 0 false None.
Definition release_forgets_eof (o : rsobj) : rsobj := mkRs 0 0 (o_eof o) None.

(* connection 1: the peer goes away 60 bytes into a 200-byte chunk; connection 2: one well-formed
   400-byte chunk whose data carries CRLF + last-chunk + a request at raw offset 140, then a sentinel *)
Definition pool_cfg : cfg := mkCfg true 10000 false true false false false.
Definition pool_att : req := mkReq 1 58 false false false (FChunked [mkChunk 4 200 true] 3 2) None (Some 64) 0 false REOF FinNone 0 true O None.
Definition pool_vic : req := mkReq 1 58 false false false (FChunked [mkChunk 5 400 true] 3 2) None None 0 false RNone FinNone 0 true O (Some (140, 7)).
Definition pool_next : req := mkReq 2 29 true false false FNone None None 0 false RNone FinNone 0 true O None.

Lemma pool_reset_matters :
  (* with the real release the second connection is served cleanly ... *)
  serve_conns releaseRequestStream pool_cfg [[pool_att]; [pool_vic; pool_next]] []
  = [[EParse 0; EDispatch 1 60 RcErr; EResp 200 true; EClose];
     [EParse 0; EDispatch 1 0 RcOk; EResp 200 false; EParse 470; EDispatch 2 0 RcOk; EResp 200 false; EClose]]
  (* ... without the chunkLeft reset the second body "ends" 147 bytes in and the server goes on parsing
     inside it (offset 205 of the connection, strictly inside the request) *)
  /\ serve_conns release_forgets_chunkLeft pool_cfg [[pool_att]; [pool_vic; pool_next]] []
  = [[EParse 0; EDispatch 1 60 RcErr; EResp 200 true; EClose];
     [EParse 0; EDispatch 1 0 RcOk; EResp 200 false; EDesync 1 147 205]]
  /\ inside_some_message 0 [pool_vic; pool_next] 205 = true.
Proof. vm_compute. auto. Qed.

(* the same for totalBytesRead (a fixed-length body is then left half unread) and eof (a chunked body
   is then not read at all) *)
Definition fix_a : req := mkReq 1 58 false false false (FFixed 9000) None None 0 false REOF FinNone 0 true O None.
Definition fix_b : req := mkReq 1 58 false false false (FFixed 10000) None None 0 false RNone FinNone 0 true O None.
Definition chk_a : req := mkReq 1 58 false false false (FChunked [mkChunk 4 64 true] 3 2) None None 0 false REOF FinNone 0 true O None.
Lemma pool_reset_matters_other_fields :
  (exists id rel off, In (EDesync id rel off) (concat (serve_conns release_forgets_total pool_cfg [[fix_a; pool_next]; [fix_b; pool_next]] []))) /\
  (exists id rel off, In (EDesync id rel off) (concat (serve_conns release_forgets_eof pool_cfg [[chk_a; pool_next]; [chk_a; pool_next]] []))).
Proof. split; vm_compute; do 3 eexists; eauto 20. Qed.
