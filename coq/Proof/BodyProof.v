(* Proofs about Model/Body.v: the chunked reader inverts the chunked encoding (C34),
   the readers respect a positive limit (C07), no model loop runs out of fuel. *)
From Coq Require Import Lia ZifyBool ZifyN ZifyNat.
From FH Require Import Model.Base Gen.GenC30 Gen.GenC34 Model.Ints Spec.IntsSpec Proof.IntsProof Model.Body Model.BodyWrite.
Open Scope Z_scope.

(* ------------------------------------------------------------------ *)
(* small facts                                                         *)
(* ------------------------------------------------------------------ *)
Lemma blen_nonneg b : 0 <= blen b. Proof. unfold blen. lia. Qed.
Lemma blen_app a b : blen (a ++ b) = blen a + blen b.
Proof. unfold blen. rewrite app_length. lia. Qed.
Lemma blen_nil : blen [] = 0. Proof. reflexivity. Qed.
Lemma blen_cons x b : blen (x :: b) = 1 + blen b.
Proof. unfold blen. cbn [length]. lia. Qed.

Lemma btake_app_exact a b : btake (blen a) (a ++ b) = a.
Proof. unfold btake, blen. rewrite Nat2Z.id, firstn_app, Nat.sub_diag, firstn_all. cbn. apply app_nil_r. Qed.
Lemma bdrop_app_exact a b : bdrop (blen a) (a ++ b) = b.
Proof. unfold bdrop, blen. rewrite Nat2Z.id, skipn_app, Nat.sub_diag, skipn_all. reflexivity. Qed.
Lemma btake_bdrop n b : btake n b ++ bdrop n b = b.
Proof. apply firstn_skipn. Qed.
Lemma blen_btake n b : 0 <= n <= blen b -> blen (btake n b) = n.
Proof. unfold btake, blen. intros H. rewrite firstn_length. lia. Qed.
Lemma length_bdrop n b : (length (bdrop n b) <= length b)%nat.
Proof. unfold bdrop. rewrite skipn_length. lia. Qed.
Lemma length_bdrop_lt n b : 1 <= n -> b <> [] -> (length (bdrop n b) < length b)%nat.
Proof. unfold bdrop. intros Hn Hb. rewrite skipn_length. destruct b; [congruence|]. cbn [length]. lia. Qed.

Lemma wf_app a b : wf_bytes (a ++ b) <-> wf_bytes a /\ wf_bytes b.
Proof. unfold wf_bytes. apply Forall_app. Qed.
Lemma wf_btake n b : wf_bytes b -> wf_bytes (btake n b).
Proof. unfold wf_bytes, btake. intros H. rewrite <- (firstn_skipn (Z.to_nat n) b) in H. apply Forall_app in H. tauto. Qed.
Lemma wf_bdrop n b : wf_bytes b -> wf_bytes (bdrop n b).
Proof. unfold wf_bytes, bdrop. intros H. rewrite <- (firstn_skipn (Z.to_nat n) b) in H. apply Forall_app in H. tauto. Qed.

Lemma strCRLF_eq : strCRLF = [CR; LF]. Proof. reflexivity. Qed.

Definition okWH64 : okWH 64 maxHexIntChars64 := or_introl (conj eq_refl eq_refl).

(* ------------------------------------------------------------------ *)
(* readers only move forward                                           *)
(* ------------------------------------------------------------------ *)
Lemma rhi_loop_suffix W maxc : forall b i n v r, rhi_loop W maxc b i n = HOk v r -> (length r <= length b)%nat.
Proof.
  induction b as [|c b IH]; intros i n v r; cbn [rhi_loop].
  - destruct (i >? 0); [intros [= _ <-]; cbn; lia|discriminate].
  - destruct (Z.of_N (tbl hex2intTable c) =? 16).
    + destruct (i =? 0); [discriminate|]. intros [= _ <-]. lia.
    + destruct (i >=? maxc); [discriminate|]. intros H. apply IH in H. cbn [length]. lia.
Qed.

Lemma pcs_loop_suffix : forall b e o r, pcs_loop b e o = Some r -> (length r <= length b)%nat /\ exists t, r = CR :: t.
Proof.
  induction b as [|c b IH]; intros e o r; cbn [pcs_loop]; [discriminate|].
  destruct (N.eqb_spec c CR) as [->|_].
  - intros [= <-]. split; [lia|eauto].
  - destruct (c =? LF)%N; [discriminate|].
    destruct e.
    + intros H. apply IH in H as [H1 H2]. cbn [length]. split; [lia|exact H2].
    + destruct ((c =? SP)%N || (c =? HT)%N).
      * intros H. apply IH in H as [H1 H2]. cbn [length]. split; [lia|exact H2].
      * destruct (c =? SEMI)%N; [|discriminate]. destruct o; [discriminate|].
        intros H. apply IH in H as [H1 H2]. cbn [length]. split; [lia|exact H2].
Qed.

Lemma readCrLf_len b r : readCrLf b = Some r -> length b = S (S (length r)).
Proof.
  destruct b as [|c1 [|c2 b]]; cbn [readCrLf]; try discriminate.
  - destruct (c1 =? CR)%N; discriminate.
  - destruct (c1 =? CR)%N; [|discriminate]. destruct (c2 =? LF)%N; [|discriminate]. intros [= <-]. reflexivity.
Qed.

Lemma parseChunkSize_shrinks b n r : parseChunkSize b = PCOk n r -> (length r + 3 <= length b)%nat.
Proof.
  unfold parseChunkSize, readHexInt.
  destruct (rhi_loop 64 maxHexIntChars64 b 0 0) as [v r0|e] eqn:E; [|destruct e; discriminate].
  (* at least one hex digit was consumed *)
  assert (Hlt : (length r0 < length b)%nat).
  { destruct b as [|c b]; cbn [rhi_loop] in E; [cbn in E; discriminate|].
    destruct (Z.of_N (tbl hex2intTable c) =? 16); [cbn in E; discriminate|].
    destruct (0 >=? maxHexIntChars64); [discriminate|]. apply rhi_loop_suffix in E. cbn [length]. lia. }
  destruct (pcs_loop r0 false false) as [r1|] eqn:E1; [|discriminate].
  destruct (readCrLf r1) as [r2|] eqn:E2; [|discriminate].
  intros [= _ <-]. apply pcs_loop_suffix in E1 as [E1 _]. apply readCrLf_len in E2. lia.
Qed.

Lemma appendBodyFixedSize_ok b dst n pk d r pk' :
  appendBodyFixedSize b dst n pk = BOk d r pk' ->
  n >= 0 /\ n <= blen b /\ d = dst ++ btake n b /\ r = bdrop n b /\
  pk' = (if n =? 0 then pk else Z.max pk (blen dst + n)) /\ (n = 0 \/ blen dst + n <= maxAlloc).
Proof.
  unfold appendBodyFixedSize. destruct (Z.eqb_spec n 0) as [->|Hn].
  - intros [= <- <- <-]. pose proof (blen_nonneg b).
    split; [lia|]. split; [lia|]. split; [unfold btake; cbn; now rewrite app_nil_r|].
    split; [reflexivity|]. split; [reflexivity|now left].
  - destruct (Z.ltb_spec n 0); [discriminate|].
    destruct (Z.gtb_spec (blen dst + n) maxAlloc); [discriminate|].
    destruct (Z.leb_spec n (blen b)); [|discriminate].
    intros [= <- <- <-]. split; [lia|]. split; [lia|]. split; [reflexivity|]. split; [reflexivity|].
    split; [reflexivity|right; lia].
Qed.

(* ------------------------------------------------------------------ *)
(* no loop runs out of fuel                                            *)
(* ------------------------------------------------------------------ *)
Lemma rbc_loop_fuel : forall fuel max dst b pk, (length b < fuel)%nat -> rbc_loop fuel max dst b pk <> BOutOfFuel.
Proof.
  induction fuel as [|f IH]; intros max dst b pk Hf; [lia|]. cbn [rbc_loop].
  destruct (parseChunkSize b) as [n r|e] eqn:E; [|discriminate].
  apply parseChunkSize_shrinks in E.
  destruct (n =? 0); [discriminate|]. destruct ((max >? 0) && (blen dst + n >? max)); [discriminate|].
  destruct (appendBodyFixedSize r dst (n + blen strCRLF) pk) as [d r' pk'| | |] eqn:EA; try discriminate.
  - destruct (ends_crlf d); [|discriminate]. apply IH.
    apply appendBodyFixedSize_ok in EA as (_ & _ & _ & -> & _). pose proof (length_bdrop (n + blen strCRLF) r). lia.
  - unfold appendBodyFixedSize in EA. destruct (n + blen strCRLF =? 0); [discriminate|].
    destruct (n + blen strCRLF <? 0); [discriminate|]. destruct (blen dst + (n + blen strCRLF) >? maxAlloc); [discriminate|].
    destruct (n + blen strCRLF <=? blen r); discriminate.
Qed.

Theorem readBodyChunked_no_fuel max dst b : readBodyChunked max dst b <> BOutOfFuel.
Proof. unfold readBodyChunked. destruct (0 <? blen dst); [discriminate|]. apply rbc_loop_fuel. lia. Qed.

(* ------------------------------------------------------------------ *)
(* the chunked encoding, with chunk extensions                         *)
(* ------------------------------------------------------------------ *)
(* chunk-ext as the reader accepts it: empty, or ';' followed by anything without CR / LF *)
Definition ext_good (e : bytes) : Prop :=
  wf_bytes e /\ match e with
                | [] => True
                | c :: t => c = SEMI /\ Forall (fun x => x <> CR /\ x <> LF) t
                end.
Definition enc_chunk_ext (ce : bytes * bytes) : bytes :=
  hex_of (blen (fst ce)) ++ snd ce ++ strCRLF ++ fst ce ++ strCRLF.
Definition enc_last_ext (e : bytes) : bytes := hex_of 0 ++ e ++ strCRLF.
Definition enc_chunks_ext (cs : list (bytes * bytes)) (elast : bytes) : bytes :=
  concat (map enc_chunk_ext cs) ++ enc_last_ext elast.
Definition chunk_good (ce : bytes * bytes) : Prop :=
  fst ce <> [] /\ wf_bytes (fst ce) /\ blen (fst ce) < 16 ^ maxHexIntChars64 /\ ext_good (snd ce).
Definition total (cs : list (bytes * bytes)) : Z := blen (concat (map fst cs)).

Lemma total_cons ce cs : total (ce :: cs) = blen (fst ce) + total cs.
Proof. unfold total. cbn [map concat]. apply blen_app. Qed.
Lemma total_nonneg cs : 0 <= total cs. Proof. apply blen_nonneg. Qed.

Lemma pcs_in_ext : forall t more, Forall (fun x => x <> CR /\ x <> LF) t ->
  forall o, pcs_loop (t ++ CR :: more) true o = Some (CR :: more).
Proof.
  induction t as [|c t IH]; intros more Ht o; cbn [app pcs_loop].
  - now rewrite N.eqb_refl.
  - inversion Ht as [|? ? [H1 H2] Ht']; subst.
    destruct (N.eqb_spec c CR); [contradiction|]. destruct (N.eqb_spec c LF); [contradiction|]. now apply IH.
Qed.

Lemma pcs_ext e more : ext_good e -> pcs_loop (e ++ CR :: more) false false = Some (CR :: more).
Proof.
  intros [_ He]. destruct e as [|c t]; cbn [app pcs_loop].
  - now rewrite N.eqb_refl.
  - destruct He as [-> Ht]. cbn. now apply pcs_in_ext.
Qed.

Lemma parseChunkSize_enc n e more : 0 <= n < 16 ^ maxHexIntChars64 -> ext_good e -> wf_bytes more ->
  parseChunkSize (hex_of n ++ e ++ strCRLF ++ more) = PCOk n more.
Proof.
  intros Hn He Hm. destruct (hex_roundtrip 64 maxHexIntChars64 n okWH64 Hn) as (d & Hd & Hr).
  unfold hex_of. rewrite Hd. unfold parseChunkSize.
  rewrite (Hr (e ++ strCRLF ++ more)).
  - rewrite strCRLF_eq. cbn [app]. rewrite (pcs_ext e (LF :: more) He). cbn. reflexivity.
  - apply wf_app. split; [apply He|]. apply wf_app. split; [|exact Hm].
    rewrite strCRLF_eq. repeat constructor.
  - destruct He as [_ He]. destruct e as [|c t]; [reflexivity|]. destruct He as [-> _]. reflexivity.
Qed.

Lemma ends_crlf_app a : ends_crlf (a ++ strCRLF) = true.
Proof.
  unfold ends_crlf. rewrite app_length, strCRLF_eq. cbn [length].
  replace (length a + 2 - 2)%nat with (length a) by lia.
  rewrite skipn_app, Nat.sub_diag, skipn_all. cbn [app skipn]. apply beq_refl.
Qed.
Lemma drop_last2_app a : drop_last2 (a ++ strCRLF) = a.
Proof.
  unfold drop_last2. rewrite app_length, strCRLF_eq. cbn [length].
  replace (length a + 2 - 2)%nat with (length a) by lia.
  rewrite firstn_app, Nat.sub_diag, firstn_all. cbn. apply app_nil_r.
Qed.

Lemma append_chunk c more dst pk : c <> [] -> blen dst + blen c + 2 <= maxAlloc ->
  appendBodyFixedSize (c ++ strCRLF ++ more) dst (blen c + blen strCRLF) pk
  = BOk ((dst ++ c) ++ strCRLF) more (Z.max pk (blen dst + blen c + 2)).
Proof.
  intros Hc Hm. unfold appendBodyFixedSize. pose proof (blen_nonneg c). pose proof (blen_nonneg dst).
  change (blen strCRLF) with 2.
  destruct (Z.eqb_spec (blen c + 2) 0); [lia|]. destruct (Z.ltb_spec (blen c + 2) 0); [lia|].
  destruct (Z.gtb_spec (blen dst + (blen c + 2)) maxAlloc); [lia|].
  rewrite app_assoc. replace (blen c + 2) with (blen (c ++ strCRLF)) by (rewrite blen_app; reflexivity).
  rewrite btake_app_exact, bdrop_app_exact.
  destruct (Z.leb_spec (blen (c ++ strCRLF)) (blen ((c ++ strCRLF) ++ more))) as [_|Hgt].
  - rewrite blen_app. change (blen strCRLF) with 2.
    replace (dst ++ c ++ strCRLF) with ((dst ++ c) ++ strCRLF) by (now rewrite app_assoc).
    replace (blen dst + (blen c + 2)) with (blen dst + blen c + 2) by lia. reflexivity.
  - rewrite (blen_app (c ++ strCRLF) more) in Hgt. pose proof (blen_nonneg more). lia.
Qed.

(* the reader inverts the encoder: every chunk split, every extension, any number and size of chunks *)
Lemma rbc_enc : forall cs fuel max dst elast rest pk,
  Forall chunk_good cs -> ext_good elast -> wf_bytes rest ->
  (length (enc_chunks_ext cs elast ++ rest) < fuel)%nat ->
  (max <= 0 \/ blen dst + total cs <= max) ->
  blen dst + total cs + 2 <= maxAlloc ->
  exists pk', rbc_loop fuel max dst (enc_chunks_ext cs elast ++ rest) pk = BOk (dst ++ concat (map fst cs)) rest pk'
              /\ pk <= pk' <= Z.max pk (blen dst + total cs + 2).
Proof.
  induction cs as [|[c e] cs IH]; intros fuel max dst elast rest pk Hcs Hel Hrest Hfuel Hmax Halloc;
    (destruct fuel as [|f]; [lia|]); cbn [rbc_loop].
  - unfold enc_chunks_ext. cbn [map concat app]. unfold enc_last_ext.
    rewrite <- !app_assoc. rewrite (parseChunkSize_enc 0 elast rest) by (auto; cbn; lia).
    cbn [Z.eqb]. exists pk. rewrite app_nil_r. split; [reflexivity|lia].
  - inversion Hcs as [|? ? Hc Hcs']; subst. destruct Hc as (Hne & Hwfc & Hlen & Hext). cbn [fst snd] in *.
    rewrite total_cons in *. cbn [fst] in *.
    unfold enc_chunks_ext in *. cbn [map concat] in *. unfold enc_chunk_ext at 1. cbn [fst snd].
    rewrite <- !app_assoc.
    set (tailb := concat (map enc_chunk_ext cs) ++ enc_last_ext elast ++ rest).
    assert (Hwft : wf_bytes (c ++ strCRLF ++ tailb)).
    { (* every byte that follows is a byte *)
      subst tailb. apply wf_app. split; [exact Hwfc|]. apply wf_app. split; [rewrite strCRLF_eq; repeat constructor|].
      clear -Hcs' Hel Hrest. induction cs as [|[c' e'] cs IHc]; cbn [map concat app].
      - unfold enc_last_ext. rewrite <- !app_assoc. apply wf_app. split.
        + unfold hex_of. destruct (hex_roundtrip 64 maxHexIntChars64 0 okWH64 ltac:(cbn; lia)) as (d & Hd & _).
          rewrite Hd. vm_compute in Hd. injection Hd as <-. repeat constructor.
        + apply wf_app. split; [apply Hel|]. apply wf_app. split; [rewrite strCRLF_eq; repeat constructor|exact Hrest].
      - inversion Hcs' as [|? ? (Hn' & Hw' & Hl' & He') Hcs'']; subst. cbn [fst snd] in *.
        rewrite <- app_assoc. unfold enc_chunk_ext at 1. cbn [fst snd]. rewrite <- !app_assoc.
        apply wf_app. split.
        + unfold hex_of. pose proof (blen_nonneg c').
          destruct (hex_roundtrip 64 maxHexIntChars64 (blen c') okWH64 ltac:(lia)) as (d & Hd & _).
          rewrite Hd. unfold writeHexInt in Hd. destruct (blen c' <? 0); [discriminate|].
          (* digits written by whi_loop are bytes *)
          pose proof (Z.log2_nonneg (blen c')) as Hlg.
          assert (Hb : 0 <= blen c' < 2 ^ Z.of_nat (S (Z.to_nat (Z.log2 (blen c'))))).
          { split; [lia|]. rewrite Nat2Z.inj_succ, Z2Nat.id by lia.
            destruct (Z.eq_dec (blen c') 0) as [->|Hnz]; [cbn; lia|]. apply Z.log2_spec. lia. }
          assert (Hcap : blen c' < 16 ^ (maxHexIntChars64 + 1)).
          { change (16 ^ (maxHexIntChars64 + 1)) with (16 * 16 ^ maxHexIntChars64). lia. }
          destruct (whi_loop_spec _ (blen c') (maxHexIntChars64 + 1) [] Hb ltac:(cbn; lia) Hcap) as (d' & E & _ & _ & Hwf & _).
          rewrite E in Hd. injection Hd as <-. now rewrite app_nil_r.
        + apply wf_app. split; [apply He'|]. apply wf_app. split; [rewrite strCRLF_eq; repeat constructor|].
          apply wf_app. split; [exact Hw'|]. apply wf_app. split; [rewrite strCRLF_eq; repeat constructor|].
          apply IHc. exact Hcs''. }
    pose proof (blen_nonneg c) as Hc0. pose proof (total_nonneg cs) as Ht0. pose proof (blen_nonneg dst) as Hd0.
    assert (Hcpos : 0 < blen c). { destruct c; [congruence|]. rewrite blen_cons. pose proof (blen_nonneg c). lia. }
    rewrite (parseChunkSize_enc (blen c) e (c ++ strCRLF ++ tailb)) by (auto; lia).
    destruct (Z.eqb_spec (blen c) 0); [lia|].
    assert (Hguard : (max >? 0) && (blen dst + blen c >? max) = false).
    { destruct Hmax as [Hm|Hm]; [destruct (Z.gtb_spec max 0); [lia|reflexivity]|].
      destruct (Z.gtb_spec (blen dst + blen c) max); [lia|]. apply andb_false_r. }
    rewrite Hguard. rewrite append_chunk by (auto; lia).
    rewrite ends_crlf_app, drop_last2_app.
    subst tailb.
    assert (Hfuel' : (length ((concat (map enc_chunk_ext cs) ++ enc_last_ext elast) ++ rest) < f)%nat).
    { assert (Hx : (2 <= length (enc_chunk_ext (c, e)))%nat).
      { unfold enc_chunk_ext. cbn [fst snd]. rewrite !app_length, strCRLF_eq. cbn [length]. lia. }
      rewrite !app_length in Hfuel. rewrite !app_length. lia. }
    destruct (IH f max (dst ++ c) elast rest (Z.max pk (blen dst + blen c + 2)) Hcs' Hel Hrest Hfuel') as (pk' & E & Hpk).
    + rewrite blen_app. destruct Hmax; [left; lia|right; lia].
    + rewrite blen_app. lia.
    + rewrite <- app_assoc in E. rewrite E. exists pk'. split.
      * f_equal. cbn [map concat fst]. now rewrite app_assoc.
      * rewrite blen_app in Hpk. lia.
Qed.

(* ------------------------------------------------------------------ *)
(* C07: a positive limit bounds what every reader returns and requests *)
(* ------------------------------------------------------------------ *)
Lemma rhi_loop_split W maxc : forall b i n v r, rhi_loop W maxc b i n = HOk v r -> exists p, b = p ++ r.
Proof.
  induction b as [|c b IH]; intros i n v r; cbn [rhi_loop].
  - destruct (i >? 0); [intros [= _ <-]; now exists []|discriminate].
  - destruct (Z.of_N (tbl hex2intTable c) =? 16).
    + destruct (i =? 0); [discriminate|]. intros [= _ <-]. now exists [].
    + destruct (i >=? maxc); [discriminate|]. intros H. apply IH in H as [p ->]. now exists (c :: p).
Qed.
Lemma pcs_loop_split : forall b e o r, pcs_loop b e o = Some r -> exists p, b = p ++ r.
Proof.
  induction b as [|c b IH]; intros e o r; cbn [pcs_loop]; [discriminate|].
  destruct (c =? CR)%N; [intros [= <-]; now exists []|].
  destruct (c =? LF)%N; [discriminate|].
  destruct e.
  - intros H. apply IH in H as [p ->]. now exists (c :: p).
  - destruct ((c =? SP)%N || (c =? HT)%N).
    + intros H. apply IH in H as [p ->]. now exists (c :: p).
    + destruct (c =? SEMI)%N; [|discriminate]. destruct o; [discriminate|].
      intros H. apply IH in H as [p ->]. now exists (c :: p).
Qed.
Lemma readCrLf_split b r : readCrLf b = Some r -> exists p, b = p ++ r.
Proof.
  destruct b as [|c1 [|c2 b]]; cbn [readCrLf]; try discriminate.
  - destruct (c1 =? CR)%N; discriminate.
  - destruct (c1 =? CR)%N; [|discriminate]. destruct (c2 =? LF)%N; [|discriminate]. intros [= <-]. now exists [c1; c2].
Qed.

Lemma hex_value_nonneg d : 0 <= hex_value d.
Proof.
  unfold hex_value. assert (H : forall a, 0 <= a -> 0 <= fold_left (fun a c => 16 * a + match hexdig c with Some x => x | None => 0 end) d a).
  { induction d as [|c d IH]; intros a Ha; cbn [fold_left]; [exact Ha|]. apply IH.
    destruct (hexdig c) eqn:E; [apply hexdig_range in E|]; lia. }
  apply H. lia.
Qed.

Lemma parseChunkSize_facts b n r : wf_bytes b -> parseChunkSize b = PCOk n r -> 0 <= n /\ wf_bytes r.
Proof.
  intros Hwf. unfold parseChunkSize.
  destruct (readHexInt 64 maxHexIntChars64 b) as [v r0|e] eqn:E; [|destruct e; discriminate].
  destruct (pcs_loop r0 false false) as [r1|] eqn:E1; [|discriminate].
  destruct (readCrLf r1) as [r2|] eqn:E2; [|discriminate].
  intros [= <- <-]. split.
  - rewrite (readhex_exact 64 maxHexIntChars64 b okWH64 Hwf) in E.
    destruct (span_hex b) as [d rr]. destruct d as [|c d]; [destruct b; discriminate|].
    destruct (Z.of_nat (length (c :: d)) >? maxHexIntChars64); [discriminate|].
    injection E as <- _. apply hex_value_nonneg.
  - unfold readHexInt in E. apply rhi_loop_split in E as [p0 ->]. apply pcs_loop_split in E1 as [p1 ->].
    apply readCrLf_split in E2 as [p2 ->]. apply wf_app in Hwf as [_ Hwf]. apply wf_app in Hwf as [_ Hwf].
    now apply wf_app in Hwf as [_ Hwf].
Qed.

Lemma blen_drop_last2 d : 2 <= blen d -> blen (drop_last2 d) = blen d - 2.
Proof. unfold drop_last2, blen. intros H. rewrite firstn_length. lia. Qed.

(* all inputs: a body returned under a positive limit is within the limit, and the buffer
   length requested never exceeds limit + 2 (the chunk's trailing CRLF is read into the buffer) *)
Lemma rbc_bounded : forall fuel max dst b pk, max > 0 -> wf_bytes b -> blen dst <= max ->
  (forall d rest p, rbc_loop fuel max dst b pk = BOk d rest p -> blen d <= max) /\
  bres_peak (rbc_loop fuel max dst b pk) <= Z.max pk (max + 2).
Proof.
  induction fuel as [|f IH]; intros max dst b pk Hmax Hwf Hdst; cbn [rbc_loop].
  - split; [discriminate|cbn; lia].
  - destruct (parseChunkSize b) as [n r|e] eqn:E; [|split; [discriminate|cbn; lia]].
    destruct (parseChunkSize_facts b n r Hwf E) as [Hn Hwfr].
    destruct (Z.eqb_spec n 0) as [->|Hnz]; [split; [intros d rest p [= <- _ _]; exact Hdst|cbn; lia]|].
    destruct (Z.gtb_spec max 0); [|lia]. cbn [andb].
    destruct (Z.gtb_spec (blen dst + n) max) as [|Hfit]; [split; [discriminate|cbn; lia]|].
    destruct (appendBodyFixedSize r dst (n + blen strCRLF) pk) as [d r' pk'|e d pk'| |] eqn:EA.
    + apply appendBodyFixedSize_ok in EA as (_ & Hle & -> & -> & -> & _).
      change (blen strCRLF) with 2 in *.
      destruct (Z.eqb_spec (n + 2) 0); [lia|].
      assert (Hbl : blen (dst ++ btake (n + 2) r) = blen dst + n + 2).
      { rewrite blen_app, blen_btake by lia. lia. }
      destruct (ends_crlf (dst ++ btake (n + 2) r)).
      * pose proof (blen_nonneg dst) as Hd0.
        assert (Hd' : blen (drop_last2 (dst ++ btake (n + 2) r)) <= max) by (rewrite blen_drop_last2; lia).
        destruct (IH max (drop_last2 (dst ++ btake (n + 2) r)) (bdrop (n + 2) r) (Z.max pk (blen dst + (n + 2))) Hmax (wf_bdrop _ _ Hwfr) Hd') as [I1 I2].
        split; [exact I1|lia].
      * split; [discriminate|cbn; lia].
    + split; [discriminate|]. unfold appendBodyFixedSize in EA. change (blen strCRLF) with 2 in *.
      destruct (n + 2 =? 0); [discriminate|]. destruct (n + 2 <? 0); [discriminate|].
      destruct (blen dst + (n + 2) >? maxAlloc); [discriminate|].
      destruct (n + 2 <=? blen r); [discriminate|]. injection EA as _ _ <-. cbn. lia.
    + split; [discriminate|cbn; lia].
    + split; [discriminate|cbn; lia].
Qed.

Theorem readBodyChunked_bounded max b : max > 0 -> wf_bytes b ->
  (forall d rest p, readBodyChunked max [] b = BOk d rest p -> blen d <= max) /\
  bres_peak (readBodyChunked max [] b) <= max + 2.
Proof.
  intros Hmax Hwf. unfold readBodyChunked. change (blen []) with 0. cbn [Z.ltb Z.compare].
  destruct (rbc_bounded (S (length b)) max [] b 0 Hmax Hwf ltac:(change (blen []) with 0; lia)) as [H1 H2]. split; [exact H1|lia].
Qed.

(* an encoded body whose chunks add up to more than the limit is rejected, never truncated *)
Lemma rbc_enc_toolarge : forall cs fuel max dst elast rest pk,
  Forall chunk_good cs -> ext_good elast -> wf_bytes rest ->
  (length (enc_chunks_ext cs elast ++ rest) < fuel)%nat ->
  max > 0 -> blen dst <= max -> blen dst + total cs > max -> max + 2 <= maxAlloc ->
  exists d pk', rbc_loop fuel max dst (enc_chunks_ext cs elast ++ rest) pk = BErr EBodyTooLarge d pk' /\ blen d <= max.
Proof.
  induction cs as [|[c e] cs IH]; intros fuel max dst elast rest pk Hcs Hel Hrest Hfuel Hmax Hdst Hbig Halloc.
  - unfold total in Hbig. cbn in Hbig. lia.
  - destruct fuel as [|f]; [lia|]. cbn [rbc_loop].
    inversion Hcs as [|? ? Hc Hcs']; subst. destruct Hc as (Hne & Hwfc & Hlen & Hext). cbn [fst snd] in *.
    rewrite total_cons in Hbig. cbn [fst] in Hbig.
    pose proof (blen_nonneg c) as Hc0. pose proof (blen_nonneg dst) as Hd0.
    assert (Hcpos : 0 < blen c). { destruct c; [congruence|]. rewrite blen_cons. pose proof (blen_nonneg c). lia. }
    (* the bytes after this chunk header are bytes: reuse rbc_enc's reasoning through a limit-free run *)
    unfold enc_chunks_ext in *. cbn [map concat] in *. unfold enc_chunk_ext at 1. cbn [fst snd].
    rewrite <- !app_assoc.
    set (tailb := concat (map enc_chunk_ext cs) ++ enc_last_ext elast ++ rest).
    assert (Hwft : wf_bytes (c ++ strCRLF ++ tailb)).
    { subst tailb. apply wf_app. split; [exact Hwfc|]. apply wf_app. split; [rewrite strCRLF_eq; repeat constructor|].
      clear -Hcs' Hel Hrest. induction cs as [|[c' e'] cs IHc]; cbn [map concat app].
      - unfold enc_last_ext. rewrite <- !app_assoc. apply wf_app. split.
        + unfold hex_of. destruct (hex_roundtrip 64 maxHexIntChars64 0 okWH64 ltac:(cbn; lia)) as (d & Hd & _).
          rewrite Hd. vm_compute in Hd. injection Hd as <-. repeat constructor.
        + apply wf_app. split; [apply Hel|]. apply wf_app. split; [rewrite strCRLF_eq; repeat constructor|exact Hrest].
      - inversion Hcs' as [|? ? (Hn' & Hw' & Hl' & He') Hcs'']; subst. cbn [fst snd] in *.
        rewrite <- app_assoc. unfold enc_chunk_ext at 1. cbn [fst snd]. rewrite <- !app_assoc.
        apply wf_app. split.
        + unfold hex_of. pose proof (blen_nonneg c').
          destruct (hex_roundtrip 64 maxHexIntChars64 (blen c') okWH64 ltac:(lia)) as (d & Hd & _).
          rewrite Hd. unfold writeHexInt in Hd. destruct (blen c' <? 0); [discriminate|].
          pose proof (Z.log2_nonneg (blen c')) as Hlg.
          assert (Hb : 0 <= blen c' < 2 ^ Z.of_nat (S (Z.to_nat (Z.log2 (blen c'))))).
          { split; [lia|]. rewrite Nat2Z.inj_succ, Z2Nat.id by lia.
            destruct (Z.eq_dec (blen c') 0) as [->|Hnz]; [cbn; lia|]. apply Z.log2_spec. lia. }
          assert (Hcap : blen c' < 16 ^ (maxHexIntChars64 + 1)).
          { change (16 ^ (maxHexIntChars64 + 1)) with (16 * 16 ^ maxHexIntChars64). lia. }
          destruct (whi_loop_spec _ (blen c') (maxHexIntChars64 + 1) [] Hb ltac:(cbn; lia) Hcap) as (d' & E & _ & _ & Hwf & _).
          rewrite E in Hd. injection Hd as <-. now rewrite app_nil_r.
        + apply wf_app. split; [apply He'|]. apply wf_app. split; [rewrite strCRLF_eq; repeat constructor|].
          apply wf_app. split; [exact Hw'|]. apply wf_app. split; [rewrite strCRLF_eq; repeat constructor|].
          apply IHc. exact Hcs''. }
    rewrite (parseChunkSize_enc (blen c) e (c ++ strCRLF ++ tailb)) by (auto; lia).
    destruct (Z.eqb_spec (blen c) 0); [lia|].
    destruct (Z.gtb_spec max 0); [|lia]. cbn [andb].
    destruct (Z.gtb_spec (blen dst + blen c) max) as [Hover|Hfit].
    + exists dst, pk. split; [reflexivity|exact Hdst].
    + rewrite append_chunk by (auto; lia). rewrite ends_crlf_app, drop_last2_app. subst tailb.
      assert (Hfuel' : (length ((concat (map enc_chunk_ext cs) ++ enc_last_ext elast) ++ rest) < f)%nat).
      { assert (Hx : (2 <= length (enc_chunk_ext (c, e)))%nat).
        { unfold enc_chunk_ext. cbn [fst snd]. rewrite !app_length, strCRLF_eq. cbn [length]. lia. }
        rewrite !app_length in Hfuel. rewrite !app_length. lia. }
      destruct (IH f max (dst ++ c) elast rest (Z.max pk (blen dst + blen c + 2)) Hcs' Hel Hrest Hfuel' Hmax) as (d & pk' & E & Hd).
      * rewrite blen_app. lia.
      * rewrite blen_app. lia.
      * exact Halloc.
      * rewrite <- app_assoc in E. rewrite E. exists d, pk'. split; [reflexivity|exact Hd].
Qed.

(* ---- fixed size ---- *)
Theorem readBody_bounded cl max b d r p : max > 0 -> readBody cl max [] b 0 = BOk d r p -> blen d = cl /\ cl <= max /\ p <= max.
Proof.
  intros Hmax. unfold readBody. destruct (Z.gtb_spec max 0); [|lia]. cbn [andb].
  destruct (Z.gtb_spec cl max); [discriminate|]. intros HA. apply appendBodyFixedSize_ok in HA as (Hn & Hle & -> & _ & -> & _).
  cbn [app blen length Z.of_nat]. rewrite blen_btake by lia. destruct (cl =? 0); lia.
Qed.
Theorem readBody_oversize cl max b : max > 0 -> cl > max -> readBody cl max [] b 0 = BErr EBodyTooLarge [] 0.
Proof.
  intros Hmax Hcl. unfold readBody. destruct (Z.gtb_spec max 0); [|lia]. destruct (Z.gtb_spec cl max); [reflexivity|lia].
Qed.

(* ---- identity ---- *)
Lemma roundUp_ge n : 0 < n -> n <= roundUpForSliceCap n.
Proof.
  intros Hn. unfold roundUpForSliceCap. destruct (Z.leb_spec n 0); [lia|].
  destruct (Z.gtb_spec n (100 * 1024 * 1024)); [lia|].
  destruct (Z.eq_dec n 1) as [->|]; [cbn; lia|]. apply Z.log2_up_spec. lia.
Qed.

Lemma rbi_inv : forall fuel max rs b acc dstlen offset pk B,
  max > 0 -> offset = blen acc -> offset <= max -> offset < dstlen -> dstlen <= B -> pk <= B -> max + 1 <= B ->
  (length b < fuel)%nat ->
  match rbi_loop fuel max rs b acc dstlen offset pk with
  | BOk d r p => d = acc ++ b /\ r = [] /\ blen d <= max /\ p <= B
  | BErr e d p => e = EBodyTooLarge /\ offset + blen b > max /\ p <= B
  | BPanic => False
  | BOutOfFuel => False
  end.
Proof.
  induction fuel as [|f IH]; intros max rs b acc dstlen offset pk B Hmax Hoff Hle Hroom HdB HpB HmB Hfuel; [lia|].
  pose proof (blen_nonneg acc) as Hacc0.
  cbn [rbi_loop]. destruct b as [|c0 b0] eqn:Eb.
  - rewrite app_nil_r. repeat split; try lia.
  - rewrite <- Eb in *. assert (Hbpos : 1 <= blen b) by (rewrite Eb, blen_cons; pose proof (blen_nonneg b0); lia).
    set (room := dstlen - offset).
    set (want := match rs with [] => room | r :: _ => Z.max 1 (Z.min r room) end).
    assert (Hwant : 1 <= want <= room) by (subst want room; destruct rs; lia).
    set (nn := Z.min want (blen b)).
    assert (Hnn : 1 <= nn <= room /\ nn <= blen b) by (subst nn; lia).
    assert (Hacc' : blen (acc ++ btake nn b) = offset + nn) by (rewrite blen_app, blen_btake by lia; lia).
    destruct (Z.gtb_spec max 0); [|lia]. cbn [andb].
    destruct (Z.gtb_spec (offset + nn) max) as [Hover|Hfit].
    + repeat split; lia.
    + assert (Hlen' : (length (bdrop nn b) < f)%nat).
      { assert ((length (bdrop nn b) < length b)%nat) by (apply length_bdrop_lt; [lia|rewrite Eb; discriminate]). lia. }
      assert (Hsplit : acc ++ b = (acc ++ btake nn b) ++ bdrop nn b) by (rewrite <- app_assoc, btake_bdrop; reflexivity).
      assert (Hblen : blen b = nn + blen (bdrop nn b)).
      { rewrite <- (btake_bdrop nn b) at 1. rewrite blen_app, blen_btake by lia. reflexivity. }
      destruct (Z.eqb_spec dstlen (offset + nn)) as [Hfull|Hnot].
      * set (n0 := roundUpForSliceCap (2 * (offset + nn))).
        assert (Hn0 : 2 * (offset + nn) <= n0) by (apply roundUp_ge; lia).
        set (n := if n0 >? max then max + 1 else n0).
        assert (Hn : offset + nn < n /\ n <= B) by (subst n; destruct (Z.gtb_spec n0 max); lia).
        specialize (IH max (tl rs) (bdrop nn b) (acc ++ btake nn b) n (offset + nn) (Z.max pk n) B Hmax (eq_sym Hacc') Hfit ltac:(lia) ltac:(lia) ltac:(lia) HmB Hlen').
        destruct (rbi_loop f max (tl rs) (bdrop nn b) (acc ++ btake nn b) n (offset + nn) (Z.max pk n)); try exact IH.
        -- rewrite Hsplit. exact IH.
        -- destruct IH as (I1 & I2 & I3). repeat split; try assumption; lia.
      * specialize (IH max (tl rs) (bdrop nn b) (acc ++ btake nn b) dstlen (offset + nn) pk B Hmax (eq_sym Hacc') Hfit ltac:(lia) HdB HpB HmB Hlen').
        destruct (rbi_loop f max (tl rs) (bdrop nn b) (acc ++ btake nn b) dstlen (offset + nn) pk); try exact IH.
        -- rewrite Hsplit. exact IH.
        -- destruct IH as (I1 & I2 & I3). repeat split; try assumption; lia.
Qed.

Definition identityCap (cap0 : Z) : Z := if cap0 <=? 0 then identityInitialBuf else cap0.

(* identity mode, any split of the input into reads: the whole input or ErrBodyTooLarge; the
   buffer is never longer than max(limit + 1, the buffer it started with) *)
Theorem readBodyIdentity_spec max cap0 rs b : max > 0 ->
  match readBodyIdentity max cap0 rs b with
  | BOk d r p => d = b /\ r = [] /\ blen b <= max /\ p <= Z.max (max + 1) (identityCap cap0)
  | BErr e d p => e = EBodyTooLarge /\ blen b > max /\ p <= Z.max (max + 1) (identityCap cap0)
  | BPanic | BOutOfFuel => False
  end.
Proof.
  intros Hmax. unfold readBodyIdentity. fold (identityCap cap0).
  assert (Hc : 0 < identityCap cap0) by (unfold identityCap, identityInitialBuf; destruct (Z.leb_spec cap0 0); lia).
  pose proof (rbi_inv (S (length b)) max rs b [] (identityCap cap0) 0 (identityCap cap0) (Z.max (max + 1) (identityCap cap0))
                Hmax eq_refl ltac:(lia) Hc ltac:(lia) ltac:(lia) ltac:(lia) ltac:(lia)) as H.
  destruct (rbi_loop (S (length b)) max rs b [] (identityCap cap0) 0 (identityCap cap0)); try exact H.
  - destruct H as (H1 & H2 & H3 & H4). cbn [app] in H1. subst dst. repeat split; assumption.
Qed.

(* ---- whole-message readers ---- *)
Lemma after_trailer_body parseTr body r pk : 
  (forall d rest p, after_trailer parseTr body r pk = BOk d rest p -> d = body) /\
  bres_peak (after_trailer parseTr body r pk) = pk.
Proof.
  unfold after_trailer. destruct (readTrailer r) as [r'| | |blk r'].
  - split; [intros d rest p [= <- _ _]; reflexivity|reflexivity].
  - split; [discriminate|reflexivity].
  - split; [discriminate|reflexivity].
  - destruct (parseTr blk); (split; [try discriminate|reflexivity]). intros d rest p [= <- _ _]. reflexivity.
Qed.

Lemma readBody_peak cl L b : L > 0 -> bres_peak (readBody cl L [] b 0) <= L.
Proof.
  intros HL. unfold readBody. destruct (Z.gtb_spec L 0); [|lia]. cbn [andb].
  destruct (Z.gtb_spec cl L); [cbn; lia|]. unfold appendBodyFixedSize. change (blen []) with 0.
  destruct (cl =? 0); [cbn; lia|]. destruct (cl <? 0); [cbn; lia|]. destruct (0 + cl >? maxAlloc); [cbn; lia|].
  destruct (cl <=? blen b); cbn [bres_peak]; lia.
Qed.

Definition slack (cap0 : Z) (L : Z) : Z := Z.max (L + 2) (identityCap cap0).

Theorem respReadBody_bounded parseTr cl L cap0 rs b : L > 0 -> wf_bytes b ->
  (forall body rest p, respReadBody parseTr cl L cap0 rs b = BOk body rest p -> blen body <= L) /\
  bres_peak (respReadBody parseTr cl L cap0 rs b) <= slack cap0 L.
Proof.
  intros HL Hwf. unfold respReadBody, slack.
  assert (Hc : 0 < identityCap cap0) by (unfold identityCap, identityInitialBuf; destruct (Z.leb_spec cap0 0); lia).
  destruct (Z.geb_spec cl 0) as [Hcl|Hcl].
  - split.
    + intros body rest p E. apply readBody_bounded in E; [lia|exact HL].
    + pose proof (readBody_peak cl L b HL). lia.
  - destruct (Z.eqb_spec cl (-1)).
    + destruct (readBodyChunked_bounded L b HL Hwf) as [H1 H2].
      destruct (readBodyChunked L [] b) as [body r pk|e0 d pk| |] eqn:E.
      * destruct (after_trailer_body parseTr body r pk) as [A1 A2]. split.
        -- intros d rest p Ed. apply A1 in Ed as ->. eapply H1. reflexivity.
        -- rewrite A2. cbn [bres_peak] in H2. lia.
      * split; [discriminate|cbn [bres_peak] in *; lia].
      * split; [discriminate|cbn; lia].
      * split; [discriminate|cbn; lia].
    + pose proof (readBodyIdentity_spec L cap0 rs b HL) as H.
      destruct (readBodyIdentity L cap0 rs b) as [d r p|e d p| |]; try contradiction.
      * destruct H as (-> & _ & H3 & H4). split; [intros ? ? ? [= <- _ _]; exact H3|cbn [bres_peak]; lia].
      * destruct H as (_ & _ & H3). split; [discriminate|cbn [bres_peak]; lia].
Qed.

Theorem reqReadBody_bounded parseTr cl L b : L > 0 -> wf_bytes b ->
  (forall body rest p, reqReadBody parseTr cl L b = BOk body rest p -> blen body <= L) /\
  bres_peak (reqReadBody parseTr cl L b) <= slack 0 L.
Proof.
  intros HL Hwf. unfold reqReadBody.
  destruct ((cl >? 0) && (L >? 0) && (cl >? L)); [split; [discriminate|unfold slack; cbn [bres_peak]; lia]|].
  destruct (Z.eqb_spec cl (-2)); [split; [intros ? ? ? [= <- _ _]; change (blen []) with 0; lia|unfold slack; cbn [bres_peak]; lia]|].
  pose proof (respReadBody_bounded parseTr cl L 0 [] b HL Hwf) as H. unfold respReadBody in H. exact H.
Qed.

(* oversize bodies are rejected, never truncated *)
Theorem oversize_fixed parseTr cl L cap0 rs b : L > 0 -> cl > L ->
  reqReadBody parseTr cl L b = BErr EBodyTooLarge [] 0 /\ respReadBody parseTr cl L cap0 rs b = BErr EBodyTooLarge [] 0.
Proof.
  intros HL Hcl. unfold reqReadBody, respReadBody.
  destruct (Z.gtb_spec cl 0); [|lia]. destruct (Z.gtb_spec L 0); [|lia]. destruct (Z.gtb_spec cl L); [|lia].
  destruct (Z.geb_spec cl 0); [|lia]. split; [reflexivity|]. now apply readBody_oversize.
Qed.

Theorem oversize_identity parseTr cl L cap0 rs b : L > 0 -> cl < -1 -> blen b > L ->
  exists d p, respReadBody parseTr cl L cap0 rs b = BErr EBodyTooLarge d p.
Proof.
  intros HL Hcl Hb. unfold respReadBody. destruct (Z.geb_spec cl 0); [lia|]. destruct (Z.eqb_spec cl (-1)); [lia|].
  pose proof (readBodyIdentity_spec L cap0 rs b HL) as HI.
  destruct (readBodyIdentity L cap0 rs b) as [d r p|e d p| |]; try contradiction.
  - destruct HI as (_ & _ & H3 & _). lia.
  - destruct HI as (-> & _). eauto.
Qed.

Theorem oversize_chunked parseTr L cs elast rest : L > 0 -> L + 2 <= maxAlloc ->
  Forall chunk_good cs -> ext_good elast -> wf_bytes rest -> total cs > L ->
  exists d p, respReadBody parseTr (-1) L 0 [] (enc_chunks_ext cs elast ++ rest) = BErr EBodyTooLarge d p /\
              reqReadBody parseTr (-1) L (enc_chunks_ext cs elast ++ rest) = BErr EBodyTooLarge d p /\ blen d <= L.
Proof.
  intros HL Ha Hcs He Hr Ht. unfold respReadBody, reqReadBody. cbn [Z.geb Z.gtb Z.compare Z.eqb andb].
  unfold readBodyChunked. change (0 <? blen []) with false. cbv iota.
  destruct (rbc_enc_toolarge cs (S (length (enc_chunks_ext cs elast ++ rest))) L [] elast rest 0 Hcs He Hr ltac:(lia) HL
              ltac:(change (blen []) with 0; lia) ltac:(change (blen []) with 0; lia) Ha) as (d & p & E & Hd).
  rewrite E. exists d, p. repeat split; [exact Hd].
Qed.

(* ---- the plain encoder of Model/BodyWrite.v is the extension-free instance ---- *)
Definition noext (cs : list bytes) : list (bytes * bytes) := map (fun c => (c, [])) cs.
Lemma enc_chunks_noext cs : enc_chunks cs = enc_chunks_ext (noext cs) [].
Proof.
  unfold enc_chunks, enc_chunks_ext, enc_last, enc_last_ext, noext. cbn [app]. f_equal.
  induction cs as [|c cs IH]; cbn [map concat]; [reflexivity|]. rewrite IH. reflexivity.
Qed.
Lemma map_fst_noext cs : map fst (noext cs) = cs.
Proof. unfold noext. rewrite map_map. cbn [fst]. apply map_id. Qed.
Definition chunk_ok (c : bytes) : Prop := c <> [] /\ wf_bytes c /\ blen c < 16 ^ maxHexIntChars64.
Lemma noext_good cs : Forall chunk_ok cs -> Forall chunk_good (noext cs).
Proof.
  unfold noext. intros H. apply Forall_map. eapply Forall_impl; [|exact H].
  intros c (H1 & H2 & H3). unfold chunk_good. cbn [fst snd]. repeat split; try assumption. constructor.
Qed.
Lemma ext_good_nil : ext_good []. Proof. split; [constructor|exact I]. Qed.

(* C34: reading what the chunked writer wrote gives back the chunks, for every split of the
   body into chunks, with anything (the next message) behind it *)
Theorem chunked_codec cs L rest : Forall chunk_ok cs -> wf_bytes rest ->
  (L <= 0 \/ blen (concat cs) <= L) -> blen (concat cs) + 2 <= maxAlloc ->
  exists pk, readBodyChunked L [] (enc_chunks cs ++ rest) = BOk (concat cs) rest pk /\ pk <= blen (concat cs) + 2.
Proof.
  intros Hcs Hr HL Ha. rewrite enc_chunks_noext. unfold readBodyChunked. change (0 <? blen []) with false. cbv iota.
  assert (Ht : total (noext cs) = blen (concat cs)) by (unfold total; now rewrite map_fst_noext).
  destruct (rbc_enc (noext cs) (S (length (enc_chunks_ext (noext cs) [] ++ rest))) L [] [] rest 0
              (noext_good cs Hcs) ext_good_nil Hr ltac:(lia)
              ltac:(change (blen []) with 0; rewrite Ht; lia) ltac:(change (blen []) with 0; rewrite Ht; lia)) as (pk & E & Hpk).
  exists pk. rewrite E, map_fst_noext. split; [reflexivity|]. change (blen []) with 0 in Hpk. rewrite Ht in Hpk.
  pose proof (blen_nonneg (concat cs)). lia.
Qed.

(* the complete message (empty trailer section) through Request / Response body reading *)
Theorem chunked_message_codec parseTr cs L rest : Forall chunk_ok cs -> wf_bytes rest ->
  (L <= 0 \/ blen (concat cs) <= L) -> blen (concat cs) + 2 <= maxAlloc ->
  exists pk, reqReadBody parseTr (-1) L (enc_chunked_message cs ++ rest) = BOk (concat cs) rest pk /\
             respReadBody parseTr (-1) L 0 [] (enc_chunked_message cs ++ rest) = BOk (concat cs) rest pk.
Proof.
  intros Hcs Hr HL Ha. unfold enc_chunked_message. rewrite <- app_assoc.
  assert (Hr' : wf_bytes (strCRLF ++ rest)) by (apply wf_app; split; [rewrite strCRLF_eq; repeat constructor|exact Hr]).
  destruct (chunked_codec cs L (strCRLF ++ rest) Hcs Hr' HL Ha) as (pk & E & _).
  exists pk. unfold reqReadBody, respReadBody. cbn [Z.geb Z.gtb Z.compare Z.eqb andb]. rewrite E.
  unfold after_trailer, readTrailer. rewrite strCRLF_eq. cbn. split; reflexivity.
Qed.
