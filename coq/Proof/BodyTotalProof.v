(* C08 for the body readers of Model/Body.v: totality (no panic, no fuel exhaustion) under a
   positive limit, and "no over-read": what is consumed is exactly the framed body. *)
From Coq Require Import Lia ZifyBool ZifyN ZifyNat.
From FH Require Import Model.Base Gen.GenC30 Gen.GenC34 Model.Ints Spec.IntsSpec Proof.IntsProof Model.Body Model.BodyWrite
     Proof.BodyProof.
Open Scope Z_scope.

(* ------------------------------------------------------------------ *)
(* parseChunkSize looks at nothing behind the chunk-size line          *)
(* ------------------------------------------------------------------ *)
Lemma rhi_loop_local W maxc : forall b i n v c t, rhi_loop W maxc b i n = HOk v (c :: t) ->
  exists p, b = p ++ c :: t /\ forall t', rhi_loop W maxc (p ++ c :: t') i n = HOk v (c :: t').
Proof.
  induction b as [|x b IH]; intros i n v c t; cbn [rhi_loop].
  - destruct (i >? 0); discriminate.
  - destruct (Z.of_N (tbl hex2intTable x) =? 16) eqn:E16.
    + destruct (i =? 0) eqn:Ei; [discriminate|]. intros [= <- <- <-]. exists []. split; [reflexivity|].
      intros t'. cbn [app rhi_loop]. rewrite E16, Ei. reflexivity.
    + destruct (i >=? maxc) eqn:Em; [discriminate|]. intros H. apply IH in H as (p & -> & Hp).
      exists (x :: p). split; [reflexivity|]. intros t'. cbn [app rhi_loop]. rewrite E16, Em. apply Hp.
Qed.

Lemma pcs_loop_local : forall b e o r, pcs_loop b e o = Some r ->
  exists p t, b = p ++ CR :: t /\ r = CR :: t /\ forall t', pcs_loop (p ++ CR :: t') e o = Some (CR :: t').
Proof.
  induction b as [|x b IH]; intros e o r; cbn [pcs_loop]; [discriminate|].
  destruct (N.eqb_spec x CR) as [->|Hx].
  - intros [= <-]. exists [], b. split; [reflexivity|]. split; [reflexivity|]. intros t'. cbn [app pcs_loop]. now rewrite N.eqb_refl.
  - assert (Ex : (x =? CR)%N = false) by (apply N.eqb_neq; exact Hx).
    destruct (x =? LF)%N eqn:El; [discriminate|].
    destruct e.
    + intros H. apply IH in H as (p & t & -> & -> & Hp). exists (x :: p), t. split; [reflexivity|]. split; [reflexivity|].
      intros t'. cbn [app pcs_loop]. rewrite Ex, El. apply Hp.
    + destruct ((x =? SP)%N || (x =? HT)%N) eqn:Es.
      * intros H. apply IH in H as (p & t & -> & -> & Hp). exists (x :: p), t. split; [reflexivity|]. split; [reflexivity|].
        intros t'. cbn [app pcs_loop]. rewrite Ex, El, Es. apply Hp.
      * destruct (x =? SEMI)%N eqn:Esm; [|discriminate]. destruct o; [discriminate|].
        intros H. apply IH in H as (p & t & -> & -> & Hp). exists (x :: p), t. split; [reflexivity|]. split; [reflexivity|].
        intros t'. cbn [app pcs_loop]. rewrite Ex, El, Es, Esm. apply Hp.
Qed.

Theorem parseChunkSize_local b n r : parseChunkSize b = PCOk n r ->
  exists hdr, b = hdr ++ r /\ forall r', parseChunkSize (hdr ++ r') = PCOk n r'.
Proof.
  unfold parseChunkSize, readHexInt.
  destruct (rhi_loop 64 maxHexIntChars64 b 0 0) as [v r0|e] eqn:E0; [|destruct e; discriminate].
  destruct (pcs_loop r0 false false) as [r1|] eqn:E1; [|discriminate].
  destruct (readCrLf r1) as [r2|] eqn:E2; [|discriminate].
  intros [= <- <-].
  apply pcs_loop_local in E1 as (p1 & t1 & -> & -> & Hp1).
  (* r0 = p1 ++ CR :: t1 is not empty: the hex reader stopped at a non-hex byte *)
  assert (Hr0 : exists c t, p1 ++ CR :: t1 = c :: t) by (destruct p1; cbn; eauto).
  destruct Hr0 as (c & t & Hct). rewrite Hct in E0. apply rhi_loop_local in E0 as (p0 & -> & Hp0).
  cbn [readCrLf] in E2. rewrite N.eqb_refl in E2. destruct t1 as [|y t1]; [discriminate|].
  destruct (y =? LF)%N eqn:Ey; [|discriminate]. injection E2 as <-. apply N.eqb_eq in Ey. subst y.
  exists (p0 ++ p1 ++ [CR; LF]). split.
  - rewrite <- Hct. rewrite <- !app_assoc. reflexivity.
  - intros r'. rewrite <- !app_assoc. cbn [app].
    assert (Hct' : exists t'', p1 ++ CR :: LF :: r' = c :: t'' /\ forall z, p1 ++ CR :: z = c :: (match p1 with [] => z | _ :: q => q ++ CR :: z end)).
    { destruct p1 as [|q p1]; cbn in *; injection Hct as <- _; eexists; split; reflexivity. }
    destruct Hct' as (t'' & Ht'' & _). rewrite Ht''. rewrite Hp0. rewrite <- Ht''.
    rewrite Hp1. cbn [readCrLf]. rewrite !N.eqb_refl. reflexivity.
Qed.

(* ------------------------------------------------------------------ *)
(* the consumed prefix of a chunked body                               *)
(* ------------------------------------------------------------------ *)
(* pre is: chunk-size lines (as parseChunkSize accepts them, with their extensions), each followed by exactly
   that many data bytes and CRLF, ended by a size-0 line; body is the concatenation of the data *)
Inductive framed : bytes -> bytes -> Prop :=
| FLast hdr : parseChunkSize hdr = PCOk 0 [] -> framed hdr []
| FChunk hdr data more body :
    parseChunkSize hdr = PCOk (blen data) [] -> data <> [] -> framed more body ->
    framed (hdr ++ data ++ strCRLF ++ more) (data ++ body).

Lemma ends_crlf_split d : ends_crlf d = true -> (2 <= length d)%nat -> d = drop_last2 d ++ strCRLF.
Proof.
  unfold ends_crlf, drop_last2. intros H _. apply beq_eq in H. rewrite <- H. symmetry. apply firstn_skipn.
Qed.

Lemma rbc_framed : forall fuel max dst b pk d rest pk', wf_bytes b ->
  rbc_loop fuel max dst b pk = BOk d rest pk' ->
  exists pre body, b = pre ++ rest /\ d = dst ++ body /\ framed pre body.
Proof.
  induction fuel as [|f IH]; intros max dst b pk d rest pk' Hwf; cbn [rbc_loop]; [discriminate|].
  destruct (parseChunkSize b) as [n r|e] eqn:E; [|discriminate].
  destruct (parseChunkSize_facts b n r Hwf E) as [Hn Hwfr].
  destruct (parseChunkSize_local b n r E) as (hdr & -> & Hloc).
  pose proof (Hloc []) as Hh. rewrite app_nil_r in Hh.
  destruct (Z.eqb_spec n 0) as [->|Hnz].
  - intros [= <- <- _]. exists hdr, []. split; [reflexivity|]. split; [now rewrite app_nil_r|]. now constructor.
  - destruct ((max >? 0) && (blen dst + n >? max)); [discriminate|].
    destruct (appendBodyFixedSize r dst (n + blen strCRLF) pk) as [d1 r1 pk1| | |] eqn:EA; try discriminate.
    apply appendBodyFixedSize_ok in EA as (_ & Hle & -> & -> & _ & _). change (blen strCRLF) with 2 in *.
    destruct (ends_crlf (dst ++ btake (n + 2) r)) eqn:Ec; [|discriminate].
    intros H. apply IH in H; [|apply wf_bdrop; exact Hwfr]. destruct H as (pre' & body' & Hr1 & Hd & Hfr).
    (* the n+2 bytes taken are n data bytes and CRLF *)
    set (x := btake (n + 2) r) in *.
    assert (Hx : blen x = n + 2) by (apply blen_btake; lia).
    assert (Hxl : (2 <= length x)%nat) by (unfold blen in Hx; lia).
    assert (Hsplit : dst ++ x = (dst ++ drop_last2 x) ++ strCRLF /\ drop_last2 (dst ++ x) = dst ++ drop_last2 x).
    { assert (Hdl : drop_last2 (dst ++ x) = dst ++ drop_last2 x).
      { unfold drop_last2. rewrite app_length. replace (length dst + length x - 2)%nat with (length dst + (length x - 2))%nat by lia.
        rewrite firstn_app. replace (length dst + (length x - 2) - length dst)%nat with (length x - 2)%nat by lia.
        rewrite firstn_all2 by lia. reflexivity. }
      split; [|exact Hdl]. rewrite <- Hdl. apply ends_crlf_split; [exact Ec|rewrite app_length; lia]. }
    destruct Hsplit as [Hs1 Hs2]. rewrite Hs2 in Hd.
    assert (Hxd : x = drop_last2 x ++ strCRLF).
    { rewrite <- app_assoc in Hs1. apply app_inv_head in Hs1. exact Hs1. }
    set (data := drop_last2 x) in *.
    assert (Hdata : blen data = n).
    { assert (blen x = blen data + 2) by (rewrite Hxd at 1; rewrite blen_app; reflexivity). lia. }
    exists (hdr ++ data ++ strCRLF ++ pre'), (data ++ body'). split.
    + rewrite <- (btake_bdrop (n + 2) r) at 1. fold x. rewrite Hxd, Hr1. rewrite <- !app_assoc. reflexivity.
    + split; [rewrite Hd, <- app_assoc; reflexivity|]. constructor; [rewrite Hdata; exact Hh| |exact Hfr].
      intros E0. rewrite E0 in Hdata. change (blen []) with 0 in Hdata. lia.
Qed.

(* ------------------------------------------------------------------ *)
(* chunk sizes cannot make len(dst) + chunkSize wrap                   *)
(* ------------------------------------------------------------------ *)
Lemma hex_value_lt d : hex_value d < 16 ^ Z.of_nat (length d).
Proof.
  unfold hex_value.
  assert (H : forall k a, 0 <= a < 16 ^ k -> 0 <= k ->
            fold_left (fun a c => 16 * a + match hexdig c with Some x => x | None => 0 end) d a < 16 ^ (k + Z.of_nat (length d))).
  { induction d as [|c d IH]; intros k a Ha Hk; cbn [fold_left length].
    - rewrite Z.add_0_r. lia.
    - rewrite Nat2Z.inj_succ. replace (k + Z.succ (Z.of_nat (length d))) with ((k + 1) + Z.of_nat (length d)) by lia.
      apply IH; [|lia]. rewrite Z.pow_add_r by lia. change (16 ^ 1) with 16.
      destruct (hexdig c) eqn:E; [apply hexdig_range in E|]; lia. }
  specialize (H 0 0 ltac:(cbn; lia) ltac:(lia)). exact H.
Qed.

Theorem chunk_size_range b n r : wf_bytes b -> parseChunkSize b = PCOk n r -> 0 <= n < 2 ^ 60.
Proof.
  intros Hwf E. destruct (parseChunkSize_facts b n r Hwf E) as [Hn _]. split; [exact Hn|].
  unfold parseChunkSize in E.
  destruct (readHexInt 64 maxHexIntChars64 b) as [v r0|e] eqn:E0; [|destruct e; discriminate].
  destruct (pcs_loop r0 false false) as [r1|]; [|discriminate]. destruct (readCrLf r1) as [r2|]; [|discriminate]. injection E as <- _.
  rewrite (readhex_exact 64 maxHexIntChars64 b okWH64 Hwf) in E0.
  destruct (span_hex b) as [d rr]. destruct d as [|c d]; [destruct b; discriminate|].
  destruct (Z.gtb_spec (Z.of_nat (length (c :: d))) maxHexIntChars64); [discriminate|].
  injection E0 as <- _. pose proof (hex_value_lt (c :: d)) as Hlt.
  assert (16 ^ Z.of_nat (length (c :: d)) <= 16 ^ maxHexIntChars64) by (apply Z.pow_le_mono_r; lia).
  change (16 ^ maxHexIntChars64) with (2 ^ 60) in *. lia.
Qed.

(* ------------------------------------------------------------------ *)
(* totality under a positive limit                                     *)
(* ------------------------------------------------------------------ *)
Definition bad (r : bres) : Prop := r = BPanic \/ r = BOutOfFuel.

Lemma rbc_no_panic : forall fuel max dst b pk, max > 0 -> max + 2 <= maxAlloc -> wf_bytes b -> blen dst <= max ->
  rbc_loop fuel max dst b pk <> BPanic.
Proof.
  induction fuel as [|f IH]; intros max dst b pk Hmax Ha Hwf Hdst; cbn [rbc_loop]; [discriminate|].
  destruct (parseChunkSize b) as [n r|e] eqn:E; [|discriminate].
  destruct (parseChunkSize_facts b n r Hwf E) as [Hn Hwfr].
  destruct (Z.eqb_spec n 0); [discriminate|].
  destruct (Z.gtb_spec max 0); [|lia]. cbn [andb]. destruct (Z.gtb_spec (blen dst + n) max); [discriminate|].
  destruct (appendBodyFixedSize r dst (n + blen strCRLF) pk) as [d1 r1 pk1|e d1 pk1| |] eqn:EA; try discriminate.
  - apply appendBodyFixedSize_ok in EA as (_ & Hle & -> & -> & _ & _). change (blen strCRLF) with 2 in *.
    destruct (ends_crlf (dst ++ btake (n + 2) r)); [|discriminate].
    apply IH; try assumption; [apply wf_bdrop; exact Hwfr|].
    pose proof (blen_nonneg dst). rewrite blen_drop_last2; rewrite blen_app, blen_btake by lia; lia.
  - exfalso. unfold appendBodyFixedSize in EA. change (blen strCRLF) with 2 in *.
    destruct (Z.eqb_spec (n + 2) 0); [lia|]. destruct (Z.ltb_spec (n + 2) 0); [lia|].
    destruct (Z.gtb_spec (blen dst + (n + 2)) maxAlloc); [lia|]. destruct (n + 2 <=? blen r); discriminate.
Qed.

Lemma readBody_total cl L b : L > 0 -> L <= maxAlloc -> 0 <= cl -> ~ bad (readBody cl L [] b 0).
Proof.
  intros HL Ha Hcl [H|H]; unfold readBody, appendBodyFixedSize in H; change (blen []) with 0 in H;
    destruct (Z.gtb_spec L 0); try lia; cbn [andb] in H; destruct (Z.gtb_spec cl L); try discriminate;
    destruct (cl =? 0); try discriminate; destruct (Z.ltb_spec cl 0); try lia;
    destruct (Z.gtb_spec (0 + cl) maxAlloc); try lia; destruct (cl <=? blen b); discriminate.
Qed.

Lemma after_trailer_total parseTr body r pk : ~ bad (after_trailer parseTr body r pk).
Proof.
  unfold after_trailer. intros [H|H]; destruct (readTrailer r); try discriminate; destruct (parseTr block); discriminate.
Qed.

Theorem respReadBody_total parseTr cl L cap0 rs b : 0 < L -> L + 2 <= maxAlloc -> wf_bytes b ->
  ~ bad (respReadBody parseTr cl L cap0 rs b).
Proof.
  intros HL Ha Hwf. unfold respReadBody.
  destruct (Z.geb_spec cl 0); [apply readBody_total; lia|].
  destruct (Z.eqb_spec cl (-1)).
  - unfold readBodyChunked. change (0 <? blen []) with false. cbv iota.
    pose proof (rbc_no_panic (S (length b)) L [] b 0 ltac:(lia) Ha Hwf ltac:(change (blen []) with 0; lia)) as Hp.
    pose proof (rbc_loop_fuel (S (length b)) L [] b 0 ltac:(lia)) as Hf.
    destruct (rbc_loop (S (length b)) L [] b 0) as [d r p|e0 d p| |]; try congruence.
    + apply after_trailer_total.
    + intros [Hx|Hx]; discriminate.
  - pose proof (readBodyIdentity_spec L cap0 rs b ltac:(lia)) as HS.
    intros [Hb|Hb]; rewrite Hb in HS; exact HS.
Qed.

Theorem reqReadBody_total parseTr cl L b : 0 < L -> L + 2 <= maxAlloc -> wf_bytes b ->
  ~ bad (reqReadBody parseTr cl L b).
Proof.
  intros HL Ha Hwf. unfold reqReadBody.
  destruct ((cl >? 0) && (L >? 0) && (cl >? L)); [intros [H|H]; discriminate|].
  destruct (cl =? -2); [intros [H|H]; discriminate|].
  pose proof (respReadBody_total parseTr cl L 0 [] b HL Ha Hwf) as H. unfold respReadBody in H. exact H.
Qed.

(* ------------------------------------------------------------------ *)
(* no over-read                                                        *)
(* ------------------------------------------------------------------ *)
(* what was consumed in front of `rest`, by framing *)
Definition consumed_exactly (parseTr : trailer_parser) (cl : Z) (b body rest : bytes) : Prop :=
  if cl >=? 0 then b = body ++ rest /\ blen body = cl
  else if cl =? -1 then
    exists pre tr, b = pre ++ tr ++ rest /\ framed pre body /\
                   (tr = strCRLF \/ exists blk k, parseTr blk = Some k /\ tr = btake k blk)
  else body = b /\ rest = [].

Lemma after_trailer_consumed parseTr body r pk d rest p : after_trailer parseTr body r pk = BOk d rest p ->
  d = body /\ exists tr, r = tr ++ rest /\ (tr = strCRLF \/ exists blk k, parseTr blk = Some k /\ tr = btake k blk).
Proof.
  unfold after_trailer, readTrailer. destruct r as [|c1 r1]; [discriminate|].
  destruct (has_crlf_prefix (c1 :: r1)) eqn:Ep.
  - intros [= <- <- _]. split; [reflexivity|]. exists strCRLF. split; [|now left].
    destruct r1 as [|c2 r2]; [discriminate|]. cbn [has_crlf_prefix] in Ep. apply andb_true_iff in Ep as [E1 E2].
    apply N.eqb_eq in E1, E2. subst. reflexivity.
  - destruct (index_crlfcrlf (c1 :: r1) 0) as [i|]; [|discriminate].
    destruct (parseTr (btake (i + 4) (c1 :: r1))) as [k|] eqn:Ek; [|discriminate].
    intros [= <- <- _]. split; [reflexivity|]. exists (btake k (btake (i + 4) (c1 :: r1))). split.
    + rewrite app_assoc, btake_bdrop, btake_bdrop. reflexivity.
    + right. eauto.
Qed.

Theorem respReadBody_no_overread parseTr cl L cap0 rs b body rest pk : 0 < L -> wf_bytes b ->
  respReadBody parseTr cl L cap0 rs b = BOk body rest pk -> consumed_exactly parseTr cl b body rest.
Proof.
  intros HL Hwf. unfold respReadBody, consumed_exactly.
  destruct (Z.geb_spec cl 0).
  - unfold readBody. destruct ((L >? 0) && (cl >? L)); [discriminate|]. intros HX.
    apply appendBodyFixedSize_ok in HX as (_ & Hle & -> & -> & _ & _). cbn [app].
    split; [symmetry; apply btake_bdrop|apply blen_btake; lia].
  - destruct (Z.eqb_spec cl (-1)).
    + unfold readBodyChunked. change (0 <? blen []) with false. cbv iota.
      destruct (rbc_loop (S (length b)) L [] b 0) as [d r p|e0 d p| |] eqn:E; try discriminate.
      intros HX. apply after_trailer_consumed in HX as (-> & tr & -> & Htr).
      apply rbc_framed in E as (pre & body' & -> & Hd & Hfr); [|exact Hwf]. cbn [app] in Hd. subst body'.
      exists pre, tr. split; [reflexivity|]. split; [exact Hfr|exact Htr].
    + pose proof (readBodyIdentity_spec L cap0 rs b ltac:(lia)) as HS. intros HX. rewrite HX in HS.
      destruct HS as (-> & -> & _). split; reflexivity.
Qed.

Theorem reqReadBody_no_overread parseTr cl L b body rest pk : 0 < L -> wf_bytes b ->
  reqReadBody parseTr cl L b = BOk body rest pk ->
  if cl =? -2 then body = [] /\ rest = b else consumed_exactly parseTr cl b body rest.
Proof.
  intros HL Hwf. unfold reqReadBody.
  destruct ((cl >? 0) && (L >? 0) && (cl >? L)); [discriminate|].
  destruct (cl =? -2); [intros [= <- <- _]; split; reflexivity|].
  intros HX. apply (respReadBody_no_overread parseTr cl L 0 [] b body rest pk HL Hwf). unfold respReadBody. exact HX.
Qed.
