(* Proofs about Model/BodyWrite.v: on a healthy bufio.Writer the writers put exactly the
   stream's bytes on the wire (fixed size) or a chunked encoding of them (unknown size). *)
From Coq Require Import Lia ZifyBool ZifyN ZifyNat.
From FH Require Import Model.Base Gen.GenC30 Gen.GenC34 Model.Ints Spec.IntsSpec Proof.IntsProof
     Model.Body Model.BodyWrite Proof.BodyProof.
Open Scope Z_scope.

(* a bufio.Writer whose target never fails *)
Definition healthy (w : bw) : Prop :=
  bw_budget w < 0 /\ bw_err w = false /\ 0 < bw_size w /\ blen (bw_buf w) <= bw_size w.

Ltac fin := repeat split; try assumption; try reflexivity; try (change (blen []) with 0 in *; lia); try lia.

Lemma beq_nil_false (b : bytes) : b <> [] -> beq b [] = false.
Proof. destruct b; [congruence|reflexivity]. Qed.

Lemma bdrop_all (x : bytes) : bdrop (blen x) x = [].
Proof. unfold bdrop, blen. rewrite Nat2Z.id. apply skipn_all. Qed.

Lemma flush_healthy w : healthy w ->
  exists w', bw_flush w = (w', true) /\ healthy w' /\ bw_wire w' = bw_wire w /\ bw_buf w' = [] /\ bw_size w' = bw_size w.
Proof.
  intros (Hb & He & Hs & Hl). unfold bw_flush. rewrite He.
  destruct (bw_buf w) as [|c buf] eqn:Eb.
  - exists w. unfold healthy. rewrite He, Eb. fin.
  - unfold tgt_write. destruct (Z.ltb_spec (bw_budget w) 0); [|lia]. cbn [fst snd].
    eexists. split; [reflexivity|]. unfold healthy, bw_wire. cbn [bw_budget bw_err bw_size bw_buf bw_out].
    rewrite Eb. fin. now rewrite app_nil_r.
Qed.

Lemma write_healthy w p : healthy w ->
  exists w', bw_write w p = (w', true) /\ healthy w' /\ bw_wire w' = bw_wire w ++ p /\ bw_size w' = bw_size w.
Proof.
  intros Hw. pose proof Hw as (Hb & He & Hs & Hl). unfold bw_write.
  pose proof (blen_nonneg p) as Hp0. pose proof (blen_nonneg (bw_buf w)) as Hb0.
  destruct ((blen p >? bw_avail w) && negb (bw_err w) && negb (beq (bw_buf w) [])) eqn:C1.
  - (* top up and flush *)
    apply andb_true_iff in C1 as [C1 C1c]. apply andb_true_iff in C1 as [C1a C1b].
    set (n := bw_avail w).
    assert (Hn : 0 <= n <= blen p) by (subst n; unfold bw_avail in *; lia).
    set (wf := mkBW (bw_size w) (bw_buf w ++ btake n p) (bw_out w) (bw_budget w) (bw_err w)).
    assert (Hwf : healthy wf).
    { unfold healthy, wf. cbn [bw_budget bw_err bw_size bw_buf]. repeat split; try assumption.
      rewrite blen_app, blen_btake by lia. subst n. unfold bw_avail. lia. }
    destruct (flush_healthy wf Hwf) as (w1 & E1 & Hw1 & Wire1 & Buf1 & Sz1). rewrite E1. cbn [fst].
    assert (Hav1 : bw_avail w1 = bw_size w) by (unfold bw_avail; rewrite Buf1, Sz1; change (blen []) with 0; unfold wf; cbn; lia).
    pose proof Hw1 as (Hb1 & He1 & Hs1 & Hl1).
    assert (Hp1 : blen (bdrop n p) = blen p - n).
    { rewrite <- (btake_bdrop n p) at 2. rewrite blen_app, blen_btake by lia. lia. }
    assert (Hwire1 : bw_wire w1 = bw_wire w ++ btake n p).
    { rewrite Wire1. unfold bw_wire, wf. cbn [bw_out bw_buf]. now rewrite app_assoc. }
    destruct ((blen (bdrop n p) >? bw_avail w1) && negb (bw_err w1)) eqn:C2.
    + (* the rest is large: straight to the target *)
      unfold tgt_write. destruct (Z.ltb_spec (bw_budget w1) 0); [|lia]. cbn [bw_size bw_buf bw_out bw_budget bw_err].
      rewrite bdrop_all. cbn [bw_err]. rewrite app_nil_r.
      eexists. split; [reflexivity|]. unfold healthy, bw_wire. cbn [bw_budget bw_err bw_size bw_buf bw_out].
      rewrite Buf1. repeat split; try assumption; try (change (blen []) with 0; lia);
        try (unfold wf in Sz1; cbn in Sz1; exact Sz1).
      rewrite app_nil_r. unfold bw_wire in Hwire1. rewrite Buf1, app_nil_r in Hwire1. rewrite Hwire1.
      rewrite <- (app_assoc _ (btake n p)). now rewrite btake_bdrop.
    + rewrite He1. eexists. split; [reflexivity|]. unfold healthy, bw_wire. cbn [bw_budget bw_err bw_size bw_buf bw_out].
      rewrite Buf1. cbn [app]. rewrite He1 in C2. rewrite andb_true_r in C2. destruct (Z.gtb_spec (blen (bdrop n p)) (bw_avail w1)); [discriminate|].
      repeat split; try assumption; try lia; try (unfold wf in Sz1; cbn in Sz1; exact Sz1);
        try (unfold wf in Sz1; cbn in Sz1; lia).
      unfold bw_wire in Hwire1. rewrite Buf1, app_nil_r in Hwire1. rewrite Hwire1.
      rewrite <- (app_assoc _ (btake n p)). now rewrite btake_bdrop.
  - (* no top-up *)
    destruct ((blen p >? bw_avail w) && negb (bw_err w)) eqn:C2.
    + (* empty buffer, large write *)
      cbn [andb] in C1. apply negb_false_iff in C1. apply beq_eq in C1.
      unfold tgt_write. destruct (Z.ltb_spec (bw_budget w) 0); [|lia]. cbn [bw_size bw_buf bw_out bw_budget bw_err].
      rewrite bdrop_all. cbn [bw_err]. rewrite app_nil_r.
      eexists. split; [reflexivity|]. unfold healthy, bw_wire. cbn [bw_budget bw_err bw_size bw_buf bw_out].
      rewrite C1. repeat split; try assumption; try (change (blen []) with 0; lia). now rewrite !app_nil_r.
    + rewrite He. eexists. split; [reflexivity|]. unfold healthy, bw_wire. cbn [bw_budget bw_err bw_size bw_buf bw_out].
      rewrite He in C2. rewrite andb_true_r in C2. destruct (Z.gtb_spec (blen p) (bw_avail w)); [discriminate|].
      repeat split; try assumption.
      * rewrite blen_app. unfold bw_avail in *. lia.
      * now rewrite app_assoc.
Qed.

(* ---- writeChunk ---- *)
Lemma hex_of_some n : 0 <= n < 16 ^ maxHexIntChars64 -> writeHexInt maxHexIntChars64 n = Some (hex_of n).
Proof.
  intros Hn. destruct (hex_roundtrip 64 maxHexIntChars64 n okWH64 Hn) as (d & Hd & _). unfold hex_of. now rewrite Hd.
Qed.

Lemma writeChunk_healthy w b : healthy w -> blen b < 16 ^ maxHexIntChars64 ->
  exists w', writeChunk w b = (w', WOk) /\ healthy w' /\ bw_size w' = bw_size w /\
             bw_wire w' = bw_wire w ++ (match b with [] => enc_last | _ => enc_chunk b end).
Proof.
  intros Hw Hb. pose proof (blen_nonneg b) as Hb0. unfold writeChunk. rewrite (hex_of_some (blen b)) by lia.
  destruct (write_healthy w (hex_of (blen b)) Hw) as (w1 & E1 & H1 & W1 & S1). rewrite E1. cbn [negb].
  destruct (write_healthy w1 strCRLF H1) as (w2 & E2 & H2 & W2 & S2). rewrite E2. cbn [negb].
  destruct (write_healthy w2 b H2) as (w3 & E3 & H3 & W3 & S3). rewrite E3. cbn [negb].
  destruct b as [|c b'] eqn:Eb.
  - change (blen [] >? 0) with false. cbv iota. cbn [negb].
    destruct (flush_healthy w3 H3) as (w5 & E5 & H5 & W5 & _ & S5). rewrite E5.
    exists w5. split; [reflexivity|]. split; [exact H5|]. split; [congruence|].
    rewrite W5, W3, W2, W1. unfold enc_last. change (blen []) with 0. rewrite app_nil_r, <- app_assoc. reflexivity.
  - rewrite <- Eb in *. assert (Hpos : blen b >? 0 = true) by (rewrite Eb, blen_cons; pose proof (blen_nonneg b'); lia).
    rewrite Hpos.
    destruct (write_healthy w3 strCRLF H3) as (w4 & E4 & H4 & W4 & S4). rewrite E4. cbn [negb].
    destruct (flush_healthy w4 H4) as (w5 & E5 & H5 & W5 & _ & S5). rewrite E5.
    exists w5. split; [reflexivity|]. split; [exact H5|]. split; [congruence|].
    rewrite W5, W4, W3, W2, W1. unfold enc_chunk. rewrite <- !app_assoc. reflexivity.
Qed.

(* ---- fault-free streams ---- *)
Definition data_op (o : rdop) : Prop := match o with OData _ | ODataEOF _ => True | _ => False end.
Definition quiet_op (o : rdop) : Prop := match o with OData _ | ODataEOF _ | OZero => True | _ => False end.

Lemma sread_quiet s c : 0 < c -> Forall quiet_op (ss_script s) ->
  match sread s c with
  | (RdOk p eof, s') =>
      ss_data s = p ++ ss_data s' /\ Forall quiet_op (ss_script s') /\ blen p <= c /\
      (p = [] -> eof = false -> (length (ss_script s') < length (ss_script s))%nat /\ ss_data s' = ss_data s) /\
      (p = [] -> eof = true -> ss_data s = []) /\
      (p <> [] -> (length (ss_data s') + length (ss_script s') < length (ss_data s) + length (ss_script s))%nat) /\
      (Forall data_op (ss_script s) -> Forall data_op (ss_script s') /\ (ss_data s <> [] -> p <> []))
  | _ => False
  end.
Proof.
  intros Hc Hq. destruct s as [d sc]. unfold sread. cbn [ss_data ss_script] in *.
  assert (Hstep : forall n, 1 <= n <= blen d ->
            d = btake n d ++ bdrop n d /\ blen (btake n d) = n /\ btake n d <> [] /\ (length (bdrop n d) < length d)%nat).
  { intros n Hn. split; [now rewrite btake_bdrop|]. split; [apply blen_btake; lia|]. split.
    - intros E. pose proof (blen_btake n d ltac:(lia)) as Hl. rewrite E in Hl. change (blen []) with 0 in Hl. lia.
    - apply length_bdrop_lt; [lia|]. intros ->. change (blen []) with 0 in Hn. lia. }
  assert (Hdpos : d <> [] -> 1 <= blen d).
  { destruct d as [|x d']; [congruence|]. intros _. rewrite blen_cons. pose proof (blen_nonneg d'). lia. }
  Ltac sq := cbn [ss_data ss_script length app]; repeat split; intros; subst;
             try congruence; try (change (blen []) with 0; lia); try lia; try assumption; try constructor;
             try (match goal with H : Forall _ (_ :: _) |- _ => inversion H; subst; assumption end);
             try (match goal with H : Forall data_op (OZero :: _) |- _ => inversion H; subst; contradiction end).
  destruct sc as [|o sc].
  - destruct d as [|x d'] eqn:Ed; [sq|]. rewrite <- Ed in *.
    assert (Hne : d <> []) by (rewrite Ed; discriminate). specialize (Hdpos Hne).
    destruct (Hstep (Z.min c (blen d)) ltac:(lia)) as (S1 & S2 & S3 & S4). sq.
  - inversion Hq as [|? ? Ho Hq']; subst.
    destruct o; try contradiction.
    + destruct d as [|x d'] eqn:Ed; [sq|]. rewrite <- Ed in *.
      assert (Hne : d <> []) by (rewrite Ed; discriminate). specialize (Hdpos Hne).
      destruct (Hstep (Z.min (Z.max k 1) (Z.min c (blen d))) ltac:(lia)) as (S1 & S2 & S3 & S4). sq.
    + destruct d as [|x d'] eqn:Ed; [sq|]. rewrite <- Ed in *.
      assert (Hne : d <> []) by (rewrite Ed; discriminate). specialize (Hdpos Hne).
      destruct (Hstep (Z.min (Z.max k 1) (Z.min c (blen d))) ltac:(lia)) as (S1 & S2 & S3 & S4). sq.
    + sq.
Qed.

(* ---- writeBodyChunked ---- *)
Definition piece_ok (c : bytes) : Prop := c <> [] /\ blen c <= copyBufSize.

Lemma copybuf_lt_hex : copyBufSize < 16 ^ maxHexIntChars64.
Proof. vm_compute. reflexivity. Qed.
Lemma zero_lt_hex : blen [] < 16 ^ maxHexIntChars64.
Proof. vm_compute. reflexivity. Qed.

Lemma enc_chunks_cons c cs : enc_chunks (c :: cs) = enc_chunk c ++ enc_chunks cs.
Proof. unfold enc_chunks. cbn [map concat]. now rewrite app_assoc. Qed.

Lemma wbc_quiet : forall fuel w s, healthy w -> Forall quiet_op (ss_script s) ->
  (length (ss_data s) + length (ss_script s) < fuel)%nat ->
  exists w' s' cs, wbc_loop fuel w s = (w', s', WOk) /\ healthy w' /\ bw_size w' = bw_size w /\
    concat cs = ss_data s /\ Forall piece_ok cs /\ bw_wire w' = bw_wire w ++ enc_chunks cs /\ ss_data s' = [].
Proof.
  induction fuel as [|f IH]; intros w s Hw Hq Hf; [lia|]. cbn [wbc_loop].
  pose proof (sread_quiet s copyBufSize ltac:(unfold copyBufSize; lia) Hq) as HS.
  destruct (sread s copyBufSize) as [[p eof| |] s1]; try contradiction.
  destruct HS as (Hd & Hq1 & Hlen & Hz & He & Hnz & _).
  destruct p as [|x p'].
  - destruct eof.
    + (* EOF: the last-chunk line *)
      destruct (writeChunk_healthy w [] Hw zero_lt_hex) as (w' & E & Hw' & Sz & Wire).
      rewrite E. exists w', s1, []. split; [reflexivity|]. split; [exact Hw'|]. split; [exact Sz|].
      specialize (He eq_refl eq_refl). split; [now rewrite He|]. split; [constructor|]. split; [exact Wire|].
      rewrite He in Hd. cbn [app] in Hd. now rewrite <- Hd.
    + destruct (Hz eq_refl eq_refl) as [Hsc Hsame].
      destruct (IH w s1 Hw Hq1 ltac:(rewrite Hsame; lia)) as (w' & s' & cs & E & R). rewrite E.
      exists w', s', cs. rewrite <- Hsame. split; [reflexivity|exact R].
  - set (p := x :: p') in *. assert (Hp : p <> []) by (subst p; discriminate). specialize (Hnz Hp).
    assert (Hlt : blen p < 16 ^ maxHexIntChars64) by (pose proof copybuf_lt_hex; lia).
    destruct (writeChunk_healthy w p Hw Hlt) as (w1 & E1 & Hw1 & Sz1 & Wire1).
    assert (Ematch : (let '(w', r) := writeChunk w p in match r with WOk => wbc_loop f w' s1 | _ => (w', s1, r) end) = wbc_loop f w1 s1)
      by (rewrite E1; reflexivity).
    subst p. rewrite Ematch.
    destruct (IH w1 s1 Hw1 Hq1 ltac:(lia)) as (w' & s' & cs & E & Hw' & Sz & Hc & Hcs & Wire & Hfin). rewrite E.
    exists w', s', ((x :: p') :: cs). split; [reflexivity|]. split; [exact Hw'|]. split; [congruence|].
    split; [cbn [concat]; rewrite Hc; symmetry; exact Hd|]. split; [constructor; [split; [discriminate|exact Hlen]|exact Hcs]|].
    split; [|exact Hfin]. rewrite Wire, Wire1, enc_chunks_cons. cbn [bw_wire]. now rewrite <- app_assoc.
Qed.

(* unknown size: whatever the read sizes, a healthy writer emits a chunked encoding of the stream's bytes *)
Theorem writeBodyChunked_wire k w s : healthy w -> Forall quiet_op (ss_script s) ->
  blen (ss_data s) < 16 ^ maxHexIntChars64 -> (k = KBytesReader -> ss_script s = []) ->
  exists w' s' cs, writeBodyChunked k w s = (w', s', WOk) /\ healthy w' /\ bw_size w' = bw_size w /\
    concat cs = ss_data s /\ Forall (fun c => c <> []) cs /\ bw_wire w' = bw_wire w ++ enc_chunks cs.
Proof.
  intros Hw Hq Hlen Hk. destruct k.
  - cbn [writeBodyChunked]. destruct (wbc_quiet (sfuel s) w s Hw Hq ltac:(unfold sfuel; lia)) as (w' & s' & cs & E & Hw' & Sz & Hc & Hcs & Wire & _).
    exists w', s', cs. split; [exact E|]. split; [exact Hw'|]. split; [exact Sz|]. split; [exact Hc|]. split; [|exact Wire].
    eapply Forall_impl; [|exact Hcs]. intros c [Hc1 _]. exact Hc1.
  - cbn [writeBodyChunked]. destruct (ss_data s) as [|x d] eqn:Ed.
    + destruct (writeChunk_healthy w [] Hw zero_lt_hex) as (w' & E & Hw' & Sz & Wire).
      rewrite E. exists w', (mkSS [] (ss_script s)), []. split; [reflexivity|]. split; [exact Hw'|]. split; [exact Sz|].
      split; [reflexivity|]. split; [constructor|exact Wire].
    + rewrite <- Ed in *. assert (Hne : ss_data s <> []) by (rewrite Ed; discriminate).
      destruct (writeChunk_healthy w (ss_data s) Hw Hlen) as (w1 & E1 & Hw1 & Sz1 & Wire1).
      destruct (writeChunk_healthy w1 [] Hw1 zero_lt_hex) as (w2 & E2 & Hw2 & Sz2 & Wire2).
      rewrite Ed in E1 |- *. rewrite E1, E2. rewrite <- Ed in *.
      exists w2, (mkSS [] (ss_script s)), [ss_data s]. split; [reflexivity|]. split; [exact Hw2|]. split; [congruence|].
      split; [cbn; apply app_nil_r|]. split; [constructor; [exact Hne|constructor]|].
      rewrite Wire2, Wire1. rewrite Ed. unfold enc_chunks. cbn [map concat]. rewrite app_nil_r, <- app_assoc. reflexivity.
Qed.

(* ---- writeBodyFixedSize ---- *)
Lemma sread_eof_done s c p s' : sread s c = (RdOk p true, s') -> ss_data s' = [].
Proof.
  destruct s as [d sc]. unfold sread. cbn [ss_data ss_script].
  destruct sc as [|o sc].
  - destruct d; [intros [= _ <-]; reflexivity|discriminate].
  - destruct o; try discriminate.
    + destruct d; [intros [= _ <-]; reflexivity|discriminate].
    + destruct d as [|x d'] eqn:Ed; [intros [= _ <-]; reflexivity|]. rewrite <- Ed.
      intros [= _ He <-]. cbn [ss_data]. apply Z.eqb_eq in He. rewrite <- He. apply bdrop_all.
Qed.

Lemma healthy_avail w : healthy w -> 0 <= bw_avail w.
Proof. intros (_ & _ & _ & H). unfold bw_avail. lia. Qed.

Lemma rf_data : forall fuel w s n, healthy w -> Forall data_op (ss_script s) ->
  (length (ss_data s) + length (ss_script s) + 1 < fuel)%nat ->
  exists w' s', rf_loop fuel w s (Some (blen (ss_data s))) n 0 = (w', s', n + blen (ss_data s), WOk) /\
    healthy w' /\ bw_size w' = bw_size w /\ bw_wire w' = bw_wire w ++ ss_data s /\ ss_data s' = [] /\
    Forall data_op (ss_script s').
Proof.
  induction fuel as [|f IH]; intros w s n Hw Hq Hf; [lia|]. cbn [rf_loop].
  (* the flush that makes room *)
  assert (Hroom : exists w0, (if bw_avail w =? 0 then bw_flush w else (w, true)) = (w0, true) /\ healthy w0 /\
                             bw_size w0 = bw_size w /\ bw_wire w0 = bw_wire w /\ 0 < bw_avail w0).
  { destruct (Z.eqb_spec (bw_avail w) 0) as [Hz|Hnz].
    - destruct (flush_healthy w Hw) as (w0 & E & Hw0 & Wire & Buf & Sz). exists w0. rewrite E.
      repeat split; try apply Hw0; try assumption. unfold bw_avail. rewrite Buf, Sz. change (blen []) with 0. destruct Hw as (_ & _ & Hs & _). lia.
    - exists w. pose proof (healthy_avail w Hw). repeat split; try apply Hw; lia. }
  destruct Hroom as (w0 & E0 & Hw0 & Sz0 & Wire0 & Hav). rewrite E0. cbn [negb].
  assert (Hquiet : Forall quiet_op (ss_script s)) by (eapply Forall_impl; [|exact Hq]; intros o; destruct o; cbn; tauto).
  unfold lread. destruct (Z.leb_spec (blen (ss_data s)) 0) as [Hemp|Hne].
  - (* the limit is used up: io.EOF without reading the stream *)
    assert (Hd : ss_data s = []) by (destruct (ss_data s) as [|x d]; [reflexivity|rewrite blen_cons in Hemp; pose proof (blen_nonneg d); lia]).
    rewrite app_nil_r. assert (Hw0' : mkBW (bw_size w0) (bw_buf w0) (bw_out w0) (bw_budget w0) (bw_err w0) = w0) by (destruct w0; reflexivity).
    rewrite Hw0'. destruct (Z.eqb_spec (bw_avail w0) 0); [lia|].
    exists w0, s. rewrite Hd. change (blen []) with 0. rewrite Z.add_0_r, app_nil_r.
    split; [reflexivity|]. split; [exact Hw0|]. split; [exact Sz0|]. split; [exact Wire0|]. split; [reflexivity|exact Hq].
  - set (c := Z.min (bw_avail w0) (blen (ss_data s))). assert (Hc : 0 < c) by (subst c; lia).
    pose proof (sread_quiet s c Hc Hquiet) as HS. pose proof (sread_eof_done s c) as HE.
    destruct (sread s c) as [[p eof| |] s1]; try contradiction.
    destruct HS as (Hd & Hq1 & Hlen & _ & _ & Hnz & Hdata). destruct (Hdata Hq) as [Hq1' Hpne].
    assert (Hsne : ss_data s <> []) by (intros E; rewrite E in Hne; change (blen []) with 0 in Hne; lia).
    specialize (Hpne Hsne). specialize (Hnz Hpne).
    destruct p as [|x p']; [congruence|]. set (p := x :: p') in *.
    assert (Hbl : blen (ss_data s) = blen p + blen (ss_data s1)) by (rewrite Hd at 1; apply blen_app).
    set (w1 := mkBW (bw_size w0) (bw_buf w0 ++ p) (bw_out w0) (bw_budget w0) (bw_err w0)).
    assert (Hw1 : healthy w1).
    { destruct Hw0 as (A & B & C & D). unfold healthy, w1. cbn [bw_budget bw_err bw_size bw_buf].
      repeat split; try assumption. rewrite blen_app. unfold bw_avail in *. lia. }
    assert (Wire1 : bw_wire w1 = bw_wire w ++ p).
    { unfold bw_wire, w1. cbn [bw_out bw_buf]. rewrite app_assoc. unfold bw_wire in Wire0. now rewrite Wire0. }
    destruct eof.
    + specialize (HE p s1 eq_refl). rewrite HE in Hbl, Hd. change (blen []) with 0 in Hbl. rewrite app_nil_r in Hd.
      destruct (Z.eqb_spec (bw_avail w1) 0).
      * destruct (flush_healthy w1 Hw1) as (w2 & E2 & Hw2 & Wire2 & _ & Sz2). rewrite E2.
        exists w2, s1. split; [f_equal; f_equal; lia|]. split; [exact Hw2|]. split; [rewrite Sz2; exact Sz0|].
        split; [rewrite Wire2, Wire1, Hd; reflexivity|]. split; [exact HE|exact Hq1'].
      * exists w1, s1. split; [f_equal; f_equal; lia|]. split; [exact Hw1|]. split; [exact Sz0|].
        split; [rewrite Wire1, Hd; reflexivity|]. split; [exact HE|exact Hq1'].
    + replace (blen (ss_data s) - blen p) with (blen (ss_data s1)) by lia.
      destruct (IH w1 s1 (n + blen p) Hw1 Hq1' ltac:(lia)) as (w' & s' & E & Hw' & Sz & Wire & Hfin & Hq').
      rewrite E. exists w', s'. split; [f_equal; f_equal; lia|]. split; [exact Hw'|]. split; [rewrite Sz; exact Sz0|].
      split; [rewrite Wire, Wire1, Hd, <- app_assoc; reflexivity|]. split; [exact Hfin|exact Hq'].
Qed.

(* declared size = what the stream yields: exactly the stream's bytes reach the wire *)
Theorem writeBodyFixedSize_wire k w s : healthy w -> Forall data_op (ss_script s) -> (k = KBytesReader -> ss_script s = []) ->
  exists w' s', writeBodyFixedSize k w s (blen (ss_data s)) = (w', s', WOk) /\ healthy w' /\ bw_size w' = bw_size w /\
                bw_wire w' = bw_wire w ++ ss_data s.
Proof.
  intros Hw Hq Hk. unfold writeBodyFixedSize. destruct k.
  - cbn [copyBodyStream]. unfold bw_readfrom. pose proof Hw as (_ & B & _). rewrite B.
    destruct (rf_data (S (sfuel s)) w s 0 Hw Hq ltac:(unfold sfuel; lia)) as (w' & s' & E & Hw' & Sz & Wire & Hfin & Hq').
    rewrite E. cbn [Z.add]. rewrite Z.eqb_refl. cbn [negb].
    assert (Hquiet : Forall quiet_op (ss_script s')) by (eapply Forall_impl; [|exact Hq']; intros o; destruct o; cbn; tauto).
    pose proof (sread_quiet s' 1 ltac:(lia) Hquiet) as HS.
    destruct (sread s' 1) as [[p eof| |] s2]; try contradiction.
    destruct HS as (Hd & _). rewrite Hfin in Hd. destruct p as [|x p']; [|discriminate].
    exists w', s2. split; [reflexivity|]. split; [exact Hw'|]. split; [exact Sz|exact Wire].
  - cbn [copyBodyStream]. destruct (ss_data s) as [|x d] eqn:Ed.
    + exists w, (mkSS [] (ss_script s)). change (blen []) with 0. cbn. split; [reflexivity|]. split; [exact Hw|]. split; [reflexivity|].
      now rewrite app_nil_r.
    + rewrite <- Ed. destruct (write_healthy w (ss_data s) Hw) as (w1 & E1 & Hw1 & Wire1 & Sz1). rewrite E1.
      rewrite Z.eqb_refl. cbn [negb]. exists w1, (mkSS [] (ss_script s)). split; [reflexivity|]. split; [exact Hw1|]. split; [exact Sz1|exact Wire1].
Qed.

(* ---- Response.writeBodyStream / Request.writeBodyStream on a healthy connection ---- *)
Lemma bw_new_healthy size : 0 < size -> healthy (bw_new size (-1)).
Proof. intros H. unfold healthy, bw_new. cbn. change (blen []) with 0. lia. Qed.

Theorem wire_fixed k size hdr trailer flush s : 0 < size -> Forall data_op (ss_script s) ->
  (k = KBytesReader -> ss_script s = []) ->
  let out := respWriteBodyStream k hdr trailer (blen (ss_data s)) true flush (bw_new size (-1)) s in
  ws_res out = WOk /\ ws_closed out = true /\ bw_wire (ws_w out) = hdr ++ ss_data s.
Proof.
  intros Hs Hq Hk. unfold respWriteBodyStream.
  destruct (write_healthy _ hdr (bw_new_healthy size Hs)) as (w1 & E1 & Hw1 & Wire1 & _). rewrite E1. cbn [negb].
  assert (Hfl : exists w2, (if flush then bw_flush w1 else (w1, true)) = (w2, true) /\ healthy w2 /\ bw_wire w2 = hdr).
  { destruct flush.
    - destruct (flush_healthy w1 Hw1) as (w2 & E2 & Hw2 & Wire2 & _). exists w2. split; [exact E2|]. split; [exact Hw2|]. now rewrite Wire2, Wire1.
    - exists w1. split; [reflexivity|]. split; [exact Hw1|exact Wire1]. }
  destruct Hfl as (w2 & E2 & Hw2 & Wire2). rewrite E2. cbn [negb].
  pose proof (blen_nonneg (ss_data s)). destruct (Z.geb_spec (blen (ss_data s)) 0); [|lia].
  destruct (writeBodyFixedSize_wire k w2 s Hw2 Hq Hk) as (w3 & s3 & E3 & Hw3 & _ & Wire3). rewrite E3.
  cbn [ws_res ws_closed ws_w]. repeat split. now rewrite Wire3, Wire2.
Qed.

Theorem wire_chunked k size hdr trailer cl flush s : 0 < size -> cl < 0 -> Forall quiet_op (ss_script s) ->
  blen (ss_data s) < 16 ^ maxHexIntChars64 -> (k = KBytesReader -> ss_script s = []) ->
  let out := respWriteBodyStream k hdr trailer cl true flush (bw_new size (-1)) s in
  ws_res out = WOk /\ ws_closed out = true /\
  exists cs, concat cs = ss_data s /\ Forall (fun c => c <> []) cs /\ bw_wire (ws_w out) = hdr ++ enc_chunks cs ++ trailer.
Proof.
  intros Hs Hcl Hq Hlen Hk. unfold respWriteBodyStream.
  destruct (write_healthy _ hdr (bw_new_healthy size Hs)) as (w1 & E1 & Hw1 & Wire1 & _). rewrite E1. cbn [negb].
  assert (Hfl : exists w2, (if flush then bw_flush w1 else (w1, true)) = (w2, true) /\ healthy w2 /\ bw_wire w2 = hdr).
  { destruct flush.
    - destruct (flush_healthy w1 Hw1) as (w2 & E2 & Hw2 & Wire2 & _). exists w2. split; [exact E2|]. split; [exact Hw2|]. now rewrite Wire2, Wire1.
    - exists w1. split; [reflexivity|]. split; [exact Hw1|exact Wire1]. }
  destruct Hfl as (w2 & E2 & Hw2 & Wire2). rewrite E2. cbn [negb].
  destruct (Z.geb_spec cl 0); [lia|].
  destruct (writeBodyChunked_wire k w2 s Hw2 Hq Hlen Hk) as (w3 & s3 & cs & E3 & Hw3 & _ & Hc & Hne & Wire3). rewrite E3.
  destruct (write_healthy w3 trailer Hw3) as (w4 & E4 & Hw4 & Wire4 & _). rewrite E4.
  cbn [ws_res ws_closed ws_w]. split; [reflexivity|]. split; [reflexivity|].
  exists cs. split; [exact Hc|]. split; [exact Hne|]. rewrite Wire4, Wire3, Wire2. now rewrite <- app_assoc.
Qed.

(* what the peer then decodes *)
Lemma chunks_ok_of_data cs data : concat cs = data -> Forall (fun c => c <> []) cs -> wf_bytes data ->
  blen data < 16 ^ maxHexIntChars64 -> Forall chunk_ok cs.
Proof.
  intros <-. induction cs as [|c cs IH]; intros Hne Hwf Hlen; [constructor|].
  inversion Hne as [|? ? Hc Hne']; subst. cbn [concat] in *. apply wf_app in Hwf as [Hw1 Hw2].
  rewrite blen_app in Hlen. pose proof (blen_nonneg c). pose proof (blen_nonneg (concat cs)).
  constructor; [repeat split; [exact Hc|exact Hw1|lia]|]. apply IH; [exact Hne'|exact Hw2|lia].
Qed.

Theorem chunked_stream_roundtrip k size hdr cl flush s rest parseTr : 0 < size -> cl < 0 ->
  Forall quiet_op (ss_script s) -> (k = KBytesReader -> ss_script s = []) ->
  wf_bytes (ss_data s) -> wf_bytes rest -> blen (ss_data s) + 2 <= maxAlloc ->
  let out := respWriteBodyStream k hdr strCRLF cl true flush (bw_new size (-1)) s in
  exists wire_body pk, bw_wire (ws_w out) = hdr ++ wire_body /\
    respReadBody parseTr (-1) 0 0 [] (wire_body ++ rest) = BOk (ss_data s) rest pk /\
    reqReadBody parseTr (-1) 0 (wire_body ++ rest) = BOk (ss_data s) rest pk.
Proof.
  intros Hs Hcl Hq Hk Hwf Hr Ha.
  assert (Hlen : blen (ss_data s) < 16 ^ maxHexIntChars64).
  { assert (maxAlloc < 16 ^ maxHexIntChars64) by (vm_compute; reflexivity). lia. }
  destruct (wire_chunked k size hdr strCRLF cl flush s Hs Hcl Hq Hlen Hk) as (_ & _ & cs & Hc & Hne & Wire).
  cbv zeta. exists (enc_chunks cs ++ strCRLF).
  pose proof (chunks_ok_of_data cs _ Hc Hne Hwf Hlen) as Hok.
  destruct (chunked_message_codec parseTr cs 0 rest Hok Hr ltac:(left; lia) ltac:(rewrite Hc; exact Ha)) as (pk & E1 & E2).
  exists pk. unfold enc_chunked_message in *. rewrite Hc in *. split; [exact Wire|]. split; [exact E2|exact E1].
Qed.

(* ---- streams that copy themselves (WriteTo), given as the list of their Write calls ---- *)
Definition nonempty_segs (segs : list bytes) : list bytes := filter (fun p => negb (beq p [])) segs.

Lemma concat_nonempty_segs segs : concat (nonempty_segs segs) = concat segs.
Proof.
  induction segs as [|p segs IH]; [reflexivity|]. cbn [nonempty_segs filter concat].
  destruct p as [|x p']; cbn [beq negb]; [exact IH|]. cbn [concat]. fold (nonempty_segs segs). now rewrite IH.
Qed.
Lemma nonempty_segs_ne segs : Forall (fun c => c <> []) (nonempty_segs segs).
Proof.
  unfold nonempty_segs. apply Forall_forall. intros c Hc. apply filter_In in Hc as [_ Hc].
  intros ->. discriminate.
Qed.

Lemma writeTo_chunked_healthy : forall segs w, healthy w -> Forall (fun p => blen p < 16 ^ maxHexIntChars64) segs ->
  exists w', writeTo_chunked w segs = (w', WOk) /\ healthy w' /\ bw_size w' = bw_size w /\
             bw_wire w' = bw_wire w ++ concat (map enc_chunk (nonempty_segs segs)).
Proof.
  induction segs as [|p segs IH]; intros w Hw Hlen; cbn [writeTo_chunked].
  - exists w. split; [reflexivity|]. split; [exact Hw|]. split; [reflexivity|]. cbn. now rewrite app_nil_r.
  - inversion Hlen as [|? ? Hp Hlen']; subst. destruct p as [|x p'].
    + (* the empty Write is swallowed by the adapter *)
      cbn [chunkedBodyWriter_Write nonempty_segs filter beq negb]. apply IH; assumption.
    + cbn [chunkedBodyWriter_Write].
      destruct (writeChunk_healthy w (x :: p') Hw Hp) as (w1 & E1 & Hw1 & Sz1 & Wire1). rewrite E1.
      destruct (IH w1 Hw1 Hlen') as (w' & E & Hw' & Sz & Wire). rewrite E.
      exists w'. split; [reflexivity|]. split; [exact Hw'|]. split; [congruence|].
      rewrite Wire, Wire1. cbn [nonempty_segs filter beq negb map concat]. fold (nonempty_segs segs). now rewrite <- app_assoc.
Qed.

Theorem wire_chunked_wt size hdr trailer cl flush segs : 0 < size -> cl < 0 ->
  Forall (fun p => blen p < 16 ^ maxHexIntChars64) segs ->
  exists w', respWriteBodyStreamWT hdr trailer cl true flush (bw_new size (-1)) segs = (w', WOk) /\
             bw_wire w' = hdr ++ enc_chunks (nonempty_segs segs) ++ trailer.
Proof.
  intros Hs Hcl Hlen. unfold respWriteBodyStreamWT.
  destruct (write_healthy _ hdr (bw_new_healthy size Hs)) as (w1 & E1 & Hw1 & Wire1 & _). rewrite E1. cbn [negb].
  assert (Hfl : exists w2, (if flush then bw_flush w1 else (w1, true)) = (w2, true) /\ healthy w2 /\ bw_wire w2 = hdr).
  { destruct flush.
    - destruct (flush_healthy w1 Hw1) as (w2 & E2 & Hw2 & Wire2 & _). exists w2. split; [exact E2|]. split; [exact Hw2|]. now rewrite Wire2, Wire1.
    - exists w1. split; [reflexivity|]. split; [exact Hw1|exact Wire1]. }
  destruct Hfl as (w2 & E2 & Hw2 & Wire2). rewrite E2. cbn [negb].
  destruct (Z.geb_spec cl 0); [lia|]. unfold writeBodyChunkedWT.
  destruct (writeTo_chunked_healthy segs w2 Hw2 Hlen) as (w3 & E3 & Hw3 & _ & Wire3). rewrite E3.
  destruct (writeChunk_healthy w3 [] Hw3 zero_lt_hex) as (w4 & E4 & Hw4 & _ & Wire4). rewrite E4.
  destruct (write_healthy w4 trailer Hw4) as (w5 & E5 & _ & Wire5 & _). rewrite E5.
  exists w5. split; [reflexivity|]. rewrite Wire5, Wire4, Wire3, Wire2. unfold enc_chunks. now rewrite <- !app_assoc.
Qed.

Lemma writeTo_plain_healthy : forall segs w n, healthy w ->
  exists w', writeTo_plain w segs n = (w', n + blen (concat segs), WOk) /\ healthy w' /\ bw_wire w' = bw_wire w ++ concat segs.
Proof.
  induction segs as [|p segs IH]; intros w n Hw; cbn [writeTo_plain concat].
  - exists w. change (blen []) with 0. rewrite Z.add_0_r, app_nil_r. repeat split; try apply Hw.
  - destruct (write_healthy w p Hw) as (w1 & E1 & Hw1 & Wire1 & _). rewrite E1.
    destruct (IH w1 (n + blen p) Hw1) as (w' & E & Hw' & Wire). rewrite E.
    exists w'. split; [rewrite blen_app; f_equal; f_equal; lia|]. split; [exact Hw'|]. rewrite Wire, Wire1. now rewrite <- app_assoc.
Qed.

Theorem wire_fixed_wt size hdr trailer flush segs : 0 < size ->
  exists w', respWriteBodyStreamWT hdr trailer (blen (concat segs)) true flush (bw_new size (-1)) segs = (w', WOk) /\
             bw_wire w' = hdr ++ concat segs.
Proof.
  intros Hs. unfold respWriteBodyStreamWT.
  destruct (write_healthy _ hdr (bw_new_healthy size Hs)) as (w1 & E1 & Hw1 & Wire1 & _). rewrite E1. cbn [negb].
  assert (Hfl : exists w2, (if flush then bw_flush w1 else (w1, true)) = (w2, true) /\ healthy w2 /\ bw_wire w2 = hdr).
  { destruct flush.
    - destruct (flush_healthy w1 Hw1) as (w2 & E2 & Hw2 & Wire2 & _). exists w2. split; [exact E2|]. split; [exact Hw2|]. now rewrite Wire2, Wire1.
    - exists w1. split; [reflexivity|]. split; [exact Hw1|exact Wire1]. }
  destruct Hfl as (w2 & E2 & Hw2 & Wire2). rewrite E2. cbn [negb].
  pose proof (blen_nonneg (concat segs)). destruct (Z.geb_spec (blen (concat segs)) 0); [|lia].
  unfold writeBodyFixedSizeWT. destruct (writeTo_plain_healthy segs w2 0 Hw2) as (w3 & E3 & _ & Wire3). rewrite E3.
  cbn [Z.add]. rewrite Z.eqb_refl. exists w3. split; [reflexivity|]. now rewrite Wire3, Wire2.
Qed.

(* the peer decodes exactly the concatenation of the segments — empty segments included anywhere — and
   leaves what follows (the next message) untouched *)
Theorem chunked_wt_roundtrip size hdr cl flush segs rest parseTr : 0 < size -> cl < 0 ->
  wf_bytes (concat segs) -> wf_bytes rest -> blen (concat segs) + 2 <= maxAlloc ->
  exists w' wire_body pk, respWriteBodyStreamWT hdr strCRLF cl true flush (bw_new size (-1)) segs = (w', WOk) /\
    bw_wire w' = hdr ++ wire_body /\
    respReadBody parseTr (-1) 0 0 [] (wire_body ++ rest) = BOk (concat segs) rest pk /\
    reqReadBody parseTr (-1) 0 (wire_body ++ rest) = BOk (concat segs) rest pk.
Proof.
  intros Hs Hcl Hwf Hr Ha.
  assert (Hbig : maxAlloc < 16 ^ maxHexIntChars64) by (vm_compute; reflexivity).
  assert (Hlen : Forall (fun p => blen p < 16 ^ maxHexIntChars64) segs).
  { apply Forall_forall. intros p Hp. assert (blen p <= blen (concat segs)); [|lia].
    clear -Hp. induction segs as [|q segs IH]; [contradiction|]. cbn [concat]. rewrite blen_app.
    pose proof (blen_nonneg q). pose proof (blen_nonneg (concat segs)). destruct Hp as [->|Hp]; [lia|]. specialize (IH Hp). lia. }
  destruct (wire_chunked_wt size hdr strCRLF cl flush segs Hs Hcl Hlen) as (w' & E & Wire).
  exists w', (enc_chunks (nonempty_segs segs) ++ strCRLF).
  pose proof (concat_nonempty_segs segs) as Hc.
  assert (Hok : Forall chunk_ok (nonempty_segs segs)).
  { apply (chunks_ok_of_data _ (concat segs) Hc (nonempty_segs_ne segs) Hwf). lia. }
  destruct (chunked_message_codec parseTr (nonempty_segs segs) 0 rest Hok Hr ltac:(left; lia) ltac:(rewrite Hc; exact Ha)) as (pk & E1 & E2).
  exists pk. unfold enc_chunked_message in *. rewrite Hc in *. split; [exact E|]. split; [exact Wire|]. split; [exact E2|exact E1].
Qed.
