(* Proofs about Model/BodyWrite.v: on a healthy bufio.Writer the writers put exactly the
   stream's bytes on the wire (fixed size) or a chunked encoding of them (unknown size). *)
From Coq Require Import Lia ZifyBool ZifyN ZifyNat.
From FH Require Import Model.Base Gen.GenC30 Gen.GenC34 Model.Ints Spec.IntsSpec Proof.IntsProof
     Model.Body Model.BodyWrite Proof.BodyProof.
Open Scope Z_scope.

(* a bufio.Writer whose target never fails *)
Definition healthy (w : bw) : Prop :=
  bw_budget w < 0 /\ bw_err w = false /\ 0 < bw_size w /\ blen (bw_buf w) <= bw_size w.

Lemma beq_nil_false (b : bytes) : b <> [] -> beq b [] = false.
Proof. destruct b; [congruence|reflexivity]. Qed.

Lemma flush_healthy w : healthy w ->
  exists w', bw_flush w = (w', true) /\ healthy w' /\ bw_wire w' = bw_wire w /\ bw_buf w' = [] /\ bw_size w' = bw_size w.
Proof.
  intros (Hb & He & Hs & Hl). unfold bw_flush. rewrite He.
  destruct (bw_buf w) as [|c buf] eqn:Eb.
  - exists w. unfold healthy. rewrite He, Eb. repeat split; try assumption. change (blen []) with 0. lia.
  - unfold tgt_write. destruct (Z.ltb_spec (bw_budget w) 0); [|lia]. cbn [fst snd].
    eexists. split; [reflexivity|]. unfold healthy, bw_wire. cbn [bw_budget bw_err bw_size bw_buf bw_out].
    rewrite Eb. repeat split; try assumption; try (change (blen []) with 0; lia). now rewrite app_nil_r.
Qed.

Lemma write_healthy w p : healthy w ->
  exists w', bw_write w p = (w', true) /\ healthy w' /\ bw_wire w' = bw_wire w ++ p /\ bw_size w' = bw_size w.
Proof.
  intros Hw. pose proof Hw as (Hb & He & Hs & Hl). unfold bw_write.
  pose proof (blen_nonneg p) as Hp0. pose proof (blen_nonneg (bw_buf w)) as Hb0.
  destruct ((blen p >? bw_avail w) && negb (bw_err w) && negb (beq (bw_buf w) [])) eqn:C1.
  - (* top up and flush *)
    apply andb_true_iff in C1 as [C1 C1c]. apply andb_true_iff in C1 as [C1a C1b].
    set (n := bw_avail w).
    assert (Hn : 0 <= n <= blen p) by (subst n; unfold bw_avail in *; lia).
    set (wf := mkBW (bw_size w) (bw_buf w ++ btake n p) (bw_out w) (bw_budget w) (bw_err w)).
    assert (Hwf : healthy wf).
    { unfold healthy, wf. cbn [bw_budget bw_err bw_size bw_buf]. repeat split; try assumption.
      rewrite blen_app, blen_btake by lia. subst n. unfold bw_avail. lia. }
    destruct (flush_healthy wf Hwf) as (w1 & E1 & Hw1 & Wire1 & Buf1 & Sz1). rewrite E1. cbn [fst].
    assert (Hav1 : bw_avail w1 = bw_size w) by (unfold bw_avail; rewrite Buf1, Sz1; change (blen []) with 0; unfold wf; cbn; lia).
    pose proof Hw1 as (Hb1 & He1 & Hs1 & Hl1).
    assert (Hp1 : blen (bdrop n p) = blen p - n).
    { rewrite <- (btake_bdrop n p) at 2. rewrite blen_app, blen_btake by lia. lia. }
    assert (Hwire1 : bw_wire w1 = bw_wire w ++ btake n p).
    { rewrite Wire1. unfold bw_wire, wf. cbn [bw_out bw_buf]. now rewrite app_assoc. }
    destruct ((blen (bdrop n p) >? bw_avail w1) && negb (bw_err w1)) eqn:C2.
    + (* the rest is large: straight to the target *)
      unfold tgt_write. destruct (Z.ltb_spec (bw_budget w1) 0); [|lia]. cbn [bw_size bw_buf bw_out bw_budget bw_err].
      unfold bdrop at 2. rewrite Nat2Z.id. rewrite (skipn_all (bdrop n p)). cbn [bw_err]. rewrite app_nil_r.
      eexists. split; [reflexivity|]. unfold healthy, bw_wire. cbn [bw_budget bw_err bw_size bw_buf bw_out].
      rewrite Buf1. repeat split; try assumption; try (change (blen []) with 0; lia).
      * rewrite app_nil_r. unfold bw_wire in Hwire1. rewrite Buf1, app_nil_r in Hwire1. rewrite Hwire1.
        rewrite <- app_assoc. now rewrite btake_bdrop.
      * unfold wf in Sz1. cbn in Sz1. exact Sz1.
    + rewrite He1. eexists. split; [reflexivity|]. unfold healthy, bw_wire. cbn [bw_budget bw_err bw_size bw_buf bw_out].
      rewrite Buf1. cbn [app]. rewrite He1 in C2. rewrite andb_true_r in C2. destruct (Z.gtb_spec (blen (bdrop n p)) (bw_avail w1)); [discriminate|].
      repeat split; try assumption; try lia.
      * unfold bw_wire in Hwire1. rewrite Buf1, app_nil_r in Hwire1. rewrite Hwire1. rewrite <- app_assoc. now rewrite btake_bdrop.
      * unfold wf in Sz1. cbn in Sz1. exact Sz1.
  - (* no top-up *)
    destruct ((blen p >? bw_avail w) && negb (bw_err w)) eqn:C2.
    + (* empty buffer, large write *)
      rewrite He in C1, C2. rewrite andb_true_r in C2. rewrite C2 in C1. cbn [negb andb] in C1.
      apply negb_false_iff in C1. apply beq_eq in C1.
      unfold tgt_write. destruct (Z.ltb_spec (bw_budget w) 0); [|lia]. cbn [bw_size bw_buf bw_out bw_budget bw_err].
      unfold bdrop. rewrite Nat2Z.id, skipn_all. cbn [bw_err]. rewrite app_nil_r.
      eexists. split; [reflexivity|]. unfold healthy, bw_wire. cbn [bw_budget bw_err bw_size bw_buf bw_out].
      rewrite C1. repeat split; try assumption; try (change (blen []) with 0; lia). now rewrite !app_nil_r.
    + rewrite He. eexists. split; [reflexivity|]. unfold healthy, bw_wire. cbn [bw_budget bw_err bw_size bw_buf bw_out].
      rewrite He in C2. rewrite andb_true_r in C2. destruct (Z.gtb_spec (blen p) (bw_avail w)); [discriminate|].
      repeat split; try assumption.
      * rewrite blen_app. unfold bw_avail in *. lia.
      * now rewrite app_assoc.
Qed.

(* ---- writeChunk ---- *)
Lemma hex_of_some n : 0 <= n < 16 ^ maxHexIntChars64 -> writeHexInt maxHexIntChars64 n = Some (hex_of n).
Proof.
  intros Hn. destruct (hex_roundtrip 64 maxHexIntChars64 n okWH64 Hn) as (d & Hd & _). unfold hex_of. now rewrite Hd.
Qed.

Lemma writeChunk_healthy w b : healthy w -> blen b < 16 ^ maxHexIntChars64 ->
  exists w', writeChunk w b = (w', WOk) /\ healthy w' /\ bw_size w' = bw_size w /\
             bw_wire w' = bw_wire w ++ (match b with [] => enc_last | _ => enc_chunk b end).
Proof.
  intros Hw Hb. pose proof (blen_nonneg b) as Hb0. unfold writeChunk. rewrite (hex_of_some (blen b)) by lia.
  destruct (write_healthy w (hex_of (blen b)) Hw) as (w1 & E1 & H1 & W1 & S1). rewrite E1. cbn [negb].
  destruct (write_healthy w1 strCRLF H1) as (w2 & E2 & H2 & W2 & S2). rewrite E2. cbn [negb].
  destruct (write_healthy w2 b H2) as (w3 & E3 & H3 & W3 & S3). rewrite E3. cbn [negb].
  destruct b as [|c b'] eqn:Eb.
  - change (blen [] >? 0) with false. cbv iota. cbn [negb].
    destruct (flush_healthy w3 H3) as (w5 & E5 & H5 & W5 & _ & S5). rewrite E5.
    exists w5. split; [reflexivity|]. split; [exact H5|]. split; [congruence|].
    rewrite W5, W3, W2, W1. unfold enc_last. change (blen []) with 0. rewrite app_nil_r, <- app_assoc. reflexivity.
  - rewrite <- Eb in *. assert (Hpos : blen b >? 0 = true) by (rewrite Eb, blen_cons; pose proof (blen_nonneg b'); lia).
    rewrite Hpos.
    destruct (write_healthy w3 strCRLF H3) as (w4 & E4 & H4 & W4 & S4). rewrite E4. cbn [negb].
    destruct (flush_healthy w4 H4) as (w5 & E5 & H5 & W5 & _ & S5). rewrite E5.
    exists w5. split; [reflexivity|]. split; [exact H5|]. split; [congruence|].
    rewrite W5, W4, W3, W2, W1. unfold enc_chunk. rewrite <- !app_assoc. reflexivity.
Qed.

(* ---- fault-free streams ---- *)
Definition data_op (o : rdop) : Prop := match o with OData _ | ODataEOF _ => True | _ => False end.
Definition quiet_op (o : rdop) : Prop := match o with OData _ | ODataEOF _ | OZero => True | _ => False end.

Lemma sread_quiet s c : 0 < c -> Forall quiet_op (ss_script s) ->
  match sread s c with
  | (RdOk p eof, s') =>
      ss_data s = p ++ ss_data s' /\ Forall quiet_op (ss_script s') /\ blen p <= c /\
      (p = [] -> eof = false -> (length (ss_script s') < length (ss_script s))%nat /\ ss_data s' = ss_data s) /\
      (p = [] -> eof = true -> ss_data s = []) /\
      (p <> [] -> (length (ss_data s') + length (ss_script s') < length (ss_data s) + length (ss_script s))%nat) /\
      (Forall data_op (ss_script s) -> Forall data_op (ss_script s') /\ (ss_data s <> [] -> p <> []))
  | _ => False
  end.
Proof.
  intros Hc Hq. destruct s as [d sc]. unfold sread. cbn [ss_data ss_script] in *.
  assert (Hstep : forall n, 1 <= n <= blen d ->
            d = btake n d ++ bdrop n d /\ blen (btake n d) = n /\ btake n d <> [] /\ (length (bdrop n d) < length d)%nat).
  { intros n Hn. split; [now rewrite btake_bdrop|]. split; [apply blen_btake; lia|]. split.
    - intros E. pose proof (blen_btake n d ltac:(lia)) as Hl. rewrite E in Hl. change (blen []) with 0 in Hl. lia.
    - apply length_bdrop_lt; [lia|]. intros ->. change (blen []) with 0 in Hn. lia. }
  destruct sc as [|o sc].
  - destruct d as [|x d'] eqn:Ed.
    + cbn [ss_data ss_script]. repeat split; auto; try (change (blen []) with 0; lia); try congruence; intros; try congruence; constructor.
    + rewrite <- Ed in *. assert (Hd : 1 <= blen d) by (rewrite Ed, blen_cons; pose proof (blen_nonneg d'); lia).
      destruct (Hstep (Z.min c (blen d)) ltac:(lia)) as (S1 & S2 & S3 & S4). cbn [ss_data ss_script].
      repeat split; auto; try lia; try congruence; intros; try contradiction; try constructor. cbn [length]. lia.
  - inversion Hq as [|? ? Ho Hq']; subst.
    destruct o; try contradiction.
    + destruct d as [|x d'] eqn:Ed.
      * cbn [ss_data ss_script length]. repeat split; auto; try (change (blen []) with 0; lia); try congruence; intros; try congruence.
        inversion H; assumption.
      * rewrite <- Ed in *. assert (Hd : 1 <= blen d) by (rewrite Ed, blen_cons; pose proof (blen_nonneg d'); lia).
        destruct (Hstep (Z.min (Z.max k 1) (Z.min c (blen d))) ltac:(lia)) as (S1 & S2 & S3 & S4). cbn [ss_data ss_script length].
        repeat split; auto; try lia; try congruence; intros; try contradiction. inversion H; assumption.
    + destruct d as [|x d'] eqn:Ed.
      * cbn [ss_data ss_script length]. repeat split; auto; try (change (blen []) with 0; lia); try congruence; intros; try congruence.
        inversion H; assumption.
      * rewrite <- Ed in *. assert (Hd : 1 <= blen d) by (rewrite Ed, blen_cons; pose proof (blen_nonneg d'); lia).
        destruct (Hstep (Z.min (Z.max k 1) (Z.min c (blen d))) ltac:(lia)) as (S1 & S2 & S3 & S4). cbn [ss_data ss_script length].
        repeat split; auto; try lia; try congruence; intros; try contradiction. inversion H; assumption.
    + cbn [ss_data ss_script length]. repeat split; auto; try (change (blen []) with 0; lia); try congruence; intros; try congruence.
      inversion H as [|? ? Hbad]; contradiction.
Qed.
