From FH Require Import Model.Base Gen.GenC32 Model.ByteClassModel Spec.ByteClass.
From Coq Require Import Lia ZifyBool ZifyN ZifyNat.
Open Scope N_scope.

Definition all256 : list N := map N.of_nat (seq 0 256).
Lemma in_all256 c : c < 256 -> In c all256.
Proof. intros H. apply in_map_iff. exists (N.to_nat c). split; [lia|]. apply in_seq. lia. Qed.

Definition table_ok (t : list N) (spec : N -> N) : bool :=
  (length t =? 256)%nat && forallb (fun c => tbl t c =? spec c) all256.

Lemma table_ok_forall t spec : table_ok t spec = true -> forall c, c < 256 -> tbl t c = spec c.
Proof.
  unfold table_ok. intros H c Hc. apply andb_true_iff in H as [_ H].
  rewrite forallb_forall in H. apply N.eqb_eq, H, in_all256, Hc.
Qed.

(* every table equals its defining predicate on every byte: finite domain, decided by computation *)
Lemma tables_ok :
  table_ok hex2intTable hex_spec = true /\
  table_ok toLowerTable lower_spec = true /\
  table_ok toUpperTable upper_spec = true /\
  table_ok quotedArgShouldEscapeTable arg_escape_spec = true /\
  table_ok quotedPathShouldEscapeTable path_escape_spec = true /\
  table_ok validHeaderValueByteTable field_value_spec = true /\
  table_ok validMethodValueByteTable tchar_spec = true /\
  (length validHeaderFieldByteTable =? 128)%nat = true /\
  forallb (fun c => Bool.eqb (validHeaderFieldByte c) (tchar c)) all256 = true.
Proof. vm_compute. repeat split; reflexivity. Qed.

Lemma field_byte_is_tchar c : c < 256 -> validHeaderFieldByte c = tchar c.
Proof.
  intros Hc. destruct tables_ok as (_&_&_&_&_&_&_&_&H). rewrite forallb_forall in H.
  apply Bool.eqb_prop, H, in_all256, Hc.
Qed.

Lemma upper_tbl c : c < 256 -> tbl toUpperTable c = upper_spec c.
Proof. destruct tables_ok as (_&_&H&_). now apply table_ok_forall. Qed.
Lemma lower_tbl c : c < 256 -> tbl toLowerTable c = lower_spec c.
Proof. destruct tables_ok as (_&H&_). now apply table_ok_forall. Qed.

Lemma nhk_loop_canon s : wf_bytes s -> forall up, nhk_loop up s = canon_go up s.
Proof.
  induction 1 as [|c r Hc Hr IH]; intros up; cbn [nhk_loop canon_go]; [reflexivity|].
  rewrite upper_tbl, lower_tbl by exact Hc. now rewrite IH.
Qed.

Lemma removeNewLines_id s : forallb tchar s = true -> removeNewLines s = s.
Proof.
  induction s as [|c r IH]; cbn [forallb removeNewLines map]; [reflexivity|].
  intros H. apply andb_true_iff in H as [Hc Hr]. fold (removeNewLines r). rewrite (IH Hr).
  destruct (N.eqb_spec c 13) as [->|]; [discriminate|]. destruct (N.eqb_spec c 10) as [->|]; [discriminate|]. reflexivity.
Qed.

Lemma forallb_ext_in {A} (f g : A -> bool) l : (forall x, In x l -> f x = g x) -> forallb f l = forallb g l.
Proof. induction l as [|a l IH]; cbn; intros H; [reflexivity|]. rewrite H, IH; auto. Qed.

(* header-name canonicalisation equals net/textproto's for every token *)
Theorem canonical_key_token s : wf_bytes s -> forallb tchar s = true ->
  normalizeHeaderKey s false = canonical_mime s.
Proof.
  intros Hwf Ht. unfold normalizeHeaderKey, canonical_mime. rewrite (removeNewLines_id s Ht), Ht.
  assert (E : forallb validHeaderFieldByte s = forallb tchar s).
  { apply forallb_ext_in. intros x Hx. apply field_byte_is_tchar. unfold wf_bytes in Hwf. rewrite Forall_forall in Hwf. auto. }
  rewrite E, Ht. unfold normalizeHeaderKeyValidated. now apply nhk_loop_canon.
Qed.

(* and for every CR/LF-free byte string altogether (non-tokens are left alone by both) *)
Theorem canonical_key_all s : wf_bytes s -> removeNewLines s = s ->
  normalizeHeaderKey s false = canonical_mime s.
Proof.
  intros Hwf Hn. unfold normalizeHeaderKey, canonical_mime. rewrite Hn.
  assert (E : forallb validHeaderFieldByte s = forallb tchar s).
  { apply forallb_ext_in. intros x Hx. apply field_byte_is_tchar. unfold wf_bytes in Hwf. rewrite Forall_forall in Hwf. auto. }
  rewrite E. destruct (forallb tchar s); [|reflexivity]. unfold normalizeHeaderKeyValidated. now apply nhk_loop_canon.
Qed.

Lemma html_sub_esc c : html_esc c = match html_sub c with [] => [c] | sub => sub end.
Proof.
  unfold html_esc, html_sub.
  destruct (c =? 38); [reflexivity|]. destruct (c =? 60); [reflexivity|]. destruct (c =? 62); [reflexivity|].
  destruct (c =? 34); [reflexivity|]. destruct (c =? 39); reflexivity.
Qed.

Lemma ahe_loop_spec s : forall dst pending, ahe_loop s dst pending = dst ++ pending ++ html_escape s.
Proof.
  induction s as [|c r IH]; intros dst pending; cbn [ahe_loop html_escape flat_map].
  - now rewrite app_nil_r.
  - fold (html_escape r). rewrite html_sub_esc. destruct (html_sub c) as [|x sub] eqn:E.
    + rewrite IH. now rewrite <- !app_assoc.
    + rewrite IH. cbn [app]. now rewrite <- !app_assoc.
Qed.

Theorem html_escape_exact dst s : AppendHTMLEscape dst s = dst ++ html_escape s.
Proof. unfold AppendHTMLEscape. now rewrite ahe_loop_spec. Qed.
