(* Proof/ByteRangeProof.v — C24: ParseByteRange (Model/ByteRange.v) against RFC 9110 byte ranges (Spec/FsRangeSpec.v),
   and the response decision of Model/FsResp.v against the expected outcome. *)
From Coq Require Import Lia ZifyBool ZifyN ZifyNat.
From FH Require Import Model.Base Gen.GenC30 Gen.GenC24 Model.Ints Spec.IntsSpec Proof.IntsProof
  Model.DateIP Spec.HttpDate Proof.DateProof Model.ByteRange Model.FsResp Spec.FsRangeSpec.
Open Scope Z_scope.

Lemma ok64 : okW 64. Proof. right. reflexivity. Qed.

Lemma wf_firstn n (s : bytes) : wf_bytes s -> wf_bytes (firstn n s).
Proof.
  unfold wf_bytes. revert n. induction s as [|x s IH]; intros n H; destruct n; cbn; try constructor.
  - inversion H; assumption.
  - apply IH. inversion H; assumption.
Qed.
Lemma wf_skipn n (s : bytes) : wf_bytes s -> wf_bytes (skipn n s).
Proof.
  unfold wf_bytes. intros H. apply Forall_forall. intros x Hx. rewrite Forall_forall in H. apply H.
  rewrite <- (firstn_skipn n s). apply in_or_app. now right.
Qed.

(* ---------------- the accepted-range invariant ---------------- *)
Theorem range_invariant r n s e : wf_bytes r -> ParseByteRange r n = BROk s e -> 0 <= s /\ s <= e /\ e < n.
Proof.
  intros Hwf. unfold ParseByteRange.
  destruct (hasPrefix r strBytes); cbn [negb]; [|discriminate].
  pose proof (wf_skipn (length strBytes) r Hwf) as Hb. destruct (skipn (length strBytes) r) as [|c b]; [discriminate|].
  destruct (N.eqb_spec c 61) as [->|]; cbn [negb]; [|discriminate].
  - assert (Hb' : wf_bytes b) by (inversion Hb; assumption).
    destruct (indexByte b 45%N) as [[|i]|]; [| |discriminate].
    + destruct (ParseUint 64 (skipn 1 b)) as [v|] eqn:Ev; [|discriminate].
      destruct (parse_ok_is_value 64 _ v ok64 (wf_skipn 1 b Hb') Ev) as (_ & _ & _ & Hv).
      destruct (Z.leb_spec n 0); [discriminate|]. destruct (Z.eqb_spec v 0); [discriminate|].
      intros Hr. injection Hr as <- <-. lia.
    + destruct (ParseUint 64 (firstn (S i) b)) as [sp|] eqn:Es; [|discriminate].
      destruct (parse_ok_is_value 64 _ sp ok64 (wf_firstn (S i) b Hb') Es) as (_ & _ & _ & Hsp).
      destruct (Z.geb_spec sp n); [discriminate|].
      destruct (skipn (S (S i)) b) as [|c2 b2] eqn:Eb; [intros Hr; injection Hr as <- <-; lia|].
      destruct (ParseUint 64 (c2 :: b2)) as [ep|] eqn:Ee; [|discriminate].
      assert (Hw2 : wf_bytes (c2 :: b2)) by (rewrite <- Eb; apply wf_skipn; assumption).
      destruct (parse_ok_is_value 64 _ ep ok64 Hw2 Ee) as (_ & _ & _ & Hep).
      destruct (Z.geb_spec ep n); match goal with |- context[?a <? sp] => destruct (Z.ltb_spec a sp) end;
        try discriminate; intros Hr; injection Hr as <- <-; lia.
Qed.

(* ---------------- ParseByteRange accepts exactly the RFC 9110 single byte ranges ---------------- *)
Lemma hasPrefix_strip b p : hasPrefix b p = match strip_prefix p b with Some _ => true | None => false end.
Proof.
  revert b; induction p as [|x p IH]; intros b; destruct b as [|y b]; cbn; try reflexivity.
  destruct (x =? y)%N; [apply IH|reflexivity].
Qed.
Lemma strip_skipn b p r : strip_prefix p b = Some r -> skipn (length p) b = r.
Proof.
  revert b; induction p as [|x p IH]; intros b; destruct b as [|y b]; cbn; try discriminate; try congruence.
  destruct (x =? y)%N; [apply IH|discriminate].
Qed.
Lemma strip_app p q b : strip_prefix (p ++ q) b = match strip_prefix p b with Some r => strip_prefix q r | None => None end.
Proof.
  revert b; induction p as [|x p IH]; intros b; [reflexivity|]. destruct b as [|y b]; cbn; [reflexivity|].
  destruct (x =? y)%N; [apply IH|reflexivity].
Qed.

Lemma cut_index d b : cut d b = match indexByte b d with
                                | Some i => Some (firstn i b, skipn (S i) b)
                                | None => None
                                end.
Proof.
  induction b as [|c b IH]; cbn; [reflexivity|].
  destruct (c =? d)%N; [reflexivity|]. rewrite IH. destruct (indexByte b d); reflexivity.
Qed.

Lemma num_model s : wf_bytes s -> num s = pres_opt (ParseUint 64 s).
Proof. intros H. unfold num. symmetry. apply parse_exact; [apply ok64|exact H]. Qed.

Theorem range_exact r n : wf_bytes r ->
  ParseByteRange r n = match spec_range r n with RSat s e => BROk s e | _ => BRErr end.
Proof.
  intros Hwf. unfold ParseByteRange, spec_range.
  change (s2b "bytes=") with (strBytes ++ [61%N]). rewrite strip_app, hasPrefix_strip.
  destruct (strip_prefix strBytes r) as [b|] eqn:Es; cbn [negb]; [|reflexivity].
  rewrite (strip_skipn _ _ _ Es).
  assert (Hb : wf_bytes b) by (rewrite <- (strip_skipn _ _ _ Es); apply wf_skipn; exact Hwf).
  destruct b as [|c b]; [reflexivity|].
  replace (strip_prefix [61%N] (c :: b)) with (if (61 =? c)%N then Some b else None) by reflexivity.
  destruct (N.eqb_spec c 61) as [->|Hc].
  2:{ cbn [negb]. destruct (61 =? c)%N eqn:E; [apply N.eqb_eq in E; congruence|reflexivity]. }
  cbn [negb]. change (61 =? 61)%N with true. cbv iota. assert (Hb' : wf_bytes b) by (inversion Hb; assumption).
  rewrite cut_index. destruct (indexByte b 45%N) as [i|] eqn:Ei; [|reflexivity].
  destruct i as [|i].
  - cbn [firstn]. rewrite (num_model _ (wf_skipn 1 b Hb')).
    destruct (ParseUint 64 (skipn 1 b)) as [v|]; cbn [pres_opt]; [|reflexivity].
    destruct (Z.leb_spec n 0); destruct (Z.eqb_spec v 0); cbn [orb]; try reflexivity.
    now rewrite Z.max_comm.
  - assert (Hne : firstn (S i) b <> []) by (destruct b; [discriminate Ei|discriminate]).
    destruct (firstn (S i) b) as [|a0 a] eqn:Ef; [contradiction|].
    rewrite (num_model (a0 :: a)) by (rewrite <- Ef; apply wf_firstn; exact Hb').
    destruct (ParseUint 64 (a0 :: a)) as [sp|]; cbn [pres_opt]; [|reflexivity].
    destruct (skipn (S (S i)) b) as [|c2 b2] eqn:Eb.
    + destruct (Z.geb_spec sp n); destruct (Z.ltb_spec sp n); try lia; reflexivity.
    + rewrite (num_model (c2 :: b2)) by (rewrite <- Eb; apply wf_skipn; exact Hb').
      destruct (ParseUint 64 (c2 :: b2)) as [ep|]; cbn [pres_opt].
      * destruct (Z.geb_spec sp n); destruct (Z.ltb_spec sp n); try lia.
        -- destruct (Z.ltb_spec ep sp); reflexivity.
        -- destruct (Z.geb_spec ep n).
           ++ destruct (Z.ltb_spec (n - 1) sp); destruct (Z.ltb_spec ep sp); try lia. now rewrite Z.min_r by lia.
           ++ destruct (Z.ltb_spec ep sp); [reflexivity|]. now rewrite Z.min_l by lia.
      * destruct (Z.geb_spec sp n); reflexivity.
Qed.

(* ---------------- the FS response decision ---------------- *)
Lemma date_equiv b : wf_bytes b -> parseRFC1123DateGMT b = spec_time_parse b.
Proof.
  intros Hwf. destruct (Nat.eq_dec (length b) 29) as [E|E]; [now apply fast_equals_time_parse|].
  assert (H1 : parseRFC1123DateGMT b = None).
  { unfold parseRFC1123DateGMT. destruct (Nat.eqb_spec (length b) 29); [contradiction|reflexivity]. }
  rewrite H1. symmetry. unfold spec_time_parse.
  do 29 (destruct b as [|? b]; [reflexivity|]). destruct b; [cbn in E; contradiction|reflexivity].
Qed.

Lemma ims_equiv ims mtime : wf_bytes ims -> IfModifiedSince ims mtime = negb (not_newer ims mtime).
Proof.
  intros Hwf. unfold IfModifiedSince, not_newer. destruct ims as [|c ims]; [reflexivity|].
  rewrite (date_equiv _ Hwf). destruct (spec_time_parse (c :: ims)) as [t|]; [|reflexivity].
  destruct (Z.ltb_spec t mtime); destruct (Z.leb_spec mtime t); try lia; reflexivity.
Qed.

Lemma content_range_eq s e n : contentRangeValue s e n = content_range s e n.
Proof. reflexivity. Qed.

Section Fs.
  Variables (size mtime now : Z) (compress brotli zstd : bool) (range ims ae : bytes) (compressible : bool) (zlen : Z).
  Hypothesis Hr : wf_bytes range.
  Hypothesis Hi : wf_bytes ims.

  (* the cache file of a compressed variant carries the original file's modification time *)
  Lemma compressed_mtime : compressedFileMtime now mtime = mtime.
  Proof. reflexivity. Qed.
  Lemma served_mtime (b : bool) : (if b then compressedFileMtime now mtime else mtime) = mtime.
  Proof. destruct b; reflexivity. Qed.

  (* 304 exactly when the ORIGINAL file is not newer than If-Modified-Since (to the second), whatever else is asked and
     whichever representation (identity, gzip, br, zstd) would be served *)
  Theorem status_304_iff ranges isHead :
    fo_status (fs_handle size mtime now ranges compress brotli zstd isHead range ims ae compressible zlen) = 304
    <-> not_newer ims mtime = true.
  Proof using Hi.
    unfold fs_handle. rewrite served_mtime, (ims_equiv ims mtime Hi). destruct (not_newer ims mtime); cbn [negb].
    - split; reflexivity.
    - split; [|discriminate]. intros H.
      destruct (ranges && match range with [] => false | _ => true end).
      + destruct (ParseByteRange range _); cbn in H; discriminate.
      + cbn in H. discriminate.
  Qed.

  (* every 200 / 206 carries Last-Modified = the original file's modification time, for every coding, GET and HEAD *)
  Theorem last_modified_is_file_mtime ranges isHead :
    let o := fs_handle size mtime now ranges compress brotli zstd isHead range ims ae compressible zlen in
    (fo_status o = 200 \/ fo_status o = 206) -> fo_lastModified o = spec_format_http_date mtime.
  Proof.
    unfold fs_handle. rewrite served_mtime. destruct (IfModifiedSince ims mtime); cbn [negb].
    - destruct (ranges && match range with [] => false | _ => true end); [|reflexivity].
      destruct (ParseByteRange range _); [reflexivity|]. cbn. intros [H|H]; discriminate.
    - cbn. intros [H|H]; discriminate.
  Qed.

  Lemma nonempty_true (A : Type) (l : bytes) (x : A) (y : A) : l <> [] -> match l with [] => x | _ => y end = y.
  Proof. destruct l; [contradiction|reflexivity]. Qed.

  (* 206 with exactly the requested slice and the matching Content-Range, for a satisfiable single range;
     a request with a Range header is never served from a compressed variant *)
  Theorem range_206 s e : not_newer ims mtime = false -> range <> [] -> spec_range range size = RSat s e ->
    fs_handle size mtime now true compress brotli zstd false range ims ae compressible zlen =
    FsOut 206 (content_range s e size) (e - s + 1) (BSlice s (e - s + 1)) [] (spec_format_http_date mtime) true
    /\ 0 <= s /\ s <= e /\ e < size.
  Proof.
    intros Hn Hne Hs. unfold fs_handle. rewrite !(nonempty_true _ range _ _ Hne). cbn [andb].
    rewrite (ims_equiv ims mtime Hi), Hn. cbn [negb]. rewrite (range_exact range size Hr), Hs.
    split; [reflexivity|].
    apply (range_invariant range size s e Hr). now rewrite (range_exact range size Hr), Hs.
  Qed.

  (* 416 for an unsatisfiable (or malformed) Range value *)
  Theorem range_416 isHead : not_newer ims mtime = false -> range <> [] ->
    (spec_range range size = RUnsat \/ spec_range range size = RInvalid) ->
    fo_status (fs_handle size mtime now true compress brotli zstd isHead range ims ae compressible zlen) = 416.
  Proof.
    intros Hn Hne Hs. unfold fs_handle. rewrite !(nonempty_true _ range _ _ Hne). cbn [andb].
    rewrite (ims_equiv ims mtime Hi), Hn. cbn [negb]. rewrite (range_exact range size Hr).
    destruct Hs as [-> | ->]; reflexivity.
  Qed.

  (* 200 with the full content otherwise: no Range header, or byte ranges disabled *)
  Theorem full_200 ranges : not_newer ims mtime = false -> (range = [] \/ ranges = false) ->
    let coding := match range with [] => if compress then chooseCoding brotli zstd ae else [] | _ => [] end in
    let coded := match coding with [] => false | _ => true end && compressible in
    let len := if coded then zlen else size in
    fs_handle size mtime now ranges compress brotli zstd false range ims ae compressible zlen =
    FsOut 200 [] len (BSlice 0 len) (if coded then coding else []) (spec_format_http_date mtime) ranges.
  Proof using Hi.
    intros Hn Hc. unfold fs_handle. rewrite served_mtime, (ims_equiv ims mtime Hi), Hn. cbn [negb].
    destruct Hc as [Hc | Hc]; rewrite Hc; [rewrite andb_false_r|rewrite andb_false_l]; reflexivity.
  Qed.

  (* HEAD: the same status and headers as GET, and no body *)
  Theorem head_same ranges :
    let g := fs_handle size mtime now ranges compress brotli zstd false range ims ae compressible zlen in
    let h := fs_handle size mtime now ranges compress brotli zstd true range ims ae compressible zlen in
    fo_status h = fo_status g /\ fo_contentRange h = fo_contentRange g /\ fo_contentLength h = fo_contentLength g
    /\ fo_coding h = fo_coding g /\ fo_lastModified h = fo_lastModified g /\ fo_acceptRanges h = fo_acceptRanges g
    /\ fo_body h = BNone.
  Proof.
    unfold fs_handle. destruct (IfModifiedSince ims _); cbn [negb]; [|repeat split; reflexivity].
    destruct (ranges && match range with [] => false | _ => true end); [|repeat split; reflexivity].
    destruct (ParseByteRange range _); repeat split; reflexivity.
  Qed.
End Fs.

(* ---------------- a compressed sibling that already exists ---------------- *)
(* whatever compressed sibling lies next to the file (older, newer, same time), the validator of the compressed
   variant is the file's own modification time: a sibling with another time is re-created *)
Lemma sibling_ok now orig sib : compressedVariantMtime now orig (Some sib) = orig.
Proof.
  unfold compressedVariantMtime, siblingStale. cbv zeta.
  destruct (Z.geb_spec (orig - sib) 1); [reflexivity|]. destruct (Z.leb_spec (orig - sib) (-1)); [reflexivity|].
  cbn [orb]. lia.
Qed.
Lemma sibling_kept_iff orig sib : siblingStale orig sib = false <-> sib = orig.
Proof.
  unfold siblingStale. cbv zeta. destruct (Z.geb_spec (orig - sib) 1); destruct (Z.leb_spec (orig - sib) (-1)); cbn [orb];
    split; intros; try discriminate; lia.
Qed.
