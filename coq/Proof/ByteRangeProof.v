(* Proof/ByteRangeProof.v — C24: ParseByteRange (Model/ByteRange.v) against RFC 9110 byte ranges (Spec/FsRangeSpec.v),
   and the response decision of Model/FsResp.v against the expected outcome. *)
From Coq Require Import Lia ZifyBool ZifyN ZifyNat.
From FH Require Import Model.Base Gen.GenC30 Gen.GenC24 Model.Ints Spec.IntsSpec Proof.IntsProof
  Model.DateIP Spec.HttpDate Proof.DateProof Model.ByteRange Model.FsResp Spec.FsRangeSpec.
Open Scope Z_scope.

Lemma ok64 : okW 64. Proof. right. reflexivity. Qed.

Lemma wf_firstn n (s : bytes) : wf_bytes s -> wf_bytes (firstn n s).
Proof.
  unfold wf_bytes. revert n. induction s as [|x s IH]; intros n H; destruct n; cbn; try constructor.
  - inversion H; assumption.
  - apply IH. inversion H; assumption.
Qed.
Lemma wf_skipn n (s : bytes) : wf_bytes s -> wf_bytes (skipn n s).
Proof.
  unfold wf_bytes. intros H. apply Forall_forall. intros x Hx. rewrite Forall_forall in H. apply H.
  rewrite <- (firstn_skipn n s). apply in_or_app. now right.
Qed.

(* ---------------- the accepted-range invariant ---------------- *)
Theorem range_invariant r n s e : wf_bytes r -> ParseByteRange r n = BROk s e -> 0 <= s /\ s <= e /\ e < n.
Proof.
  intros Hwf. unfold ParseByteRange.
  destruct (hasPrefix r strBytes); cbn [negb]; [|discriminate].
  pose proof (wf_skipn (length strBytes) r Hwf) as Hb. destruct (skipn (length strBytes) r) as [|c b]; [discriminate|].
  destruct (N.eqb_spec c 61) as [->|]; cbn [negb]; [|discriminate].
  - assert (Hb' : wf_bytes b) by (inversion Hb; assumption).
    destruct (indexByte b 45%N) as [[|i]|]; [| |discriminate].
    + destruct (ParseUint 64 (skipn 1 b)) as [v|] eqn:Ev; [|discriminate].
      destruct (parse_ok_is_value 64 _ v ok64 (wf_skipn 1 b Hb') Ev) as (_ & _ & _ & Hv).
      destruct (Z.leb_spec n 0); [discriminate|]. destruct (Z.eqb_spec v 0); [discriminate|].
      intros Hr. injection Hr as <- <-. lia.
    + destruct (ParseUint 64 (firstn (S i) b)) as [sp|] eqn:Es; [|discriminate].
      destruct (parse_ok_is_value 64 _ sp ok64 (wf_firstn (S i) b Hb') Es) as (_ & _ & _ & Hsp).
      destruct (Z.geb_spec sp n); [discriminate|].
      destruct (skipn (S (S i)) b) as [|c2 b2] eqn:Eb; [intros Hr; injection Hr as <- <-; lia|].
      destruct (ParseUint 64 (c2 :: b2)) as [ep|] eqn:Ee; [|discriminate].
      assert (Hw2 : wf_bytes (c2 :: b2)) by (rewrite <- Eb; apply wf_skipn; assumption).
      destruct (parse_ok_is_value 64 _ ep ok64 Hw2 Ee) as (_ & _ & _ & Hep).
      destruct (Z.geb_spec ep n); match goal with |- context[?a <? sp] => destruct (Z.ltb_spec a sp) end;
        try discriminate; intros Hr; injection Hr as <- <-; lia.
Qed.
