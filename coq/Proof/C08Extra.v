(* C08Extra.v — "result or error, never out of fuel" for the value parsers other properties model, collected
   for Properties/C08.v.  Additions only: lemmas that are missing in the owners' Proof files live here. *)
From Coq Require Import Lia.
From FH Require Import Model.Base.
From FH Require Model.Args Proof.ArgsProof Model.Cookie Model.ByteRange Proof.ByteRangeProof
  Model.IPv6 Proof.IPv6Proof Model.PathNorm Proof.PathNormProof.

(* ---------- Args.ParseBytes (Model/Args.v, C28) ---------- *)
Lemma args_total a b : exists a', Args.ParseBytes a b = Some a'.
Proof. destruct (ArgsProof.ParseBytes_spec a b) as (a' & E & _). eauto. Qed.

(* ---------- Cookie.ParseBytes (Model/Cookie.v, C06) ---------- *)
Section CookieTotal.
Import Cookie.
Open Scope N_scope.

Lemma split_at_len d b : forall a t, split_at d b = (a, Some t) -> (length t < length b)%nat.
Proof.
  induction b as [|c r IH]; intros a t; cbn [split_at]; [discriminate|].
  destruct (c =? d).
  - intros [= _ <-]. cbn. lia.
  - destruct (split_at d r) as [a' t'] eqn:E. destruct t' as [t'|]; intros Hx; [|discriminate].
    injection Hx as _ Ht. subst t'. specialize (IH _ _ eq_refl). cbn [length]. lia.
Qed.

Lemma scan_pair_shrinks b k v rest : scan_pair b = Some (k, v, rest) -> (length rest < length b)%nat.
Proof.
  unfold scan_pair. destruct b as [|c0 b0]; [discriminate|].
  destruct (split_at 59 (c0 :: b0)) as [seg after] eqn:Es.
  assert (Hrest : (length (match after with
                           | Some (c :: r) => if (c =? 32)%N then r else c :: r
                           | Some [] => []
                           | None => []
                           end) < length (c0 :: b0))%nat).
  { destruct after as [[|c r]|]; cbn [length]; try lia.
    pose proof (split_at_len _ _ _ _ Es) as H. cbn [length] in H. destruct (c =? 32)%N; cbn [length]; lia. }
  destruct (split_at 61 seg) as [x y]. destruct y; intros [= _ _ <-]; exact Hrest.
Qed.

Lemma parse_attrs_fuel fuel : forall b c, (length b <= fuel)%nat -> parse_attrs fuel b c <> POutOfFuel.
Proof.
  induction fuel as [|fuel IH]; intros b c Hl.
  - destruct b; [discriminate|cbn in Hl; lia].
  - cbn [parse_attrs]. unfold nextRaw. destruct (scan_pair b) as [[[k v] rest]|] eqn:E; [|discriminate].
    pose proof (scan_pair_shrinks _ _ _ _ E) as Hs.
    destruct (apply_attr c k v) eqn:Ea; try discriminate.
    + apply IH. lia.
    + (* apply_attr never answers POutOfFuel *)
      exfalso. revert Ea. unfold apply_attr.
      repeat (match goal with |- context [match ?x with _ => _ end] => destruct x end); discriminate.
Qed.

Lemma cookie_total src : ParseBytes src <> POutOfFuel.
Proof.
  unfold ParseBytes, nextRaw. destruct (scan_pair src) as [[[k v] rest]|]; [|discriminate].
  destruct (negb (validCookieValue v)); [discriminate|]. apply parse_attrs_fuel. lia.
Qed.
End CookieTotal.

(* ---------- ParseByteRange (Model/ByteRange.v, C24): a fuel-free function; a result is inside the resource ---------- *)
Lemma byterange_total r n : wf_bytes r ->
  ByteRange.ParseByteRange r n = ByteRange.BRErr \/
  exists s e, ByteRange.ParseByteRange r n = ByteRange.BROk s e /\ (0 <= s /\ s <= e /\ e < n)%Z.
Proof.
  intros Hwf. destruct (ByteRange.ParseByteRange r n) as [s e|] eqn:E; [right|left; reflexivity].
  exists s, e. split; [reflexivity|]. exact (ByteRangeProof.range_invariant r n s e Hwf E).
Qed.

(* ---------- URI.Parse's fuelled parts (Model/PathNorm.v C26, Model/IPv6.v C31) ---------- *)
Lemma wf_firstn n (s : bytes) : wf_bytes s -> wf_bytes (firstn n s).
Proof.
  unfold wf_bytes. revert s; induction n; intros s H; [constructor|].
  destruct s; [constructor|]. inversion H; subst. cbn. constructor; auto.
Qed.
Lemma wf_skipn n (s : bytes) : wf_bytes s -> wf_bytes (skipn n s).
Proof.
  unfold wf_bytes. revert s; induction n; intros s H; [exact H|].
  destruct s; [constructor|]. inversion H; subst. cbn. auto.
Qed.

Lemma hex_case (s : bytes) (f : Z -> bool -> IPv6.v6err) :
  wf_bytes s -> (forall g d, f g d <> IPv6.V6OutOfFuel) ->
  match IPv6.parseIPv6Hextets s false with
  | IPv6.HexOutOfFuel => IPv6.V6OutOfFuel
  | IPv6.HexFail => IPv6.ErrInvalidIPv6Address
  | IPv6.HexOk g d => f g d
  end <> IPv6.V6OutOfFuel.
Proof.
  intros Hwf Hf. pose proof (IPv6Proof.hextets_total s Hwf) as H.
  destruct (IPv6.parseIPv6Hextets s false); [apply Hf|discriminate|congruence].
Qed.

Lemma v6_addr_total addr : wf_bytes addr -> IPv6.v6_addr addr <> IPv6.V6OutOfFuel.
Proof.
  intros Hwf. unfold IPv6.v6_addr.
  destruct (IPv6.idxByte addr COLON); [|discriminate].
  destruct (IPv6.idxByte addr DOT).
  - destruct (IPv6.lastIdxByte addr COLON) as [lc|]; [|discriminate].
    destruct (_ =? _)%nat; [discriminate|]. destruct (negb _); [discriminate|]. cbv zeta.
    apply hex_case.
    + destruct (_ && _); now apply wf_firstn.
    + intros g d. destruct (_ && _); [discriminate|]. destruct (IPv6.bad_count _ _); discriminate.
  - apply hex_case; [exact Hwf|]. intros g d. destruct (IPv6.bad_count _ _); discriminate.
Qed.

Lemma ipv6_total host : wf_bytes host -> IPv6.validateIPv6Literal host <> IPv6.V6OutOfFuel.
Proof.
  intros Hwf. unfold IPv6.validateIPv6Literal.
  destruct host as [|c0 h]; [discriminate|].
  destruct (negb _); [discriminate|].
  destruct (IPv6.idxByte (c0 :: h) RBR) as [e|]; [|discriminate].
  destruct (_ || _); [discriminate|].
  set (addr := firstn (e - 1) (skipn 1 (c0 :: h))).
  assert (Ha : wf_bytes addr) by (apply wf_firstn, wf_skipn; exact Hwf).
  destruct (IPv6.idxByte addr PCT) as [zi|].
  - destruct (_ =? _)%nat; [discriminate|]. apply v6_addr_total. now apply wf_firstn.
  - now apply v6_addr_total.
Qed.

Lemma normalizePath_total src : exists r, PathNorm.normalizePath_opt src = Some r.
Proof. eexists. apply PathNormProof.normalizePath_opt_total. Qed.
