(* C08ExtraUri.v — URI.parse (Model/Uri.v, C27) never reports the out-of-fuel artefact of its IPv6 validator, and
   its path normaliser never runs out of fuel: "result or error" for every pair of byte strings. *)
From Coq Require Import Lia.
From FH Require Import Model.Base Gen.GenC27 Model.IPv6 Model.PathNorm Model.Uri Proof.UriProof Proof.C08Extra.
Open Scope N_scope.

Lemma wf_app (a b : bytes) : wf_bytes a -> wf_bytes b -> wf_bytes (a ++ b).
Proof. unfold wf_bytes. intros. apply Forall_app. auto. Qed.

Lemma wf_unescape_decode s : wf_bytes s -> wf_bytes (unescape_decode s).
Proof.
  unfold wf_bytes. remember (length s) as n eqn:Hn. revert s Hn.
  induction n as [n IH] using lt_wf_ind. intros s Hn Hwf.
  destruct s as [|c r]; [constructor|]. inversion Hwf as [|? ? Hc Hr]; subst. cbn [unescape_decode].
  destruct (c =? PCT).
  - destruct r as [|c1 [|c2 r']]; try (repeat constructor; assumption).
    constructor.
    + exact (proj1 (dec_byte_facts _ _ (unhex_lt c1) (unhex_lt c2))).
    + inversion Hr as [|? ? _ Hr1]; subst. inversion Hr1; subst. eapply IH; [|reflexivity|assumption]. cbn. lia.
  - constructor; [exact Hc|]. eapply IH; [|reflexivity|exact Hr]. cbn. lia.
Qed.

Lemma unescape_check_class s m e : unescape_check s m = Some e -> e = ErrEscape \/ e = ErrHostChar.
Proof.
  remember (length s) as n eqn:Hn. revert s Hn.
  induction n as [n IH] using lt_wf_ind. intros s Hn.
  destruct s as [|c r]; [discriminate|]. cbn [unescape_check].
  destruct (c =? PCT).
  - destruct r as [|c1 [|c2 r']]; try (intros [= <-]; auto).
    destruct (_ || _); [intros [= <-]; auto|].
    destruct (_ && _ && _); [intros [= <-]; auto|].
    destruct (_ && _); [intros [= <-]; auto|].
    eapply IH; [|reflexivity]. subst n. cbn. lia.
  - destruct (_ && _); [intros [= <-]; auto|]. eapply IH; [|reflexivity]. subst n. cbn. lia.
Qed.

Definition fuel_err {A} (r : ures A) : Prop := r = UErr (ErrIPv6 V6OutOfFuel).

Lemma unescape_cases s m : (exists e, unescape s m = UErr e /\ (e = ErrEscape \/ e = ErrHostChar)) \/ unescape s m = UOk (unescape_decode s).
Proof.
  unfold unescape. destruct (unescape_check s m) as [e|] eqn:E; [left|right; reflexivity].
  exists e. split; [reflexivity|]. eapply unescape_check_class; eauto.
Qed.

Lemma v6_then_no_fuel h : wf_bytes h -> ~ fuel_err (v6_then h).
Proof.
  intros Hwf. unfold fuel_err, v6_then. pose proof (ipv6_total h Hwf) as H.
  destruct (validateIPv6Literal h); try discriminate. congruence.
Qed.

Ltac via_unescape s m :=
  let e := fresh "e" in let E := fresh "E" in let C := fresh "C" in
  destruct (unescape_cases s m) as [(e & E & C)|E]; rewrite E;
  [unfold fuel_err; destruct C; subst; discriminate|].

Lemma parseHost_no_fuel h : wf_bytes h -> ~ fuel_err (parseHost h).
Proof.
  intros Hwf.
  assert (Hplain : ~ fuel_err (match unescape h encodeHost with UErr e => UErr e | UOk host => v6_then host end)).
  { via_unescape h encodeHost. apply v6_then_no_fuel. now apply wf_unescape_decode. }
  unfold parseHost. destruct h as [|c0 h']; [exact Hplain|]. set (h := c0 :: h') in *.
  destruct (c0 =? LBR).
  - destruct (IPv6.lastIdxByte h RBR) as [i|]; [|discriminate].
    destruct (negb _); [discriminate|].
    destruct (index (firstn i h) strPct25) as [zone|]; [|exact Hplain].
    via_unescape (firstn zone h) encodeHost.
    via_unescape (skipn zone (firstn i h)) encodeZone.
    via_unescape (skipn i h) encodeHost.
    apply v6_then_no_fuel.
    repeat apply wf_app; apply wf_unescape_decode; repeat (apply wf_firstn || apply wf_skipn); exact Hwf.
  - destruct (_ || _); [discriminate|].
    destruct (IPv6.lastIdxByte h COLON) as [i|]; [|exact Hplain].
    destruct (match IPv6.idxByte (firstn i h) COLON with Some _ => true | None => false end); [discriminate|].
    destruct (negb _); [discriminate|exact Hplain].
Qed.

Lemma wf_const_http : wf_bytes uStrHTTP. Proof. repeat constructor. Qed.

Lemma splitHostURI_wf host uri : wf_bytes host -> wf_bytes uri ->
  wf_bytes (snd (fst (splitHostURI host uri))).
Proof.
  intros Hh Hu. unfold splitHostURI.
  destruct (index uri uStrSlashSlash) as [n|]; [|exact Hh].
  destruct (IPv6.idxByte (firstn n uri) SLASH); [exact Hh|].
  destruct (pick_min _ _); cbn [fst snd]; repeat (apply wf_firstn || apply wf_skipn); exact Hu.
Qed.

Theorem uri_parse_total host uri : wf_bytes host -> wf_bytes uri ->
  (exists u, parse host uri = UOk u) \/ (exists e, parse host uri = UErr e /\ e <> ErrIPv6 V6OutOfFuel).
Proof.
  intros Hh Hu. unfold parse.
  destruct (stringContainsCTLByte uri); [right; eexists; split; [reflexivity|discriminate]|].
  set (split := match host with [] => true | _ => match index uri uStrColonSlashSlash with Some _ => true | None => false end end).
  assert (Hsel : exists ok sch h' u', (if split
            then let '(scheme, newHost, newURI) := splitHostURI host uri in
                 (match scheme with [] => true | _ => isValidScheme scheme end, lowercaseBytes scheme, newHost, newURI)
            else (true, [], host, uri)) = (ok, sch, h', u') /\ wf_bytes h').
  { destruct split.
    - pose proof (splitHostURI_wf host uri Hh Hu) as W.
      destruct (splitHostURI host uri) as [[s nh] nu]. cbn [fst snd] in W. do 4 eexists. split; [reflexivity|exact W].
    - do 4 eexists. split; [reflexivity|exact Hh]. }
  destruct Hsel as (ok & sch & h' & u' & -> & Hh').
  destruct (negb ok); [right; eexists; split; [reflexivity|discriminate]|].
  destruct (IPv6.lastIdxByte h' AT) as [n|].
  - destruct (negb (validUserinfo (firstn n h'))); [right; eexists; split; [reflexivity|discriminate]|].
    pose proof (parseHost_no_fuel (skipn (S n) h') (wf_skipn _ _ Hh')) as Hp.
    destruct (IPv6.idxByte (firstn n h') COLON); (destruct (parseHost (skipn (S n) h')) as [ph|e] eqn:E;
      [left; eexists; reflexivity|right; exists e; split; [reflexivity|intros ->; apply Hp; reflexivity]]).
  - pose proof (parseHost_no_fuel h' Hh') as Hp.
    destruct (parseHost h') as [ph|e] eqn:E;
      [left; eexists; reflexivity|right; exists e; split; [reflexivity|intros ->; apply Hp; reflexivity]].
Qed.
