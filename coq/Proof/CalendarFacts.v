(* Calendar facts: one 400-year era is checked exhaustively by computation, then lifted to all years. *)
From FH Require Import Model.Base Spec.Calendar.
From Coq Require Import Lia ZifyBool ZifyN ZifyNat.
Open Scope Z_scope.

Fixpoint allb_upto (fuel : nat) (i : Z) (f : Z -> bool) : bool :=
  match fuel with O => true | S k => f i && allb_upto k (i + 1) f end.
Lemma allb_upto_spec fuel : forall i f, allb_upto fuel i f = true ->
  forall j, i <= j < i + Z.of_nat fuel -> f j = true.
Proof.
  induction fuel as [|k IH]; intros i f H j Hj; [lia|].
  cbn [allb_upto] in H. apply andb_true_iff in H as [H0 H1].
  destruct (Z.eq_dec j i) as [->|Hne]; [exact H0|]. apply (IH (i + 1) f H1). lia.
Qed.

Definition era_ok (doe : Z) : bool :=
  match cfd_era doe with
  | (yoe, m, d) => (0 <=? yoe) && (yoe <? 400) && (1 <=? m) && (m <=? 12) && (1 <=? d) &&
                   (d <=? days_in_month (yoe + 1) m) && (dfc_era yoe m d =? doe)
  end.
Lemma era_all : allb_upto (Z.to_nat 146097) 0 era_ok = true.
Proof. vm_compute. reflexivity. Qed.

Definition triple_eqb (a b : Z * Z * Z) : bool :=
  match a, b with (x, y, z), (x', y', z') => (x =? x') && (y =? y') && (z =? z') end.
Definition ymd_ok (yoe m d : Z) : bool :=
  let e := dfc_era yoe m d in
  (0 <=? e) && (e <? 146097) && Bool.eqb (triple_eqb (cfd_era e) (yoe, m, d)) (d <=? days_in_month (yoe + 1) m).
Lemma ymd_all : allb_upto (Z.to_nat 400) 0 (fun yoe =>
                 allb_upto 12 1 (fun m => allb_upto 31 1 (fun d => ymd_ok yoe m d))) = true.
Proof. vm_compute. reflexivity. Qed.

Lemma ymd_fact yoe m d : 0 <= yoe < 400 -> 1 <= m <= 12 -> 1 <= d <= 31 -> ymd_ok yoe m d = true.
Proof.
  intros Hy Hm Hd.
  pose proof (allb_upto_spec _ _ _ ymd_all yoe ltac:(lia)) as H1. cbv beta in H1.
  pose proof (allb_upto_spec _ _ _ H1 m ltac:(lia)) as H2. cbv beta in H2.
  apply (allb_upto_spec _ _ _ H2 d). lia.
Qed.

