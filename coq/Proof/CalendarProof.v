(* Lifting the exhaustively checked era facts to all years. *)
From FH Require Import Model.Base Spec.Calendar Proof.CalendarFacts.
From Coq Require Import Lia ZifyBool ZifyN ZifyNat.
Open Scope Z_scope.

Lemma is_leap_period y q : is_leap (y + 400 * q) = is_leap y.
Proof.
  unfold is_leap.
  replace ((y + 400 * q) mod 4) with (y mod 4) by (rewrite (Z.mul_comm 400), <- (Z.mod_add y (100 * q) 4); [f_equal; lia|lia]).
  replace ((y + 400 * q) mod 100) with (y mod 100) by (rewrite <- (Z.mod_add y (4 * q) 100); [f_equal; lia|lia]).
  replace ((y + 400 * q) mod 400) with (y mod 400) by (rewrite <- (Z.mod_add y q 400); [f_equal; lia|lia]).
  reflexivity.
Qed.
Lemma dim_period y q m : days_in_month (y + 400 * q) m = days_in_month y m.
Proof. unfold days_in_month. now rewrite is_leap_period. Qed.

Lemma year_decomp y : y = (y - 1) mod 400 + 1 + 400 * ((y - 1) / 400) /\ 0 <= (y - 1) mod 400 < 400.
Proof. pose proof (Z.div_mod (y - 1) 400 ltac:(lia)). pose proof (Z.mod_pos_bound (y - 1) 400 ltac:(lia)). lia. Qed.

(* time.Date followed by Year/Month/Day gives back (y, m, d) exactly when d is a real day of that month *)
Theorem normalisation_detects_invalid y m d : 1 <= m <= 12 -> 1 <= d <= 31 ->
  triple_eqb (civil_from_days (days_from_civil y m d)) (y, m, d) = (d <=? days_in_month y m).
Proof.
  intros Hm Hd. destruct (year_decomp y) as [Ey Hyoe].
  set (yoe := (y - 1) mod 400) in *. set (q := (y - 1) / 400) in *.
  pose proof (ymd_fact yoe m d Hyoe Hm Hd) as F. unfold ymd_ok in F.
  apply andb_true_iff in F as [F F3]. apply andb_true_iff in F as [F1 F2].
  unfold days_from_civil, civil_from_days. fold yoe q. set (e := dfc_era yoe m d) in *.
  assert (Hdiv : (146097 * q + e) / 146097 = q).
  { symmetry. apply (Z.div_unique (146097 * q + e) 146097 q e); lia. }
  assert (Hmod : (146097 * q + e) mod 146097 = e).
  { symmetry. apply (Z.mod_unique (146097 * q + e) 146097 q e); lia. }
  rewrite Hdiv, Hmod.
  apply Bool.eqb_prop in F3.
  assert (Hdim : days_in_month y m = days_in_month (yoe + 1) m).
  { rewrite <- (dim_period (yoe + 1) q m). f_equal. lia. }
  rewrite Hdim.
  rewrite <- F3. destruct (cfd_era e) as [[y' m'] d']. unfold triple_eqb.
  replace (y' + 1 + 400 * q =? y) with (y' =? yoe) by lia. reflexivity.
Qed.

(* Year/Month/Day of any day number is a valid date that maps back to that day number *)
Theorem civil_from_days_valid n : match civil_from_days n with
  | (y, m, d) => 1 <= m <= 12 /\ 1 <= d <= days_in_month y m /\ days_from_civil y m d = n end.
Proof.
  unfold civil_from_days.
  pose proof (Z.div_mod n 146097 ltac:(lia)) as Hdm. pose proof (Z.mod_pos_bound n 146097 ltac:(lia)) as Hb.
  set (q := n / 146097) in *. set (e := n mod 146097) in *.
  pose proof (allb_upto_spec _ _ _ era_all e ltac:(lia)) as F. unfold era_ok in F.
  destruct (cfd_era e) as [[yoe m] d].
  repeat (apply andb_true_iff in F as [F ?]).
  assert (Hq : (yoe + 1 + 400 * q - 1) / 400 = q) by (symmetry; apply (Z.div_unique _ 400 q yoe); lia).
  assert (Hr : (yoe + 1 + 400 * q - 1) mod 400 = yoe) by (symmetry; apply (Z.mod_unique _ 400 q yoe); lia).
  repeat split; try lia.
  - replace (yoe + 1 + 400 * q) with ((yoe + 1) + 400 * q) by lia. rewrite dim_period. lia.
  - unfold days_from_civil. rewrite Hq, Hr. lia.
Qed.
