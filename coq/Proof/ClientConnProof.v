(* ClientConnProof.v — invariants of the HostClient and PipelineClient connection models (Model/ClientConn.v) over all reachable
   states, for any number of threads, connections and any server behaviour. *)
From Coq Require Import Lia.
From FH Require Import Model.Base Model.ClientConn Spec.ClientConnSpec.
Open Scope nat_scope.
Open Scope list_scope.

(* ---- vocabulary -------------------------------------------------------------------------------------------------------------- *)
Definition pend (k : conn) : list tsym := c_inb k ++ c_srvq k.        (* produced by the server, not yet consumed by the client *)
Definition dead (k : conn) : Prop := c_inb k = [] /\ c_srvclosed k = true.

Lemma quiet_of_pend k : pend k = [] -> quiet k.
Proof. unfold pend, quiet. intros H. apply app_eq_nil in H as [-> ->]. auto. Qed.
Lemma quiet_of_dead k : dead k -> quiet k.
Proof. unfold dead, quiet. intuition. Qed.

(* what is left of the response being read, by reader phase; [dd]: the peer has closed and everything it sent was consumed *)
Definition ph_ok (t : nat) (stream : bool) (dd : Prop) (p : phase) (r : resp) (rest : list tsym) : Prop :=
  match p with
  | PBodyLen n => n <> 0 /\ length rest = n
  | PChunkSize _ => exists rb, rest = tag t (chunk_form rb)
  | PChunkData _ n => n <> 0 /\ exists rb, rest = tag t (map SBody rb ++ [STerm]) /\ length rb = n
  | PBodyIdent _ => stream = false /\ h_fr (r_head r) = FIdent
  | PHold => stream = true /\ rest = []
  | PStreamLen n e => stream = true /\ length rest = n /\ (e = true -> n = 0 \/ dd)
  | PStreamChunked n e => stream = true /\
      ((rest = [] /\ e = true) \/
       ((e = true -> dd) /\
        match n with
        | 0 => exists rb, rest = tag t (chunk_form rb)
        | S _ => exists rb, rest = tag t (map SBody rb ++ [STerm]) /\ length rb = n
        end))
  | PStreamIdent _ => stream = true /\ h_fr (r_head r) = FIdent
  | PStreamBroken => stream = true
  | PAcq | PHead => False
  end.

Lemma ph_ok_mono t stream (dd dd' : Prop) p r rest : (dd -> dd') -> ph_ok t stream dd p r rest -> ph_ok t stream dd' p r rest.
Proof. destruct p as [ | | | | | | | |[|n] e| | ]; cbn; intuition. Qed.

Lemma tag_app t a b : tag t (a ++ b) = tag t a ++ tag t b.
Proof. apply map_app. Qed.
Lemma tag_length t a : length (tag t a) = length a.
Proof. apply map_length. Qed.

Lemma twire_cons t k r :
  twire t k r = (t, SHead (r_head r)) :: (if no_wire_body k (r_head r) then [] else tag t (body_syms r)).
Proof. unfold twire, wire. cbn. destruct (no_wire_body k (r_head r)); reflexivity. Qed.

(* ---- the reader ---------------------------------------------------------------------------------------------------------------- *)
(* reading the head of one's own response *)
Lemma after_head_ok t k r max skip stream dd tl :
  wf_resp r = true -> (is_head k = true -> skip = true) ->
  tl = (if no_wire_body k (r_head r) then [] else tag t (body_syms r)) ->
  match after_head max skip stream (r_head r) with
  | RMore p1 => no_wire_body k (r_head r) = false /\ ph_ok t stream dd p1 r tl
  | RDone body =>
      (tl = [] \/ (skip = true /\ is_head k = false /\ body = false /\ h_nobody (r_head r) = false /\ h_fr (r_head r) <> FLen 0)) /\
      (body = true -> no_wire_body k (r_head r) = false)
  | RFail _ => True
  end.
Proof.
  intros Hwf Hskip ->. unfold after_head, no_wire_body.
  destruct (h_nobody (r_head r)) eqn:Hn; [rewrite !orb_true_r; split; [left; reflexivity|discriminate]|].
  rewrite !orb_false_r.
  destruct skip.
  { split; [|discriminate]. destruct (is_head k) eqn:Hk; [left; reflexivity|].
    unfold wf_resp, body_syms in *. destruct (h_fr (r_head r)) as [[|n]| |] eqn:Hfr.
    - left. apply Nat.eqb_eq in Hwf. destruct (r_body r); [reflexivity|discriminate].
    - right. repeat split; auto. discriminate.
    - right. repeat split; auto. discriminate.
    - right. repeat split; auto. discriminate. }
  destruct (is_head k) eqn:Hk; [specialize (Hskip eq_refl); discriminate|].
  unfold wf_resp, body_syms in *. destruct (h_fr (r_head r)) eqn:Hfr.
  - apply Nat.eqb_eq in Hwf.
    destruct (too_large max n).
    + destruct stream; [|exact I]. split; [reflexivity|]. cbn. rewrite tag_length, map_length. intuition discriminate.
    + destruct n.
      * destruct (r_body r); [|discriminate]. cbn. split; [left; reflexivity|reflexivity].
      * split; [reflexivity|]. cbn. rewrite tag_length, map_length. intuition discriminate.
  - destruct stream; (split; [reflexivity|]); cbn.
    + split; [reflexivity|]. right. split; [discriminate|eexists; reflexivity].
    + eexists; reflexivity.
  - destruct stream; (split; [reflexivity|]); cbn; auto.
Qed.

(* reading one symbol of a buffered body *)
Lemma rd_body_ok t max skip stream dd p r tg sy rest :
  ph_ok t stream dd p r ((tg, sy) :: rest) -> is_stream_phase p = false ->
  match rd_sym max skip stream p sy with
  | RMore p1 => ph_ok t stream dd p1 r rest
  | RDone body => rest = [] /\ body = true
  | RFail _ => True
  end.
Proof.
  intros H Hs. destruct p as [ | |n|cnt|cnt n|cnt| |n e|n e|e| ]; cbn in H, Hs; try discriminate; try contradiction.
  - destruct H as [Hn Hl]. cbn in Hl. cbn [rd_sym]. destruct n as [|[|l]]; [congruence| |].
    + destruct rest; [auto|discriminate].
    + cbn. split; [discriminate|]. lia.
  - destruct H as [rb H]. cbn [rd_sym]. destruct rb as [|b rb]; cbn in H.
    + injection H as -> -> <-. auto.
    + injection H as -> -> ->. destruct (too_large max (cnt + S (length rb))); [exact I|]. cbn.
      split; [discriminate|]. exists (b :: rb). split; reflexivity.
  - destruct H as (Hn & rb & H & Hl). cbn [rd_sym]. destruct rb as [|b rb]; [cbn in Hl; congruence|].
    cbn in H. injection H as -> -> ->. cbn in Hl. destruct n as [|[|l]]; [congruence| |].
    + destruct rb; [|discriminate]. cbn. exists []. reflexivity.
    + cbn. split; [discriminate|]. exists rb. split; [reflexivity|lia].
  - cbn [rd_sym]. destruct (too_large max (S cnt)); [exact I|]. exact H.
Qed.

(* ---- HostClient: the invariant --------------------------------------------------------------------------------------------------- *)
Definition answered (ans : option resp) (t : nat) (x : tctx) (rest : list tsym) (r : resp) : Prop :=
  ans = Some r /\ wf_resp r = true /\ x_got x ++ rest = twire t (o_kind (x_opts x)) r.

Definition thread_ok (ans : option resp) (t : nat) (th : thread) : Prop :=
  match th with
  | TNone => True
  | TRun x p k =>
      True /\
      match p with
      | PAcq => clean k /\ x_got x = []
      | PHead => x_got x = [] /\
                 ((c_outb k = [mkReq t (o_kind (x_opts x))] /\ quiet k) \/
                  (c_outb k = [] /\ exists r, answered ans t x (pend k) r))
      | _ => c_outb k = [] /\ exists r, answered ans t x (pend k) r /\ x_head x = Some (r_head r) /\
             no_wire_body (o_kind (x_opts x)) (r_head r) = false /\
             ph_ok t (o_stream (x_opts x)) (dead k) p r (pend k)
      end
  | TDone x OOk _ =>
      exists r rest, answered ans t x rest r /\
        (o_stream (x_opts x) = false -> o_skip (x_opts x) = false -> h_fr (r_head r) <> FIdent -> rest = [])
  | TDone _ _ _ => True
  end.

Definition Inv (s : st) : Prop :=
  (forall k, In k (s_idle s) -> clean k) /\ forall t, thread_ok (s_ans s t) t (s_thr s t).

Lemma inv_set_thr s t th idle' :
  Inv s -> (forall k, In k idle' -> clean k) -> thread_ok (s_ans s t) t th -> Inv (set_thr (set_idle s idle') t th).
Proof.
  intros [Hi Ht] Hi' Hth. split; [exact Hi'|]. intros j. cbn. destruct (Nat.eqb_spec j t); [subst; exact Hth|apply Ht].
Qed.
Lemma inv_set_thr0 s t th : Inv s -> thread_ok (s_ans s t) t th -> Inv (set_thr s t th).
Proof.
  intros [Hi Ht] Hth. split; [exact Hi|]. intros j. cbn. destruct (Nat.eqb_spec j t); [subst; exact Hth|apply Ht].
Qed.

Lemma rel_same s x : s_idle (rel s x) = s_idle s /\ s_thr (rel s x) = s_thr s /\ s_ans (rel s x) = s_ans s /\ s_max (rel s x) = s_max s.
Proof. unfold rel. destruct (x_rd x); auto. Qed.
Lemma inv_rel s x : Inv s -> Inv (rel s x).
Proof. unfold rel. destruct (x_rd x); intros H; exact H. Qed.
Lemma inv_set_thr0_rel s t x th : Inv s -> thread_ok (s_ans s t) t th -> Inv (set_thr (rel s x) t th).
Proof.
  intros HI Hth. apply inv_set_thr0; [apply inv_rel, HI|]. destruct (rel_same s x) as (_ & _ & -> & _). exact Hth.
Qed.
Lemma inv_set_thr_rel s t x th idle' :
  Inv s -> (forall k, In k idle' -> clean k) -> thread_ok (s_ans s t) t th -> Inv (set_thr (set_idle (rel s x) idle') t th).
Proof.
  intros HI Hi Hth. apply inv_set_thr; [apply inv_rel, HI|exact Hi|]. destruct (rel_same s x) as (_ & _ & -> & _). exact Hth.
Qed.

Lemma In_remove_nth {A} i (l : list A) x : In x (remove_nth i l) -> In x l.
Proof. revert i. induction l as [|a l IH]; intros [|i]; cbn; intuition eauto. Qed.
Lemma In_replace_nth {A} i (v : A) l x : In x (replace_nth i v l) -> x = v \/ In x l.
Proof. revert i. induction l as [|a l IH]; intros [|i]; cbn; intuition eauto. destruct (IH _ H0); auto. Qed.
Lemma nth_error_replace_nth {A} i (v : A) l : i < length l -> In v (replace_nth i v l).
Proof. revert i. induction l as [|a l IH]; intros [|i]; cbn; try lia; auto. intros. right. apply IH. lia. Qed.

Lemma resp_close_ident h : h_fr h = FIdent -> h_nobody h = false -> resp_close h = true.
Proof. unfold resp_close. intros -> ->. apply orb_true_r. Qed.

Lemma no_wire_body_false k h : no_wire_body k h = false -> is_head k = false /\ h_nobody h = false.
Proof. unfold no_wire_body. apply orb_false_elim. Qed.

Lemma close_conn_resp x h : x_head x = Some h -> resp_close h = true -> close_conn x = true.
Proof. unfold close_conn. intros -> ->. cbn. apply orb_true_r. Qed.

(* the tail of RoundTrip *)
Lemma finish_inv s t x k body r :
  Inv s -> True ->
  c_outb k = [] -> answered (s_ans s t) t x (pend k) r -> x_head x = Some (r_head r) ->
  (body = true -> no_wire_body (o_kind (x_opts x)) (r_head r) = false) ->
  (* everything was consumed, or an until-close body ended at the peer's EOF, or (repaired code) a skipped body forces a close *)
  (pend k = [] \/ (o_stream (x_opts x) = false /\ h_fr (r_head r) = FIdent /\ h_nobody (r_head r) = false) \/
   (body = false /\ o_skip (x_opts x) = true /\ close_conn x = true)) ->
  Inv (finish s t x k body).
Proof.
  intros HI Hsafe Hout Hans Hh Hbody Hrest. unfold finish.
  destruct (o_stream (x_opts x) && body) eqn:Hsb.
  - apply andb_true_iff in Hsb as [Hs Hb]. (first [apply inv_set_thr0_rel|apply inv_set_thr0]); [exact HI|]. cbn. split; [exact Hsafe|].
    split; [exact Hout|]. exists r. split; [exact Hans|]. split; [exact Hh|]. split; [auto|]. cbn. split; [exact Hs|].
    destruct Hrest as [Hr|[[Hr _]|[Hr _]]]; [exact Hr|congruence|congruence].
  - assert (Hdone : forall kept, thread_ok (s_ans s t) t (TDone x OOk kept)).
    { intros kept. cbn. exists r, (pend k). split; [exact Hans|]. intros Hs Hk Hfr.
      destruct Hrest as [Hr|[(_ & Hr & _)|(_ & Hr & _)]]; [exact Hr|contradiction|congruence]. }
    destruct (close_conn x) eqn:Hcc.
    + (first [apply inv_set_thr0_rel|apply inv_set_thr0]); [exact HI|apply Hdone].
    + (first [apply inv_set_thr_rel|apply inv_set_thr]); [exact HI| |apply Hdone].
      intros k' [<-|Hin]; [|apply HI; exact Hin]. split; [exact Hout|].
      destruct Hrest as [Hr|[(_ & Hfr & Hnb)|(_ & _ & Hc)]]; [apply quiet_of_pend; exact Hr| |congruence].
      exfalso. rewrite (close_conn_resp _ _ Hh (resp_close_ident _ Hfr Hnb)) in Hcc. discriminate.
Qed.

Lemma pend_set_inb k a rest : c_inb k = a :: rest -> pend k = a :: pend (set_inb k rest).
Proof. unfold pend. cbn. intros ->. reflexivity. Qed.

Lemma not_dead_inb k a rest : c_inb k = a :: rest -> dead k -> False.
Proof. unfold dead. intros -> [H _]. discriminate. Qed.

Ltac inv_some := match goal with H : Some _ = Some _ |- _ => injection H as <- end.

Lemma rd_sym_fail_not_ok max skip stream p sy e : rd_sym max skip stream p sy = RFail e -> e <> OOk.
Proof.
  unfold rd_sym, after_head. intros H Heq. subst e.
  repeat match type of H with
         | context [match ?c with _ => _ end] => destruct c
         | context [if ?c then _ else _] => destruct c
         end; discriminate.
Qed.

(* LRead *)
Lemma read_inv s t x p k tg sy rest :
  Inv s -> s_thr s t = TRun x p k -> c_inb k = (tg, sy) :: rest -> is_stream_phase p = false -> p <> PAcq ->
  let k1 := set_inb k rest in
  let x1 := add_got (match p with PHead => set_head x sy | _ => x end) (tg, sy) in
  Inv (match rd_sym (s_max s) (eff_skip (x_opts x)) (o_stream (x_opts x)) p sy with
       | RMore p1 => set_thr s t (TRun x1 p1 k1)
       | RDone body => finish s t x1 k1 body
       | RFail e => set_thr (rel s x) t (TDone x1 e false)
       end).
Proof.
  intros HI Hth Hinb Hsp Hacq k1 x1.
  pose proof (proj2 HI t) as Ht. rewrite Hth in Ht. destruct Ht as [Hsafe Ht].
  pose proof (pend_set_inb _ _ _ Hinb) as Hpend. fold k1 in Hpend.
  assert (Hfail : forall e, e <> OOk -> Inv (set_thr (rel s x) t (TDone x1 e false))).
  { intros e He. (first [apply inv_set_thr0_rel|apply inv_set_thr0]); [exact HI|]. destruct e; try exact I. congruence. }
  destruct p as [ | |n|cnt|cnt n|cnt| |n e|n e|e| ]; try discriminate; try congruence.
  - (* PHead *)
    destruct Ht as [Hgot [[Hout Hq]|[Hout [r (Ha & Hwf & Heq)]]]].
    { destruct Hq as [Hq _]. congruence. }
    rewrite Hgot, Hpend, twire_cons in Heq. cbn [app] in Heq. injection Heq as -> -> Htl.
    cbn [rd_sym].
    assert (Hsk : is_head (o_kind (x_opts x)) = true -> eff_skip (x_opts x) = true).
    { unfold eff_skip. intros ->. apply orb_true_r. }
    pose proof (after_head_ok t (o_kind (x_opts x)) r (s_max s) _ (o_stream (x_opts x)) (dead k1) _ Hwf Hsk Htl) as Hah.
    assert (Hans1 : answered (s_ans s t) t x1 (pend k1) r).
    { split; [exact Ha|]. split; [exact Hwf|]. subst x1. cbn [x_got x_opts add_got set_head]. rewrite Hgot, twire_cons, <- Htl. reflexivity. }
    destruct (after_head _ _ _ _) as [p1|body|e] eqn:Hahd.
    + destruct Hah as [Hnw Hph]. (first [apply inv_set_thr0_rel|apply inv_set_thr0]); [exact HI|]. cbn. split; [exact Hsafe|].
      assert (Hp1 : match p1 with PAcq | PHead => False | _ => True end).
      { destruct p1; cbn in Hph; try contradiction; exact I. }
      destruct p1; try contradiction; (split; [exact Hout|]); exists r; (split; [exact Hans1|]); (split; [reflexivity|]); (split; [exact Hnw|]); exact Hph.
    + destruct Hah as [Hnil Hb]. apply finish_inv with (r := r); auto.
      destruct Hnil as [Hnil|(Hes & Hk & -> & Hnb & Hfr)]; [left; exact Hnil|right; right].
      assert (Hos : o_skip (x_opts x) = true).
      { unfold eff_skip in Hes. rewrite Hk, orb_false_r in Hes. exact Hes. }
      split; [reflexivity|]. split; [exact Hos|].
      unfold close_conn. subst x1. cbn [x_head x_opts x_reset add_got set_head].
      unfold skipped_body. rewrite Hos, Hk, Hnb. cbn.
      destruct (h_fr (r_head r)) as [[|n]| |]; try contradiction; rewrite ?orb_true_r; reflexivity.
    + apply Hfail. unfold after_head in Hahd.
      repeat match type of Hahd with context [if ?c then _ else _] => destruct c end;
        repeat match type of Hahd with context [match ?c with _ => _ end] => destruct c end; congruence.
  - (* PBodyLen *)
    destruct Ht as [Hout [r ((Ha & Hwf & Heq) & Hh & Hnw & Hph)]]. rewrite Hpend in Hph, Heq.
    pose proof (rd_body_ok t (s_max s) (eff_skip (x_opts x)) _ _ _ r tg sy (pend k1) Hph eq_refl) as Hb.
    assert (Hans1 : answered (s_ans s t) t x1 (pend k1) r).
    { split; [exact Ha|]. split; [exact Hwf|]. subst x1. cbn [x_got x_opts add_got]. rewrite <- app_assoc. exact Heq. }
    destruct (rd_sym _ _ _ _ _) as [p1|body|e] eqn:Hrd.
    + (first [apply inv_set_thr0_rel|apply inv_set_thr0]); [exact HI|]. cbn. split; [exact Hsafe|].
      apply (ph_ok_mono _ _ _ (dead k1)) in Hb; [|intros Hd; exfalso; eapply not_dead_inb; eauto].
      destruct p1 as [ | | | | | | | |[|?] ?| | ]; cbn in Hb; try contradiction; (split; [exact Hout|]); exists r; (split; [exact Hans1|]); (split; [exact Hh|]); (split; [exact Hnw|]); exact Hb.
    + destruct Hb as [Hnil ->]. apply finish_inv with (r := r); auto.
    + apply Hfail. eapply rd_sym_fail_not_ok; eauto.
  - (* PChunkSize *)
    destruct Ht as [Hout [r ((Ha & Hwf & Heq) & Hh & Hnw & Hph)]]. rewrite Hpend in Hph, Heq.
    pose proof (rd_body_ok t (s_max s) (eff_skip (x_opts x)) _ _ _ r tg sy (pend k1) Hph eq_refl) as Hb.
    assert (Hans1 : answered (s_ans s t) t x1 (pend k1) r).
    { split; [exact Ha|]. split; [exact Hwf|]. subst x1. cbn [x_got x_opts add_got]. rewrite <- app_assoc. exact Heq. }
    destruct (rd_sym _ _ _ _ _) as [p1|body|e] eqn:Hrd.
    + (first [apply inv_set_thr0_rel|apply inv_set_thr0]); [exact HI|]. cbn. split; [exact Hsafe|].
      apply (ph_ok_mono _ _ _ (dead k1)) in Hb; [|intros Hd; exfalso; eapply not_dead_inb; eauto].
      destruct p1 as [ | | | | | | | |[|?] ?| | ]; cbn in Hb; try contradiction; (split; [exact Hout|]); exists r; (split; [exact Hans1|]); (split; [exact Hh|]); (split; [exact Hnw|]); exact Hb.
    + destruct Hb as [Hnil ->]. apply finish_inv with (r := r); auto.
    + apply Hfail. eapply rd_sym_fail_not_ok; eauto.
  - (* PChunkData *)
    destruct Ht as [Hout [r ((Ha & Hwf & Heq) & Hh & Hnw & Hph)]]. rewrite Hpend in Hph, Heq.
    pose proof (rd_body_ok t (s_max s) (eff_skip (x_opts x)) _ _ _ r tg sy (pend k1) Hph eq_refl) as Hb.
    assert (Hans1 : answered (s_ans s t) t x1 (pend k1) r).
    { split; [exact Ha|]. split; [exact Hwf|]. subst x1. cbn [x_got x_opts add_got]. rewrite <- app_assoc. exact Heq. }
    destruct (rd_sym _ _ _ _ _) as [p1|body|e] eqn:Hrd.
    + (first [apply inv_set_thr0_rel|apply inv_set_thr0]); [exact HI|]. cbn. split; [exact Hsafe|].
      apply (ph_ok_mono _ _ _ (dead k1)) in Hb; [|intros Hd; exfalso; eapply not_dead_inb; eauto].
      destruct p1 as [ | | | | | | | |[|?] ?| | ]; cbn in Hb; try contradiction; (split; [exact Hout|]); exists r; (split; [exact Hans1|]); (split; [exact Hh|]); (split; [exact Hnw|]); exact Hb.
    + destruct Hb as [Hnil ->]. apply finish_inv with (r := r); auto.
    + apply Hfail. eapply rd_sym_fail_not_ok; eauto.
  - (* PBodyIdent *)
    destruct Ht as [Hout [r ((Ha & Hwf & Heq) & Hh & Hnw & Hph)]]. rewrite Hpend in Hph, Heq.
    pose proof (rd_body_ok t (s_max s) (eff_skip (x_opts x)) _ _ _ r tg sy (pend k1) Hph eq_refl) as Hb.
    assert (Hans1 : answered (s_ans s t) t x1 (pend k1) r).
    { split; [exact Ha|]. split; [exact Hwf|]. subst x1. cbn [x_got x_opts add_got]. rewrite <- app_assoc. exact Heq. }
    destruct (rd_sym _ _ _ _ _) as [p1|body|e] eqn:Hrd.
    + (first [apply inv_set_thr0_rel|apply inv_set_thr0]); [exact HI|]. cbn. split; [exact Hsafe|].
      apply (ph_ok_mono _ _ _ (dead k1)) in Hb; [|intros Hd; exfalso; eapply not_dead_inb; eauto].
      destruct p1 as [ | | | | | | | |[|?] ?| | ]; cbn in Hb; try contradiction; (split; [exact Hout|]); exists r; (split; [exact Hans1|]); (split; [exact Hh|]); (split; [exact Hnw|]); exact Hb.
    + destruct Hb as [Hnil ->]. apply finish_inv with (r := r); auto.
    + apply Hfail. eapply rd_sym_fail_not_ok; eauto.
Qed.

(* a server step changes a connection without changing what the client will see *)
Lemma thread_ok_conn ans t x p k k1 :
  c_outb k1 = c_outb k -> pend k1 = pend k -> (quiet k -> quiet k1) -> (dead k -> dead k1) ->
  thread_ok ans t (TRun x p k) -> thread_ok ans t (TRun x p k1).
Proof.
  intros Ho Hp Hq Hd [Hsafe H]. split; [exact Hsafe|].
  destruct p; rewrite ?Ho, ?Hp.
  - destruct H as [[H1 H2] H3]. split; [split; [congruence|auto]|exact H3].
  - destruct H as [Hg [[H1 H2]|H]]; (split; [exact Hg|]); [left; split; [congruence|auto]|right; exact H].
  - destruct H as [H1 [r (Ha & Hh & Hn & Hph)]]. split; [exact H1|]. exists r. repeat (split; [assumption|]). eapply ph_ok_mono; eauto.
  - destruct H as [H1 [r (Ha & Hh & Hn & Hph)]]. split; [exact H1|]. exists r. repeat (split; [assumption|]). eapply ph_ok_mono; eauto.
  - destruct H as [H1 [r (Ha & Hh & Hn & Hph)]]. split; [exact H1|]. exists r. repeat (split; [assumption|]). eapply ph_ok_mono; eauto.
  - destruct H as [H1 [r (Ha & Hh & Hn & Hph)]]. split; [exact H1|]. exists r. repeat (split; [assumption|]). eapply ph_ok_mono; eauto.
  - destruct H as [H1 [r (Ha & Hh & Hn & Hph)]]. split; [exact H1|]. exists r. repeat (split; [assumption|]). eapply ph_ok_mono; eauto.
  - destruct H as [H1 [r (Ha & Hh & Hn & Hph)]]. split; [exact H1|]. exists r. repeat (split; [assumption|]). eapply ph_ok_mono; eauto.
  - destruct H as [H1 [r (Ha & Hh & Hn & Hph)]]. split; [exact H1|]. exists r. repeat (split; [assumption|]). eapply ph_ok_mono; eauto.
  - destruct H as [H1 [r (Ha & Hh & Hn & Hph)]]. split; [exact H1|]. exists r. repeat (split; [assumption|]). eapply ph_ok_mono; eauto.
  - destruct H as [H1 [r (Ha & Hh & Hn & Hph)]]. split; [exact H1|]. exists r. repeat (split; [assumption|]). eapply ph_ok_mono; eauto.
Qed.

Lemma srv_send_facts k k1 :
  srv_send k = Some k1 -> c_outb k1 = c_outb k /\ pend k1 = pend k /\ ~ quiet k /\ ~ dead k.
Proof.
  unfold srv_send, pend, quiet, dead. destruct (c_srvq k) eqn:Hq; [discriminate|].
  destruct (c_srvclosed k) eqn:Hc; [discriminate|]. intros H. injection H as <-. cbn.
  rewrite <- app_assoc. cbn. repeat split; try reflexivity; intros [_ H]; [destruct H|]; congruence.
Qed.

Lemma srv_close_facts k :
  c_outb (srv_close k) = c_outb k /\ pend (srv_close k) = pend k /\ (quiet k -> quiet (srv_close k)) /\ (dead k -> dead (srv_close k)).
Proof. unfold srv_close, pend, quiet, dead. cbn. intuition. Qed.

Lemma thread_outb ans t x p k :
  thread_ok ans t (TRun x p k) -> c_outb k <> [] ->
  p = PHead /\ c_outb k = [mkReq t (o_kind (x_opts x))] /\ quiet k /\ x_got x = [] /\ True.
Proof.
  intros [Hsafe H] Hne. destruct p.
  - destruct H as [[H _] _]. contradiction.
  - destruct H as [Hg [[H1 H2]|[H1 _]]]; [auto|contradiction].
  - destruct H as [H _]. contradiction.
  - destruct H as [H _]. contradiction.
  - destruct H as [H _]. contradiction.
  - destruct H as [H _]. contradiction.
  - destruct H as [H _]. contradiction.
  - destruct H as [H _]. contradiction.
  - destruct H as [H _]. contradiction.
  - destruct H as [H _]. contradiction.
  - destruct H as [H _]. contradiction.
Qed.

Lemma stream_phase_facts ans t x p k :
  thread_ok ans t (TRun x p k) -> is_stream_phase p = true ->
  True /\ c_outb k = [] /\
  exists r, answered ans t x (pend k) r /\ x_head x = Some (r_head r) /\
            no_wire_body (o_kind (x_opts x)) (r_head r) = false /\ ph_ok t (o_stream (x_opts x)) (dead k) p r (pend k).
Proof. intros [Hsafe H] Hs. destruct p; try discriminate; (split; [exact Hsafe|]); exact H. Qed.

Lemma ph_ok_stream t stream dd p r rest : ph_ok t stream dd p r rest -> is_stream_phase p = true -> stream = true.
Proof. destruct p; cbn; try discriminate; intuition. Qed.

Lemma length_zero_nil {A} (l : list A) : length l = 0 -> l = [].
Proof. destruct l; [reflexivity|discriminate]. Qed.

Lemma step_inv s l s1 : Inv s -> step s l = Some s1 -> Inv s1.
Proof.
  intros HI Hstep. pose proof I as Hsafe. destruct l as [t o from|t reset rd|t e|t|t|t|t|t|t werr|l r|l|l|i]; cbn [step] in Hstep.
  - (* LAcquire *)
    destruct (s_thr s t) eqn:Hth; try discriminate.
    destruct from as [i|].
    + destruct (nth_error (s_idle s) i) as [k|] eqn:Hn; [|discriminate]. injection Hstep as <-.
      (first [apply inv_set_thr_rel|apply inv_set_thr]); [exact HI|intros k' Hk'; apply HI; eapply In_remove_nth; eauto|].
      cbn. split; [exact Hsafe|]. split; [|reflexivity]. apply HI. eapply nth_error_In; eauto.
    + injection Hstep as <-.
      assert (HI' : Inv (mkSt (s_max s) (S (s_next s)) (s_idle s) (s_thr s) (s_ans s) (s_rfree s) (s_rnext s))) by exact HI.
      apply (inv_set_thr0 _ t _ HI'). cbn. split; [exact Hsafe|]. split; [|reflexivity].
      unfold clean, quiet. cbn. auto.
  - (* LWrite *)
    destruct (s_thr s t) as [|x p k|] eqn:Hth; try discriminate. destruct p; try discriminate.
    pose proof (proj2 HI t) as Ht. rewrite Hth in Ht. destruct Ht as [Hs [[Ho Hq] Hg]].
    assert (Hok : forall r, thread_ok (s_ans s t) t
               (TRun (set_rd (set_reset x reset) r) PHead (push_req k (mkReq t (o_kind (x_opts x)))))).
    { intros r. cbn. split; [exact Hs|]. split; [exact Hg|]. left. rewrite Ho. split; [reflexivity|exact Hq]. }
    destruct rd as [i|].
    + destruct (nth_error (s_rfree s) i) as [r|]; [|discriminate]. injection Hstep as <-.
      apply (inv_set_thr0 (set_rfree s _ _)); [exact HI|apply Hok].
    + injection Hstep as <-. apply (inv_set_thr0 (set_rfree s _ _)); [exact HI|apply Hok].
  - (* LFail *)
    destruct (s_thr s t) as [|x p k|] eqn:Hth; destruct e; cbn in Hstep; try discriminate;
      (destruct (is_stream_phase p); [discriminate|]); injection Hstep as <-; ((first [apply inv_set_thr0_rel|apply inv_set_thr0]); [exact HI|exact I]).
  - (* LRead *)
    destruct (s_thr s t) as [|x p k|] eqn:Hth; try discriminate.
    destruct (c_inb k) as [|[tg sy] rest] eqn:Hinb; [discriminate|].
    pose proof (read_inv s t x p k tg sy rest HI Hth Hinb) as Hr. cbv zeta in Hr.
    destruct p; try discriminate;
      (destruct (rd_sym _ _ _ _ _); injection Hstep as <-; (apply Hr; [reflexivity|discriminate])).
  - (* LReadEof *)
    destruct (s_thr s t) as [|x p k|] eqn:Hth; try discriminate. destruct p; try discriminate.
    destruct (c_inb k) eqn:Hinb; [|discriminate]. destruct (c_srvclosed k) eqn:Hc; [|discriminate]. injection Hstep as <-.
    pose proof (proj2 HI t) as Ht. rewrite Hth in Ht. destruct Ht as [Hs [Ho [r (Ha & Hh & Hn & Hst & Hfr)]]].
    apply finish_inv with (r := r); auto. right. left. repeat split; auto. apply (no_wire_body_false _ _ Hn).
  - (* LStreamRead *)
    destruct (s_thr s t) as [|x p k|] eqn:Hth; try discriminate.
    destruct (c_inb k) as [|[tg sy] rest] eqn:Hinb; [discriminate|].
    destruct (stream_sym p sy) as [p1|] eqn:Hss; [|discriminate]. injection Hstep as <-.
    pose proof (proj2 HI t) as Ht. rewrite Hth in Ht.
    assert (Hsp : is_stream_phase p = true) by (destruct p as [ | | | | | | |? [|]|[|?] [|]|[|]| ]; cbn in Hss; try discriminate; reflexivity).
    destruct (stream_phase_facts _ _ _ _ _ Ht Hsp) as (Hs & Ho & r & (Ha & Hwf & Heq) & Hh & Hn & Hph).
    pose proof (pend_set_inb _ _ _ Hinb) as Hpend. rewrite Hpend in Hph, Heq.
    set (k1 := set_inb k rest) in *.
    (first [apply inv_set_thr0_rel|apply inv_set_thr0]); [exact HI|].
    assert (Hans1 : answered (s_ans s t) t (add_got x (tg, sy)) (pend k1) r).
    { split; [exact Ha|]. split; [exact Hwf|]. cbn [x_got x_opts add_got]. rewrite <- app_assoc. exact Heq. }
    assert (Hgoal : ph_ok t (o_stream (x_opts x)) (dead k1) p1 r (pend k1) -> thread_ok (s_ans s t) t (TRun (add_got x (tg, sy)) p1 k1)).
    { intros Hp1. split; [exact Hs|].
      destruct p1; cbn in Hp1; try contradiction; (split; [exact Ho|]); exists r; (split; [exact Hans1|]); (split; [exact Hh|]); (split; [exact Hn|]); exact Hp1. }
    apply Hgoal. clear Hgoal.
    destruct p as [ | | | | | | |n [|]|[|m] [|]|[|]| ]; cbn in Hss; try discriminate.
    + destruct Hph as (Hst & Hl & _). cbn in Hl. destruct n as [|[|n]]; try discriminate; injection Hss as <-; cbn.
      * split; [exact Hst|]. split; [lia|auto].
      * split; [exact Hst|]. split; [lia|discriminate].
    + destruct Hph as (Hst & [[Hnil _]|[_ Hrb]]); [discriminate|].
      destruct Hrb as [rb Hrb]. destruct rb as [|b rb]; cbn in Hrb; injection Hrb as Htg Hsy Hrest; subst sy; cbn in Hss;
        injection Hss as <-; cbn; (split; [exact Hst|]).
      * left. split; [exact Hrest|reflexivity].
      * right. split; [discriminate|]. exists (b :: rb). split; [exact Hrest|reflexivity].
    + destruct Hph as (Hst & [[Hnil _]|[_ Hrb]]); [discriminate|].
      destruct Hrb as (rb & Hrb & Hl). destruct rb as [|b rb]; [discriminate|]. cbn in Hrb. injection Hrb as Htg Hsy Hrest.
      injection Hss as <-. cbn in Hl. cbn. split; [exact Hst|]. right. split; [discriminate|].
      destruct m as [|m].
      * destruct rb; [|discriminate]. exists []. exact Hrest.
      * exists rb. split; [exact Hrest|lia].
    + injection Hss as <-. exact Hph.
  - (* LStreamEof *)
    destruct (s_thr s t) as [|x p k|] eqn:Hth; try discriminate.
    destruct (c_inb k) eqn:Hinb; [|discriminate]. destruct (stream_eof p) as [p1|] eqn:Hse; [|discriminate].
    destruct (c_srvclosed k) eqn:Hc; [|discriminate]. injection Hstep as <-.
    pose proof (proj2 HI t) as Ht. rewrite Hth in Ht.
    assert (Hd : dead k) by (split; assumption).
    assert (Hsp : is_stream_phase p = true) by (destruct p as [ | | | | | | |? [|]|[|?] [|]|[|]| ]; cbn in Hse; try discriminate; reflexivity).
    destruct (stream_phase_facts _ _ _ _ _ Ht Hsp) as (Hs & Ho & r & Hans & Hh & Hn & Hph).
    (first [apply inv_set_thr0_rel|apply inv_set_thr0]); [exact HI|]. split; [exact Hs|].
    destruct p as [ | | | | | | |n [|]|[|m] [|]|[|]| ]; cbn in Hse; try discriminate; injection Hse as <-;
      (split; [exact Ho|]); exists r; (split; [exact Hans|]); (split; [exact Hh|]); (split; [exact Hn|]); cbn in Hph |- *.
    + destruct Hph as (Hst & Hl & _). auto.
    + destruct Hph as (Hst & [[_ He]|[_ Hrb]]); [discriminate|]. split; [exact Hst|]. right. auto.
    + exact Hph.
  - (* LStreamErr *)
    destruct (s_thr s t) as [|x p k|] eqn:Hth; try discriminate. destruct p as [ | | | | | | | |[|?] [|]| | ]; try discriminate.
    injection Hstep as <-. pose proof (proj2 HI t) as Ht. rewrite Hth in Ht.
    destruct (stream_phase_facts _ _ _ _ _ Ht eq_refl) as (Hs & Ho & r & Hans & Hh & Hn & Hph).
    (first [apply inv_set_thr0_rel|apply inv_set_thr0]); [exact HI|]. split; [exact Hs|]. split; [exact Ho|]. exists r.
    split; [exact Hans|]. split; [exact Hh|]. split; [exact Hn|]. cbn. apply Hph.
  - (* LCloseStream *)
    destruct (s_thr s t) as [|x p k|] eqn:Hth; try discriminate.
    destruct (is_stream_phase p) eqn:Hsp; [|discriminate].
    pose proof (proj2 HI t) as Ht. rewrite Hth in Ht.
    destruct (stream_phase_facts _ _ _ _ _ Ht Hsp) as (Hs & Ho & r & Hans & Hh & Hn & Hph).
    pose proof (ph_ok_stream _ _ _ _ _ _ Hph Hsp) as Hst.
    assert (Hdone : forall kept, thread_ok (s_ans s t) t (TDone x OOk kept)).
    { intros kept. cbn. exists r, (pend k). split; [exact Hans|]. congruence. }
    destruct (close_conn x || werr || stream_unread p) eqn:Hc; injection Hstep as <-.
    + (first [apply inv_set_thr0_rel|apply inv_set_thr0]); [exact HI|apply Hdone].
    + (first [apply inv_set_thr_rel|apply inv_set_thr]); [exact HI| |apply Hdone].
      intros k' [<-|Hin]; [|apply HI; exact Hin]. split; [exact Ho|].
      apply orb_false_elim in Hc as [Hc Hu]. apply orb_false_elim in Hc as [Hcc _].
      destruct p as [ | | | | | | |n e|m e|e| ]; try discriminate; cbn in Hph, Hu.
      * apply quiet_of_pend. apply Hph.
      * destruct e; [|discriminate]. destruct Hph as (_ & Hl & He). destruct (He eq_refl) as [->|Hd].
        -- apply quiet_of_pend, length_zero_nil, Hl.
        -- apply quiet_of_dead, Hd.
      * destruct e; [|discriminate]. destruct Hph as (_ & [[Hnil _]|[He _]]).
        -- apply quiet_of_pend, Hnil.
        -- apply quiet_of_dead, He. reflexivity.
      * exfalso. destruct Hph as [_ Hfr].
        rewrite (close_conn_resp _ _ Hh (resp_close_ident _ Hfr (proj2 (no_wire_body_false _ _ Hn)))) in Hcc. discriminate.
  - (* LSrvRead *)
    destruct (conn_at s l) as [k|] eqn:Hc; [|discriminate].
    destruct (srv_read k r) as [[k1 q]|] eqn:Hr; [|discriminate]. injection Hstep as <-.
    unfold srv_read in Hr. destruct (c_outb k) as [|q0 rest0] eqn:Hob; [discriminate|].
    destruct (c_srvclosed k || negb (wf_resp r)) eqn:Hcw; [discriminate|]. injection Hr as <- <-.
    apply orb_false_elim in Hcw as [Hcl Hwf]. apply negb_false_iff in Hwf.
    destruct l as [i|t]; cbn in Hc.
    + exfalso. apply nth_error_In in Hc. apply HI in Hc. destruct Hc as [Hc _]. congruence.
    + destruct (s_thr s t) as [|x p k'|] eqn:Hth; try discriminate. injection Hc as ->.
      pose proof (proj2 HI t) as Ht. rewrite Hth in Ht.
      destruct (thread_outb _ _ _ _ _ Ht) as (-> & Hq0 & Hq & Hg & Hs); [congruence|].
      rewrite Hob in Hq0. injection Hq0 as -> ->.
      unfold put_conn. rewrite Hth. split; [exact (proj1 HI)|]. intros j. cbn.
      destruct (Nat.eqb_spec j t) as [->|Hne].
      * split; [exact Hs|]. split; [exact Hg|]. right. split; [reflexivity|]. exists r.
        split; [reflexivity|]. split; [exact Hwf|]. rewrite Hg. unfold pend. cbn.
        destruct Hq as [-> [->|Hcl']]; [reflexivity|congruence].
      * apply HI.
  - (* LSrvSend *)
    destruct (conn_at s l) as [k|] eqn:Hc; [|discriminate].
    destruct (srv_send k) as [k1|] eqn:Hr; [|discriminate]. injection Hstep as <-.
    destruct (srv_send_facts _ _ Hr) as (Ho & Hp & Hnq & Hnd).
    destruct l as [i|t]; cbn in Hc.
    + exfalso. apply Hnq. apply nth_error_In in Hc. apply HI in Hc. apply Hc.
    + destruct (s_thr s t) as [|x p k'|] eqn:Hth; try discriminate. injection Hc as ->.
      unfold put_conn. rewrite Hth. (first [apply inv_set_thr0_rel|apply inv_set_thr0]); [exact HI|].
      pose proof (proj2 HI t) as Ht. rewrite Hth in Ht.
      eapply thread_ok_conn; eauto; intros; contradiction.
  - (* LSrvClose *)
    destruct (conn_at s l) as [k|] eqn:Hc; [|discriminate]. injection Hstep as <-.
    destruct (srv_close_facts k) as (Ho & Hp & Hq & Hd).
    destruct l as [i|t]; cbn in Hc; unfold put_conn.
    + split; [|exact (proj2 HI)]. cbn. intros k' Hk'. apply In_replace_nth in Hk' as [->|Hk']; [|apply HI; exact Hk'].
      apply nth_error_In in Hc. apply HI in Hc. destruct Hc as [Hc1 Hc2]. split; [congruence|auto].
    + destruct (s_thr s t) as [|x p k'|] eqn:Hth; try discriminate. injection Hc as ->.
      (first [apply inv_set_thr0_rel|apply inv_set_thr0]); [exact HI|]. pose proof (proj2 HI t) as Ht. rewrite Hth in Ht.
      eapply thread_ok_conn; eauto.
  - (* LCleanIdle *)
    destruct (nth_error (s_idle s) i); [|discriminate]. injection Hstep as <-.
    split; [|exact (proj2 HI)]. cbn. intros k' Hk'. apply HI. eapply In_remove_nth; eauto.
Qed.

Lemma inv_init max : Inv (init max).
Proof. split; [intros k []|intros t; exact I]. Qed.

Lemma inv_reach max s : reach max s -> Inv s.
Proof. induction 1; [apply inv_init|eapply step_inv; eauto]. Qed.

(* ---- HostClient: the theorems ------------------------------------------------------------------------------------------------ *)
Fixpoint exec (s : st) (tr : list label) : st :=
  match tr with
  | [] => s
  | l :: rest => exec (match step s l with Some s1 => s1 | None => s end) rest
  end.
Lemma exec_reach max tr : forall s, reach max s -> reach max (exec s tr).
Proof.
  induction tr as [|l tr IH]; intros s Hr; cbn; [exact Hr|]. apply IH.
  destruct (step s l) eqn:E; [eapply reach_step; eauto|exact Hr].
Qed.

Lemma prefix_tags t k r g rest : g ++ rest = twire t k r -> Forall (fun ts => fst ts = t) g.
Proof.
  intros H. assert (Ha : Forall (fun ts : tsym => fst ts = t) (twire t k r)).
  { unfold twire, tag. apply Forall_forall. intros x Hx. apply in_map_iff in Hx as (y & <- & _). reflexivity. }
  rewrite <- H in Ha. apply Forall_app in Ha. apply Ha.
Qed.

Lemma pooled_clean max s : reach max s -> pool_clean s.
Proof. intros Hr. exact (proj1 (inv_reach _ _ Hr)). Qed.

Lemma own_response_inv s t o g : Inv s -> delivered s t = Some (o, g) -> response_of s t o g /\ all_own t g.
Proof.
  intros HI Hd. pose proof (proj2 HI t) as Ht. unfold delivered in Hd.
  assert (H : exists r rest, s_ans s t = Some r /\ wf_resp r = true /\ g ++ rest = twire t (o_kind o) r).
  { destruct (s_thr s t) as [|x p k|x oc kept] eqn:Hth; [discriminate| |].
    - destruct (is_stream_phase p) eqn:Hsp; [|discriminate]. injection Hd as <- <-.
      destruct (stream_phase_facts _ _ _ _ _ Ht Hsp) as (_ & _ & r & Ha & _). exists r, (pend k). exact Ha.
    - destruct oc; try discriminate. injection Hd as <- <-. destruct Ht as (r & rest & Ha & _). exists r, rest. exact Ha. }
  split; [exact H|]. destruct H as (r & rest & _ & _ & H). eapply prefix_tags; eauto.
Qed.
Lemma own_response max s t o g : reach max s -> delivered s t = Some (o, g) -> response_of s t o g /\ all_own t g.
Proof. intros Hr. apply own_response_inv, (inv_reach _ _ Hr). Qed.

Lemma own_response_complete max s t x kept :
  reach max s -> s_thr s t = TDone x OOk kept ->
  o_stream (x_opts x) = false -> o_skip (x_opts x) = false ->
  exists r, s_ans s t = Some r /\ (h_fr (r_head r) <> FIdent -> x_got x = twire t (o_kind (x_opts x)) r).
Proof.
  intros Hr Hth Hs Hk. pose proof (proj2 (inv_reach _ _ Hr) t) as Ht. rewrite Hth in Ht.
  destruct Ht as (r & rest & (Ha & _ & Heq) & Hc). exists r. split; [exact Ha|]. intros Hfr.
  rewrite (Hc Hs Hk Hfr), app_nil_r in Heq. exact Heq.
Qed.

(* the history that used to poison the pool (GET with resp.SkipBody, crafted body), kept for the examples *)
Definition skip_get : opts := mkOpts KGet false false true.
Definition plain_get : opts := mkOpts KGet false false false.
Definition crafted_resp : resp :=
  mkResp (mkHead (FLen 2) false false) [Some (mkHead (FLen 1) false false); None].

(* ---- HostClient: who owns which pooled reader ------------------------------------------------------------------------------- *)
Definition wf_rd (th : thread) : Prop :=
  match th with
  | TRun x PAcq _ => x_rd x = None
  | TRun x _ _ => x_rd x <> None
  | _ => True
  end.

Definition RInv (s : st) : Prop :=
  NoDup (s_rfree s) /\ (forall r, In r (s_rfree s) -> r < s_rnext s) /\
  (forall t, wf_rd (s_thr s t)) /\
  (forall t r, holds_reader (s_thr s t) = Some r -> r < s_rnext s /\ ~ In r (s_rfree s)) /\
  (forall t1 t2 r, holds_reader (s_thr s t1) = Some r -> holds_reader (s_thr s t2) = Some r -> t1 = t2).

(* a step that moves no reader *)
Lemma rinv_same s s' :
  RInv s -> s_rfree s' = s_rfree s -> s_rnext s' = s_rnext s ->
  (forall j, holds_reader (s_thr s' j) = holds_reader (s_thr s j)) -> (forall j, wf_rd (s_thr s' j)) -> RInv s'.
Proof.
  intros (H1 & H2 & H3 & H4 & H5) Hf Hn Hh Hw. unfold RInv. rewrite Hf, Hn.
  split; [exact H1|]. split; [exact H2|]. split; [exact Hw|]. split.
  - intros t r. rewrite Hh. apply H4.
  - intros t1 t2 r. rewrite !Hh. apply H5.
Qed.

(* thread t gives its reader (if it has one) back to the pool and stops *)
Lemma rinv_release s s' t :
  RInv s ->
  s_rfree s' = match holds_reader (s_thr s t) with Some r => r :: s_rfree s | None => s_rfree s end ->
  s_rnext s' = s_rnext s ->
  (forall j, j <> t -> s_thr s' j = s_thr s j) -> holds_reader (s_thr s' t) = None -> wf_rd (s_thr s' t) -> RInv s'.
Proof.
  intros (H1 & H2 & H3 & H4 & H5) Hf Hn Ho Ht Hw. unfold RInv. rewrite Hf, Hn.
  assert (Hh : forall j r, holds_reader (s_thr s' j) = Some r -> j <> t /\ holds_reader (s_thr s j) = Some r).
  { intros j r Hj. destruct (Nat.eq_dec j t) as [->|Hne]; [congruence|]. rewrite (Ho _ Hne) in Hj. auto. }
  split; [|split; [|split; [|split]]].
  - destruct (holds_reader (s_thr s t)) as [r|] eqn:Hr; [|exact H1]. constructor; [apply (H4 _ _ Hr)|exact H1].
  - intros r Hin. destruct (holds_reader (s_thr s t)) as [r0|] eqn:Hr; [|auto]. destruct Hin as [<-|Hin]; [apply (H4 _ _ Hr)|auto].
  - intros j. destruct (Nat.eq_dec j t) as [->|Hne]; [exact Hw|rewrite (Ho _ Hne); apply H3].
  - intros j r Hj. destruct (Hh _ _ Hj) as [Hne Hj']. split; [apply (H4 _ _ Hj')|].
    destruct (holds_reader (s_thr s t)) as [r0|] eqn:Hr; [|apply (H4 _ _ Hj')].
    intros [<-|Hin]; [apply Hne; eapply H5; eauto|apply (H4 _ _ Hj'); exact Hin].
  - intros t1 t2 r Ha Hb. destruct (Hh _ _ Ha), (Hh _ _ Hb). eauto.
Qed.

Lemma rel_rfree s x : s_rfree (rel s x) = match x_rd x with Some r => r :: s_rfree s | None => s_rfree s end /\ s_rnext (rel s x) = s_rnext s.
Proof. unfold rel. destruct (x_rd x); auto. Qed.

Lemma holds_run s t x p k : RInv s -> s_thr s t = TRun x p k -> holds_reader (s_thr s t) = x_rd x.
Proof.
  intros HR Hth. pose proof (proj1 (proj2 (proj2 HR)) t) as Hw. rewrite Hth in *. destruct p; cbn in *; congruence.
Qed.

(* the thread stops: set_thr (rel s x) t (TDone ..), possibly after putting its connection back *)
Lemma rinv_done s t x p k xa xb o kept idle' :
  RInv s -> s_thr s t = TRun x p k -> x_rd xa = x_rd x ->
  RInv (set_thr (rel s xa) t (TDone xb o kept)) /\ RInv (set_thr (set_idle (rel s xa) idle') t (TDone xb o kept)).
Proof.
  intros HR Hth Hx. pose proof (holds_run _ _ _ _ _ HR Hth) as Hh.
  destruct (rel_rfree s xa) as [Hf Hn]. destruct (rel_same s xa) as (_ & Ht & _).
  split; apply (rinv_release s _ t HR).
  all: try (cbn; rewrite ?Hf, ?Hn, ?Hh, ?Hx; reflexivity).
  all: try (cbn; rewrite Nat.eqb_refl; (reflexivity || exact I)).
  all: intros j Hj; cbn; rewrite Ht; destruct (Nat.eqb_spec j t); [contradiction|reflexivity].
Qed.

(* the thread goes on with the same reader *)
Lemma rinv_keep s t x p k x1 p1 k1 :
  RInv s -> s_thr s t = TRun x p k -> x_rd x1 = x_rd x -> (p = PAcq <-> p1 = PAcq) -> RInv (set_thr s t (TRun x1 p1 k1)).
Proof.
  intros HR Hth Hx Hp. pose proof (proj1 (proj2 (proj2 HR)) t) as Hw. rewrite Hth in Hw.
  apply (rinv_same s); auto.
  - intros j. cbn. destruct (Nat.eqb_spec j t) as [->|]; [|reflexivity]. rewrite Hth.
    destruct p, p1; cbn in *; try congruence; try (exfalso; destruct Hp as [Ha Hb]; (discriminate (Ha eq_refl) || discriminate (Hb eq_refl))).
  - intros j. cbn. destruct (Nat.eqb_spec j t) as [->|]; [|apply HR].
    destruct p, p1; cbn in *; try congruence; try (exfalso; destruct Hp as [Ha Hb]; (discriminate (Ha eq_refl) || discriminate (Hb eq_refl))).
Qed.

Lemma finish_rinv s t x p k x1 k1 body :
  RInv s -> s_thr s t = TRun x p k -> p <> PAcq -> x_rd x1 = x_rd x -> RInv (finish s t x1 k1 body).
Proof.
  intros HR Hth Hp Hx. unfold finish. destruct (o_stream (x_opts x1) && body).
  - eapply rinv_keep; eauto. split; [contradiction|discriminate].
  - destruct (close_conn x1); eapply rinv_done; eauto.
Qed.

Lemma step_rinv s l s1 : RInv s -> step s l = Some s1 -> RInv s1.
Proof.
  intros HR Hstep. destruct l as [t o from|t reset rd|t e|t|t|t|t|t|t werr|l r|l|l|i]; cbn [step] in Hstep.
  - (* LAcquire *)
    destruct (s_thr s t) eqn:Hth; try discriminate.
    assert (Hgen : forall s0 x k, s_rfree s0 = s_rfree s -> s_rnext s0 = s_rnext s -> s_thr s0 = s_thr s -> x_rd x = None ->
                                  RInv (set_thr s0 t (TRun x PAcq k))).
    { intros s0 x k Hf Hn Ht Hx. apply (rinv_same s); auto; intros j; cbn; rewrite Ht;
        (destruct (Nat.eqb_spec j t) as [->|]; [rewrite ?Hth; cbn; auto|try reflexivity; apply HR]). }
    destruct from as [i|].
    + destruct (nth_error (s_idle s) i); [|discriminate]. injection Hstep as <-. apply Hgen; reflexivity.
    + injection Hstep as <-. apply Hgen; reflexivity.
  - (* LWrite *)
    destruct (s_thr s t) as [|x p k|] eqn:Hth; try discriminate. destruct p; try discriminate.
    destruct HR as (H1 & H2 & H3 & H4 & H5).
    assert (Hnone : holds_reader (s_thr s t) = None) by (rewrite Hth; reflexivity).
    destruct rd as [i|].
    + destruct (nth_error (s_rfree s) i) as [r|] eqn:Hn; [|discriminate]. injection Hstep as <-.
      pose proof (nth_error_In _ _ Hn) as Hin.
      assert (Hsplit : exists l1 l2, s_rfree s = l1 ++ r :: l2 /\ remove_nth i (s_rfree s) = l1 ++ l2).
      { clear -Hn. revert i Hn. induction (s_rfree s) as [|a l IH]; intros [|i] Hn; cbn in *; try discriminate.
        - injection Hn as ->. exists [], l. auto.
        - destruct (IH _ Hn) as (l1 & l2 & -> & ->). exists (a :: l1), l2. auto. }
      destruct Hsplit as (l1 & l2 & Hfr & Hrm).
      pose proof H1 as Hnd. rewrite Hfr in Hnd. apply NoDup_remove in Hnd as [Hnd Hnot].
      unfold RInv. cbn. rewrite Hrm.
      split; [exact Hnd|]. split; [intros r0 Hr0; apply H2; rewrite Hfr; apply in_app_or in Hr0 as [?|?]; apply in_or_app; cbn; auto|].
      split; [intros j; destruct (Nat.eqb_spec j t); [cbn; discriminate|apply H3]|]. split.
      * intros j r0. destruct (Nat.eqb_spec j t) as [->|Hne]; cbn.
        -- intros Hr0. injection Hr0 as <-. split; [apply H2, Hin|exact Hnot].
        -- intros Hr0. destruct (H4 _ _ Hr0) as [Ha Hb]. split; [exact Ha|]. intros Hc. apply Hb. rewrite Hfr.
           apply in_app_or in Hc as [?|?]; apply in_or_app; cbn; auto.
      * intros t1 t2 r0. destruct (Nat.eqb_spec t1 t) as [->|Hn1], (Nat.eqb_spec t2 t) as [->|Hn2]; cbn; auto.
        -- intros Ha Hb. injection Ha as <-. exfalso. apply (proj2 (H4 _ _ Hb)). exact Hin.
        -- intros Ha Hb. injection Hb as <-. exfalso. apply (proj2 (H4 _ _ Ha)). exact Hin.
        -- apply H5.
    + injection Hstep as <-. unfold RInv. cbn.
      split; [exact H1|]. split; [intros r0 Hr0; specialize (H2 _ Hr0); lia|].
      split; [intros j; destruct (Nat.eqb_spec j t); [cbn; discriminate|apply H3]|]. split.
      * intros j r0. destruct (Nat.eqb_spec j t) as [->|Hne]; cbn.
        -- intros Hr0. injection Hr0 as <-. split; [lia|]. intros Hc. specialize (H2 _ Hc). lia.
        -- intros Hr0. destruct (H4 _ _ Hr0) as [Ha Hb]. split; [lia|exact Hb].
      * intros t1 t2 r0. destruct (Nat.eqb_spec t1 t) as [->|Hn1], (Nat.eqb_spec t2 t) as [->|Hn2]; cbn; auto.
        -- intros Ha Hb. injection Ha as <-. destruct (H4 _ _ Hb). lia.
        -- intros Ha Hb. injection Hb as <-. destruct (H4 _ _ Ha). lia.
        -- apply H5.
  - (* LFail *)
    destruct (s_thr s t) as [|x p k|] eqn:Hth; destruct e; cbn in Hstep; try discriminate;
      (destruct (is_stream_phase p); [discriminate|]); injection Hstep as <-; eapply rinv_done; eauto.
    Unshelve. all: exact [].
  - (* LRead *)
    destruct (s_thr s t) as [|x p k|] eqn:Hth; try discriminate.
    destruct (c_inb k) as [|[tg sy] rest] eqn:Hinb; [discriminate|].
    assert (Hx : forall x0, x_rd (add_got x0 (tg, sy)) = x_rd x0) by reflexivity.
    assert (Hsh : x_rd (set_head x sy) = x_rd x) by (destruct sy as [|?|[?|]|]; reflexivity).
    assert (Hnoacq : forall p0 p1, rd_sym (s_max s) (eff_skip (x_opts x)) (o_stream (x_opts x)) p0 sy = RMore p1 -> p1 <> PAcq).
    { intros p0 p1 H ->. revert H. unfold rd_sym, after_head.
      repeat match goal with
             | |- context [match ?c with _ => _ end] => destruct c
             | |- context [if ?c then _ else _] => destruct c
             end; discriminate. }
    destruct p; try discriminate;
      (destruct (rd_sym _ _ _ _ _) as [p1|body|e] eqn:Hrd; injection Hstep as <-;
       [ apply (rinv_keep s t x _ k _ _ _ HR Hth); [rewrite Hx, ?Hsh; reflexivity|split; [discriminate|intros E; exfalso; exact (Hnoacq _ _ Hrd E)]]
       | apply (finish_rinv s t x _ k _ _ _ HR Hth); [discriminate|rewrite Hx, ?Hsh; reflexivity]
       | apply (proj1 (rinv_done s t x _ k x _ _ false [] HR Hth eq_refl)) ]).
  - (* LReadEof *)
    destruct (s_thr s t) as [|x p k|] eqn:Hth; try discriminate. destruct p; try discriminate.
    destruct (c_inb k); [|discriminate]. destruct (c_srvclosed k); [|discriminate]. injection Hstep as <-.
    eapply finish_rinv; eauto. discriminate.
  - (* LStreamRead *)
    destruct (s_thr s t) as [|x p k|] eqn:Hth; try discriminate.
    destruct (c_inb k) as [|[tg sy] rest]; [discriminate|].
    destruct (stream_sym p sy) as [p1|] eqn:Hss; [|discriminate]. injection Hstep as <-.
    eapply rinv_keep; eauto. split; [intros ->; discriminate|].
    intros ->. destruct p as [ | | | | | | |? [|]|[|?] [|]|[|]| ]; cbn in Hss; try discriminate;
      repeat match type of Hss with context [match ?c with _ => _ end] => destruct c end; discriminate.
  - (* LStreamEof *)
    destruct (s_thr s t) as [|x p k|] eqn:Hth; try discriminate.
    destruct (c_inb k); [|discriminate]. destruct (stream_eof p) as [p1|] eqn:Hse; [|discriminate].
    destruct (c_srvclosed k); [|discriminate]. injection Hstep as <-.
    eapply rinv_keep; eauto. split; [intros ->; discriminate|].
    intros ->. destruct p as [ | | | | | | |? [|]|[|?] [|]|[|]| ]; cbn in Hse; discriminate.
  - (* LStreamErr *)
    destruct (s_thr s t) as [|x p k|] eqn:Hth; try discriminate. destruct p as [ | | | | | | | |[|?] [|]| | ]; try discriminate.
    injection Hstep as <-. eapply rinv_keep; eauto. split; discriminate.
  - (* LCloseStream *)
    destruct (s_thr s t) as [|x p k|] eqn:Hth; try discriminate. destruct (is_stream_phase p); [|discriminate].
    destruct (close_conn x || werr || stream_unread p); injection Hstep as <-; eapply rinv_done; eauto.
    Unshelve. all: exact [].
  - (* LSrvRead *)
    destruct (conn_at s l) as [k|] eqn:Hc; [|discriminate]. destruct (srv_read k r) as [[k1 q]|]; [|discriminate].
    injection Hstep as <-. destruct l as [i|t]; cbn in Hc; unfold put_conn.
    + apply (rinv_same s); auto. intros j; apply HR.
    + destruct (s_thr s t) as [|x p k'|] eqn:Hth; try discriminate.
      assert (HR1 : RInv (set_thr s t (TRun x p k1))) by (eapply rinv_keep; eauto; tauto).
      apply (rinv_same _ _ HR1); auto. intros j; apply HR1.
  - (* LSrvSend *)
    destruct (conn_at s l) as [k|] eqn:Hc; [|discriminate]. destruct (srv_send k) as [k1|]; [|discriminate].
    injection Hstep as <-. destruct l as [i|t]; cbn in Hc; unfold put_conn.
    + apply (rinv_same s); auto. intros j; apply HR.
    + destruct (s_thr s t) as [|x p k'|] eqn:Hth; try discriminate. eapply rinv_keep; eauto; tauto.
  - (* LSrvClose *)
    destruct (conn_at s l) as [k|] eqn:Hc; [|discriminate]. injection Hstep as <-. destruct l as [i|t]; cbn in Hc; unfold put_conn.
    + apply (rinv_same s); auto. intros j; apply HR.
    + destruct (s_thr s t) as [|x p k'|] eqn:Hth; try discriminate. eapply rinv_keep; eauto; tauto.
  - (* LCleanIdle *)
    destruct (nth_error (s_idle s) i); [|discriminate]. injection Hstep as <-. apply (rinv_same s); auto. intros j; apply HR.
Qed.

Lemma rinv_init max : RInv (init max).
Proof. unfold RInv. cbn. repeat split; try constructor; try contradiction; try discriminate; intros; discriminate. Qed.

Lemma rinv_reach max s : reach max s -> RInv s.
Proof. induction 1; [apply rinv_init|eapply step_rinv; eauto]. Qed.

Lemma readers_owned_reach max s : reach max s -> readers_owned s.
Proof.
  intros Hr. destruct (rinv_reach _ _ Hr) as (H1 & H2 & H3 & H4 & H5). split; [|split].
  - intros t x p k Hth Hp. specialize (H3 t). rewrite Hth in *. destruct (x_rd x) as [r|] eqn:Hx.
    + exists r. destruct p; cbn; congruence.
    + destruct p; cbn in H3; congruence.
  - intros t r Hh. apply (H4 _ _ Hh).
  - exact H5.
Qed.

(* ---- PipelineClient ------------------------------------------------------------------------------------------------------------ *)
Definition rd_items (s : pst) : list pitem := match p_rd s with RHold it _ _ => [it] | _ => [] end.
Definition wr_items (s : pst) : list pitem := match p_wr s with WHold it => [it] | _ => [] end.
(* requests written on the connection whose response has not been read completely, in the order they were written *)
Definition inflight (s : pst) : list pitem := rd_items s ++ p_chR s ++ wr_items s.

Definition req_of (it : pitem) : req := mkReq (p_id it) (p_kind it).
Definition wire_of (a : pitem * resp) : list tsym := twire (p_id (fst a)) (p_kind (fst a)) (snd a).
Definition wires (A : list (pitem * resp)) : list tsym := concat (map wire_of A).

Definition ans_ok (s : pst) (a : pitem * resp) : Prop :=
  wf_resp (snd a) = true /\ delimited (snd a) = true /\ In (p_id (fst a), snd a) (p_log s).

(* A: answered, not completely read; B: written, not yet read by the server; D: items the writer gave up while tearing down *)
Definition PEq (s : pst) (k : conn) : Prop :=
  exists A B D,
    map fst A ++ B = inflight s ++ D /\ (D <> [] -> p_dead s = true) /\ c_outb k = map req_of B /\
    (forall a, In a A -> ans_ok s a) /\
    match p_rd s with
    | RHold it PHead got => got = [] /\ pend k = wires A
    | RHold it p got =>
        exists r A' rest, A = (it, r) :: A' /\ pend k = rest ++ wires A' /\ got ++ rest = twire (p_id it) (p_kind it) r /\
                          no_wire_body (p_kind it) (r_head r) = false /\ ph_ok (p_id it) false False p r rest
    | _ => pend k = wires A
    end.

Definition DoneOK (s : pst) : Prop :=
  forall id kd g, p_done s id = Some (kd, OOk, g) ->
    exists r, In (id, r) (p_log s) /\ wf_resp r = true /\ g = twire id kd r.

Definition PInv (s : pst) : Prop :=
  DoneOK s /\
  match p_conn s with
  | None => p_wr s = WDown /\ p_rd s = RDown /\ p_chR s = []
  | Some k => p_rd s = RDown \/ PEq s k
  end.

Lemma doneok_set_done s it o g :
  DoneOK s -> (o = OOk -> exists r, In (p_id it, r) (p_log s) /\ wf_resp r = true /\ g = twire (p_id it) (p_kind it) r) ->
  DoneOK (p_set_done s it o g).
Proof.
  intros HD Hn id kd g' H. cbn in H. destruct (Nat.eqb_spec id (p_id it)) as [->|Hne]; [|eapply HD; eauto].
  injection H as <- -> <-. cbn. apply Hn. reflexivity.
Qed.
Lemma doneok_err s it o g : DoneOK s -> o <> OOk -> DoneOK (p_set_done s it o g).
Proof. intros HD Hn. apply doneok_set_done; [exact HD|]. intros ->. contradiction. Qed.

Lemma doneok_drain l : forall s, DoneOK s -> DoneOK (p_drain s l).
Proof. induction l as [|it l IH]; intros s HD; cbn; [exact HD|]. apply IH, doneok_err; [exact HD|discriminate]. Qed.

Lemma drain_fields l : forall s, p_conn (p_drain s l) = p_conn s /\ p_wr (p_drain s l) = p_wr s /\ p_rd (p_drain s l) = p_rd s.
Proof. induction l as [|it l IH]; intros s; cbn; [auto|]. destruct (IH (p_set_done s it OErr [])) as (-> & -> & ->). auto. Qed.

Lemma wires_app A1 A2 : wires (A1 ++ A2) = wires A1 ++ wires A2.
Proof. unfold wires. rewrite map_app, concat_app. reflexivity. Qed.

Lemma wires_cons a A : wires (a :: A) = wire_of a ++ wires A.
Proof. reflexivity. Qed.

Lemma ans_ok_log s s' a : (forall x, In x (p_log s) -> In x (p_log s')) -> ans_ok s a -> ans_ok s' a.
Proof. unfold ans_ok. intuition. Qed.

Lemma delimited_not_ident r : delimited r = true -> h_fr (r_head r) <> FIdent.
Proof. unfold delimited. destruct (h_fr (r_head r)); congruence. Qed.

(* every step that leaves the connection, the reader, the in-flight list, the dead flag (or sets it) and the log alone preserves PEq *)
Lemma peq_frame s s' k :
  p_rd s' = p_rd s -> inflight s' = inflight s -> (p_dead s = true -> p_dead s' = true) ->
  (forall x, In x (p_log s) -> In x (p_log s')) -> PEq s k -> PEq s' k.
Proof.
  intros Hrd Hin Hdead Hlog (A & B & D & H1 & H2 & H3 & H4 & H5). exists A, B, D.
  rewrite Hrd, Hin. split; [exact H1|]. split; [auto|]. split; [exact H3|]. split; [|exact H5].
  intros a0 Ha0. eapply ans_ok_log; eauto.
Qed.

Ltac peq_split := split; [|split; [|split; [|split]]].

Lemma pstep_inv s l s1 : PInv s -> pstep s l = Some s1 -> PInv s1.
Proof.
  intros [HD HC] Hstep.
  destruct l as [kd| |expired ok| | | | | | | | |r| |]; cbn [pstep] in Hstep.
  - (* PCall *)
    injection Hstep as <-. split; [exact HD|]. cbn. destruct (p_conn s) as [k|]; [|exact HC].
    destruct HC as [HC|HC]; [left; exact HC|right]. apply (peq_frame s); auto.
  - (* PDial *)
    destruct (p_conn s) eqn:Hc; [discriminate|]. injection Hstep as <-. split; [exact HD|]. cbn. right.
    destruct HC as (_ & _ & HR). exists [], [], []. unfold inflight, rd_items, wr_items. cbn. rewrite HR.
    repeat split; auto; try contradiction.
  - (* PWPop *)
    destruct (p_wr s) eqn:Hw; try discriminate. destruct (p_chW s) as [|it restW] eqn:HW; [discriminate|].
    destruct (p_conn s) as [k|] eqn:Hc; [|discriminate].
    destruct expired.
    + injection Hstep as <-. split; [apply doneok_err; [exact HD|discriminate]|]. cbn. rewrite Hc.
      destruct HC as [HC|HC]; [left; exact HC|right]. apply (peq_frame s); auto; try (unfold inflight, rd_items, wr_items; cbn; rewrite ?Hw, ?app_nil_r, <- ?app_assoc; reflexivity).
    + destruct (ok && negb (p_dead s)) eqn:Hok; injection Hstep as <-.
      * apply andb_true_iff in Hok as [_ Hnd]. apply negb_true_iff in Hnd.
        split; [exact HD|]. cbn. destruct HC as [HC|HC]; [left; exact HC|right].
        destruct HC as (A & B & D & H1 & H2 & H3 & H4 & H5).
        assert (D = []) as -> by (destruct D; [reflexivity|]; rewrite H2 in Hnd; [discriminate|discriminate]).
        exists A, (B ++ [it]), []. unfold inflight, rd_items, wr_items in *. cbn. rewrite Hw in H1. rewrite !app_nil_r in *.
        peq_split.
        -- rewrite app_assoc, H1, <- !app_assoc. reflexivity.
        -- intros; contradiction.
        -- rewrite H3, map_app. reflexivity.
        -- exact H4.
        -- exact H5.
      * split; [apply doneok_err; [exact HD|discriminate]|]. cbn. rewrite Hc.
        destruct HC as [HC|HC]; [left; exact HC|right]. apply (peq_frame s); auto; try (unfold inflight, rd_items, wr_items; cbn; rewrite ?Hw, ?app_nil_r, <- ?app_assoc; reflexivity).
  - (* PWPush *)
    destruct (p_wr s) as [| |it] eqn:Hw; try discriminate. injection Hstep as <-. split; [exact HD|]. cbn.
    destruct (p_conn s) as [k|]; [|destruct HC as (HC & _); discriminate].
    destruct HC as [HC|HC]; [left; exact HC|right]. apply (peq_frame s); auto; try (unfold inflight, rd_items, wr_items; cbn; rewrite ?Hw, ?app_nil_r, <- ?app_assoc; reflexivity).
  - (* PWExit *)
    destruct (p_wr s) as [| |it] eqn:Hw; try discriminate; injection Hstep as <-.
    + split; [exact HD|]. cbn. destruct (p_conn s) as [k|]; [|destruct HC as (HC & _); discriminate].
      destruct HC as [HC|HC]; [left; exact HC|right]. apply (peq_frame s); auto; try (unfold inflight, rd_items, wr_items; cbn; rewrite ?Hw, ?app_nil_r, <- ?app_assoc; reflexivity).
    + split; [apply doneok_err; [exact HD|discriminate]|]. cbn.
      destruct (p_conn s) as [k|]; [|destruct HC as (HC & _); discriminate].
      destruct HC as [HC|HC]; [left; exact HC|right].
      destruct HC as (A & B & D & H1 & H2 & H3 & H4 & H5). exists A, B, (it :: D).
      unfold inflight, rd_items, wr_items in *. cbn. rewrite Hw in H1. rewrite app_nil_r.
      peq_split; auto. rewrite H1, <- !app_assoc. reflexivity.
  - (* PRPop *)
    destruct (p_rd s) eqn:Hr; try discriminate. destruct (p_chR s) as [|it restR] eqn:HR; [discriminate|].
    injection Hstep as <-. split; [exact HD|]. cbn.
    destruct (p_conn s) as [k|]; [|destruct HC as (_ & _ & HC); discriminate].
    destruct HC as [HC|HC]; [discriminate|right].
    destruct HC as (A & B & D & H1 & H2 & H3 & H4 & H5). exists A, B, D.
    unfold inflight, rd_items, wr_items in *. cbn. rewrite Hr in H1, H5. rewrite HR in H1. cbn in H1. peq_split; auto.
  - (* PRRead *)
    destruct (p_rd s) as [| |it p got] eqn:Hr; try discriminate. destruct (p_conn s) as [k|] eqn:Hc; [|discriminate].
    destruct (c_inb k) as [|[tg sy] rest] eqn:Hinb; [discriminate|].
    destruct HC as [HC|HC]; [discriminate|].
    destruct HC as (A & B & D & H1 & H2 & H3 & H4 & H5).
    pose proof (pend_set_inb _ _ _ Hinb) as Hpend. set (k1 := set_inb k rest) in *.
    unfold inflight, rd_items in H1. rewrite Hr in H1, H5. cbn [app] in H1.
    (* what the three outcomes need *)
    assert (Hmore : forall p1 A1, p1 <> PHead ->
              (exists r A' rest', A1 = (it, r) :: A' /\ pend k1 = rest' ++ wires A' /\ (got ++ [(tg, sy)]) ++ rest' = twire (p_id it) (p_kind it) r /\
                  no_wire_body (p_kind it) (r_head r) = false /\ ph_ok (p_id it) false False p1 r rest') ->
              A1 = A -> PInv (p_set_rd (p_set_conn s (Some k1)) (RHold it p1 (got ++ [(tg, sy)])))).
    { intros p1 A1 Hp1 Hex ->. split; [exact HD|]. cbn. right. exists A, B, D. unfold inflight, rd_items, wr_items. cbn.
      peq_split; auto. destruct p1; try congruence; exact Hex. }
    assert (Hfail : forall e, e <> OOk ->
              PInv (p_set_dead (p_set_rd (p_set_done (p_set_conn s (Some k1)) it e (got ++ [(tg, sy)])) RDown) true)).
    { intros e He. split; [apply doneok_err; [exact HD|exact He]|]. cbn. left. reflexivity. }
    assert (Hdone : forall r A', A = (it, r) :: A' -> pend k1 = wires A' -> got ++ [(tg, sy)] = twire (p_id it) (p_kind it) r ->
              PInv (p_set_rd (p_set_done (p_set_conn s (Some k1)) it OOk (got ++ [(tg, sy)])) RIdle)).
    { intros r A' -> Hp Hg. split.
      - apply doneok_set_done; [exact HD|]. intros _. exists r. destruct (H4 (it, r) (or_introl eq_refl)) as (Hwf & _ & Hl).
        cbn in Hl. auto.
      - cbn. right. exists A', B, D. unfold inflight, rd_items, wr_items. cbn.
        cbn in H1. injection H1 as H1. peq_split; auto. intros a Ha. apply H4. right. exact Ha. }
    destruct (rd_sym 0 (p_skip it) false p sy) as [p1|body|e] eqn:Hrd; injection Hstep as <-.
    + (* RMore *)
      pose proof Hrd as Hrd0. destruct p as [ | |n|cnt|cnt n|cnt| |n e0|n e0|e0| ]; cbn in Hrd; try discriminate.
      * destruct H5 as [-> H5]. rewrite Hpend in H5.
        destruct A as [|[it' r] A']; [discriminate|]. cbn in H1. injection H1 as -> H1.
        rewrite wires_cons in H5. unfold wire_of at 1 in H5. cbn [fst snd] in H5. rewrite twire_cons in H5. cbn [app] in H5.
        injection H5 as -> -> H5. destruct (H4 (it, r) (or_introl eq_refl)) as (Hwf & _ & _). cbn in Hwf.
        pose proof (after_head_ok (p_id it) (p_kind it) r 0 (p_skip it) false False _ Hwf (fun H => H) eq_refl) as Hah.
        cbn [rd_sym] in Hrd0. rewrite Hrd0 in Hah. destruct Hah as [Hnw Hph].
        apply (Hmore p1 ((it, r) :: A')); [destruct p1; cbn in Hph; try contradiction; discriminate| |reflexivity].
        exists r, A', (if no_wire_body (p_kind it) (r_head r) then [] else tag (p_id it) (body_syms r)).
        split; [reflexivity|]. split; [exact H5|]. split; [rewrite twire_cons; reflexivity|]. split; [exact Hnw|exact Hph].
      * destruct H5 as (r & A' & rest' & -> & Hp & Hg & Hnw & Hph). rewrite Hpend in Hp.
        destruct rest' as [|a rest']; [cbn in Hph; destruct Hph as [Hn Hl]; cbn in Hl; congruence|].
        cbn in Hp. injection Hp as <- Hp.
        pose proof (rd_body_ok (p_id it) 0 (p_skip it) false False _ r tg sy rest' Hph eq_refl) as Hb.
        rewrite Hrd0 in Hb.
        apply (Hmore p1 ((it, r) :: A')); [destruct p1; cbn in Hb; try contradiction; discriminate| |reflexivity].
        exists r, A', rest'. repeat split; auto. rewrite <- app_assoc. exact Hg.
      * destruct H5 as (r & A' & rest' & -> & Hp & Hg & Hnw & Hph). rewrite Hpend in Hp.
        destruct rest' as [|a rest']; [cbn in Hph; destruct Hph as [[|? ?] Hl]; discriminate|].
        cbn in Hp. injection Hp as <- Hp.
        pose proof (rd_body_ok (p_id it) 0 (p_skip it) false False _ r tg sy rest' Hph eq_refl) as Hb.
        rewrite Hrd0 in Hb.
        apply (Hmore p1 ((it, r) :: A')); [destruct p1; cbn in Hb; try contradiction; discriminate| |reflexivity].
        exists r, A', rest'. repeat split; auto. rewrite <- app_assoc. exact Hg.
      * destruct H5 as (r & A' & rest' & -> & Hp & Hg & Hnw & Hph). rewrite Hpend in Hp.
        destruct rest' as [|a rest']; [cbn in Hph; destruct Hph as (_ & [|? ?] & Hl & _); discriminate|].
        cbn in Hp. injection Hp as <- Hp.
        pose proof (rd_body_ok (p_id it) 0 (p_skip it) false False _ r tg sy rest' Hph eq_refl) as Hb.
        rewrite Hrd0 in Hb.
        apply (Hmore p1 ((it, r) :: A')); [destruct p1; cbn in Hb; try contradiction; discriminate| |reflexivity].
        exists r, A', rest'. repeat split; auto. rewrite <- app_assoc. exact Hg.
      * destruct H5 as (r & A' & rest' & -> & Hp & Hg & Hnw & Hph). exfalso.
        destruct (H4 (it, r) (or_introl eq_refl)) as (_ & Hdl & _). cbn in Hdl, Hph.
        apply delimited_not_ident in Hdl. apply Hdl, Hph.
    + (* RDone *)
      pose proof Hrd as Hrd0. destruct p as [ | |n|cnt|cnt n|cnt| |n e0|n e0|e0| ]; cbn in Hrd; try discriminate.
      * destruct H5 as [-> H5]. rewrite Hpend in H5.
        destruct A as [|[it' r] A']; [discriminate|]. cbn in H1. injection H1 as -> H1.
        rewrite wires_cons in H5. unfold wire_of at 1 in H5. cbn [fst snd] in H5. rewrite twire_cons in H5. cbn [app] in H5.
        injection H5 as -> -> H5. destruct (H4 (it, r) (or_introl eq_refl)) as (Hwf & _ & _). cbn in Hwf.
        pose proof (after_head_ok (p_id it) (p_kind it) r 0 (p_skip it) false False _ Hwf (fun H => H) eq_refl) as Hah.
        cbn [rd_sym] in Hrd0. rewrite Hrd0 in Hah. destruct Hah as [[Hnil|(Hsk & Hk & _)] _]; [|unfold p_skip in Hsk; congruence].
        apply (Hdone r A'); [reflexivity| |].
        -- rewrite H5. apply (f_equal (fun l => l ++ wires A')) in Hnil. exact Hnil.
        -- rewrite twire_cons. apply (f_equal (fun l => (p_id it, SHead (r_head r)) :: l)) in Hnil. symmetry. exact Hnil.
      * destruct H5 as (r & A' & rest' & -> & Hp & Hg & Hnw & Hph). rewrite Hpend in Hp.
        destruct rest' as [|a rest']; [cbn in Hph; destruct Hph as [Hn Hl]; cbn in Hl; congruence|].
        cbn in Hp. injection Hp as <- Hp.
        pose proof (rd_body_ok (p_id it) 0 (p_skip it) false False _ r tg sy rest' Hph eq_refl) as Hb.
        rewrite Hrd0 in Hb. destruct Hb as [-> _].
        apply (Hdone r A'); [reflexivity|exact Hp|exact Hg].
      * destruct H5 as (r & A' & rest' & -> & Hp & Hg & Hnw & Hph). rewrite Hpend in Hp.
        destruct rest' as [|a rest']; [cbn in Hph; destruct Hph as [[|? ?] Hl]; discriminate|].
        cbn in Hp. injection Hp as <- Hp.
        pose proof (rd_body_ok (p_id it) 0 (p_skip it) false False _ r tg sy rest' Hph eq_refl) as Hb.
        rewrite Hrd0 in Hb. destruct Hb as [-> _].
        apply (Hdone r A'); [reflexivity|exact Hp|exact Hg].
      * destruct H5 as (r & A' & rest' & -> & Hp & Hg & Hnw & Hph). rewrite Hpend in Hp.
        destruct rest' as [|a rest']; [cbn in Hph; destruct Hph as (_ & [|? ?] & Hl & _); discriminate|].
        cbn in Hp. injection Hp as <- Hp.
        pose proof (rd_body_ok (p_id it) 0 (p_skip it) false False _ r tg sy rest' Hph eq_refl) as Hb.
        rewrite Hrd0 in Hb. destruct Hb as [-> _].
        apply (Hdone r A'); [reflexivity|exact Hp|exact Hg].
    + apply Hfail. eapply rd_sym_fail_not_ok; eauto.
  - (* PRReadEof *)
    destruct (p_rd s) as [| |it p got] eqn:Hr; try discriminate. destruct p; try discriminate.
    destruct (p_conn s) as [k|] eqn:Hc; [|discriminate]. exfalso.
    destruct HC as [HC|HC]; [discriminate|].
    destruct HC as (A & B & D & H1 & H2 & H3 & H4 & H5). rewrite Hr in H5.
    destruct H5 as (r & A' & rest' & -> & Hp & Hg & Hnw & Hph).
    destruct (H4 (it, r) (or_introl eq_refl)) as (_ & Hdl & _). cbn in Hdl, Hph.
    apply delimited_not_ident in Hdl. apply Hdl, Hph.
  - (* PRFail *)
    destruct (p_rd s) as [| |it p got] eqn:Hr; try discriminate. injection Hstep as <-.
    split; [apply doneok_err; [exact HD|discriminate]|]. cbn.
    destruct (p_conn s); [left; reflexivity|destruct HC as (_ & HC & _); discriminate].
  - (* PRExit *)
    destruct (p_rd s) eqn:Hr; try discriminate. injection Hstep as <-. split; [exact HD|]. cbn.
    destruct (p_conn s); [left; reflexivity|destruct HC as (_ & HC & _); discriminate].
  - (* PDrain *)
    destruct (p_wr s) eqn:Hw; try discriminate. destruct (p_rd s) eqn:Hr; try discriminate.
    destruct (p_conn s) eqn:Hc; [|discriminate]. injection Hstep as <-.
    split; [apply (doneok_drain (p_chR s) s HD)|]. cbn.
    destruct (drain_fields (p_chR s) s) as (_ & -> & ->). auto.
  - (* PSrvRead *)
    destruct (p_conn s) as [k|] eqn:Hc; [|discriminate].
    destruct (p_dead s || negb (delimited r)) eqn:Hdd; [discriminate|].
    apply orb_false_elim in Hdd as [Hdead Hdl]. apply negb_false_iff in Hdl.
    destruct (srv_read k r) as [[k1 q]|] eqn:Hsr; [|discriminate]. injection Hstep as <-.
    unfold srv_read in Hsr. destruct (c_outb k) as [|q0 rest0] eqn:Hob; [discriminate|].
    destruct (c_srvclosed k || negb (wf_resp r)) eqn:Hcw; [discriminate|]. injection Hsr as <- <-.
    apply orb_false_elim in Hcw as [_ Hwf]. apply negb_false_iff in Hwf.
    split.
    { intros id kd g H. cbn in H. destruct (HD id kd g H) as (r0 & Hl & Hrest). exists r0. split; [|exact Hrest].
      cbn. apply in_or_app. left. exact Hl. }
    cbn [p_conn p_set_ans p_set_conn p_rd]. destruct HC as [HC|HC]; [left; exact HC|right].
    destruct HC as (A & B & D & H1 & H2 & H3 & H4 & H5).
    rewrite Hob in H3. destruct B as [|b B']; [discriminate|]. cbn [map] in H3. injection H3 as -> H3.
    exists (A ++ [(b, r)]), B', D. unfold inflight, rd_items, wr_items in *.
    cbn [p_rd p_chR p_wr p_dead p_log p_set_ans p_set_conn p_conn c_outb].
    assert (Hpe : pend (mkConn (c_id k) rest0 (c_inb k) (c_srvq k ++ twire (p_id b) (p_kind b) r) false) = pend k ++ wire_of (b, r)).
    { unfold pend, wire_of. cbn. rewrite app_assoc. reflexivity. }
    peq_split.
    + rewrite map_app, <- app_assoc. cbn. exact H1.
    + exact H2.
    + exact H3.
    + intros a Ha. apply in_app_or in Ha as [Ha|[<-|[]]].
      * eapply ans_ok_log; [|apply H4; exact Ha]. intros x Hx. cbn. apply in_or_app. left. exact Hx.
      * split; [exact Hwf|]. split; [exact Hdl|]. cbn. apply in_or_app. right. left. reflexivity.
    + cbn [req_of q_id q_kind] in *. rewrite Hpe.
      destruct (p_rd s) as [| |it p got]; [rewrite H5, wires_app; unfold wires; cbn; rewrite app_nil_r; reflexivity..|].
      destruct p; try (destruct H5 as [-> H5]; split; [reflexivity|]; rewrite H5, wires_app; unfold wires; cbn; rewrite app_nil_r; reflexivity);
        (destruct H5 as (r0 & A' & rest' & -> & Hp & Hrest); exists r0, (A' ++ [(b, r)]), rest'; split; [reflexivity|];
         split; [rewrite Hp, wires_app, <- app_assoc; unfold wires; cbn; rewrite app_nil_r; reflexivity|exact Hrest]).
  - (* PSrvSend *)
    destruct (p_conn s) as [k|] eqn:Hc; [|discriminate]. destruct (p_dead s); [discriminate|].
    destruct (srv_send k) as [k1|] eqn:Hss; [|discriminate]. injection Hstep as <-.
    destruct (srv_send_facts _ _ Hss) as (Ho & Hp & _).
    split; [exact HD|]. cbn. destruct HC as [HC|HC]; [left; exact HC|right].
    destruct HC as (A & B & D & H1 & H2 & H3 & H4 & H5). exists A, B, D. unfold inflight, rd_items, wr_items in *. cbn.
    rewrite Ho, Hp. peq_split; auto.
  - (* PSrvClose *)
    destruct (p_conn s) as [k|] eqn:Hc; [|discriminate]. injection Hstep as <-.
    destruct (srv_close_facts k) as (Ho & Hp & _).
    split; [exact HD|]. cbn [p_conn p_set_conn p_rd]. destruct HC as [HC|HC]; [left; exact HC|right].
    destruct HC as (A & B & D & H1 & H2 & H3 & H4 & H5). exists A, B, D. unfold inflight, rd_items, wr_items in *.
    cbn [p_rd p_chR p_wr p_dead p_log p_set_conn]. rewrite Ho, Hp. peq_split; auto.
Qed.

Lemma pinv_init : PInv pinit.
Proof. split; [intros id kd g H; discriminate|cbn; auto]. Qed.

Lemma pinv_reach s : preach s -> PInv s.
Proof. induction 1; [apply pinv_init|eapply pstep_inv; eauto]. Qed.

Lemma pipeline_own_response s id kd g :
  preach s -> p_done s id = Some (kd, OOk, g) -> p_response_of s id kd g.
Proof. intros Hr. exact (proj1 (pinv_reach _ Hr) id kd g). Qed.

Lemma pipeline_head_no_body s id g :
  preach s -> p_done s id = Some (KHead, OOk, g) -> exists h, g = [(id, SHead h)].
Proof.
  intros Hr Hd. destruct (pipeline_own_response _ _ _ _ Hr Hd) as (r & _ & _ & ->). exists (r_head r). reflexivity.
Qed.

Fixpoint pexec (s : pst) (tr : list plabel) : pst :=
  match tr with
  | [] => s
  | l :: rest => pexec (match pstep s l with Some s1 => s1 | None => s end) rest
  end.
Lemma pexec_reach tr : forall s, preach s -> preach (pexec s tr).
Proof.
  induction tr as [|l tr IH]; intros s Hr; cbn; [exact Hr|]. apply IH.
  destruct (pstep s l) eqn:E; [eapply preach_step; eauto|exact Hr].
Qed.
