(* Proofs for C18: invariants of the connection-pool LTS over all reachable states. *)
From Coq Require Import Lia ZifyBool ZifyNat Permutation.
From FH Require Import Model.Base Gen.GenC18 Model.ClientPool Spec.ClientPoolSpec.
Open Scope Z_scope.

Notation cocc := (count_occ Nat.eq_dec).
Arguments delivered : simpl never.
Arguments set_wst : simpl never.
Arguments getw : simpl never.

(* ---------- list lemmas ---------- *)
Lemma memb_In c l : memb c l = true <-> In c l.
Proof.
  induction l as [|x l IH]; cbn; [split; [discriminate|tauto]|].
  rewrite orb_true_iff, IH, Nat.eqb_eq. tauto.
Qed.

Lemma remove_one_length c l : memb c l = true -> S (length (remove_one c l)) = length l.
Proof.
  induction l as [|x l IH]; cbn; [discriminate|].
  destruct (Nat.eqb x c) eqn:E; cbn; [reflexivity|]. intros H. now rewrite IH.
Qed.

Lemma remove_one_cocc c l x : memb c l = true ->
  (cocc (remove_one c l) x + (if Nat.eq_dec c x then 1 else 0) = cocc l x)%nat.
Proof.
  induction l as [|y l IH]; cbn; [discriminate|].
  destruct (Nat.eqb y c) eqn:E; cbn.
  - apply Nat.eqb_eq in E. subst y. intros _. destruct (Nat.eq_dec c x); lia.
  - intros H. specialize (IH H). destruct (Nat.eq_dec y x); lia.
Qed.

Lemma cocc_snoc l c x : cocc (l ++ [c]) x = (cocc l x + (if Nat.eq_dec c x then 1 else 0))%nat.
Proof. rewrite count_occ_app. cbn. destruct (Nat.eq_dec c x); lia. Qed.

Lemma removelast_last_cocc (l : list nat) x : l <> [] ->
  (cocc (removelast l) x + (if Nat.eq_dec (last l 0%nat) x then 1 else 0) = cocc l x)%nat.
Proof.
  intros H. rewrite (app_removelast_last 0%nat H) at 3. now rewrite cocc_snoc.
Qed.

Lemma removelast_length (l : list nat) : l <> [] -> S (length (removelast l)) = length l.
Proof.
  intros H. rewrite (app_removelast_last 0%nat H) at 2. rewrite app_length. cbn. lia.
Qed.

Lemma upd_length {A} (l : list A) i x : length (upd l i x) = length l.
Proof. revert i; induction l as [|y l IH]; intros [|i]; cbn; auto. Qed.

Lemma upd_nth {A} (l : list A) i j x d : (i < length l)%nat ->
  nth j (upd l i x) d = if Nat.eqb j i then x else nth j l d.
Proof.
  revert i j; induction l as [|y l IH]; intros i j H; cbn in H; [lia|].
  destruct i as [|i], j as [|j]; cbn; auto. apply IH. lia.
Qed.

Lemma upd_ge {A} (l : list A) i x : (length l <= i)%nat -> upd l i x = l.
Proof. revert i; induction l as [|y l IH]; intros [|i] H; cbn in *; auto; try lia. f_equal. apply IH. lia. Qed.

Lemma upd_flat_cocc (f : want -> list nat) ws i x c : (i < length ws)%nat ->
  (cocc (flat_map f (upd ws i x)) c + cocc (f (nth i ws dummy_want)) c = cocc (flat_map f ws) c + cocc (f x) c)%nat.
Proof.
  revert i; induction ws as [|y ws IH]; intros i H; cbn in H; [lia|].
  destruct i as [|i]; cbn; rewrite !count_occ_app; [lia|]. specialize (IH i). lia.
Qed.

Lemma upd_flat_length (f : want -> list nat) ws i x : (i < length ws)%nat ->
  (length (flat_map f (upd ws i x)) + length (f (nth i ws dummy_want)) = length (flat_map f ws) + length (f x))%nat.
Proof.
  revert i; induction ws as [|y ws IH]; intros i H; cbn in H; [lia|].
  destruct i as [|i]; cbn; rewrite !app_length; [lia|]. specialize (IH i). lia.
Qed.

Lemma getw_pending_lt ws w : pending (getw ws w) = true -> (w < length ws)%nat.
Proof.
  intros H. destruct (Nat.ltb_spec w (length ws)) as [L|L]; auto.
  unfold getw in H. rewrite nth_overflow in H by lia. discriminate.
Qed.

Lemma waitingb_pending ws w : waitingb ws w = true -> pending (getw ws w) = true.
Proof. unfold waitingb, pending. destruct (wst (getw ws w)); auto; discriminate. Qed.

Lemma waitingb_lt ws w : waitingb ws w = true -> (w < length ws)%nat.
Proof. intros H. apply getw_pending_lt, waitingb_pending, H. Qed.

Lemma waitingb_delivered_of ws w : waitingb ws w = true -> delivered_of (getw ws w) = [].
Proof. unfold waitingb, delivered_of. destruct (wst (getw ws w)); auto; discriminate. Qed.

Lemma getw_set ws w st i : (w < length ws)%nat ->
  getw (set_wst ws w st) i =
  if Nat.eqb i w then {| wst := st; wdl := wdl (getw ws w); wovr := wovr (getw ws w) |} else getw ws i.
Proof. intros H. unfold getw, set_wst. now rewrite upd_nth. Qed.

Lemma set_wst_length ws w st : length (set_wst ws w st) = length ws.
Proof. apply upd_length. Qed.

Definition dl_of (st : wstatus) : list nat := match st with WDelivered c => [c] | _ => [] end.

Lemma delivered_set_cocc ws w st x : (w < length ws)%nat ->
  (cocc (delivered (set_wst ws w st)) x + cocc (delivered_of (getw ws w)) x = cocc (delivered ws) x + cocc (dl_of st) x)%nat.
Proof.
  intros H. unfold delivered, set_wst.
  pose proof (upd_flat_cocc delivered_of ws w {| wst := st; wdl := wdl (getw ws w); wovr := wovr (getw ws w) |} x H) as E.
  cbn in E. unfold getw in *. destruct st; cbn in *; lia.
Qed.

Lemma delivered_set_length ws w st : (w < length ws)%nat ->
  (length (delivered (set_wst ws w st)) + length (delivered_of (getw ws w)) = length (delivered ws) + length (dl_of st))%nat.
Proof.
  intros H. unfold delivered, set_wst.
  pose proof (upd_flat_length delivered_of ws w {| wst := st; wdl := wdl (getw ws w); wovr := wovr (getw ws w) |} H) as E.
  cbn in E. unfold getw in *. destruct st; cbn in *; lia.
Qed.

Lemma delivered_snoc ws w : wst w = WDecided -> delivered (ws ++ [w]) = delivered ws.
Proof. intros H. unfold delivered. rewrite flat_map_app. cbn. unfold delivered_of. rewrite H. now rewrite !app_nil_r. Qed.

(* ---------- numeric form of the invariants ---------- *)
Definition nheld (s : st) : nat :=
  (length (idle s) + length (lent s) + length (rel s) + length (scratch s) + length (delivered (wants s)))%nat.
Definition occ (s : st) (x : nat) : nat :=
  (cocc (idle s) x + cocc (lent s) x + cocc (rel s) x + cocc (scratch s) x + cocc (delivered (wants s)) x + cocc (closelog s) x)%nat.

Lemma held_length s : length (held s) = nheld s.
Proof. unfold held, nheld. rewrite !app_length. lia. Qed.
Lemma held_cocc s x : cocc (held s ++ closelog s) x = occ s x.
Proof. unfold held, occ. rewrite !count_occ_app. lia. Qed.

(* wants may only evolve like this: same deadlines, and nothing becomes pending again *)
Definition wants_ext (ws ws' : list want) : Prop :=
  length ws' = length ws /\
  forall i, wdl (getw ws' i) = wdl (getw ws i) /\ (pending (getw ws' i) = true -> pending (getw ws i) = true).

Lemma wants_ext_refl ws : wants_ext ws ws.
Proof. split; auto. Qed.

Lemma wants_ext_set ws w st : pending (getw ws w) = true -> wants_ext ws (set_wst ws w st).
Proof.
  intros P. pose proof (getw_pending_lt _ _ P) as L. split; [apply set_wst_length|].
  intros i. rewrite getw_set by exact L. destruct (Nat.eqb_spec i w) as [->|N]; cbn; auto.
Qed.

Definition dl_inv (s : st) : Prop :=
  forall i, pending (getw (wants s) i) = true -> clock s <= wdl (getw (wants s) i).

Record Inv (cf : cfg) (s : st) : Prop := {
  inv_acc : cnt s = Z.of_nat (nheld s + length (closing s) + length (dials s) + decs s);
  inv_occ : forall x, ((x < next s)%nat -> occ s x = 1%nat) /\ ((next s <= x)%nat -> occ s x = 0%nat);
  inv_clog : forall x, (cocc (closing s) x <= cocc (closelog s) x)%nat;
  inv_bound : cnt s <= eff_max cf;
  inv_dl : dl_inv s }.

(* ---------- the shared regions ---------- *)
Lemma pop_waiting_some ws q w q' : pop_waiting ws q = (Some w, q') -> waitingb ws w = true.
Proof.
  induction q as [|y q IH]; cbn; [discriminate|].
  destruct (waitingb ws y) eqn:E; [intros [= <- <-]; exact E | exact IH].
Qed.

Ltac splits := repeat match goal with |- _ /\ _ => split end.

Lemma dec_spec cf s : let s' := dec_conns_count cf s in
  idle s' = idle s /\ lent s' = lent s /\ rel s' = rel s /\ scratch s' = scratch s /\ wants s' = wants s /\
  decs s' = decs s /\ closing s' = closing s /\ next s' = next s /\ clock s' = clock s /\ closelog s' = closelog s /\
  cnt s' + Z.of_nat (length (dials s)) + 1 = cnt s + Z.of_nat (length (dials s')) /\ cnt s' <= cnt s.
Proof.
  unfold dec_conns_count. destruct (negb (waiton cf)); cbn; [splits; auto; lia|].
  destruct (pop_waiting (wants s) (waitq s)) as [[w|] q'] eqn:E; cbn; rewrite ?app_length; cbn; splits; auto; lia.
Qed.

Lemma release_spec cf s c : let s' := release_conn cf s c in
  cnt s' = cnt s /\ lent s' = lent s /\ rel s' = rel s /\ scratch s' = scratch s /\ dials s' = dials s /\
  decs s' = decs s /\ closing s' = closing s /\ next s' = next s /\ clock s' = clock s /\ closelog s' = closelog s /\
  (length (idle s') + length (delivered (wants s')) = length (idle s) + length (delivered (wants s)) + 1)%nat /\
  (forall x, (cocc (idle s') x + cocc (delivered (wants s')) x =
             cocc (idle s) x + cocc (delivered (wants s)) x + (if Nat.eq_dec c x then 1 else 0))%nat) /\
  wants_ext (wants s) (wants s').
Proof.
  unfold release_conn. destruct (negb (waiton cf)); cbn.
  { rewrite app_length; cbn. splits; try reflexivity; try lia; try apply wants_ext_refl. intros x. rewrite cocc_snoc. lia. }
  destruct (pop_waiting (wants s) (waitq s)) as [[w|] q'] eqn:E; cbn.
  - pose proof (pop_waiting_some _ _ _ _ E) as W. pose proof (waitingb_lt _ _ W) as L.
    pose proof (delivered_set_length (wants s) w (WDelivered c) L) as HL.
    rewrite (waitingb_delivered_of _ _ W) in HL. cbn in HL.
    splits; try reflexivity; try lia.
    + intros x. pose proof (delivered_set_cocc (wants s) w (WDelivered c) x L) as HC.
      rewrite (waitingb_delivered_of _ _ W) in HC. cbn in HC. destruct (Nat.eq_dec c x); lia.
    + apply wants_ext_set, waitingb_pending, W.
  - rewrite app_length; cbn. splits; try reflexivity; try lia; try apply wants_ext_refl. intros x. rewrite cocc_snoc. lia.
Qed.

(* ---------- preservation ---------- *)
Lemma getw_snoc ws w i : getw (ws ++ [w]) i =
  if (i <? length ws)%nat then getw ws i else if (i =? length ws)%nat then w else dummy_want.
Proof.
  unfold getw. destruct (Nat.ltb_spec i (length ws)) as [L|L]; [now rewrite app_nth1|].
  destruct (Nat.eqb_spec i (length ws)) as [->|N].
  - rewrite app_nth2 by lia. now rewrite Nat.sub_diag.
  - rewrite nth_overflow; [reflexivity|]. rewrite app_length. cbn. lia.
Qed.

Lemma dl_inv_ext s s' : dl_inv s -> wants_ext (wants s) (wants s') -> clock s' = clock s -> dl_inv s'.
Proof.
  intros D [_ E] C i P. destruct (E i) as [E1 E2]. rewrite C, E1. apply D, E2, P.
Qed.

Ltac eqd := repeat match goal with |- context [Nat.eq_dec ?a ?b] => destruct (Nat.eq_dec a b) | H : context [Nat.eq_dec ?a ?b] |- _ => destruct (Nat.eq_dec a b) end.

Lemma remove_nth_length {A} (l : list A) k d : nth_error l k = Some d -> S (length (remove_nth l k)) = length l.
Proof.
  revert k; induction l as [|y l IH]; intros [|k]; cbn; try discriminate; auto.
Qed.

Ltac use_dec cf s1 :=
  let S := fresh "S" in
  pose proof (dec_spec cf s1) as S; cbv zeta in S;
  destruct S as (Ei & El & Er & Es & Ew & Ed & Ecl & En & Eck & Elg & Ecnt & Ele).
Ltac use_rel cf s1 c :=
  let S := fresh "S" in
  pose proof (release_spec cf s1 c) as S; cbv zeta in S;
  destruct S as (Rc & Rl & Rr & Rs & Rd & Rdc & Rcl & Rn & Rck & Rlg & Rlen & Rocc & Rext).

Lemma step_inv cf s l s' : Inv cf s -> step cf s l = Some s' -> Inv cf s'.
Proof.
  intros [A O CL B D] H. destruct l; cbn in H.
  - (* LAcquire *)
    destruct (tmo <=? 0) eqn:ET; [discriminate|]. injection H as <-. unfold acquire.
    destruct (idle s) as [|c0 r0] eqn:EI.
    + destruct (cnt s <? eff_max cf) eqn:EC.
      * constructor; unfold nheld, occ, dl_inv in *; cbn; rewrite ?app_length; cbn; rewrite ?EI in *; cbn in *; try lia; auto.
      * destruct (waiton cf); [|constructor; auto].
        constructor; unfold nheld, occ, dl_inv in *; cbn; rewrite ?delivered_snoc by reflexivity; rewrite ?EI in *; cbn in *; auto.
        intros i. rewrite getw_snoc. destruct (i <? length (wants s))%nat; [apply D|].
        destruct (i =? length (wants s))%nat; cbn; [lia|discriminate].
    + destruct (fifo cf).
      * constructor; unfold nheld, occ, dl_inv in *; cbn; rewrite ?app_length; cbn; rewrite ?EI in *; cbn in *; try lia; auto.
        intros x. specialize (O x). rewrite cocc_snoc. eqd; lia.
      * assert (NE : idle s <> []) by (rewrite EI; discriminate). rewrite <- EI.
        pose proof (removelast_length (idle s) NE) as HL.
        constructor; unfold nheld, occ, dl_inv in *; cbn; rewrite ?app_length; cbn; try lia; auto.
        intros x. specialize (O x). pose proof (removelast_last_cocc (idle s) x NE). rewrite cocc_snoc. eqd; lia.
  - (* LEnqueue *)
    destruct (wst (getw (wants s) w)) eqn:EW; try discriminate. injection H as <-.
    assert (P : pending (getw (wants s) w) = true) by (unfold pending; now rewrite EW).
    pose proof (getw_pending_lt _ _ P) as L.
    pose proof (delivered_set_length (wants s) w WWaiting L) as HL.
    assert (DO : delivered_of (getw (wants s) w) = []) by (unfold delivered_of; now rewrite EW).
    rewrite DO in HL. cbn in HL.
    constructor; unfold nheld, occ in *; cbn; try lia; auto.
    + intros x. specialize (O x). pose proof (delivered_set_cocc (wants s) w WWaiting x L) as HC. rewrite DO in HC. cbn in HC. lia.
    + eapply dl_inv_ext; [exact D| |reflexivity]. cbn. apply wants_ext_set, P.
  - (* LDialOk *)
    destruct (nth_error (dials s) k) as [d|] eqn:EK; [|discriminate].
    pose proof (remove_nth_length _ _ _ EK) as HK.
    pose proof (O (next s)) as On.
    destruct d as [|w].
    + injection H as <-. constructor; unfold nheld, occ, dl_inv in *; cbn; rewrite ?app_length; cbn; try lia; auto.
      intros x. specialize (O x). rewrite cocc_snoc. eqd; lia.
    + destruct (waitingb (wants s) w) eqn:W; injection H as <-.
      * pose proof (waitingb_lt _ _ W) as L.
        pose proof (delivered_set_length (wants s) w (WDelivered (next s)) L) as HL.
        rewrite (waitingb_delivered_of _ _ W) in HL. cbn in HL.
        constructor; unfold nheld, occ in *; cbn; try lia; auto.
        -- intros x. specialize (O x). pose proof (delivered_set_cocc (wants s) w (WDelivered (next s)) x L) as HC.
           rewrite (waitingb_delivered_of _ _ W) in HC. cbn in HC. eqd; lia.
        -- eapply dl_inv_ext; [exact D| |reflexivity]. cbn. apply wants_ext_set, waitingb_pending, W.
      * constructor; unfold nheld, occ, dl_inv in *; cbn; rewrite ?app_length; cbn; try lia; auto.
        intros x. specialize (O x). rewrite cocc_snoc. eqd; lia.
  - (* LDialFail *)
    destruct (nth_error (dials s) k) as [d|] eqn:EK; [|discriminate].
    pose proof (remove_nth_length _ _ _ EK) as HK.
    destruct d as [|w]; injection H as <-.
    + use_dec cf (with_dials s (remove_nth (dials s) k)). cbn in *.
      constructor; unfold nheld, occ, dl_inv in *; rewrite ?Ei, ?El, ?Er, ?Es, ?Ew, ?Ed, ?Ecl, ?En, ?Eck, ?Elg; try lia; auto.
    + destruct (waitingb (wants s) w) eqn:W.
      * pose proof (waitingb_lt _ _ W) as L.
        pose proof (delivered_set_length (wants s) w WFailed L) as HL.
        rewrite (waitingb_delivered_of _ _ W) in HL. cbn in HL.
        constructor; unfold nheld, occ in *; cbn; try lia; auto.
        -- intros x. specialize (O x). pose proof (delivered_set_cocc (wants s) w WFailed x L) as HC.
           rewrite (waitingb_delivered_of _ _ W) in HC. cbn in HC. lia.
        -- eapply dl_inv_ext; [exact D| |reflexivity]. cbn. apply wants_ext_set, waitingb_pending, W.
      * constructor; unfold nheld, occ, dl_inv in *; cbn; try lia; auto.
  - (* LDec *)
    destruct (decs s) as [|n] eqn:EN; [discriminate|]. injection H as <-.
    use_dec cf (with_decs s n). cbn in *.
    constructor; unfold nheld, occ, dl_inv in *; rewrite ?Ei, ?El, ?Er, ?Es, ?Ew, ?Ed, ?Ecl, ?En, ?Eck, ?Elg; try lia; auto.
  - (* LTake *)
    destruct (wst (getw (wants s) w)) eqn:EW; try discriminate; injection H as <-;
    (assert (P : pending (getw (wants s) w) = true) by (unfold pending; now rewrite EW));
    pose proof (getw_pending_lt _ _ P) as L.
    + pose proof (delivered_set_length (wants s) w (WRet (RConn c)) L) as HL.
      assert (DO : delivered_of (getw (wants s) w) = [c]) by (unfold delivered_of; now rewrite EW).
      rewrite DO in HL. cbn in HL.
      constructor; unfold nheld, occ in *; cbn; rewrite ?app_length; cbn; try lia; auto.
      * intros x. specialize (O x). pose proof (delivered_set_cocc (wants s) w (WRet (RConn c)) x L) as HC.
        rewrite DO in HC. cbn in HC. rewrite cocc_snoc. eqd; lia.
      * eapply dl_inv_ext; [exact D| |reflexivity]. cbn. apply wants_ext_set, P.
    + pose proof (delivered_set_length (wants s) w (WRet RDialErr) L) as HL.
      assert (DO : delivered_of (getw (wants s) w) = []) by (unfold delivered_of; now rewrite EW).
      rewrite DO in HL. cbn in HL.
      constructor; unfold nheld, occ in *; cbn; try lia; auto.
      * intros x. specialize (O x). pose proof (delivered_set_cocc (wants s) w (WRet RDialErr) x L) as HC.
        rewrite DO in HC. cbn in HC. lia.
      * eapply dl_inv_ext; [exact D| |reflexivity]. cbn. apply wants_ext_set, P.
  - (* LTimeout *)
    cbv zeta in H. destruct (clock s <? wdl (getw (wants s) w)) eqn:EC; [discriminate|].
    destruct (wst (getw (wants s) w)) eqn:EW; try discriminate; injection H as <-;
    (assert (P : pending (getw (wants s) w) = true) by (unfold pending; now rewrite EW));
    pose proof (getw_pending_lt _ _ P) as L;
    pose proof (delivered_set_length (wants s) w (WRet (timeout_res (getw (wants s) w))) L) as HL;
    pose proof (fun x => delivered_set_cocc (wants s) w (WRet (timeout_res (getw (wants s) w))) x L) as HC;
    unfold delivered_of in HL, HC; rewrite EW in HL, HC; cbn in HL, HC;
    (constructor; unfold nheld, occ in *; cbn; rewrite ?app_length; cbn; try lia; auto;
     [ intros x; specialize (O x); specialize (HC x); rewrite ?cocc_snoc; eqd; lia
     | eapply dl_inv_ext; [exact D| |reflexivity]; cbn; apply wants_ext_set, P ]).
  - (* LRelease *)
    destruct (memb c (lent s)) eqn:ML; [|destruct (memb c (rel s)) eqn:MR; [|discriminate]]; injection H as <-.
    + use_rel cf (with_lent s (remove_one c (lent s))) c. cbn in *.
      pose proof (remove_one_length _ _ ML) as HL.
      constructor; unfold nheld, occ in *; rewrite ?Rc, ?Rl, ?Rr, ?Rs, ?Rd, ?Rdc, ?Rcl, ?Rn, ?Rck, ?Rlg; try lia; auto.
      * intros x. specialize (O x). specialize (Rocc x). pose proof (remove_one_cocc _ _ x ML). eqd; lia.
      * eapply dl_inv_ext; [exact D|exact Rext|exact Rck].
    + use_rel cf (with_rel s (remove_one c (rel s))) c. cbn in *.
      pose proof (remove_one_length _ _ MR) as HL.
      constructor; unfold nheld, occ in *; rewrite ?Rc, ?Rl, ?Rr, ?Rs, ?Rd, ?Rdc, ?Rcl, ?Rn, ?Rck, ?Rlg; try lia; auto.
      * intros x. specialize (O x). specialize (Rocc x). pose proof (remove_one_cocc _ _ x MR). eqd; lia.
      * eapply dl_inv_ext; [exact D|exact Rext|exact Rck].
  - (* LClose *)
    destruct (memb c (lent s)) eqn:ML; [|destruct (memb c (scratch s)) eqn:MS; [|discriminate]]; injection H as <-.
    + pose proof (remove_one_length _ _ ML) as HL.
      constructor; unfold nheld, occ, dl_inv in *; cbn; rewrite ?app_length; cbn; try lia; auto.
      * intros x. specialize (O x). pose proof (remove_one_cocc _ _ x ML). rewrite cocc_snoc. eqd; lia.
      * intros x. specialize (CL x). rewrite !cocc_snoc. lia.
    + pose proof (remove_one_length _ _ MS) as HL.
      constructor; unfold nheld, occ, dl_inv in *; cbn; rewrite ?app_length; cbn; try lia; auto.
      * intros x. specialize (O x). pose proof (remove_one_cocc _ _ x MS). rewrite cocc_snoc. eqd; lia.
      * intros x. specialize (CL x). rewrite !cocc_snoc. lia.
  - (* LCloseFin *)
    destruct (memb c (closing s)) eqn:MC; [|discriminate]. injection H as <-.
    use_dec cf (with_closing s (remove_one c (closing s))). cbn in *.
    pose proof (remove_one_length _ _ MC) as HL.
    constructor; unfold nheld, occ, dl_inv in *; rewrite ?Ei, ?El, ?Er, ?Es, ?Ew, ?Ed, ?Ecl, ?En, ?Eck, ?Elg; try lia; auto.
    intros x. specialize (CL x). pose proof (remove_one_cocc _ _ x MC). lia.
  - (* LCleanIdle *)
    destruct (k <=? length (idle s))%nat eqn:EK; [|discriminate]. injection H as <-.
    pose proof (firstn_skipn k (idle s)) as FS.
    assert (HL : (length (firstn k (idle s)) + length (skipn k (idle s)) = length (idle s))%nat)
      by (rewrite <- FS at 3; now rewrite app_length).
    constructor; unfold nheld, occ, dl_inv in *; cbn; rewrite ?app_length; try lia; auto.
    intros x. specialize (O x).
    assert (HC : (cocc (firstn k (idle s)) x + cocc (skipn k (idle s)) x = cocc (idle s) x)%nat)
      by (rewrite <- FS at 3; now rewrite count_occ_app).
    rewrite count_occ_app. lia.
  - (* LTick *)
    destruct (forallb _ (wants s)) eqn:EF; [|discriminate]. injection H as <-.
    constructor; unfold nheld, occ in *; cbn; auto.
    intros i P. cbn in *. rewrite forallb_forall in EF.
    pose proof (getw_pending_lt _ _ P) as L.
    specialize (EF (getw (wants s) i) (nth_In _ _ L)). rewrite P in EF. cbn in EF. lia.
Qed.

(* ---------- reachable states ---------- *)
Lemma eff_max_pos cf : 0 < eff_max cf.
Proof. unfold eff_max. destruct (maxc cf <=? 0) eqn:E; [reflexivity | lia]. Qed.

Lemma init_inv cf : Inv cf init.
Proof.
  constructor.
  - reflexivity.
  - intros x. unfold occ, delivered. cbn. lia.
  - intros x. cbn. lia.
  - pose proof (eff_max_pos cf). cbn. lia.
  - intros i. unfold getw. cbn. destruct i; discriminate.
Qed.

Lemma reach_inv cf s : reach cf s -> Inv cf s.
Proof. induction 1 as [|s l s' R IH H]; [apply init_inv | eapply step_inv; eauto]. Qed.

Lemma run_reach cf s ls s' : reach cf s -> run cf s ls = Some s' -> reach cf s'.
Proof.
  revert s; induction ls as [|l ls IH]; cbn; intros s R H; [now injection H as <-|].
  destruct (step cf s l) as [s1|] eqn:E; [|discriminate]. eapply IH; [|exact H]. eapply reach_step; eauto.
Qed.

Theorem exact_accounting_reach cf s : reach cf s -> exact_accounting s.
Proof. intros R. destruct (reach_inv _ _ R) as [A _ _ _ _]. unfold exact_accounting. now rewrite held_length. Qed.

Theorem count_bound_reach cf s : reach cf s -> count_bound cf s.
Proof. intros R. destruct (reach_inv _ _ R) as [A _ _ B _]. unfold count_bound. lia. Qed.

Theorem exclusive_reach cf s : reach cf s -> exclusive s.
Proof.
  intros R. destruct (reach_inv _ _ R) as [_ O _ _ _]. split.
  - apply (NoDup_count_occ Nat.eq_dec). intros x. rewrite held_cocc. specialize (O x). lia.
  - intros c. specialize (O c). rewrite (count_occ_In Nat.eq_dec), held_cocc. lia.
Qed.

Theorem closing_logged_reach cf s : reach cf s -> closing_logged s.
Proof.
  intros R. destruct (reach_inv _ _ R) as [_ _ CL _ _]. intros c H. specialize (CL c).
  apply (count_occ_In Nat.eq_dec) in H. apply (count_occ_In Nat.eq_dec). lia.
Qed.

(* at rest every connection that was ever dialled has been closed, exactly once *)
Theorem quiescent_all_closed cf s : reach cf s -> held s = [] ->
  NoDup (closelog s) /\ forall c, In c (closelog s) <-> (c < next s)%nat.
Proof. intros R H. destruct (exclusive_reach _ _ R) as [N I]. rewrite H in N, I. exact (conj N I). Qed.

(* where the cleaner's private copy and the close log come from *)
Lemma scratch_source cf s l s' : step cf s l = Some s' -> forall c, In c (scratch s') ->
  In c (scratch s) \/ exists k, l = LCleanIdle k /\ In c (firstn k (idle s)).
Proof.
  intros E c I. destruct l; cbn in E.
  - destruct (tmo <=? 0); [discriminate|]. injection E as <-. left. revert I. unfold acquire.
    destruct (idle s); [destruct (cnt s <? eff_max cf); [|destruct (waiton cf)]|destruct (fifo cf)]; cbn; auto.
  - destruct (wst (getw (wants s) w)); try discriminate. injection E as <-. now left.
  - destruct (nth_error (dials s) k) as [[|w0]|]; try discriminate; [|destruct (waitingb (wants s) w0)]; injection E as <-; now left.
  - destruct (nth_error (dials s) k) as [[|w0]|]; try discriminate; injection E as <-.
    + use_dec cf (with_dials s (remove_nth (dials s) k)). rewrite Es in I. now left.
    + destruct (waitingb (wants s) w0); now left.
  - destruct (decs s) as [|n]; [discriminate|]. injection E as <-. use_dec cf (with_decs s n). rewrite Es in I. now left.
  - destruct (wst (getw (wants s) w)); try discriminate; injection E as <-; now left.
  - cbv zeta in E. destruct (clock s <? wdl (getw (wants s) w)); [discriminate|].
    destruct (wst (getw (wants s) w)); try discriminate; injection E as <-; now left.
  - destruct (memb c0 (lent s)); [|destruct (memb c0 (rel s)); [|discriminate]]; injection E as <-.
    + use_rel cf (with_lent s (remove_one c0 (lent s))) c0. rewrite Rs in I. now left.
    + use_rel cf (with_rel s (remove_one c0 (rel s))) c0. rewrite Rs in I. now left.
  - destruct (memb c0 (lent s)); [|destruct (memb c0 (scratch s)) eqn:MS; [|discriminate]]; injection E as <-; cbn in I; [now left|].
    left. clear MS. induction (scratch s) as [|y l IH]; cbn in *; [tauto|]. destruct (Nat.eqb y c0); [now right|].
    destruct I as [->|I]; [now left|right; auto].
  - destruct (memb c0 (closing s)); [|discriminate]. injection E as <-.
    use_dec cf (with_closing s (remove_one c0 (closing s))). rewrite Es in I. now left.
  - destruct (k <=? length (idle s))%nat; [|discriminate]. injection E as <-. cbn in I.
    apply in_app_or in I as [I|I]; [now left|right; eauto].
  - destruct (forallb _ (wants s)); [|discriminate]. injection E as <-. now left.
Qed.

(* Close() is only ever called by CloseConn on a connection its caller holds: a requester, or the cleaner's private copy *)
Lemma closelog_source cf s l s' : step cf s l = Some s' ->
  closelog s' = closelog s \/
  exists c, l = LClose c /\ closelog s' = closelog s ++ [c] /\ (In c (lent s) \/ In c (scratch s)).
Proof.
  intros E. destruct l; cbn in E.
  - destruct (tmo <=? 0); [discriminate|]. injection E as <-. left. unfold acquire.
    destruct (idle s); [destruct (cnt s <? eff_max cf); [|destruct (waiton cf)]|destruct (fifo cf)]; reflexivity.
  - destruct (wst (getw (wants s) w)); try discriminate. injection E as <-. now left.
  - destruct (nth_error (dials s) k) as [[|w0]|]; try discriminate; [|destruct (waitingb (wants s) w0)]; injection E as <-; now left.
  - destruct (nth_error (dials s) k) as [[|w0]|]; try discriminate; injection E as <-.
    + use_dec cf (with_dials s (remove_nth (dials s) k)). left. exact Elg.
    + destruct (waitingb (wants s) w0); now left.
  - destruct (decs s) as [|n]; [discriminate|]. injection E as <-. use_dec cf (with_decs s n). left. exact Elg.
  - destruct (wst (getw (wants s) w)); try discriminate; injection E as <-; now left.
  - cbv zeta in E. destruct (clock s <? wdl (getw (wants s) w)); [discriminate|].
    destruct (wst (getw (wants s) w)); try discriminate; injection E as <-; now left.
  - destruct (memb c (lent s)); [|destruct (memb c (rel s)); [|discriminate]]; injection E as <-; left.
    + use_rel cf (with_lent s (remove_one c (lent s))) c. exact Rlg.
    + use_rel cf (with_rel s (remove_one c (rel s))) c. exact Rlg.
  - destruct (memb c (lent s)) eqn:ML; [|destruct (memb c (scratch s)) eqn:MS; [|discriminate]]; injection E as <-; right; exists c; cbn.
    + repeat split; auto. left. now apply memb_In.
    + repeat split; auto. right. now apply memb_In.
  - destruct (memb c (closing s)); [|discriminate]. injection E as <-.
    use_dec cf (with_closing s (remove_one c (closing s))). left. exact Elg.
  - destruct (k <=? length (idle s))%nat; [|discriminate]. injection E as <-. now left.
  - destruct (forallb _ (wants s)); [|discriminate]. injection E as <-. now left.
Qed.

(* the strict reading: connections open (Close not finished) or being dialled never exceed MaxConns *)
Theorem open_bound_reach cf s : reach cf s -> open_bound cf s.
Proof.
  intros R. destruct (reach_inv _ _ R) as [A _ _ B _]. unfold open_bound, open_or_dialling. rewrite held_length. lia.
Qed.

Theorem within_deadline_reach cf s : reach cf s -> within_deadline s.
Proof.
  intros R. destruct (reach_inv _ _ R) as [_ _ _ _ D]. intros w I P.
  destruct (In_nth _ _ dummy_want I) as (i & L & E). specialize (D i). unfold getw in D. rewrite E in D. auto.
Qed.

Theorem quiescent_zero cf s : reach cf s -> quiescent s -> cnt s = 0.
Proof.
  intros R (H & Cl & Dl & Dc & _). pose proof (exact_accounting_reach _ _ R) as A.
  unfold exact_accounting in A. rewrite H, Cl, Dl, Dc in A. exact A.
Qed.

(* ---------- waiters ---------- *)
Definition in_wait (st : wstatus) : bool :=
  match st with WWaiting | WDelivered _ | WFailed => true | _ => false end.

Lemma getw_set_same ws w st : (w < length ws)%nat -> wst (getw (set_wst ws w st) w) = st.
Proof. intros L. rewrite getw_set by exact L. now rewrite Nat.eqb_refl. Qed.

(* the timer branch of the select: always enabled from the deadline on, whatever the pool does *)
Lemma timeout_enabled cf s w : in_wait (wst (getw (wants s) w)) = true -> wdl (getw (wants s) w) <= clock s ->
  exists s', step cf s (LTimeout w) = Some s' /\
    (wst (getw (wants s') w) = WRet RNoFree \/ wst (getw (wants s') w) = WRet RTimeout) /\
    (forall c, wst (getw (wants s) w) = WDelivered c -> In c (rel s')).
Proof.
  intros W T. cbn. destruct (clock s <? wdl (getw (wants s) w)) eqn:EC; [lia|].
  assert (L : (w < length (wants s))%nat).
  { apply getw_pending_lt. unfold pending. destruct (wst (getw (wants s) w)); auto; discriminate. }
  assert (TR : forall x, WRet (timeout_res x) = WRet RNoFree \/ WRet (timeout_res x) = WRet RTimeout)
    by (intros x; unfold timeout_res; destruct (wovr x); auto).
  destruct (wst (getw (wants s) w)) eqn:EW; try discriminate; eexists; (split; [reflexivity|]); cbn;
    rewrite getw_set_same by exact L; (split; [apply TR|]); intros c' E; try discriminate.
  injection E as <-. apply in_or_app. right. now left.
Qed.

Lemma enqueue_enabled cf s w : wst (getw (wants s) w) = WDecided ->
  exists s', step cf s (LEnqueue w) = Some s' /\ wst (getw (wants s') w) = WWaiting /\
             wdl (getw (wants s') w) = wdl (getw (wants s) w) /\ clock s' = clock s /\ In w (waitq s').
Proof.
  intros E. assert (L : (w < length (wants s))%nat) by (apply getw_pending_lt; unfold pending; now rewrite E).
  cbn. rewrite E. eexists. split; [reflexivity|]. cbn. rewrite getw_set by exact L. rewrite Nat.eqb_refl. cbn.
  repeat split; auto. apply in_or_app. right. now left.
Qed.

Lemma take_enabled cf s w c : wst (getw (wants s) w) = WDelivered c ->
  exists s', step cf s (LTake w) = Some s' /\ wst (getw (wants s') w) = WRet (RConn c) /\ In c (lent s').
Proof.
  intros E. assert (L : (w < length (wants s))%nat) by (apply getw_pending_lt; unfold pending; now rewrite E).
  cbn. rewrite E. eexists. split; [reflexivity|]. cbn. rewrite getw_set_same by exact L. split; auto.
  apply in_or_app. right. now left.
Qed.

(* a connection in hand-over is never stuck: ReleaseConn is enabled and puts it into the idle list or into a waiting wantConn *)
Lemma release_enabled cf s c : In c (rel s) \/ In c (lent s) ->
  exists s', step cf s (LRelease c) = Some s' /\
    (In c (idle s') \/ exists w, waitingb (wants s) w = true /\ wst (getw (wants s') w) = WDelivered c).
Proof.
  intros I. cbn.
  assert (G : forall s1, In c (idle (release_conn cf s1 c)) \/
              exists w, waitingb (wants s1) w = true /\ wst (getw (wants (release_conn cf s1 c)) w) = WDelivered c).
  { intros s1. unfold release_conn. destruct (negb (waiton cf)); cbn; [left; apply in_or_app; right; now left|].
    destruct (pop_waiting (wants s1) (waitq s1)) as [[w|] q'] eqn:E; cbn; [|left; apply in_or_app; right; now left].
    right. exists w. pose proof (pop_waiting_some _ _ _ _ E) as W. split; [exact W|].
    apply getw_set_same, waitingb_lt, W. }
  destruct (memb c (lent s)) eqn:ML.
  - eexists. split; [reflexivity|]. apply (G (with_lent s (remove_one c (lent s)))).
  - destruct (memb c (rel s)) eqn:MR.
    + eexists. split; [reflexivity|]. apply (G (with_rel s (remove_one c (rel s)))).
    + destruct I as [I|I]; apply memb_In in I; congruence.
Qed.

(* logical time can always advance, or a requester at its deadline can return by its own steps *)
Theorem time_progress cf s : reach cf s -> step cf s LTick = None ->
  exists w, pending (getw (wants s) w) = true /\ wdl (getw (wants s) w) = clock s /\
    exists ls s', (ls = [LTimeout w] \/ ls = [LEnqueue w; LTimeout w]) /\ run cf s ls = Some s' /\
                  pending (getw (wants s') w) = false.
Proof.
  intros R H. destruct (reach_inv _ _ R) as [_ _ _ _ D]. cbn in H.
  destruct (forallb _ (wants s)) eqn:EF; [discriminate|].
  assert (EX : exists x, In x (wants s) /\ pending x = true /\ wdl x <= clock s).
  { clear -EF. induction (wants s) as [|y l IH]; cbn in EF; [discriminate|].
    apply andb_false_iff in EF as [E|E].
    - exists y. split; [now left|]. destruct (pending y); cbn in E; [split; [reflexivity|lia]|discriminate].
    - destruct (IH E) as (x & I & P). exists x. split; [now right|exact P]. }
  destruct EX as (x & I & P & T). destruct (In_nth _ _ dummy_want I) as (w & L & E).
  assert (GE : getw (wants s) w = x) by exact E. exists w. rewrite GE. split; [exact P|].
  pose proof (D w) as Dw. rewrite GE in Dw. specialize (Dw P). split; [lia|].
  destruct (wst x) eqn:EW.
  - (* Decided *)
    destruct (enqueue_enabled cf s w) as (s1 & S1 & W1 & DL1 & CK1 & _); [now rewrite GE|].
    destruct (timeout_enabled cf s1 w) as (s2 & S2 & W2 & _); [now rewrite W1|rewrite DL1, CK1, GE; lia|].
    exists [LEnqueue w; LTimeout w], s2. split; [now right|]. cbn -[step]. rewrite S1, S2. split; auto.
    unfold pending. destruct W2 as [-> | ->]; reflexivity.
  - destruct (timeout_enabled cf s w) as (s2 & S2 & W2 & _); [now rewrite GE, EW|rewrite GE; lia|].
    exists [LTimeout w], s2. split; [now left|]. cbn -[step]. rewrite S2. split; auto.
    unfold pending. destruct W2 as [-> | ->]; reflexivity.
  - destruct (timeout_enabled cf s w) as (s2 & S2 & W2 & _); [now rewrite GE, EW|rewrite GE; lia|].
    exists [LTimeout w], s2. split; [now left|]. cbn -[step]. rewrite S2. split; auto.
    unfold pending. destruct W2 as [-> | ->]; reflexivity.
  - destruct (timeout_enabled cf s w) as (s2 & S2 & W2 & _); [now rewrite GE, EW|rewrite GE; lia|].
    exists [LTimeout w], s2. split; [now left|]. cbn -[step]. rewrite S2. split; auto.
    unfold pending. destruct W2 as [-> | ->]; reflexivity.
  - unfold pending in P. rewrite EW in P. discriminate.
Qed.

(* ---------- no waiter is lost by the hand-off ---------- *)
(* a wantConn that is still waiting is in the wait queue, or a dialConnFor goroutine is dialling for it *)
Definition wq3 (ws : list want) (q : list nat) (ds : list dtask) : Prop :=
  forall w, waitingb ws w = true -> In w q \/ In (DFor w) ds.
Definition wq_inv (s : st) : Prop := wq3 (wants s) (waitq s) (dials s).

Lemma waitingb_set_other ws i st w : st <> WWaiting -> waitingb (set_wst ws i st) w = true -> w <> i /\ waitingb ws w = true.
Proof.
  intros NS H. destruct (Nat.ltb_spec i (length ws)) as [L|L].
  - unfold waitingb in *. rewrite getw_set in H by exact L. destruct (Nat.eqb_spec w i) as [->|N]; cbn in H.
    + destruct st; try discriminate. congruence.
    + auto.
  - unfold set_wst in H. rewrite upd_ge in H by exact L. split; [|exact H].
    pose proof (waitingb_lt _ _ H). lia.
Qed.

Lemma waitingb_set_waiting ws i w : waitingb (set_wst ws i WWaiting) w = true -> w = i \/ waitingb ws w = true.
Proof.
  intros H. destruct (Nat.ltb_spec i (length ws)) as [L|L].
  - unfold waitingb in *. rewrite getw_set in H by exact L. destruct (Nat.eqb_spec w i) as [E|N]; auto.
  - unfold set_wst in H. rewrite upd_ge in H by exact L. auto.
Qed.

Lemma waitingb_snoc ws x w : wst x = WDecided -> waitingb (ws ++ [x]) w = true -> waitingb ws w = true.
Proof.
  intros D. unfold waitingb. rewrite getw_snoc. destruct (w <? length ws)%nat; auto.
  destruct (w =? length ws)%nat; [rewrite D|cbn]; discriminate.
Qed.

Lemma pop_waiting_keeps ws q : forall r q', pop_waiting ws q = (r, q') ->
  forall x, In x q -> waitingb ws x = true -> r = Some x \/ In x q'.
Proof.
  induction q as [|y q IH]; cbn; intros r q' E x I W; [tauto|].
  destruct (waitingb ws y) eqn:WY.
  - injection E as <- <-. destruct I as [->|I]; auto.
  - destruct I as [->|I]; [congruence|]. eapply IH; eauto.
Qed.

Lemma clear_front_keeps ws q x : In x q -> waitingb ws x = true -> In x (clear_front ws q).
Proof.
  induction q as [|y q IH]; cbn; [tauto|]. intros I W. destruct (waitingb ws y) eqn:WY; [exact I|].
  destruct I as [->|I]; [congruence|auto].
Qed.

Lemma remove_nth_keeps {A} (l : list A) k z y : nth_error l k = Some z -> In y l -> y <> z -> In y (remove_nth l k).
Proof.
  revert k; induction l as [|a l IH]; intros [|k]; cbn; try discriminate.
  - intros [= ->] [->|I] N; [congruence|exact I].
  - intros E [->|I] N; [now left|right; eapply IH; eauto].
Qed.

Lemma dec_wq cf s : wq_inv s -> wq_inv (dec_conns_count cf s).
Proof.
  unfold wq_inv, dec_conns_count. intros H. destruct (negb (waiton cf)); cbn; [exact H|].
  destruct (pop_waiting (wants s) (waitq s)) as [[w1|] q'] eqn:E; cbn; intros w W; destruct (H w W) as [I|I].
  - destruct (pop_waiting_keeps _ _ _ _ E w I W) as [[= ->]|I']; [right; apply in_or_app; right; now left|now left].
  - right. apply in_or_app. now left.
  - destruct (pop_waiting_keeps _ _ _ _ E w I W) as [X|I']; [discriminate|now left].
  - now right.
Qed.

Lemma release_wq cf s c : wq_inv s -> wq_inv (release_conn cf s c).
Proof.
  unfold wq_inv, release_conn. intros H. destruct (negb (waiton cf)); cbn; [exact H|].
  destruct (pop_waiting (wants s) (waitq s)) as [[w1|] q'] eqn:E; cbn; intros w W.
  - apply waitingb_set_other in W as [N W]; [|discriminate]. destruct (H w W) as [I|I]; [|now right].
    destruct (pop_waiting_keeps _ _ _ _ E w I W) as [[= ->]|I']; [congruence|now left].
  - destruct (H w W) as [I|I]; [|now right].
    destruct (pop_waiting_keeps _ _ _ _ E w I W) as [X|I']; [discriminate|now left].
Qed.

Lemma wq3_dials_only s s' : wq_inv s -> wants s' = wants s -> waitq s' = waitq s ->
  (forall w, In (DFor w) (dials s) -> In (DFor w) (dials s')) -> wq_inv s'.
Proof. unfold wq_inv, wq3. intros H -> -> D w W. destruct (H w W); auto. Qed.

Lemma step_wq cf s l s' : wq_inv s -> step cf s l = Some s' -> wq_inv s'.
Proof.
  intros H E. destruct l; cbn in E.
  - destruct (tmo <=? 0); [discriminate|]. injection E as <-. unfold acquire.
    destruct (idle s) as [|c0 r0]; [|destruct (fifo cf); exact H].
    destruct (cnt s <? eff_max cf).
    + intros w W. cbn in *. destruct (H w W); auto. right. apply in_or_app. now left.
    + destruct (waiton cf); [|exact H]. intros w W. cbn in *. apply waitingb_snoc in W; [|reflexivity]. apply H, W.
  - destruct (wst (getw (wants s) w)); try discriminate. injection E as <-. intros x W. cbn in *.
    apply waitingb_set_waiting in W as [->|W]; [left; apply in_or_app; right; now left|].
    destruct (H x W) as [I|I]; [|now right]. left. apply in_or_app. left. now apply clear_front_keeps.
  - destruct (nth_error (dials s) k) as [d|] eqn:EK; [|discriminate]. destruct d as [|w0].
    + injection E as <-. intros w W. cbn in *. destruct (H w W) as [I|I]; [now left|right].
      eapply remove_nth_keeps; eauto. discriminate.
    + destruct (waitingb (wants s) w0) eqn:W0; injection E as <-; intros w W; cbn in *.
      * apply waitingb_set_other in W as [N W]; [|discriminate]. destruct (H w W) as [I|I]; [now left|right].
        eapply remove_nth_keeps; eauto. congruence.
      * destruct (H w W) as [I|I]; [now left|right]. eapply remove_nth_keeps; eauto. congruence.
  - destruct (nth_error (dials s) k) as [d|] eqn:EK; [|discriminate]. destruct d as [|w0]; injection E as <-.
    + apply dec_wq. intros w W. cbn in *. destruct (H w W) as [I|I]; [now left|right].
      eapply remove_nth_keeps; eauto. discriminate.
    + destruct (waitingb (wants s) w0) eqn:W0; intros w W; cbn in *.
      * apply waitingb_set_other in W as [N W]; [|discriminate]. destruct (H w W) as [I|I]; [now left|right].
        eapply remove_nth_keeps; eauto. congruence.
      * destruct (H w W) as [I|I]; [now left|right]. eapply remove_nth_keeps; eauto. congruence.
  - destruct (decs s); [discriminate|]. injection E as <-. apply dec_wq. exact H.
  - destruct (wst (getw (wants s) w)); try discriminate; injection E as <-; intros x W; cbn in *;
      (apply waitingb_set_other in W as [N W]; [|discriminate]); apply H, W.
  - cbv zeta in E. destruct (clock s <? wdl (getw (wants s) w)); [discriminate|].
    destruct (wst (getw (wants s) w)); try discriminate; injection E as <-; intros x W; cbn in *;
      (apply waitingb_set_other in W as [N W]; [|discriminate]); apply H, W.
  - destruct (memb c (lent s)); [|destruct (memb c (rel s)); [|discriminate]]; injection E as <-; apply release_wq; exact H.
  - destruct (memb c (lent s)); [|destruct (memb c (scratch s)); [|discriminate]]; injection E as <-; exact H.
  - destruct (memb c (closing s)); [|discriminate]. injection E as <-.
    exact (dec_wq cf (with_closing s (remove_one c (closing s))) H).
  - destruct (k <=? length (idle s))%nat; [|discriminate]. injection E as <-. exact H.
  - destruct (forallb _ (wants s)); [|discriminate]. injection E as <-. exact H.
Qed.

Theorem no_lost_waiter cf s : reach cf s -> wq_inv s.
Proof.
  induction 1 as [|s l s' R IH E]; [|eapply step_wq; eauto].
  intros w W. unfold waitingb, getw in W. cbn in W. destruct w; discriminate.
Qed.
