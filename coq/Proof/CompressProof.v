(* Proofs for C22: transparent compression. *)
From FH Require Import Model.Base Gen.GenC22 Spec.CompressSpec Model.Compress.
From Coq Require Import Lia ZifyBool ZifyN ZifyNat.
Open Scope N_scope.

(* ------------------------------------------------------------------ *)
(* levels: every level, in range or not, selects a pool that exists *)
Lemma level_index_in_range k l : (0 <= pool_index k l < pool_map_len)%Z.
Proof.
  unfold pool_index, pool_map_len, normalizeCompressLevel, normalizeBrotliCompressLevel, normalizeZstdCompressLevel,
    CompressDefaultCompression, CompressBrotliDefaultCompression.
  destruct k.
  - destruct ((l <? -2) || (l >? 9))%Z eqn:E; lia.
  - destruct ((l <? -2) || (l >? 9))%Z eqn:E; lia.
  - destruct ((l <? 0) || (l >? 11))%Z eqn:E; lia.
  - change CompressZstdSpeedNotSet with 0%Z. change CompressZstdBestCompression with 4%Z. change CompressZstdDefault with 2%Z.
    destruct ((l <=? 0) || (l >? 4))%Z eqn:E; lia.
Qed.

Lemma tok_name k : tok k = coding_name k.
Proof. destruct k; reflexivity. Qed.

Lemma tok_nonempty k : tok k <> [].
Proof. destruct k; discriminate. Qed.

(* ------------------------------------------------------------------ *)
Section Codec.
  Variable enc : coding -> Z -> bytes -> bytes.
  Variable dec : coding -> bytes -> bytes.
  Hypothesis dec_enc : forall k lvl x, dec k (enc k lvl x) = x.

  (* Append<Coding>BytesLevel: dst is kept, what follows decodes to src, whatever the queue occupancy *)
  Lemma append_roundtrip k dst src lvl inflight cap :
    let out := append_bytes_level enc k dst src lvl inflight cap in
    firstn (length dst) out = dst /\ dec k (skipn (length dst) out) = src.
  Proof.
    unfold append_bytes_level, stackless_write, nonblocking_write. destruct (queue_accepts inflight cap); cbn zeta.
    - rewrite firstn_app, Nat.sub_diag, firstn_all, firstn_O, app_nil_r. split; [reflexivity|].
      rewrite skipn_app, Nat.sub_diag, skipn_all, skipn_O. cbn [app]. apply dec_enc.
    - rewrite firstn_app, Nat.sub_diag, firstn_all, firstn_O, app_nil_r. split; [reflexivity|].
      rewrite skipn_app, Nat.sub_diag, skipn_all, skipn_O. cbn [app]. apply dec_enc.
  Qed.

  Lemma writer_do_id {A} full (x : A) : writer_do full x = x.
  Proof. now destruct full. Qed.

  Lemma stream_consumed_concat sched : forall chunks i, stream_consumed sched i chunks = concat chunks.
  Proof.
    induction chunks as [|c r IH]; intros i; [reflexivity|]. cbn [stream_consumed concat].
    now rewrite !writer_do_id, IH.
  Qed.

  (* the body of a response after the wrapper: untouched, or coded exactly once (completely) with the chosen coding *)
  Lemma compress_body_shape k lvl inflight cap sched r :
    let c := compress_body enc k lvl inflight cap sched r in
    (c = unchanged r) \/
    (r_ce r = [] /\ c_ce c = tok k /\ c_vary c = add_vary (r_vary r) strAcceptEncoding /\
     c_body c = SOk (WCoded k (enc k lvl (r_body r)) true)).
  Proof.
    unfold compress_body. destruct (r_ce r) eqn:Ece; [|now left].
    destruct (compressible (r_nodefct r) (r_ct r)); cbn [negb]; [|now left].
    destruct (r_streamed r).
    - right. cbn [c_ce c_vary c_body]. repeat split. unfold stream_compress, coder_output.
      now rewrite stream_consumed_concat, writer_do_id.
    - destruct (Z.of_nat (length (r_body r)) <? minCompressLen)%Z; [now left|].
      right. cbn [c_ce c_vary c_body]. repeat split.
      unfold append_bytes_level, stackless_write, nonblocking_write. now destruct (queue_accepts inflight cap).
  Qed.

  (* every body, buffered or streamed: for every queue occupancy and every refusal schedule the response decodes
     (per the coding it declares) to the handler's body *)
  Lemma roundtrip_any_load kd bl ol ae inflight cap sched r :
    exists w, c_body (snd (compress_handler enc kd bl ol ae inflight cap sched r)) = SOk w /\ decode dec w = Some (r_body r).
  Proof.
    unfold compress_handler. destruct (choose kd ae) as [k|]; cbn [snd]; [|eexists; split; reflexivity].
    destruct (compress_body_shape k (level_for kd k bl ol) inflight cap sched r) as [-> | (_ & _ & _ & H)].
    - eexists; split; reflexivity.
    - eexists. split; [exact H|]. cbn [decode]. now rewrite dec_enc.
  Qed.

  (* Write<Coding>Level to a generic io.Writer: the output decodes to the input whatever the queue does *)
  Lemma write_generic_roundtrip k lvl p fw fc :
    exists w, write_generic enc k lvl p fw fc = SOk w /\ decode dec w = Some p.
  Proof.
    unfold write_generic, coder_output. rewrite !writer_do_id. eexists. split; [reflexivity|]. cbn [decode]. now rewrite dec_enc.
  Qed.

  (* never twice: a response that already declares a Content-Encoding is left alone *)
  Lemma never_twice kd bl ol ae inflight cap sched r :
    r_ce r <> [] -> snd (compress_handler enc kd bl ol ae inflight cap sched r) = unchanged r.
  Proof.
    intros H. unfold compress_handler. destruct (choose kd ae); cbn [snd]; [|reflexivity].
    unfold compress_body. destruct (r_ce r); [congruence|reflexivity].
  Qed.

  (* ... and what the wrapper produces is the handler's body coded at most once *)
  Lemma coded_once kd bl ol ae inflight cap sched r :
    let c := snd (compress_handler enc kd bl ol ae inflight cap sched r) in
    c = unchanged r \/
    exists k lvl, choose kd ae = Some k /\ r_ce r = [] /\ c_ce c = tok k /\
      c_body c = SOk (WCoded k (enc k lvl (r_body r)) true).
  Proof.
    unfold compress_handler. destruct (choose kd ae) as [k|] eqn:E; cbn [snd]; [|now left].
    destruct (compress_body_shape k (level_for kd k bl ol) inflight cap sched r) as [H | (H1 & H2 & _ & H3)]; [now left|].
    right. exists k, (level_for kd k bl ol). auto.
  Qed.

  (* wrapping twice changes nothing: the outer wrapper leaves the inner wrapper's response as it is, whenever the inner
     one coded the body, and decides like the inner one otherwise; in every case the body decodes to the handler's *)
  Lemma twice_roundtrip kd bl ol ae inflight cap sched r :
    exists w, c_body (compress_handler_twice enc kd bl ol ae inflight cap sched r) = SOk w /\ decode dec w = Some (r_body r).
  Proof.
    unfold compress_handler_twice.
    destruct (roundtrip_any_load kd bl ol ae inflight cap sched r) as (w1 & H1 & D1).
    set (c1 := snd (compress_handler enc kd bl ol ae inflight cap sched r)) in *.
    set (r2 := {| r_ce := c_ce c1; r_ct := r_ct r; r_nodefct := r_nodefct r; r_vary := c_vary c1;
                  r_streamed := r_streamed r; r_chunks := [wire_bytes (c_body c1) (r_body r)] |}).
    pose proof (coded_once kd bl ol ae inflight cap sched r) as Hco. cbn zeta in Hco. fold c1 in Hco.
    destruct Hco as [Hu | (k & lvl & Hk & Hce & Htok & Hb)].
    - (* inner left it alone: r2 is r with its body in one chunk *)
      destruct (roundtrip_any_load kd bl ol ae inflight cap sched r2) as (w2 & H2 & D2).
      assert (Eb : r_body r2 = r_body r).
      { unfold r2, r_body at 1. cbn [r_chunks concat]. rewrite Hu. cbn [unchanged c_body wire_bytes]. now rewrite app_nil_r. }
      rewrite H2. destruct w2 as [b|k p c].
      + cbn [c_body]. exists w1. auto.
      + exists (WCoded k p c). split; [exact H2|]. now rewrite D2, Eb.
    - (* inner coded it: the outer sees a Content-Encoding and leaves everything alone *)
      assert (Hne : r_ce r2 <> []) by (unfold r2; cbn [r_ce]; rewrite Htok; apply tok_nonempty).
      rewrite (never_twice kd bl ol ae inflight cap sched r2 Hne). cbn [unchanged c_body]. exists w1. auto.
  Qed.
End Codec.

(* ------------------------------------------------------------------ *)
(* comma lists *)
Lemma split_comma_nonempty s : split_comma s <> [].
Proof. destruct s as [|c r]; cbn; [discriminate|]. destruct (c =? COMMA); [discriminate|]. destruct (split_comma r); discriminate. Qed.

Lemma split_comma_app_comma a b : split_comma (a ++ COMMA :: b) = split_comma a ++ split_comma b.
Proof.
  induction a as [|c r IH]; cbn [app split_comma].
  - reflexivity.
  - rewrite IH. destruct (c =? COMMA); [reflexivity|].
    destruct (split_comma r) as [|e es] eqn:E; [exfalso; now apply (split_comma_nonempty r)|]. reflexivity.
Qed.

(* ------------------------------------------------------------------ *)
(* HasAcceptEncodingBytes is conservative w.r.t. the RFC 9110 list semantics *)

Definition is_lower_letter (c : N) : bool := (97 <=? c) && (c <=? 122).
Definition tok_ok (t : bytes) : Prop := t <> [] /\ forallb is_lower_letter t = true.

Lemma letter_facts c : is_lower_letter c = true ->
  is_ows c = false /\ stopc c = false /\ (c =? SEMI) = false /\ (c =? EQS) = false /\ (c =? COMMA) = false /\ digit_or_dot c = false.
Proof.
  unfold is_lower_letter, is_ows, stopc, is_ows, digit_or_dot, SEMI, EQS, COMMA, SP, HT, DOT. intros H. repeat split; lia.
Qed.

Lemma tok_ok_tok k : tok_ok (tok k).
Proof. destruct k; split; try discriminate; reflexivity. Qed.

(* bytes.Index *)
Lemma has_prefix_app p : forall s, has_prefix p s = true -> exists post, s = p ++ post.
Proof.
  induction p as [|a p IH]; intros s H; [now exists s|]. destruct s as [|b s]; [discriminate|]. cbn in H.
  apply andb_true_iff in H as [H1 H2]. apply N.eqb_eq in H1. subst b. destruct (IH s H2) as [post ->]. now exists post.
Qed.

Lemma index_from_some sub : forall s i n, index_from i s sub = Some n ->
  exists pre post, s = pre ++ sub ++ post /\ n = (i + length pre)%nat.
Proof.
  induction s as [|c r IH]; intros i n H; cbn [index_from] in H.
  - destruct sub; [|discriminate]. injection H as <-. exists [], []. split; [reflexivity|cbn; lia].
  - destruct (has_prefix sub (c :: r)) eqn:E.
    + injection H as <-. destruct (has_prefix_app _ _ E) as [post Hp]. exists [], post. split; [exact Hp|cbn; lia].
    + destruct (IH _ _ H) as (pre & post & -> & ->). exists (c :: pre), post. split; [reflexivity|cbn; lia].
Qed.

Lemma has_accept_encoding_shape ae t :
  has_accept_encoding ae t = true ->
  exists pre post, ae = pre ++ t ++ post /\ (post = [] \/ exists p, post = COMMA :: p) /\ (pre = [] \/ exists p, pre = p ++ [SP]).
Proof.
  unfold has_accept_encoding, index_of. destruct (index_from 0 ae t) as [n|] eqn:E; [|discriminate].
  destruct (index_from_some t ae 0 n E) as (pre & post & -> & ->). cbn [Nat.add].
  assert (Hb : skipn (length pre + length t) (pre ++ t ++ post) = post).
  { rewrite skipn_app. rewrite (skipn_all2 pre) by lia. cbn [app].
    replace (length pre + length t - length pre)%nat with (length t) by lia.
    rewrite skipn_app, skipn_all, Nat.sub_diag. reflexivity. }
  rewrite Hb. intros H. exists pre, post. split; [reflexivity|]. split.
  - destruct post as [|c p]; [now left|]. right. exists p. destruct (c =? COMMA) eqn:Ec; [apply N.eqb_eq in Ec; now subst|discriminate].
  - destruct (match post with [] => false | c :: _ => negb (c =? COMMA) end); [discriminate|].
    destruct pre as [|x pre0 _] using rev_ind; [now left|]. right. exists pre0.
    rewrite app_length in H. cbn [length] in H. replace (length pre0 + 1 =? 0)%nat with false in H by (symmetry; apply Nat.eqb_neq; lia).
    replace (length pre0 + 1 - 1)%nat with (length pre0) in H by lia.
    rewrite <- app_assoc in H. rewrite app_nth2 in H by lia. rewrite Nat.sub_diag in H. cbn in H. apply N.eqb_eq in H. now subst.
Qed.

(* comma lists: an element is a comma-free stretch between commas (or the ends) *)
Definition comma_free (s : bytes) : bool := forallb (fun c => negb (c =? COMMA)) s.

Lemma split_comma_comma_free m : comma_free m = true -> split_comma m = [m].
Proof.
  induction m as [|c r IH]; [reflexivity|]. cbn. intros H. apply andb_true_iff in H as [H1 H2].
  destruct (c =? COMMA); [discriminate|]. now rewrite IH.
Qed.

Lemma split_comma_elem a x b :
  comma_free x = true -> (a = [] \/ exists a0, a = a0 ++ [COMMA]) -> (b = [] \/ exists b0, b = COMMA :: b0) ->
  In x (split_comma (a ++ x ++ b)).
Proof.
  intros Hx Ha Hb.
  assert (H0 : In x (split_comma (x ++ b))).
  { destruct Hb as [-> | [b0 ->]].
    - rewrite app_nil_r, split_comma_comma_free by assumption. now left.
    - rewrite split_comma_app_comma, split_comma_comma_free by assumption. now left. }
  destruct Ha as [-> | [a0 ->]]; [exact H0|].
  rewrite <- app_assoc. cbn [app]. rewrite split_comma_app_comma. apply in_or_app. now right.
Qed.

Lemma split_last_comma pre :
  exists a seg, pre = a ++ seg /\ comma_free seg = true /\ (a = [] \/ exists a0, a = a0 ++ [COMMA]).
Proof.
  induction pre as [|c r (a & seg & -> & Hs & Ha)]; [exists [], []; auto|].
  destruct Ha as [-> | [a0 ->]].
  - destruct (c =? COMMA) eqn:E.
    + apply N.eqb_eq in E. subst c. exists [COMMA], seg. split; [reflexivity|]. split; [assumption|]. right. now exists [].
    + exists [], (c :: seg). split; [reflexivity|]. split; [|now left].
      unfold comma_free in *. cbn [forallb]. now rewrite E, Hs.
  - exists (c :: a0 ++ [COMMA]), seg. split; [reflexivity|]. split; [assumption|]. right. now exists (c :: a0).
Qed.

(* trimming *)
Lemma trim_left_app a t :
  trim_left (a ++ t) = match trim_left a with [] => trim_left t | l => l ++ t end.
Proof.
  induction a as [|c r IH]; [reflexivity|]. cbn. destruct (is_ows c); [exact IH|reflexivity].
Qed.

Lemma trim_left_id t : match t with c :: _ => is_ows c = false | [] => True end -> trim_left t = t.
Proof. destruct t as [|c r]; [reflexivity|]. cbn. now intros ->. Qed.

Lemma span_nostop t : forallb (fun c => negb (stopc c)) t = true -> span_coding t = (t, []).
Proof.
  induction t as [|c r IH]; [reflexivity|]. cbn. intros H. apply andb_true_iff in H as [H1 H2].
  destruct (stopc c); [discriminate|]. now rewrite IH.
Qed.

Lemma span_stop_app l t : existsb stopc l = true -> snd (span_coding (l ++ t)) = snd (span_coding l) ++ t.
Proof.
  induction l as [|c r IH]; [discriminate|]. cbn. destruct (stopc c) eqn:E; [reflexivity|]. cbn [orb]. intros H.
  specialize (IH H). destruct (span_coding (r ++ t)) as [a b], (span_coding r) as [a' b']. exact IH.
Qed.

Lemma tok_letters t : tok_ok t ->
  exists c r, t = c :: r /\ is_lower_letter c = true /\ forallb is_lower_letter r = true.
Proof.
  intros [Hne Hl]. destruct t as [|c r]; [congruence|]. cbn in Hl. apply andb_true_iff in Hl as [H1 H2]. now exists c, r.
Qed.

Lemma tok_last t : tok_ok t -> exists s z, t = s ++ [z] /\ is_lower_letter z = true.
Proof.
  intros [Hne Hl]. destruct t as [|z s _] using rev_ind; [congruence|]. exists s, z. split; [reflexivity|].
  rewrite forallb_app in Hl. apply andb_true_iff in Hl as [_ Hl]. cbn in Hl. now rewrite andb_true_r in Hl.
Qed.

(* nothing that ends with the token is a weight *)
Lemma weight_app_tok t : tok_ok t -> forall a, weight (a ++ t) = None.
Proof.
  intros Ht a. destruct (tok_letters t Ht) as (c & r & -> & Hc & Hr).
  destruct (letter_facts c Hc) as (Hows & _ & Hsemi & Heq & _ & Hdd).
  unfold weight. rewrite trim_left_app. rewrite (trim_left_id (c :: r)) by assumption.
  destruct (trim_left a) as [|x l].
  - now rewrite Hsemi.
  - cbn [app]. destruct (x =? SEMI); [|reflexivity].
    rewrite trim_left_app. rewrite (trim_left_id (c :: r)) by assumption.
    destruct (trim_left l) as [|q l2].
    + (* q = c, e = first of r *)
      destruct r as [|e v]; [reflexivity|]. cbn in Hr. apply andb_true_iff in Hr as [He _].
      destruct (letter_facts e He) as (_ & _ & _ & Hee & _). now rewrite Hee, andb_false_r.
    + cbn [app]. destruct l2 as [|e v].
      * cbn [app]. now rewrite Heq, andb_false_r.
      * cbn [app]. rewrite forallb_app. cbn [forallb]. rewrite Hdd. now rewrite andb_false_r, andb_false_r.
Qed.

Lemma ows_split seg : forallb is_ows seg = false ->
  exists o x m, seg = o ++ x :: m /\ forallb is_ows o = true /\ is_ows x = false.
Proof.
  induction seg as [|c r IH]; [discriminate|]. cbn. destruct (is_ows c) eqn:E; cbn [andb].
  - intros H. destruct (IH H) as (o & x & m & -> & Ho & Hx). exists (c :: o), x, m. split; [reflexivity|]. split; [cbn; now rewrite E|assumption].
  - intros _. exists [], c, r. auto.
Qed.

(* the list element that contains an accepted occurrence of the token *)
Lemma elem_accepts_of_shape seg t :
  tok_ok t -> (seg = [] \/ exists s, seg = s ++ [SP]) -> elem_wf (seg ++ t) = true -> elem_accepts (seg ++ t) t = true.
Proof.
  intros Ht Hseg Hwf.
  destruct (tok_letters t Ht) as (c & r & Et & Hc & Hr).
  destruct (tok_last t Ht) as (ts & z & Ez & Hz).
  destruct (letter_facts c Hc) as (Hcows & _). destruct (letter_facts z Hz) as (Hzows & _).
  assert (Hnostop : forallb (fun c => negb (stopc c)) t = true).
  { destruct Ht as [_ Hl]. clear - Hl. induction t as [|a t IH]; [reflexivity|]. cbn in *. apply andb_true_iff in Hl as [H1 H2].
    destruct (letter_facts a H1) as (_ & -> & _). now rewrite IH. }
  destruct (forallb is_ows seg) eqn:Eo.
  - (* only blanks in front of the token: the element is the bare token *)
    assert (Etrim : trim_ows (seg ++ t) = t).
    { unfold trim_ows. rewrite trim_left_app.
      assert (Htl : trim_left seg = []).
      { clear - Eo. induction seg as [|a s IH]; [reflexivity|]. cbn in *. apply andb_true_iff in Eo as [-> H]. now apply IH. }
      rewrite Htl. rewrite (trim_left_id t) by (rewrite Et; assumption).
      rewrite Ez at 1. rewrite rev_app_distr. cbn [rev app trim_left]. rewrite Hzows.
      cbn [rev]. rewrite rev_involutive. now rewrite <- Ez. }
    unfold elem_accepts, elem_coding, elem_weight. rewrite Etrim, span_nostop by assumption. cbn [fst snd].
    unfold ieq. now rewrite beq_refl.
  - (* something else precedes the token inside the element: then the element is not well-formed *)
    exfalso. destruct (ows_split seg Eo) as (o & x & m & -> & Ho & Hx).
    destruct Hseg as [Hs | [s Hs]]; [destruct o; discriminate|].
    assert (Hm : exists m', m = m' ++ [SP]).
    { destruct m as [|y m0 _] using rev_ind.
      - apply app_inj_tail in Hs as [_ ->]. discriminate.
      - exists m0. rewrite app_comm_cons, app_assoc in Hs. apply app_inj_tail in Hs as [_ ->]. reflexivity. }
    destruct Hm as [m' ->].
    assert (Etrim : trim_ows ((o ++ x :: m' ++ [SP]) ++ t) = (x :: m' ++ [SP]) ++ t).
    { rewrite <- app_assoc. unfold trim_ows at 1. rewrite trim_left_app.
      assert (Htl : trim_left o = []).
      { clear - Ho. induction o as [|a s IH]; [reflexivity|]. cbn in *. apply andb_true_iff in Ho as [-> H]. now apply IH. }
      rewrite Htl. rewrite (trim_left_id ((x :: m' ++ [SP]) ++ t)) by (cbn; assumption).
      rewrite Ez. rewrite app_assoc. rewrite rev_app_distr. cbn [rev app trim_left]. rewrite Hzows.
      cbn [rev]. rewrite rev_app_distr, rev_involutive. reflexivity. }
    unfold elem_wf, elem_weight in Hwf. rewrite Etrim in Hwf.
    rewrite span_stop_app in Hwf.
    + rewrite weight_app_tok in Hwf by assumption. discriminate.
    + cbn [existsb]. rewrite existsb_app. cbn. unfold stopc at 2, is_ows, SP. cbn. now rewrite !orb_true_r.
Qed.

Lemma has_accept_encoding_conservative ae t :
  tok_ok t -> ae_wf ae = true -> has_accept_encoding ae t = true ->
  existsb (fun e => elem_accepts e t) (split_comma ae) = true.
Proof.
  intros Ht Hwf Hh. destruct (has_accept_encoding_shape ae t Hh) as (pre & post & -> & Hpost & Hpre).
  destruct (split_last_comma pre) as (a & seg & -> & Hsegc & Ha).
  assert (Htc : comma_free t = true).
  { destruct Ht as [_ Hl]. clear - Hl. unfold comma_free. induction t as [|c t IH]; [reflexivity|]. cbn [forallb] in *. apply andb_true_iff in Hl as [H1 H2].
    destruct (letter_facts c H1) as (_ & _ & _ & _ & -> & _). now rewrite IH. }
  assert (Hin : In (seg ++ t) (split_comma ((a ++ seg) ++ t ++ post))).
  { rewrite <- app_assoc. rewrite (app_assoc seg). apply split_comma_elem; try assumption.
    unfold comma_free in *. rewrite forallb_app. now rewrite Hsegc, Htc. }
  apply existsb_exists. exists (seg ++ t). split; [assumption|].
  apply elem_accepts_of_shape; try assumption.
  - destruct seg as [|y seg0 _] using rev_ind; [now left|]. right. exists seg0.
    destruct Hpre as [Hp | [p Hp]].
    + exfalso. apply app_eq_nil in Hp as [_ Hp]. apply app_eq_nil in Hp as [_ Hp]. discriminate Hp.
    + rewrite app_assoc in Hp. apply app_inj_tail in Hp as [_ ->]. reflexivity.
  - unfold ae_wf in Hwf. rewrite forallb_forall in Hwf. now apply Hwf.
Qed.

(* the coding a Compress handler picks is one the request accepts *)
Lemma choice_accepted kd lines k :
  choose kd lines = Some k -> ae_wf (peek lines) = true -> accepts_lines lines (coding_name k) = true.
Proof.
  unfold choose. intros Hc Hwf. apply find_some in Hc as [_ Hh].
  destruct lines as [|l1 rest].
  - exfalso. destruct k; discriminate.
  - cbn [peek] in *. unfold accepts_lines, accepts.
    assert (He : existsb (fun e => elem_accepts e (coding_name k)) (split_comma l1) = true).
    { rewrite <- tok_name. apply has_accept_encoding_conservative; [apply tok_ok_tok|assumption|assumption]. }
    apply orb_true_iff. left.
    destruct rest as [|l2 rest]; [exact He|].
    change (join_comma (l1 :: l2 :: rest)) with (l1 ++ COMMA :: join_comma (l2 :: rest)).
    rewrite split_comma_app_comma, existsb_app. now rewrite He.
Qed.

(* "gzip;q=0" and friends are never taken for an acceptance *)
Lemma weighted_token_not_taken t w :
  tok_ok t -> has_accept_encoding (t ++ SEMI :: w) t = false.
Proof.
  intros Ht. destruct (tok_letters t Ht) as (c & r & -> & Hc & Hr).
  assert (Hp : forall p rest, has_prefix p (p ++ rest) = true).
  { induction p as [|a p IH]; intros rest; [reflexivity|]. cbn. now rewrite N.eqb_refl, IH. }
  assert (Hi : index_of ((c :: r) ++ SEMI :: w) (c :: r) = Some 0%nat).
  { unfold index_of. change ((c :: r) ++ SEMI :: w) with (c :: (r ++ SEMI :: w)). cbn [index_from].
    change (c :: r ++ SEMI :: w) with ((c :: r) ++ SEMI :: w). now rewrite Hp. }
  unfold has_accept_encoding. rewrite Hi. cbn [Nat.add].
  rewrite skipn_app, skipn_all, Nat.sub_diag. reflexivity.
Qed.

(* ------------------------------------------------------------------ *)
(* Vary: addVaryBytes (hasHeaderValue) against list membership *)

(* header values as fasthttp stores them: bytes, CR/LF already replaced by blanks *)
Definition clean_char (c : N) : bool := (c <? 256) && negb (c =? CR).
Definition clean (v : bytes) : bool := forallb clean_char v.

Definition range256 : list N := map N.of_nat (seq 0 256).
Lemma in_range256 c : c < 256 -> In c range256.
Proof.
  intros H. unfold range256. apply in_map_iff. exists (N.to_nat c). split; [apply N2Nat.id|]. apply in_seq. lia.
Qed.

Lemma or20_lower_fact :
  forallb (fun s => forallb (fun x =>
     implb (existsb (N.eqb s) strAcceptEncoding && clean_char x && (or20 x =? or20 s)) (lower x =? lower s)) range256) range256 = true.
Proof. vm_compute. reflexivity. Qed.

Lemma or20_lower s x : In s strAcceptEncoding -> clean_char x = true -> or20 x = or20 s -> lower x = lower s.
Proof.
  intros Hs Hx E. assert (Hs256 : s < 256).
  { assert (Hall : forallb (fun c => c <? 256) strAcceptEncoding = true) by reflexivity.
    rewrite forallb_forall in Hall. specialize (Hall s Hs). lia. }
  assert (Hx256 : x < 256) by (unfold clean_char in Hx; lia).
  pose proof or20_lower_fact as F. rewrite forallb_forall in F. specialize (F s (in_range256 s Hs256)).
  rewrite forallb_forall in F. specialize (F x (in_range256 x Hx256)).
  assert (Hex : existsb (N.eqb s) strAcceptEncoding = true) by (apply existsb_exists; exists s; split; [assumption|apply N.eqb_refl]).
  rewrite Hex, Hx in F. apply N.eqb_eq in E. rewrite E in F. cbn [andb implb] in F. now apply N.eqb_eq.
Qed.

Lemma ci_eq_lower a : forall b, (forall s, In s b -> In s strAcceptEncoding) -> clean a = true ->
  ci_eq a b = true -> map lower a = map lower b.
Proof.
  unfold ci_eq. induction a as [|x a IH]; intros b Hb Ha E; apply beq_eq in E.
  - destruct b; [reflexivity|discriminate].
  - destruct b as [|s b]; [discriminate|]. cbn [map] in *. injection E as E1 E2. cbn in Ha. apply andb_true_iff in Ha as [Hx Ha].
    f_equal.
    + apply or20_lower; auto. apply Hb. now left.
    + apply IH; auto. * intros s' Hs'. apply Hb. now right. * apply beq_eq. exact E2.
Qed.

(* the shape of stripSpace *)
Definition all_sp (s : bytes) : bool := forallb (fun c => (c =? SP) || (c =? HT)) s.

Lemma strip_left_sp_shape s : exists sp, s = sp ++ strip_left_sp s /\ all_sp sp = true.
Proof.
  induction s as [|c r (sp & Hr & Hsp)]; [exists []; auto|]. cbn [strip_left_sp].
  destruct ((c =? SP) || (c =? HT)) eqn:E.
  - exists (c :: sp). split; [cbn; now rewrite <- Hr|]. unfold all_sp in *. cbn [forallb]. now rewrite E.
  - exists []. auto.
Qed.

Lemma strip_space_shape e : exists sp1 sp2, e = sp1 ++ strip_space e ++ sp2 /\ all_sp sp1 = true /\ all_sp sp2 = true.
Proof.
  unfold strip_space. destruct (strip_left_sp_shape e) as (sp1 & H1 & Hs1).
  destruct (strip_left_sp_shape (rev (strip_left_sp e))) as (sp2 & H2 & Hs2).
  exists sp1, (rev sp2). split; [|split; [assumption|]].
  - rewrite H1 at 1. f_equal. rewrite <- rev_app_distr, <- H2. now rewrite rev_involutive.
  - unfold all_sp in *. rewrite forallb_forall in *. intros x Hx. apply Hs2. now apply in_rev.
Qed.

Lemma all_sp_trim_left sp s : all_sp sp = true -> trim_left (sp ++ s) = trim_left s.
Proof.
  induction sp as [|c r IH]; [reflexivity|]. unfold all_sp in *. cbn. intros H. apply andb_true_iff in H as [Hc Hr].
  unfold is_ows. rewrite Hc. now apply IH.
Qed.

Lemma lower_not_ows x l : lower x = l -> (l =? SP) = false -> (l =? HT) = false -> is_ows x = false.
Proof.
  unfold lower, is_ows, SP, HT. intros <- H1 H2. destruct ((65 <=? x) && (x <=? 90)) eqn:E; lia.
Qed.

(* a member found by hasHeaderValue is a member in the RFC sense *)
Lemma hv_member_is_member e :
  clean e = true -> ci_eq (strip_space e) strAcceptEncoding = true -> ieq (trim_ows e) sAcceptEncoding = true.
Proof.
  intros Hc Hci. destruct (strip_space_shape e) as (sp1 & sp2 & He & Hs1 & Hs2).
  set (s' := strip_space e) in *. clearbody s'.
  assert (Hcs : clean s' = true).
  { unfold clean in *. rewrite forallb_forall in *. intros x Hx. apply Hc. rewrite He. apply in_or_app. right. apply in_or_app. now left. }
  assert (Hl : map lower s' = map lower strAcceptEncoding) by (apply ci_eq_lower; auto).
  (* first and last characters of s' are letters, hence not blanks *)
  assert (Hshape : exists x mid z, s' = x :: mid ++ [z] /\ is_ows x = false /\ is_ows z = false).
  { destruct s' as [|x r]; [discriminate|]. destruct r as [|z r0 _] using rev_ind; [discriminate|].
    exists x, r0, z. split; [reflexivity|].
    change (x :: r0 ++ [z]) with ((x :: r0) ++ [z]) in Hl. rewrite map_app in Hl.
    change strAcceptEncoding with ((firstn 14 strAcceptEncoding) ++ [103]) in Hl. rewrite map_app in Hl.
    apply app_inj_tail in Hl as [Hl1 Hl2]. cbn [map] in Hl1. injection Hl1 as Hx _.
    split; [eapply lower_not_ows; [exact Hx|reflexivity|reflexivity] | eapply lower_not_ows; [exact Hl2|reflexivity|reflexivity]]. }
  destruct Hshape as (x & mid & z & Es & Hx & Hz).
  assert (Etrim : trim_ows e = s').
  { rewrite He. unfold trim_ows. rewrite all_sp_trim_left by assumption.
    rewrite Es. cbn [app trim_left]. rewrite Hx.
    change (x :: (mid ++ [z]) ++ sp2) with ((x :: mid ++ [z]) ++ sp2). rewrite rev_app_distr.
    rewrite all_sp_trim_left.
    - assert (Er : rev (x :: mid ++ [z]) = z :: rev mid ++ [x]).
      { change (x :: mid ++ [z]) with ((x :: mid) ++ [z]). rewrite rev_app_distr. reflexivity. }
      rewrite Er. cbn [trim_left]. rewrite Hz. rewrite <- Er. apply rev_involutive.
    - unfold all_sp in *. rewrite forallb_forall in *. intros y Hy. apply Hs2. now apply in_rev. }
  rewrite Etrim. unfold ieq. rewrite Hl. apply beq_refl.
Qed.

Lemma hv_elems_in v e : In e (hv_elems v) -> In e (split_comma v).
Proof.
  unfold hv_elems. destruct v as [|c r]; [intros []|]. set (es := split_comma (c :: r)).
  destruct (rev es) as [|l0 l] eqn:E; [auto|]. destruct l0; [|auto].
  intros H. apply in_rev. rewrite E. right. now apply in_rev in H.
Qed.

Lemma clean_split_comma v e : clean v = true -> In e (split_comma v) -> clean e = true.
Proof.
  revert e. induction v as [|c r IH]; intros e Hv He.
  - destruct He as [<-|[]]. reflexivity.
  - cbn in Hv. apply andb_true_iff in Hv as [Hc Hr]. cbn [split_comma] in He. destruct (c =? COMMA).
    + destruct He as [<-|He]; [reflexivity|now apply IH].
    + destruct (split_comma r) as [|e0 es] eqn:E; [destruct He as [<-|[]]; cbn; now rewrite Hc|].
      destruct He as [<-|He].
      * cbn. rewrite Hc. apply IH; [assumption|now left].
      * apply IH; [assumption|now right].
Qed.

Lemma vary_has_value_self : forall rest, vary_has (strAcceptEncoding :: rest) sAcceptEncoding = true.
Proof. intros rest. reflexivity. Qed.

Lemma vary_has_cons v rest m : vary_has (v :: rest) m = vary_has [v] m || vary_has rest m.
Proof. unfold vary_has. cbn [existsb]. now rewrite orb_false_r. Qed.

(* after addVaryBytes("Accept-Encoding") the Vary field lists Accept-Encoding, for every previous value *)
Lemma add_vary_has lines :
  clean (peek lines) = true -> vary_has (add_vary lines strAcceptEncoding) sAcceptEncoding = true.
Proof.
  destruct lines as [|v rest]; [reflexivity|]. cbn [peek add_vary]. intros Hc.
  destruct v as [|c v']; [apply vary_has_value_self|].
  destruct (has_header_value (c :: v') strAcceptEncoding) eqn:Eh.
  - rewrite vary_has_cons. apply orb_true_iff. left. unfold has_header_value in Eh.
    apply existsb_exists in Eh as (e & He & Hci). apply hv_elems_in in He.
    unfold vary_has. cbn [existsb]. rewrite orb_false_r. apply existsb_exists. exists e. split; [assumption|].
    apply hv_member_is_member; [now apply (clean_split_comma (c :: v'))|assumption].
  - rewrite vary_has_cons. apply orb_true_iff. left.
    unfold vary_has. cbn [existsb]. rewrite orb_false_r. rewrite split_comma_app_comma, existsb_app.
    apply orb_true_iff. right. reflexivity.
Qed.

Lemma vary_set enc kd bl ol ae inflight cap sched r :
  clean (peek (r_vary r)) = true ->
  let c := snd (compress_handler enc kd bl ol ae inflight cap sched r) in
  c = unchanged r \/ vary_has (c_vary c) sAcceptEncoding = true.
Proof.
  intros Hg. unfold compress_handler. destruct (choose kd ae) as [k|]; cbn [snd]; [|now left].
  destruct (compress_body_shape enc k (level_for kd k bl ol) inflight cap sched r) as [H | (_ & _ & H & _)]; [now left|].
  right. rewrite H. now apply add_vary_has.
Qed.
