(* ConnOptProof.v — facts about Model/ConnOpt.v against the RFC reading in Spec/ServeSpec.v (C10). *)
From FH Require Import Model.Base Gen.GenC10 Model.ConnOpt Model.Serve Spec.ServeSpec.
From Coq Require Import Lia.
Open Scope N_scope.

(* ---------- the written Connection values ---------- *)
Lemma has_option_app opt a b : has_option opt (a ++ b) = has_option opt a || has_option opt b.
Proof. unfold has_option. apply existsb_app. Qed.

Lemma has_close_strClose : has_close [strClose] = true.
Proof. vm_compute. reflexivity. Qed.

Lemma has_close_keepalive : has_close [strKeepAlive] = false.
Proof. vm_compute. reflexivity. Qed.

Lemma has_keepalive_keepalive : has_option opt_keep_alive [strKeepAlive] = true.
Proof. vm_compute. reflexivity. Qed.

Lemma written_set_close h : has_close (rhdr_written (rhdr_set_close h)) = true.
Proof.
  unfold rhdr_written, rhdr_set_close, has_close. cbn [rh_close rh_conn]. rewrite has_option_app.
  fold (has_close [strClose]). rewrite has_close_strClose. apply orb_true_r.
Qed.

(* the stored Connection entry never carries a close option, provided hasHeaderValue recognises the close
   option in every value the handler Sets that has one (it does for every RFC field value, i.e. without
   control characters other than HTAB: clean_value_guard below) *)
Definition value_guard (v : bytes) : Prop := has_close [v] = true -> hasHeaderValue v strClose = true.
Definition conn_clean (h : rhdr) : Prop := forall v, rh_conn h = Some v -> has_close [v] = false.

Lemma conn_clean_init : conn_clean rhdr_init.
Proof. intros v H. discriminate. Qed.

Lemma conn_clean_set_close h : conn_clean h -> conn_clean (rhdr_set_close h).
Proof. intros Hc v H. apply Hc. exact H. Qed.

Lemma conn_clean_set_conn h v : value_guard v -> conn_clean h -> conn_clean (rhdr_set_conn h v).
Proof.
  intros Hg Hc. unfold rhdr_set_conn. destruct (hasHeaderValue v strClose) eqn:Hb.
  - intros w H. discriminate.
  - intros w H. cbn in H. injection H as <-.
    destruct (has_close [v]) eqn:Hh; [|reflexivity].
    rewrite (Hg Hh) in Hb. discriminate.
Qed.

Lemma conn_clean_keepalive h : conn_clean (rhdr_set_nonspecial h strKeepAlive).
Proof. intros v H. cbn in H. injection H as <-. exact has_close_keepalive. Qed.

Lemma written_no_close h : conn_clean h -> rh_close h = false -> has_close (rhdr_written h) = false.
Proof.
  intros Hc Hcl. unfold rhdr_written. rewrite Hcl, app_nil_r.
  destruct (rh_conn h) as [v|] eqn:Hv; [apply Hc; exact Hv|reflexivity].
Qed.

(* the handler's operations keep the entry clean *)
Definition ops_guard (ops : list hop) : Prop := forall v, In (SetHdrConn v) ops -> value_guard v.

Lemma apply_hops_clean ops h : ops_guard ops -> conn_clean (h_rh h) -> conn_clean (h_rh (fold_left apply_hop ops h)).
Proof.
  revert h. induction ops as [|o ops IH]; intros h Hg Hc; [exact Hc|].
  cbn [fold_left]. apply IH.
  - intros v Hin. apply Hg. right. exact Hin.
  - destruct o as [c| |v| |b| | | | |c| | |]; cbn;
      [exact Hc | apply conn_clean_set_close; exact Hc
      | apply conn_clean_set_conn; [apply Hg; left; reflexivity|exact Hc]
      | exact Hc | exact Hc | exact Hc | exact Hc
      | unfold rhdr_reset_close; destruct (rh_close (h_rh h)); [apply conn_clean_init|exact Hc]
      | apply conn_clean_init | apply conn_clean_init | exact Hc | exact Hc | exact Hc].
Qed.

Lemma run_handler_clean ops st0 nr0 : ops_guard ops -> conn_clean (h_rh (run_handler ops (hstate0 st0 nr0))).
Proof.
  intros Hg. unfold run_handler, after_handler.
  destruct (h_timeout (fold_left apply_hop ops (hstate0 st0 nr0))).
  { cbn. destruct (h_tclose (fold_left apply_hop ops (hstate0 st0 nr0))); [apply conn_clean_set_close|]; apply conn_clean_init. }
  apply apply_hops_clean; [exact Hg|apply conn_clean_init].
Qed.

(* ================= hasHeaderValue against the RFC list reading ================= *)
(* bytes of an RFC 9110 field value: VCHAR / obs-text / SP / HTAB — no other control characters
   (caseInsensitiveCompare's `|0x20` would let a CR pass for '-') *)
Definition clean_byte (c : N) : bool := ((32 <=? c) || (c =? 9)) && (c <? 256).
Definition clean (v : bytes) : bool := forallb clean_byte v.

Definition byte_range : list N := 9 :: map N.of_nat (seq 32 224).
Lemma in_byte_range c : clean_byte c = true -> In c byte_range.
Proof.
  unfold clean_byte. intros H. apply andb_true_iff in H as [H1 H2]. apply N.ltb_lt in H2.
  apply orb_true_iff in H1 as [H1|H1].
  - apply N.leb_le in H1. right. rewrite <- (N2Nat.id c). apply in_map. apply in_seq. lia.
  - apply N.eqb_eq in H1. left. auto.
Qed.

Definition tchars : list N := strClose ++ strKeepAlive.
Lemma char_cmp_table :
  forallb (fun t => forallb (fun c => Bool.eqb (N.lor c 32 =? N.lor t 32) (ascii_lower t =? ascii_lower c)) byte_range) tchars = true.
Proof. vm_compute. reflexivity. Qed.

Lemma char_cmp t c : In t tchars -> clean_byte c = true ->
  (N.lor c 32 =? N.lor t 32) = (ascii_lower t =? ascii_lower c).
Proof.
  intros Ht H1. pose proof char_cmp_table as H. rewrite forallb_forall in H. specialize (H t Ht).
  rewrite forallb_forall in H. specialize (H c (in_byte_range c H1)). apply eqb_prop in H. exact H.
Qed.

Lemma clean_cons c v : clean (c :: v) = true -> clean_byte c = true /\ clean v = true.
Proof. unfold clean. cbn. intros H. apply andb_true_iff in H. exact H. Qed.

Lemma cic_ci_eq x target : (forall t, In t target -> In t tchars) -> clean x = true ->
  caseInsensitiveCompare x target = ci_eq target x.
Proof.
  unfold ci_eq. revert target. induction x as [|c x IH]; intros target Ht Hc; destruct target as [|t target]; cbn; auto.
  apply clean_cons in Hc as (H1 & H3).
  rewrite (char_cmp t c) by (auto; apply Ht; left; reflexivity).
  rewrite IH; auto. intros t' Hin. apply Ht. right. exact Hin.
Qed.

(* stripSpace is the RFC's OWS trimming *)
Lemma strip_lead_trim v : strip_lead v = trim_lead_ows v.
Proof. induction v as [|c v IH]; cbn; [reflexivity|]. unfold is_ows. rewrite IH. reflexivity. Qed.

Lemma strip_trail_trim v : strip_trail v = trim_trail_ows v.
Proof. induction v as [|c v IH]; cbn; [reflexivity|]. unfold is_ows. rewrite IH. reflexivity. Qed.

Lemma clean_strip_lead v : clean v = true -> clean (strip_lead v) = true.
Proof.
  induction v as [|c v IH]; cbn; [auto|]. intros Hc. pose proof Hc as Hc0. apply clean_cons in Hc as (H1 & H3).
  destruct ((c =? 32) || (c =? 9)); auto.
Qed.

Lemma clean_strip_trail w : clean w = true -> clean (strip_trail w) = true.
Proof.
  induction w as [|c w IH]; cbn; [auto|].
  intros Hc. apply clean_cons in Hc as (H1 & H3). specialize (IH H3).
  destruct (strip_trail w) as [|d r] eqn:Hs.
  - destruct ((c =? 32) || (c =? 9)); [reflexivity|]. unfold clean. cbn. rewrite H1. reflexivity.
  - unfold clean in *. cbn [forallb]. rewrite H1. exact IH.
Qed.

Lemma stripSpace_trim v : clean v = true -> stripSpace v = trim_ows v /\ clean (stripSpace v) = true.
Proof.
  intros Hc. unfold stripSpace, trim_ows. rewrite strip_trail_trim, strip_lead_trim. split; [reflexivity|].
  rewrite <- strip_lead_trim, <- strip_trail_trim. apply clean_strip_trail, clean_strip_lead. exact Hc.
Qed.

Lemma clean_rev v : clean v = true -> clean (rev v) = true.
Proof.
  unfold clean. rewrite !forallb_forall. intros H x Hin. apply H. apply in_rev. exact Hin.
Qed.

Lemma ci_eq_nil_r target : target <> [] -> ci_eq target [] = false.
Proof. destruct target; [congruence|reflexivity]. Qed.

(* one token: model and spec agree *)
Lemma token_agree target tok : (forall t, In t target -> In t tchars) -> clean tok = true ->
  caseInsensitiveCompare (stripSpace tok) target = ci_eq target (trim_ows tok).
Proof.
  intros Ht Hc. destruct (stripSpace_trim tok Hc) as [H1 H2]. rewrite <- H1. apply cic_ci_eq; auto.
Qed.

Lemma split_agree target cur b : (forall t, In t target -> In t tchars) -> target <> [] ->
  clean cur = true -> clean b = true ->
  existsb (fun v => caseInsensitiveCompare (stripSpace v) target) (split_comma_from cur b)
  = existsb (fun v => ci_eq target (trim_ows v)) (elements_from cur b).
Proof.
  intros Ht Hne. revert cur. induction b as [|c b IH]; intros cur Hcur Hb; cbn.
  - destruct cur as [|x cur]; cbn.
    + rewrite ci_eq_nil_r by exact Hne. reflexivity.
    + rewrite orb_false_r. rewrite orb_false_r. apply token_agree; auto. apply (clean_rev (x :: cur)). exact Hcur.
  - apply clean_cons in Hb as (H1 & H3). destruct (c =? 44).
    + cbn. rewrite (token_agree target (rev cur)) by (auto; apply clean_rev; exact Hcur).
      f_equal. apply IH; auto.
    + apply IH; auto. unfold clean in *. cbn [forallb]. rewrite H1. exact Hcur.
Qed.

Lemma elements_filter target L : target <> [] ->
  existsb (ci_eq target) (filter (fun e => negb (beq e [])) (map trim_ows L)) = existsb (fun v => ci_eq target (trim_ows v)) L.
Proof.
  intros Hne. induction L as [|x L IH]; cbn; [reflexivity|].
  destruct (trim_ows x) as [|y r] eqn:Hx; cbn.
  - rewrite ci_eq_nil_r by exact Hne. exact IH.
  - rewrite IH. reflexivity.
Qed.

Theorem hasHeaderValue_rfc target v : (forall t, In t target -> In t tchars) -> target <> [] -> clean v = true ->
  hasHeaderValue v target = has_option target [v].
Proof.
  intros Ht Hne Hc. unfold hasHeaderValue, split_comma, has_option, list_elements. cbn [existsb]. rewrite orb_false_r.
  rewrite elements_filter by exact Hne. apply split_agree; auto.
Qed.

Lemma opt_close_is : opt_close = strClose. Proof. reflexivity. Qed.
Lemma opt_keep_alive_is : opt_keep_alive = strKeepAlive. Proof. reflexivity. Qed.
Lemma strClose_tchars t : In t strClose -> In t tchars. Proof. intros H. apply in_or_app. left. exact H. Qed.
Lemma strKeepAlive_tchars t : In t strKeepAlive -> In t tchars. Proof. intros H. apply in_or_app. right. exact H. Qed.

Theorem hhv_close_rfc v : clean v = true -> hasHeaderValue v strClose = has_close [v].
Proof. intros H. apply hasHeaderValue_rfc; [exact strClose_tchars|discriminate|exact H]. Qed.
Theorem hhv_keepalive_rfc v : clean v = true -> hasHeaderValue v strKeepAlive = has_option opt_keep_alive [v].
Proof. intros H. apply hasHeaderValue_rfc; [exact strKeepAlive_tchars|discriminate|exact H]. Qed.

Theorem clean_value_guard v : clean v = true -> value_guard v.
Proof. intros Hc Hh. rewrite hhv_close_rfc by exact Hc. exact Hh. Qed.

(* ================= the request / response parsers' flag ================= *)
Definition all_clean (vals : list bytes) : bool := forallb clean vals.

Lemma has_option_cons opt v vals : has_option opt (v :: vals) = has_option opt [v] || has_option opt vals.
Proof. unfold has_option. cbn. rewrite orb_false_r. reflexivity. Qed.

Lemma conn_loop_spec vals : all_clean vals = true -> forall flag stored,
  fst (conn_loop vals flag stored) = flag || has_close vals /\
  exists kept, snd (conn_loop vals flag stored) = stored ++ kept /\ (forall v, In v kept -> In v vals).
Proof.
  induction vals as [|v vals IH]; intros Hc flag stored; cbn [conn_loop].
  - cbn. rewrite orb_false_r. split; [reflexivity|]. exists []. rewrite app_nil_r. split; [reflexivity|tauto].
  - cbn in Hc. apply andb_true_iff in Hc as [Hv Hc].
    assert (Hcons : has_close (v :: vals) = has_close [v] || has_close vals) by apply has_option_cons.
    rewrite Hcons. rewrite (hhv_close_rfc v Hv). destruct (has_close [v]).
    + destruct (IH Hc true stored) as (I1 & kept & I2 & I3). rewrite I1. split; [rewrite orb_true_r; reflexivity|].
      exists kept. split; auto. intros w Hw. right. auto.
    + destruct (IH Hc flag (stored ++ [v])) as (I1 & kept & I2 & I3). rewrite I1. split; [reflexivity|].
      exists (v :: kept). rewrite I2, <- app_assoc. split; [reflexivity|]. intros w [<-|Hw]; [left; reflexivity|right; auto].
Qed.

Lemma has_option_false_in opt vals v : has_option opt vals = false -> In v vals -> has_option opt [v] = false.
Proof.
  unfold has_option. intros H Hin. cbn. rewrite orb_false_r.
  destruct (existsb (ci_eq opt) (list_elements v)) eqn:He; [|reflexivity].
  assert (existsb (fun v0 => existsb (ci_eq opt) (list_elements v0)) vals = true).
  { apply existsb_exists. exists v. auto. }
  congruence.
Qed.

Lemma all_clean_in vals v : all_clean vals = true -> In v vals -> clean v = true.
Proof. unfold all_clean. rewrite forallb_forall. auto. Qed.

(* "it sends Connection: close and closes whenever the request asked for close or is HTTP/1.0 without keep-alive":
   the parser's flag is set in all these cases *)
Theorem req_flag_complete http11 fc vals : all_clean vals = true ->
  wants_close http11 vals = true -> req_conn_flag (negb http11) fc vals = true.
Proof.
  intros Hc Hw. unfold req_conn_flag.
  destruct (conn_loop_spec vals Hc false []) as (H1 & kept & H2 & H3).
  destruct (conn_loop vals false []) as [flag stored]. cbn in H1, H2. subst flag stored.
  destruct fc; [destruct (negb http11); reflexivity|].
  unfold wants_close in Hw. destruct (has_close vals); [destruct (negb http11); reflexivity|].
  rewrite orb_false_l in Hw. apply andb_true_iff in Hw as [Hv Hk]. rewrite Hv. cbn [orb andb negb app].
  apply negb_true_iff in Hk. apply negb_true_iff.
  destruct kept as [|v kept]; [reflexivity|]. cbn [peek_first app].
  rewrite hhv_keepalive_rfc by (apply (all_clean_in vals); auto; apply H3; left; reflexivity).
  apply (has_option_false_in _ vals); auto. apply H3. left. reflexivity.
Qed.

(* for HTTP/1.1 (and no framing reason) the flag is exactly "some Connection line has the close option" *)
Theorem req_flag_exact_http11 vals : all_clean vals = true ->
  req_conn_flag false false vals = has_close vals.
Proof.
  intros Hc. unfold req_conn_flag.
  destruct (conn_loop_spec vals Hc false []) as (H1 & _).
  destruct (conn_loop vals false []) as [flag stored]. cbn in *. exact H1.
Qed.

(* client side: a response that says close is never followed by reuse of the connection *)
Theorem client_never_reuses vals noHTTP11 ic reset req_close : all_clean vals = true ->
  has_close vals = true -> client_close_conn reset req_close (resp_conn_flag noHTTP11 ic vals) = true.
Proof.
  intros Hc Hh. unfold resp_conn_flag.
  destruct (conn_loop_spec vals Hc false []) as (H1 & _).
  destruct (conn_loop vals false []) as [flag stored]. cbn in H1. rewrite Hh in H1. subst flag.
  destruct ic; cbn; rewrite andb_false_r; unfold client_close_conn; rewrite !orb_true_r; reflexivity.
Qed.

(* the response parser's flag is set whenever the response said close or is HTTP/1.0 without keep-alive *)
Theorem resp_flag_complete http11 ic vals : all_clean vals = true ->
  wants_close http11 vals = true -> resp_conn_flag (negb http11) ic vals = true.
Proof. exact (req_flag_complete http11 ic vals). Qed.

(* PipelineClient: no request is written on a connection after a response that said close was read on it *)
Lemma pipeline_ids_ge id flags x : In x (pipeline_conn_ids id flags) -> (id <= x)%Z.
Proof.
  revert id. induction flags as [|f r IH]; intros id; cbn; [tauto|].
  intros [<-|H]; [lia|]. apply IH in H. destruct f; lia.
Qed.

Theorem pipeline_never_reuses flags id i j :
  (i < j)%nat -> (j < length flags)%nat -> nth i flags false = true ->
  nth i (pipeline_conn_ids id flags) 0%Z <> nth j (pipeline_conn_ids id flags) 0%Z.
Proof.
  revert id i j. induction flags as [|f r IH]; intros id i j Hij Hj Hf; [cbn in Hj; lia|].
  destruct j as [|j]; [lia|]. cbn in Hj. destruct i as [|i].
  - cbn in Hf. subst f. cbn.
    assert (Hin : In (nth j (pipeline_conn_ids (id + 1) r) 0%Z) (pipeline_conn_ids (id + 1) r)).
    { apply nth_In. clear -Hj. revert Hj. generalize (id + 1)%Z. revert j.
      induction r as [|g r IHr]; intros j z Hj; cbn in *; [lia|]. destruct j; [lia|]. apply Lt.lt_n_S, IHr. lia. }
    apply pipeline_ids_ge in Hin. lia.
  - cbn. apply IH; [lia|lia|exact Hf].
Qed.

(* both transports: whenever a response said close (or is HTTP/1.0 without keep-alive), HostClient closes the
   connection instead of pooling it, and PipelineClient writes every later request on another connection *)
Theorem clients_never_reuse (resps : list (bool * list bytes)) i j :
  forallb (fun r => all_clean (snd r)) resps = true ->
  (i < j)%nat -> (j < length resps)%nat ->
  wants_close (fst (nth i resps (true, []))) (snd (nth i resps (true, []))) = true ->
  let flags := map (fun r => resp_conn_flag (negb (fst r)) false (snd r)) resps in
  (forall reset reqclose, client_close_conn reset reqclose (nth i flags false) = true) /\
  nth i (pipeline_conn_ids 1 flags) 0%Z <> nth j (pipeline_conn_ids 1 flags) 0%Z.
Proof.
  intros Hc Hij Hj Hw flags.
  assert (Hf : nth i flags false = true).
  { unfold flags. assert (Hi : (i < length resps)%nat) by lia.
    rewrite (nth_indep _ false (resp_conn_flag (negb (fst (true, @nil bytes))) false (snd (true, @nil bytes))))
      by (rewrite map_length; exact Hi).
    rewrite (map_nth (fun r => resp_conn_flag (negb (fst r)) false (snd r))).
    apply resp_flag_complete; [|exact Hw].
    rewrite forallb_forall in Hc. apply (Hc (nth i resps (true, []))). apply nth_In. exact Hi. }
  split.
  - intros reset reqclose. rewrite Hf. unfold client_close_conn. rewrite !orb_true_r. reflexivity.
  - apply pipeline_never_reuses; [exact Hij|unfold flags; rewrite map_length; exact Hj|exact Hf].
Qed.

(* regression witness: a close option behind an HTAB (optional whitespace in RFC 9110) is recognised —
   before the repair of stripSpace it was not *)
Definition htab_value : bytes := s2b "keep-alive," ++ [9] ++ s2b "close".
Example htab_witness : clean htab_value = true /\ has_close [htab_value] = true
  /\ req_conn_flag false false [htab_value] = true
  /\ client_close_conn false false (resp_conn_flag false false [htab_value]) = true.
Proof. vm_compute. repeat split; reflexivity. Qed.
