(* Proofs for C06: separators never survive the cookie setters; the serialised cookie is a first pair followed by
   "; "-joined attribute segments, each read back on its own; request cookies are read back pair by pair. *)
From FH Require Import Model.Base Gen.GenC06 Model.Ints Model.ByteClassModel Model.Cookie Spec.Calendar Spec.HttpDate Model.DateIP
  Spec.IntsSpec Spec.CookieSpec Proof.IntsProof Proof.DateProof.
From Coq Require Import Lia ZifyBool ZifyN ZifyNat.
Open Scope N_scope.

(* ------------------------------------------------------------------ separators *)
Definition ns (s : bytes) : Prop := no_sep s = true.
Lemma ns_In s : ns s <-> forall c, In c s -> is_sep c = false.
Proof.
  unfold ns, no_sep. rewrite forallb_forall. split; intros H c Hc; specialize (H c Hc); now apply negb_true_iff.
Qed.
Lemma ns_app a b : ns (a ++ b) <-> ns a /\ ns b.
Proof. unfold ns, no_sep. rewrite forallb_app, andb_true_iff. tauto. Qed.
Lemma ns_nosemi s : ns s -> forall c, In c s -> c <> 59.
Proof. rewrite ns_In. intros H c Hc ->. specialize (H _ Hc). discriminate. Qed.

Lemma clean_model s : removeSemicolons (removeNewLines s) = clean s.
Proof.
  unfold removeSemicolons, removeNewLines, clean. rewrite map_map. apply map_ext. intros c. unfold is_sep.
  destruct (N.eqb_spec c 13) as [->|]; [reflexivity|]. destruct (N.eqb_spec c 10) as [->|]; [reflexivity|]. cbn [orb].
  destruct (c =? 59); reflexivity.
Qed.
Lemma clean_ns s : ns (clean s).
Proof.
  apply ns_In. intros c Hc. unfold clean in Hc. apply in_map_iff in Hc as (x & <- & _). destruct (is_sep x) eqn:E; [reflexivity|exact E].
Qed.
Lemma clean_id s : ns s -> clean s = s.
Proof.
  rewrite ns_In. intros H. unfold clean. rewrite <- (map_id s) at 2. apply map_ext_in. intros c Hc. now rewrite (H c Hc).
Qed.
Lemma clean_length s : length (clean s) = length s. Proof. apply map_length. Qed.

Definition cookie_ns (c : cookie) : Prop := ns (ck_key c) /\ ns (ck_value c) /\ ns (ck_domain c) /\ ns (ck_path c).

(* CopyTo(src) takes over src's fields: src must itself be the product of setters *)
Definition cop_ok (o : cop) : Prop := match o with OCopyFrom src => cookie_ns src | _ => True end.
Lemma cstep_ns np c o : cookie_ns c -> cop_ok o -> cookie_ns (cstep np c o).
Proof.
  intros (H1 & H2 & H3 & H4) Hok.
  destruct o; cbn [cstep cop_ok] in *; try exact Hok; unfold SetKey, SetValue, SetDomain, SetPath, SetMaxAge, SetExpire, SetHTTPOnly, SetSecure, SetSameSite, SetPartitioned, Reset,
    initHeaderValueBytes; rewrite ?clean_model; try (repeat split; cbn; try assumption; try apply clean_ns; reflexivity).
  - destruct m; repeat split; cbn; assumption.
  - destruct b; unfold SetPath, SetSecure; rewrite ?clean_model; repeat split; cbn; try assumption. apply clean_ns.
Qed.
Theorem crun_ns np ops : Forall cop_ok ops -> cookie_ns (crun np ops).
Proof.
  unfold crun. assert (G : forall ops c, cookie_ns c -> Forall cop_ok ops -> cookie_ns (fold_left (cstep np) ops c)).
  { clear. induction ops as [|o ops IH]; intros c H Hok; [exact H|]. inversion Hok; subst. cbn [fold_left]. apply IH; [|assumption]. now apply cstep_ns. }
  apply G. repeat split; reflexivity.
Qed.

(* ------------------------------------------------------------------ segments joined by "; " *)
Definition sj (segs : list bytes) : bytes := concat (map (fun s => semiSpace ++ s) segs).
Definition joined (segs : list bytes) : bytes := match segs with [] => [] | s :: r => s ++ sj r end.
Lemma sj_app a b : sj (a ++ b) = sj a ++ sj b.
Proof. unfold sj. now rewrite map_app, concat_app. Qed.
Lemma sj_cons s r : sj (s :: r) = semiSpace ++ joined (s :: r).
Proof. reflexivity. Qed.

Definition nosemi (s : bytes) : Prop := forall c, In c s -> c <> 59.
Lemma split_at_nosemi s t : nosemi s -> split_at 59 (s ++ 59 :: t) = (s, Some t).
Proof.
  induction s as [|c s IH]; intros H; cbn [app split_at]; [reflexivity|].
  destruct (N.eqb_spec c 59) as [->|_]; [exfalso; apply (H 59); [now left|reflexivity]|].
  rewrite IH; [reflexivity|]. intros x Hx. apply H. now right.
Qed.
Lemma split_at_nosemi_end s : nosemi s -> split_at 59 s = (s, None).
Proof.
  induction s as [|c s IH]; intros H; cbn [split_at]; [reflexivity|].
  destruct (N.eqb_spec c 59) as [->|_]; [exfalso; apply (H 59); [now left|reflexivity]|].
  rewrite IH; [reflexivity|]. intros x Hx. apply H. now right.
Qed.

(* the pair a scanner step makes of one ';'-free segment *)
Definition kv_of (seg : bytes) : bytes * bytes :=
  match split_at 61 seg with
  | (x, Some v) => (trimCookieArg x false, trimCookieArg v true)
  | (x, None) => ([], trimCookieArg x true)
  end.

Lemma scan_pair_joined s r : nosemi s -> joined (s :: r) <> [] ->
  scan_pair (joined (s :: r)) = Some (fst (kv_of s), snd (kv_of s), joined r).
Proof.
  intros Hs Hne. unfold scan_pair. destruct (joined (s :: r)) as [|c0 b0] eqn:E; [congruence|]. rewrite <- E. clear E Hne.
  unfold kv_of. destruct r as [|s2 r2].
  - cbn [joined sj map concat]. rewrite app_nil_r. rewrite split_at_nosemi_end by exact Hs.
    destruct (split_at 61 s) as [x [v|]]; reflexivity.
  - change (joined (s :: s2 :: r2)) with (s ++ 59 :: (32 :: joined (s2 :: r2))).
    rewrite split_at_nosemi by exact Hs. rewrite N.eqb_refl.
    destruct (split_at 61 s) as [x [v|]]; reflexivity.
Qed.

(* ------------------------------------------------------------------ Cookie.AppendBytes = first pair + attribute segments *)
Definition first_seg (c : cookie) : bytes := match ck_key c with [] => [] | k => k ++ [61] end ++ ck_value c.
Definition opt_seg (b : bool) (s : bytes) : list bytes := if b then [s] else [].
Definition age_segs (c : cookie) : list bytes :=
  if negb (ck_maxAge c =? 0)%Z then
    [strCookieMaxAge ++ [61] ++ (if (ck_maxAge c <? 0)%Z then dec_digits 0 else dec_digits (ck_maxAge c))]
  else if negb (IsZero (ck_expire c)) then [strCookieExpires ++ [61] ++ AppendHTTPDate (ck_expire c)]
  else [].
Definition part_seg (k v : bytes) : list bytes := match v with [] => [] | _ => [k ++ [61] ++ v] end.
Definition ss_segs (m : sameSite) : list bytes :=
  match m with
  | SSDisabled => []
  | SSDefault => [strCookieSameSite]
  | SSLax => [strCookieSameSite ++ [61] ++ strCookieSameSiteLax]
  | SSStrict => [strCookieSameSite ++ [61] ++ strCookieSameSiteStrict]
  | SSNone => [strCookieSameSite ++ [61] ++ strCookieSameSiteNone]
  end.
Definition attr_segs (c : cookie) : list bytes :=
  age_segs c ++ part_seg strCookieDomain (ck_domain c) ++ part_seg strCookiePath (ck_path c) ++
  opt_seg (ck_httpOnly c) strCookieHTTPOnly ++ opt_seg (ck_secure c) strCookieSecure ++
  ss_segs (ck_sameSite c) ++ opt_seg (ck_partitioned c) strCookiePartitioned.

Lemma sj_one s : sj [s] = semiSpace ++ s.
Proof. unfold sj. cbn [map concat]. now rewrite app_nil_r. Qed.
Lemma st_opt (b : bool) dst s : (if b then dst ++ semiSpace ++ s else dst) = dst ++ sj (opt_seg b s).
Proof. destruct b; cbn [opt_seg]; [now rewrite sj_one|now rewrite app_nil_r]. Qed.
Lemma st_part dst k v :
  match v with [] => dst | c :: t => appendCookiePart dst k (c :: t) end = dst ++ sj (part_seg k v).
Proof. destruct v; cbn [part_seg]; [now rewrite app_nil_r|]. unfold appendCookiePart. now rewrite sj_one. Qed.

Theorem Cookie_shape c : Cookie_ c = first_seg c ++ sj (attr_segs c).
Proof.
  unfold Cookie_, AppendBytes, attr_segs, first_seg. cbv zeta.
  assert (Ess : forall dst, match ck_sameSite c with
     | SSDisabled => dst
     | SSDefault => dst ++ semiSpace ++ strCookieSameSite
     | SSLax => dst ++ semiSpace ++ strCookieSameSite ++ [61] ++ strCookieSameSiteLax
     | SSStrict => dst ++ semiSpace ++ strCookieSameSite ++ [61] ++ strCookieSameSiteStrict
     | SSNone => dst ++ semiSpace ++ strCookieSameSite ++ [61] ++ strCookieSameSiteNone
     end = dst ++ sj (ss_segs (ck_sameSite c))).
  { intros dst. destruct (ck_sameSite c); cbn [ss_segs]; rewrite ?sj_one, ?app_nil_r; reflexivity. }
  assert (Eage : forall dst, (if negb (ck_maxAge c =? 0)%Z
      then dst ++ semiSpace ++ strCookieMaxAge ++ [61] ++ (if (ck_maxAge c <? 0)%Z then dec_digits 0 else dec_digits (ck_maxAge c))
      else if negb (IsZero (ck_expire c)) then dst ++ semiSpace ++ strCookieExpires ++ [61] ++ AppendHTTPDate (ck_expire c) else dst)
      = dst ++ sj (age_segs c)).
  { intros dst. unfold age_segs. destruct (negb (ck_maxAge c =? 0)%Z); [now rewrite sj_one|].
    destruct (negb (IsZero (ck_expire c))); [now rewrite sj_one|now rewrite app_nil_r]. }
  rewrite Eage, Ess. rewrite !st_opt, !st_part. rewrite !sj_app. cbn [app]. rewrite <- !app_assoc. reflexivity.
Qed.

(* ------------------------------------------------------------------ ParseBytes reads the segments one by one *)
Definition bindp (p : presult) (f : cookie -> presult) : presult := match p with PCookie c => f c | e => e end.
Fixpoint fold_attrs (segs : list bytes) (c : cookie) : presult :=
  match segs with
  | [] => PCookie c
  | s :: r => bindp (apply_attr c (fst (kv_of s)) (snd (kv_of s))) (fold_attrs r)
  end.
Lemma fold_attrs_app a b c : fold_attrs (a ++ b) c = bindp (fold_attrs a c) (fold_attrs b).
Proof.
  revert c; induction a as [|s a IH]; intros c; cbn [app fold_attrs bindp]; [reflexivity|].
  destruct (apply_attr c (fst (kv_of s)) (snd (kv_of s))); cbn [bindp]; try reflexivity. apply IH.
Qed.

Lemma joined_length s r : (length (joined r) < length (joined (s :: r)) \/ r = [])%nat.
Proof.
  destruct r as [|s2 r2]; [now right|left]. change (joined (s :: s2 :: r2)) with (s ++ 59 :: 32 :: joined (s2 :: r2)).
  rewrite app_length. cbn [length]. lia.
Qed.

Lemma parse_attrs_joined segs : forall fuel c, Forall nosemi segs -> Forall (fun s => s <> []) segs ->
  (length (joined segs) <= fuel)%nat -> parse_attrs fuel (joined segs) c = fold_attrs segs c.
Proof.
  induction segs as [|s r IH]; intros fuel c Hs Hn Hf.
  - cbn [joined fold_attrs]. destruct fuel; reflexivity.
  - inversion Hs; subst. inversion Hn; subst.
    assert (Hne : joined (s :: r) <> []). { cbn [joined]. destruct s; [congruence|discriminate]. }
    destruct fuel as [|f]. { destruct (joined (s :: r)); [congruence|cbn in Hf; lia]. }
    cbn [parse_attrs fold_attrs]. unfold nextRaw. rewrite scan_pair_joined by assumption.
    destruct (apply_attr c (fst (kv_of s)) (snd (kv_of s))); cbn [bindp]; try reflexivity.
    apply IH; try assumption. destruct (joined_length s r) as [H|H]; [lia|subst r; cbn; lia].
Qed.

Definition first_cookie (first : bytes) : cookie :=
  with_value (with_key emptyCookie (initHeaderValueBytes (fst (kv_of first)))) (initHeaderValueBytes (snd (kv_of first))).

Lemma ParseBytes_joined first segs : nosemi first -> Forall nosemi segs -> Forall (fun s => s <> []) segs ->
  ParseBytes (joined (first :: segs)) =
  match joined (first :: segs) with
  | [] => PErrNoCookies
  | _ => if negb (validCookieValue (snd (kv_of first))) then PErrInvalidValue else fold_attrs segs (first_cookie first)
  end.
Proof.
  intros Hf Hs Hn. unfold ParseBytes, nextRaw. destruct (joined (first :: segs)) as [|c0 b0] eqn:E; [reflexivity|].
  rewrite <- E. rewrite scan_pair_joined; [|assumption|congruence].
  destruct (negb (validCookieValue (snd (kv_of first)))); [reflexivity|].
  apply parse_attrs_joined; try assumption. lia.
Qed.

(* ------------------------------------------------------------------ trimming is the identity on tight strings *)
Definition tight (q : bool) (s : bytes) : Prop :=
  match s with [] => True | c :: _ => c <> 32 /\ (q = true -> c <> 34) end /\
  match rev s with [] => True | l :: _ => l <> 32 end.

Lemma trimSpaces_tight q s : tight q s -> trimSpaces s = s.
Proof.
  intros [H1 H2]. unfold trimSpaces.
  assert (E1 : dropSpaces s = s). { destruct s as [|c r]; [reflexivity|]. cbn [dropSpaces]. destruct H1 as [H1 _]. destruct (N.eqb_spec c 32); [contradiction|reflexivity]. }
  rewrite E1. destruct (rev s) as [|l m] eqn:E; [cbn; rewrite <- (rev_involutive s), E; reflexivity|].
  cbn [dropSpaces]. destruct (N.eqb_spec l 32); [contradiction|]. rewrite <- E. apply rev_involutive.
Qed.
Lemma trimCookieArg_tight q s : tight q s -> trimCookieArg s q = s.
Proof.
  intros H. unfold trimCookieArg. rewrite (trimSpaces_tight q s H). destruct q; [|reflexivity].
  unfold unquote. destruct s as [|c r]; [reflexivity|]. destruct H as [[_ H] _]. specialize (H eq_refl).
  destruct (N.eqb_spec c 34); [contradiction|reflexivity].
Qed.

Definition noeq (s : bytes) : Prop := forall c, In c s -> c <> 61.
Lemma split_at_noeq k v : noeq k -> split_at 61 (k ++ 61 :: v) = (k, Some v).
Proof.
  induction k as [|c k IH]; intros H; cbn [app split_at]; [reflexivity|].
  destruct (N.eqb_spec c 61) as [->|_]; [exfalso; apply (H 61); [now left|reflexivity]|].
  rewrite IH; [reflexivity|]. intros x Hx. apply H. now right.
Qed.
Lemma split_at_noeq_end k : noeq k -> split_at 61 k = (k, None).
Proof.
  induction k as [|c k IH]; intros H; cbn [split_at]; [reflexivity|].
  destruct (N.eqb_spec c 61) as [->|_]; [exfalso; apply (H 61); [now left|reflexivity]|].
  rewrite IH; [reflexivity|]. intros x Hx. apply H. now right.
Qed.
Lemma kv_of_attr k v : noeq k -> tight false k -> kv_of (k ++ [61] ++ v) = (k, trimCookieArg v true).
Proof. intros Hn Ht. unfold kv_of. change (k ++ [61] ++ v) with (k ++ 61 :: v). rewrite split_at_noeq by exact Hn. now rewrite trimCookieArg_tight. Qed.
Lemma kv_of_flag k : noeq k -> tight true k -> kv_of k = ([], k).
Proof. intros Hn Ht. unfold kv_of. rewrite split_at_noeq_end by exact Hn. now rewrite trimCookieArg_tight. Qed.

Ltac const_noeq := intros ? Hin; cbn in Hin; repeat (destruct Hin as [<-|Hin]; [discriminate|]); destruct Hin.
Ltac const_tight := split; cbn; [split; [discriminate|intros _; discriminate]|discriminate].

Lemma consts_ok :
  (noeq strCookieMaxAge /\ tight false strCookieMaxAge) /\ (noeq strCookieExpires /\ tight false strCookieExpires) /\
  (noeq strCookieDomain /\ tight false strCookieDomain) /\ (noeq strCookiePath /\ tight false strCookiePath) /\
  (noeq strCookieSameSite /\ tight false strCookieSameSite) /\
  (noeq strCookieHTTPOnly /\ tight true strCookieHTTPOnly) /\ (noeq strCookieSecure /\ tight true strCookieSecure) /\
  (noeq strCookieSameSite /\ tight true strCookieSameSite) /\ (noeq strCookiePartitioned /\ tight true strCookiePartitioned).
Proof.
  repeat match goal with |- _ /\ _ => split end; try const_noeq;
  (split; [cbn; split; [discriminate|intros _; discriminate]|cbn; discriminate]).
Qed.

(* the attribute parser on the attribute names the serialiser writes *)
Lemma apply_maxage c d : apply_attr c strCookieMaxAge d =
  match ParseUint 64 d with POk n => PCookie (with_maxAge c n) | PErr _ => PErrMaxAge end.
Proof. reflexivity. Qed.
Lemma apply_expires c d : apply_attr c strCookieExpires d =
  match parseRFC1123DateGMT d with Some t => PCookie (with_expire c t) | None => PUnmodelledExpires end.
Proof. reflexivity. Qed.
Lemma apply_domain c d : apply_attr c strCookieDomain d =
  if validCookieValue d then PCookie (with_domain c (initHeaderValueBytes d)) else PErrInvalidValue.
Proof. reflexivity. Qed.
Lemma apply_path c d : apply_attr c strCookiePath d =
  if validCookiePathValue d then PCookie (with_path c (initHeaderValueBytes d)) else PErrInvalidValue.
Proof. reflexivity. Qed.
Lemma apply_flags c :
  apply_attr c [] strCookieHTTPOnly = PCookie (with_httpOnly c true) /\
  apply_attr c [] strCookieSecure = PCookie (with_secure c true) /\
  apply_attr c [] strCookieSameSite = PCookie (with_sameSite c SSDefault) /\
  apply_attr c [] strCookiePartitioned = PCookie (with_partitioned c true) /\
  apply_attr c strCookieSameSite strCookieSameSiteLax = PCookie (with_sameSite c SSLax) /\
  apply_attr c strCookieSameSite strCookieSameSiteStrict = PCookie (with_sameSite c SSStrict) /\
  apply_attr c strCookieSameSite strCookieSameSiteNone = PCookie (with_sameSite c SSNone).
Proof. repeat split; reflexivity. Qed.

(* ------------------------------------------------------------------ the date text has no separator, quote, '=' or outer blank *)
Definition dchar (c : N) : bool :=
  negb (c =? 59) && negb (c =? 34) && negb (c =? 61) && negb (c =? 13) && negb (c =? 10) && negb (c =? 92).
Definition hd_ok (l : bytes) : bool := match l with [] => true | c :: _ => negb (c =? 32) && negb (c =? 34) end.

Lemma names_nth (names : list bytes) : forallb (fun n => forallb dchar n && hd_ok n) names = true ->
  forall i, forallb dchar (nth i names []) = true /\ hd_ok (nth i names []) = true.
Proof.
  intros H i. destruct (Nat.lt_ge_cases i (length names)) as [Hl|Hl].
  - rewrite forallb_forall in H. specialize (H _ (nth_In names [] Hl)). apply andb_true_iff in H. exact H.
  - rewrite nth_overflow by exact Hl. split; reflexivity.
Qed.
Lemma dig_dchar v : (0 <= v <= 9)%Z -> dchar (dig v) = true.
Proof. intros H. unfold dchar, dig. lia. Qed.
Lemma fmt2_dchar v : forallb dchar (fmt2 v) = true.
Proof.
  unfold fmt2. cbn [forallb]. rewrite !dig_dchar; [reflexivity| |].
  - pose proof (Z.mod_pos_bound v 10 ltac:(lia)). lia.
  - pose proof (Z.mod_pos_bound (v / 10) 10 ltac:(lia)). lia.
Qed.
Lemma fmt4_dchar v : forallb dchar (fmt4 v) = true.
Proof.
  unfold fmt4. cbn [forallb]. rewrite !dig_dchar; [reflexivity| | | |].
  - pose proof (Z.mod_pos_bound v 10 ltac:(lia)). lia.
  - pose proof (Z.mod_pos_bound (v / 10) 10 ltac:(lia)). lia.
  - pose proof (Z.mod_pos_bound (v / 100) 10 ltac:(lia)). lia.
  - pose proof (Z.mod_pos_bound (v / 1000) 10 ltac:(lia)). lia.
Qed.

Lemma date_text secs :
  forallb dchar (AppendHTTPDate secs) = true /\ hd_ok (AppendHTTPDate secs) = true /\
  exists m, AppendHTTPDate secs = m ++ [84].
Proof.
  unfold AppendHTTPDate, spec_format_http_date. cbv zeta.
  destruct (civil_from_days (secs / 86400 + epoch_days)) as [[y mo] d].
  set (wd := Z.to_nat (weekday_of_days (secs / 86400 + epoch_days))). set (mi := Z.to_nat (mo - 1)).
  destruct (names_nth day_names ltac:(vm_compute; reflexivity) wd) as [D1 D2].
  destruct (names_nth month_names ltac:(vm_compute; reflexivity) mi) as [M1 _].
  split; [|split].
  - rewrite !forallb_app. rewrite D1, M1, !fmt2_dchar, fmt4_dchar. reflexivity.
  - destruct (nth wd day_names []) as [|c r]; [reflexivity|exact D2].
  - eexists. change (s2b " GMT") with ([32; 71; 77] ++ [84]). rewrite !app_assoc. reflexivity.
Qed.

Lemma dchar_facts s : forallb dchar s = true -> nosemi s /\ noeq s /\ validCookieValue s = true /\ removeNewLines s = s /\
  (forall c, In c s -> c <> 34).
Proof.
  intros H. rewrite forallb_forall in H.
  assert (K : forall c, In c s -> c <> 59 /\ c <> 34 /\ c <> 61 /\ c <> 13 /\ c <> 10 /\ c <> 92).
  { intros c Hc. specialize (H c Hc). unfold dchar in H. lia. }
  split; [intros c Hc; apply K, Hc|]. split; [intros c Hc; apply K, Hc|]. split; [|split].
  - unfold validCookieValue. apply forallb_forall. intros c Hc. specialize (K c Hc). lia.
  - unfold removeNewLines. rewrite <- (map_id s) at 2. apply map_ext_in. intros c Hc. specialize (K c Hc).
    destruct (N.eqb_spec c 13); [lia|]. destruct (N.eqb_spec c 10); [lia|]. reflexivity.
  - intros c Hc. apply K, Hc.
Qed.
Lemma date_tight secs : tight true (AppendHTTPDate secs).
Proof.
  destruct (date_text secs) as (_ & H2 & (m & E)). split.
  - destruct (AppendHTTPDate secs) as [|c r]; [exact I|]. cbn in H2. split; [lia|intros _; lia].
  - rewrite E, rev_app_distr. cbn. discriminate.
Qed.

Lemma digits_facts n : (0 <= n)%Z -> forallb dchar (dec_digits n) = true /\ tight true (dec_digits n) /\ dec_digits n <> [].
Proof.
  intros Hn. destruct (dec_digits_spec n Hn) as (Ha & Hne & _).
  assert (K : forall c, In c (dec_digits n) -> 48 <= c <= 57).
  { intros c Hc. unfold all_digits in Ha. rewrite forallb_forall in Ha. specialize (Ha c Hc). unfold is_digit in Ha. lia. }
  split; [|split; [|exact Hne]].
  - apply forallb_forall. intros c Hc. specialize (K c Hc). unfold dchar. lia.
  - split.
    + destruct (dec_digits n) as [|c r]; [exact I|]. specialize (K c (or_introl eq_refl)). split; [lia|intros _; lia].
    + destruct (rev (dec_digits n)) as [|l m] eqn:E; [exact I|]. assert (In l (dec_digits n)) by (apply in_rev; rewrite E; now left).
      specialize (K l H). lia.
Qed.

(* ------------------------------------------------------------------ what each group of segments does to the parsed cookie *)
Lemma trim_attr_norm s : trimCookieArg s true = attr_norm s.
Proof. reflexivity. Qed.
Lemma trim_strip s : trimCookieArg s false = strip s.
Proof. reflexivity. Qed.

Lemma ParseUint_digits n : (0 <= n <= maxInt 64)%Z -> ParseUint 64 (dec_digits n) = POk n.
Proof.
  intros H. destruct (append_parse_inverse 64 n (or_intror eq_refl) H) as (d & Ed & Ep).
  unfold AppendUint in Ed. destruct (n <? 0)%Z eqn:E; [lia|]. inversion Ed; subst. exact Ep.
Qed.

Definition expire_ok (c : cookie) : Prop := IsZero (ck_expire c) = true \/ (0 <= year_of (ck_expire c) <= 9999)%Z.

Definition age_upd (c x : cookie) : cookie :=
  if negb (ck_maxAge c =? 0)%Z then with_maxAge x (Z.max 0 (ck_maxAge c))
  else if negb (IsZero (ck_expire c)) then with_expire x (ck_expire c) else x.

Lemma fold_age c x : (ck_maxAge c <= maxInt 64)%Z -> expire_ok c -> fold_attrs (age_segs c) x = PCookie (age_upd c x).
Proof.
  intros Hm He. unfold age_segs, age_upd. destruct consts_ok as ((A1 & A2) & (B1 & B2) & _).
  destruct (negb (ck_maxAge c =? 0)%Z) eqn:E1.
  - assert (G : forall n, (0 <= n <= maxInt 64)%Z -> fold_attrs [strCookieMaxAge ++ [61] ++ dec_digits n] x = PCookie (with_maxAge x n)).
    { intros n Hn. destruct (digits_facts n (proj1 Hn)) as (D1 & D2 & D3). cbn [fold_attrs].
      rewrite kv_of_attr by assumption. cbn [fst snd]. rewrite trimCookieArg_tight by exact D2.
      rewrite apply_maxage, ParseUint_digits by exact Hn. reflexivity. }
    destruct (ck_maxAge c <? 0)%Z eqn:E.
    + rewrite G by (split; [lia|vm_compute; discriminate]). f_equal. f_equal. lia.
    + rewrite G by lia. f_equal. f_equal. lia.
  - destruct (negb (IsZero (ck_expire c))) eqn:E2; [|reflexivity].
    cbn [fold_attrs]. rewrite kv_of_attr by assumption. cbn [fst snd]. rewrite trimCookieArg_tight by apply date_tight.
    rewrite apply_expires. unfold AppendHTTPDate. destruct He as [He|He]; [rewrite He in E2; discriminate|].
    rewrite date_roundtrip by exact He. reflexivity.
Qed.

Definition dom_res (d : bytes) (x : cookie) : presult :=
  match d with
  | [] => PCookie x
  | _ => if validCookieValue (attr_norm d) then PCookie (with_domain x (attr_norm d)) else PErrInvalidValue
  end.
Definition path_res (p : bytes) (x : cookie) : presult :=
  match p with
  | [] => PCookie x
  | _ => if validCookiePathValue (attr_norm p) then PCookie (with_path x (attr_norm p)) else PErrInvalidValue
  end.

Lemma sub_trim s q c : In c (trimCookieArg s q) -> In c s.
Proof.
  unfold trimCookieArg, trimSpaces. intros H.
  assert (D : forall t x, In x (dropSpaces t) -> In x t).
  { induction t as [|a t IH]; intros x Hx; [exact Hx|]. cbn [dropSpaces] in Hx. destruct (a =? 32); [right; now apply IH|exact Hx]. }
  assert (T : forall x, In x (rev (dropSpaces (rev (dropSpaces s)))) -> In x s).
  { intros x Hx. apply in_rev in Hx. apply D in Hx. apply in_rev in Hx. now apply D. }
  destruct q; [|now apply T]. apply T. unfold unquote in H.
  destruct (rev (dropSpaces (rev (dropSpaces s)))) as [|a r] eqn:E; [exact H|].
  destruct (a =? 34); [|exact H]. destruct (rev r) as [|d m] eqn:E2; [exact H|]. destruct (d =? 34); [|exact H].
  right. apply in_rev. rewrite E2. right. now apply in_rev in H.
Qed.
Lemma ns_removeNewLines s : ns s -> removeNewLines s = s.
Proof.
  rewrite ns_In. intros H. unfold removeNewLines. rewrite <- (map_id s) at 2. apply map_ext_in. intros c Hc. specialize (H c Hc).
  unfold is_sep in H. destruct (N.eqb_spec c 13); [subst; discriminate|]. destruct (N.eqb_spec c 10); [subst; discriminate|]. reflexivity.
Qed.
Lemma ns_trim s q : ns s -> ns (trimCookieArg s q).
Proof. rewrite !ns_In. intros H c Hc. apply H. eapply sub_trim; exact Hc. Qed.

Lemma fold_dom d x : ns d -> fold_attrs (part_seg strCookieDomain d) x = dom_res d x.
Proof.
  intros Hd. destruct consts_ok as (_ & _ & (A1 & A2) & _). unfold part_seg, dom_res. destruct d as [|c0 d0]; [reflexivity|].
  cbn [fold_attrs]. rewrite kv_of_attr by assumption. cbn [fst snd]. rewrite apply_domain, trim_attr_norm.
  unfold initHeaderValueBytes. rewrite ns_removeNewLines by (rewrite <- trim_attr_norm; now apply ns_trim).
  destruct (validCookieValue _); reflexivity.
Qed.
Lemma fold_path p x : ns p -> fold_attrs (part_seg strCookiePath p) x = path_res p x.
Proof.
  intros Hd. destruct consts_ok as (_ & _ & _ & (A1 & A2) & _). unfold part_seg, path_res. destruct p as [|c0 d0]; [reflexivity|].
  cbn [fold_attrs]. rewrite kv_of_attr by assumption. cbn [fst snd]. rewrite apply_path, trim_attr_norm.
  unfold initHeaderValueBytes. rewrite ns_removeNewLines by (rewrite <- trim_attr_norm; now apply ns_trim).
  destruct (validCookiePathValue _); reflexivity.
Qed.

Lemma fold_flags x b1 b2 m b3 :
  fold_attrs (opt_seg b1 strCookieHTTPOnly ++ opt_seg b2 strCookieSecure ++ ss_segs m ++ opt_seg b3 strCookiePartitioned) x =
  PCookie (let x := if b1 then with_httpOnly x true else x in
           let x := if b2 then with_secure x true else x in
           let x := match m with SSDisabled => x | _ => with_sameSite x m end in
           if b3 then with_partitioned x true else x).
Proof.
  destruct consts_ok as (_ & _ & _ & _ & (S1 & S2) & (H1 & H2) & (C1 & C2) & (T1 & T2) & (P1 & P2)).
  assert (Lax : tight true strCookieSameSiteLax /\ tight true strCookieSameSiteStrict /\ tight true strCookieSameSiteNone).
  { repeat split; cbn; try discriminate; intros _; discriminate. }
  destruct Lax as (L1 & L2 & L3).
  assert (F1 : forall y, fold_attrs (opt_seg b1 strCookieHTTPOnly) y = PCookie (if b1 then with_httpOnly y true else y)).
  { intros y. destruct b1; [|reflexivity]. cbn [opt_seg fold_attrs]. rewrite kv_of_flag by assumption. cbn [fst snd]. now destruct (apply_flags y) as (-> & _). }
  assert (F2 : forall y, fold_attrs (opt_seg b2 strCookieSecure) y = PCookie (if b2 then with_secure y true else y)).
  { intros y. destruct b2; [|reflexivity]. cbn [opt_seg fold_attrs]. rewrite kv_of_flag by assumption. cbn [fst snd]. now destruct (apply_flags y) as (_ & -> & _). }
  assert (F3 : forall y, fold_attrs (ss_segs m) y = PCookie (match m with SSDisabled => y | _ => with_sameSite y m end)).
  { intros y. destruct m; reflexivity. }
  assert (F4 : forall y, fold_attrs (opt_seg b3 strCookiePartitioned) y = PCookie (if b3 then with_partitioned y true else y)).
  { intros y. destruct b3; [|reflexivity]. cbn [opt_seg fold_attrs]. rewrite kv_of_flag by assumption. cbn [fst snd]. now destruct (apply_flags y) as (_ & _ & _ & -> & _). }
  rewrite fold_attrs_app, F1. cbn [bindp]. rewrite fold_attrs_app, F2. cbn [bindp]. rewrite fold_attrs_app, F3. cbn [bindp]. rewrite F4. reflexivity.
Qed.

(* ------------------------------------------------------------------ the segments are ';'-free and non-empty *)
Lemma nosemi_app a b : nosemi a -> nosemi b -> nosemi (a ++ b).
Proof. intros Ha Hb c Hc. apply in_app_or in Hc as [Hc|Hc]; auto. Qed.
Ltac const_nosemi := intros ? Hin; cbn in Hin; repeat (destruct Hin as [<-|Hin]; [discriminate|]); destruct Hin.
Lemma consts_nosemi :
  nosemi strCookieMaxAge /\ nosemi strCookieExpires /\ nosemi strCookieDomain /\ nosemi strCookiePath /\ nosemi strCookieHTTPOnly /\
  nosemi strCookieSecure /\ nosemi strCookieSameSite /\ nosemi strCookiePartitioned /\ nosemi strCookieSameSiteLax /\
  nosemi strCookieSameSiteStrict /\ nosemi strCookieSameSiteNone /\ nosemi [61].
Proof. repeat match goal with |- _ /\ _ => split end; const_nosemi. Qed.

Definition segs_ok (l : list bytes) : Prop := Forall nosemi l /\ Forall (fun s => s <> []) l.
Lemma segs_ok_app a b : segs_ok a -> segs_ok b -> segs_ok (a ++ b).
Proof. intros [A1 A2] [B1 B2]. split; apply Forall_app; split; assumption. Qed.
Lemma segs_ok_nil : segs_ok []. Proof. split; constructor. Qed.
Lemma segs_ok_one s : nosemi s -> s <> [] -> segs_ok [s].
Proof. intros. split; constructor; try assumption; constructor. Qed.
Lemma attr_nosemi k v : nosemi k -> nosemi v -> nosemi (k ++ [61] ++ v).
Proof. intros Hk Hv. apply nosemi_app; [exact Hk|]. apply nosemi_app; [|exact Hv]. intros x [<-|[]]. discriminate. Qed.
Lemma attr_nonempty k v : k ++ [61] ++ v <> [].
Proof. destruct k; discriminate. Qed.

Lemma digits_nosemi n : nosemi (dec_digits n).
Proof.
  destruct (Z.le_gt_cases 0 n) as [Hn|Hn]; [now destruct (dchar_facts _ (proj1 (digits_facts n Hn)))|].
  unfold dec_digits. rewrite Z.log2_nonpos by lia. cbn [Z.to_nat dec_fuel]. assert (E : (n <? 10)%Z = true) by lia. rewrite E.
  intros ch [<-|[]]. pose proof (Z.mod_pos_bound n 10 ltac:(lia)). lia.
Qed.

Lemma attr_segs_ok c : cookie_ns c -> Forall nosemi (attr_segs c) /\ Forall (fun s => s <> []) (attr_segs c).
Proof.
  intros (H1 & H2 & H3 & H4).
  destruct consts_nosemi as (N1 & N2 & N3 & N4 & N5 & N6 & N7 & N8 & N9 & N10 & N11 & N12).
  assert (Hdate : forall t, nosemi (AppendHTTPDate t)) by (intros t; now destruct (dchar_facts _ (proj1 (date_text t)))).
  change (segs_ok (attr_segs c)). unfold attr_segs. repeat apply segs_ok_app.
  - unfold age_segs. destruct (negb (ck_maxAge c =? 0)%Z).
    + apply segs_ok_one; [|apply attr_nonempty]. apply attr_nosemi; [exact N1|]. destruct (ck_maxAge c <? 0)%Z; apply digits_nosemi.
    + destruct (negb (IsZero (ck_expire c))); [|apply segs_ok_nil]. apply segs_ok_one; [|apply attr_nonempty]. now apply attr_nosemi.
  - unfold part_seg. destruct (ck_domain c) eqn:E; [apply segs_ok_nil|]. apply segs_ok_one; [|apply attr_nonempty]. apply attr_nosemi; [exact N3|exact (ns_nosemi _ H3)].
  - unfold part_seg. destruct (ck_path c) eqn:E; [apply segs_ok_nil|]. apply segs_ok_one; [|apply attr_nonempty]. apply attr_nosemi; [exact N4|exact (ns_nosemi _ H4)].
  - destruct (ck_httpOnly c); [|apply segs_ok_nil]. apply segs_ok_one; [exact N5|discriminate].
  - destruct (ck_secure c); [|apply segs_ok_nil]. apply segs_ok_one; [exact N6|discriminate].
  - destruct (ck_sameSite c); cbn [ss_segs]; try apply segs_ok_nil; apply segs_ok_one; try discriminate; try assumption; now apply attr_nosemi.
  - destruct (ck_partitioned c); [|apply segs_ok_nil]. apply segs_ok_one; [exact N8|discriminate].
Qed.

Lemma first_seg_nosemi c : cookie_ns c -> nosemi (first_seg c).
Proof.
  intros (H1 & H2 & _). unfold first_seg. apply nosemi_app; [|exact (ns_nosemi _ H2)].
  destruct (ck_key c) eqn:E; [intros ? []|]. apply nosemi_app; [exact (ns_nosemi _ H1)|]. intros x [<-|[]]. discriminate.
Qed.

(* ------------------------------------------------------------------ C06 (a): no attribute can be injected *)
Record attrs_as_set (s p : cookie) : Prop := {
  a_maxage : ck_maxAge p = Z.max 0 (ck_maxAge s);
  a_expire : ck_expire p = if (ck_maxAge s =? 0)%Z then ck_expire s else zeroTime;
  a_domain : ck_domain p = attr_norm (ck_domain s);
  a_path : ck_path p = attr_norm (ck_path s);
  a_httponly : ck_httpOnly p = ck_httpOnly s;
  a_secure : ck_secure p = ck_secure s;
  a_samesite : ck_sameSite p = ck_sameSite s;
  a_partitioned : ck_partitioned p = ck_partitioned s;
  a_key : ck_key p = fst (kv_of (first_seg s));
  a_value : ck_value p = snd (kv_of (first_seg s)) }.

Lemma kv_of_ns s : ns s -> ns (fst (kv_of s)) /\ ns (snd (kv_of s)).
Proof.
  intros H. unfold kv_of. destruct (split_at 61 s) as [x y] eqn:E.
  assert (S : (forall c, In c x -> In c s) /\ (forall v, y = Some v -> forall c, In c v -> In c s)).
  { clear H. revert x y E. induction s as [|a s IH]; intros x y E; cbn [split_at] in E.
    - inversion E; subst. split; [auto|discriminate].
    - destruct (a =? 61).
      + inversion E; subst. split; [intros ? []|]. intros v Hv c Hc. inversion Hv; subst. now right.
      + destruct (split_at 61 s) as [x' y'] eqn:E'. inversion E; subst. destruct (IH _ _ eq_refl) as [I1 I2]. split.
        * intros c [->|Hc]; [now left|right; now apply I1].
        * intros v Hv c Hc. right. eapply I2; eassumption. }
  destruct S as [Sx Sy]. rewrite ns_In in H.
  destruct y as [v|]; cbn [fst snd]; split; apply ns_In; intros c Hc.
  - apply H, Sx. eapply sub_trim; exact Hc.
  - apply H. eapply Sy; [reflexivity|]. eapply sub_trim; exact Hc.
  - destruct Hc.
  - apply H, Sx. eapply sub_trim; exact Hc.
Qed.

Theorem no_attribute_injection c c' : cookie_ns c -> (ck_maxAge c <= maxInt 64)%Z -> expire_ok c ->
  ParseBytes (Cookie_ c) = PCookie c' -> attrs_as_set c c'.
Proof.
  intros Hc Hm He. pose proof Hc as (K1 & K2 & K3 & K4).
  destruct (attr_segs_ok c Hc) as [S1 S2]. pose proof (first_seg_nosemi c Hc) as S0.
  rewrite Cookie_shape. change (first_seg c ++ sj (attr_segs c)) with (joined (first_seg c :: attr_segs c)).
  rewrite ParseBytes_joined by assumption.
  destruct (joined (first_seg c :: attr_segs c)); [discriminate|].
  destruct (negb (validCookieValue (snd (kv_of (first_seg c))))); [discriminate|].
  unfold attr_segs. rewrite fold_attrs_app, fold_age by assumption. cbn [bindp].
  rewrite fold_attrs_app, fold_dom by assumption. unfold dom_res.
  assert (Hfs : ns (first_seg c)).
  { unfold first_seg. apply ns_app. split; [|exact K2]. destruct (ck_key c) eqn:E; [reflexivity|]. apply ns_app. split; [exact K1|reflexivity]. }
  destruct (kv_of_ns _ Hfs) as [Hk Hv].
  set (x0 := first_cookie (first_seg c)).
  assert (X0 : ck_key x0 = fst (kv_of (first_seg c)) /\ ck_value x0 = snd (kv_of (first_seg c)) /\ ck_domain x0 = [] /\ ck_path x0 = [] /\
               ck_expire x0 = zeroTime /\ ck_maxAge x0 = 0%Z /\ ck_sameSite x0 = SSDisabled /\ ck_httpOnly x0 = false /\ ck_secure x0 = false /\ ck_partitioned x0 = false).
  { subst x0. unfold first_cookie, initHeaderValueBytes. cbn. rewrite !ns_removeNewLines by assumption. repeat split. }
  destruct X0 as (X1 & X2 & X3 & X4 & X5 & X6 & X7 & X8 & X9 & X10).
  set (x1 := age_upd c x0).
  assert (Y : ck_key x1 = ck_key x0 /\ ck_value x1 = ck_value x0 /\ ck_domain x1 = [] /\ ck_path x1 = [] /\
              ck_maxAge x1 = Z.max 0 (ck_maxAge c) /\ ck_expire x1 = (if (ck_maxAge c =? 0)%Z then ck_expire c else zeroTime) /\
              ck_sameSite x1 = SSDisabled /\ ck_httpOnly x1 = false /\ ck_secure x1 = false /\ ck_partitioned x1 = false).
  { subst x1. unfold age_upd. destruct (ck_maxAge c =? 0)%Z eqn:E0; cbn [negb].
    - destruct (IsZero (ck_expire c)) eqn:Ez; cbn [negb].
      + unfold IsZero in Ez. repeat split; try assumption; try reflexivity. lia. rewrite X5. lia.
      + cbn. repeat split; try assumption. lia.
    - cbn. repeat split; try assumption. }
  destruct Y as (Y1 & Y2 & Y3 & Y4 & Y5 & Y6 & Y7 & Y8 & Y9 & Y10).
  assert (Fin : forall x2, ck_key x2 = ck_key x1 -> ck_value x2 = ck_value x1 -> ck_maxAge x2 = ck_maxAge x1 -> ck_expire x2 = ck_expire x1 ->
    ck_sameSite x2 = SSDisabled -> ck_httpOnly x2 = false -> ck_secure x2 = false -> ck_partitioned x2 = false ->
    ck_domain x2 = attr_norm (ck_domain c) -> ck_path x2 = attr_norm (ck_path c) ->
    fold_attrs (opt_seg (ck_httpOnly c) strCookieHTTPOnly ++ opt_seg (ck_secure c) strCookieSecure ++ ss_segs (ck_sameSite c) ++
                opt_seg (ck_partitioned c) strCookiePartitioned) x2 = PCookie c' -> attrs_as_set c c').
  { intros x2 A1 A2 A3 A4 A5 A6 A7 A8 A9 A10. rewrite fold_flags. cbv zeta. intros E. inversion E; subst c'; clear E.
    constructor;
    destruct (ck_httpOnly c), (ck_secure c), (ck_sameSite c), (ck_partitioned c); cbn; congruence. }
  assert (Pth : forall x2, ck_key x2 = ck_key x1 -> ck_value x2 = ck_value x1 -> ck_maxAge x2 = ck_maxAge x1 -> ck_expire x2 = ck_expire x1 ->
    ck_sameSite x2 = SSDisabled -> ck_httpOnly x2 = false -> ck_secure x2 = false -> ck_partitioned x2 = false ->
    ck_domain x2 = attr_norm (ck_domain c) -> ck_path x2 = [] ->
    bindp (fold_attrs (part_seg strCookiePath (ck_path c)) x2)
      (fold_attrs (opt_seg (ck_httpOnly c) strCookieHTTPOnly ++ opt_seg (ck_secure c) strCookieSecure ++ ss_segs (ck_sameSite c) ++
                opt_seg (ck_partitioned c) strCookiePartitioned)) = PCookie c' -> attrs_as_set c c').
  { intros x2 A1 A2 A3 A4 A5 A6 A7 A8 A9 A10. rewrite fold_path by assumption. unfold path_res.
    destruct (ck_path c) as [|p0 pr] eqn:Ep.
    - cbn [bindp]. apply Fin; try assumption; rewrite ?Ep; try assumption; try reflexivity.
    - destruct (validCookiePathValue (attr_norm (p0 :: pr))); [|discriminate]. cbn [bindp]. apply Fin; cbn; rewrite ?Ep; try assumption; try reflexivity. }
  destruct (ck_domain c) as [|d0 dr] eqn:Ed.
  - cbn [bindp]. rewrite fold_attrs_app. apply Pth; try assumption; rewrite ?Ed; try assumption; try reflexivity.
  - destruct (validCookieValue (attr_norm (d0 :: dr))); [|discriminate]. cbn [bindp]. rewrite fold_attrs_app. apply Pth; cbn; rewrite ?Ed; try assumption; try reflexivity.
Qed.

(* the complete outcome of parsing a serialised cookie: the only errors are "no cookie" (everything empty) and
   "invalid value" (a double quote or backslash left in value/domain, a control or non-ASCII byte in the path) *)
Definition flags_upd (c x : cookie) : cookie :=
  let x := if ck_httpOnly c then with_httpOnly x true else x in
  let x := if ck_secure c then with_secure x true else x in
  let x := match ck_sameSite c with SSDisabled => x | _ => with_sameSite x (ck_sameSite c) end in
  if ck_partitioned c then with_partitioned x true else x.
Definition parse_spec (c : cookie) : presult :=
  match joined (first_seg c :: attr_segs c) with
  | [] => PErrNoCookies
  | _ =>
      if negb (validCookieValue (snd (kv_of (first_seg c)))) then PErrInvalidValue
      else bindp (dom_res (ck_domain c) (age_upd c (first_cookie (first_seg c))))
             (fun x => bindp (path_res (ck_path c) x) (fun x => PCookie (flags_upd c x)))
  end.

Theorem ParseBytes_spec c : cookie_ns c -> (ck_maxAge c <= maxInt 64)%Z -> expire_ok c -> ParseBytes (Cookie_ c) = parse_spec c.
Proof.
  intros Hc Hm He. pose proof Hc as (K1 & K2 & K3 & K4).
  destruct (attr_segs_ok c Hc) as [S1 S2]. pose proof (first_seg_nosemi c Hc) as S0.
  rewrite Cookie_shape. change (first_seg c ++ sj (attr_segs c)) with (joined (first_seg c :: attr_segs c)).
  rewrite ParseBytes_joined by assumption. unfold parse_spec.
  destruct (joined (first_seg c :: attr_segs c)); [reflexivity|].
  destruct (negb (validCookieValue (snd (kv_of (first_seg c))))); [reflexivity|].
  unfold attr_segs. rewrite fold_attrs_app, fold_age by assumption. cbn [bindp].
  rewrite fold_attrs_app, fold_dom by assumption.
  destruct (dom_res (ck_domain c) (age_upd c (first_cookie (first_seg c)))); cbn [bindp]; try reflexivity.
  rewrite fold_attrs_app, fold_path by assumption.
  destruct (path_res (ck_path c) c0); cbn [bindp]; try reflexivity.
  rewrite fold_flags. reflexivity.
Qed.

(* ------------------------------------------------------------------ C06 (c): cookie-octets round-trip exactly *)
Lemma octet_facts s : octets s = true -> ns s /\ tight true s /\ validCookieValue s = true /\ attr_norm s = s.
Proof.
  intros H. unfold octets in H. rewrite forallb_forall in H.
  assert (K : forall c, In c s -> c <> 32 /\ c <> 34 /\ c <> 59 /\ c <> 92 /\ c <> 13 /\ c <> 10).
  { intros c Hc. specialize (H c Hc). unfold cookie_octet in H. lia. }
  assert (T : tight true s).
  { split.
    - destruct s as [|c r]; [exact I|]. destruct (K c (or_introl eq_refl)) as (A & B & _). split; [exact A|intros _; exact B].
    - destruct (rev s) as [|l m] eqn:E; [exact I|]. assert (In l s) by (apply in_rev; rewrite E; now left). now destruct (K l H0). }
  split; [|split; [exact T|split]].
  - apply ns_In. intros c Hc. destruct (K c Hc) as (_&_&A&_&B&C). unfold is_sep. lia.
  - unfold validCookieValue. apply forallb_forall. intros c Hc. destruct (K c Hc) as (_&A&B&C&_). lia.
  - rewrite <- trim_attr_norm. now apply trimCookieArg_tight.
Qed.
Lemma name_facts s : cookie_name s = true -> ns s /\ tight false s /\ noeq s /\ s <> [].
Proof.
  intros H. unfold cookie_name in H. destruct s as [|c0 s0]; [discriminate|]. set (s := c0 :: s0) in *.
  rewrite forallb_forall in H.
  assert (K : forall c, In c s -> c <> 32 /\ c <> 34 /\ c <> 59 /\ c <> 61 /\ c <> 13 /\ c <> 10).
  { intros c Hc. specialize (H c Hc). unfold name_octet, cookie_octet in H. lia. }
  split; [|split; [|split]].
  - apply ns_In. intros c Hc. destruct (K c Hc) as (_&_&A&_&B&C). unfold is_sep. lia.
  - split.
    + subst s. destruct (K c0 (or_introl eq_refl)) as (A & _). split; [exact A|discriminate].
    + destruct (rev s) as [|l m] eqn:E; [exact I|]. assert (In l s) by (apply in_rev; rewrite E; now left). now destruct (K l H0).
  - intros c Hc. now destruct (K c Hc) as (_&_&_&A&_).
  - discriminate.
Qed.

Definition path_byte (c : N) : bool := (32 <=? c) && (c <? 127) && negb (c =? 59).
Lemma path_facts p : forallb path_byte p = true -> ns p /\ validCookiePathValue (attr_norm p) = true.
Proof.
  intros H. rewrite forallb_forall in H.
  assert (K : forall c, In c p -> 32 <= c /\ c < 127 /\ c <> 59) by (intros c Hc; specialize (H c Hc); unfold path_byte in H; lia).
  split.
  - apply ns_In. intros c Hc. destruct (K c Hc) as (A&B&C). unfold is_sep. lia.
  - unfold validCookiePathValue. apply forallb_forall. intros c Hc. rewrite <- trim_attr_norm in Hc. apply sub_trim in Hc.
    destruct (K c Hc) as (A&B&C). destruct ((c =? 13) || (c =? 10)); [reflexivity|]. lia.
Qed.

Theorem roundtrip_octets c :
  cookie_name (ck_key c) = true -> octets (ck_value c) = true -> octets (ck_domain c) = true -> forallb path_byte (ck_path c) = true ->
  (0 <= ck_maxAge c <= maxInt 64 \/ ck_maxAge c < 0)%Z -> expire_ok c ->
  exists c', ParseBytes (Cookie_ c) = PCookie c' /\
    ck_key c' = ck_key c /\ ck_value c' = ck_value c /\ ck_domain c' = ck_domain c /\ ck_path c' = attr_norm (ck_path c) /\
    attrs_as_set c c'.
Proof.
  intros Hk Hv Hd Hp Hm He.
  destruct (name_facts _ Hk) as (K1 & K2 & K3 & K4). destruct (octet_facts _ Hv) as (V1 & V2 & V3 & V4).
  destruct (octet_facts _ Hd) as (D1 & D2 & D3 & D4). destruct (path_facts _ Hp) as (P1 & P2).
  assert (Hc : cookie_ns c) by (repeat split; assumption).
  assert (Hm' : (ck_maxAge c <= maxInt 64)%Z) by (destruct Hm as [Hm|Hm]; [lia|]; assert (0 <= maxInt 64)%Z by (vm_compute; discriminate); lia).
  assert (Ekv : kv_of (first_seg c) = (ck_key c, ck_value c)).
  { unfold first_seg. destruct (ck_key c) as [|k0 kr] eqn:E; [congruence|]. rewrite <- E in *.
    change ((ck_key c ++ [61]) ++ ck_value c) with ((ck_key c ++ [61]) ++ ck_value c). rewrite <- app_assoc.
    rewrite kv_of_attr by assumption. now rewrite trimCookieArg_tight. }
  pose proof (ParseBytes_spec c Hc Hm' He) as Sp. unfold parse_spec in Sp.
  destruct (joined (first_seg c :: attr_segs c)) as [|j0 jr] eqn:Ej.
  { exfalso. cbn [joined] in Ej. unfold first_seg in Ej. destruct (ck_key c); [congruence|]. discriminate. }
  rewrite Ekv in Sp. cbn [snd] in Sp. rewrite V3 in Sp. cbn [negb] in Sp.
  unfold dom_res, path_res in Sp. rewrite D4, D3, P2 in Sp.
  assert (exists c', ParseBytes (Cookie_ c) = PCookie c') as (c' & Ec').
  { rewrite Sp. destruct (ck_domain c); destruct (ck_path c); cbn [bindp]; eexists; reflexivity. }
  exists c'. split; [exact Ec'|].
  pose proof (no_attribute_injection c c' Hc Hm' He Ec') as A.
  pose proof A as A'. destruct A as [A1 A2 A3 A4 A5 A6 A7 A8 A9 A10]. rewrite Ekv in A9, A10. cbn [fst snd] in A9, A10.
  split; [exact A9|]. split; [exact A10|]. split; [now rewrite A3, D4|]. split; [exact A4|exact A'].
Qed.

(* ------------------------------------------------------------------ C06 (b): request cookies *)
Definition jar_run (sets : list (bytes * bytes)) : kvs := fold_left (fun j kv => jarSetCookie j (fst kv) (snd kv)) sets [].

Lemma setArg_assoc j k v : setArg j k v = assoc_set j k v.
Proof. induction j as [|[k' v'] r IH]; cbn [setArg assoc_set]; [reflexivity|]. destruct (beq k k'); [reflexivity|]. now rewrite IH. Qed.
Lemma jar_run_spec sets : jar_run sets = jar_of sets.
Proof.
  unfold jar_run, jar_of. generalize (@nil (bytes * bytes)). induction sets as [|[k v] r IH]; intros j; cbn [fold_left]; [reflexivity|].
  rewrite <- IH. f_equal. unfold jarSetCookie, initHeaderValueBytes. cbn [fst snd]. now rewrite !clean_model, setArg_assoc.
Qed.

Definition jar_ns (j : kvs) : Prop := Forall (fun kv => ns (fst kv) /\ ns (snd kv)) j.
Lemma assoc_set_ns j k v : jar_ns j -> ns k -> ns v -> jar_ns (assoc_set j k v).
Proof.
  intros Hj Hk Hv. induction Hj as [|[k' v'] r [A B] Hr IH]; cbn [assoc_set]; [constructor; [split; assumption|constructor]|].
  destruct (beq k k'); constructor; try assumption; split; assumption.
Qed.
Lemma jar_of_ns sets : jar_ns (jar_of sets).
Proof.
  unfold jar_of. assert (G : forall sets j, jar_ns j -> jar_ns (fold_left (fun j kv => assoc_set j (clean (fst kv)) (clean (snd kv))) sets j)).
  { clear. induction sets as [|kv r IH]; intros j Hj; [exact Hj|]. cbn [fold_left]. apply IH. apply assoc_set_ns; [exact Hj| |]; apply clean_ns. }
  apply G. constructor.
Qed.
Lemma assoc_set_keys j k v : NoDup (map fst j) -> NoDup (map fst (assoc_set j k v)) /\
  (forall x, In x (map fst (assoc_set j k v)) -> x = k \/ In x (map fst j)) /\ (length (assoc_set j k v) <= S (length j))%nat.
Proof.
  induction j as [|[k' v'] r IH]; intros Hn; cbn [assoc_set].
  - split; [repeat constructor; intros []|]. split; [intros x [<-|[]]; now left|cbn; lia].
  - destruct (beq k k') eqn:E.
    + split; [exact Hn|]. split; [intros x Hx; now right|cbn; lia].
    + inversion Hn as [|? ? Hni Hnr]; subst. destruct (IH Hnr) as (I1 & I2 & I3). cbn [map fst length]. split; [|split].
      * constructor; [|exact I1]. intros Hin. apply I2 in Hin as [->|Hin]; [|contradiction]. now rewrite beq_refl in E.
      * intros x [<-|Hx]; [right; now left|]. apply I2 in Hx as [->|Hx]; [now left|right; now right].
      * lia.
Qed.
Lemma jar_of_keys sets : NoDup (map fst (jar_of sets)) /\ (length (jar_of sets) <= length sets)%nat.
Proof.
  unfold jar_of. assert (G : forall sets j, NoDup (map fst j) ->
     NoDup (map fst (fold_left (fun j kv => assoc_set j (clean (fst kv)) (clean (snd kv))) sets j)) /\
     (length (fold_left (fun j kv => assoc_set j (clean (fst kv)) (clean (snd kv))) sets j) <= length j + length sets)%nat).
  { clear. induction sets as [|kv r IH]; intros j Hj; cbn [fold_left]; [split; [exact Hj|cbn; lia]|].
    destruct (assoc_set_keys j (clean (fst kv)) (clean (snd kv)) Hj) as (A & _ & C). destruct (IH _ A) as [I1 I2]. split; [exact I1|]. cbn [length]. lia. }
  destruct (G sets [] (NoDup_nil _)) as [A B]. split; [exact A|cbn in B; lia].
Qed.

(* the header value is the pairs joined by "; " *)
Lemma pair_text_model kv : pair_text kv = match fst kv with [] => [] | _ => fst kv ++ [61] end ++ snd kv.
Proof. unfold pair_text. destruct (fst kv); [reflexivity|]. now rewrite <- app_assoc. Qed.
Lemma appendRequestCookieBytes_joined j : forall dst, appendRequestCookieBytes dst j = dst ++ joined (map pair_text j).
Proof.
  induction j as [|[k v] r IH]; intros dst; cbn [appendRequestCookieBytes map joined]; [now rewrite app_nil_r|].
  assert (E : forall d, match k with [] => d | _ :: _ => d ++ k ++ [61] end ++ v = d ++ pair_text (k, v)).
  { intros d. rewrite pair_text_model. cbn [fst snd]. destruct k; [reflexivity|]. now rewrite <- !app_assoc. }
  destruct r as [|kv2 r2].
  - cbn [map sj concat]. rewrite app_nil_r. apply E.
  - rewrite IH. rewrite E. cbn [map]. rewrite sj_cons. now rewrite <- !app_assoc.
Qed.

Definition keep (p : bytes * bytes) : bool :=
  (match fst p, snd p with [], [] => false | _, _ => true end) && validCookieValue (snd p).
Definition keepf (s : bytes) : list (bytes * bytes) := if keep (kv_of s) then [kv_of s] else [].

Lemma prc_loop_joined segs : forall fuel acc, Forall nosemi segs -> (length (joined segs) <= fuel)%nat ->
  prc_loop fuel (joined segs) acc = Some (acc ++ flat_map keepf segs).
Proof.
  induction segs as [|s r IH]; intros fuel acc Hs Hf.
  - cbn [joined flat_map]. rewrite app_nil_r. destruct fuel; reflexivity.
  - inversion Hs; subst.
    destruct (joined (s :: r)) as [|j0 jr] eqn:Ej.
    + (* everything empty: s = [] and r = [] *)
      assert (s = [] /\ r = []) as [-> ->].
      { cbn [joined] in Ej. destruct s; [|discriminate]. destruct r; [split; reflexivity|discriminate]. }
      cbn. rewrite app_nil_r. destruct fuel; reflexivity.
    + destruct fuel as [|f]; [cbn in Hf; lia|]. rewrite <- Ej in *. cbn [prc_loop]. unfold next.
      rewrite scan_pair_joined; [|assumption|rewrite Ej; discriminate].
      cbn [flat_map]. unfold keepf at 1. unfold keep. destruct (kv_of s) as [k v]. cbn [fst snd].
      rewrite IH; [|assumption|destruct (joined_length s r) as [Hl|Hl]; [lia|subst r; cbn; lia]].
      destruct ((match k, v with [], [] => false | _, _ => true end) && validCookieValue v); [now rewrite <- app_assoc|reflexivity].
Qed.

Lemma seen_pair_kv_of kv : seen_pair kv = kv_of (pair_text kv).
Proof. reflexivity. Qed.

Theorem request_cookies_exact sets :
  parseRequestCookies [] (appendRequestCookieBytes [] (jar_run sets)) =
  Some (flat_map (fun kv => if keep (seen_pair kv) then [seen_pair kv] else []) (jar_of sets)).
Proof.
  rewrite jar_run_spec, appendRequestCookieBytes_joined. cbn [app]. unfold parseRequestCookies.
  rewrite prc_loop_joined; [|  |lia].
  - cbn [app]. f_equal. rewrite flat_map_concat_map, map_map, <- flat_map_concat_map. reflexivity.
  - apply Forall_forall. intros s Hs. apply in_map_iff in Hs as ([k v] & <- & Hkv).
    pose proof (jar_of_ns sets) as J. unfold jar_ns in J. rewrite Forall_forall in J. destruct (J _ Hkv) as [A B]. cbn [fst snd] in A, B.
    rewrite pair_text_model. cbn [fst snd]. apply nosemi_app; [|exact (ns_nosemi _ B)].
    destruct k; [intros ? []|]. apply nosemi_app; [exact (ns_nosemi _ A)|]. intros x [<-|[]]. discriminate.
Qed.

(* consequences: never more cookies than distinct keys set, every cookie seen stems from one that was set *)
Lemma flat_map_opt_length {A B} (f : A -> list B) l : (forall x, length (f x) <= 1)%nat -> (length (flat_map f l) <= length l)%nat.
Proof. intros H. induction l as [|a l IH]; [cbn; lia|]. cbn [flat_map]. rewrite app_length. specialize (H a). cbn [length]. lia. Qed.

Theorem request_no_extra_cookie sets seen :
  parseRequestCookies [] (appendRequestCookieBytes [] (jar_run sets)) = Some seen ->
  (length seen <= length (jar_of sets))%nat /\ (length (jar_of sets) <= length sets)%nat /\ NoDup (map fst (jar_of sets)) /\
  (forall p, In p seen -> exists kv, In kv (jar_of sets) /\ p = seen_pair kv).
Proof.
  rewrite request_cookies_exact. intros E. inversion E; subst; clear E.
  destruct (jar_of_keys sets) as [N L]. split; [|split; [exact L|split; [exact N|]]].
  - apply flat_map_opt_length. intros x. destruct (keep (seen_pair x)); cbn; lia.
  - intros p Hp. apply in_flat_map in Hp as (kv & Hkv & Hp). exists kv. split; [exact Hkv|]. destruct (keep (seen_pair kv)); [|destruct Hp]. destruct Hp as [<-|[]]. reflexivity.
Qed.

Theorem request_roundtrip_octets sets :
  Forall (fun kv => cookie_name (fst kv) = true /\ octets (snd kv) = true) sets ->
  parseRequestCookies [] (appendRequestCookieBytes [] (jar_run sets)) = Some (jar_of sets) /\
  jar_of sets = fold_left (fun j kv => assoc_set j (fst kv) (snd kv)) sets [].
Proof.
  intros H. split.
  - rewrite request_cookies_exact. f_equal.
    assert (J : Forall (fun kv => cookie_name (fst kv) = true /\ octets (snd kv) = true) (jar_of sets)).
    { unfold jar_of. assert (G : forall sets j, Forall (fun kv => cookie_name (fst kv) = true /\ octets (snd kv) = true) sets ->
          Forall (fun kv => cookie_name (fst kv) = true /\ octets (snd kv) = true) j ->
          Forall (fun kv => cookie_name (fst kv) = true /\ octets (snd kv) = true) (fold_left (fun j kv => assoc_set j (clean (fst kv)) (clean (snd kv))) sets j)).
      { clear. induction sets as [|[k v] r IH]; intros j Hs Hj; [exact Hj|]. inversion Hs as [|? ? [A B] Hr]; subst. cbn [fst snd] in A, B.
        cbn [fold_left fst snd]. apply IH; [exact Hr|].
        rewrite (clean_id k) by (now destruct (name_facts _ A)). rewrite (clean_id v) by (now destruct (octet_facts _ B)).
        clear - Hj A B. induction Hj as [|[k' v'] j [A' B'] Hj IH]; cbn [assoc_set]; [constructor; [split; assumption|constructor]|].
        destruct (beq k k'); constructor; try assumption; split; assumption. }
      apply G; [exact H|constructor]. }
    induction J as [|[k v] j [A B] Hj IH]; [reflexivity|]. cbn [flat_map fst snd] in *. rewrite IH.
    destruct (name_facts _ A) as (K1 & K2 & K3 & K4). destruct (octet_facts _ B) as (V1 & V2 & V3 & V4).
    assert (E : seen_pair (k, v) = (k, v)).
    { rewrite seen_pair_kv_of. unfold pair_text. cbn [fst snd]. destruct k as [|k0 kr] eqn:Ek; [congruence|]. rewrite <- Ek in *.
      rewrite kv_of_attr by assumption. now rewrite trimCookieArg_tight. }
    rewrite E. unfold keep. cbn [fst snd]. rewrite V3. destruct k; [congruence|]. reflexivity.
  - unfold jar_of. generalize (@nil (bytes * bytes)). induction H as [|[k v] r [A B] Hr IH]; intros j; [reflexivity|].
    cbn [fold_left fst snd] in *. rewrite (clean_id k) by (now destruct (name_facts _ A)). rewrite (clean_id v) by (now destruct (octet_facts _ B)). apply IH.
Qed.

(* ================================================================== jars: operations beyond SetCookie *)
(* ---- the request jar for ANY separator-free content ---- *)
Theorem request_jar_exact j : jar_ns j ->
  parseRequestCookies [] (appendRequestCookieBytes [] j) =
  Some (flat_map (fun kv => if keep (seen_pair kv) then [seen_pair kv] else []) j).
Proof.
  intros J. rewrite appendRequestCookieBytes_joined. cbn [app]. unfold parseRequestCookies.
  rewrite prc_loop_joined; [|  |lia].
  - cbn [app]. f_equal. rewrite flat_map_concat_map, map_map, <- flat_map_concat_map. reflexivity.
  - apply Forall_forall. intros s Hs. apply in_map_iff in Hs as ([k v] & <- & Hkv).
    unfold jar_ns in J. rewrite Forall_forall in J. destruct (J _ Hkv) as [A B]. cbn [fst snd] in A, B.
    rewrite pair_text_model. cbn [fst snd]. apply nosemi_app; [|exact (ns_nosemi _ B)].
    destruct k; [intros ? []|]. apply nosemi_app; [exact (ns_nosemi _ A)|]. intros x [<-|[]]. discriminate.
Qed.

(* scanner output of a CR/LF-free text is separator-free *)
Definition ncl (s : bytes) : Prop := forall c, In c s -> c <> 13 /\ c <> 10.
Lemma split_at_parts d b : (forall c, In c (fst (split_at d b)) -> In c b /\ c <> d) /\
  (forall t, snd (split_at d b) = Some t -> (forall c, In c t -> In c b) /\ (length t < length b)%nat).
Proof.
  induction b as [|a b [I1 I2]]; cbn [split_at]; [split; [intros ? []|discriminate]|].
  destruct (N.eqb_spec a d) as [->|Hn]; cbn [fst snd].
  - split; [intros ? []|]. intros t E. inversion E; subst. split; [intros c Hc; now right|cbn; lia].
  - destruct (split_at d b) as [x y]. cbn [fst snd] in *. split.
    + intros c [->|Hc]; [split; [now left|exact Hn]|]. destruct (I1 c Hc). split; [now right|assumption].
    + intros t E. destruct (I2 t E) as [A B]. split; [intros c Hc; right; now apply A|cbn; lia].
Qed.
Lemma scan_pair_ns b k v rest : ncl b -> scan_pair b = Some (k, v, rest) -> ns k /\ ns v /\ ncl rest /\ (length rest < length b)%nat.
Proof.
  intros Hb. unfold scan_pair. destruct b as [|c0 b0]; [discriminate|]. set (b := c0 :: b0) in *.
  destruct (split_at_parts 59 b) as [P1 P2]. destruct (split_at 59 b) as [seg after]. cbn [fst snd] in *.
  assert (Hseg : forall c, In c seg -> is_sep c = false).
  { intros c Hc. destruct (P1 c Hc) as [A B]. destruct (Hb c A). unfold is_sep. lia. }
  assert (Hrest : forall r, r = match after with Some (c :: r) => if c =? 32 then r else c :: r | Some [] => [] | None => [] end ->
            ncl r /\ (length r < length b)%nat).
  { intros r ->. destruct after as [t|]; [|split; [intros ? []|cbn; lia]]. destruct (P2 t eq_refl) as [A B].
    destruct t as [|d t']; [split; [intros ? []|cbn; lia]|]. destruct (d =? 32).
    - split; [intros c Hc; apply Hb, A; now right|cbn in *; lia].
    - split; [intros c Hc; now apply Hb, A|exact B]. }
  destruct (Hrest _ eq_refl) as [R1 R2].
  destruct (split_at_parts 61 seg) as [Q1 Q2]. destruct (split_at 61 seg) as [x y]. cbn [fst snd] in *.
  assert (Kx : forall q, ns (trimCookieArg x q)).
  { intros q. apply ns_In. intros c Hc. apply Hseg. apply (Q1 c). exact (sub_trim x q c Hc). }
  destruct y as [w|]; intros E; inversion E; subst; clear E.
  - split; [exact (Kx false)|]. split; [|split; assumption].
    apply ns_In. intros c Hc. apply Hseg. destruct (Q2 w eq_refl) as [A _]. apply A. exact (sub_trim w true c Hc).
  - split; [reflexivity|]. split; [exact (Kx true)|split; assumption].
Qed.
Lemma prc_loop_ns fuel : forall b acc r, (length b <= fuel)%nat -> ncl b -> jar_ns acc -> prc_loop fuel b acc = r ->
  exists c, r = Some c /\ jar_ns c.
Proof.
  induction fuel as [|f IH]; intros b acc r Hl Hb Ha E; cbn [prc_loop] in E.
  - destruct b; [|cbn in Hl; lia]. subst. eauto.
  - unfold next in E. destruct (scan_pair b) as [[[k v] rest]|] eqn:Es; [|subst; eauto].
    destruct (scan_pair_ns _ _ _ _ Hb Es) as (Sk & Sv & Sr & Hlt).
    eapply IH; [ | exact Sr | | exact E]; [lia|].
    destruct ((match k, v with [], [] => false | _, _ => true end) && validCookieValue v); [|assumption].
    apply Forall_app. split; [assumption|]. constructor; [split; assumption|constructor].
Qed.
Lemma removeNewLines_ncl s : ncl (ByteClassModel.removeNewLines s).
Proof.
  intros c Hc. unfold ByteClassModel.removeNewLines in Hc. apply in_map_iff in Hc as (x & <- & _).
  destruct (N.eqb_spec x 13); [cbn; split; discriminate|]. destruct (N.eqb_spec x 10); [cbn; split; discriminate|]. cbn. split; assumption.
Qed.

Lemma delAllKV_ns j k : jar_ns j -> jar_ns (delAllKV j k).
Proof. induction 1 as [|[k' v'] r H Hr IH]; cbn [delAllKV]; [constructor|]. destruct (beq k k'); [assumption|now constructor]. Qed.
Lemma delAllKV_keys j k : NoDup (map fst j) -> NoDup (map fst (delAllKV j k)) /\ (forall x, In x (map fst (delAllKV j k)) -> In x (map fst j)) /\
  (length (delAllKV j k) <= length j)%nat.
Proof.
  induction j as [|[k' v'] r IH]; intros Hn; cbn [delAllKV]; [split; [constructor|split; [auto|lia]]|].
  inversion Hn; subst. destruct (IH H2) as (I1 & I2 & I3). destruct (beq k k').
  - split; [exact I1|]. split; [intros x Hx; right; now apply I2|cbn; lia].
  - cbn [map fst length]. split; [constructor; [intros Hin; apply H1; now apply I2|exact I1]|]. split; [|lia].
    intros x [<-|Hx]; [now left|right; now apply I2].
Qed.

Lemma jstep_ns j o : jar_ns j -> jar_ns (jstep j o).
Proof.
  intros H. destruct o; cbn [jstep].
  - unfold jarSetCookie, initHeaderValueBytes. rewrite !clean_model, setArg_assoc. apply assoc_set_ns; [exact H| |]; apply clean_ns.
  - now apply delAllKV_ns.
  - constructor.
  - unfold parseRequestCookies. destruct (prc_loop _ _ j) as [c|] eqn:E; [|exact H].
    destruct (prc_loop_ns _ _ _ _ (Nat.le_refl _) (removeNewLines_ncl _) H E) as (c' & E' & Hc'). now inversion E'; subst.
Qed.
Theorem jrun_ns ops : jar_ns (jrun ops).
Proof.
  unfold jrun. assert (G : forall ops j, jar_ns j -> jar_ns (fold_left jstep ops j)).
  { clear. induction ops as [|o ops IH]; intros j H; [exact H|]. cbn [fold_left]. now apply IH, jstep_ns. }
  apply G. constructor.
Qed.

Definition no_raw (o : jop) : Prop := match o with JRaw _ => False | _ => True end.
Definition is_jset (o : jop) : bool := match o with JSet _ _ => true | _ => false end.
Theorem jrun_keys ops : Forall no_raw ops ->
  NoDup (map fst (jrun ops)) /\ (length (jrun ops) <= length (filter is_jset ops))%nat.
Proof.
  unfold jrun. assert (G : forall ops j, Forall no_raw ops -> NoDup (map fst j) ->
     NoDup (map fst (fold_left jstep ops j)) /\ (length (fold_left jstep ops j) <= length j + length (filter is_jset ops))%nat).
  { clear. induction ops as [|o ops IH]; intros j Ho Hj; cbn [fold_left filter]; [split; [exact Hj|lia]|].
    inversion Ho; subst. destruct o; cbn [jstep is_jset] in *; try contradiction.
    - unfold jarSetCookie. rewrite setArg_assoc. destruct (assoc_set_keys j (removeSemicolons (initHeaderValueBytes k)) (removeSemicolons (initHeaderValueBytes v)) Hj) as (A & _ & C).
      destruct (IH _ H2 A) as [I1 I2]. split; [exact I1|]. cbn [length]. lia.
    - destruct (delAllKV_keys j k Hj) as (A & _ & C). destruct (IH _ H2 A) as [I1 I2]. split; [exact I1|lia].
    - destruct (IH [] H2 (NoDup_nil _)) as [I1 I2]. split; [exact I1|cbn in I2; lia]. }
  intros Ho. destruct (G ops [] Ho (NoDup_nil _)) as [A B]. split; [exact A|cbn in B; lia].
Qed.

(* ---- the response jar ---- *)
Lemma ncl_app a b : ncl a -> ncl b -> ncl (a ++ b).
Proof. intros Ha Hb c Hc. apply in_app_or in Hc as [Hc|Hc]; auto. Qed.
Lemma ns_ncl s : ns s -> ncl s.
Proof. rewrite ns_In. intros H c Hc. specialize (H c Hc). unfold is_sep in H. lia. Qed.
Lemma dchar_ncl s : forallb dchar s = true -> ncl s.
Proof. intros H c Hc. rewrite forallb_forall in H. specialize (H c Hc). unfold dchar in H. lia. Qed.
Lemma ncl_removeNewLines s : ncl s -> ByteClassModel.removeNewLines s = s.
Proof.
  intros H. unfold ByteClassModel.removeNewLines. rewrite <- (map_id s) at 2. apply map_ext_in. intros c Hc. destruct (H c Hc).
  destruct (N.eqb_spec c 13); [contradiction|]. destruct (N.eqb_spec c 10); [contradiction|]. reflexivity.
Qed.
Ltac const_ncl := intros ? Hin; cbn in Hin; repeat (destruct Hin as [<-|Hin]; [split; discriminate|]); destruct Hin.
Lemma sj_ncl segs : Forall ncl segs -> ncl (sj segs).
Proof.
  induction 1 as [|s r Hs Hr IH]; [intros ? []|]. unfold sj in *. cbn [map concat]. apply ncl_app; [|exact IH]. apply ncl_app; [const_ncl|exact Hs].
Qed.
Lemma Cookie_ncl c : cookie_ns c -> ncl (Cookie_ c).
Proof.
  intros (H1 & H2 & H3 & H4). rewrite Cookie_shape. apply ncl_app.
  - unfold first_seg. apply ncl_app; [|now apply ns_ncl]. destruct (ck_key c) eqn:E; [intros ? []|]. apply ncl_app; [now apply ns_ncl|const_ncl].
  - apply sj_ncl. unfold attr_segs. repeat (apply Forall_app; split).
    + unfold age_segs. destruct (negb _).
      * constructor; [|constructor]. apply ncl_app; [const_ncl|]. apply ncl_app; [const_ncl|].
        assert (D : forall n, ncl (dec_digits n)).
        { intros n. destruct (Z.le_gt_cases 0 n) as [Hn|Hn]; [apply dchar_ncl; now destruct (digits_facts n Hn)|].
          unfold dec_digits. rewrite Z.log2_nonpos by lia. cbn [Z.to_nat dec_fuel]. assert (E : (n <? 10)%Z = true) by lia. rewrite E.
          intros ch [<-|[]]. pose proof (Z.mod_pos_bound n 10 ltac:(lia)). lia. }
        destruct (ck_maxAge c <? 0)%Z; apply D.
      * destruct (negb _); [|constructor]. constructor; [|constructor]. apply ncl_app; [const_ncl|]. apply ncl_app; [const_ncl|].
        apply dchar_ncl. now destruct (date_text (ck_expire c)).
    + unfold part_seg. destruct (ck_domain c) eqn:E; [constructor|]. constructor; [|constructor]. apply ncl_app; [const_ncl|]. apply ncl_app; [const_ncl|now apply ns_ncl].
    + unfold part_seg. destruct (ck_path c) eqn:E; [constructor|]. constructor; [|constructor]. apply ncl_app; [const_ncl|]. apply ncl_app; [const_ncl|now apply ns_ncl].
    + destruct (ck_httpOnly c); [|constructor]. constructor; [const_ncl|constructor].
    + destruct (ck_secure c); [|constructor]. constructor; [const_ncl|constructor].
    + destruct (ck_sameSite c); cbn [ss_segs]; [constructor| | | |]; (constructor; [|constructor]); try const_ncl; (apply ncl_app; [const_ncl|apply ncl_app; const_ncl]).
    + destruct (ck_partitioned c); [|constructor]. constructor; [const_ncl|constructor].
Qed.

(* an entry of the response jar is (key, serialised cookie) of a cookie that was given to SetCookie (or is the
   deletion cookie of DelClientCookie), stored verbatim; keys are distinct *)
Definition rjop_ok (o : rjop) : Prop := match o with RJSet c => cookie_ns c | _ => True end.
Definition entry_of (c : cookie) : bytes * bytes := (ck_key c, Cookie_ c).
Definition rj_cookies (ops : list rjop) : list cookie :=
  flat_map (fun o => match o with RJSet c => [c] | RJDelClient k => [delClientCookie k] | _ => [] end) ops.

Lemma delClientCookie_ns k : cookie_ns (delClientCookie k).
Proof. unfold delClientCookie, SetKey, initHeaderValueBytes. rewrite clean_model. repeat split; cbn; try reflexivity. apply clean_ns. Qed.
Lemma respSetCookie_entry j c : cookie_ns c -> respSetCookie j c = setArg j (ck_key c) (Cookie_ c).
Proof.
  intros H. unfold respSetCookie, initHeaderValueBytes. rewrite (ncl_removeNewLines (Cookie_ c)) by now apply Cookie_ncl.
  rewrite ncl_removeNewLines; [reflexivity|]. apply ns_ncl, H.
Qed.
Lemma setArg_entries j k v (P : bytes * bytes -> Prop) : Forall P j -> (forall k', P (k', v)) -> Forall P (setArg j k v).
Proof.
  intros Hj Hp. induction Hj as [|[k' v'] r H Hr IH]; cbn [setArg]; [constructor; [apply Hp|constructor]|].
  destruct (beq k k'); constructor; try assumption. apply Hp.
Qed.

Theorem rjrun_entries ops : Forall rjop_ok ops ->
  Forall (fun kv => exists c, In c (rj_cookies ops) /\ cookie_ns c /\ snd kv = Cookie_ c) (rjrun ops) /\
  NoDup (map fst (rjrun ops)) /\ (length (rjrun ops) <= length (rj_cookies ops))%nat.
Proof.
  unfold rjrun.
  assert (G : forall ops pre j, Forall rjop_ok ops ->
     Forall (fun kv => exists c, In c pre /\ cookie_ns c /\ snd kv = Cookie_ c) j -> NoDup (map fst j) -> (length j <= length pre)%nat ->
     Forall (fun kv => exists c, In c (pre ++ rj_cookies ops) /\ cookie_ns c /\ snd kv = Cookie_ c) (fold_left rjstep ops j) /\
     NoDup (map fst (fold_left rjstep ops j)) /\ (length (fold_left rjstep ops j) <= length (pre ++ rj_cookies ops))%nat).
  { clear. induction ops as [|o ops IH]; intros pre j Ho Hj Hn Hl; cbn [fold_left rj_cookies flat_map].
    - rewrite app_nil_r. auto.
    - inversion Ho; subst.
      assert (W : forall extra (j' : kvs), Forall (fun kv => exists c, In c pre /\ cookie_ns c /\ snd kv = Cookie_ c) j' ->
                  Forall (fun kv => exists c, In c (pre ++ extra) /\ cookie_ns c /\ snd kv = Cookie_ c) j').
      { intros extra j'. apply Forall_impl. intros kv (c & A & B & C). exists c. split; [apply in_or_app; now left|auto]. }
      assert (D : forall k, Forall (fun kv => exists c, In c pre /\ cookie_ns c /\ snd kv = Cookie_ c) (delAllKV j k)).
      { intros k. clear - Hj. induction Hj as [|[k' v'] r H Hr IH]; cbn [delAllKV]; [constructor|]. destruct (beq k k'); [assumption|now constructor]. }
      assert (S : forall (j' : kvs) c, cookie_ns c -> Forall (fun kv => exists c0, In c0 pre /\ cookie_ns c0 /\ snd kv = Cookie_ c0) j' -> NoDup (map fst j') -> (length j' <= length pre)%nat ->
                  let j2 := respSetCookie j' c in
                  Forall (fun kv => exists c0, In c0 (pre ++ [c]) /\ cookie_ns c0 /\ snd kv = Cookie_ c0) j2 /\ NoDup (map fst j2) /\ (length j2 <= length (pre ++ [c]))%nat).
      { intros j' c Hc Hj' Hn' Hl' j2. subst j2. rewrite respSetCookie_entry by exact Hc. rewrite setArg_assoc.
        destruct (assoc_set_keys j' (ck_key c) (Cookie_ c) Hn') as (A & _ & C). split; [|split; [exact A|rewrite app_length; cbn; lia]].
        rewrite <- setArg_assoc. apply setArg_entries; [now apply W|]. intros k'. exists c. split; [apply in_or_app; right; now left|auto]. }
      destruct o; cbn [rjstep rjop_ok] in *.
      + destruct (S j c H1 Hj Hn Hl) as (A & B & C). specialize (IH (pre ++ [c]) _ H2 A B C).
        now rewrite <- app_assoc in IH.
      + destruct (delAllKV_keys j k Hn) as (A & _ & C). cbn [app]. apply IH; try assumption; [apply D|lia].
      + destruct (delAllKV_keys j k Hn) as (A & _ & C).
        destruct (S (delAllKV j k) (delClientCookie k) (delClientCookie_ns k) (D k) A ltac:(lia)) as (A' & B' & C').
        specialize (IH (pre ++ [delClientCookie k]) _ H2 A' B' C'). now rewrite <- app_assoc in IH.
      + cbn [app]. apply IH; try assumption; [constructor|constructor|cbn; lia]. }
  intros Ho. destruct (G ops [] [] Ho (Forall_nil _) (NoDup_nil _) (Nat.le_refl _)) as (A & B & C). auto.
Qed.
