(* Proofs for C11, part B: the per-connection locals of serveConnCounted (Model/CtxReset.v, lstep). *)
From Coq Require Import String Lia ZifyBool.
From FH Require Import Model.Base Gen.GenC11 Model.CtxReset Spec.CtxResetSpec.
Open Scope string_scope.
Open Scope Z_scope.

Ltac fin := cbn; repeat split; try reflexivity; try (intros; discriminate).

(* ------------------------------------------------------------------------------------ *)
(* Part B: the per-connection locals                                                    *)
(* ------------------------------------------------------------------------------------ *)

Definition wf_scfg (c : scfg) : Prop := 0 <= sc_readTimeout c /\ 0 <= sc_idleTimeout c /\ 0 <= sc_writeTimeout c.
Definition wf_lreq (q : lreq) : Prop := 0 <= q_rt q /\ 0 <= q_wt q.
Definition initmax (c : scfg) : Z := if sc_maxBody c <=? 0 then defaultMaxBody else sc_maxBody c.

(* invariant of the locals at the top of the loop of a connection that is still served *)
Record linv (c : scfg) (st : lstate) : Prop := mkLinv {
  li_close : l_close st = false;
  li_wdl : l_wdl st = l_prevwt st;
  li_wt : 0 <= l_wt st;
  li_prev : 0 <= l_prevwt st;
  li_nohr : sc_hasHeaderReceived c = false -> l_max st = initmax c /\ l_wt st = sc_writeTimeout c }.

Lemma linit_inv c : wf_scfg c -> linv c (linit c).
Proof. intros (H1 & H2 & H3). constructor; cbn; auto; try lia. Qed.

(* what the deadline-arming steps leave untouched *)
Definition same_but_rdl (a b : lstate) : Prop :=
  l_num a = l_num b /\ l_max a = l_max b /\ l_wt a = l_wt b /\ l_prevwt a = l_prevwt b /\
  l_close a = l_close b /\ l_continue a = l_continue b /\ l_wdl a = l_wdl b.

Lemma set_read_same d x : same_but_rdl (fst (set_read d x)) (fst x).
Proof. destruct x as [st cs]. cbn. repeat split. Qed.

Lemma same_but_rdl_refl a : same_but_rdl a a.
Proof. repeat split. Qed.
Lemma same_but_rdl_trans a b c : same_but_rdl a b -> same_but_rdl b c -> same_but_rdl a c.
Proof. unfold same_but_rdl. intuition congruence. Qed.

Lemma clear_reqrdl_same x : same_but_rdl (fst (clear_reqrdl x)) (fst x).
Proof. destruct x as [st cs]. cbn. repeat split. Qed.

Lemma arm_first_byte_same c x : same_but_rdl (fst (arm_first_byte c x)) (fst x).
Proof.
  unfold arm_first_byte.
  set (y := if l_num (fst x) =? 1 then if sc_readTimeout c >? 0 then set_read (sc_readTimeout c) x else x
            else if idleTimeout c >? 0 then set_read (idleTimeout c) x
                 else if l_reqrdl (fst x) then set_read 0 x else x).
  assert (Hy : same_but_rdl (fst y) (fst x)).
  { subst y. destruct (l_num (fst x) =? 1); [destruct (sc_readTimeout c >? 0)|destruct (idleTimeout c >? 0); [|destruct (l_reqrdl (fst x))]];
      try apply set_read_same; apply same_but_rdl_refl. }
  assert (Hz : same_but_rdl (fst (clear_reqrdl y)) (fst x)).
  { eapply same_but_rdl_trans; [apply clear_reqrdl_same|exact Hy]. }
  destruct (sc_readTimeout c >? 0).
  - eapply same_but_rdl_trans; [apply set_read_same|exact Hz].
  - destruct ((sc_idleTimeout c >? 0) && (l_num (fst x) >? 1)); [|exact Hz].
    eapply same_but_rdl_trans; [apply set_read_same|exact Hz].
Qed.

Definition hr_max (c : scfg) (q : lreq) : Z :=
  if q_max q >? 0 then q_max q else if sc_maxBody c >? 0 then sc_maxBody c else defaultMaxBody.
Definition hr_wt (c : scfg) (q : lreq) : Z := if q_wt q >? 0 then q_wt q else sc_writeTimeout c.

Lemma header_received_fields c q x :
  let s := fst (header_received c q x) in
  l_num s = l_num (fst x) /\ l_prevwt s = l_prevwt (fst x) /\ l_close s = l_close (fst x) /\
  l_continue s = l_continue (fst x) /\ l_wdl s = l_wdl (fst x) /\
  l_max s = (if sc_hasHeaderReceived c then hr_max c q else l_max (fst x)) /\
  l_wt s = (if sc_hasHeaderReceived c then hr_wt c q else l_wt (fst x)).
Proof.
  unfold header_received. destruct (sc_hasHeaderReceived c); [|cbn; repeat split].
  destruct (q_rt q >? 0).
  - destruct x as [st cs]. cbn. repeat split.
  - destruct x as [st cs]. cbn. repeat split.
Qed.

Lemma spec_max_nohr c q : sc_hasHeaderReceived c = false -> spec_max c q = initmax c.
Proof. intros H. unfold spec_max, initmax. rewrite H. cbn. destruct (sc_maxBody c >? 0) eqn:E, (sc_maxBody c <=? 0) eqn:F; lia. Qed.

Lemma spec_max_hr c q : sc_hasHeaderReceived c = true -> spec_max c q = hr_max c q.
Proof. intros H. unfold spec_max, hr_max. rewrite H. cbn. destruct (q_max q >? 0); reflexivity. Qed.

Lemma spec_wt_eq c q : spec_wt c q = if sc_hasHeaderReceived c then hr_wt c q else sc_writeTimeout c.
Proof. unfold spec_wt, hr_wt. destruct (sc_hasHeaderReceived c); cbn; [destruct (q_wt q >? 0)|]; reflexivity. Qed.

Lemma arm_write_fields y :
  l_wdl (fst y) = l_prevwt (fst y) -> 0 <= l_wt (fst y) -> 0 <= l_prevwt (fst y) ->
  let s := fst (arm_write y) in
  l_wdl s = l_wt (fst y) /\ l_prevwt s = l_wt (fst y) /\ l_num s = l_num (fst y) /\ l_max s = l_max (fst y) /\
  l_wt s = l_wt (fst y) /\ l_close s = l_close (fst y) /\ l_continue s = l_continue (fst y).
Proof.
  intros H1 H2 H3. unfold arm_write. destruct y as [st cs]. cbn [fst] in *.
  destruct (l_wt st >? 0) eqn:E1; [cbn; repeat split|].
  destruct (l_prevwt st >? 0) eqn:E2; cbn; repeat split; lia.
Qed.

(* the decision for a request on a connection that is still served *)
Theorem lstep_spec c st q : wf_scfg c -> wf_lreq q -> linv c st ->
  let d := fst (lstep c st q) in
  d_dispatched d = spec_dispatched c q /\ d_status d = spec_status c q /\
  (d_dispatched d = true -> d_max d = spec_max c q /\ d_wt d = spec_wt c q).
Proof.
  intros (Wr & Wi & Ww) (Qr & Qw) I. unfold lstep.
  set (st1 := mkLstate (l_num st + 1) (l_max st) (l_wt st) (l_prevwt st) (l_close st) true (l_rdl st) (l_wdl st) (l_reqrdl st)).
  pose proof (arm_first_byte_same c (st1, [])) as A. cbn [fst] in A.
  set (x := arm_first_byte c (st1, [])) in *.
  unfold spec_dispatched, spec_status, spec_too_large.
  destruct (q_head_ok q); cbn [negb andb]; [|fin].
  pose proof (header_received_fields c q x) as H. cbn zeta in H.
  destruct (header_received c q x) as [s2 cs2]. cbn [fst] in H.
  destruct H as (Hn & Hp & Hc & Hk & Hw & Hm & Ht).
  destruct A as (An & Am & At & Ap & Ac & Ak & Aw). cbn in An, Am, At, Ap, Ac, Ak, Aw.
  assert (Mx : l_max s2 = spec_max c q).
  { rewrite Hm. destruct (sc_hasHeaderReceived c) eqn:E.
    - symmetry. apply spec_max_hr. exact E.
    - rewrite Am. rewrite (proj1 (li_nohr _ _ I E)). symmetry. apply spec_max_nohr. exact E. }
  assert (Wt : l_wt s2 = spec_wt c q).
  { rewrite Ht, spec_wt_eq. destruct (sc_hasHeaderReceived c) eqn:E; [reflexivity|].
    rewrite At. exact (proj2 (li_nohr _ _ I E)). }
  assert (Wt0 : 0 <= l_wt s2).
  { rewrite Wt, spec_wt_eq. unfold hr_wt. destruct (sc_hasHeaderReceived c); [destruct (q_wt q >? 0)|]; lia. }
  rewrite Mx.
  change (lverdict c q) with (spec_rejected c q).
  destruct (negb (sc_stream c) && (q_body q >? spec_max c q)) eqn:TL.
  - (* too large *)
    destruct (q_expect q) eqn:Ex; cbn [negb andb].
    + destruct (spec_rejected c q) as [s|] eqn:V.
      * (* rejected *)
        match goal with |- context [arm_write ?y] => destruct (arm_write y) as [s5 cs5] end.
        fin.
      * fin.
    + unfold spec_rejected. rewrite Ex. fin.
  - destruct (q_expect q) eqn:Ex; cbn [negb andb].
    + destruct (spec_rejected c q) as [s|] eqn:V.
      * match goal with |- context [arm_write ?y] => destruct (arm_write y) as [s5 cs5] end.
        fin.
      * pose proof (arm_write_fields (with_close s2 (l_close s2 || sc_noKeepalive c || q_close q) (l_continue s2), cs2)) as W.
        cbn [fst with_close l_wdl l_prevwt l_wt] in W.
        specialize (W ltac:(rewrite Hw, Hp, Aw, Ap; exact (li_wdl _ _ I)) Wt0 ltac:(rewrite Hp, Ap; exact (li_prev _ _ I))).
        destruct (arm_write (with_close s2 (l_close s2 || sc_noKeepalive c || q_close q) (l_continue s2), cs2)) as [s5 cs5].
        cbn [fst] in W. destruct W as (W1 & W2 & W3 & W4 & W5 & W6 & W7).
        cbn. rewrite Hk, Ak. repeat split; try reflexivity.
        -- rewrite W4. cbn. exact Mx.
        -- rewrite W1. exact Wt.
    + unfold spec_rejected in *. rewrite Ex.
      pose proof (arm_write_fields (with_close s2 (l_close s2 || sc_noKeepalive c || q_close q) (l_continue s2), cs2)) as W.
      cbn [fst with_close l_wdl l_prevwt l_wt] in W.
      specialize (W ltac:(rewrite Hw, Hp, Aw, Ap; exact (li_wdl _ _ I)) Wt0 ltac:(rewrite Hp, Ap; exact (li_prev _ _ I))).
      destruct (arm_write (with_close s2 (l_close s2 || sc_noKeepalive c || q_close q) (l_continue s2), cs2)) as [s5 cs5].
      cbn [fst] in W. destruct W as (W1 & W2 & W3 & W4 & W5 & W6 & W7).
      cbn. rewrite Hk, Ak. repeat split; try reflexivity.
      -- rewrite W4. cbn. exact Mx.
      -- rewrite W1. exact Wt.
Qed.

(* the invariant is preserved as long as the connection is kept *)
Lemma lstep_inv c st q : wf_scfg c -> wf_lreq q -> linv c st ->
  d_closed (fst (lstep c st q)) = false -> linv c (snd (lstep c st q)).
Proof.
  intros (Wr & Wi & Ww) (Qr & Qw) I. unfold lstep.
  set (st1 := mkLstate (l_num st + 1) (l_max st) (l_wt st) (l_prevwt st) (l_close st) true (l_rdl st) (l_wdl st) (l_reqrdl st)).
  pose proof (arm_first_byte_same c (st1, [])) as A. cbn [fst] in A.
  set (x := arm_first_byte c (st1, [])) in *.
  destruct (q_head_ok q); cbn [negb]; [|cbn; discriminate].
  pose proof (header_received_fields c q x) as H. cbn zeta in H.
  destruct (header_received c q x) as [s2 cs2]. cbn [fst] in H.
  destruct H as (Hn & Hp & Hc & Hk & Hw & Hm & Ht).
  destruct A as (An & Am & At & Ap & Ac & Ak & Aw). cbn in An, Am, At, Ap, Ac, Ak, Aw.
  assert (Wt0 : 0 <= l_wt s2).
  { rewrite Ht. unfold hr_wt. destruct (sc_hasHeaderReceived c); [destruct (q_wt q >? 0); lia|]. rewrite At. exact (li_wt _ _ I). }
  destruct (negb (q_expect q) && (negb (sc_stream c) && (q_body q >? l_max s2))); [cbn; discriminate|].
  destruct (lverdict c q) as [v|].
  - (* rejected: connectionClose = true *)
    match goal with |- context [arm_write ?y] =>
      pose proof (arm_write_fields y) as W; destruct (arm_write y) as [s5 cs5] end.
    cbn [fst with_close l_wdl l_prevwt l_wt l_close] in W.
    specialize (W ltac:(rewrite Hw, Hp, Aw, Ap; exact (li_wdl _ _ I)) Wt0 ltac:(rewrite Hp, Ap; exact (li_prev _ _ I))).
    destruct W as (_ & _ & _ & _ & _ & W6 & _). cbn. rewrite W6. cbn. discriminate.
  - destruct (q_expect q && (negb (sc_stream c) && (q_body q >? l_max s2))); [cbn; discriminate|].
    match goal with |- context [arm_write ?y] =>
      pose proof (arm_write_fields y) as W; destruct (arm_write y) as [s5 cs5] end.
    cbn [fst with_close l_wdl l_prevwt l_wt l_close l_max l_continue l_num] in W.
    specialize (W ltac:(rewrite Hw, Hp, Aw, Ap; exact (li_wdl _ _ I)) Wt0 ltac:(rewrite Hp, Ap; exact (li_prev _ _ I))).
    destruct W as (W1 & W2 & W3 & W4 & W5 & W6 & W7).
    cbn. intros Hcl. apply orb_false_iff in Hcl as [Hcl _].
    constructor; cbn.
    + exact Hcl.
    + rewrite W1, W2. reflexivity.
    + rewrite W5. exact Wt0.
    + rewrite W2. exact Wt0.
    + intros E. rewrite W4, W5, Hm, Ht, E, Am, At. exact (li_nohr _ _ I E).
Qed.

(* the state of the locals after a history that kept the connection *)
Fixpoint lafter (c : scfg) (st : lstate) (qs : list lreq) : option lstate :=
  match qs with
  | [] => Some st
  | q :: r => if d_closed (fst (lstep c st q)) then None else lafter c (snd (lstep c st q)) r
  end.

Lemma lafter_inv c : wf_scfg c -> forall qs st st', Forall wf_lreq qs -> linv c st -> lafter c st qs = Some st' -> linv c st'.
Proof.
  intros Wc qs; induction qs as [|q r IH]; intros st st' Wq I H; cbn in H.
  - injection H as <-. exact I.
  - inversion Wq as [|? ? W1 W2]; subst.
    destruct (d_closed (fst (lstep c st q))) eqn:E; [discriminate|].
    exact (IH _ _ W2 (lstep_inv _ _ _ Wc W1 I E) H).
Qed.

(* whether and how a request is dispatched depends on the configuration and on that request alone *)
Theorem dispatch_independent_of_history c qs q st :
  wf_scfg c -> Forall wf_lreq qs -> wf_lreq q -> lafter c (linit c) qs = Some st ->
  let d := fst (lstep c st q) in
  d_dispatched d = spec_dispatched c q /\ d_status d = spec_status c q /\
  (d_dispatched d = true -> d_max d = spec_max c q /\ d_wt d = spec_wt c q).
Proof.
  intros Wc Wqs Wq H. apply lstep_spec; auto.
  exact (lafter_inv c Wc qs _ _ Wqs (linit_inv c Wc) H).
Qed.

(* ---- the read deadline ---- *)

Lemma set_read_rdl d x : l_rdl (fst (set_read d x)) = d.
Proof. destruct x; reflexivity. Qed.

Lemma clear_reqrdl_rdl x : l_rdl (fst (clear_reqrdl x)) = l_rdl (fst x).
Proof. destruct x; reflexivity. Qed.

Lemma arm_first_byte_rdl c st cs : 0 <= sc_readTimeout c -> 0 <= sc_idleTimeout c -> 1 <= l_num st ->
  l_rdl (fst (arm_first_byte c (st, cs))) =
    if sc_readTimeout c >? 0 then sc_readTimeout c
    else if sc_idleTimeout c >? 0 then (if l_num st >? 1 then 0 else l_rdl st)
    else if (l_num st >? 1) && l_reqrdl st then 0 else l_rdl st.
Proof.
  intros Wr Wi N1. unfold arm_first_byte. cbn [fst].
  destruct (sc_readTimeout c >? 0) eqn:R.
  - apply set_read_rdl.
  - assert (IT : idleTimeout c = sc_idleTimeout c).
    { unfold idleTimeout. destruct (sc_idleTimeout c =? 0) eqn:E; lia. }
    rewrite IT. destruct (sc_idleTimeout c >? 0) eqn:Ii; cbn [andb].
    + destruct (l_num st >? 1) eqn:N.
      * apply set_read_rdl.
      * replace (l_num st =? 1) with true by lia. rewrite clear_reqrdl_rdl. reflexivity.
    + rewrite clear_reqrdl_rdl. destruct (l_num st =? 1) eqn:N1'.
      * replace (l_num st >? 1) with false by lia. reflexivity.
      * replace (l_num st >? 1) with true by lia. cbn [andb].
        destruct (l_reqrdl st); [apply set_read_rdl|reflexivity].
Qed.

Lemma arm_first_byte_flag c x : l_reqrdl (fst (arm_first_byte c x)) = false.
Proof.
  unfold arm_first_byte.
  match goal with |- context [clear_reqrdl ?y] => set (z := clear_reqrdl y) end.
  assert (Hz : l_reqrdl (fst z) = false) by (subst z; match goal with |- context [clear_reqrdl ?y] => destruct y end; reflexivity).
  assert (SR : forall d y, l_reqrdl (fst (set_read d y)) = l_reqrdl (fst y)) by (intros d [s0 c0]; reflexivity).
  destruct (sc_readTimeout c >? 0); [rewrite SR; exact Hz|].
  destruct ((sc_idleTimeout c >? 0) && (l_num (fst x) >? 1)); [rewrite SR; exact Hz|exact Hz].
Qed.

Lemma header_received_rdl c q x :
  l_rdl (fst (header_received c q x)) = if sc_hasHeaderReceived c && (q_rt q >? 0) then q_rt q else l_rdl (fst x).
Proof.
  unfold header_received. destruct (sc_hasHeaderReceived c); [|reflexivity]. cbn [andb].
  destruct (q_rt q >? 0); destruct x as [s cs]; reflexivity.
Qed.

Lemma header_received_flag c q x :
  l_reqrdl (fst (header_received c q x)) = l_reqrdl (fst x) || (sc_hasHeaderReceived c && (q_rt q >? 0)).
Proof.
  unfold header_received. destruct (sc_hasHeaderReceived c); [|cbn; rewrite orb_false_r; reflexivity]. cbn [andb].
  destruct (q_rt q >? 0); destruct x as [s cs]; cbn; rewrite ?orb_false_r; reflexivity.
Qed.

Definition st1_of (st : lstate) : lstate :=
  mkLstate (l_num st + 1) (l_max st) (l_wt st) (l_prevwt st) (l_close st) true (l_rdl st) (l_wdl st) (l_reqrdl st).

(* what an iteration leaves behind: the armed read deadline, the flag, the request count *)
Lemma lstep_after c st q :
  let x := arm_first_byte c (st1_of st, []) in
  let s' := snd (lstep c st q) in
  l_num s' = l_num st + 1 /\
  l_rdl s' = (if q_head_ok q && sc_hasHeaderReceived c && (q_rt q >? 0) then q_rt q else l_rdl (fst x)) /\
  l_reqrdl s' = (q_head_ok q && sc_hasHeaderReceived c && (q_rt q >? 0)).
Proof.
  cbn zeta. unfold lstep. fold (st1_of st).
  pose proof (arm_first_byte_same c (st1_of st, [])) as A. cbn [fst] in A. destruct A as (An & _). cbn in An.
  pose proof (arm_first_byte_flag c (st1_of st, [])) as Fl.
  set (x := arm_first_byte c (st1_of st, [])) in *.
  destruct (q_head_ok q); cbn [negb andb]; [|cbn; auto].
  pose proof (header_received_rdl c q x) as R.
  pose proof (header_received_flag c q x) as Fh. rewrite Fl in Fh. cbn [orb] in Fh.
  pose proof (header_received_fields c q x) as H. cbn zeta in H.
  destruct (header_received c q x) as [s2 cs2]. cbn [fst] in R, Fh, H. destruct H as (Hn & _).
  assert (AW : forall y, l_rdl (fst (arm_write y)) = l_rdl (fst y) /\ l_reqrdl (fst (arm_write y)) = l_reqrdl (fst y)
                         /\ l_num (fst (arm_write y)) = l_num (fst y)).
  { intros [s cs]. unfold arm_write. cbn [fst]. destruct (l_wt s >? 0); [cbn; auto|]. destruct (l_prevwt s >? 0); cbn; auto. }
  destruct (negb (q_expect q) && (negb (sc_stream c) && (q_body q >? l_max s2))); [cbn; repeat split; [lia|exact R|exact Fh]|].
  destruct (lverdict c q) as [v|].
  - match goal with |- context [arm_write ?y] => pose proof (AW y) as (W1 & W2 & W3); destruct (arm_write y) as [s5 cs5] end.
    cbn in *. rewrite W1, W2, W3. repeat split; [lia|exact R|exact Fh].
  - destruct (q_expect q && (negb (sc_stream c) && (q_body q >? l_max s2))); [cbn; repeat split; [lia|exact R|exact Fh]|].
    match goal with |- context [arm_write ?y] => pose proof (AW y) as (W1 & W2 & W3); destruct (arm_write y) as [s5 cs5] end.
    cbn in *. rewrite W1, W2, W3. repeat split; [lia|exact R|exact Fh].
Qed.

(* invariant of the armed read deadline at the top of the loop *)
Definition rinv (c : scfg) (st : lstate) : Prop :=
  0 <= l_num st /\ (l_num st = 0 -> l_reqrdl st = false /\ l_rdl st = 0) /\
  (sc_readTimeout c = 0 -> sc_idleTimeout c = 0 -> l_reqrdl st = false -> l_rdl st = 0).

Lemma linit_rinv c : rinv c (linit c).
Proof. unfold rinv. cbn. repeat split; auto; lia. Qed.

(* the deadline under which the head of the next request is read, once its first byte arrived *)
Lemma head_deadline c st : wf_scfg c -> rinv c st ->
  l_rdl (fst (arm_first_byte c (st1_of st, []))) = sc_readTimeout c.
Proof.
  intros (Wr & Wi & _) (N & Z0 & J).
  rewrite (arm_first_byte_rdl c (st1_of st) [] Wr Wi ltac:(cbn; lia)). cbn [st1_of l_num l_rdl l_reqrdl].
  destruct (sc_readTimeout c >? 0) eqn:R; [reflexivity|].
  assert (R0 : sc_readTimeout c = 0) by lia. rewrite R0.
  destruct (sc_idleTimeout c >? 0) eqn:Ii.
  - destruct (l_num st + 1 >? 1) eqn:E; [reflexivity|]. apply Z0. lia.
  - destruct (l_num st + 1 >? 1) eqn:E; cbn [andb].
    + destruct (l_reqrdl st) eqn:F; [reflexivity|]. apply J; [assumption|lia|reflexivity].
    + apply Z0. lia.
Qed.

Lemma lstep_rinv c st q : wf_scfg c -> rinv c st -> rinv c (snd (lstep c st q)).
Proof.
  intros Wc I. pose proof (head_deadline c st Wc I) as Hd.
  pose proof (lstep_after c st q) as (Hn & Hr & Hf). cbn zeta in *.
  destruct I as (N & Z0 & J). unfold rinv. rewrite Hn, Hr, Hf, Hd.
  split; [lia|]. split; [intros; lia|].
  intros R0 I0 F. rewrite F. exact R0.
Qed.

Lemma lafter_rinv c : wf_scfg c -> forall qs st st', rinv c st -> lafter c st qs = Some st' -> rinv c st'.
Proof.
  intros Wc qs; induction qs as [|q r IH]; intros st st' I H; cbn [lafter] in H.
  - injection H as <-. exact I.
  - destruct (d_closed (fst (lstep c st q))); [discriminate|].
    exact (IH _ _ (lstep_rinv c st q Wc I) H).
Qed.

Lemma lstep_rdl_body c st q : q_head_ok q = true ->
  d_rdl_body (fst (lstep c st q)) = l_rdl (fst (header_received c q (arm_first_byte c (st1_of st, [])))).
Proof.
  intros Hh. unfold lstep. fold (st1_of st). rewrite Hh. cbn [negb].
  set (x := arm_first_byte c _).
  destruct (header_received c q x) as [s2 cs2]. cbn [fst].
  destruct (negb (q_expect q) && (negb (sc_stream c) && (q_body q >? l_max s2))); [reflexivity|].
  destruct (lverdict c q) as [v|].
  - match goal with |- context [arm_write ?y] => destruct (arm_write y) as [s5 cs5] end. reflexivity.
  - destruct (q_expect q && (negb (sc_stream c) && (q_body q >? l_max s2))); [reflexivity|].
    match goal with |- context [arm_write ?y] => destruct (arm_write y) as [s5 cs5] end. reflexivity.
Qed.

(* after ANY history, the read deadline under which a request's body is read is the one the
   configuration and that request prescribe *)
Theorem read_deadline_independent c qs q st :
  wf_scfg c -> lafter c (linit c) qs = Some st -> q_head_ok q = true ->
  d_rdl_body (fst (lstep c st q)) = spec_rdl_body c q.
Proof.
  intros Wc H Hh. rewrite (lstep_rdl_body c st q Hh), header_received_rdl.
  unfold spec_rdl_body. destruct (sc_hasHeaderReceived c && (q_rt q >? 0)); [reflexivity|].
  apply head_deadline; [assumption|]. exact (lafter_rinv c Wc qs _ _ (linit_rinv c) H).
Qed.

(* non-vacuity: a 5 s per-request deadline is gone for the next request *)
Definition wit_scfg : scfg := mkScfg 0 0 0 0 true false false false 0 false.
Definition wit_q1 : lreq := mkLreq true 5 0 0 0 false false false 0 false HNone.
Definition wit_q2 : lreq := mkLreq true 0 0 0 0 false false false 0 false HNone.
Lemma override_is_cleared :
  map (fun d => (d_rdl_body d, d_calls d)) (fst (lrun wit_scfg (linit wit_scfg) [wit_q1; wit_q2]))
  = [(5, [DRead 5]); (0, [DRead 0])].
Proof. vm_compute. reflexivity. Qed.
