(* Proofs for C11 (Model/CtxReset.v against Spec/CtxResetSpec.v). *)
From Coq Require Import String Lia ZifyBool.
From FH Require Import Model.Base Gen.GenC11 Model.CtxReset Spec.CtxResetSpec.
Open Scope string_scope.
Open Scope Z_scope.

(* ------------------------------------------------------------------------------------ *)
(* Part A: the resets leave every observable field zero                                 *)
(* ------------------------------------------------------------------------------------ *)

Lemma observable_fields_eq : observable_fields =
  ["Response.bodyStream"; "Response.raddr"; "Response.laddr"; "Response.body"; "Response.bodyRaw";
   "Response.Header.header.h"; "Response.Header.header.cookies";
   "Response.Header.header.contentLengthBytes"; "Response.Header.header.contentType"; "Response.Header.header.protocol";
   "Response.Header.header.mulHeader"; "Response.Header.header.trailer"; "Response.Header.header.contentLength";
   "Response.Header.header.disableNormalizing"; "Response.Header.header.noHTTP11";
   "Response.Header.header.connectionClose"; "Response.Header.header.noDefaultContentType";
   "Response.Header.statusMessage"; "Response.Header.contentEncoding"; "Response.Header.server"; "Response.Header.statusCode";
   "Response.Header.noDefaultDate"; "Response.ImmediateHeaderFlush"; "Response.StreamBody"; "Response.SkipBody";
   "hijackHandler"; "hijackNoResponse";
   "Request.bodyStream"; "Request.body"; "Request.multipartForm"; "Request.multipartFormBoundary";
   "Request.postArgs.args"; "Request.userValues"; "Request.bodyRaw";
   "Request.uri.queryArgs.args"; "Request.uri.pathOriginal"; "Request.uri.scheme"; "Request.uri.path";
   "Request.uri.queryString"; "Request.uri.hash"; "Request.uri.host";
   "Request.uri.username"; "Request.uri.password"; "Request.uri.parsedQueryArgs"; "Request.uri.DisablePathNormalizing";
   "Request.Header.header.h"; "Request.Header.header.cookies";
   "Request.Header.header.contentLengthBytes"; "Request.Header.header.contentType"; "Request.Header.header.protocol";
   "Request.Header.header.mulHeader"; "Request.Header.header.trailer"; "Request.Header.header.contentLength";
   "Request.Header.header.disableNormalizing"; "Request.Header.header.noHTTP11";
   "Request.Header.header.connectionClose"; "Request.Header.header.noDefaultContentType";
   "Request.Header.method"; "Request.Header.requestURI"; "Request.Header.host"; "Request.Header.userAgent"; "Request.Header.rawHeaders";
   "Request.Header.disableSpecialHeader"; "Request.Header.cookiesCollected";
   "Request.timeout"; "Request.parsedURI"; "Request.parsedPostArgs"; "Request.uriParseErr";
   "Request.isTLS"; "Request.UseHostHeader"; "Request.DisableRedirectPathNormalizing"].
Proof. vm_compute. reflexivity. Qed.

Ltac all_fields_zero :=
  intros m f Hin; rewrite observable_fields_eq in Hin;
  repeat (destruct Hin as [<-|Hin]; [vm_compute; reflexivity|]); contradiction.

Theorem ctx_reset_is_fresh : forall m, fresh (RequestCtx_reset m).
Proof. unfold fresh. all_fields_zero. Qed.

Theorem loop_end_reset_is_fresh : forall m, fresh (loop_end_reset m).
Proof. unfold fresh. all_fields_zero. Qed.

(* every field of RequestCtx is classified: reset by RequestCtx.reset, configuration, scratch, or connection *)
Lemma all_fields_classified :
  forallb (fun f => zero_after KCtxReset f || mem f config_fields || mem f scratch_fields) all_fields = true.
Proof. vm_compute. reflexivity. Qed.

(* removing any single assignment of a reset function from the model is visible: each observable field is
   cleared, and a dirty ctx is not fresh *)
Lemma dirty_not_fresh : ~ fresh dirty.
Proof. intros H. specialize (H "Request.userValues"). rewrite observable_fields_eq in H. cbn in H. discriminate H. auto 40. Qed.

(* ------------------------------------------------------------------------------------ *)
(* Part C: what the handler sees                                                        *)
(* ------------------------------------------------------------------------------------ *)

(* parsing is pointwise: the value it leaves in a field depends on the previous value of that field only *)
Lemma set_all_pointwise rv fs : forall a b f, a f = b f -> set_all rv fs a f = set_all rv fs b f.
Proof.
  induction fs as [|g fs IH]; intros a b f H; cbn; [exact H|].
  destruct (rv g =? 0); apply IH; [exact H|].
  unfold upd. destruct (String.eqb f g); [reflexivity|exact H].
Qed.

Lemma app_all_pointwise rv fs : forall a b f, a f = b f -> app_all rv fs a f = app_all rv fs b f.
Proof.
  induction fs as [|g fs IH]; intros a b f H; cbn; [exact H|].
  apply IH. unfold upd. destruct (String.eqb f g) eqn:E; [|exact H].
  apply String.eqb_eq in E. subst g. rewrite H. reflexivity.
Qed.

Lemma parse_into_pointwise cfgv rv a b f : a f = b f -> parse_into cfgv rv a f = parse_into cfgv rv b f.
Proof.
  intros H. unfold parse_into. apply app_all_pointwise, set_all_pointwise, set_all_pointwise. exact H.
Qed.

Lemma fresh_obs_eq_zero m : fresh m -> obs_eq m zero.
Proof. intros H f Hin. rewrite (H f Hin). reflexivity. Qed.

Lemma parse_fresh cfgv rv m : fresh m -> obs_eq (parse_into cfgv rv m) (parse_into cfgv rv zero).
Proof. intros H f Hin. apply parse_into_pointwise. exact (fresh_obs_eq_zero m H f Hin). Qed.

Definition pool_ok (p : pool) : Prop := Forall fresh p.

Lemma in_firstn {A} (x : A) : forall k l, In x (firstn k l) -> In x l.
Proof. induction k; intros [|y l]; cbn; try tauto. intros [H|H]; auto. Qed.
Lemma in_skipn {A} (x : A) : forall k l, In x (skipn k l) -> In x l.
Proof. induction k; intros [|y l]; cbn; try tauto. intros H; right; auto. Qed.

Lemma acquire_ok p k fr m p' : pool_ok p -> fresh fr -> acquire p k fr = (m, p') -> fresh m /\ pool_ok p'.
Proof.
  intros Hp Hf H. unfold acquire in H. destruct (nth_error p k) as [x|] eqn:E.
  - injection H as <- <-. split.
    + apply nth_error_In in E. unfold pool_ok in Hp. rewrite Forall_forall in Hp. exact (Hp _ E).
    + unfold pool_ok in *. apply Forall_app. split.
      * rewrite Forall_forall in *. intros y Hy. apply Hp. exact (in_firstn _ _ _ Hy).
      * rewrite Forall_forall in *. intros y Hy. apply Hp. exact (in_skipn _ (S k) _ Hy).
  - injection H as <- <-. auto.
Qed.

Definition rv_of (h : hstep) : string -> Z := match h with HS rv _ _ => rv end.

(* one connection: every handler sees the parse of its own request into an observably fresh ctx *)
Lemma conn_run_sees cfgv fr : fresh fr -> forall hs p m seens mf pf,
  pool_ok p -> fresh m -> conn_run cfgv fr p m hs = (seens, mf, pf) ->
  Forall2 (fun seen h => obs_eq seen (parse_into cfgv (rv_of h) zero)) seens hs /\ pool_ok pf.
Proof.
  intros Hf hs; induction hs as [|[rv sc tmo] hs IH]; intros p m seens mf pf Hp Hm H; cbn [conn_run] in H.
  - injection H as <- _ <-. split; [constructor|assumption].
  - destruct (match tmo with Some k => acquire p k fr | None => (sc (parse_into cfgv rv m), p) end) as [m1 p1] eqn:E1.
    destruct (conn_run cfgv fr p1 (loop_end_reset m1) hs) as [[ss mf'] pf'] eqn:E2.
    injection H as <- <- <-.
    assert (Hp1 : pool_ok p1).
    { destruct tmo as [k|]; [exact (proj2 (acquire_ok _ _ _ _ _ Hp Hf E1))|]. injection E1 as _ <-. exact Hp. }
    specialize (IH _ _ _ _ _ Hp1 (loop_end_reset_is_fresh m1) E2) as [IH1 IH2].
    split; [|exact IH2]. constructor; [|exact IH1]. cbn [rv_of]. apply parse_fresh. exact Hm.
Qed.

Theorem handler_sees_own_request cfgv fr : fresh fr -> forall conns p,
  pool_ok p ->
  Forall2 (fun seens c => Forall2 (fun seen h => obs_eq seen (parse_into cfgv (rv_of h) zero)) seens (snd c))
          (server_run cfgv fr p conns) conns.
Proof.
  intros Hf conns; induction conns as [|[k hs] conns IH]; intros p Hp; cbn [server_run]; [constructor|].
  destruct (acquire p k fr) as [m p1] eqn:E1.
  destruct (acquire_ok _ _ _ _ _ Hp Hf E1) as [Hm Hp1].
  destruct (conn_run cfgv fr p1 m hs) as [[seens mf] p2] eqn:E2.
  destruct (conn_run_sees cfgv fr Hf _ _ _ _ _ _ Hp1 Hm E2) as [H1 H2].
  constructor; [exact H1|]. apply IH. unfold release. constructor; [apply ctx_reset_is_fresh|exact H2].
Qed.

(* the same history with one reset removed is NOT safe: if the loop-end reset forgot the user values,
   a later handler would see them (the statement depends on the reset) *)
Definition forgetful_reset (m : state) : state :=
  fun f => if String.eqb f "Request.userValues" then m f else loop_end_reset m f.
Lemma forgetful_reset_leaks : exists m, ~ fresh (forgetful_reset m).
Proof.
  exists dirty. intros H. specialize (H "Request.userValues"). rewrite observable_fields_eq in H.
  cbn in H. discriminate H. auto 40.
Qed.


(* ------------------------------------------------------------------------------------ *)
(* the pooled requestStream object                                                      *)
(* ------------------------------------------------------------------------------------ *)

Ltac rs_fields_all :=
  intros; match goal with H : In _ rs_fields |- _ =>
    unfold rs_fields in H; repeat (destruct H as [<-|H]; [vm_compute; reflexivity|]); contradiction end.

(* releaseRequestStream leaves EVERY field of the object zero, whatever the stream's state was *)
Theorem rs_release_is_fresh : forall m f, In f rs_fields -> releaseRequestStream_m m f = 0.
Proof. rs_fields_all. Qed.

(* so the stream a request gets from the pool is the stream it would get from a new object *)
Theorem rs_acquire_after_release_is_new : forall v m f, In f rs_fields ->
  acquireRequestStream_m v (releaseRequestStream_m m) f = acquireRequestStream_m v zero f.
Proof. rs_fields_all. Qed.

(* acquireRequestStream itself clears nothing: totalBytesRead, chunkLeft, eof and err are taken over
   from the previous user as they are, so the statement above rests on the release alone *)
Theorem rs_acquire_trusts_the_pool : forall v m,
  acquireRequestStream_m v m "requestStream.totalBytesRead" = m "requestStream.totalBytesRead" /\
  acquireRequestStream_m v m "requestStream.chunkLeft" = m "requestStream.chunkLeft" /\
  acquireRequestStream_m v m "requestStream.eof" = m "requestStream.eof" /\
  acquireRequestStream_m v m "requestStream.err" = m "requestStream.err".
Proof. intros. repeat split; vm_compute; reflexivity. Qed.
