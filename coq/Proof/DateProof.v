(* The fast RFC 1123 parser equals the time.Parse specification on every 29-byte input, and
   ParseHTTPDate o AppendHTTPDate is the identity (to the second) for years 1..9999. *)
From FH Require Import Model.Base Gen.GenC31 Spec.Calendar Spec.HttpDate Model.DateIP Proof.CalendarFacts Proof.CalendarProof.
From Coq Require Import Lia ZifyBool ZifyN ZifyNat.
Open Scope Z_scope.

Definition all256 : list N := map N.of_nat (seq 0 256).
Lemma in_all256 c : (c < 256)%N -> In c all256.
Proof. intros H. apply in_map_iff. exists (N.to_nat c). split; [lia|]. apply in_seq. lia. Qed.

Definition is_letter (p : N) : bool := ((65 <=? p) && (p <=? 90) || (97 <=? p) && (p <=? 122))%N.

(* time's case-insensitive match against a letter = equality after OR 0x20 *)
Lemma ci_eq_or20 a p : (a < 256)%N -> (p < 256)%N -> is_letter p = true -> ci_eq a p = (or20 a =? or20 p).
Proof.
  assert (H : forallb (fun a => forallb (fun p => implb (is_letter p) (Bool.eqb (ci_eq a p) (or20 a =? or20 p))) all256) all256 = true)
    by (vm_compute; reflexivity).
  intros Ha Hp Hl. rewrite forallb_forall in H. specialize (H a (in_all256 a Ha)).
  rewrite forallb_forall in H. specialize (H p (in_all256 p Hp)). rewrite Hl in H. now apply Bool.eqb_prop.
Qed.
Lemma or20_range a : (a < 256)%N -> 0 <= or20 a < 256.
Proof.
  assert (H : forallb (fun a => (0 <=? or20 a) && (or20 a <? 256)) all256 = true) by (vm_compute; reflexivity).
  intros Ha. rewrite forallb_forall in H. specialize (H a (in_all256 a Ha)). lia.
Qed.

Definition packname (nm : bytes) : Z :=
  match nm with [p; q; r] => key3 p q r | _ => -1 end.
Definition name_ok (nm : bytes) : bool :=
  match nm with [p; q; r] => is_letter p && is_letter q && is_letter r && (p <? 256)%N && (q <? 256)%N && (r <? 256)%N | _ => false end.

Lemma key_match a b c nm : (a < 256)%N -> (b < 256)%N -> (c < 256)%N -> name_ok nm = true ->
  (key3 a b c =? packname nm) = ci_match3 [a; b; c] nm.
Proof.
  intros Ha Hb Hc Hn. destruct nm as [|p [|q [|r [|]]]]; try discriminate. cbn [packname ci_match3]. cbn [name_ok] in Hn.
  repeat (apply andb_true_iff in Hn as [Hn ?]).
  rewrite !ci_eq_or20 by (assumption || lia).
  pose proof (or20_range a Ha). pose proof (or20_range b Hb). pose proof (or20_range c Hc).
  pose proof (or20_range p ltac:(lia)). pose proof (or20_range q ltac:(lia)). pose proof (or20_range r ltac:(lia)).
  unfold key3. lia.
Qed.

Lemma index_lookup a b c : (a < 256)%N -> (b < 256)%N -> (c < 256)%N -> forall names i,
  forallb name_ok names = true ->
  index_of (key3 a b c) (map packname names) i = lookup_name [a; b; c] names i.
Proof.
  intros Ha Hb Hc. induction names as [|nm names IH]; intros i Hn; [reflexivity|].
  cbn [forallb] in Hn. apply andb_true_iff in Hn as [H1 H2].
  cbn [map index_of lookup_name]. rewrite key_match by assumption. rewrite IH by assumption. reflexivity.
Qed.
Lemma exists_lookup a b c : (a < 256)%N -> (b < 256)%N -> (c < 256)%N -> forall names i,
  forallb name_ok names = true ->
  existsb (Z.eqb (key3 a b c)) (map packname names) = match lookup_name [a; b; c] names i with Some _ => true | None => false end.
Proof.
  intros Ha Hb Hc. induction names as [|nm names IH]; intros i Hn; [reflexivity|].
  cbn [forallb] in Hn. apply andb_true_iff in Hn as [H1 H2].
  cbn [map existsb lookup_name]. rewrite key_match by assumption.
  destruct (ci_match3 [a; b; c] nm); [reflexivity|]. cbn [orb]. now apply IH.
Qed.

(* the translated case labels are exactly the packed (lower-cased) names of the specification, in the same order *)
Lemma keys_are_names : weekdayKeys = map packname day_names /\ monthKeys = map packname month_names
  /\ forallb name_ok day_names = true /\ forallb name_ok month_names = true.
Proof. vm_compute. repeat split; reflexivity. Qed.

Lemma weekday_equiv a b c : (a < 256)%N -> (b < 256)%N -> (c < 256)%N ->
  isWeekday3 a b c = match lookup_name [a; b; c] day_names 0 with Some _ => true | None => false end.
Proof.
  intros. destruct keys_are_names as (E & _ & Hn & _). unfold isWeekday3. rewrite E. now apply exists_lookup.
Qed.
Lemma month_equiv a b c : (a < 256)%N -> (b < 256)%N -> (c < 256)%N ->
  parseMonth3 a b c = lookup_name [a; b; c] month_names 1.
Proof.
  intros. destruct keys_are_names as (_ & E & _ & Hn). unfold parseMonth3. rewrite E. now apply index_lookup.
Qed.
Lemma lookup_range x names : forall i v, lookup_name x names i = Some v -> i <= v < i + Z.of_nat (length names).
Proof.
  induction names as [|n names IH]; intros i v; cbn [lookup_name length]; [discriminate|].
  destruct (ci_match3 x n); [intros [= <-]; lia|]. intros H. apply IH in H. lia.
Qed.

Lemma isdig_eq c : isdig c = ((48 <=? c) && (c <=? 57))%N.
Proof. unfold isdig. lia. Qed.
Lemma p2d_num2 a b : parse2Digits a b = num2 a b.
Proof.
  unfold parse2Digits, num2, digit. rewrite !isdig_eq.
  destruct ((48 <=? a) && (a <=? 57))%N; [|reflexivity].
  destruct ((48 <=? b) && (b <=? 57))%N; [|reflexivity]. cbn [andb]. apply f_equal. lia.
Qed.
Lemma p4d_num4 a b c d : parse4Digits a b c d = num4 a b c d.
Proof.
  unfold parse4Digits, num4. rewrite !p2d_num2. destruct (num2 a b); [|reflexivity]. destruct (num2 c d); [|reflexivity]. apply f_equal. lia.
Qed.
Lemma num2_range a b v : num2 a b = Some v -> 0 <= v <= 99.
Proof.
  unfold num2, digit. destruct ((48 <=? a) && (a <=? 57))%N eqn:E1; [|discriminate].
  destruct ((48 <=? b) && (b <=? 57))%N eqn:E2; [|discriminate]. intros Hv.
  assert (Ev : v = 10 * (Z.of_N a - 48) + (Z.of_N b - 48)) by congruence. clear Hv.
  apply andb_true_iff in E1 as [A1 A2]. apply andb_true_iff in E2 as [B1 B2].
  apply N.leb_le in A1, A2, B1, B2. lia.
Qed.

Theorem fast_equals_time_parse b : wf_bytes b -> length b = 29%nat ->
  parseRFC1123DateGMT b = spec_time_parse b.
Proof.
  intros Hwf Hlen.
  do 29 (destruct b as [|? b]; [discriminate Hlen|]). destruct b; [|discriminate Hlen]. clear Hlen.
  unfold wf_bytes in Hwf. repeat (apply Forall_cons_iff in Hwf as [? Hwf]). cbv beta in *.
  unfold parseRFC1123DateGMT, spec_time_parse, at_. cbn [length Nat.eqb negb nth].
  rewrite weekday_equiv by assumption. rewrite month_equiv by assumption.
  rewrite !p2d_num2, p4d_num4.
  change (s2b ",    :: GMT") with [44;32;32;32;32;58;58;32;71;77;84]%N. cbn [beq].
  destruct (lookup_name [n; n0; n1] day_names 0) as [wd|] eqn:Ewd; cbn [negb].
  2:{ repeat match goal with |- context [(?x =? ?y)%N] => destruct (x =? y)%N; cbn [andb negb]; try reflexivity end. }
  repeat match goal with |- context [(?x =? ?y)%N] => destruct (x =? y)%N; cbn [andb negb]; try reflexivity end.
  destruct (num2 n4 n5) as [day|] eqn:Ed; [|reflexivity].
  pose proof (num2_range _ _ _ Ed) as Hdr.
  destruct (lookup_name [n7; n8; n9] month_names 1) as [month|] eqn:Em.
  2:{ destruct ((day <? 1) || (day >? 31)); reflexivity. }
  pose proof (lookup_range _ _ _ _ Em) as Hmr. cbn [length month_names map] in Hmr.
  destruct (num4 n11 n12 n13 n14) as [year|] eqn:Ey.
  2:{ destruct ((day <? 1) || (day >? 31)); reflexivity. }
  destruct (num2 n16 n17) as [hour|] eqn:Eh.
  2:{ destruct ((day <? 1) || (day >? 31)); reflexivity. }
  destruct (num2 n19 n20) as [minute|] eqn:Emi.
  2:{ destruct ((day <? 1) || (day >? 31)); [reflexivity|]. destruct (hour >? 23); reflexivity. }
  destruct (num2 n22 n23) as [second|] eqn:Es.
  2:{ destruct ((day <? 1) || (day >? 31)); [reflexivity|]. destruct (hour >? 23); [reflexivity|]. destruct (minute >? 59); reflexivity. }
  pose proof (num2_range _ _ _ Eh). pose proof (num2_range _ _ _ Emi). pose proof (num2_range _ _ _ Es).
  destruct (Z.ltb_spec day 1) as [Hd1|Hd1]; cbn [orb].
  { destruct (Z.leb_spec 1 day); [lia|]. reflexivity. }
  destruct (Z.leb_spec 1 day); [|lia]. cbn [andb].
  destruct (Z.gtb_spec day 31) as [Hd31|Hd31].
  { assert (days_in_month year month <= 31) by (unfold days_in_month; repeat match goal with |- context [if ?c then _ else _] => destruct c end; lia).
    destruct (Z.leb_spec day (days_in_month year month)); [lia|]. reflexivity. }
  pose proof (normalisation_detects_invalid year month day ltac:(lia) ltac:(lia)) as Hnorm.
  destruct (civil_from_days (days_from_civil year month day)) as [[y' m'] d'].
  unfold triple_eqb in Hnorm. rewrite Hnorm.
  destruct (Z.gtb_spec hour 23); destruct (Z.ltb_spec hour 24); try lia;
  destruct (Z.gtb_spec minute 59); destruct (Z.ltb_spec minute 60); try lia;
  destruct (Z.gtb_spec second 59); destruct (Z.ltb_spec second 60); try lia;
  destruct (day <=? days_in_month year month); cbn [negb andb]; try reflexivity.
Qed.

(* ---- formatting then parsing ---- *)
Ltac Zify.zify_post_hook ::= Z.div_mod_to_equations.

Lemma digit_dig x : 0 <= x <= 9 -> digit (dig x) = Some x.
Proof. intros H. unfold digit, dig. destruct ((48 <=? Z.to_N (48 + x)) && (Z.to_N (48 + x) <=? 57))%N eqn:E; [apply f_equal; lia|lia]. Qed.
Lemma num2_fmt2 v : 0 <= v < 100 -> match fmt2 v with [a; b] => num2 a b = Some v | _ => False end.
Proof.
  intros H. unfold fmt2, num2. rewrite !digit_dig by lia. apply f_equal. lia.
Qed.
Lemma num4_fmt4 v : 0 <= v < 10000 -> match fmt4 v with [a; b; c; d] => num4 a b c d = Some v | _ => False end.
Proof.
  intros H. unfold fmt4, num4, num2. rewrite !digit_dig by lia. apply f_equal. lia.
Qed.
Lemma dig_wf x : 0 <= x <= 9 -> (dig x < 256)%N.
Proof. unfold dig. lia. Qed.

Lemma day_name_facts wd : 0 <= wd < 7 -> exists a b c, nth (Z.to_nat wd) day_names [] = [a; b; c] /\
  lookup_name [a; b; c] day_names 0 = Some wd /\ (a < 256 /\ b < 256 /\ c < 256)%N.
Proof.
  intros H. assert (C : wd = 0 \/ wd = 1 \/ wd = 2 \/ wd = 3 \/ wd = 4 \/ wd = 5 \/ wd = 6) by lia.
  repeat (destruct C as [->|C]); try subst wd; vm_compute; do 3 eexists; repeat split; reflexivity.
Qed.
Lemma month_name_facts m : 1 <= m <= 12 -> exists a b c, nth (Z.to_nat (m - 1)) month_names [] = [a; b; c] /\
  lookup_name [a; b; c] month_names 1 = Some m /\ (a < 256 /\ b < 256 /\ c < 256)%N.
Proof.
  intros H. assert (C : m = 1 \/ m = 2 \/ m = 3 \/ m = 4 \/ m = 5 \/ m = 6 \/ m = 7 \/ m = 8 \/ m = 9 \/ m = 10 \/ m = 11 \/ m = 12) by lia.
  repeat (destruct C as [->|C]); try subst m; vm_compute; do 3 eexists; repeat split; reflexivity.
Qed.
Lemma dim_le31 y m : days_in_month y m <= 31.
Proof. unfold days_in_month; repeat match goal with |- context [if ?c then _ else _] => destruct c end; lia. Qed.

Definition year_of (secs : Z) : Z := match civil_from_days (secs / 86400 + epoch_days) with (y, _, _) => y end.

Theorem format_parse_roundtrip secs : 0 <= year_of secs <= 9999 ->
  spec_time_parse (spec_format_http_date secs) = Some secs /\
  length (spec_format_http_date secs) = 29%nat /\ wf_bytes (spec_format_http_date secs).
Proof.
  unfold year_of, spec_format_http_date. intros Hy.
  set (days := secs / 86400 + epoch_days) in *. set (r := secs mod 86400).
  pose proof (civil_from_days_valid days) as V. destruct (civil_from_days days) as [[y m] d].
  destruct V as (Hm & Hd & Hdfc). pose proof (dim_le31 y m) as H31.
  assert (Hr : 0 <= r < 86400) by (subst r; lia).
  destruct (day_name_facts (weekday_of_days days) ltac:(unfold weekday_of_days; lia)) as (w0 & w1 & w2 & Ew & Lw & Ww0 & Ww1 & Ww2).
  destruct (month_name_facts m Hm) as (m0 & m1 & m2 & Em & Lm & Wm0 & Wm1 & Wm2).
  rewrite Ew, Em.
  pose proof (num2_fmt2 d ltac:(lia)) as Nd. pose proof (num4_fmt4 y ltac:(lia)) as Ny.
  pose proof (num2_fmt2 (r / 3600) ltac:(lia)) as Nh. pose proof (num2_fmt2 (r / 60 mod 60) ltac:(lia)) as Nmi.
  pose proof (num2_fmt2 (r mod 60) ltac:(lia)) as Ns.
  unfold fmt2, fmt4 in *. cbn [app s2b].
  change (N_of_ascii ","%char) with 44%N. change (N_of_ascii " "%char) with 32%N.
  change (N_of_ascii "G"%char) with 71%N. change (N_of_ascii "M"%char) with 77%N. change (N_of_ascii "T"%char) with 84%N.
  split; [|split].
  - unfold spec_time_parse.
    change (s2b ",    :: GMT") with [44;32;32;32;32;58;58;32;71;77;84]%N. cbn [beq N.eqb Pos.eqb andb negb].
    rewrite Lw, Nd, Lm, Ny, Nh, Nmi, Ns.
    destruct (Z.leb_spec 1 d); [|lia]. destruct (Z.leb_spec d (days_in_month y m)); [|lia].
    destruct (Z.ltb_spec (r / 3600) 24); [|lia]. destruct (Z.ltb_spec (r / 60 mod 60) 60); [|lia].
    destruct (Z.ltb_spec (r mod 60) 60); [|lia]. cbn [andb]. apply f_equal.
    unfold unix_of_civil. rewrite Hdfc. subst days r. lia.
  - reflexivity.
  - repeat constructor; try assumption; try (apply dig_wf; lia); try (cbv; reflexivity).
Qed.

(* ParseHTTPDate(AppendHTTPDate(t)) = t truncated to the second, for every time whose year is 0..9999:
   the fast path alone already returns it. *)
Theorem date_roundtrip secs : 0 <= year_of secs <= 9999 ->
  parseRFC1123DateGMT (spec_format_http_date secs) = Some secs.
Proof.
  intros Hy. destruct (format_parse_roundtrip secs Hy) as (Hs & Hl & Hw).
  rewrite (fast_equals_time_parse _ Hw Hl). exact Hs.
Qed.
