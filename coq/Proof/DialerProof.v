(* Proofs for Model/Dialer.v (property C41). *)
From Coq Require Import Lia ZifyBool ZifyN ZifyNat.
From FH Require Import Model.Base Gen.GenC41 Model.Dialer.
Open Scope N_scope.

Lemma drun_app c s tr1 tr2 : drun c s (tr1 ++ tr2) = match drun c s tr1 with Some s' => drun c s' tr2 | None => None end.
Proof. revert s; induction tr1 as [|l tr IH]; intros s; cbn; [reflexivity|]. destruct (dstep c s l); auto. Qed.

Lemma dinv_run c (P : dstate -> Prop) :
  (forall s l s', P s -> dstep c s l = Some s' -> P s') ->
  forall tr s s', P s -> drun c s tr = Some s' -> P s'.
Proof.
  intros Hstep tr; induction tr as [|l tr IH]; intros s s' Hs Hr; cbn in Hr.
  - now inversion Hr; subst.
  - destruct (dstep c s l) as [s1|] eqn:E; [|discriminate]. eauto.
Qed.

Lemma upd_same {A} (f : N -> A) k v : upd f k v k = v.
Proof. unfold upd. now rewrite N.eqb_refl. Qed.
Lemma upd_other {A} (f : N -> A) k v x : x <> k -> upd f k v x = f x.
Proof. unfold upd. intros H. apply N.eqb_neq in H. now rewrite H. Qed.

(* ---------- remove_t ---------- *)
Lemma in_remove_t t x l : In x (remove_t t l) <-> In x l /\ x <> t.
Proof.
  induction l as [|y l IH]; cbn; [tauto|].
  destruct (y =? t) eqn:E.
  - apply N.eqb_eq in E. subst. rewrite IH. split; [tauto|]. intros [[->|H] Hn]; [congruence|tauto].
  - apply N.eqb_neq in E. cbn. rewrite IH. split.
    + intros [->|[H Hn]]; split; auto.
    + intros [[->|H] Hn]; auto.
Qed.
Lemma nodup_remove_t t l : NoDup l -> NoDup (remove_t t l).
Proof.
  induction 1 as [|y l Hy Hn IH]; cbn; [constructor|].
  destruct (y =? t); [exact IH|]. constructor; auto. rewrite in_remove_t. tauto.
Qed.
Lemma length_remove_t t l : NoDup l -> In t l -> S (length (remove_t t l)) = length l.
Proof.
  induction 1 as [|y l Hy Hn IH]; cbn; [tauto|].
  intros [->|Hin].
  - rewrite N.eqb_refl. f_equal.
    clear IH Hn. induction l as [|z l IH]; cbn; auto.
    destruct (z =? t) eqn:E; [apply N.eqb_eq in E; subst; exfalso; apply Hy; now left|].
    cbn. f_equal. apply IH. intros H. apply Hy. now right.
  - destruct (y =? t) eqn:E; [apply N.eqb_eq in E; subst; contradiction|]. cbn. f_equal. auto.
Qed.

(* ---------- rotation ---------- *)
Lemma rot_succ c i0 k : rot c i0 (k + 1) = rot c i0 k ++ [addr_of c i0 k].
Proof.
  unfold rot. replace (N.to_nat (k + 1)) with (S (N.to_nat k)) by lia.
  rewrite seq_S, map_app. cbn. now rewrite N2Nat.id.
Qed.
Lemma rot_zero c i0 : rot c i0 0 = [].
Proof. reflexivity. Qed.
Lemma rot_length c i0 k : length (rot c i0 k) = N.to_nat k.
Proof. unfold rot. now rewrite map_length, seq_length. Qed.

(* without a wrap of the uint32 index inside the dial, the n addresses tried are pairwise different *)
Lemma mod_inj n x y : 0 < n -> x <= y -> y < x + n -> x mod n = y mod n -> x = y.
Proof.
  intros Hn Hxy Hlt E.
  pose proof (N.div_mod x n ltac:(lia)) as Dx. pose proof (N.div_mod y n ltac:(lia)) as Dy.
  pose proof (N.mod_lt x n ltac:(lia)) as Lx.
  rewrite E in Dx.
  assert (Hq : x / n = y / n).
  { destruct (N.lt_trichotomy (x / n) (y / n)) as [H|[H|H]]; auto; exfalso; nia. }
  rewrite Hq in Dx. lia.
Qed.

Lemma nodup_map_inj {A B} (f : A -> B) (l : list A) :
  NoDup l -> (forall x y, In x l -> In y l -> f x = f y -> x = y) -> NoDup (map f l).
Proof.
  induction 1 as [|x l Hx Hn IH]; intros Hinj; cbn; constructor.
  - intros Hin. apply in_map_iff in Hin. destruct Hin as (y & Hy & Hin).
    assert (y = x) by (apply Hinj; [now right | now left | exact Hy]). subst. contradiction.
  - apply IH. intros a b Ha Hb. apply Hinj; now right.
Qed.

(* the uint32 sum idx%n + i does not overflow as long as the address count is below 2^31 *)
Lemma addr_nowrap c i0 j : 0 < nad c -> 2 * nad c <= W32 -> j < nad c -> addr_of c i0 j = (i0 mod nad c + j) mod nad c.
Proof.
  intros Hn Hw Hj. unfold addr_of. pose proof (N.mod_lt i0 (nad c) ltac:(lia)).
  now rewrite (N.mod_small (i0 mod nad c + j) W32) by lia.
Qed.

Lemma rot_nodup c i0 : 0 < nad c -> 2 * nad c <= W32 -> NoDup (rot c i0 (nad c)).
Proof.
  intros Hn Hw. unfold rot. apply nodup_map_inj; [apply seq_NoDup|].
  intros x y Hx Hy E. apply in_seq in Hx. apply in_seq in Hy.
  rewrite !addr_nowrap in E by lia.
  destruct (Nat.le_ge_cases x y) as [L|L].
  - assert (i0 mod nad c + N.of_nat x = i0 mod nad c + N.of_nat y) by (apply (mod_inj (nad c)); auto; lia). lia.
  - assert (i0 mod nad c + N.of_nat y = i0 mod nad c + N.of_nat x) by (apply (mod_inj (nad c)); auto; lia). lia.
Qed.

Lemma rot_lt c i0 k a : 0 < nad c -> In a (rot c i0 k) -> a < nad c.
Proof.
  intros Hn Hin. unfold rot in Hin. apply in_map_iff in Hin. destruct Hin as (j & <- & _).
  unfold addr_of. apply N.mod_lt. lia.
Qed.

(* ... so every address is tried exactly once *)
Lemma rot_covers c i0 a : 0 < nad c -> 2 * nad c <= W32 -> a < nad c -> In a (rot c i0 (nad c)).
Proof.
  intros Hn Hw Ha.
  set (all := map N.of_nat (seq 0 (N.to_nat (nad c)))).
  assert (Hincl : incl all (rot c i0 (nad c))).
  { apply NoDup_length_incl.
    - now apply rot_nodup.
    - unfold all. rewrite rot_length, map_length, seq_length. lia.
    - intros x Hx. apply (rot_lt c i0 (nad c)) in Hx; auto. unfold all. apply in_map_iff.
      exists (N.to_nat x). split; [lia|]. apply in_seq. lia. }
  apply Hincl. unfold all. apply in_map_iff. exists (N.to_nat a). split; [lia|]. apply in_seq. lia.
Qed.

(* the index 2^32-1, where the rotation used to break before the fix d625fef *)
Lemma rot_at_wrap_example : rot (mkCfg 0 3) 4294967295 3 = [0; 1; 2].
Proof. vm_compute. reflexivity. Qed.

(* ---------- the invariant ---------- *)
Definition is_conn (p : tpc) : bool := match p with TConn _ _ _ _ _ => true | _ => false end.

Definition pc_ok (c : dcfg) (p : tpc) : Prop :=
  match p with
  | TLoop dl i0 k tr | TSem dl i0 k tr | TSemWait dl i0 k tr => k < nad c /\ tr = rot c i0 k
  | TConn dl cdl i0 k tr => (k < nad c /\ tr = rot c i0 k) /\ cdl = dl      (* the connect is cut at the dial's deadline *)
  | TDone (XErr a) dl i0 tr at_ => tr = rot c i0 (nad c) /\ a = addr_of c i0 (nad c - 1)
  | TDone (XTimeout a) dl i0 tr at_ =>
      dl <= at_ /\ exists k, k < nad c /\ a = addr_of c i0 k /\ (tr = rot c i0 k \/ tr = rot c i0 (k + 1))
  | TDone (XOk a) dl i0 tr at_ => exists k, k < nad c /\ a = addr_of c i0 k /\ tr = rot c i0 (k + 1)
  | TDone XResolveErr dl i0 tr at_ => tr = []
  | _ => True
  end.

Record dinv (c : dcfg) (s : dstate) : Prop := mkDI {
  d_nodup : NoDup (inprog s);
  d_in : forall t, In t (inprog s) <-> is_conn (tp s t) = true;
  d_sem : cap c <> 0 -> sem s = N.of_nat (length (inprog s));
  d_bound : cap c <> 0 -> sem s <= cap c;
  d_pc : forall t, pc_ok c (tp s t)
}.

Lemma dinv_init c : dinv c dsinit.
Proof. constructor; cbn; try easy; try constructor; try lia; try (intros []; fail); try discriminate. Qed.

Ltac dstep_cases H :=
  unfold dstep in H;
  repeat match type of H with
         | context [match ?x with _ => _ end] => destruct x eqn:?
         end;
  try discriminate; inversion H; subst; clear H.

Ltac usplit :=
  repeat match goal with
         | H : context [upd _ ?k _ ?x] |- _ =>
             destruct (N.eq_dec x k) as [->|?]; [rewrite upd_same in H | rewrite upd_other in H by assumption]
         | |- context [upd _ ?k _ ?x] =>
             destruct (N.eq_dec x k) as [->|?]; [rewrite upd_same | rewrite upd_other by assumption]
         end.

Lemma has_slot_lt c s : cap c <> 0 -> has_slot c s = true -> sem s < cap c.
Proof. unfold has_slot. intros H. destruct (cap c =? 0) eqn:E; [apply N.eqb_eq in E; contradiction|]. cbn. intros X. lia. Qed.

Lemma dinv_step c s l s' : 0 < nad c -> dinv c s -> dstep c s l = Some s' -> dinv c s'.
Proof.
  intros Hn I H. destruct I as [Ind Iin Isem Ibound Ipc].
  dstep_cases H.
  all: match goal with Hp : tp _ ?t = _ |- _ => pose proof (Ipc t) as Pt; rewrite Hp in Pt; cbn in Pt | _ => idtac end.
  all: constructor; unfold set_tp, acquire, release; cbn [sem aidx clock tp inprog]; auto.
  (* pcs *)
  all: try solve [intros t0; usplit; [cbn; intuition (subst; auto using rot_zero) | apply Ipc]].
  all: try match goal with Hp : tp _ ?t = _ |- _ => pose proof (Iin t) as It; rewrite Hp in It; cbn [is_conn] in It end.
  (* A *)
  all: try solve [intros t0; usplit; [cbn [is_conn]; exact It | apply Iin]].
  (* B *)
  all: try solve [constructor; [rewrite It; discriminate | assumption]].
  (* C *)
  all: try solve [intros t0; usplit; [cbn; split; auto | cbn [In]; rewrite <- Iin; split; [intros [E|X]; [congruence|auto] | auto]]].
  (* D, E *)
  all: try solve [intros Hc; destruct (cap c =? 0) eqn:E; [apply N.eqb_eq in E; contradiction|]; rewrite (Isem Hc); cbn [length]; lia].
  all: try solve [intros Hc; destruct (cap c =? 0) eqn:E; [apply N.eqb_eq in E; contradiction|];
                  match goal with Hs : has_slot _ _ = true |- _ => pose proof (has_slot_lt _ _ Hc Hs) end; lia].
  (* F *)
  all: try solve [apply nodup_remove_t; assumption].
  (* G *)
  all: try solve [intros t0; rewrite in_remove_t; usplit;
                  [cbn; split; [intros [_ X]; congruence | discriminate] | rewrite Iin; split; [intros [X _]; exact X | auto]]].
  (* H, I *)
  all: try solve [intros Hc; destruct (cap c =? 0) eqn:E; [apply N.eqb_eq in E; contradiction|];
                  assert (Hin : In t (inprog s)) by (apply It; reflexivity);
                  pose proof (length_remove_t t (inprog s) Ind Hin); rewrite (Isem Hc); lia].
  all: try solve [intros Hc; destruct (cap c =? 0) eqn:E; [apply N.eqb_eq in E; contradiction|]; specialize (Ibound Hc); lia].
  (* J *)
  all: try match goal with Pt : (_ /\ _) /\ _ = _ |- _ => let Pc := fresh "Pc" in destruct Pt as [Pt Pc]; subst end.
  all: try solve [intros t0; usplit; [|apply Ipc]; destruct Pt as [Pk Ptr]; subst; cbn;
                  first [ split; [lia|]; exists k; split; [lia|]; split; [reflexivity|]; first [left; reflexivity | right; now rewrite rot_succ]
                        | exists k; split; [lia|]; split; [reflexivity|]; now rewrite rot_succ
                        | split; [lia | now rewrite rot_succ]
                        | assert (Hk : k + 1 = nad c) by lia; split; [rewrite <- Hk; now rewrite rot_succ | f_equal; lia] ]].
Qed.

Lemma dreach_inv c tr s : 0 < nad c -> dreach c tr s -> dinv c s.
Proof. intros Hn. unfold dreach. apply (dinv_run c (dinv c)); [intros; eapply dinv_step; eauto | apply dinv_init]. Qed.

(* ---------- consequences ---------- *)

(* the threads inside DialContext are exactly those listed in inprog, there are at most Concurrency of them *)
Lemma dial_bound c tr s : 0 < nad c -> cap c <> 0 -> dreach c tr s ->
  N.of_nat (length (inprog s)) <= cap c /\ NoDup (inprog s) /\ (forall t, In t (inprog s) <-> is_conn (tp s t) = true).
Proof.
  intros Hn Hc R. pose proof (dreach_inv c tr s Hn R) as I. split; [|split].
  - rewrite <- (d_sem _ _ I Hc). exact (d_bound _ _ I Hc).
  - exact (d_nodup _ _ I).
  - exact (d_in _ _ I).
Qed.

(* a dial that failed with a non-timeout error went through the whole rotation from the index it drew *)
Lemma failed_tried_all c tr s t a dl i0 tried at_ : 0 < nad c -> dreach c tr s ->
  tp s t = TDone (XErr a) dl i0 tried at_ -> tried = rot c i0 (nad c) /\ a = addr_of c i0 (nad c - 1).
Proof. intros Hn R E. pose proof (d_pc _ _ (dreach_inv c tr s Hn R) t) as P. rewrite E in P. exact P. Qed.

(* whatever the result, the addresses tried so far are a prefix of that rotation *)
Lemma tried_is_rotation_prefix c tr s t : 0 < nad c -> dreach c tr s ->
  match tp s t with
  | TLoop _ i0 k tried | TSem _ i0 k tried | TSemWait _ i0 k tried | TConn _ _ i0 k tried => k < nad c /\ tried = rot c i0 k
  | TDone _ _ i0 tried _ => exists k, k <= nad c /\ tried = rot c i0 k
  | _ => True
  end.
Proof.
  intros Hn R. pose proof (d_pc _ _ (dreach_inv c tr s Hn R) t) as P.
  destruct (tp s t) as [| | | | |dl cdl i0 k tried|r dl i0 tried at_]; auto; [exact (proj1 P)|].
  destruct r; cbn in P.
  - destruct P as (k & Hk & _ & E). exists (k + 1). split; [lia|exact E].
  - destruct P as (_ & k & Hk & _ & [E|E]); [exists k|exists (k + 1)]; split; auto; lia.
  - destruct P as (E & _). exists (nad c). split; [lia|exact E].
  - exists 0. split; [lia|]. rewrite P. reflexivity.
Qed.

(* ErrDialTimeout is never reported before the deadline, and names an address of the rotation *)
Lemma timeout_not_early c tr s t a dl i0 tried at_ : 0 < nad c -> dreach c tr s ->
  tp s t = TDone (XTimeout a) dl i0 tried at_ -> dl <= at_ /\ exists k, k < nad c /\ a = addr_of c i0 k.
Proof.
  intros Hn R E. pose proof (d_pc _ _ (dreach_inv c tr s Hn R) t) as P. rewrite E in P. cbn in P.
  destruct P as (H1 & k & Hk & Ha & _). split; auto. exists k. auto.
Qed.

(* once its deadline has passed a dial can return ErrDialTimeout by its own steps alone, at once (no Tick), whatever
   the other dials do and however full the semaphore is *)
Definition unfinished (p : tpc) : option (N * N * N) :=
  match p with
  | TLoop dl i0 k _ | TSem dl i0 k _ | TSemWait dl i0 k _ | TConn dl _ i0 k _ => Some (dl, i0, k)
  | _ => None
  end.
Lemma timeout_on_own_steps c tr s t dl i0 k :
  0 < nad c -> dreach c tr s ->
  unfinished (tp s t) = Some (dl, i0, k) -> dl <= clock s ->
  exists ls s' tried, drun c s ls = Some s' /\ (length ls <= 2)%nat /\
                      tp s' t = TDone (XTimeout (addr_of c i0 k)) dl i0 tried (clock s) /\ clock s' = clock s.
Proof.
  intros Hn R U Hd. assert (Hb : (dl <=? clock s) = true) by (apply N.leb_le; exact Hd).
  pose proof (d_pc _ _ (dreach_inv c tr s Hn R) t) as P.
  destruct (tp s t) as [| |dl' i0' k' tr0|dl' i0' k' tr0|dl' i0' k' tr0|dl' cdl i0' k' tr0|] eqn:E; try discriminate;
    cbn in U; inversion U; subst; clear U.
  - exists [LCheck t]. eexists. eexists. cbn. rewrite E, Hb. split; [reflexivity|]. split; [lia|]. cbn. now rewrite upd_same.
  - destruct (has_slot c s) eqn:Hs.
    + exists [LAcqFast t; LConnDeadline t]. eexists. eexists. cbn. rewrite E, Hs. cbn. rewrite upd_same.
      unfold conn_ctx_deadline. rewrite Hb.
      split; [reflexivity|]. split; [lia|]. cbn. now rewrite upd_same.
    + exists [LAcqFull t; LSemTimeout t]. eexists. eexists. cbn. rewrite E, Hs. cbn. rewrite upd_same, Hb.
      split; [reflexivity|]. split; [lia|]. cbn. now rewrite upd_same.
  - exists [LSemTimeout t]. eexists. eexists. cbn. rewrite E, Hb. split; [reflexivity|]. split; [lia|]. cbn. now rewrite upd_same.
  - (* the connect in progress is cut at the dial's deadline: this is where cdl = dl is needed *)
    cbn in P. destruct P as [_ Pc]. subst cdl.
    exists [LConnDeadline t]. eexists. eexists. cbn. rewrite E, Hb. split; [reflexivity|]. split; [lia|]. cbn. now rewrite upd_same.
Qed.

(* the context of every connect in progress expires exactly at the deadline of its dial *)
Lemma connect_deadline_is_dial_deadline c tr s t dl cdl i0 k tried :
  0 < nad c -> dreach c tr s -> tp s t = TConn dl cdl i0 k tried -> cdl = dl.
Proof. intros Hn R E. pose proof (d_pc _ _ (dreach_inv c tr s Hn R) t) as P. rewrite E in P. exact (proj2 P). Qed.

(* the old wrap witness, now harmless: counter 2^32-2, three addresses [refuse, refuse, accept]: the dial tries 0, 1, 2 and connects *)
Lemma wrap_witness_fixed :
  let c := mkCfg 0 3 in
  let s0 := mkDS 0 4294967294 0 (fun _ => TNew) [] in
  match drun c s0 [LStart 0 100; LDraw 0; LCheck 0; LAcqFast 0; LConnRefused 0; LCheck 0; LAcqFast 0; LConnRefused 0;
                   LCheck 0; LAcqFast 0; LConnOk 0] with
  | Some s => tp s 0 = TDone (XOk 2) 100 4294967295 [0; 1; 2] 0
  | None => False
  end.
Proof. vm_compute. reflexivity. Qed.

(* every value of the uint32 rotation counter is reachable (v dials), with all later thread ids still unused *)
Lemma aidx_reachable c (v : nat) :
  exists tr s, dreach c tr s /\ aidx s = N.of_nat v mod W32 /\ (forall t, N.of_nat v <= t -> tp s t = TNew).
Proof.
  induction v as [|v (tr & s & R & Ha & Hf)].
  - exists [], dsinit. repeat split; auto.
  - set (t := N.of_nat v).
    assert (E1 : dstep c s (LStart t 0) = Some (set_tp s t (TDraw (clock s + 0)))).
    { cbn. now rewrite (Hf t ltac:(lia)). }
    set (s1 := set_tp s t (TDraw (clock s + 0))) in *.
    assert (E2 : dstep c s1 (LDraw t) = Some (mkDS (sem s1) ((aidx s1 + 1) mod W32) (clock s1)
                    (upd (tp s1) t (TLoop (clock s + 0) ((aidx s1 + 1) mod W32) 0 [])) (inprog s1))).
    { cbn. now rewrite upd_same. }
    eexists (tr ++ [LStart t 0; LDraw t]), _. split; [|split].
    + unfold dreach in *. rewrite drun_app, R. cbn [drun]. rewrite E1. fold s1. rewrite E2. reflexivity.
    + cbn. rewrite Ha. rewrite N.add_mod_idemp_l by (unfold W32; lia). f_equal. lia.
    + intros t0 Ht. cbn. rewrite !upd_other by (unfold t; lia). apply Hf. lia.
Qed.

Lemma rot_each_once : forall c i0, 0 < nad c -> 2 * nad c <= W32 ->
  NoDup (rot c i0 (nad c)) /\ length (rot c i0 (nad c)) = N.to_nat (nad c) /\
  (forall a, a < nad c -> In a (rot c i0 (nad c))) /\
  (forall j, j < nad c -> nth (N.to_nat j) (rot c i0 (nad c)) 0 = (i0 + j) mod nad c).
Proof.
  intros c i0 Hn Hw. split; [now apply rot_nodup|]. split; [apply rot_length|]. split; [intros a Ha; now apply rot_covers|].
  intros j Hj. unfold rot.
  rewrite (nth_indep _ 0 (addr_of c i0 (N.of_nat 0))) by (rewrite map_length, seq_length; lia).
  rewrite (map_nth (fun j0 : nat => addr_of c i0 (N.of_nat j0))), seq_nth by lia.
  cbn [Nat.add]. rewrite N2Nat.id. rewrite addr_nowrap by lia. apply N.add_mod_idemp_l. lia.
Qed.

(* a dial whose Resolver is still running when the deadline passes returns at once — with the resolver's (context) error,
   which is NOT ErrDialTimeout and carries no upstream address: no address has been chosen yet *)
Lemma resolve_deadline c s t dl : tp s t = TDraw dl -> dl <= clock s ->
  exists s', dstep c s (LResolveDeadline t) = Some s' /\ tp s' t = TDone XResolveErr dl 0 [] (clock s) /\
             aidx s' = aidx s /\ sem s' = sem s /\ clock s' = clock s.
Proof.
  intros E Hd. assert (Hb : (dl <=? clock s) = true) by (apply N.leb_le; exact Hd).
  eexists. cbn. rewrite E, Hb. split; [reflexivity|]. cbn. rewrite upd_same. repeat split; reflexivity.
Qed.
