(* FramingLexProof.v — C01: the lexical layer.  What the code's scanner reads from an accepted head is what
   the RFC's own field-line reader (Spec/Rfc9112.v) reads from the same bytes, and the trailer section of a
   chunked body ends where the RFC says; with Proof/FramingProof.v this closes C01_dispatch_is_rfc_prefix.

   1. take_line / trailer_section against fasthttp's line rule (HeadSpec.head_len_aux); parseTrailer over lines;
      read_trailer_rfc (C01_trailer_end_is_rfc).
   2. scan_next_exact / scanned_groups: the exact keys and values headerScanner.next yields from a block seen as
      groups of lines (strengthens Proof/ScannerProof.v's scan_next_lines, which only tracks positions).
   3. field_lines_groups: Rfc9112.field_lines over the same groups.
   4. whitespace lemmas; group_name / group_value: same field name; same value whenever the scanner's value has
      no SP / HTAB (which is the case for every value the code accepts as Content-Length or Transfer-Encoding).
   5. key_class: caseInsensitiveCompare against the two names = ASCII case-insensitive equality on valid keys.
   6. request_line_rfc, accepted_head_rfc (C01_fields_agree_on_accepted_head).
   7. dispatch_is_rfc, model_meets_oracle. *)
From FH Require Import Model.Base Gen.GenC01 Gen.GenC09 Gen.GenC32 Model.ByteClassModel Model.Lines Model.ReqHead Model.Body Model.Framing
  Spec.HeadSpec Spec.Rfc9112 Check.C01Check
  Proof.LinesProof Proof.ScannerProof Proof.HeadLocalProof Proof.HeadTotalProof Proof.FramingProof.
From FH Require Model.Multipart.
From Coq Require Import Lia ZifyBool ZifyN ZifyNat.
Open Scope nat_scope.


(* ---------------------------------------------------------------- part 1 *)
(* ---------- the RFC's line splitter on a line-structured buffer ---------- *)
Lemma strip_cr_cons x l : l <> [] -> strip_cr (x :: l) = x :: strip_cr l.
Proof.
  intros Hl. unfold strip_cr. destruct l as [|y l]; [contradiction|].
  change (last (x :: y :: l) 0%N) with (last (y :: l) 0%N).
  destruct (N.eqb (last (y :: l) 0%N) CR); reflexivity.
Qed.

Lemma take_line_line l r : no_lf l -> Rfc9112.take_line (l ++ LF :: r) = Some (strip_cr l, r).
Proof.
  unfold no_lf. induction l as [|x l IH]; intros Hl; [reflexivity|].
  cbn [index_byte] in Hl. destruct (N.eqb_spec x LF) as [|Hx]; [discriminate|].
  destruct (index_byte l LF) eqn:El; [discriminate|]. specialize (IH eq_refl).
  cbn [app Rfc9112.take_line]. change 10%N with LF. change 13%N with CR.
  destruct (N.eqb_spec x LF); [contradiction|].
  destruct l as [|y l].
  - cbn [app]. rewrite N.eqb_refl, andb_true_r. cbn [strip_cr last]. destruct (N.eqb x CR); reflexivity.
  - cbn [app]. destruct (N.eqb_spec y LF) as [->|Hy]; [cbn in El; discriminate|].
    rewrite andb_false_r. cbn [app] in IH. rewrite IH. rewrite (strip_cr_cons x (y :: l)) by congruence. reflexivity.
Qed.

(* where fasthttp's line rule ends a header / trailer block, the RFC's trailer-section ends *)
Lemma trailer_section_head_len : forall m b n N fuel, length b <= m ->
  head_len_aux true CurEmpty b n = Some N -> length b < fuel ->
  trailer_section fuel b = Some (skipn (N - n) b).
Proof.
  induction m as [|m IH]; intros b n N fuel Hm H Hf.
  - destruct b; [discriminate|cbn in Hm; lia].
  - destruct (index_byte b LF) as [i|] eqn:Ei; [|rewrite head_len_aux_noLF in H by exact Ei; discriminate].
    destruct (index_byte_split _ _ _ Ei) as (l & r & -> & Hli & Hl).
    rewrite head_len_aux_line in H by exact Hl. rewrite cur_after_blank in H.
    destruct fuel as [|f]; [lia|]. cbn [trailer_section]. rewrite take_line_line by exact Hl.
    rewrite app_length in Hm, Hf. cbn [length] in Hm, Hf.
    destruct (blank_line l) eqn:Eb.
    + injection H as <-. apply strip_cr_blank in Eb. rewrite Eb.
      replace (n + length l + 1 - n) with (length (l ++ [LF])) by (rewrite app_length; cbn; lia).
      change (l ++ LF :: r) with (l ++ [LF] ++ r). rewrite app_assoc, skipn_at. reflexivity.
    + destruct (strip_cr l) as [|x t] eqn:Es; [apply strip_cr_blank in Es; congruence|].
      pose proof (head_len_aux_pos _ _ _ _ _ H) as Hpos.
      rewrite (IH r (n + length l + 1) N f ltac:(lia) H ltac:(lia)).
      f_equal. replace (N - n) with (length (l ++ [LF]) + (N - (n + length l + 1))) by (rewrite app_length; cbn; lia).
      change (l ++ LF :: r) with (l ++ [LF] ++ r). rewrite app_assoc, <- skipn_skipn', skipn_at. reflexivity.
Qed.

(* ---------- parseTrailer over lines ---------- *)
Lemma trailer_loop_lines dn fuel P rem acc :
  tail_inv rem -> starts_spht (hd [] rem) = false -> length (join rem) < fuel ->
  exists res, trailer_loop fuel dn (P ++ join rem) (length P) acc = Ok res /\
    forall r' tf, res = PTOk r' tf -> head_len_aux true CurEmpty (join rem) (length P) = Some r'.
Proof.
  revert P rem acc; induction fuel as [|fuel IH]; intros P rem acc Hinv Hhd Hf; [lia|].
  destruct rem as [|l rem0]; [destruct Hinv as [H _]; congruence|]. cbn [hd] in Hhd.
  assert (Hl : no_lf l) by (destruct Hinv as (_ & _ & Hfa); now inversion Hfa).
  assert (Hrem0 : Forall no_lf rem0) by (destruct Hinv as (_ & _ & Hfa); now inversion Hfa).
  cbn [trailer_loop].
  destruct (scan_next_lines P l rem0 Hinv Hhd) as (nx & -> & Hnx). cbn [bind].
  destruct nx as [k v inner r'|[e|] r'].
  - destruct Hnx as (Hnb & used & rem' & E & Hu & Hi & Hs & Hr').
    subst rem0. apply Forall_app in Hrem0 as [Hused _].
    assert (EP : P ++ join (l :: used ++ rem') = (P ++ l ++ [LF] ++ join used) ++ join rem').
    { rewrite join_cons, join_app, <- !app_assoc. reflexivity. }
    assert (Er : r' = length (P ++ l ++ [LF] ++ join used)) by (rewrite !app_length; cbn [length]; lia).
    assert (Hrec : forall acc', exists res, trailer_loop fuel dn (P ++ join (l :: used ++ rem')) r' acc' = Ok res /\
              forall r2 tf, res = PTOk r2 tf -> head_len_aux true CurEmpty (join (l :: used ++ rem')) (length P) = Some r2).
    { intros acc'. rewrite EP, Er.
      destruct (IH (P ++ l ++ [LF] ++ join used) rem' acc' Hi Hs) as (res & Hres & Hpost).
      { rewrite join_cons, join_app, !app_length in Hf. cbn [length] in Hf. rewrite app_length in Hf. lia. }
      exists res. split; [exact Hres|]. intros r2 tf E2.
      rewrite head_len_lines_skip by assumption.
      rewrite head_len_lines_used by assumption.
      rewrite <- (Hpost _ _ E2). f_equal. rewrite !app_length. cbn [length]. lia. }
    destruct (trimTrailingSpace k) as [|k0 kr]; [apply Hrec|].
    destruct (isBadTrailer_total (k0 :: kr)) as [bad ->]. cbn [bind].
    destruct bad; [eexists; split; [reflexivity|intros ? ? [=]]|].
    destruct (negb (validValue v)); [eexists; split; [reflexivity|intros ? ? [=]]|]. apply Hrec.
  - eexists. split; [reflexivity|]. intros ? ? [=].
  - destruct Hnx as [Hb ->]. eexists. split; [reflexivity|]. intros r2 tf [= <- _].
    now apply head_len_lines_stop.
Qed.

Lemma parse_trailer_head_len dn w n tf : parse_trailer dn w = Ok (PTOk n tf) -> head_len_aux true CurEmpty w 0 = Some n.
Proof.
  unfold parse_trailer. destruct (scan_init_spec w 0 (or_introl eq_refl)) as (ir & -> & Hir). cbn [bind].
  destruct ir as [| | | |b]; try discriminate.
  - intros [= <- _]. now apply crlf_prefix_head_len.
  - destruct Hir as (q & z & c & t & Eb & Ew & Ec & Hc). intros H.
    destruct (block_lines_lf q) as (ls & Els & Hinv). rewrite <- Eb in Els.
    pose proof (hd_ok_first b ls c t Els Ec Hc) as Hhd.
    destruct (trailer_loop_lines dn (S (length b)) [] ls [] Hinv Hhd) as (res & Hres & Hpost).
    { rewrite <- Els. lia. }
    cbn [app length] in Hres. rewrite <- Els in Hres. rewrite Hres in H. injection H as ->.
    specialize (Hpost _ _ eq_refl). cbn [length] in Hpost. rewrite <- Els in Hpost.
    rewrite Ew. now apply head_len_aux_app.
Qed.

(* C01_trailer_end_is_rfc: where header.ReadTrailer stops, the RFC's trailer-section CRLF ends *)
Theorem read_trailer_rfc dn bsize r rest tf : read_trailer dn bsize r = TrDone rest tf ->
  trailer_section (S (length r)) r = Some rest.
Proof.
  unfold read_trailer. destruct r as [|x r0]; [discriminate|]. set (r := x :: r0).
  destruct (parse_trailer dn (firstn bsize r)) as [[n tf'| |]| |] eqn:Ep; try discriminate.
  - intros [= <- _]. apply parse_trailer_head_len in Ep.
    pose proof (head_len_aux_app _ _ _ _ _ (skipn bsize r) Ep) as H. rewrite firstn_skipn in H.
    rewrite (trailer_section_head_len (length r) r 0 n (S (length r)) (Nat.le_refl _) H (Nat.lt_succ_diag_r _)).
    now rewrite Nat.sub_0_r.
  - match goal with |- context [if ?c then _ else _] => destruct c end; discriminate.
Qed.

(* ---------------------------------------------------------------- part 2 *)
(* ================= the scanner's output, exactly, over a block seen as lines ================= *)
Definition cont_piece (u : bytes) : bytes := SP :: trim (strip_cr (drop_while is_sp_ht u)).
Definition group_kv (l : bytes) (used : list bytes) : bytes := trim (strip_cr l) ++ concat (map cont_piece used).

Lemma cont_loop_exact fuel P rem mline :
  tail_inv rem -> length rem < fuel ->
  exists used rem',
    rem = used ++ rem' /\ Forall (fun l => starts_spht l = true) used /\
    tail_inv rem' /\ starts_spht (hd [] rem') = false /\
    cont_loop fuel (P ++ join rem) (length P) mline =
      Ok (mline ++ concat (map cont_piece used), length P + length (join used)).
Proof.
  revert P rem mline; induction fuel as [|fuel IH]; intros P rem mline Hinv Hf; [lia|].
  destruct rem as [|l rem]; [destruct Hinv as [H _]; congruence|].
  cbn [cont_loop]. rewrite join_cons. rewrite skipSpace_lines. cbn [bind].
  rewrite take_while_nil_iff, negb_involutive.
  destruct (starts_spht l) eqn:Es.
  - assert (Hne : l <> [CR]) by (intros ->; discriminate).
    pose proof (tail_inv_tail _ _ Hinv Hne) as Hinv'.
    destruct Hinv as (_ & _ & Hfa). inversion Hfa as [|? ? Hl Hfa']; subst.
    pose proof (take_drop is_sp_ht l) as Etd.
    assert (Hrl : readLine (P ++ l ++ LF :: join rem) (length P + length (take_while is_sp_ht l)) =
                  Ok (strip_cr (drop_while is_sp_ht l), length P + length l + 1)).
    { rewrite <- Etd at 1. rewrite <- app_assoc, app_assoc.
      replace (length P + length (take_while is_sp_ht l)) with (length (P ++ take_while is_sp_ht l)) by (rewrite app_length; reflexivity).
      rewrite readLine_lines.
      - f_equal. f_equal. rewrite app_length. rewrite <- Etd at 3. rewrite app_length. lia.
      - apply (no_lf_app_r (take_while is_sp_ht l)). now rewrite Etd. }
    rewrite Hrl. cbn [bind].
    replace (P ++ l ++ LF :: join rem) with ((P ++ l ++ [LF]) ++ join rem) by (rewrite <- !app_assoc; reflexivity).
    replace (length P + length l + 1) with (length (P ++ l ++ [LF])) by (rewrite !app_length; cbn; lia).
    cbn [length] in Hf.
    destruct (IH (P ++ l ++ [LF]) rem (mline ++ [SP] ++ trim (strip_cr (drop_while is_sp_ht l))) Hinv' ltac:(lia))
      as (used & rem' & E & Hu & Hi & Hs & Hc).
    exists (l :: used), rem'. rewrite Hc. subst rem.
    split; [reflexivity|]. split; [constructor; assumption|]. split; [exact Hi|]. split; [exact Hs|].
    f_equal. f_equal.
    + cbn [map concat]. unfold cont_piece at 2. rewrite <- !app_assoc. reflexivity.
    + rewrite join_cons. rewrite !app_length. cbn [length]. lia.
  - exists [], (l :: rem). cbn [app hd join concat map length].
    split; [reflexivity|]. split; [constructor|]. split; [exact Hinv|]. split; [exact Es|].
    rewrite (take_while_not_start l Es). cbn [length]. now rewrite app_nil_r.
Qed.

(* one call of headerScanner.next on a non-blank first line l followed by the lines rem *)
Lemma scan_next_exact P l rem :
  tail_inv (l :: rem) -> starts_spht l = false ->
  exists res, scan_next (P ++ join (l :: rem)) (length P) = Ok res /\
    match res with
    | NStop None r' => blank_line l = true /\ r' = length P + length l + 1
    | NStop (Some _) _ => True
    | NKV k v inner r' =>
        blank_line l = false /\
        exists used rem' colon,
          rem = used ++ rem' /\ Forall (fun l => starts_spht l = true) used /\
          tail_inv rem' /\ starts_spht (hd [] rem') = false /\
          r' = length P + length l + 1 + length (join used) /\
          index_byte (strip_cr l) COLON = Some colon /\
          k = firstn colon (group_kv l used) /\
          v = drop_while is_sp_ht (skipn (colon + 1) (group_kv l used)) /\
          isValidHeaderKey k = (true, inner)
    end.
Proof.
  intros Hinv Hst. unfold scan_next, readContinuedLineSlice. rewrite join_cons.
  assert (Hl : no_lf l) by (destruct Hinv as (_ & _ & Hf); now inversion Hf).
  rewrite readLine_lines by exact Hl. cbn [bind].
  destruct (strip_cr l) as [|x line'] eqn:Es.
  - cbn [bind]. eexists. split; [reflexivity|]. split; [now apply strip_cr_blank|reflexivity].
  - assert (Hnb : blank_line l = false).
    { destruct (blank_line l) eqn:Eb; [|reflexivity]. apply strip_cr_blank in Eb. congruence. }
    destruct (index_byte (x :: line') COLON) as [colon|] eqn:Ec.
    2:{ cbn [bind]. eexists. split; [reflexivity|exact I]. }
    assert (Hne : l <> [CR]) by (intros ->; discriminate).
    pose proof (tail_inv_tail _ _ Hinv Hne) as Hinv'.
    destruct rem as [|l2 rem2]; [destruct Hinv' as [H _]; congruence|].
    set (b := P ++ l ++ LF :: join (l2 :: rem2)).
    set (r1 := length P + length l + 1).
    assert (Eb : b = (P ++ l ++ [LF]) ++ join (l2 :: rem2)) by (unfold b; rewrite <- !app_assoc; reflexivity).
    assert (Er1 : r1 = length (P ++ l ++ [LF])) by (unfold r1; rewrite !app_length; cbn; lia).
    destruct (strip_cr_head _ _ _ Es) as [t' El].
    assert (Hx : is_sp_ht x = false) by (subst l; exact Hst).
    pose proof (colon_in_trim _ x line' colon eq_refl Hx Ec) as Hlt.
    destruct (cont_loop_exact (S (length b)) (P ++ l ++ [LF]) (l2 :: rem2) (trim (x :: line')) Hinv')
      as (used & rem' & E & Hu & Hi & Hs & Hc).
    { rewrite Eb, app_length. pose proof (join_length_ge (l2 :: rem2)). lia. }
    rewrite <- Eb, <- Er1 in Hc.
    (* the early-return test *)
    assert (Hearly_or_cont :
      exists used1 rem1 r', l2 :: rem2 = used1 ++ rem1 /\ Forall (fun l => starts_spht l = true) used1 /\ tail_inv rem1 /\
        starts_spht (hd [] rem1) = false /\ r' = r1 + length (join used1) /\
        (do early <- (if 1 <? length b - r1
                      then do peek <- slice b r1 (r1 + 2);
                           Ok (match peek with c :: _ => isASCIILetter c || N.eqb c LF | [] => false end || beq peek strCRLF)
                      else Ok false);
         if early then Ok (CLLine (trim (x :: line')) colon r1)
         else do mr <- cont_loop (S (length b)) b r1 (trim (x :: line')); let '(mline, r2) := mr in Ok (CLLine mline colon r2))
        = Ok (CLLine (trim (x :: line') ++ concat (map cont_piece used1)) colon r')).
    { destruct (1 <? length b - r1) eqn:Eg.
      - apply Nat.ltb_lt in Eg.
        rewrite slice_ok by lia. replace (r1 + 2 - r1) with 2 by lia. cbn [bind].
        assert (Esk : skipn r1 b = l2 ++ LF :: join rem2).
        { rewrite Eb, Er1, skipn_at. apply join_cons. }
        rewrite Esk.
        destruct (l2 ++ LF :: join rem2) as [|c T1] eqn:ET; [destruct l2; discriminate|].
        change (firstn 2 (c :: T1)) with (c :: firstn 1 T1).
        destruct ((isASCIILetter c || N.eqb c LF) || beq (c :: firstn 1 T1) strCRLF) eqn:Eearly.
        + exists [], (l2 :: rem2), r1. cbn [app map concat join length]. rewrite app_nil_r.
          split; [reflexivity|]. split; [constructor|]. split; [exact Hinv'|]. split; [|split; [lia|reflexivity]].
          apply early_not_space in Eearly.
          destruct l2 as [|c2 l2']; [reflexivity|]. cbn in ET. injection ET as -> _. exact Eearly.
        + rewrite Hc. cbn [bind]. exists used, rem', (r1 + length (join used)).
          split; [exact E|]. split; [exact Hu|]. split; [exact Hi|]. split; [exact Hs|]. split; reflexivity.
      - rewrite Hc. cbn [bind]. exists used, rem', (r1 + length (join used)).
        split; [exact E|]. split; [exact Hu|]. split; [exact Hi|]. split; [exact Hs|]. split; reflexivity. }
    destruct Hearly_or_cont as (used1 & rem1 & r' & E1 & Hu1 & Hi1 & Hs1 & Hr1 & Hrun).
    fold b. fold r1. rewrite Hrun. cbn [bind].
    assert (Ekv : trim (x :: line') ++ concat (map cont_piece used1) = group_kv l used1) by (unfold group_kv; now rewrite Es).
    rewrite Ekv.
    assert (Hkv : colon < length (group_kv l used1)) by (rewrite <- Ekv, app_length; lia).
    destruct (group_kv l used1) as [|k0 kv'] eqn:Eg; [cbn in Hkv; lia|].
    rewrite slice_to by lia. cbn [bind]. rewrite slice_from by lia. cbn [bind].
    destruct (isValidHeaderKey (firstn colon (k0 :: kv'))) as [valid inner] eqn:Ev.
    destruct valid; cbn [negb].
    + eexists. split; [reflexivity|]. split; [exact Hnb|]. exists used1, rem1, colon. rewrite Eg.
      split; [exact E1|]. split; [exact Hu1|]. split; [exact Hi1|]. split; [exact Hs1|].
      split; [unfold r1 in Hr1; exact Hr1|]. split; [reflexivity|]. split; [reflexivity|]. split; [reflexivity|exact Ev].
    + eexists. split; [reflexivity|exact I].
Qed.

(* ---------------------------------------------------------------- part 3 *)
(* a header block as groups: a field line and its continuation lines (raw lines, without their LF) *)
Definition group := (bytes * list bytes)%type.
Definition flat (gs : list group) : list bytes := concat (map (fun g => fst g :: snd g) gs).
Definition colon_of (l : bytes) : nat := match index_byte (strip_cr l) COLON with Some c => c | None => 0 end.
Definition g_key (g : group) : bytes := firstn (colon_of (fst g)) (group_kv (fst g) (snd g)).
Definition g_val (g : group) : bytes :=
  drop_while is_sp_ht (skipn (colon_of (fst g) + 1) (group_kv (fst g) (snd g))).
Definition g_field (g : group) : kv3 := (g_key g, g_val g, snd (isValidHeaderKey (g_key g))).
Definition group_wf (g : group) : Prop :=
  blank_line (fst g) = false /\ starts_spht (fst g) = false /\
  index_byte (strip_cr (fst g)) COLON <> None /\
  Forall (fun u => starts_spht u = true) (snd g) /\ fst (isValidHeaderKey (g_key g)) = true.

Lemma flat_cons g gs : flat (g :: gs) = fst g :: snd g ++ flat gs.
Proof. reflexivity. Qed.

(* everything the scanner yields from a block of lines, up to the blank line that stops it *)
Lemma scanned_groups b r l e r' : Scanned b r l e r' -> e = None ->
  forall P rem, b = P ++ join rem -> r = length P -> tail_inv rem -> starts_spht (hd [] rem) = false ->
  exists gs bl rem', rem = flat gs ++ bl :: rem' /\ blank_line bl = true /\ Forall group_wf gs /\
    l = map g_field gs /\ r' = length P + length (join (flat gs)) + length bl + 1.
Proof.
  induction 1 as [r e r1 Hn|r k v inner r1 l e r2 Hn Hsc IH]; intros He P rem Eb Er Hinv Hhd; subst b r e.
  - destruct rem as [|l0 rem0]; [destruct Hinv as [H _]; congruence|]. cbn [hd] in Hhd.
    destruct (scan_next_exact P l0 rem0 Hinv Hhd) as (res & Hres & Hpost). rewrite Hres in Hn. injection Hn as ->.
    destruct Hpost as [Hb ->]. exists [], l0, rem0. cbn. repeat split; auto; lia.
  - destruct rem as [|l0 rem0]; [destruct Hinv as [H _]; congruence|]. cbn [hd] in Hhd.
    destruct (scan_next_exact P l0 rem0 Hinv Hhd) as (res & Hres & Hpost). rewrite Hres in Hn. injection Hn as ->.
    destruct Hpost as (Hnb & used & rem' & colon & E & Hu & Hi & Hs & Hr1 & Hcol & Hk & Hv & Hvalid).
    subst rem0.
    assert (EP : P ++ join (l0 :: used ++ rem') = (P ++ l0 ++ [LF] ++ join used) ++ join rem').
    { rewrite join_cons, join_app, <- !app_assoc. reflexivity. }
    assert (Er : r1 = length (P ++ l0 ++ [LF] ++ join used)) by (rewrite !app_length; cbn [length]; lia).
    destruct (IH eq_refl _ _ EP Er Hi Hs) as (gs & bl & rem'' & E2 & Hbl & Hwf & Hl & Hr2).
    set (g := (l0, used) : group).
    assert (Hcolon : colon_of l0 = colon) by (unfold colon_of; now rewrite Hcol).
    assert (Hgk : g_key g = k) by (unfold g_key, g; cbn [fst snd]; now rewrite Hcolon).
    exists (g :: gs), bl, rem''. rewrite flat_cons. cbn [fst snd g].
    split; [rewrite E2; cbn [app]; now rewrite <- app_assoc|]. split; [exact Hbl|]. split.
    + constructor; [|exact Hwf]. unfold group_wf. cbn [fst snd g]. fold g. rewrite Hgk, Hvalid.
      repeat split; auto. congruence.
    + split.
      * cbn [map]. f_equal; [|exact Hl]. unfold g_field. fold g. rewrite Hgk, Hvalid. cbn [snd].
        unfold g_val, g. cbn [fst snd]. rewrite Hcolon. now rewrite Hv.
      * rewrite Hr2. rewrite join_cons, join_app. rewrite !app_length. cbn [length]. rewrite ?app_length. cbn [length]. lia.
Qed.

(* ---------------------------------------------------------------- part 4 *)
(* ================= the RFC's field-line reader over the same groups ================= *)
Definition s_name (g : group) : bytes := firstn (colon_of (fst g)) (strip_cr (fst g)).
Definition s_val0 (g : group) : bytes := trim_ows (skipn (colon_of (fst g) + 1) (strip_cr (fst g))).
Definition s_step (v : bytes) (u : bytes) : bytes := trim_ows (v ++ 32%N :: trim_ows (strip_cr u)).
Definition s_val (g : group) : bytes := fold_left s_step (snd g) (s_val0 g).
Definition s_field (g : group) : field := (s_name g, s_val g).

Definition group_spec_ok (g : group) : Prop :=
  blank_line (fst g) = false /\ starts_spht (fst g) = false /\
  index_byte (strip_cr (fst g)) COLON <> None /\
  Forall (fun u => starts_spht u = true) (snd g) /\
  s_name g <> [] /\ ends_with_ows (s_name g) = false.

Lemma split_at_index c l i : index_byte l c = Some i -> split_at c l = (firstn i l, Some (skipn (i + 1) l)).
Proof.
  revert i; induction l as [|x l IH]; intros i; cbn [index_byte split_at]; [discriminate|].
  destruct (N.eqb x c); [intros [= <-]; reflexivity|].
  destruct (index_byte l c) as [j|]; [|discriminate]. cbn. intros [= <-]. rewrite (IH j eq_refl). reflexivity.
Qed.

Lemma is_ows_spht c : Rfc9112.is_ows c = is_sp_ht c.
Proof. reflexivity. Qed.

Lemma strip_cr_starts l : starts_spht l = true -> exists c t, strip_cr l = c :: t /\ is_sp_ht c = true.
Proof.
  destruct l as [|c l]; [discriminate|]. cbn [starts_spht]. intros Hc.
  destruct l as [|d l].
  - exists c, []. split; [|exact Hc]. unfold strip_cr. cbn [last].
    destruct (N.eqb_spec c CR) as [->|]; [discriminate|reflexivity].
  - rewrite strip_cr_cons by discriminate. eauto.
Qed.

Lemma strip_cr_nostart l : blank_line l = false -> starts_spht l = false ->
  exists c t, strip_cr l = c :: t /\ is_sp_ht c = false.
Proof.
  intros Hb Hs. destruct (strip_cr l) as [|c t] eqn:E; [apply strip_cr_blank in E; congruence|].
  destruct (strip_cr_head _ _ _ E) as [t' ->]. exists c, t. split; [reflexivity|exact Hs].
Qed.

(* the continuation lines of one group, acc = the field under construction first *)
Lemma field_lines_conts : forall used fuel n v acc rest,
  Forall (fun u => starts_spht u = true) used -> Forall no_lf used ->
  field_lines (length used + fuel) ((n, v) :: acc) (join used ++ rest) =
  field_lines fuel ((n, fold_left s_step used v) :: acc) rest.
Proof.
  induction used as [|u used IH]; intros fuel n v acc rest Hu Hn; [reflexivity|].
  inversion Hu; subst. inversion Hn; subst.
  cbn [length plus field_lines]. rewrite join_cons, <- app_assoc. cbn [app].
  rewrite take_line_line by assumption.
  destruct (strip_cr_starts u H1) as (c & t & Es & Hc). rewrite Es, is_ows_spht, Hc.
  rewrite IH by assumption. cbn [fold_left]. replace (s_step v u) with (trim_ows (v ++ 32%N :: trim_ows (c :: t))) by (unfold s_step; now rewrite Es). reflexivity.
Qed.

Lemma field_lines_groups : forall gs acc fuel bl rem' z,
  Forall group_spec_ok gs -> Forall no_lf (flat gs) -> no_lf bl -> blank_line bl = true ->
  field_lines (length (flat gs) + S fuel) acc (join (flat gs ++ bl :: rem') ++ z) =
  FsOk (rev acc ++ map s_field gs) (join rem' ++ z).
Proof.
  induction gs as [|[l used] gs IH]; intros acc fuel bl rem' z Hok Hnl Hbl Hb.
  - cbn [flat map concat length plus app field_lines]. rewrite join_cons, <- app_assoc. cbn [app].
    rewrite take_line_line by exact Hbl. apply strip_cr_blank in Hb. rewrite Hb. now rewrite app_nil_r.
  - inversion Hok as [|? ? Hg Hok']; subst. destruct Hg as (Hnb & Hns & Hcol & Hu & Hne & Hnt). cbn [fst snd] in *.
    rewrite flat_cons in *. cbn [fst snd] in *. inversion Hnl as [|? ? Hl Hnl']; subst.
    apply Forall_app in Hnl' as [Hnu Hng].
    cbn [length plus app field_lines]. rewrite join_cons, <- app_assoc. cbn [app].
    rewrite take_line_line by exact Hl.
    destruct (strip_cr_nostart l Hnb Hns) as (c & t & Es & Hc). rewrite Es, is_ows_spht, Hc.
    destruct (index_byte (strip_cr l) COLON) as [colon|] eqn:Ec; [|congruence].
    rewrite <- Es. change (split_at 58 (strip_cr l)) with (split_at COLON (strip_cr l)). rewrite (split_at_index _ _ _ Ec).
    assert (Hco : colon_of l = colon) by (unfold colon_of; now rewrite Ec).
    unfold s_name in Hne, Hnt. cbn [fst] in Hne, Hnt. rewrite Hco in Hne, Hnt.
    rewrite Hnt. destruct (firstn colon (strip_cr l)) as [|n0 nt] eqn:En; [congruence|]. cbn [orb].
    assert (Ej : join ((used ++ flat gs) ++ bl :: rem') ++ z = join used ++ (join (flat gs ++ bl :: rem') ++ z)).
    { rewrite <- (app_assoc used (flat gs)). rewrite join_app. rewrite <- (app_assoc (join used)). reflexivity. }
    rewrite Ej.
    replace (length (used ++ flat gs) + S fuel) with (length used + (length (flat gs) + S fuel)) by (rewrite app_length; lia).
    rewrite field_lines_conts by assumption.
    rewrite IH by assumption. cbn [rev map]. rewrite <- app_assoc. cbn [app].
    f_equal. f_equal. unfold s_field, s_name, s_val, s_val0. cbn [fst snd]. rewrite Hco, En. reflexivity.
Qed.

(* ---------------------------------------------------------------- part 5 *)
(* ================= whitespace trimming ================= *)
Notation dl := (drop_while is_sp_ht).
Notation dr := (drop_while_right is_sp_ht).
Definition allws (b : bytes) : bool := forallb is_sp_ht b.
Definition nows (b : bytes) : bool := forallb (fun c => negb (is_sp_ht c)) b.

Lemma drop_ows_dl b : drop_ows b = dl b.
Proof. induction b as [|c b IH]; [reflexivity|]. cbn. rewrite is_ows_spht, IH. reflexivity. Qed.
Lemma trim_ows_trim b : trim_ows b = trim b.
Proof. unfold trim_ows, trim, drop_while_right. now rewrite !drop_ows_dl. Qed.

Lemma dl_app_allws a b : allws a = true -> dl (a ++ b) = dl b.
Proof. induction a as [|c a IH]; cbn; [reflexivity|]. destruct (is_sp_ht c); [exact IH|discriminate]. Qed.
Lemma dl_app_not a b : dl a <> [] -> dl (a ++ b) = dl a ++ b.
Proof. induction a as [|c a IH]; cbn; [congruence|]. destruct (is_sp_ht c); [exact IH|reflexivity]. Qed.
Lemma dl_nil_allws a : dl a = [] <-> allws a = true.
Proof. induction a as [|c a IH]; cbn; [tauto|]. destruct (is_sp_ht c); [exact IH|split; discriminate]. Qed.
Lemma allws_app a b : allws (a ++ b) = allws a && allws b.
Proof. apply forallb_app. Qed.
Lemma allws_rev a : allws (rev a) = allws a.
Proof. unfold allws. induction a as [|c a IH]; [reflexivity|]. cbn. rewrite forallb_app, IH. cbn. rewrite andb_true_r. apply andb_comm. Qed.
Lemma dr_nil_allws a : dr a = [] <-> allws a = true.
Proof.
  unfold drop_while_right. rewrite <- allws_rev, <- dl_nil_allws. split; intros H.
  - apply (f_equal (@rev N)) in H. now rewrite rev_involutive in H.
  - now rewrite H.
Qed.
Lemma dr_app_allws a t : allws t = true -> dr (a ++ t) = dr a.
Proof. intros H. unfold drop_while_right. rewrite rev_app_distr, dl_app_allws; [reflexivity|now rewrite allws_rev]. Qed.
Lemma dr_app_not a b : dr b <> [] -> dr (a ++ b) = a ++ dr b.
Proof.
  intros H. unfold drop_while_right in *. rewrite rev_app_distr, dl_app_not, rev_app_distr, rev_involutive; [reflexivity|].
  intros E. apply H. now rewrite E.
Qed.
Lemma dl_decomp a : exists t, allws t = true /\ a = t ++ dl a.
Proof.
  induction a as [|c a (t & Ht & E)]; [exists []; auto|]. cbn. destruct (is_sp_ht c) eqn:Ec.
  - exists (c :: t). split; [unfold allws in *; cbn; now rewrite Ec, Ht|]. cbn. now rewrite <- E.
  - exists []. auto.
Qed.
Lemma dr_decomp a : exists t, allws t = true /\ a = dr a ++ t.
Proof.
  destruct (dl_decomp (rev a)) as (t & Ht & E). exists (rev t). rewrite allws_rev. split; [exact Ht|].
  unfold drop_while_right. rewrite <- rev_app_distr, <- E. now rewrite rev_involutive.
Qed.
Lemma dl_dl a : dl (dl a) = dl a.
Proof. induction a as [|c a IH]; [reflexivity|]. cbn. destruct (is_sp_ht c) eqn:E; [exact IH|]. cbn. now rewrite E. Qed.
Lemma dr_dr a : dr (dr a) = dr a.
Proof. unfold drop_while_right. now rewrite rev_involutive, dl_dl. Qed.
Lemma dl_head a c t : dl a = c :: t -> is_sp_ht c = false.
Proof. induction a as [|x a IH]; cbn; [discriminate|]. destruct (is_sp_ht x) eqn:E; [exact IH|]. now intros [= <- _]. Qed.

(* a string without trailing whitespace keeps that property when leading whitespace is dropped *)
Lemma dr_dl_notrail y : dr y = y -> dr (dl y) = dl y.
Proof.
  intros H. destruct (dl y) as [|c t] eqn:E; [reflexivity|]. rewrite <- E.
  destruct (dl_decomp y) as (tk & Htk & Ey).
  assert (Hne : dr (dl y) <> []).
  { intros Hn. apply dr_nil_allws in Hn. apply dl_nil_allws in Hn. rewrite dl_dl in Hn. congruence. }
  rewrite Ey in H at 1. rewrite dr_app_not in H by exact Hne. rewrite Ey in H at 2. now apply app_inv_head in H.
Qed.
Lemma trim_spec x : trim x = dr (dl x).
Proof. reflexivity. Qed.
Lemma trim_fix x : dl (trim x) = trim x /\ dr (trim x) = trim x.
Proof.
  rewrite trim_spec. split; [|apply dr_dr].
  destruct (dr (dl x)) as [|c t] eqn:E; [reflexivity|].
  destruct (dr_decomp (dl x)) as (tl & Htl & Ed). rewrite E in Ed. cbn [app] in Ed.
  apply dl_head in Ed. cbn. now rewrite Ed.
Qed.
Lemma trim_app_allws a t : allws t = true -> trim (a ++ t) = trim a.
Proof.
  intros Ht. rewrite !trim_spec. destruct (dl a) as [|c r] eqn:E.
  - apply dl_nil_allws in E. rewrite dl_app_allws by exact E.
    assert (Hd : dl t = []) by now apply dl_nil_allws. now rewrite Hd.
  - rewrite dl_app_not by congruence. rewrite E. now apply dr_app_allws.
Qed.

Lemma nows_app a b : nows (a ++ b) = nows a && nows b.
Proof. apply forallb_app. Qed.

(* ================= one field: the scanner's value against the RFC's ================= *)
Section Value.
Variables (ps : bytes -> bytes).                (* the trimmed content of a continuation line *)
Hypothesis ps_trim : forall u, dl (ps u) = ps u /\ dr (ps u) = ps u.

Definition Yv (y0 : bytes) (used : list bytes) : bytes := y0 ++ concat (map (fun u => SP :: ps u) used).
Definition Vv (v0 : bytes) (used : list bytes) : bytes := fold_left (fun v u => trim (v ++ SP :: ps u)) used v0.

Lemma Vv_allws : forall used y v, (allws y = true -> v = []) -> allws (Yv y used) = true -> Vv v used = [].
Proof.
  induction used as [|u used IH]; intros y v Hyv Hall; unfold Yv, Vv in *; cbn [map concat fold_left] in *.
  - rewrite app_nil_r in Hall. auto.
  - apply (IH (y ++ SP :: ps u)).
    + intros H. rewrite allws_app in H. apply andb_true_iff in H as [H1 H2]. rewrite (Hyv H1).
      cbn in H2. assert (Hp : ps u = []). { destruct (ps_trim u) as [<- _]. now apply dl_nil_allws. }
      rewrite Hp. reflexivity.
    + rewrite <- app_assoc. exact Hall.
Qed.

Lemma Vv_nows y0 v0 used : dr y0 = y0 -> v0 = trim y0 -> nows (dl (Yv y0 used)) = true -> Vv v0 used = dl (Yv y0 used).
Proof.
  intros Hy Hv Hn. destruct used as [|u0 used0] using rev_ind.
  - unfold Yv, Vv in *. cbn in *. rewrite app_nil_r in *. rewrite Hv, trim_spec. now apply dr_dl_notrail.
  - clear IHused0. unfold Yv, Vv in *. rewrite map_app, concat_app, fold_left_app in *. cbn [map concat fold_left] in *.
    rewrite app_nil_r, app_assoc in *.
    set (Y' := y0 ++ concat (map (fun u => SP :: ps u) used0)) in *.
    destruct (allws Y') eqn:Ea.
    + assert (HV : fold_left (fun v u => trim (v ++ SP :: ps u)) used0 v0 = []).
      { apply (Vv_allws used0 y0 v0); [|exact Ea]. intros H. rewrite Hv, trim_spec.
        apply dl_nil_allws in H. now rewrite H. }
      rewrite HV. cbn [app]. rewrite dl_app_allws by exact Ea.
      destruct (ps_trim u0) as [H1 H2]. rewrite trim_spec. change (dl (SP :: ps u0)) with (dl (ps u0)). now rewrite H1, H2.
    + exfalso. assert (Hd : dl Y' <> []) by (intros H; apply dl_nil_allws in H; congruence).
      rewrite dl_app_not in Hn by exact Hd. rewrite nows_app in Hn. cbn in Hn. rewrite andb_false_r in Hn. discriminate.
Qed.
End Value.

(* ---------------------------------------------------------------- part 6 *)
Definition ps (u : bytes) : bytes := trim (strip_cr u).
Lemma ps_trim u : dl (ps u) = ps u /\ dr (ps u) = ps u.
Proof. apply trim_fix. Qed.

Lemma last_app_ne {A} (a b : list A) d : b <> [] -> last (a ++ b) d = last b d.
Proof. intros Hb. destruct (exists_last Hb) as (b' & z & ->). now rewrite app_assoc, !last_last. Qed.
Lemma removelast_app_ne {A} (a b : list A) : b <> [] -> removelast (a ++ b) = a ++ removelast b.
Proof. apply removelast_app. Qed.

Lemma strip_cr_app a d : d <> [] -> strip_cr (a ++ d) = a ++ strip_cr d.
Proof.
  intros Hd. unfold strip_cr. destruct (a ++ d) eqn:E; [destruct a; [contradiction|discriminate]|]. rewrite <- E.
  destruct d as [|y d']; [contradiction|]. rewrite last_app_ne by discriminate.
  destruct (N.eqb (last (y :: d') 0%N) CR); [now rewrite removelast_app_ne by discriminate|reflexivity].
Qed.

Lemma allws_last_not_cr u : allws u = true -> u <> [] -> N.eqb (last u 0%N) CR = false.
Proof.
  induction u as [|c u IH]; [congruence|]. intros H _. unfold allws in *. cbn in H. apply andb_true_iff in H as [Hc Hu].
  destruct u as [|d u']; [cbn; destruct (N.eqb_spec c CR) as [->|]; [discriminate|reflexivity]|].
  change (last (c :: d :: u') 0%N) with (last (d :: u') 0%N). apply IH; [exact Hu|discriminate].
Qed.

(* the scanner reads a continuation line after skipping its leading whitespace; the RFC reader trims the whole line *)
Lemma pc_ps u : trim (strip_cr (dl u)) = ps u.
Proof.
  unfold ps. destruct (dl_decomp u) as (tk & Htk & E). destruct (dl u) as [|c d] eqn:Ed.
  - rewrite app_nil_r in E. subst tk. destruct u as [|x u']; [reflexivity|].
    assert (Hsu : strip_cr (x :: u') = x :: u') by (unfold strip_cr; now rewrite (allws_last_not_cr _ Htk) by discriminate).
    rewrite Hsu. rewrite !trim_spec. apply dl_nil_allws in Htk. rewrite Htk. reflexivity.
  - rewrite E. rewrite strip_cr_app by discriminate. rewrite !trim_spec.
    now rewrite (dl_app_allws tk) by exact Htk.
Qed.

Lemma dr_suffix a b : dr (a ++ b) = a ++ b -> dr b = b.
Proof.
  intros H. destruct b as [|c b']; [reflexivity|]. destruct (dr (c :: b')) as [|x t] eqn:E.
  - apply dr_nil_allws in E. rewrite dr_app_allws in H by exact E.
    destruct (dr_decomp a) as (t & _ & Ea). apply (f_equal (@length N)) in H.
    rewrite Ea in H at 2. rewrite !app_length in H. cbn in H. lia.
  - assert (Hne : dr (c :: b') <> []) by (rewrite E; discriminate).
    rewrite (dr_app_not a (c :: b') Hne) in H. apply app_inv_head in H. rewrite <- E. exact H.
Qed.

Lemma s_fold_Vv used : forall v, fold_left s_step used v = Vv ps v used.
Proof.
  induction used as [|u us IH]; intros v; [reflexivity|]. unfold Vv in *. cbn [fold_left]. rewrite IH. f_equal.
  unfold s_step, ps. now rewrite !trim_ows_trim.
Qed.

Section Group.
Variable g : group.
Hypothesis Hwf : group_wf g.
Local Notation l := (fst g). Local Notation used := (snd g). Local Notation sl := (strip_cr (fst g)). Local Notation colon := (colon_of (fst g)).

Lemma grp_facts : index_byte sl COLON = Some colon /\ colon < length (trim sl) /\ dl sl = sl /\
  exists tail, allws tail = true /\ sl = trim sl ++ tail.
Proof.
  destruct Hwf as (Hnb & Hns & Hcol & Hu & Hv).
  destruct (strip_cr_nostart l Hnb Hns) as (c & t & Es & Hc).
  assert (Hi : index_byte sl COLON = Some colon).
  { unfold colon_of. destruct (index_byte sl COLON); [reflexivity|contradiction]. }
  split; [exact Hi|]. split.
  - eapply colon_in_trim; [exact Es|exact Hc|exact Hi].
  - assert (Hd : dl sl = sl) by (rewrite Es; cbn; now rewrite Hc). split; [exact Hd|].
    rewrite trim_spec, Hd. destruct (dr_decomp sl) as (t0 & Ht & E). eauto.
Qed.

Theorem group_name : g_key g = s_name g.
Proof.
  destruct grp_facts as (Hi & Hlt & _ & tail & _ & E).
  unfold g_key, s_name, group_kv.
  rewrite firstn_app. replace (colon - length (trim sl)) with 0 by lia. cbn [firstn]. rewrite app_nil_r.
  rewrite E at 2. rewrite firstn_app. replace (colon - length (trim sl)) with 0 by lia. cbn [firstn]. now rewrite app_nil_r.
Qed.

Theorem group_value : nows (g_val g) = true -> s_val g = g_val g.
Proof.
  destruct grp_facts as (Hi & Hlt & Hd & tail & Htail & E).
  destruct Hwf as (_ & _ & _ & Hu & _).
  set (y0 := skipn (colon + 1) (trim sl)).
  assert (Hg : g_val g = dl (Yv ps y0 used)).
  { unfold g_val, group_kv, Yv. rewrite skipn_app.
    replace (colon + 1 - length (trim sl)) with 0 by lia. cbn [skipn]. f_equal. f_equal. f_equal.
    apply map_ext. intros u. unfold cont_piece. now rewrite pc_ps. }
  assert (Hs : s_val g = Vv ps (trim y0) used).
  { unfold s_val, Vv, s_val0.
    assert (Ev0 : trim_ows (skipn (colon + 1) sl) = trim y0).
    { rewrite trim_ows_trim. rewrite E at 1. rewrite skipn_app.
      replace (colon + 1 - length (trim sl)) with 0 by lia. cbn [skipn]. now apply trim_app_allws. }
    rewrite Ev0. apply s_fold_Vv. }
  intros Hn. rewrite Hs, Hg. rewrite Hg in Hn. apply (Vv_nows ps ps_trim); [|reflexivity|exact Hn].
  destruct (trim_fix sl) as [_ Hdr]. unfold y0.
  rewrite <- (firstn_skipn (colon + 1) (trim sl)) in Hdr. now apply dr_suffix in Hdr.
Qed.
End Group.

(* ---------------------------------------------------------------- part 7 *)
(* ================= which fields are Content-Length / Transfer-Encoding: the code and the RFC agree ================= *)
Definition key_byte (x : N) : bool := N.eqb x SP || validHeaderFieldByte x.

Lemma ivhk_bytes : forall a s i r, ivhk_loop a s i = (true, r) -> forallb key_byte a = true.
Proof.
  induction a as [|c a IH]; intros s i r; cbn [ivhk_loop forallb]; [reflexivity|].
  unfold key_byte at 1. destruct (N.eqb c SP); cbn [orb].
  - intros H. now rewrite (IH _ _ _ H).
  - destruct (validHeaderFieldByte c); cbn [negb]; [|discriminate]. intros H. now rewrite (IH _ _ _ H).
Qed.
Lemma valid_key_bytes k inner : isValidHeaderKey k = (true, inner) -> k <> [] /\ forallb key_byte k = true.
Proof. destruct k as [|c k]; [discriminate|]. intros H. split; [discriminate|]. eapply ivhk_bytes; exact H. Qed.

Definition name_chars : bytes := strContentLength ++ strTransferEncoding.
Lemma cic_byte x c : (x < 256)%N -> key_byte x = true -> In c name_chars ->
  N.eqb (N.lor x 32) (N.lor c 32) = N.eqb (Rfc9112.lower x) (Rfc9112.lower c).
Proof.
  intros Hx Hk Hc.
  pose proof (byte_forall (fun x => implb (key_byte x)
                (forallb (fun c => Bool.eqb (N.eqb (N.lor x 32) (N.lor c 32)) (N.eqb (Rfc9112.lower x) (Rfc9112.lower c))) name_chars))
                ltac:(vm_compute; reflexivity) x Hx) as H.
  cbv beta in H. rewrite Hk in H. cbn [implb] in H. rewrite forallb_forall in H. specialize (H c Hc). now apply Bool.eqb_prop in H.
Qed.

Lemma cic_ci_eq : forall a b, wf_bytes a -> forallb key_byte a = true -> incl b name_chars -> cic a b = ci_eq a b.
Proof.
  unfold ci_eq. induction a as [|x a IH]; intros [|y b] Hw Hk Hb; try reflexivity.
  apply Forall_cons_iff in Hw as [Hx Hw]. cbn [forallb] in Hk. apply andb_true_iff in Hk as [Hkx Hk].
  cbn [cic map beq]. rewrite (cic_byte x y Hx Hkx) by (apply Hb; now left).
  rewrite IH; auto. intros z Hz. apply Hb. now right.
Qed.

Lemma cic_first k t0 t : cic k (t0 :: t) = true -> first_lower k = N.lor t0 32.
Proof. destruct k as [|x k]; [discriminate|]. cbn. intros H. apply andb_true_iff in H as [H _]. now apply N.eqb_eq in H. Qed.

Lemma key_class cfg k inner : wf_bytes k -> isValidHeaderKey k = (true, inner) ->
  is_cl_key cfg k inner = ci_eq k name_content_length /\ is_te_key cfg k inner = ci_eq k name_transfer_encoding.
Proof.
  intros Hw Hv. destruct (valid_key_bytes _ _ Hv) as [_ Hkb].
  assert (Hcl : is_cl_key cfg k inner = cic k strContentLength).
  { unfold is_cl_key, key_norm, normalizeHeaderKeyValidated.
    destruct (disable_norm cfg || inner); rewrite ?nhk_cic, ?nhk_first by exact Hw;
      (destruct (cic k strContentLength) eqn:E; [|apply andb_false_r]);
      rewrite (cic_first _ _ _ E); reflexivity. }
  assert (Hte : is_te_key cfg k inner = cic k strTransferEncoding).
  { unfold is_te_key, key_norm, normalizeHeaderKeyValidated.
    destruct (disable_norm cfg || inner); rewrite ?nhk_cic, ?nhk_first by exact Hw;
      (destruct (cic k strTransferEncoding) eqn:E; [|apply andb_false_r]);
      rewrite (cic_first _ _ _ E); reflexivity. }
  rewrite Hcl, Hte. split.
  - rewrite cic_ci_eq; [reflexivity|exact Hw|exact Hkb|]. intros z Hz. unfold name_chars. apply in_or_app. now left.
  - rewrite cic_ci_eq; [reflexivity|exact Hw|exact Hkb|]. intros z Hz. unfold name_chars. apply in_or_app. now right.
Qed.

(* ---------------------------------------------------------------- part 8 *)
(* ================= what a successful run of parseHeaders' loop says about each field ================= *)
Definition field_ok (cfg : hcfg) (x : kv3) : Prop :=
  let '(k, val, inner) := x in
  trimTrailingSpace k = k /\ k <> [] /\
  (is_cl_key cfg k inner = true -> exists n, parseContentLength val = Some n) /\
  (is_te_key cfg k inner = true -> cic val strChunked = true \/ cic val strIdentity = true).

Lemma step_key_ok cfg v st k val inner st' :
  req_header_step cfg v st k val inner = Ok (StOk st') -> trimTrailingSpace k = k /\ k <> [].
Proof.
  unfold req_header_step.
  destruct (length (trimTrailingSpace k) =? length k) eqn:El; cbn [negb]; [|discriminate].
  apply Nat.eqb_eq in El. rewrite (trim_len_eq _ El). destruct k; [discriminate|]. intros _. split; [reflexivity|discriminate].
Qed.

Lemma steps_fields cfg v : disable_special cfg = false -> forall l st st',
  steps cfg v st l = Ok (StOk st') -> Forall (field_ok cfg) l.
Proof.
  intros Hds. induction l as [|[[k val] inner] l IH]; intros st st' H; [constructor|].
  cbn [steps] in H. destruct (req_header_step cfg v st k val inner) as [[st1|e]| |] eqn:Hs; cbn [bind] in H; try discriminate.
  constructor; [|eapply IH; exact H].
  destruct (step_key_ok _ _ _ _ _ _ _ Hs) as [H1 H2]. unfold field_ok. split; [exact H1|]. split; [exact H2|].
  destruct (step_framing _ _ _ _ _ _ _ Hds Hs) as
      [(Hc & Ht & _ & n & Hn & _) | [(Hc & Ht & _ & _ & Hp) | (Hc & Ht & _)]]; rewrite Hc, Ht; split; try discriminate; eauto.
  intros _. destruct Hp as [[Hx _]|(_ & Hx & _)]; auto.
Qed.

Lemma cic_letters_nows : forall a b, cic a b = true ->
  Forall (fun c => (97 <= N.lor c 32 <= 122)%N) b -> nows a = true.
Proof.
  induction a as [|x a IH]; intros [|y b] H Hb; try discriminate; [reflexivity|].
  cbn [cic] in H. apply andb_true_iff in H as [Hx H]. apply N.eqb_eq in Hx. inversion Hb as [|? ? Hy Hb']; subst.
  unfold nows in *. cbn [forallb]. rewrite (IH _ H Hb'), andb_true_r.
  unfold is_sp_ht. destruct (N.eqb_spec x SP) as [->|]; [cbn in Hx; lia|].
  destruct (N.eqb_spec x HT) as [->|]; [cbn in Hx; lia|reflexivity].
Qed.

Lemma digits_nows v : Rfc9112.all_digits v = true -> nows v = true.
Proof.
  unfold Rfc9112.all_digits. destruct v as [|c v]; [discriminate|]. intros H. unfold nows.
  rewrite forallb_forall in *. intros x Hx. specialize (H x Hx). unfold Rfc9112.is_digit in H.
  unfold is_sp_ht. destruct (N.eqb_spec x SP) as [->|]; [discriminate|]. destruct (N.eqb_spec x HT) as [->|]; [discriminate|reflexivity].
Qed.

Lemma dr_ends k : trimTrailingSpace k = k -> k <> [] -> ends_with_ows k = false.
Proof.
  unfold trimTrailingSpace, drop_while_right, ends_with_ows. intros H Hk.
  apply (f_equal (@rev N)) in H. rewrite rev_involutive in H.
  destruct (rev k) as [|c r] eqn:E; [reflexivity|]. rewrite is_ows_spht. now apply dl_head in H.
Qed.

Lemma chunked_letters : Forall (fun c => (97 <= N.lor c 32 <= 122)%N) strChunked.
Proof. unfold strChunked. repeat (apply Forall_cons; [vm_compute; split; discriminate|]). apply Forall_nil. Qed.
Lemma identity_letters : Forall (fun c => (97 <= N.lor c 32 <= 122)%N) strIdentity.
Proof. unfold strIdentity. repeat (apply Forall_cons; [vm_compute; split; discriminate|]). apply Forall_nil. Qed.

(* ================= the two readings of a header block give the same framing fields ================= *)
Lemma fields_agree cfg : forall gs,
  Forall group_wf gs ->
  Forall (fun x => wf_bytes (fst (fst x)) /\ wf_bytes (snd (fst x))) (map g_field gs) ->
  Forall (field_ok cfg) (map g_field gs) ->
  Forall group_spec_ok gs /\
  field_values name_transfer_encoding (map s_field gs) = te_vals cfg (map g_field gs) /\
  field_values name_content_length (map s_field gs) = cl_vals cfg (map g_field gs).
Proof.
  induction gs as [|g gs IH]; intros Hwf Hb Hok; [repeat split; constructor|].
  inversion Hwf as [|? ? Hg Hwf']; subst. cbn [map] in Hb, Hok.
  inversion Hb as [|? ? [Hwk Hwv] Hb']; subst. inversion Hok as [|? ? Hf Hok']; subst.
  destruct (IH Hwf' Hb' Hok') as (Hs & Ht & Hc).
  unfold g_field in Hf, Hwk, Hwv. cbn [fst snd field_ok] in Hf, Hwk, Hwv. destruct Hf as (Hk1 & Hk2 & Hcl & Hte).
  pose proof (group_name g Hg) as Hname.
  assert (Hvalid : isValidHeaderKey (g_key g) = (true, snd (isValidHeaderKey (g_key g)))).
  { destruct Hg as (_ & _ & _ & _ & Hv). destruct (isValidHeaderKey (g_key g)) as [a b]. cbn in *. now subst a. }
  destruct (key_class cfg _ _ Hwk Hvalid) as [Kcl Kte].
  split.
  - constructor; [|exact Hs]. destruct Hg as (H1 & H2 & H3 & H4 & _). unfold group_spec_ok. rewrite <- Hname.
    repeat split; auto. now apply dr_ends.
  - cbn [map]. change (g_field g) with (g_key g, g_val g, snd (isValidHeaderKey (g_key g))). rewrite te_vals_cons, cl_vals_cons. unfold field_values in *. cbn [filter map fst snd s_field].
    rewrite <- Hname, <- Kte, <- Kcl. split.
    + destruct (is_te_key cfg (g_key g) _) eqn:E; [|exact Ht]. cbn [map snd]. f_equal; [|exact Ht].
      apply (group_value g Hg). destruct (Hte eq_refl) as [H|H].
      * eapply cic_letters_nows; [exact H|apply chunked_letters].
      * eapply cic_letters_nows; [exact H|apply identity_letters].
    + destruct (is_cl_key cfg (g_key g) _) eqn:E; [|exact Hc]. cbn [map snd]. f_equal; [|exact Hc].
      apply (group_value g Hg). destruct (Hcl eq_refl) as [n Hn].
      apply digits_nows. now destruct (pcl_value _ _ Hwv Hn).
Qed.

(* ---------------------------------------------------------------- part 9 *)
(* ================= the request line ================= *)
Lemma first_line_rfc : forall fuel b ln rest, firstLine_loop fuel b = Ok (Some (ln, rest)) ->
  forall f2, length b <= f2 ->
  Rfc9112.take_line (skip_empty_lines f2 b) = Some (ln, rest) /\ ln <> [] /\ skip_empty_lines f2 b <> [] /\
  exists pre, b = pre ++ skip_empty_lines f2 b.
Proof.
  induction fuel as [|fuel IH]; intros b ln rest H f2 Hf; cbn [firstLine_loop] in H; [discriminate|].
  destruct (index_byte b LF) as [i|] eqn:Ei; [|rewrite nextLine_none in H by exact Ei; discriminate].
  destruct (index_byte_split _ _ _ Ei) as (l & r & -> & _ & Hl).
  rewrite nextLine_line in H by exact Hl. cbn [bind] in H.
  rewrite app_length in Hf. cbn [length] in Hf. destruct f2 as [|f2]; [lia|].
  cbn [skip_empty_lines]. rewrite take_line_line by exact Hl.
  destruct (strip_cr l) as [|c t] eqn:Es.
  - destruct (IH _ _ _ H f2 ltac:(lia)) as (H1 & H2 & H3 & pre & H4). repeat split; auto.
    exists (l ++ LF :: pre). rewrite <- app_assoc. cbn [app]. now rewrite <- H4.
  - injection H as <- <-. rewrite take_line_line by exact Hl. rewrite Es. repeat split; try discriminate.
    + destruct l; discriminate.
    + now exists [].
Qed.

Lemma method_token m : wf_bytes m -> m <> [] -> isValidMethod m = true -> is_token m = true.
Proof.
  intros Hw Hm Hv. unfold is_token. destruct m as [|x m]; [contradiction|].
  unfold isValidMethod in Hv. rewrite forallb_forall in *. intros c Hc. specialize (Hv c Hc).
  unfold wf_bytes in Hw. rewrite Forall_forall in Hw. specialize (Hw c Hc).
  pose proof (byte_forall (fun x => implb (negb (N.eqb (tbl validMethodValueByteTable x) 0)) (is_tchar x))
                ltac:(vm_compute; reflexivity) c Hw) as H. cbv beta in H. rewrite Hv in H. exact H.
Qed.

Lemma version_rfc p : isHTTPVersion p = Ok true -> exists v, http_version p = Some v /\ (beq p strHTTP11 = true -> v = true).
Proof.
  unfold isHTTPVersion. destruct (length p =? length strHTTP11) eqn:El; cbn [negb]; [|discriminate].
  apply Nat.eqb_eq in El. destruct p as [|a [|b [|c [|d [|e [|f [|g [|h [|x p]]]]]]]]]; try discriminate El.
  destruct (has_prefix (firstn 5 strHTTP11) [a; b; c; d; e; f; g; h]) eqn:Ep; cbn [negb]; [|discriminate].
  unfold strHTTP11 in Ep. cbn [has_prefix firstn] in Ep. repeat (apply andb_true_iff in Ep; destruct Ep as [? Ep]).
  repeat match goal with H : (_ =? _)%N = true |- _ => apply N.eqb_eq in H; subst end.
  cbn [idx nth_error bind]. destruct (N.eqb_spec g DOT) as [->|]; cbn [negb]; [|discriminate].
  unfold Lines.is_digit. destruct ((48 <=? f)%N && (f <=? 57)%N) eqn:Ef; cbn [negb]; [|discriminate].
  intros [= Eh]. cbn [http_version]. unfold Rfc9112.is_digit. rewrite Ef, Eh. cbn [andb].
  eexists. split; [reflexivity|]. intros Hb. unfold strHTTP11 in Hb. cbn [beq] in Hb.
  repeat (apply andb_true_iff in Hb; destruct Hb as [? Hb]).
  repeat match goal with H : (_ =? _)%N = true |- _ => apply N.eqb_eq in H; subst end. reflexivity.
Qed.

Lemma index_byte_prefix_none l c i : index_byte l c = Some i -> index_byte (firstn i l) c = None.
Proof.
  revert i; induction l as [|x l IH]; intros i; cbn [index_byte]; [discriminate|].
  destruct (N.eqb x c) eqn:E; [intros [= <-]; reflexivity|].
  destruct (index_byte l c) as [j|]; [|discriminate]. cbn. intros [= <-]. cbn [firstn index_byte]. rewrite E.
  now rewrite (IH j eq_refl).
Qed.

Lemma request_line_rfc ln consumed line : wf_bytes ln ->
  req_line_parse ln consumed = Ok (FLOk line) ->
  exists q, parse_request_line ln = Some q /\ rq_method q = rl_method line /\ rq_target q = rl_uri line /\
            (rl_noHTTP11 line = false -> rq_v11 q = true).
Proof.
  intros Hw. unfold req_line_parse.
  destruct (index_byte ln SP) as [[|n]|] eqn:E1; try discriminate. set (n1 := S n) in *.
  pose proof (index_byte_lt _ _ _ E1) as Hn1.
  rewrite slice_to by lia. cbn [bind].
  destruct (isValidMethod (firstn n1 ln)) eqn:Em; cbn [negb]; [|discriminate].
  rewrite slice_from by lia. cbn [bind].
  destruct (index_byte (skipn (n1 + 1) ln) SP) as [n2|] eqn:E2; [|discriminate].
  pose proof (index_byte_lt _ _ _ E2) as Hn2.
  rewrite slice_from by lia. cbn [bind].
  destruct (isHTTPVersion (skipn (n2 + 1) (skipn (n1 + 1) ln))) as [okv| |] eqn:Ev; cbn [bind]; try discriminate.
  destruct okv; cbn [negb]; [|discriminate].
  destruct (n2 =? 0) eqn:E0; [discriminate|]. apply Nat.eqb_neq in E0.
  rewrite slice_to by lia. cbn [bind].
  destruct (validateRequestURI (firstn n1 ln) (firstn n2 (skipn (n1 + 1) ln))) eqn:Eu; cbn [negb]; [|discriminate].
  intros [= <-]. cbn [rl_method rl_uri rl_noHTTP11].
  destruct (version_rfc _ Ev) as (v & Hv & Hv11).
  unfold parse_request_line. change 32%N with SP.
  rewrite (split_at_index _ _ _ E1), (split_at_index _ _ _ E2), Hv.
  assert (Htok : is_token (firstn n1 ln) = true).
  { apply method_token; [now apply wf_firstn| |exact Em]. destruct ln; [cbn in Hn1; lia|discriminate]. }
  rewrite Htok.
  assert (Htgt : forallb is_target_octet (firstn n2 (skipn (n1 + 1) ln)) = true).
  { unfold validateRequestURI in Eu.
    destruct (ReqHead.stringContainsCTLByte (firstn n2 (skipn (n1 + 1) ln))) eqn:Ec; [discriminate|].
    unfold ReqHead.stringContainsCTLByte in Ec.
    pose proof (index_byte_prefix_none _ _ _ E2) as Hns.
    rewrite forallb_forall. intros c Hc.
    assert (Hc1 : ((c <? 32) || (c =? 127))%N = false).
    { destruct ((c <? 32) || (c =? 127))%N eqn:Ex; [|reflexivity].
      assert (existsb (fun b => (b <? 32) || (b =? 127))%N (firstn n2 (skipn (n1 + 1) ln)) = true) by (apply existsb_exists; eauto).
      congruence. }
    assert (Hc2 : c <> SP). { intros ->. apply index_byte_none_in in Hns. contradiction. }
    unfold is_target_octet. unfold SP in Hc2. lia. }
  rewrite Htgt. destruct (firstn n2 (skipn (n1 + 1) ln)) eqn:Et; [destruct (skipn (n1 + 1) ln); [cbn in Hn2; lia|destruct n2; [lia|discriminate]]|].
  cbn [andb]. eexists. split; [reflexivity|]. cbn. repeat split; auto.
  intros Hno. apply Hv11. now apply negb_false_iff in Hno.
Qed.

(* ---------------------------------------------------------------- part 10 *)
Lemma wf_take_line : forall b l r, Rfc9112.take_line b = Some (l, r) -> wf_bytes b -> wf_bytes l.
Proof.
  unfold wf_bytes. induction b as [|c b IH]; intros l r H Hw; cbn [Rfc9112.take_line] in H; [discriminate|].
  inversion Hw as [|? ? Hc Hb]; subst.
  destruct (c =? 10)%N; [injection H as <- _; constructor|].
  destruct b as [|d b']; [discriminate|].
  destruct ((c =? 13)%N && (d =? 10)%N); [injection H as <- _; constructor|].
  destruct (Rfc9112.take_line (d :: b')) as [[l' r']|] eqn:E; [|discriminate]. injection H as <- _.
  constructor; [exact Hc|]. eapply IH; eauto.
Qed.

(* ================= an accepted head, read the RFC's way ================= *)
(* what RequestHeader.parse did, with the consumed length *)
Lemma head_unfold cfg w hd n :
  req_head_parse cfg w = HOk (hd, n) ->
  exists line rest raw rawEnd l st r,
    req_parseFirstLine w = Ok (FLOk line) /\
    slice w (rl_len line) (length w) = Ok rest /\
    readRawHeaders rest = Ok (Some (raw, rawEnd)) /\
    ((scan_init rest rawEnd = Ok IEmpty /\ l = [] /\ st = rq_init /\ r = 2) \/
     (exists b, scan_init rest rawEnd = Ok (IReady b) /\ Scanned b 0 l None r)) /\
    steps cfg (rl_noHTTP11 line) rq_init l = Ok (StOk st) /\
    n = rl_len line + r /\
    meth hd = rl_method line /\ target hd = rl_uri line /\ http11 hd = negb (rl_noHTTP11 line).
Proof.
  unfold req_head_parse, req_parse_R. intros H.
  destruct (req_parseFirstLine w) as [fl| |] eqn:Hfl; cbn [bind] in H; try discriminate.
  destruct fl as [|e|line]; try discriminate.
  destruct (slice w (rl_len line) (length w)) as [rest| |] eqn:Hsl; cbn [bind] in H; try discriminate.
  destruct (readRawHeaders rest) as [[[raw rawEnd]|]| |] eqn:Hraw; cbn [bind] in H; try discriminate.
  unfold req_parseHeaders in H.
  destruct (scan_init rest rawEnd) as [ir| |] eqn:Hinit; cbn [bind] in H; try discriminate.
  destruct ir as [| | | |b]; cbn [bind] in H; try discriminate.
  - destruct (http11 _ && _); [discriminate|]. injection H as <- <-.
    exists line, rest, raw, rawEnd, [], rq_init, 2. repeat split; auto.
  - destruct (req_headers_loop (S (length b)) cfg (rl_noHTTP11 line) b 0 rq_init) as [[[st r]|e]| |] eqn:Hloop;
      cbn [bind] in H; try discriminate.
    destruct (http11 _ && _); [discriminate|]. injection H as <- <-.
    apply loop_steps in Hloop as (l & Hsc & Hsteps).
    exists line, rest, raw, rawEnd, l, st, r. repeat split; auto. right. eauto.
Qed.

Definition head_rfc_ok (cfg : hcfg) (w z : bytes) (hd : req_head) (n : nat) : Prop :=
  exists ln r1 q fs line l,
    skip_empty_lines (length (w ++ z)) (w ++ z) <> [] /\
    Rfc9112.take_line (skip_empty_lines (length (w ++ z)) (w ++ z)) = Some (ln, r1) /\
    parse_request_line ln = Some q /\ rq_method q = meth hd /\ rq_target q = target hd /\
    (http11 hd = true -> rq_v11 q = true) /\
    field_lines (S (length r1)) [] r1 = FsOk fs (skipn n (w ++ z)) /\
    HeadFields w line l /\ http11 hd = negb (rl_noHTTP11 line) /\
    field_values name_transfer_encoding fs = te_vals cfg l /\
    field_values name_content_length fs = cl_vals cfg l.

(* C01_fields_agree_on_accepted_head *)
Theorem accepted_head_rfc cfg w z hd n :
  disable_special cfg = false -> wf_bytes w -> req_head_parse cfg w = HOk (hd, n) -> head_rfc_ok cfg w z hd n.
Proof.
  intros Hds Hw Hp.
  destruct (req_head_no_overread _ _ _ _ Hp) as [Hhl _].
  destruct (head_unfold _ _ _ _ Hp) as (line & rest & raw & rawEnd & l & st & r & Hfl & Hsl & Hraw & Hscan & Hsteps & Hn & Hm & Ht & Hv).
  (* the first line *)
  unfold req_parseFirstLine in Hfl.
  destruct (firstLine_loop_spec (S (length w)) w 0 n Hhl ltac:(lia)) as (ln & bNext & pre & Ew & Hfl1 & Hne & _ & _ & _ & Happ).
  rewrite Hfl1 in Hfl. cbn [bind] in Hfl.
  pose proof (req_line_parse_len _ _ _ Hfl) as Hlen.
  assert (Hpre : rl_len line = length pre) by (rewrite Hlen, Ew, app_length; lia).
  apply slice_inv in Hsl as (_ & _ & Hrest). replace (length w - rl_len line) with (length (skipn (rl_len line) w)) in Hrest by (rewrite skipn_length; reflexivity).
  rewrite firstn_all in Hrest. rewrite Hpre, Ew, skipn_at in Hrest. subst rest.
  assert (Hwln : wf_bytes ln).
  { destruct (first_line_rfc _ _ _ _ Hfl1 (length w) (Nat.le_refl _)) as (Htl & _ & _ & pre0 & Epre).
    apply (wf_take_line _ _ _ Htl). rewrite Epre in Hw. unfold wf_bytes in *. now apply Forall_app in Hw. }
  assert (Hwrest : wf_bytes bNext) by (rewrite Ew in Hw; unfold wf_bytes in *; now apply Forall_app in Hw).
  specialize (Happ z (S (length (w ++ z))) (Nat.lt_succ_diag_r _)).
  destruct (first_line_rfc _ _ _ _ Happ (length (w ++ z)) (Nat.le_refl _)) as (Htl & _ & Hsk & _).
  destruct (request_line_rfc _ _ _ Hwln Hfl) as (q & Hq & Hqm & Hqt & Hq11).
  assert (Hhead : HeadFields w line l).
  { exists bNext, raw, rawEnd. split; [unfold req_parseFirstLine; rewrite Hfl1; exact Hfl|]. split.
    - rewrite Hpre, Ew. rewrite slice_from by (rewrite app_length; lia). now rewrite skipn_at.
    - split; [exact Hraw|]. destruct Hscan as [(Hi & -> & _ & _)|(b & Hi & Hs)]; [left; auto|right; eauto]. }
  (* the header block *)
  assert (Hblock : exists fs, field_lines (S (length (bNext ++ z))) [] (bNext ++ z) = FsOk fs (skipn r (bNext ++ z)) /\
             field_values name_transfer_encoding fs = te_vals cfg l /\ field_values name_content_length fs = cl_vals cfg l).
  { assert (Hbe : block_end_wf bNext rawEnd).
    { rewrite readRawHeaders_spec in Hraw. injection Hraw as Hraw.
      destruct (head_len_aux true CurEmpty bNext 0) as [k|] eqn:Ek; [|discriminate]. cbn [raw_res] in Hraw. injection Hraw as _ <-.
      right. destruct (head_len_aux_ends_lf _ _ _ _ _ Ek) as (p0 & s0 & E0 & EN). exists p0, s0. split; [exact E0|lia]. }
    destruct (scan_init_spec bNext rawEnd Hbe) as (ir & Hir & Hspec).
    destruct Hscan as [(Hi & -> & _ & ->)|(b & Hi & Hsc)]; rewrite Hi in Hir; injection Hir as <-.
    - (* no header fields *)
      apply has_prefix_split in Hspec as [s ->]. exists []. cbn [app field_lines]. split; [|split; reflexivity].
      change strCRLF with [CR; LF]. cbn [app Rfc9112.take_line]. reflexivity.
    - destruct Hspec as (qb & z0 & c & t & Eb & Ez & Ec & Hc).
      destruct (block_lines_lf qb) as (ls & Els & Hinv). rewrite <- Eb in Els.
      pose proof (hd_ok_first b ls c t Els Ec Hc) as Hhd.
      assert (Hwb : wf_bytes b) by (rewrite Ez in Hwrest; unfold wf_bytes in *; now apply Forall_app in Hwrest).
      destruct (scanned_groups _ _ _ _ _ Hsc eq_refl [] ls Els eq_refl Hinv Hhd) as (gs & bl & rem' & Els2 & Hbl & Hgwf & Hl & Hr).
      cbn [length plus] in Hr.
      assert (Hnl : Forall no_lf ls) by (destruct Hinv as (_ & _ & H); exact H).
      rewrite Els2 in Hnl. apply Forall_app in Hnl as [Hnl1 Hnl2]. apply Forall_cons_iff in Hnl2 as [Hnbl _].
      assert (Hwfl : Forall (fun x => wf_bytes (fst (fst x)) /\ wf_bytes (snd (fst x))) (map g_field gs)).
      { pose proof (wf_scanned _ Hwb _ _ _ _ Hsc) as H1. pose proof (wf_scanned_keys _ Hwb _ _ _ _ Hsc) as H2.
        rewrite <- Hl. rewrite Forall_forall in H1, H2. apply Forall_forall. intros x Hx. split; [apply H2|apply H1]; exact Hx. }
      pose proof (steps_fields cfg _ Hds _ _ _ Hsteps) as Hfok. rewrite Hl in Hfok.
      destruct (fields_agree cfg gs Hgwf Hwfl Hfok) as (Hsok & Hte & Hcl).
      exists (map s_field gs). split; [|rewrite Hl; split; assumption].
      rewrite Ez, Els, Els2, <- app_assoc.
      pose proof (join_length_ge (flat gs ++ bl :: rem')) as Hjl. rewrite app_length in Hjl.
      replace (S (length (join (flat gs ++ bl :: rem') ++ z0 ++ z)))
        with (length (flat gs) + S (length (join (flat gs ++ bl :: rem') ++ z0 ++ z) - length (flat gs)))
        by (rewrite app_length; lia).
      rewrite (field_lines_groups gs [] _ bl rem' (z0 ++ z) Hsok Hnl1 Hnbl Hbl). cbn [rev app].
      f_equal. rewrite Hr. rewrite join_app, join_cons, <- !app_assoc.
      replace (length (join (flat gs)) + length bl + 1) with (length (join (flat gs) ++ bl ++ [LF])) by (rewrite !app_length; cbn; lia).
      replace (join (flat gs) ++ bl ++ (LF :: join rem') ++ z0 ++ z)
        with ((join (flat gs) ++ bl ++ [LF]) ++ join rem' ++ z0 ++ z) by (rewrite <- !app_assoc; reflexivity).
      now rewrite skipn_at. }
  destruct Hblock as (fs & Hfl2 & Hte & Hcl).
  exists ln, (bNext ++ z), q, fs, line, l.
  split; [exact Hsk|]. split; [exact Htl|]. split; [exact Hq|]. split; [congruence|]. split; [congruence|].
  split; [intros H11; apply Hq11; rewrite Hv in H11; now apply negb_true_iff in H11|].
  split.
  - rewrite Hfl2. f_equal. rewrite Hn, Hpre, Ew, <- app_assoc. now rewrite <- skipn_skipn', skipn_at.
  - split; [exact Hhead|]. split; [exact Hv|]. split; assumption.
Qed.

(* ---------------------------------------------------------------- part 11 *)
Lemma code_accept_http10 tes cls a b : code_decision true tes cls = CAccept a b -> tes = [].
Proof.
  unfold code_decision. destruct cls as [|c [|c2 cr]]; try discriminate.
  - destruct tes as [|t [|t2 tr]]; [reflexivity|discriminate|discriminate].
  - destruct (parseContentLength c); [|discriminate]. destruct tes as [|t [|t2 tr]]; [reflexivity|discriminate|discriminate].
Qed.

(* a chunked body the code accepted is the RFC's chunked-body: same data, same end *)
Lemma chunked_body_rfc c hd b body rest tf : wf_bytes b -> content_length hd = (-1)%Z ->
  read_req_body c hd b = RbOk body rest tf -> exists d, body = Some d /\ chunked_body b = BdOk d rest.
Proof.
  intros Hw Hcl. unfold read_req_body. rewrite Hcl. cbn [Z.gtb Z.compare andb].
  change ((-1 =? -1)%Z) with true. cbv iota.
  destruct (readBodyChunked (c_maxbody c) [] b) as [d r pk|e d pk| |] eqn:Er; try discriminate; [|destruct e; discriminate].
  destruct (read_trailer (c_nonorm c) (c_bsize c) r) as [r' tf'|e|] eqn:Et; try discriminate.
  intros [= <- <- _]. exists d. split; [reflexivity|]. unfold chunked_body.
  rewrite (readBodyChunked_rfc _ _ _ _ _ Hw Er). now rewrite (read_trailer_rfc _ _ _ _ _ Et).
Qed.

(* C01_dispatch_is_rfc_prefix, per dispatched request *)
Theorem dispatch_is_rfc c s i d :
  wf_bytes s -> nth_error (disp (serve_frames c s)) i = Some d ->
  exists r cl rest,
    rfc_message (skipn (dp_off d) s) = MMsg r cl rest /\ cl <> Invalid /\
    r_method r = dp_method d /\ r_target r = dp_uri d /\
    (cl <> Clean -> S i = length (disp (serve_frames c s))) /\
    match rest with
    | Some x => x = skipn (dp_off d + dp_len d) s /\ r_body r <> None /\ (dp_body d = None \/ dp_body d = r_body r)
    | None => cl = AmbiguousMustClose /\ r_body r = None
    end.
Proof.
  intros Hs Hn.
  pose proof (dispatched_window_wf _ _ _ _ Hs Hn) as Hw.
  pose proof Hn as Hn1. rewrite serve_frames_unfold in Hn1.
  destruct (serve_offsets _ _ _ _ _ _ (Nat.le_0_l _) Hn1) as (Hwin & Hbound & Hh & _).
  destruct (serve_dispatch_full _ _ _ _ _ _ (Nat.le_0_l _) Hn1) as (hd & Hp & Hclose & Hm & Hu & tfd & Hb).
  set (X := skipn (dp_off d) s) in *.
  assert (EX : X = dp_win d ++ skipn (c_bsize c) X) by (rewrite Hwin; symmetry; apply firstn_skipn).
  destruct (accepted_head_rfc (hcfg_of c) _ (skipn (c_bsize c) X) _ _ eq_refl Hw Hp)
    as (ln & r1 & q & fs & line & l & Hsk & Htl & Hq & Hqm & Hqt & Hq11 & Hfl & Hhf & Hv & Hte & Hcl).
  rewrite <- EX in *.
  destruct (head_decision_sound (hcfg_of c) _ _ _ eq_refl Hw Hp) as (line' & l' & Hhf' & _ & _ & _ & Hni & Hnc & Hlen).
  destruct (head_fields_fun _ _ _ _ _ Hhf Hhf') as [<- <-]. cbv zeta in Hni, Hnc, Hlen.
  (* the version flag the RFC derives gives the same decision *)
  assert (Hdec : rfc_decision (rq_v11 q) (te_vals (hcfg_of c) l) (cl_vals (hcfg_of c) l) =
                 rfc_decision (http11 hd) (te_vals (hcfg_of c) l) (cl_vals (hcfg_of c) l)).
  { destruct (http11 hd) eqn:E11; [now rewrite (Hq11 eq_refl)|].
    destruct (head_fields _ _ _ _ Hp) as (line2 & l2 & st & Hhf2 & Hsteps & _ & _ & Hv2 & _).
    destruct (head_fields_fun _ _ _ _ _ Hhf Hhf2) as [<- <-].
    pose proof (steps_decision (hcfg_of c) _ _ _ eq_refl Hsteps) as Hd.
    assert (Hno : rl_noHTTP11 line = true) by (rewrite Hv2 in E11; now apply negb_false_iff in E11).
    rewrite Hno in Hd. apply code_accept_http10 in Hd. rewrite Hd. reflexivity. }
  set (D := rfc_decision (http11 hd) (te_vals (hcfg_of c) l) (cl_vals (hcfg_of c) l)) in *.
  assert (Hlast : d_class D <> Clean -> S i = length (disp (serve_frames c s))).
  { intros Hc. eapply serve_close_last; [exact Hn|]. rewrite Hclose. now apply Hnc. }
  (* unfold the RFC reading *)
  unfold rfc_message. cbv zeta. destruct (skip_empty_lines (length X) X) as [|x0 b0] eqn:Esk; [contradiction|].
  rewrite Htl, Hq, Hfl, Hte, Hcl, Hdec. fold D.
  assert (Hwr2 : wf_bytes (skipn (dp_hlen d) X)) by (unfold X; now apply wf_skipn, wf_skipn).
  assert (Eoff : skipn (dp_off d + dp_hlen d) s = skipn (dp_hlen d) X) by (unfold X; symmetry; apply skipn_skipn').
  rewrite Eoff in Hb.
  destruct (d_len D) as [| |k] eqn:El.
  - (* no length assigned *)
    eexists _, _, None. split; [reflexivity|]. split; [exact Hni|]. cbn [r_method r_target r_body].
    split; [congruence|]. split; [congruence|]. split; [exact Hlast|]. split; [|reflexivity].
    destruct (d_class D) eqn:Ec; [|reflexivity|congruence].
    exfalso. unfold D in Ec, El. clear -Ec El. unfold rfc_decision, cl_decision in *.
    repeat match type of Ec with context [match ?x with _ => _ end] => destruct x; cbn in *; try discriminate end.
  - (* chunked *)
    destruct (chunked_body_rfc _ _ _ _ _ _ Hwr2 Hlen Hb) as (bd & Ebd & Hcb). rewrite Hcb.
    eexists _, _, (Some _). split; [reflexivity|]. split; [exact Hni|]. cbn [r_method r_target r_body].
    split; [congruence|]. split; [congruence|]. split; [exact Hlast|]. split; [|split; [discriminate|right; exact Ebd]].
    reflexivity.
  - destruct (read_req_body_fixed _ _ _ _ _ _ k Hb Hlen) as (Hr & Hk & Hbody).
    replace (N.of_nat (length (skipn (dp_hlen d) X)) <? k)%N with false by lia.
    eexists _, _, (Some _). split; [reflexivity|]. split; [exact Hni|]. cbn [r_method r_target r_body].
    split; [congruence|]. split; [congruence|]. split; [exact Hlast|]. split; [|split; [discriminate|]].
    + now rewrite Hr.
    + exact Hbody.
Qed.

(* ---------------------------------------------------------------- part 12 *)
Definition obs_of (d : dispatched) : dobs := (dp_method d, dp_uri d, dp_body d).

Lemma skipn_nth {A} (l : list A) : forall k x, nth_error l k = Some x -> skipn k l = x :: skipn (S k) l.
Proof. induction l as [|y l IH]; intros [|k] x H; try discriminate; cbn in *; [now injection H as ->|now apply IH]. Qed.

Lemma judge_from c s : wf_bytes s -> let ds := disp (serve_frames c s) in
  forall m k d, m = length ds - k -> nth_error ds k = Some d ->
  forall fuel, length s - dp_off d < fuel ->
  judge (fst (fst (rfc_frame_fuel fuel (skipn (dp_off d) s)))) (map obs_of (skipn k ds)) = true.
Proof.
  intros Hs ds. induction m as [|m IH]; intros k d Hm Hn fuel Hf.
  - assert (k < length ds) by (apply nth_error_Some; congruence). lia.
  - destruct (dispatch_is_rfc c s k d Hs Hn) as (r & cl & rest & Hmsg & Hni & Hrm & Hrt & Hlast & Hrest).
    destruct (continue_or_close c s k d Hn) as (Hb & Hh & _ & Hnext). fold ds in Hnext, Hlast.
    rewrite (skipn_nth _ _ _ Hn). cbn [map].
    destruct fuel as [|f]; [lia|]. cbn [rfc_frame_fuel]. rewrite Hmsg.
    assert (Hmatch : req_match r (obs_of d) = true).
    { unfold req_match, obs_of. cbn [fst snd]. rewrite Hrm, Hrt, !beq_refl. cbn [andb].
      destruct rest as [x|]; [|destruct Hrest as [_ ->]; reflexivity].
      destruct Hrest as (_ & _ & [->| ->]); [destruct (r_body r); reflexivity|].
      destruct (r_body r); [apply beq_refl|reflexivity]. }
    destruct cl; [|clear IH|congruence].
    + (* Clean *)
      destruct rest as [b'|]; [|destruct Hrest as [Hx _]; discriminate].
      destruct Hrest as (-> & _ & _).
      assert (Hlt : length (skipn (dp_off d + dp_len d) s) < length (skipn (dp_off d) s)) by (rewrite !skipn_length; lia).
      apply Nat.ltb_lt in Hlt. rewrite Hlt.
      destruct (rfc_frame_fuel f (skipn (dp_off d + dp_len d) s)) as [[fr st] tl] eqn:Ef. cbn [fst judge]. rewrite Hmatch. cbn [andb].
      destruct (nth_error ds (S k)) as [d'|] eqn:En.
      * destruct Hnext as [Ho _].
        specialize (IH (S k) d' ltac:(lia) En f ltac:(rewrite Ho; lia)). rewrite Ho, Ef in IH. exact IH.
      * assert (Hk : length ds <= S k) by (apply nth_error_None; exact En).
        rewrite skipn_all2 by exact Hk. destruct fr as [|[? ?] ?]; reflexivity.
    + (* AmbiguousMustClose: the last one *)
      assert (Hk : S k = length ds) by (apply Hlast; discriminate).
      assert (Hle : length ds <= S k) by (rewrite <- Hk; apply Nat.le_refl).
      rewrite (skipn_all2 ds Hle). destruct rest as [b'|]; cbn [fst judge map]; now rewrite Hmatch.
Qed.

(* the dispatch sequence of the model satisfies the RFC oracle: every stream, every configuration *)
Theorem model_meets_oracle c s : wf_bytes s ->
  judge (rfc_requests s) (map obs_of (disp (serve_frames c s))) = true.
Proof.
  intros Hs. destruct (disp (serve_frames c s)) as [|d0 ds'] eqn:Ed; [destruct (rfc_requests s) as [|[? ?] ?]; reflexivity|].
  assert (Hn : nth_error (disp (serve_frames c s)) 0 = Some d0) by now rewrite Ed.
  destruct (continue_or_close c s 0 d0 Hn) as (_ & _ & H0 & _). specialize (H0 eq_refl).
  pose proof (judge_from c s Hs _ 0 d0 eq_refl Hn (S (length s)) ltac:(lia)) as H.
  rewrite H0 in H. cbn [skipn] in H. rewrite Ed in H. exact H.
Qed.

(* small corollaries used by Properties/C01.v *)
Lemma head_boundary_line_rule c s i d :
  wf_bytes s -> nth_error (disp (serve_frames c s)) i = Some d -> head_len (skipn (dp_off d) s) = Some (dp_hlen d).
Proof. intros Hs Hn. exact (proj1 (dispatch_prefix_partial c s i d Hs Hn)). Qed.

Lemma serve_frames_reduce_indep b c s : serve_frames (set_reduce b c) s = serve_frames c s.
Proof. apply serve_reduce_indep. Qed.
