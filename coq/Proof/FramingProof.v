(* FramingProof.v — proofs for C01 (Model/Framing.v against Spec/Rfc9112.v). *)
From FH Require Import Model.Base Gen.GenC01 Gen.GenC09 Model.ByteClassModel Model.Lines Model.ReqHead Model.Body Model.Framing Spec.Rfc9112.
From Coq Require Import Lia ZifyBool ZifyN ZifyNat.
Open Scope nat_scope.
