(* FramingProof.v — proofs for C01 (Model/Framing.v against Spec/Rfc9112.v).

   1. step_framing / steps_decision: the CL/TE bookkeeping of parseHeaders' loop, folded over ANY list of
      scanned fields, is code_decision of the Content-Length / Transfer-Encoding values in that list.
   2. loop_steps / head_fields: RequestHeader.parse (ReqHead.req_head_parse) accepting a buffer means that
      fold ran over exactly the fields the scanner yields (HeadFields) and ended without error.
   3. framing_decision: code_decision is sound w.r.t. RFC 9112 s6.3 (Spec.Rfc9112.rfc_decision) for every
      version flag and every pair of value lists.
   4. the serve loop: a request whose connectionClose flag is set is the last one dispatched; dispatched
      requests are contiguous in the stream. *)
From FH Require Import Model.Base Gen.GenC01 Gen.GenC09 Gen.GenC30 Gen.GenC32 Model.ByteClassModel Model.Lines Model.ReqHead Model.Body Model.Framing Spec.Rfc9112.
From FH Require Model.Uri Model.Multipart Model.Ints Spec.IntsSpec Proof.IntsProof Proof.BodyProof Spec.HeadSpec Proof.LinesProof Proof.HeadTotalProof.
From Coq Require Import Lia ZifyBool ZifyN ZifyNat.
Open Scope nat_scope.

Lemma drop_while_le f l : length (drop_while f l) <= length l.
Proof. induction l as [|c r IH]; cbn; [lia|]. destruct (f c); cbn; lia. Qed.
Lemma drop_while_len f l : length (drop_while f l) = length l -> drop_while f l = l.
Proof. destruct l as [|c r]; cbn; [reflexivity|]. destruct (f c); [|reflexivity]. pose proof (drop_while_le f r). lia. Qed.
Lemma trim_len_eq k : length (trimTrailingSpace k) = length k -> trimTrailingSpace k = k.
Proof.
  unfold trimTrailingSpace, drop_while_right. rewrite rev_length. intros H.
  rewrite <- (rev_length k) in H. apply drop_while_len in H. rewrite H. apply rev_involutive.
Qed.
Lemma cic_len a : forall b, cic a b = true -> length a = length b.
Proof. induction a as [|x a IH]; destruct b as [|y b]; cbn; try discriminate; [reflexivity|]. intros H. apply andb_true_iff in H as [_ H]. f_equal. auto. Qed.

Definition fproj (st : rqst) := (q_cl st, q_clSeen st, q_teSeen st, q_closeAfter st).

Lemma step_framing cfg v st k val inner st' :
  disable_special cfg = false ->
  req_header_step cfg v st k val inner = Ok (StOk st') ->
  (is_cl_key cfg k inner = true /\ is_te_key cfg k inner = false /\ q_clSeen st = false /\
     exists n, parseContentLength val = Some n /\
       fproj st' = ((if Z.eqb (q_cl st) (-1) then q_cl st else n), true, q_teSeen st, q_closeAfter st)) \/
  (is_cl_key cfg k inner = false /\ is_te_key cfg k inner = true /\ v = false /\ q_teSeen st = false /\
     ((cic val strChunked = true /\ fproj st' = ((-1)%Z, q_clSeen st, true, q_closeAfter st)) \/
      (cic val strChunked = false /\ cic val strIdentity = true /\ fproj st' = (q_cl st, q_clSeen st, true, true)))) \/
  (is_cl_key cfg k inner = false /\ is_te_key cfg k inner = false /\ fproj st' = fproj st).
Proof.
  intros Hds. unfold req_header_step.
  destruct (length (trimTrailingSpace k) =? length k) eqn:El; cbn [negb]; [|discriminate].
  apply Nat.eqb_eq in El. rewrite (trim_len_eq _ El).
  destruct k as [|k0 kr]; [discriminate|].
  unfold is_cl_key, is_te_key, key_norm.
  set (key := normalizeHeaderKeyValidated (k0 :: kr) (disable_norm cfg || inner)).
  destruct (validValue val); cbn [negb]; [|discriminate].
  rewrite Hds.
  set (c0 := first_lower key).
  clearbody c0 key.
  destruct (N.eqb_spec c0 (ch "c")) as [-> | Hc].
  - change (ch "c" =? ch "t")%N with false. change (ch "c" =? ch "h")%N with false.
    change (ch "c" =? ch "u")%N with false. cbn [andb].
    destruct (cic key strContentLength) eqn:Ecl.
    + destruct (q_clSeen st) eqn:Eseen; [discriminate|].
      destruct (parseContentLength val) as [n|] eqn:Epc; [|discriminate].
      assert (Ect : cic key strContentType = false).
      { destruct (cic key strContentType) eqn:E; [|reflexivity].
        apply cic_len in E. apply cic_len in Ecl. rewrite Ecl in E. vm_compute in E. discriminate E. }
      rewrite Ect. intros H; injection H as <-. left. repeat split; auto.
      exists n. split; [reflexivity|]. unfold fproj. cbn.
      destruct (q_cl st =? -1)%Z; reflexivity.
    + right; right. repeat split; auto.
      destruct (cic key strContentType); [injection H as <-; reflexivity|].
      destruct (cic key strConnection).
      * destruct (hasHeaderValue val strClose); injection H as <-; reflexivity.
      * injection H as <-; reflexivity.
  - cbn [andb].
    destruct (N.eqb_spec c0 (ch "t")) as [-> | Ht].
    + change (ch "t" =? ch "h")%N with false. change (ch "t" =? ch "u")%N with false. cbn [andb].
      destruct (cic key strTransferEncoding) eqn:Ete.
      * destruct v; [discriminate|]. destruct (q_teSeen st) eqn:Eseen; [discriminate|].
        destruct (cic val strIdentity) eqn:Eid, (cic val strChunked) eqn:Ech; cbn [negb andb];
          intros H; try discriminate; injection H as <-; right; left; repeat split; auto.
      * right; right. repeat split; auto.
        destruct (cic key strTrailer).
        -- destruct (SetTrailerBytes (disable_norm cfg) val) as [[tl bad]| |]; cbn in H; try discriminate.
           destruct bad; [discriminate|]. injection H as <-; reflexivity.
        -- injection H as <-; reflexivity.
    + cbn [andb]. intros H. right; right. repeat split; auto.
      destruct (c0 =? ch "h")%N.
      * destruct (cic key strHost); [destruct (q_hostSeen st); [discriminate|]|]; injection H as <-; reflexivity.
      * destruct (c0 =? ch "u")%N; [destruct (cic key strUserAgent)|]; injection H as <-; reflexivity.
Qed.

(* ---------- the loop as a fold: what the framing part of the state is after a list of fields ---------- *)
Definition expect (v : bool) (tes cls : list bytes) : option (Z * bool * bool * bool) :=
  match cls with
  | _ :: _ :: _ => None
  | _ =>
    match (match cls with
           | [c] => match parseContentLength c with Some n => Some (Some n) | None => None end
           | _ => Some None
           end) with
    | None => None
    | Some clo =>
       let cl0 := match clo with Some n => n | None => (-2)%Z end in
       let seen := match clo with Some _ => true | None => false end in
       match tes with
       | [] => Some (cl0, seen, false, false)
       | [t] => if v then None
                else if cic t strChunked then Some ((-1)%Z, seen, true, false)
                else if cic t strIdentity then Some (cl0, seen, true, true) else None
       | _ => None
       end
    end
  end.

Lemma decision_expect v tes cls :
  code_decision v tes cls =
  match expect v tes cls with
  | None => CReject
  | Some (cl, cs, ts, ca) => CAccept cl (ca || (cs && ts))
  end.
Proof.
  unfold code_decision, expect.
  destruct cls as [|c [|c2 cr]]; [| |reflexivity].
  - destruct tes as [|t [|t2 tr]]; [reflexivity| |reflexivity].
    destruct v; [reflexivity|]. destruct (cic t strChunked); [reflexivity|]. destruct (cic t strIdentity); reflexivity.
  - destruct (parseContentLength c); [|reflexivity].
    destruct tes as [|t [|t2 tr]]; [reflexivity| |reflexivity].
    destruct v; [reflexivity|]. destruct (cic t strChunked); [reflexivity|]. destruct (cic t strIdentity); reflexivity.
Qed.

Lemma expect_cl v tes cls cl ts ca val n :
  expect v tes cls = Some (cl, false, ts, ca) -> parseContentLength val = Some n ->
  expect v tes (cls ++ [val]) = Some ((if (cl =? -1)%Z then cl else n), true, ts, ca).
Proof.
  unfold expect. intros H Hn.
  destruct cls as [|c [|c2 cr]]; [| |discriminate].
  - cbn [app]. rewrite Hn. destruct tes as [|t [|t2 tr]]; [| |discriminate].
    + injection H as <- <- <-. reflexivity.
    + destruct v; [discriminate|]. destruct (cic t strChunked); [injection H as <- <- <-; reflexivity|].
      destruct (cic t strIdentity); [injection H as <- <- <-; reflexivity|discriminate].
  - destruct (parseContentLength c); [|discriminate].
    destruct tes as [|t [|t2 tr]]; [discriminate| |discriminate].
    destruct v; [discriminate|]. destruct (cic t strChunked); [discriminate|].
    destruct (cic t strIdentity); discriminate.
Qed.

Lemma expect_te tes cls cl cs ca val :
  expect false tes cls = Some (cl, cs, false, ca) ->
  (cic val strChunked = true -> expect false (tes ++ [val]) cls = Some ((-1)%Z, cs, true, ca)) /\
  (cic val strChunked = false -> cic val strIdentity = true -> expect false (tes ++ [val]) cls = Some (cl, cs, true, true)).
Proof.
  unfold expect. intros H.
  destruct cls as [|c [|c2 cr]]; [| |discriminate].
  - destruct tes as [|t [|t2 tr]]; [| |discriminate].
    + injection H as <- <- <-. cbn [app]. split; [intros ->; reflexivity|intros -> ->; reflexivity].
    + destruct (cic t strChunked); [discriminate|]. destruct (cic t strIdentity); discriminate.
  - destruct (parseContentLength c); [|discriminate].
    destruct tes as [|t [|t2 tr]]; [| |discriminate].
    + injection H as <- <- <-. cbn [app]. split; [intros ->; reflexivity|intros -> ->; reflexivity].
    + destruct (cic t strChunked); [discriminate|]. destruct (cic t strIdentity); discriminate.
Qed.

Lemma te_vals_cons cfg k v i l :
  te_vals cfg ((k, v, i) :: l) = if is_te_key cfg k i then v :: te_vals cfg l else te_vals cfg l.
Proof. unfold te_vals. cbn. destruct (is_te_key cfg k i); reflexivity. Qed.
Lemma cl_vals_cons cfg k v i l :
  cl_vals cfg ((k, v, i) :: l) = if is_cl_key cfg k i then v :: cl_vals cfg l else cl_vals cfg l.
Proof. unfold cl_vals. cbn. destruct (is_cl_key cfg k i); reflexivity. Qed.

Lemma steps_inv cfg v : disable_special cfg = false -> forall l st st' tes cls,
  steps cfg v st l = Ok (StOk st') ->
  expect v tes cls = Some (fproj st) ->
  expect v (tes ++ te_vals cfg l) (cls ++ cl_vals cfg l) = Some (fproj st').
Proof.
  intros Hds. induction l as [|[[k val] inner] l IH]; intros st st' tes cls Hs Hinv.
  - cbn in Hs. injection Hs as <-. cbn. now rewrite !app_nil_r.
  - cbn [steps] in Hs.
    destruct (req_header_step cfg v st k val inner) as [[st1|e]| |] eqn:Hstep; cbn [bind] in Hs; try discriminate.
    rewrite te_vals_cons, cl_vals_cons.
    destruct (step_framing _ _ _ _ _ _ _ Hds Hstep) as
      [(Hc & Ht & Hseen & n & Hn & Hp) | [(Hc & Ht & Hv & Hseen & Hp) | (Hc & Ht & Hp)]]; rewrite Hc, Ht.
    + replace (cls ++ val :: cl_vals cfg l) with ((cls ++ [val]) ++ cl_vals cfg l) by (now rewrite <- app_assoc).
      apply (IH _ _ _ _ Hs). rewrite Hp. unfold fproj in Hinv. rewrite Hseen in Hinv.
      apply (expect_cl _ _ _ _ _ _ _ _ Hinv Hn).
    + replace (tes ++ val :: te_vals cfg l) with ((tes ++ [val]) ++ te_vals cfg l) by (now rewrite <- app_assoc).
      apply (IH _ _ _ _ Hs). subst v. unfold fproj in Hinv. rewrite Hseen in Hinv.
      destruct (expect_te _ _ _ _ _ val Hinv) as [H1 H2].
      destruct Hp as [[Hch ->] | (Hch & Hid & ->)]; auto.
    + apply (IH _ _ _ _ Hs). now rewrite Hp.
Qed.

Theorem steps_decision cfg v l st : disable_special cfg = false ->
  steps cfg v rq_init l = Ok (StOk st) ->
  code_decision v (te_vals cfg l) (cl_vals cfg l) = CAccept (q_cl st) (q_closeAfter st || (q_clSeen st && q_teSeen st)).
Proof.
  intros Hds Hs. rewrite decision_expect.
  pose proof (steps_inv cfg v Hds l rq_init st [] [] Hs eq_refl) as H. cbn [app] in H. rewrite H. reflexivity.
Qed.

(* ---------- the loop of parseHeaders is that fold over what the scanner yields ---------- *)
Lemma loop_steps cfg v b : forall fuel r st st' r',
  req_headers_loop fuel cfg v b r st = Ok (StOk (st', r')) ->
  exists l, Scanned b r l None r' /\ steps cfg v st l = Ok (StOk st').
Proof.
  induction fuel as [|fuel IH]; intros r st st' r' H; cbn [req_headers_loop] in H; [discriminate|].
  destruct (scan_next b r) as [nx| |] eqn:Hn; cbn [bind] in H; try discriminate.
  destruct nx as [k val inner r1 | e r1].
  - destruct (req_header_step cfg v st k val inner) as [[st1|e]| |] eqn:Hst; cbn [bind] in H; try discriminate.
    apply IH in H as (l & Hsc & Hsteps). exists ((k, val, inner) :: l). split.
    + eapply ScKV; eauto.
    + cbn [steps]. rewrite Hst. cbn [bind]. exact Hsteps.
  - destruct e; [discriminate|]. injection H as <- <-. exists []. split; [constructor; exact Hn|reflexivity].
Qed.

Lemma finish_cl v st : q_cl (req_finish v st) = q_cl st.
Proof.
  unfold req_finish.
  destruct (q_cl st <? 0)%Z eqn:E1; cbn;
  repeat match goal with |- context [if ?b then _ else _] => destruct b; cbn end; reflexivity.
Qed.
Lemma finish_close v st : q_closeAfter st || (q_clSeen st && q_teSeen st) = true -> q_close (req_finish v st) = true.
Proof.
  unfold req_finish. intros H.
  destruct (q_cl st <? 0)%Z; cbn; rewrite H; cbn; rewrite andb_false_r; reflexivity.
Qed.

Lemma head_fields cfg w hd n :
  req_head_parse cfg w = HOk (hd, n) ->
  exists line l st,
    HeadFields w line l /\ steps cfg (rl_noHTTP11 line) rq_init l = Ok (StOk st) /\
    meth hd = rl_method line /\ target hd = rl_uri line /\ http11 hd = negb (rl_noHTTP11 line) /\
    content_length hd = q_cl st /\
    (q_closeAfter st || (q_clSeen st && q_teSeen st) = true -> conn_close hd = true).
Proof.
  unfold req_head_parse, req_parse_R. intros H.
  destruct (req_parseFirstLine w) as [fl| |] eqn:Hfl; cbn [bind] in H; try discriminate.
  destruct fl as [|e|line]; try discriminate.
  destruct (slice w (rl_len line) (length w)) as [rest| |] eqn:Hsl; cbn [bind] in H; try discriminate.
  destruct (readRawHeaders rest) as [[[raw rawEnd]|]| |] eqn:Hraw; cbn [bind] in H; try discriminate.
  unfold req_parseHeaders in H.
  destruct (scan_init rest rawEnd) as [ir| |] eqn:Hinit; cbn [bind] in H; try discriminate.
  destruct ir as [| | | |b]; cbn [bind] in H; try discriminate.
  - (* empty header block *)
    destruct (http11 _ && _); [discriminate|]. injection H as <- <-.
    exists line, [], rq_init. split; [|split; [reflexivity|]].
    + exists rest, raw, rawEnd. repeat split; auto.
    + cbn. repeat split; auto. apply finish_cl. intros Hx; discriminate Hx.
  - destruct (req_headers_loop (S (length b)) cfg (rl_noHTTP11 line) b 0 rq_init) as [[[st r]|e]| |] eqn:Hloop;
      cbn [bind] in H; try discriminate.
    destruct (http11 _ && _); [discriminate|]. injection H as <- <-.
    apply loop_steps in Hloop as (l & Hsc & Hsteps).
    exists line, l, st. split; [|split; [exact Hsteps|]].
    + exists rest, raw, rawEnd. repeat split; auto. right. eauto.
    + cbn. repeat split; auto using finish_cl, finish_close.
Qed.

(* ---------- parseContentLength is C30's ParseUint ---------- *)
Lemma pcl_parseuint v : parseContentLength v = Ints.pres_opt (Ints.ParseUint 64 v).
Proof.
  unfold parseContentLength, Ints.ParseUint.
  destruct (Ints.parseUintBuf 64 v) as [[val cnt] err].
  destruct err; destruct (cnt =? Z.of_nat (length v))%Z; reflexivity.
Qed.

Lemma dec_value_bridge s : forall a, forallb Rfc9112.is_digit s = true ->
  fold_left (fun a c => (10 * a + (Z.of_N c - 48))%Z) s (Z.of_N a) =
  Z.of_N (fold_left (fun a c => (10 * a + (c - 48))%N) s a).
Proof.
  induction s as [|c s IH]; intros a H; [reflexivity|].
  cbn [forallb] in H. apply andb_true_iff in H as [Hc Hs]. cbn [fold_left].
  rewrite <- IH by exact Hs. f_equal. unfold Rfc9112.is_digit in Hc. lia.
Qed.

Lemma pcl_value v n : wf_bytes v -> parseContentLength v = Some n ->
  Rfc9112.all_digits v = true /\ n = Z.of_N (Rfc9112.dec_value v).
Proof.
  intros Hwf H. rewrite pcl_parseuint in H.
  destruct (Ints.ParseUint 64 v) as [x|e] eqn:Hp; [|discriminate]. injection H as <-.
  apply (IntsProof.parse_ok_is_value 64 v x (or_intror eq_refl) Hwf) in Hp as (Hne & Hd & Hv & _).
  assert (Hd' : forallb Rfc9112.is_digit v = true) by exact Hd.
  split.
  - unfold Rfc9112.all_digits. destruct v; [congruence|exact Hd'].
  - rewrite Hv. unfold IntsSpec.dec_value, Rfc9112.dec_value. apply (dec_value_bridge v 0%N Hd').
Qed.

(* ---------- caseInsensitiveCompare against an all-letters constant ---------- *)
Lemma byte_forall (P : N -> bool) : forallb P (map N.of_nat (seq 0 256)) = true -> forall x, (x < 256)%N -> P x = true.
Proof.
  intros H x Hx. rewrite forallb_forall in H. apply H. apply in_map_iff. exists (N.to_nat x). split.
  - apply N2Nat.id.
  - apply in_seq. lia.
Qed.

Definition letters : list N := map N.of_nat (seq 97 26).
Lemma lor32_letter x c : (x < 256)%N -> In c letters -> N.lor x 32 = c -> x = c \/ x = (c - 32)%N.
Proof.
  intros Hx Hc H.
  assert (Hall : forallb (fun x => forallb (fun c => implb (N.lor x 32 =? c)%N ((x =? c) || (x =? c - 32))%N) letters)
                         (map N.of_nat (seq 0 256)) = true) by (vm_compute; reflexivity).
  pose proof (byte_forall _ Hall x Hx) as H1. rewrite forallb_forall in H1. specialize (H1 c Hc).
  rewrite H, N.eqb_refl in H1. cbn in H1. apply orb_true_iff in H1 as [H1|H1]; apply N.eqb_eq in H1; auto.
Qed.

Lemma lor32_letter' x c : (x < 256)%N -> (97 <= c <= 122)%N -> N.lor x 32 = c -> x = c \/ x = (c - 32)%N.
Proof.
  intros Hx Hc. apply lor32_letter; [exact Hx|]. unfold letters. apply in_map_iff. exists (N.to_nat c). split; [lia|].
  apply in_seq. lia.
Qed.

Ltac split_bytes Hwf :=
  unfold wf_bytes in Hwf;
  repeat match goal with H : Forall _ (_ :: _) |- _ => apply Forall_cons_iff in H; destruct H end.
Ltac split_cic H :=
  repeat match type of H with (_ && _) = true => let H1 := fresh "Hb" in apply andb_true_iff in H; destruct H as [H1 H] end.
Ltac case_letter :=
  match goal with
  | Hx : (?x < 256)%N, H : (N.lor ?x 32 =? ?k)%N = true |- _ =>
      apply N.eqb_eq in H;
      let k' := eval vm_compute in k in
      change k with k' in H;
      let E := fresh "E" in
      destruct (lor32_letter' x k' Hx ltac:(lia) H) as [E | E]; vm_compute in E; subst x; clear H Hx
  end.

Lemma rfc_te_chunked t : wf_bytes t -> cic t strChunked = true -> forall cls,
  rfc_decision true [t] cls = {| d_class := match cls with [] => Clean | _ => AmbiguousMustClose end; d_len := BChunked |}.
Proof.
  intros Hwf H.
  destruct t as [|a [|b [|c [|d [|e [|f [|g [|x r]]]]]]]]; try (unfold strChunked in H; cbn [cic] in H; rewrite ?andb_false_r in H; discriminate H).
  unfold strChunked in H. cbn [cic] in H. split_cic H. split_bytes Hwf.
  repeat case_letter; intros [|c0 cls]; vm_compute; reflexivity.
Qed.

Lemma rfc_te_identity t : wf_bytes t -> cic t strIdentity = true -> forall cls,
  rfc_decision true [t] cls = {| d_class := AmbiguousMustClose; d_len := BNone |}.
Proof.
  intros Hwf H.
  destruct t as [|a [|b [|c [|d [|e [|f [|g [|i [|x r]]]]]]]]];
    try (unfold strIdentity in H; cbn [cic] in H; rewrite ?andb_false_r in H; discriminate H).
  unfold strIdentity in H. cbn [cic] in H. split_cic H. split_bytes Hwf.
  repeat case_letter; intros cls; vm_compute; reflexivity.
Qed.

Definition decision_sound (c : cdec) (r : decision) : Prop :=
  match c with
  | CReject => True
  | CAccept cl close =>
      d_class r <> Invalid /\
      (d_class r <> Clean -> close = true) /\
      match d_len r with
      | BFixed n => cl = Z.of_N n \/ (n = 0%N /\ cl = (-2)%Z)
      | BChunked => cl = (-1)%Z
      | BNone => True
      end
  end.

Theorem framing_decision v11 tes cls :
  Forall wf_bytes tes -> Forall wf_bytes cls ->
  decision_sound (code_decision (negb v11) tes cls) (rfc_decision v11 tes cls).
Proof.
  intros Ht Hc. unfold code_decision.
  destruct cls as [|c [|c2 cr]]; [| |exact I].
  - (* no Content-Length *)
    destruct tes as [|t [|t2 tr]]; [| |exact I].
    + cbn. repeat split; try discriminate; auto.
    + destruct v11; cbn [negb]; [|exact I]. apply Forall_cons_iff in Ht as [Ht _].
      destruct (cic t strChunked) eqn:Ech.
      * rewrite (rfc_te_chunked t Ht Ech). cbn. repeat split; try discriminate; auto; try (intros H; now elim H).
      * destruct (cic t strIdentity) eqn:Eid; [|exact I].
        rewrite (rfc_te_identity t Ht Eid). cbn. repeat split; try discriminate; auto.
  - (* one Content-Length *)
    apply Forall_cons_iff in Hc as [Hc _].
    destruct (parseContentLength c) as [n|] eqn:Epc; [|exact I].
    destruct (pcl_value c n Hc Epc) as [Hd Hn].
    destruct tes as [|t [|t2 tr]]; [| |exact I].
    + cbn [rfc_decision cl_decision]. rewrite Hd. cbn. repeat split; try discriminate; auto; try (intros H; now elim H).
    + destruct v11; cbn [negb]; [|exact I]. apply Forall_cons_iff in Ht as [Ht _].
      destruct (cic t strChunked) eqn:Ech.
      * rewrite (rfc_te_chunked t Ht Ech). cbn. repeat split; try discriminate; auto.
      * destruct (cic t strIdentity) eqn:Eid; [|exact I].
        rewrite (rfc_te_identity t Ht Eid). cbn. repeat split; try discriminate; auto.
Qed.

Lemma tables_keep_class x : (x < 256)%N ->
  N.lor (tbl toUpperTable x) 32 = N.lor x 32 /\ N.lor (tbl toLowerTable x) 32 = N.lor x 32.
Proof.
  intros Hx.
  pose proof (byte_forall (fun x => (N.lor (tbl toUpperTable x) 32 =? N.lor x 32)%N && (N.lor (tbl toLowerTable x) 32 =? N.lor x 32)%N)
                ltac:(vm_compute; reflexivity) x Hx) as H.
  apply andb_true_iff in H as [H1 H2]. split; now apply N.eqb_eq.
Qed.

Lemma nhk_cic s : wf_bytes s -> forall up t, cic (nhk_loop up s) t = cic s t.
Proof.
  induction s as [|x s IH]; intros Hs up t; [reflexivity|].
  apply Forall_cons_iff in Hs as [Hx Hs]. cbn [nhk_loop cic]. destruct t as [|y t]; [reflexivity|].
  destruct (tables_keep_class x Hx) as [H1 H2]. rewrite IH by exact Hs.
  destruct up; [rewrite H1|rewrite H2]; reflexivity.
Qed.
Lemma nhk_first s : wf_bytes s -> forall up, first_lower (nhk_loop up s) = first_lower s.
Proof.
  destruct s as [|x s]; intros Hs up; [reflexivity|]. apply Forall_cons_iff in Hs as [Hx _].
  cbn [nhk_loop first_lower]. destruct (tables_keep_class x Hx) as [H1 H2]. destruct up; assumption.
Qed.


(* ================= trailers cannot inject "Expect" ================= *)
Lemma cic_refl a : cic a a = true.
Proof. induction a as [|x a IH]; [reflexivity|]. cbn. now rewrite N.eqb_refl, IH. Qed.

Lemma ivhk_wf : forall a s i r, ivhk_loop a s i = (true, r) -> wf_bytes a.
Proof.
  unfold wf_bytes. induction a as [|c a IH]; intros s i r; cbn [ivhk_loop]; [constructor|].
  destruct (N.eqb_spec c SP) as [->|].
  - intros H. constructor; [reflexivity|eauto].
  - unfold validHeaderFieldByte. destruct (c <? 128)%N eqn:Ec; cbn [andb negb]; [|discriminate].
    destruct (_ =? 1)%N; cbn [negb]; [|discriminate]. intros H. constructor; [lia|eauto].
Qed.

Lemma scan_next_key_wf b r k v inner r1 : scan_next b r = Ok (NKV k v inner r1) -> wf_bytes k.
Proof.
  unfold scan_next. intros H.
  destruct (readContinuedLineSlice b r) as [cl| |]; cbn [bind] in H; try discriminate.
  destruct cl as [r0|r0|kv colon r0]; try discriminate.
  destruct kv as [|x kv]; [discriminate|].
  destruct (slice (x :: kv) 0 colon) as [k0| |]; cbn [bind] in H; try discriminate.
  destruct (slice (x :: kv) (colon + 1) _) as [v0| |]; cbn [bind] in H; try discriminate.
  destruct (isValidHeaderKey k0) as [valid inn] eqn:Ev. destruct valid; cbn [negb] in H; [|discriminate].
  injection H as <- _ _ _. destruct k0 as [|c k0]; [discriminate|]. eapply ivhk_wf; exact Ev.
Qed.

Lemma wf_drop_while_right k : wf_bytes k -> wf_bytes (trimTrailingSpace k).
Proof.
  unfold trimTrailingSpace, drop_while_right, wf_bytes. intros H. apply Forall_rev.
  assert (Hr : Forall (fun x => (x < 256)%N) (rev k)) by now apply Forall_rev.
  induction (rev k) as [|c l IH]; cbn; [constructor|]. inversion Hr; subst. destruct (is_sp_ht c); auto.
Qed.

Lemma bad_trailer_expect key dis : wf_bytes key -> isBadTrailer key = Ok false ->
  normalizeHeaderKeyValidated key dis <> strExpect.
Proof.
  intros Hw Hb He.
  assert (Hc : cic key strExpect = true).
  { unfold normalizeHeaderKeyValidated in He. destruct dis; [rewrite He; apply cic_refl|].
    rewrite <- (nhk_cic key Hw true). rewrite He. apply cic_refl. }
  destruct key as [|k0 key']; [discriminate|].
  assert (H0 : N.lor k0 32 = 101%N).
  { unfold strExpect in Hc. cbn [cic] in Hc. apply andb_true_iff in Hc as [Hc _]. apply N.eqb_eq in Hc. exact Hc. }
  unfold isBadTrailer in Hb. rewrite H0 in Hb.
  repeat match type of Hb with context [N.eqb 101 ?x] =>
    let v := eval vm_compute in (N.eqb 101 x) in change (N.eqb 101 x) with v in Hb end.
  cbv iota in Hb. rewrite Hc in Hb. discriminate.
Qed.

Lemma trailer_loop_no_expect dn b : forall fuel r acc n tf,
  Forall (fun kv => fst kv <> strExpect) acc ->
  trailer_loop fuel dn b r acc = Ok (PTOk n tf) -> Forall (fun kv => fst kv <> strExpect) tf.
Proof.
  induction fuel as [|f IH]; intros r acc n tf Hacc H; cbn [trailer_loop] in H; [discriminate|].
  destruct (scan_next b r) as [nx| |] eqn:Hn; cbn [bind] in H; try discriminate.
  destruct nx as [k v inner r1|[e|] r1]; [|discriminate|injection H as _ <-; exact Hacc].
  pose proof (wf_drop_while_right _ (scan_next_key_wf _ _ _ _ _ _ Hn)) as Hwk.
  destruct (trimTrailingSpace k) as [|k0 kr] eqn:Ek; [eapply IH; eauto|].
  destruct (isBadTrailer (k0 :: kr)) as [bad| |] eqn:Ebad; cbn [bind] in H; try discriminate.
  destruct bad; [discriminate|]. destruct (negb (validValue v)); [discriminate|].
  eapply IH; [|exact H]. unfold appendArg. apply Forall_app. split; [exact Hacc|].
  constructor; [|constructor]. cbn [fst]. now apply bad_trailer_expect.
Qed.

Lemma peek_app_absent a b k : Forall (fun kv => fst kv <> k) b -> peekArgBytes (a ++ b) k = peekArgBytes a k.
Proof.
  intros Hb. induction a as [|[k' v'] a IH]; cbn [app peekArgBytes].
  - induction b as [|[k' v'] b IHb]; [reflexivity|]. inversion Hb as [|? ? Hk Hb']; subst. cbn [peekArgBytes fst] in *.
    destruct (beq k' k) eqn:E; [apply beq_eq in E; congruence|]. now apply IHb.
  - destruct (beq k' k); [reflexivity|exact IH].
Qed.

Lemma no_expect_injection c hd b body rest tf :
  read_req_body c hd b = RbOk body rest tf ->
  peekArgBytes (fields hd ++ tf) strExpect = peekArgBytes (fields hd) strExpect.
Proof.
  intros H. apply peek_app_absent. revert H. unfold read_req_body.
  match goal with |- (if ?x then _ else _) = _ -> _ => destruct x end; [discriminate|].
  match goal with |- context [match ?x with [] => _ | _ :: _ => _ end] => destruct x as [|x0 bd] end.
  - destruct (content_length hd =? -1)%Z.
    + destruct (readBodyChunked (c_maxbody c) [] b) as [d r pk|e d pk| |] eqn:Er; try discriminate; [|destruct e; discriminate].
      unfold read_trailer. destruct r as [|y r]; [discriminate|].
      destruct (parse_trailer _ _) as [[n tf'| |]| |] eqn:Ep; try discriminate.
      * intros [= _ _ <-]. unfold parse_trailer in Ep.
        destruct (scan_init (firstn (c_bsize c) (y :: r)) 0) as [ir| |] eqn:Ei; cbn [bind] in Ep; try discriminate.
        destruct ir as [| | | |b']; try discriminate; [injection Ep as _ <-; constructor|].
        eapply (trailer_loop_no_expect _ b'); [constructor|exact Ep].
      * match goal with |- context [if ?x then TrFail ESmallBuf else _] => destruct x end; discriminate.
    + destruct (reqReadBody _ _ _ _) as [d r pk|e d pk| |]; try discriminate. intros [= _ _ <-]. constructor.
  - destruct (peekArgBytes (fields hd) strContentEncoding).
    + match goal with |- (if ?x then _ else _) = _ -> _ => destruct x end; [discriminate|].
      destruct (Multipart.read_form _ _ _); [|discriminate]. intros [= _ _ <-]. constructor.
    + destruct (reqReadBody _ _ _ _) as [d r pk|e d pk| |]; try discriminate. intros [= _ _ <-]. constructor.
Qed.

(* hence the serve loop's second MayContinue() never fires: the message is the first body read *)
Definition head_expect (hd : req_head) : bool := beq (peekArgBytes (fields hd) strExpect) str100Continue.

Lemma read_req_message_eq c hd b :
  read_req_message c hd (head_expect hd) b =
  match read_req_body c hd b with
  | RbOk body rest _ => RmOk body rest false
  | RbFail e => RmFail e false
  | RbEof => RmEof false
  | RbBug => RmBug
  end.
Proof.
  unfold read_req_message. destruct (read_req_body c hd b) as [body rest tf|e| |] eqn:E; try reflexivity.
  rewrite (no_expect_injection _ _ _ _ _ _ E). unfold head_expect. now rewrite andb_negb_l.
Qed.

(* ================= the serve loop ================= *)


Definition disp (x : list dispatched * list response * outcome) : list dispatched := fst (fst x).

Lemma disp_cons_d d x : disp (cons_d d x) = d :: disp x.
Proof. destruct x as [[ds rs] o]. reflexivity. Qed.
Lemma disp_cons_r r x : disp (cons_r r x) = disp x.
Proof. destruct x as [[ds rs] o]. reflexivity. Qed.
Lemma disp_pre (b : bool) r x : disp (if b then cons_r r x else x) = disp x.
Proof. destruct b; [apply disp_cons_r|reflexivity]. Qed.

(* one iteration of the loop, as far as dispatching goes *)
Definition mk_disp (c : fcfg) (rem : bytes) (off : nat) (hd : req_head) (n : nat) (body : option bytes) (rest : bytes) : dispatched :=
  {| dp_win := firstn (c_bsize c) rem; dp_off := off; dp_hlen := n; dp_len := length rem - length rest;
     dp_method := meth hd; dp_uri := target hd; dp_body := body; dp_close := conn_close hd |}.

Inductive iter_res :=
| ItStop                                                        (* nothing dispatched in this iteration *)
| ItDisp (hd : req_head) (n : nat) (body : option bytes) (rest : bytes).

Definition serve_iter (c : fcfg) (rem : bytes) : iter_res :=
  match rem with
  | [] => ItStop
  | _ =>
      match req_head_parse (hcfg_of c) (firstn (c_bsize c) rem) with
      | HOk (hd, n) =>
          match Uri.parse (host hd) (target hd) with
          | Uri.UErr _ => ItStop
          | Uri.UOk _ =>
              if c_getonly c && negb (is_get_or_head (meth hd)) then ItStop
              else match read_req_body c hd (skipn n rem) with
                   | RbOk body rest _ => ItDisp hd n body rest
                   | _ => ItStop
                   end
          end
      | _ => ItStop
      end
  end.

Lemma disp_serve_S f c rem off :
  disp (serve (S f) c rem off) =
  match serve_iter c rem with
  | ItStop => []
  | ItDisp hd n body rest =>
      mk_disp c rem off hd n body rest ::
      (if conn_close hd then []
       else if (0 <? length rem - length rest) && (length rem - length rest <=? length rem)
            then disp (serve f c rest (off + (length rem - length rest))) else [])
  end.
Proof.
  unfold serve_iter. cbn [serve]. destruct rem as [|x rem']; [reflexivity|].
  set (rem := x :: rem').
  destruct (req_head_parse (hcfg_of c) (firstn (c_bsize c) rem)) as [[hd n]| |e| |]; try reflexivity.
  - destruct (Uri.parse (host hd) (target hd)); [|reflexivity].
    destruct (c_getonly c && negb (is_get_or_head (meth hd))); [reflexivity|].
    change (beq (peekArgBytes (fields hd) strExpect) str100Continue) with (head_expect hd).
    rewrite read_req_message_eq.
    destruct (read_req_body c hd (skipn n rem)) as [body rest tf|e| |]; try (rewrite disp_pre; reflexivity); [|reflexivity].
    rewrite disp_pre, disp_cons_d, disp_cons_r. unfold mk_disp. f_equal.
    destruct (conn_close hd); [reflexivity|].
    destruct ((0 <? length rem - length rest) && (length rem - length rest <=? length rem)); reflexivity.
  - destruct (isOnlyCRLF _); [reflexivity|]. destruct (c_bsize c <=? length rem); reflexivity.
Qed.

Lemma disp_serve_0 c rem off : disp (serve 0 c rem off) = [].
Proof. reflexivity. Qed.

(* a request dispatched with its connectionClose flag set is the last one *)
Lemma serve_close_last c : forall fuel rem off i d,
  nth_error (disp (serve fuel c rem off)) i = Some d -> dp_close d = true ->
  S i = length (disp (serve fuel c rem off)).
Proof.
  induction fuel as [|f IH]; intros rem off i d Hn Hc.
  - rewrite disp_serve_0 in Hn. destruct i; discriminate.
  - rewrite disp_serve_S in *. destruct (serve_iter c rem) as [|hd n body rest]; [destruct i; discriminate|].
    destruct i as [|i]; cbn [nth_error] in Hn.
    + injection Hn as <-. cbn [dp_close mk_disp] in Hc. rewrite Hc. reflexivity.
    + destruct (conn_close hd); [destruct i; discriminate|].
      destruct ((0 <? _) && _); [|destruct i; discriminate].
      cbn [length]. f_equal. eapply IH; eauto.
Qed.

(* every dispatched request went through an accepted head, read from its window *)
Lemma serve_dispatch_head c : forall fuel rem off i d,
  nth_error (disp (serve fuel c rem off)) i = Some d ->
  exists hd, req_head_parse (hcfg_of c) (dp_win d) = HOk (hd, dp_hlen d) /\
             dp_close d = conn_close hd /\ dp_method d = meth hd /\ dp_uri d = target hd.
Proof.
  induction fuel as [|f IH]; intros rem off i d Hn.
  - rewrite disp_serve_0 in Hn. destruct i; discriminate.
  - rewrite disp_serve_S in Hn. destruct (serve_iter c rem) as [|hd n body rest] eqn:Hit; [destruct i; discriminate|].
    destruct i as [|i]; cbn [nth_error] in Hn.
    + injection Hn as <-. exists hd. cbn. repeat split; auto.
      unfold serve_iter in Hit. destruct rem as [|x rem']; [discriminate|].
      destruct (req_head_parse _ _) as [[hd' n']| |e| |]; try discriminate.
      destruct (Uri.parse _ _); [|discriminate].
      destruct (c_getonly c && _); [discriminate|].
      destruct (read_req_body _ _ _); try discriminate. injection Hit as <- <- _ _. reflexivity.
    + destruct (conn_close hd); [destruct i; discriminate|].
      destruct ((0 <? _) && _); [|destruct i; discriminate]. eapply IH; eauto.
Qed.



Definition suffix (r b : bytes) : Prop := exists p, b = p ++ r.
Lemma suffix_refl b : suffix b b. Proof. now exists []. Qed.
Lemma suffix_nil b : suffix [] b. Proof. exists b. now rewrite app_nil_r. Qed.
Lemma suffix_trans a b c : suffix a b -> suffix b c -> suffix a c.
Proof. intros [p ->] [q ->]. exists (q ++ p). now rewrite app_assoc. Qed.
Lemma suffix_skipn n b : suffix (skipn n b) b.
Proof. exists (firstn n b). now rewrite firstn_skipn. Qed.
Lemma suffix_length r b : suffix r b -> length r <= length b /\ r = skipn (length b - length r) b.
Proof.
  intros [p ->]. rewrite app_length. split; [lia|].
  replace (length p + length r - length r) with (length p) by lia.
  now rewrite skipn_app, skipn_all, Nat.sub_diag.
Qed.

Lemma parseChunkSize_suffix b n r : parseChunkSize b = PCOk n r -> suffix r b.
Proof.
  unfold parseChunkSize.
  destruct (Ints.readHexInt 64 GenC30.maxHexIntChars64 b) as [v r0|e] eqn:E0; [|destruct e; discriminate].
  destruct (pcs_loop r0 false false) as [r1|] eqn:E1; [|discriminate].
  destruct (readCrLf r1) as [r2|] eqn:E2; [|discriminate].
  intros [= _ <-].
  apply BodyProof.rhi_loop_split in E0. apply BodyProof.pcs_loop_split in E1. apply BodyProof.readCrLf_split in E2.
  eapply suffix_trans; [exact E2|]. eapply suffix_trans; [exact E1|exact E0].
Qed.

Lemma abfs_suffix b dst n pk d r pk' : appendBodyFixedSize b dst n pk = BOk d r pk' -> suffix r b.
Proof. intros H. apply BodyProof.appendBodyFixedSize_ok in H as (_ & _ & _ & -> & _). apply suffix_skipn. Qed.

Lemma rbc_loop_suffix : forall fuel max dst b pk d r pk', rbc_loop fuel max dst b pk = BOk d r pk' -> suffix r b.
Proof.
  induction fuel as [|f IH]; intros max dst b pk d r pk'; cbn [rbc_loop]; [discriminate|].
  destruct (parseChunkSize b) as [n r0|e] eqn:Ep; [|discriminate].
  apply parseChunkSize_suffix in Ep.
  destruct (n =? 0)%Z; [intros [= _ <- _]; exact Ep|].
  destruct ((max >? 0)%Z && (blen dst + n >? max)%Z); [discriminate|].
  destruct (appendBodyFixedSize r0 dst (n + blen GenC34.strCRLF) pk) as [d1 r1 pk1|e d1 pk1| |] eqn:Ea; try discriminate.
  destruct (ends_crlf d1); [|discriminate].
  intros H. apply IH in H. apply abfs_suffix in Ea.
  eapply suffix_trans; [exact H|]. eapply suffix_trans; [exact Ea|exact Ep].
Qed.

Lemma readBodyChunked_suffix max b d r pk : readBodyChunked max [] b = BOk d r pk -> suffix r b.
Proof. unfold readBodyChunked. change (0 <? blen [])%Z with false. cbv iota. apply rbc_loop_suffix. Qed.

Lemma rbi_loop_rest : forall fuel max rs b acc dl off pk d r pk', rbi_loop fuel max rs b acc dl off pk = BOk d r pk' -> r = [].
Proof.
  induction fuel as [|f IH]; intros max rs b acc dl off pk d r pk'; cbn [rbi_loop]; [discriminate|].
  destruct b as [|x b]; [intros [= _ <- _]; reflexivity|].
  cbv zeta. destruct (_ && _); [discriminate|]. destruct (_ =? _)%Z; apply IH.
Qed.

Lemma reqReadBody_suffix tr cl max b d r pk : cl <> (-1)%Z -> reqReadBody tr cl max b = BOk d r pk -> suffix r b.
Proof.
  intros Hcl. unfold reqReadBody.
  destruct (_ && _); [discriminate|].
  destruct (cl =? -2)%Z; [intros [= _ <- _]; apply suffix_refl|].
  destruct (cl >=? 0)%Z.
  - unfold readBody. destruct (_ && _); [discriminate|]. apply abfs_suffix.
  - destruct (Z.eqb_spec cl (-1)); [contradiction|].
    unfold readBodyIdentity. intros H. apply rbi_loop_rest in H. subst r. apply suffix_nil.
Qed.

Lemma read_req_body_suffix c hd b body rest tf : read_req_body c hd b = RbOk body rest tf -> suffix rest b.
Proof.
  unfold read_req_body.
  match goal with |- (if ?x then _ else _) = _ -> _ => destruct x end; [discriminate|].
  match goal with |- context [match ?x with [] => _ | _ :: _ => _ end] => destruct x as [|x0 bd] eqn:Eb end.
  - destruct (Z.eqb_spec (content_length hd) (-1)) as [E|E].
    + destruct (readBodyChunked (c_maxbody c) [] b) as [d r pk|e d pk| |] eqn:Er; try discriminate.
      * unfold read_trailer. destruct r as [|y r]; [discriminate|].
        destruct (parse_trailer _ _) as [[n tf'| |]| |]; try discriminate.
        -- intros [= _ <- _]. eapply suffix_trans; [apply suffix_skipn|]. eapply readBodyChunked_suffix; eauto.
        -- match goal with |- context [if ?x then TrFail ESmallBuf else _] => destruct x end; discriminate.
      * destruct e; discriminate.
    + destruct (reqReadBody trailer_reject (content_length hd) (c_maxbody c) b) as [d r pk|e d pk| |] eqn:Er; try discriminate.
      intros [= _ <- _]. eapply reqReadBody_suffix; eauto.
  - destruct (peekArgBytes (fields hd) strContentEncoding).
    + match goal with |- (if ?x then _ else _) = _ -> _ => destruct x end; [discriminate|].
      destruct (Multipart.read_form _ _ _); [|discriminate].
      intros [= _ <- _]. apply suffix_skipn.
    + assert (Hpos : (content_length hd >? 0)%Z = true).
      { destruct (content_length hd >? 0)%Z; [reflexivity|]. cbn in Eb. discriminate. }
      destruct (reqReadBody trailer_reject (content_length hd) (c_maxbody c) b) as [d r pk|e d pk| |] eqn:Er; try discriminate.
      intros [= _ <- _]. eapply reqReadBody_suffix; eauto. lia.
Qed.

Lemma serve_iter_inv c rem hd n body rest :
  serve_iter c rem = ItDisp hd n body rest ->
  rem <> [] /\ req_head_parse (hcfg_of c) (firstn (c_bsize c) rem) = HOk (hd, n) /\
  (c_getonly c = true -> is_get_or_head (meth hd) = true) /\
  exists tf, read_req_body c hd (skipn n rem) = RbOk body rest tf.
Proof.
  unfold serve_iter. destruct rem as [|x rem']; [discriminate|]. set (rem := x :: rem').
  destruct (req_head_parse _ _) as [[hd' n']| |e| |]; try discriminate.
  destruct (Uri.parse _ _); [|discriminate].
  destruct (c_getonly c) eqn:Eg; cbn [andb].
  - destruct (is_get_or_head (meth hd')) eqn:Em; cbn [negb]; [|discriminate].
    destruct (read_req_body _ _ _) eqn:Er; try discriminate. intros [= <- <- <- <-]. repeat split; eauto. discriminate.
  - destruct (read_req_body _ _ _) eqn:Er; try discriminate. intros [= <- <- <- <-]. repeat split; eauto; discriminate.
Qed.

Lemma skipn_skipn' {A} a b (l : list A) : skipn a (skipn b l) = skipn (b + a) l.
Proof. revert l; induction b as [|b IH]; intros l; [reflexivity|]. destruct l; [now rewrite !skipn_nil|]. cbn. apply IH. Qed.

Lemma head_len_aux_pos ih cur b : forall k N, HeadSpec.head_len_aux ih cur b k = Some N -> k < N.
Proof.
  revert ih cur. induction b as [|x b IH]; intros ih cur k N; cbn [HeadSpec.head_len_aux]; [discriminate|].
  destruct (N.eqb x LF).
  - destruct (HeadSpec.cur_blank cur).
    + destruct ih; [intros [= <-]; lia|]. intros H. apply IH in H. lia.
    + intros H. apply IH in H. lia.
  - intros H. apply IH in H. lia.
Qed.

Lemma head_consumed_pos cfg w hd n : req_head_parse cfg w = HOk (hd, n) -> 0 < n <= length w.
Proof.
  intros H. apply HeadTotalProof.req_head_no_overread in H as [H1 H2]. apply head_len_aux_pos in H1. lia.
Qed.

Lemma serve_offsets c s : forall fuel off i d,
  off <= length s ->
  nth_error (disp (serve fuel c (skipn off s) off)) i = Some d ->
  dp_win d = firstn (c_bsize c) (skipn (dp_off d) s) /\ dp_off d + dp_len d <= length s /\ 0 < dp_hlen d <= dp_len d /\
  off <= dp_off d /\ (i = 0 -> dp_off d = off) /\
  (forall d', nth_error (disp (serve fuel c (skipn off s) off)) (S i) = Some d' -> dp_off d' = dp_off d + dp_len d).
Proof.
  induction fuel as [|f IH]; intros off i d Hoff Hn.
  - rewrite disp_serve_0 in Hn. destruct i; discriminate.
  - rewrite disp_serve_S in *. set (rem := skipn off s) in *.
    destruct (serve_iter c rem) as [|hd n body rest] eqn:Hit; [destruct i; discriminate|].
    apply serve_iter_inv in Hit as (Hne & Hp & _ & tf0 & Hb).
    apply read_req_body_suffix in Hb.
    assert (Hsuf : suffix rest rem) by (eapply suffix_trans; [exact Hb|apply suffix_skipn]).
    destruct (suffix_length _ _ Hsuf) as [Hle Hrest].
    destruct (suffix_length _ _ Hb) as [Hle2 _]. rewrite skipn_length in Hle2.
    assert (Hlen : length rem = length s - off) by (unfold rem; apply skipn_length).
    apply head_consumed_pos in Hp. rewrite firstn_length in Hp.
    set (len := length rem - length rest) in *.
    assert (Hlendef : len = length rem - length rest) by reflexivity.
    assert (Hb1 : off + len <= length s) by lia.
    assert (Hb2 : n <= len) by lia.
    assert (Hrest' : rest = skipn (off + len) s) by (rewrite Hrest; unfold rem; apply skipn_skipn').
    destruct i as [|i]; cbn [nth_error] in Hn.
    + injection Hn as <-. cbn [mk_disp dp_win dp_off dp_len dp_hlen]. fold rem. fold len.
      repeat split; auto; try lia.
      intros d' Hd'. cbn [nth_error] in Hd'.
      destruct (conn_close hd); [discriminate|].
      destruct ((0 <? len) && (len <=? length rem)); [|discriminate].
      rewrite Hrest' in Hd'.
      assert (Hd'' : nth_error (disp (serve f c (skipn (off + len) s) (off + len))) 0 = Some d') by exact Hd'.
      apply IH in Hd'' as (_ & _ & _ & _ & H0 & _); [|exact Hb1]. now apply H0.
    + destruct (conn_close hd); [destruct i; discriminate|].
      destruct ((0 <? len) && (len <=? length rem)); [|destruct i; discriminate].
      rewrite Hrest' in Hn |- *. destruct (IH _ _ _ Hb1 Hn) as (H1 & H2 & H3 & H4 & H5 & H6).
      repeat split; auto; try lia.
Qed.

(* ================= scanned values are byte strings ================= *)
Lemma wf_firstn n b : wf_bytes b -> wf_bytes (firstn n b).
Proof. unfold wf_bytes. revert b; induction n; intros [|x b] H; cbn; auto. inversion H; subst. constructor; auto. Qed.
Lemma wf_skipn n b : wf_bytes b -> wf_bytes (skipn n b).
Proof. unfold wf_bytes. revert b; induction n; intros [|x b] H; cbn; auto. inversion H; subst. auto. Qed.
Lemma wf_app a b : wf_bytes a -> wf_bytes b -> wf_bytes (a ++ b).
Proof. unfold wf_bytes. intros. apply Forall_app; auto. Qed.
Lemma wf_rev b : wf_bytes b -> wf_bytes (rev b).
Proof. unfold wf_bytes. apply Forall_rev. Qed.
Lemma wf_drop_while f b : wf_bytes b -> wf_bytes (drop_while f b).
Proof. unfold wf_bytes. induction b as [|x b IH]; cbn; auto. intros H. destruct (f x); auto. inversion H; auto. Qed.
Lemma wf_trim b : wf_bytes b -> wf_bytes (trim b).
Proof. intros H. unfold trim, drop_while_right. apply wf_rev, wf_drop_while, wf_rev, wf_drop_while, H. Qed.
Lemma wf_slice b lo hi x : slice b lo hi = Ok x -> wf_bytes b -> wf_bytes x.
Proof. unfold slice. destruct (_ && _); [|discriminate]. intros [= <-] H. now apply wf_firstn, wf_skipn. Qed.

Lemma wf_readLine b r line r' : readLine b r = Ok (line, r') -> wf_bytes b -> wf_bytes line.
Proof.
  unfold readLine. intros H Hwf.
  destruct (slice b r (length b)) as [t| |] eqn:Et; cbn [bind] in H; try discriminate.
  destruct (index_byte t LF) as [i|]; [|injection H as <- _; constructor].
  destruct (slice b r (r + i)) as [l0| |] eqn:El; cbn [bind] in H; try discriminate.
  pose proof (wf_slice _ _ _ _ El Hwf) as Hl0.
  destruct (0 <? i).
  - destruct (idx l0 (i - 1)) as [c| |]; cbn [bind] in H; try discriminate.
    destruct (N.eqb c CR).
    + destruct (slice l0 0 (i - 1)) as [l1| |] eqn:El1; cbn [bind] in H; try discriminate.
      injection H as <- _. eapply wf_slice; eauto.
    + injection H as <- _. exact Hl0.
  - injection H as <- _. exact Hl0.
Qed.

Lemma wf_cont_loop : forall fuel b r mline m' r', cont_loop fuel b r mline = Ok (m', r') ->
  wf_bytes b -> wf_bytes mline -> wf_bytes m'.
Proof.
  induction fuel as [|f IH]; intros b r mline m' r' H Hb Hm; cbn [cont_loop] in H; [discriminate|].
  destruct (skipSpace b r) as [[r1 skipped]| |]; cbn [bind] in H; try discriminate.
  destruct skipped.
  - destruct (readLine b r1) as [[line r2]| |] eqn:Erl; cbn [bind] in H; try discriminate.
    eapply IH; eauto. apply wf_app; [exact Hm|]. apply wf_app.
    + repeat constructor.
    + apply wf_trim. eapply wf_readLine; eauto.
  - injection H as <- _. exact Hm.
Qed.

Lemma wf_rcls b r kv colon r1 : readContinuedLineSlice b r = Ok (CLLine kv colon r1) -> wf_bytes b -> wf_bytes kv.
Proof.
  unfold readContinuedLineSlice. intros H Hb.
  destruct (readLine b r) as [[line r0]| |] eqn:Erl; cbn [bind] in H; try discriminate.
  pose proof (wf_readLine _ _ _ _ Erl Hb) as Hl.
  destruct line as [|x line]; [discriminate|].
  destruct (index_byte (x :: line) COLON) as [cl|]; [|discriminate].
  match type of H with (do early <- ?e; _) = _ => destruct e as [early| |] end; cbn [bind] in H; try discriminate.
  destruct early.
  - injection H as <- _ _. now apply wf_trim.
  - destruct (cont_loop _ _ _ _) as [[mline r2]| |] eqn:Ec; cbn [bind] in H; try discriminate.
    injection H as <- _ _. eapply wf_cont_loop; eauto. now apply wf_trim.
Qed.

Lemma wf_scan_next b r k v inner r1 : scan_next b r = Ok (NKV k v inner r1) -> wf_bytes b -> wf_bytes k /\ wf_bytes v.
Proof.
  unfold scan_next. intros H Hb.
  destruct (readContinuedLineSlice b r) as [cl| |] eqn:Ec; cbn [bind] in H; try discriminate.
  destruct cl as [r0|r0|kv colon r0]; try discriminate.
  pose proof (wf_rcls _ _ _ _ _ Ec Hb) as Hkv.
  destruct kv as [|x kv]; [discriminate|].
  destruct (slice (x :: kv) 0 colon) as [k0| |] eqn:Ek; cbn [bind] in H; try discriminate.
  destruct (slice (x :: kv) (colon + 1) _) as [v0| |] eqn:Ev; cbn [bind] in H; try discriminate.
  destruct (isValidHeaderKey k0) as [valid inn]. destruct valid; cbn [negb] in H; [|discriminate].
  injection H as <- <- _ _. split; [eapply wf_slice; eauto|]. apply wf_drop_while. eapply wf_slice; eauto.
Qed.

Lemma wf_scanned b : wf_bytes b -> forall r l e r', Scanned b r l e r' -> Forall (fun x => wf_bytes (snd (fst x))) l.
Proof.
  intros Hb r l e r' H. induction H as [|r k v inner r1 l e r2 Hn _ IH]; [constructor|].
  constructor; [|exact IH]. cbn. eapply wf_scan_next; eauto.
Qed.

Lemma wf_scan_init b be b' : scan_init b be = Ok (IReady b') -> wf_bytes b -> wf_bytes b'.
Proof.
  unfold scan_init. intros H Hb. destruct (has_prefix strCRLF b); [discriminate|].
  match type of H with (do ob <- ?e; _) = _ => destruct e as [ob| |] eqn:Eo end; cbn [bind] in H; try discriminate.
  destruct ob as [| |x]; try discriminate.
  assert (Hx : wf_bytes x).
  { destruct (0 <? be).
    - destruct (block_end_ok b be) as [g| |]; cbn [bind] in Eo; try discriminate.
      destruct g; [|discriminate].
      destruct (slice b 0 be) as [y| |] eqn:Ey; cbn [bind] in Eo; try discriminate.
      injection Eo as <-. eapply wf_slice; eauto.
    - destruct (index_sub strCRLFCRLF b) as [i|]; [|discriminate].
      destruct (slice b 0 (i + 4)) as [y| |] eqn:Ey; cbn [bind] in Eo; try discriminate.
      injection Eo as <-. eapply wf_slice; eauto. }
  destruct x as [|c x]; [injection H as <-; exact Hx|].
  destruct (is_sp_ht c); [discriminate|]. injection H as <-. exact Hx.
Qed.

Lemma wf_head_fields w line l : wf_bytes w -> HeadFields w line l -> Forall (fun x => wf_bytes (snd (fst x))) l.
Proof.
  intros Hw (rest & raw & rawEnd & _ & Hsl & _ & [[_ ->]|(b & r & Hi & Hs)]); [constructor|].
  eapply wf_scanned; [|exact Hs]. eapply wf_scan_init; [exact Hi|]. eapply wf_slice; eauto.
Qed.

Lemma wf_vals cfg l : Forall (fun x => wf_bytes (snd (fst x))) l ->
  Forall wf_bytes (te_vals cfg l) /\ Forall wf_bytes (cl_vals cfg l).
Proof.
  intros H. unfold te_vals, cl_vals. split; apply Forall_map; apply Forall_forall; intros x Hx;
    apply filter_In in Hx as [Hx _]; rewrite Forall_forall in H; now apply H.
Qed.

Lemma scanned_fun b : forall r l e r', Scanned b r l e r' -> forall l2 e2 r2, Scanned b r l2 e2 r2 -> l = l2 /\ e = e2 /\ r' = r2.
Proof.
  intros r l e r' H. induction H as [r e r1 Hn|r k v inner r1 l e r2 Hn _ IH]; intros l2 e2 r3 H2; inversion H2; subst.
  - rewrite Hn in H. injection H as <- <-. auto.
  - rewrite Hn in H. discriminate.
  - rewrite Hn in H. discriminate.
  - rewrite Hn in H. injection H as <- <- <- <-. destruct (IH _ _ _ H0) as (-> & -> & ->). auto.
Qed.

Lemma head_fields_fun w line l line' l' : HeadFields w line l -> HeadFields w line' l' -> line = line' /\ l = l'.
Proof.
  intros (rest & raw & rawEnd & H1 & H2 & H3 & H4) (rest' & raw' & rawEnd' & H1' & H2' & H3' & H4').
  rewrite H1 in H1'. injection H1' as <-. rewrite H2 in H2'. injection H2' as <-.
  rewrite H3 in H3'. injection H3' as <- <-. split; [reflexivity|].
  destruct H4 as [[Hi ->]|(b & r & Hi & Hs)], H4' as [[Hi' ->]|(b' & r' & Hi' & Hs')]; try (rewrite Hi in Hi'; discriminate).
  - reflexivity.
  - rewrite Hi in Hi'. injection Hi' as <-. now destruct (scanned_fun _ _ _ _ _ Hs _ _ _ Hs').
Qed.


(* ================= the theorems of C01 ================= *)

(* an accepted head: the framing the code derived from it is the RFC's, judged on the very fields the code scanned *)
Theorem head_decision_sound cfg w hd n :
  disable_special cfg = false -> wf_bytes w -> req_head_parse cfg w = HOk (hd, n) ->
  exists line l, HeadFields w line l /\ http11 hd = negb (rl_noHTTP11 line) /\
    meth hd = rl_method line /\ target hd = rl_uri line /\
    let r := rfc_decision (http11 hd) (te_vals cfg l) (cl_vals cfg l) in
    d_class r <> Invalid /\ (d_class r <> Clean -> conn_close hd = true) /\
    match d_len r with
    | BFixed k => content_length hd = Z.of_N k \/ (k = 0%N /\ content_length hd = (-2)%Z)
    | BChunked => content_length hd = (-1)%Z
    | BNone => True
    end.
Proof.
  intros Hds Hw Hp.
  destruct (head_fields _ _ _ _ Hp) as (line & l & st & Hf & Hs & Hm & Ht & Hv & Hcl & Hclose).
  exists line, l. split; [exact Hf|]. split; [exact Hv|]. split; [exact Hm|]. split; [exact Ht|].
  pose proof (steps_decision _ _ _ _ Hds Hs) as Hd.
  destruct (wf_vals cfg l (wf_head_fields _ _ _ Hw Hf)) as [Hte Hcv].
  pose proof (framing_decision (http11 hd) _ _ Hte Hcv) as Hsound.
  rewrite Hv, Bool.negb_involutive, Hd in Hsound. rewrite Hv.
  destruct Hsound as (H1 & H2 & H3). cbv zeta. split; [exact H1|]. split.
  - intros Hc. apply Hclose, H2, Hc.
  - rewrite Hcl. exact H3.
Qed.

Lemma serve_frames_unfold c s : serve_frames c s = serve (S (length s)) c (skipn 0 s) 0.
Proof. reflexivity. Qed.

Lemma dispatched_window_wf c s i d : wf_bytes s -> nth_error (disp (serve_frames c s)) i = Some d -> wf_bytes (dp_win d).
Proof.
  intros Hs Hn. rewrite serve_frames_unfold in Hn.
  apply serve_offsets in Hn as (-> & _); [|lia]. now apply wf_firstn, wf_skipn.
Qed.

(* C01_ambiguous_is_last *)
Theorem ambiguous_is_last c s i d line l :
  wf_bytes s ->
  nth_error (disp (serve_frames c s)) i = Some d ->
  HeadFields (dp_win d) line l ->
  d_class (rfc_decision (negb (rl_noHTTP11 line)) (te_vals (hcfg_of c) l) (cl_vals (hcfg_of c) l)) <> Clean ->
  S i = length (disp (serve_frames c s)).
Proof.
  intros Hs Hn Hf Hc.
  pose proof (dispatched_window_wf _ _ _ _ Hs Hn) as Hw.
  destruct (serve_dispatch_head _ _ _ _ _ _ Hn) as (hd & Hp & Hcl & _).
  destruct (head_decision_sound (hcfg_of c) _ _ _ eq_refl Hw Hp) as (line' & l' & Hf' & Hv & _ & _ & _ & Hclose & _).
  destruct (head_fields_fun _ _ _ _ _ Hf Hf') as [<- <-].
  eapply serve_close_last; [exact Hn|]. rewrite Hcl. apply Hclose. rewrite Hv. exact Hc.
Qed.

(* C01_invalid_never_dispatched, part 1: no dispatched request has Invalid framing *)
Theorem invalid_not_dispatched c s i d line l :
  wf_bytes s ->
  nth_error (disp (serve_frames c s)) i = Some d ->
  HeadFields (dp_win d) line l ->
  d_class (rfc_decision (negb (rl_noHTTP11 line)) (te_vals (hcfg_of c) l) (cl_vals (hcfg_of c) l)) <> Invalid.
Proof.
  intros Hs Hn Hf.
  pose proof (dispatched_window_wf _ _ _ _ Hs Hn) as Hw.
  destruct (serve_dispatch_head _ _ _ _ _ _ Hn) as (hd & Hp & _).
  destruct (head_decision_sound (hcfg_of c) _ _ _ eq_refl Hw Hp) as (line' & l' & Hf' & Hv & _ & _ & Hinv & _).
  destruct (head_fields_fun _ _ _ _ _ Hf Hf') as [<- <-]. rewrite Hv in Hinv. exact Hinv.
Qed.

(* part 2: in ANY state of the loop, a buffered head whose framing is Invalid is answered with the error
   response (400, Connection: close) and the connection is closed — nothing is dispatched *)
Lemma head_fields_answered cfg w line l : HeadFields w line l ->
  (exists hd n, req_head_parse cfg w = HOk (hd, n)) \/ (exists e, req_head_parse cfg w = HErr e).
Proof.
  intros (rest & raw & rawEnd & H1 & H2 & H3 & H4).
  pose proof (HeadTotalProof.req_head_total cfg w) as [Hnp Hnf].
  unfold req_head_parse in *. unfold req_parse_R in *. rewrite H1 in *. cbn [bind] in *. rewrite H2 in *. cbn [bind] in *.
  rewrite H3 in *. cbn [bind] in *. unfold req_parseHeaders in *.
  destruct H4 as [[Hi _]|(b & r & Hi & _)]; rewrite Hi in *; cbn [bind] in *.
  - match goal with |- context [if ?x then _ else _] => destruct x end; eauto.
  - destruct (req_headers_loop _ _ _ _ _ _) as [[[st r0]|e]| |]; cbn [bind] in *; try congruence; eauto.
    match goal with |- context [if ?x then _ else _] => destruct x end; eauto.
Qed.

Theorem invalid_rejected c f rem off line l :
  rem <> [] -> wf_bytes rem ->
  HeadFields (firstn (c_bsize c) rem) line l ->
  d_class (rfc_decision (negb (rl_noHTTP11 line)) (te_vals (hcfg_of c) l) (cl_vals (hcfg_of c) l)) = Invalid ->
  serve (S f) c rem off = ([], [{| rs_status := StatusBadRequest; rs_close := true |}], OErr).
Proof.
  intros Hne Hw Hf Hinv. destruct rem as [|x rem']; [contradiction|]. set (rem := x :: rem') in *.
  cbn [serve]. fold rem.
  destruct (head_fields_answered (hcfg_of c) _ _ _ Hf) as [(hd & n & Hp)|(e & Hp)]; rewrite Hp.
  - exfalso. destruct (head_decision_sound (hcfg_of c) _ _ _ eq_refl (wf_firstn _ _ Hw) Hp) as (line' & l' & Hf' & Hv & _ & _ & Hni & _).
    destruct (head_fields_fun _ _ _ _ _ Hf Hf') as [<- <-]. rewrite Hv in Hni. contradiction.
  - reflexivity.
Qed.

(* C01_continue_or_close *)
Theorem continue_or_close c s i d :
  nth_error (disp (serve_frames c s)) i = Some d ->
  dp_off d + dp_len d <= length s /\ 0 < dp_hlen d <= dp_len d /\
  (i = 0 -> dp_off d = 0) /\
  match nth_error (disp (serve_frames c s)) (S i) with
  | Some d' => dp_off d' = dp_off d + dp_len d /\ dp_close d = false
  | None => True
  end.
Proof.
  intros Hn. pose proof Hn as Hn'. rewrite serve_frames_unfold in Hn'.
  apply serve_offsets in Hn' as (_ & H1 & H2 & _ & H3 & H4); [|lia].
  repeat split; auto; try lia.
  destruct (nth_error (disp (serve_frames c s)) (S i)) as [d'|] eqn:E; [|exact I].
  split; [apply H4; exact E|].
  destruct (dp_close d) eqn:Ec; [|reflexivity].
  pose proof (serve_close_last _ _ _ _ _ _ Hn Ec) as Hl.
  assert (Hlt : S i < length (disp (serve_frames c s))) by (apply nth_error_Some; congruence).
  unfold serve_frames in *. lia.
Qed.

(* ---------- fixed-length bodies ---------- *)
Lemma reqReadBody_fixed tr cl max b d r pk k :
  reqReadBody tr cl max b = BOk d r pk -> (cl = Z.of_N k \/ (k = 0%N /\ cl = (-2)%Z)) ->
  r = skipn (N.to_nat k) b /\ N.to_nat k <= length b /\ d = firstn (N.to_nat k) b.
Proof.
  unfold reqReadBody. intros H Hk.
  match type of H with (if ?x then _ else _) = _ => destruct x end; [discriminate|].
  destruct (Z.eqb_spec cl (-2)) as [E|E].
  - injection H as <- <- _. destruct Hk as [Hk|[-> _]]; [lia|]. cbn. repeat split; auto. lia.
  - destruct Hk as [Hk|[_ Hk]]; [|contradiction].
    destruct (Z.geb_spec cl 0) as [G|G]; [|lia].
    unfold readBody in H. match type of H with (if ?x then _ else _) = _ => destruct x end; [discriminate|].
    apply BodyProof.appendBodyFixedSize_ok in H as (_ & Hle & -> & -> & _).
    unfold bdrop, btake, blen in *. subst cl. replace (Z.to_nat (Z.of_N k)) with (N.to_nat k) by lia. cbn [app]. repeat split; auto. lia.
Qed.

Lemma read_req_body_fixed c hd b body rest tf k :
  read_req_body c hd b = RbOk body rest tf ->
  (content_length hd = Z.of_N k \/ (k = 0%N /\ content_length hd = (-2)%Z)) ->
  rest = skipn (N.to_nat k) b /\ N.to_nat k <= length b /\ (body = None \/ body = Some (firstn (N.to_nat k) b)).
Proof.
  unfold read_req_body. intros H Hk.
  match type of H with (if ?x then _ else _) = _ => destruct x end; [discriminate|].
  match type of H with context [match ?x with [] => _ | _ :: _ => _ end] => destruct x as [|x0 bd] eqn:Eb end.
  - destruct (Z.eqb_spec (content_length hd) (-1)) as [E|E]; [lia|].
    destruct (reqReadBody trailer_reject (content_length hd) (c_maxbody c) b) as [d r pk|e d pk| |] eqn:Er; try discriminate.
    injection H as <- <-. destruct (reqReadBody_fixed _ _ _ _ _ _ _ _ Er Hk) as (-> & Hl & ->). auto.
  - assert (Hpos : (content_length hd >? 0)%Z = true).
    { destruct (content_length hd >? 0)%Z; [reflexivity|]. cbn in Eb. discriminate. }
    destruct Hk as [Hk|[_ Hk]]; [|lia].
    destruct (peekArgBytes (fields hd) strContentEncoding).
    + match type of H with (if ?x then _ else _) = _ => destruct x eqn:El end; [discriminate|].
      destruct (Multipart.read_form _ _ _); [|discriminate].
      injection H as <- <-. rewrite Hk in *. replace (Z.to_nat (Z.of_N k)) with (N.to_nat k) by lia. repeat split; auto. lia.
    + destruct (reqReadBody trailer_reject (content_length hd) (c_maxbody c) b) as [d r pk|e d pk| |] eqn:Er; try discriminate.
      injection H as <- <-. destruct (reqReadBody_fixed _ _ _ _ _ _ _ k Er (or_introl Hk)) as (-> & Hl & ->). auto.
Qed.

(* ---------- ReduceMemoryUsage is not consulted ---------- *)
Definition set_reduce (b : bool) (c : fcfg) : fcfg :=
  {| c_reduce := b; c_nonorm := c_nonorm c; c_getonly := c_getonly c; c_noprep := c_noprep c;
     c_bsize := c_bsize c; c_maxbody := c_maxbody c |}.

Lemma serve_reduce_indep b c : forall fuel rem off, serve fuel (set_reduce b c) rem off = serve fuel c rem off.
Proof.
  induction fuel as [|f IH]; intros rem off; [reflexivity|].
  cbn [serve]. unfold read_req_message, read_req_body. cbn [set_reduce c_bsize c_getonly c_noprep c_maxbody c_nonorm hcfg_of].
  change (hcfg_of (set_reduce b c)) with (hcfg_of c).
  repeat (match goal with |- context [match ?x with _ => _ end] => destruct x end; try reflexivity);
    rewrite ?IH; reflexivity.
Qed.

(* ---------- which fields are Content-Length / Transfer-Encoding does not depend on DisableHeaderNamesNormalizing ---------- *)
Lemma key_class_norm_indep cfg cfg' k inner : wf_bytes k ->
  is_cl_key cfg k inner = is_cl_key cfg' k inner /\ is_te_key cfg k inner = is_te_key cfg' k inner.
Proof.
  intros Hk. unfold is_cl_key, is_te_key, key_norm, normalizeHeaderKeyValidated.
  destruct (disable_norm cfg || inner), (disable_norm cfg' || inner); rewrite ?nhk_cic, ?nhk_first by exact Hk; auto.
Qed.

Lemma framing_fields_norm_indep cfg cfg' l : Forall (fun x => wf_bytes (fst (fst x))) l ->
  te_vals cfg l = te_vals cfg' l /\ cl_vals cfg l = cl_vals cfg' l.
Proof.
  induction l as [|[[k v] inner] l IH]; intros H; [auto|].
  apply Forall_cons_iff in H as [Hk H]. cbn in Hk. destruct (IH H) as [I1 I2].
  rewrite !te_vals_cons, !cl_vals_cons. destruct (key_class_norm_indep cfg cfg' k inner Hk) as [-> ->].
  rewrite I1, I2. auto.
Qed.

Lemma wf_scanned_keys b : wf_bytes b -> forall r l e r', Scanned b r l e r' -> Forall (fun x => wf_bytes (fst (fst x))) l.
Proof.
  intros Hb r l e r' H. induction H as [|r k v inner r1 l e r2 Hn _ IH]; [constructor|].
  constructor; [|exact IH]. cbn. destruct (wf_scan_next _ _ _ _ _ _ Hn Hb) as [Hk _]. exact Hk.
Qed.
Lemma wf_head_keys w line l : wf_bytes w -> HeadFields w line l -> Forall (fun x => wf_bytes (fst (fst x))) l.
Proof.
  intros Hw (rest & raw & rawEnd & _ & Hsl & _ & [[_ ->]|(b & r & Hi & Hs)]); [constructor|].
  eapply wf_scanned_keys; [|exact Hs]. eapply wf_scan_init; [exact Hi|]. eapply wf_slice; eauto.
Qed.

(* every dispatched request: its head was accepted from its window, its body read from right behind the head *)
Lemma serve_dispatch_full c s : forall fuel off i d,
  off <= length s ->
  nth_error (disp (serve fuel c (skipn off s) off)) i = Some d ->
  exists hd, req_head_parse (hcfg_of c) (dp_win d) = HOk (hd, dp_hlen d) /\
    dp_close d = conn_close hd /\ dp_method d = meth hd /\ dp_uri d = target hd /\
    exists tf, read_req_body c hd (skipn (dp_off d + dp_hlen d) s) = RbOk (dp_body d) (skipn (dp_off d + dp_len d) s) tf.
Proof.
  induction fuel as [|f IH]; intros off i d Hoff Hn.
  - rewrite disp_serve_0 in Hn. destruct i; discriminate.
  - rewrite disp_serve_S in *. set (rem := skipn off s) in *.
    destruct (serve_iter c rem) as [|hd n body rest] eqn:Hit; [destruct i; discriminate|].
    apply serve_iter_inv in Hit as (Hne & Hp & _ & tf0 & Hb).
    pose proof (read_req_body_suffix _ _ _ _ _ _ Hb) as Hsf.
    assert (Hsuf : suffix rest rem) by (eapply suffix_trans; [exact Hsf|apply suffix_skipn]).
    destruct (suffix_length _ _ Hsuf) as [Hle Hrest].
    assert (Hlen : length rem = length s - off) by (unfold rem; apply skipn_length).
    set (len := length rem - length rest) in *.
    assert (Hlendef : len = length rem - length rest) by reflexivity.
    assert (Hb1 : off + len <= length s) by lia.
    assert (Hrest' : rest = skipn (off + len) s) by (rewrite Hrest; unfold rem; apply skipn_skipn').
    destruct i as [|i]; cbn [nth_error] in Hn.
    + injection Hn as <-. cbn [mk_disp dp_win dp_off dp_len dp_hlen dp_close dp_method dp_uri dp_body]. fold rem. fold len.
      exists hd. repeat split; auto. exists tf0.
      unfold rem in Hb. rewrite skipn_skipn' in Hb. rewrite <- Hrest'. exact Hb.
    + destruct (conn_close hd); [destruct i; discriminate|].
      destruct ((0 <? len) && (len <=? length rem)); [|destruct i; discriminate].
      rewrite Hrest' in Hn. exact (IH _ _ _ Hb1 Hn).
Qed.

(* C01_dispatch_is_rfc_prefix, the part the imported head / body theorems give *)
Theorem dispatch_prefix_partial c s i d :
  wf_bytes s -> nth_error (disp (serve_frames c s)) i = Some d ->
  HeadSpec.head_len (skipn (dp_off d) s) = Some (dp_hlen d) /\
  exists line l, HeadFields (dp_win d) line l /\ dp_method d = rl_method line /\ dp_uri d = rl_uri line /\
    match d_len (rfc_decision (negb (rl_noHTTP11 line)) (te_vals (hcfg_of c) l) (cl_vals (hcfg_of c) l)) with
    | BFixed k => dp_len d = dp_hlen d + N.to_nat k /\
                  (dp_body d = None \/ dp_body d = Some (firstn (N.to_nat k) (skipn (dp_off d + dp_hlen d) s)))
    | _ => True
    end.
Proof.
  intros Hs Hn.
  pose proof (dispatched_window_wf _ _ _ _ Hs Hn) as Hw.
  pose proof Hn as Hn1. rewrite serve_frames_unfold in Hn1.
  destruct (serve_offsets _ _ _ _ _ _ (Nat.le_0_l _) Hn1) as (Hwin & Hbound & Hh & _).
  destruct (serve_dispatch_full _ _ _ _ _ _ (Nat.le_0_l _) Hn1) as (hd & Hp & _ & Hm & Hu & tfd & Hb).
  split.
  - apply HeadTotalProof.req_head_no_overread in Hp as [Hl _]. rewrite Hwin in Hl.
    rewrite <- (firstn_skipn (c_bsize c) (skipn (dp_off d) s)).
    unfold HeadSpec.head_len in *. now apply LinesProof.head_len_aux_app.
  - destruct (head_decision_sound (hcfg_of c) _ _ _ eq_refl Hw Hp) as (line & l & Hf & Hv & Hm' & Hu' & _ & _ & Hlen).
    exists line, l. split; [exact Hf|]. split; [congruence|]. split; [congruence|].
    rewrite Hv in Hlen.
    destruct (d_len _) as [| |k]; try exact I.
    destruct (read_req_body_fixed _ _ _ _ _ _ k Hb Hlen) as (Hr & Hk & Hbody).
    split; [|exact Hbody].
    assert (E : length (skipn (dp_off d + dp_len d) s) = length (skipn (N.to_nat k) (skipn (dp_off d + dp_hlen d) s))) by (now rewrite Hr).
    rewrite !skipn_length in E. rewrite skipn_length in Hk. lia.
Qed.

(* ================= chunked bodies against RFC 9112 section 7.1 ================= *)
(* ---------- hex digits: IntsSpec (Z) and Rfc9112 (N) agree ---------- *)
Definition hexd (c : N) : N := match Rfc9112.hexdigit c with Some x => x | None => 0%N end.
Fixpoint hexN (d : bytes) (acc : N) : N := match d with [] => acc | c :: r => hexN r (16 * acc + hexd c)%N end.

Lemma hexdig_agree c : IntsSpec.hexdig c = option_map Z.of_N (Rfc9112.hexdigit c).
Proof.
  unfold IntsSpec.hexdig, Rfc9112.hexdigit, Rfc9112.is_digit.
  destruct ((48 <=? c)%N && (c <=? 57)%N) eqn:E1; [cbn; f_equal; lia|].
  destruct ((97 <=? c)%N && (c <=? 102)%N) eqn:E2; [cbn; f_equal; lia|].
  destruct ((65 <=? c)%N && (c <=? 70)%N) eqn:E3; [cbn; f_equal; lia|reflexivity].
Qed.

Lemma span_hex_agree s : forall acc cnt,
  Rfc9112.span_hex s acc cnt =
  (hexN (fst (IntsSpec.span_hex s)) acc, cnt + length (fst (IntsSpec.span_hex s)), snd (IntsSpec.span_hex s)).
Proof.
  induction s as [|c s IH]; intros acc cnt; cbn [Rfc9112.span_hex IntsSpec.span_hex].
  - cbn. f_equal. f_equal. lia.
  - unfold IntsSpec.is_hexdig. rewrite hexdig_agree. destruct (Rfc9112.hexdigit c) as [x|] eqn:E; cbn [option_map].
    + rewrite IH. destruct (IntsSpec.span_hex s) as [d r]. cbn [fst snd hexN length]. unfold hexd. rewrite E.
      f_equal. f_equal. lia.
    + cbn. f_equal. f_equal. lia.
Qed.

Lemma hex_value_agree d : forall acc, forallb IntsSpec.is_hexdig d = true ->
  fold_left (fun a c => (16 * a + match IntsSpec.hexdig c with Some x => x | None => 0 end)%Z) d (Z.of_N acc) = Z.of_N (hexN d acc).
Proof.
  induction d as [|c d IH]; intros acc H; [reflexivity|].
  cbn [forallb] in H. apply andb_true_iff in H as [Hc Hd]. cbn [fold_left hexN].
  rewrite <- IH by exact Hd. f_equal. unfold hexd. rewrite hexdig_agree.
  destruct (Rfc9112.hexdigit c); cbn [option_map]; lia.
Qed.

Lemma span_hex_digits s : forallb IntsSpec.is_hexdig (fst (IntsSpec.span_hex s)) = true.
Proof.
  induction s as [|c s IH]; [reflexivity|]. cbn [IntsSpec.span_hex].
  destruct (IntsSpec.is_hexdig c) eqn:E; [|reflexivity].
  destruct (IntsSpec.span_hex s) as [d r]. cbn [fst forallb] in *. now rewrite E, IH.
Qed.

(* ---------- the chunk-size line ---------- *)
Lemma pcs_ext : forall r0 e o r1 r2, pcs_loop r0 e o = Some r1 -> readCrLf r1 = Some r2 ->
  ext_to_crlf r0 e = Some (Some r2).
Proof.
  induction r0 as [|c r IH]; intros e o r1 r2 H1 H2; cbn [pcs_loop] in H1; [discriminate|].
  cbn [ext_to_crlf]. change 13%N with CR. change 10%N with LF.
  destruct (N.eqb_spec c CR) as [->|Hcr].
  - injection H1 as <-. cbn [readCrLf] in H2. rewrite N.eqb_refl in H2.
    destruct r as [|d r']; [discriminate|]. destruct (N.eqb_spec d LF) as [->|]; [|discriminate].
    injection H2 as <-. cbn. reflexivity.
  - destruct (N.eqb_spec c LF) as [->|Hlf]; [discriminate|].
    destruct e; [eapply IH; eauto|].
    unfold Rfc9112.is_ows. change 32%N with SP. change 9%N with HT.
    destruct ((c =? SP)%N || (c =? HT)%N); [eapply IH; eauto|].
    change 59%N with SEMI. destruct (c =? SEMI)%N; [|discriminate]. destruct o; [discriminate|]. eapply IH; eauto.
Qed.

Lemma parseChunkSize_spec b n r : wf_bytes b -> parseChunkSize b = PCOk n r ->
  exists nN cnt r0, Rfc9112.span_hex b 0 0 = (nN, S cnt, r0) /\ n = Z.of_N nN /\ ext_to_crlf r0 false = Some (Some r) /\ length r < length b.
Proof.
  intros Hwf H. pose proof (BodyProof.parseChunkSize_shrinks _ _ _ H) as Hsh. unfold parseChunkSize in H.
  rewrite (IntsProof.readhex_exact 64 maxHexIntChars64 b (or_introl (conj eq_refl eq_refl)) Hwf) in H.
  pose proof (span_hex_agree b 0%N 0) as Ha. pose proof (span_hex_digits b) as Hd.
  destruct (IntsSpec.span_hex b) as [d r0] eqn:Es. cbn [fst snd] in *.
  destruct d as [|c d]; [destruct b; discriminate|].
  destruct (Z.of_nat (length (c :: d)) >? maxHexIntChars64)%Z; [discriminate|].
  destruct (pcs_loop r0 false false) as [r1|] eqn:E1; [|discriminate].
  destruct (readCrLf r1) as [r2|] eqn:E2; [|discriminate].
  injection H as <- <-.
  exists (hexN (c :: d) 0), (length d), r0. split; [exact Ha|]. split.
  - unfold IntsSpec.hex_value. apply (hex_value_agree (c :: d) 0%N Hd).
  - split; [eapply pcs_ext; eauto|lia].
Qed.

(* ---------- chunk data ---------- *)
Lemma ends_crlf_split d : 2 <= length d -> ends_crlf d = true -> d = drop_last2 d ++ [CR; LF].
Proof.
  unfold ends_crlf, drop_last2. intros Hl H. apply beq_eq in H.
  rewrite <- (firstn_skipn (length d - 2) d) at 1. now rewrite H.
Qed.

Lemma chunk_data dst r2 n d1 r' pk pk' : (0 < n)%Z ->
  appendBodyFixedSize r2 dst (n + blen GenC34.strCRLF) pk = BOk d1 r' pk' -> ends_crlf d1 = true ->
  Z.to_nat n <= length r2 /\ drop_last2 d1 = dst ++ firstn (Z.to_nat n) r2 /\
  skipn (Z.to_nat n) r2 = CR :: LF :: r' /\ length r' < length r2.
Proof.
  intros Hn Ha He. apply BodyProof.appendBodyFixedSize_ok in Ha as (_ & Hle & -> & -> & _).
  change (blen GenC34.strCRLF) with 2%Z in *. unfold blen, btake, bdrop in *.
  remember (Z.to_nat n) as k eqn:Ek. assert (Ek2 : Z.to_nat (n + 2) = k + 2) by lia. rewrite Ek2 in *.
  assert (Hk : k + 2 <= length r2) by lia.
  assert (Hlen : length (firstn (k + 2) r2) = k + 2) by (rewrite firstn_length; lia).
  assert (Hl2 : 2 <= length (dst ++ firstn (k + 2) r2)) by (rewrite app_length; lia).
  pose proof (ends_crlf_split _ Hl2 He) as Hs.
  assert (Hdl : drop_last2 (dst ++ firstn (k + 2) r2) = dst ++ firstn k r2).
  { unfold drop_last2. rewrite app_length, Hlen. replace (length dst + (k + 2) - 2) with (length dst + k) by lia.
    rewrite firstn_app. replace (length dst + k - length dst) with k by lia.
    rewrite firstn_all2 by lia. f_equal. rewrite firstn_firstn. f_equal. lia. }
  rewrite Hdl in Hs. rewrite <- app_assoc in Hs. apply app_inv_head in Hs.
  split; [lia|]. split; [exact Hdl|]. split.
  - rewrite <- (firstn_skipn (k + 2) r2) at 1. rewrite Hs, <- app_assoc.
    rewrite skipn_app. rewrite skipn_all2 by (rewrite firstn_length; lia). rewrite firstn_length.
    replace (k - Nat.min k (length r2)) with 0 by lia. reflexivity.
  - rewrite skipn_length. lia.
Qed.

(* ---------- the chunk sequence: what readBodyChunked accepts, RFC 9112 section 7.1 accepts, with the same data and rest ---------- *)
Lemma rbc_chunks : forall fuel max dst b pk d r pk', wf_bytes b ->
  rbc_loop fuel max dst b pk = BOk d r pk' ->
  forall fuel', length b < fuel' -> exists data, d = dst ++ data /\ chunks fuel' b = ChOk data r.
Proof.
  induction fuel as [|f IH]; intros max dst b pk d r pk' Hwf H fuel' Hf; cbn [rbc_loop] in H; [discriminate|].
  destruct (parseChunkSize b) as [n r2|e] eqn:Ep; [|discriminate].
  destruct (parseChunkSize_spec _ _ _ Hwf Ep) as (nN & cnt & r0 & Hsp & -> & Hext & Hsh).
  assert (Hwf2 : wf_bytes r2).
  { destruct (parseChunkSize_suffix _ _ _ Ep) as [p ->]. unfold wf_bytes in *. now apply Forall_app in Hwf. }
  destruct fuel' as [|f']; [lia|]. cbn [chunks]. rewrite Hsp, Hext.
  destruct (Z.eqb_spec (Z.of_N nN) 0) as [E0|E0].
  - injection H as <- <- _. replace (nN =? 0)%N with true by lia. exists []. now rewrite app_nil_r.
  - replace (nN =? 0)%N with false by lia.
    destruct ((max >? 0)%Z && (blen dst + Z.of_N nN >? max)%Z); [discriminate|].
    destruct (appendBodyFixedSize r2 dst (Z.of_N nN + blen GenC34.strCRLF) pk) as [d1 r1 pk1|e d1 pk1| |] eqn:Ea; try discriminate.
    destruct (ends_crlf d1) eqn:Ee; [|discriminate].
    assert (Hpos : (0 < Z.of_N nN)%Z) by lia.
    destruct (chunk_data _ _ _ _ _ _ _ Hpos Ea Ee) as (Hk & Hdl & Hsk & Hl).
    replace (Z.to_nat (Z.of_N nN)) with (N.to_nat nN) in * by lia.
    replace (N.of_nat (length r2) <? nN)%N with false by lia.
    rewrite Hsk. change CR with 13%N. change LF with 10%N. cbv iota.
    assert (Hwf1 : wf_bytes r1).
    { assert (Hx : wf_bytes (skipn (N.to_nat nN) r2)) by now apply wf_skipn. rewrite Hsk in Hx.
      unfold wf_bytes in *. inversion Hx as [|? ? _ Hy]. now inversion Hy. }
    rewrite Hdl in H. assert (Hf' : length r1 < f') by lia.
    destruct (IH _ _ _ _ _ _ _ Hwf1 H f' Hf') as (data & -> & Hch).
    rewrite Hch. exists (firstn (N.to_nat nN) r2 ++ data). split; [now rewrite app_assoc|reflexivity].
Qed.

Theorem readBodyChunked_rfc max b d r pk : wf_bytes b -> readBodyChunked max [] b = BOk d r pk ->
  chunks (S (length b)) b = ChOk d r.
Proof.
  intros Hwf H. unfold readBodyChunked in H. change (0 <? blen [])%Z with false in H. cbv iota in H.
  destruct (rbc_chunks _ _ _ _ _ _ _ _ Hwf H (S (length b)) (Nat.lt_succ_diag_r _)) as (data & -> & Hc). exact Hc.
Qed.
