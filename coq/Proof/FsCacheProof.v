(* Proofs about the FS cache LTS (property C25). *)
From Coq Require Import List ZArith Bool Arith Lia.
From FH Require Import Gen.GenC25 Model.FsCache Spec.FsCacheSpec.
Import ListNotations.

(* ---------- list facts ---------- *)
Lemma cnt_app x l1 l2 : cnt x (l1 ++ l2) = cnt x l1 + cnt x l2.
Proof. induction l1 as [|y l1 IH]; cbn; [reflexivity|]. rewrite IH. lia. Qed.

Lemma cnt_In x l : 0 < cnt x l <-> In x l.
Proof.
  induction l as [|y l IH]; cbn; [split; [lia|tauto]|].
  destruct (Nat.eqb_spec y x); split; intros H; try lia; auto.
  - right. apply IH. lia.
  - destruct H as [H|H]; [congruence|]. apply IH in H. lia.
Qed.

Lemma memb_cnt x l : memb x l = true <-> 0 < cnt x l.
Proof.
  unfold memb. induction l as [|y l IH]; cbn; [split; [discriminate|lia]|].
  rewrite Nat.eqb_sym. destruct (Nat.eqb y x); cbn; [split; [lia|reflexivity]|]. rewrite IH. lia.
Qed.

Lemma memb_false_cnt x l : memb x l = false -> cnt x l = 0.
Proof. intros H. destruct (cnt x l) eqn:E; [reflexivity|]. assert (memb x l = true) by (apply memb_cnt; lia). congruence. Qed.

Lemma cnt_remove1 x y l : cnt y (remove1 x l) + (if Nat.eqb x y then (if memb x l then 1 else 0) else 0) = cnt y l.
Proof.
  induction l as [|z l IH]; cbn; [destruct (Nat.eqb x y); reflexivity|].
  unfold memb in *. cbn. rewrite (Nat.eqb_sym x z). destruct (Nat.eqb_spec z x) as [->|N]; cbn.
  - destruct (Nat.eqb x y); lia.
  - lia.
Qed.

Lemma cnt_delkey k c f x : lookup k c = Some f ->
  cnt x (map snd (delkey k c)) + (if Nat.eqb f x then 1 else 0) = cnt x (map snd c).
Proof.
  induction c as [|[k' f'] c IH]; cbn; [discriminate|].
  destruct (Nat.eqb k' k).
  - intros H. injection H as ->. lia.
  - intros H. cbn. rewrite <- (IH H). lia.
Qed.

Lemma lookup_in k c f : lookup k c = Some f -> 0 < cnt f (map snd c).
Proof. intros H. pose proof (cnt_delkey k c f f H) as E. rewrite Nat.eqb_refl in E. lia. Qed.

Lemma cnt_del_holder h l x f : find_holder h l = Some x ->
  cnt f (map h_f (del_holder h l)) + (if Nat.eqb (h_f x) f then 1 else 0) = cnt f (map h_f l).
Proof.
  induction l as [|y l IH]; cbn; [discriminate|].
  destruct (Nat.eqb (h_id y) h).
  - intros H. injection H as ->. lia.
  - intros H. cbn. rewrite <- (IH H). lia.
Qed.

(* ---------- the collecting loops ---------- *)
Lemma add_rel_fold rcf l : forall p r p' r', fold_left (add_rel rcf) l (p, r) = (p', r') ->
  forall x, cnt x p' + cnt x r' = cnt x p + cnt x r + cnt x l /\
            cnt x p <= cnt x p' /\ cnt x r <= cnt x r' /\
            (cnt x r < cnt x r' -> rcf x = 0) /\ (cnt x p < cnt x p' -> 0 < rcf x).
Proof.
  induction l as [|f l IH]; cbn [fold_left]; intros p r p' r' H x.
  - injection H as <- <-. cbn. repeat split; lia.
  - unfold add_rel at 2 in H. destruct (Nat.ltb_spec 0 (rcf f)) as [L|G].
    + destruct (IH _ _ _ _ H x) as (A & B & C & D & E). rewrite cnt_app in *. cbn [cnt] in *.
      repeat split; try lia. intros HH. destruct (Nat.eqb_spec f x) as [->|]; [exact L|]. apply E. lia.
    + destruct (IH _ _ _ _ H x) as (A & B & C & D & E). rewrite cnt_app in *. cbn [cnt] in *.
      repeat split; try lia. intros HH. destruct (Nat.eqb_spec f x) as [->|]; [lia|]. apply D. lia.
Qed.

Lemma scan_pending_spec rcf p : forall rel p' rel', scan_pending rcf p rel = (p', rel') ->
  forall x, cnt x p' + cnt x rel' = cnt x p + cnt x rel /\ cnt x rel <= cnt x rel' /\
            (cnt x rel < cnt x rel' -> rcf x = 0).
Proof.
  induction p as [|f p IH]; cbn [scan_pending]; intros rel p' rel' H x.
  - injection H as <- <-. cbn. repeat split; lia.
  - destruct (Nat.ltb_spec 0 (rcf f)) as [L|G].
    + destruct (scan_pending rcf p rel) as [p1 r1] eqn:E. injection H as <- <-.
      destruct (IH _ _ _ E x) as (A & B & C). cbn [cnt]. repeat split; try lia; auto.
    + destruct (IH _ _ _ H x) as (A & B & C). rewrite cnt_app in *. cbn [cnt] in *.
      repeat split; try lia. intros HH. destruct (Nat.eqb_spec f x) as [->|]; [lia|]. apply C. lia.
Qed.

Lemma evict_spec rcf exp : forall c p r c' p' r', evict rcf exp c (p, r) = (c', (p', r')) ->
  forall x, cnt x (map snd c') + cnt x p' + cnt x r' = cnt x (map snd c) + cnt x p + cnt x r /\
            cnt x r <= cnt x r' /\ (cnt x r < cnt x r' -> rcf x = 0).
Proof.
  induction exp as [|k exp IH]; cbn [evict]; intros c p r c' p' r' H x.
  - injection H as <- <- <-. repeat split; lia.
  - destruct (lookup k c) as [f|] eqn:El; [|eauto].
    pose proof (cnt_delkey k c f x El) as Ed.
    unfold add_rel in H. destruct (Nat.ltb_spec 0 (rcf f)) as [L|G].
    + destruct (IH _ _ _ _ _ _ H x) as (A & B & C). rewrite cnt_app in *. cbn [cnt] in *. repeat split; try lia; auto.
    + destruct (IH _ _ _ _ _ _ H x) as (A & B & C). rewrite cnt_app in *. cbn [cnt] in *. repeat split; try lia.
      intros HH. destruct (Nat.eqb_spec f x) as [->|]; [lia|]. apply C. lia.
Qed.

(* ---------- invariant on fsFiles ---------- *)
Record Inv (s : st) : Prop := {
  i_rc : forall f, rc s f = cnt f (held_files s);
  i_loc : forall f, loc s f = if Nat.ltb f (nextf s) then 1 else 0;
  i_zero : forall f, 0 < cnt f (local s) + cnt f (leaked s) + cnt f (relq s) + released s f -> rc s f = 0;
  i_closed : closed s = true ->
             cache s = [] /\ forall f, 0 < cnt f (pending s) + cnt f (floating s) -> 0 < rc s f;
  i_open : closed s = false -> floating s = [];
  i_fresh : forall f, nextf s <= f -> rc s f = 0
}.

Lemma inv_init : Inv init.
Proof. constructor; cbn; intros; auto; try lia; try discriminate. Qed.
Lemma inv_init_noop : Inv init_noop.
Proof. constructor; cbn; intros; auto; try lia; try discriminate; try (split; [reflexivity|intros; lia]). Qed.

Ltac brk H := repeat match type of H with
  | (if ?b then _ else _) = Some _ => let E := fresh "E" in destruct b eqn:E; try discriminate H
  | (let (_, _) := ?x in _) = Some _ =>
      let E := fresh "E" in
      lazymatch type of x with
      | holder => let a := fresh "hh" in let b := fresh "hf" in let c := fresh "hb" in destruct x as [a b c] eqn:E
      | _ => destruct x eqn:E
      end
  | match ?x with _ => _ end = Some _ =>
      let E := fresh "E" in
      lazymatch type of x with
      | holder => let a := fresh "hh" in let b := fresh "hf" in let c := fresh "hb" in destruct x as [a b c] eqn:E
      | _ => destruct x eqn:E
      end; try discriminate H
  end.

Ltac projs := cbn [cache pending closeStarted closed closer rc released fsize local leaked floating relq holders pool bclosed
                   dclosed bowner nextf nextb badreads h_id h_f h_b] in *.

Ltac start s HI Hs :=
  destruct s as [ca pe cs cl cr rcf rl fz lo lk fl rq ho po bc dc bo nf nb br]; cbn [step] in Hs; projs; brk Hs;
  try (injection Hs as <-); destruct HI as [Hrc Hloc Hz Hcl Hop Hfr]; unfold loc, held_files in *; projs.

Ltac updf x y := unfold upd; destruct (Nat.eqb_spec x y) as [->|].

Lemma loc_lt s f : Inv s -> 0 < loc s f -> f < nextf s.
Proof. intros HI H. rewrite (i_loc _ HI f) in H. destruct (Nat.ltb_spec f (nextf s)); lia. Qed.

Lemma pres_open cf s sz s' : Inv s -> step cf s (Open sz) = Some s' -> Inv s'.
Proof.
  intros HI Hs. start s HI Hs. constructor; unfold loc, held_files; projs; auto.
  - intros f. specialize (Hloc f). cbn [cnt]. destruct (Nat.eqb_spec nf f) as [->|N].
    + destruct (Nat.ltb_spec f f); [lia|]. destruct (Nat.ltb_spec f (S f)); lia.
    + destruct (Nat.ltb_spec f nf); destruct (Nat.ltb_spec f (S nf)); lia.
  - intros f H. cbn [cnt] in H. destruct (Nat.eqb_spec nf f) as [->|N]; [apply Hfr; lia|apply Hz; lia].
  - intros f L. apply Hfr. lia.
Qed.

Lemma pres_openfail cf s f s' : Inv s -> step cf s (OpenFail f) = Some s' -> Inv s'.
Proof.
  intros HI Hs. start s HI Hs. constructor; unfold loc, held_files; projs; auto.
  - intros x. specialize (Hloc x). pose proof (cnt_remove1 f x lo) as R. rewrite E in R. cbn [cnt]. destruct (Nat.eqb f x); lia.
  - intros x H. apply Hz. pose proof (cnt_remove1 f x lo) as R. rewrite E in R. cbn [cnt] in H. destruct (Nat.eqb f x); lia.
Qed.

Lemma pres_openabort cf s f s' : Inv s -> step cf s (OpenAbort f) = Some s' -> Inv s'.
Proof.
  intros HI Hs. start s HI Hs.
  assert (Rx : forall x, cnt x (remove1 f lo) + (if Nat.eqb f x then 1 else 0) = cnt x lo)
    by (intros x; pose proof (cnt_remove1 f x lo) as R; rewrite E in R; exact R).
  constructor; unfold loc, held_files; projs; auto.
  - intros x. specialize (Hloc x). specialize (Rx x). updf x f; [rewrite Nat.eqb_refl in Rx|destruct (Nat.eqb_spec f x); [congruence|]]; lia.
  - intros x H. apply Hz. specialize (Rx x). revert H. updf x f; [rewrite Nat.eqb_refl in Rx|destruct (Nat.eqb_spec f x); [congruence|]]; lia.
Qed.

Lemma pres_get cf s k h s' : Inv s -> step cf s (Get k h) = Some s' -> Inv s'.
Proof.
  intros HI Hs. start s HI Hs. pose proof (lookup_in _ _ _ E1) as Lk.
  assert (Lf : f < nf). { specialize (Hloc f). destruct (Nat.ltb_spec f nf); lia. }
  constructor; unfold loc, held_files; projs; auto.
  - intros x. cbn [map cnt h_f]. specialize (Hrc x). updf x f; [rewrite Nat.eqb_refl|destruct (Nat.eqb_spec f x); [congruence|]]; lia.
  - intros x H. updf x f; [|auto]. specialize (Hloc f). destruct (Nat.ltb f nf); lia.
  - discriminate.
  - intros x L. updf x f; [lia|auto].
Qed.

Lemma pres_setf cf s k f h s' : Inv s -> step cf s (SetF k f h) = Some s' -> Inv s'.
Proof.
  intros HI Hs. start s HI Hs; apply negb_false_iff in E; pose proof (cnt_remove1 f f lo) as Rf; rewrite E, Nat.eqb_refl in Rf;
    assert (Lf : f < nf) by (specialize (Hloc f); destruct (Nat.ltb_spec f nf); lia);
    assert (Rx : forall x, cnt x (remove1 f lo) + (if Nat.eqb f x then 1 else 0) = cnt x lo)
      by (intros x; pose proof (cnt_remove1 f x lo) as R; rewrite E in R; exact R).
  - (* closed *)
    destruct (Hcl eq_refl) as [Hca Hpf].
    constructor; unfold loc, held_files; projs; auto.
    + intros x. cbn [map cnt h_f]. specialize (Hrc x). updf x f; [rewrite Nat.eqb_refl|destruct (Nat.eqb_spec f x); [congruence|]]; lia.
    + intros x. specialize (Hloc x). specialize (Rx x). cbn [cnt]. destruct (Nat.eqb f x); lia.
    + intros x H. specialize (Rx x). updf x f.
      * specialize (Hloc f). rewrite Nat.eqb_refl in Rx. destruct (Nat.ltb f nf); lia.
      * apply Hz. destruct (Nat.eqb_spec f x); [congruence|]. lia.
    + intros _. split; [exact Hca|]. intros x H. cbn [cnt] in H. updf x f; [lia|].
      destruct (Nat.eqb_spec f x); [congruence|]. apply Hpf. lia.
    + discriminate.
    + intros x L. updf x f; [lia|auto].
  - (* duplicate: the cached file gets the count, the new file is queued for Release *)
    pose proof (lookup_in _ _ _ E2) as Lk.
    assert (Lf0 : f0 < nf) by (specialize (Hloc f0); destruct (Nat.ltb_spec f0 nf); lia).
    assert (Nff : f <> f0). { intros ->. specialize (Hloc f0). destruct (Nat.ltb f0 nf); lia. }
    constructor; unfold loc, held_files; projs; auto.
    + intros x. cbn [map cnt h_f]. specialize (Hrc x). updf x f0; [rewrite Nat.eqb_refl|destruct (Nat.eqb_spec f0 x); [congruence|]]; lia.
    + intros x. specialize (Hloc x). specialize (Rx x). rewrite cnt_app. cbn [cnt]. destruct (Nat.eqb f x); lia.
    + intros x H. specialize (Rx x). rewrite cnt_app in H. cbn [cnt] in H. updf x f0.
      * specialize (Hloc f0). destruct (Nat.eqb_spec f f0); [congruence|]. destruct (Nat.ltb f0 nf); lia.
      * apply Hz. destruct (Nat.eqb_spec f x) as [->|]; lia.
    + discriminate.
    + intros x L. updf x f0; [lia|auto].
  - (* new cache entry *)
    constructor; unfold loc, held_files; projs; auto.
    + intros x. cbn [map cnt h_f]. specialize (Hrc x). updf x f; [rewrite Nat.eqb_refl|destruct (Nat.eqb_spec f x); [congruence|]]; lia.
    + intros x. specialize (Hloc x). specialize (Rx x). cbn [map cnt snd]. destruct (Nat.eqb f x); lia.
    + intros x H. specialize (Rx x). updf x f.
      * specialize (Hloc f). rewrite Nat.eqb_refl in Rx. destruct (Nat.ltb f nf); lia.
      * apply Hz. destruct (Nat.eqb_spec f x); [congruence|]. lia.
    + discriminate.
    + intros x L. updf x f; [lia|auto].
Qed.

Lemma held_replace h l x b f : find_holder h l = Some x ->
  cnt f (map h_f (mkH h (h_f x) b :: del_holder h l)) = cnt f (map h_f l).
Proof. intros H. cbn [map cnt h_f]. pose proof (cnt_del_holder h l x f H). lia. Qed.

Lemma pres_newreader cf s h s' : Inv s -> step cf s (NewReader h) = Some s' -> Inv s'.
Proof.
  intros HI Hs. start s HI Hs.
  - constructor; unfold loc, held_files; projs; auto.
    intros x. rewrite (Hrc x). symmetry. apply (held_replace h ho {| h_id := hh; h_f := hf; h_b := None |} (Some (nb)) x E).
  - constructor; unfold loc, held_files; projs; auto.
    intros x. rewrite (Hrc x). symmetry. apply (held_replace h ho {| h_id := hh; h_f := hf; h_b := None |} (Some b) x E).
Qed.

Lemma pres_read cf s h s' : Inv s -> step cf s (Read h) = Some s' -> Inv s'.
Proof. intros HI Hs. start s HI Hs. constructor; unfold loc, held_files; projs; auto. Qed.

Lemma pres_dec cf s h sf s' : Inv s -> step cf s (Dec h sf) = Some s' -> Inv s'.
Proof.
  intros HI Hs. start s HI Hs.
  pose proof (fun x => cnt_del_holder h ho _ x E) as Dh. cbn [h_f] in Dh.
  assert (Hpos : 0 < rcf hf) by lia.
  assert (Lf : hf < nf). { destruct (Nat.lt_ge_cases hf nf) as [L|G]; [exact L|]. rewrite (Hfr hf G) in Hpos. lia. }
  assert (Hzf : cnt hf lo + cnt hf lk + cnt hf rq + rl hf = 0).
  { destruct (cnt hf lo + cnt hf lk + cnt hf rq + rl hf) eqn:Z; [reflexivity|]. rewrite Hz in Hpos; lia. }
  destruct (cl && (n =? 0)) eqn:Rel.
  - apply andb_true_iff in Rel as [-> Hn]. apply Nat.eqb_eq in Hn. subst n.
    destruct (Hcl eq_refl) as [Hca Hpf]. subst ca.
    assert (Hone : cnt hf pe + cnt hf fl = 1).
    { specialize (Hloc hf). cbn [map cnt] in Hloc. destruct (Nat.ltb_spec hf nf); lia. }
    assert (Rp : forall x, cnt x (remove1 hf pe) + cnt x (remove1 hf fl) + (if Nat.eqb hf x then 1 else 0) = cnt x pe + cnt x fl).
    { intros x. pose proof (cnt_remove1 hf x pe) as R1. pose proof (cnt_remove1 hf x fl) as R2.
      destruct (Nat.eqb_spec hf x) as [Ex|]; [subst x|lia].
      destruct (memb hf pe) eqn:M1; destruct (memb hf fl) eqn:M2;
        try (apply memb_cnt in M1); try (apply memb_false_cnt in M1); try (apply memb_cnt in M2); try (apply memb_false_cnt in M2);
        rewrite ?Nat.eqb_refl in *; lia. }
    constructor; unfold loc, held_files; projs; auto.
    + intros x. specialize (Hrc x). specialize (Dh x). updf x hf; [rewrite Nat.eqb_refl in Dh|destruct (Nat.eqb_spec hf x); [congruence|]]; lia.
    + intros x. specialize (Hloc x). specialize (Rp x). rewrite cnt_app. cbn [cnt map] in *. destruct (Nat.eqb hf x); lia.
    + intros x H. updf x hf; [reflexivity|]. apply Hz. rewrite cnt_app in H. cbn [cnt] in H.
      destruct (Nat.eqb_spec hf x); [congruence|]. lia.
    + intros _. split; [reflexivity|]. intros x H. specialize (Rp x). updf x hf.
      * rewrite Nat.eqb_refl in Rp. lia.
      * destruct (Nat.eqb_spec hf x); [congruence|]. apply Hpf. lia.
    + discriminate.
    + intros x L. updf x hf; [lia|auto].
  - constructor; unfold loc, held_files; projs; auto.
    + intros x. specialize (Hrc x). specialize (Dh x). updf x hf; [rewrite Nat.eqb_refl in Dh|destruct (Nat.eqb_spec hf x); [congruence|]]; lia.
    + intros x H. updf x hf; [lia|auto].
    + intros C. destruct (Hcl C) as [Hca Hpf]. split; [exact Hca|]. intros x H. updf x hf; [|auto].
      subst cl. cbn in Rel. apply Nat.eqb_neq in Rel. lia.
    + intros x L. updf x hf; [lia|auto].
Qed.

Lemma pres_cleantick cf s exp s' : Inv s -> step cf s (CleanTick exp) = Some s' -> Inv s'.
Proof.
  intros HI Hs. start s HI Hs.
  { constructor; unfold loc, held_files; projs; auto. }
  pose proof (scan_pending_spec _ _ _ _ _ E0) as S1. pose proof (evict_spec _ _ _ _ _ _ _ _ E1) as S2.
  constructor; unfold loc, held_files; projs; auto.
  - intros x. specialize (Hloc x). destruct (S1 x) as (A1 & _). destruct (S2 x) as (A2 & _). rewrite cnt_app. cbn [cnt] in A1. lia.
  - intros x H. rewrite cnt_app in H. destruct (S1 x) as (A1 & B1 & C1). destruct (S2 x) as (A2 & B2 & C2). cbn [cnt] in *.
    destruct (Nat.eq_dec (cnt x l3) 0) as [Z|NZ]; [apply Hz; lia|].
    destruct (Nat.eq_dec (cnt x l0) 0) as [Z0|NZ0]; [apply C2; lia|apply C1; lia].
  - discriminate.
Qed.

Lemma pres_closebegin cf s s' : Inv s -> step cf s CloseBegin = Some s' -> Inv s'.
Proof.
  intros HI Hs. start s HI Hs; constructor; unfold loc, held_files; projs; auto.
Qed.

Lemma pres_closecollect cf s s' : Inv s -> step cf s CloseCollect = Some s' -> Inv s'.
Proof.
  intros HI Hs. start s HI Hs.
  pose proof (add_rel_fold _ _ _ _ _ _ E0) as S1. pose proof (add_rel_fold _ _ _ _ _ _ E1) as S2.
  constructor; unfold loc, held_files; projs; auto.
  - intros x. specialize (Hloc x). destruct (S1 x) as (A1 & _). destruct (S2 x) as (A2 & _). rewrite cnt_app. cbn [cnt map] in *. lia.
  - intros x H. rewrite cnt_app in H. destruct (S1 x) as (A1 & B1 & C1 & D1 & F1). destruct (S2 x) as (A2 & B2 & C2 & D2 & F2). cbn [cnt] in *.
    destruct (Nat.eq_dec (cnt x l2) 0) as [Z|NZ]; [apply Hz; lia|].
    destruct (Nat.eq_dec (cnt x l0) 0) as [Z0|NZ0]; [apply D2; lia|apply D1; lia].
  - intros _. split; [reflexivity|]. intros x H. destruct (S2 x) as (A2 & B2 & C2 & D2 & F2). cbn [cnt] in *.
    destruct (Nat.eq_dec (cnt x l1) 0) as [Z|NZ]; [|apply F2; lia].
    destruct cl; [destruct (Hcl eq_refl) as [_ Hpf]; apply Hpf|rewrite (Hop eq_refl) in H; cbn in H]; lia.
  - discriminate.
Qed.

Lemma pres_release cf s f s' : Inv s -> step cf s (Release f) = Some s' -> Inv s'.
Proof.
  intros HI Hs. start s HI Hs.
  assert (Rx : forall x, cnt x (remove1 f rq) + (if Nat.eqb f x then 1 else 0) = cnt x rq)
    by (intros x; pose proof (cnt_remove1 f x rq) as R; rewrite E in R; exact R).
  constructor; unfold loc, held_files; projs; auto.
  - intros x. specialize (Hloc x). specialize (Rx x). updf x f; [rewrite Nat.eqb_refl in Rx|destruct (Nat.eqb_spec f x); [congruence|]]; lia.
  - intros x H. apply Hz. specialize (Rx x). revert H. updf x f; [rewrite Nat.eqb_refl in Rx|destruct (Nat.eqb_spec f x); [congruence|]]; lia.
Qed.

Theorem inv_step cf s l s' : Inv s -> step cf s l = Some s' -> Inv s'.
Proof.
  destruct l.
  - apply pres_open. - apply pres_openfail. - apply pres_openabort. - apply pres_get. - apply pres_setf. - apply pres_newreader. - apply pres_read.
  - apply pres_dec. - apply pres_cleantick. - apply pres_closebegin. - apply pres_closecollect. - apply pres_release.
Qed.

Theorem inv_reach cf s0 s : Inv s0 -> reach cf s0 s -> Inv s.
Proof. intros H R. induction R; [exact H|eauto using inv_step]. Qed.

(* ---------- consequences for fsFiles ---------- *)
Theorem release_once cf s0 s f : Inv s0 -> reach cf s0 s -> released s f <= 1.
Proof.
  intros H0 R. pose proof (inv_reach _ _ _ H0 R) as HI. pose proof (i_loc _ HI f) as L. unfold loc in L.
  destruct (Nat.ltb f (nextf s)); lia.
Qed.

Lemma find_holder_in h l x : find_holder h l = Some x -> In x l.
Proof.
  induction l as [|y l IH]; cbn; [discriminate|]. destruct (Nat.eqb (h_id y) h); [intros H; injection H as ->; auto|auto].
Qed.

Lemma held_pos s x : In x (holders s) -> 0 < cnt (h_f x) (held_files s).
Proof. intros H. apply cnt_In. unfold held_files. now apply in_map. Qed.

(* a file somebody holds a count on has not been released and is not queued for release; it is in the cache,
   in pendingFiles, or known only to its holders *)
Theorem holder_safe cf s0 s x : Inv s0 -> reach cf s0 s -> In x (holders s) ->
  released s (h_f x) = 0 /\ ~ In (h_f x) (relq s) /\ ~ In (h_f x) (local s) /\ ~ In (h_f x) (leaked s) /\ h_f x < nextf s.
Proof.
  intros H0 R Hx. pose proof (inv_reach _ _ _ H0 R) as HI. pose proof (held_pos _ _ Hx) as P.
  rewrite <- (i_rc _ HI) in P.
  assert (Z : cnt (h_f x) (local s) + cnt (h_f x) (leaked s) + cnt (h_f x) (relq s) + released s (h_f x) = 0).
  { destruct (cnt (h_f x) (local s) + cnt (h_f x) (leaked s) + cnt (h_f x) (relq s) + released s (h_f x)) eqn:E; [reflexivity|].
    rewrite (i_zero _ HI) in P; lia. }
  repeat split; try lia; try (intros I; apply cnt_In in I; lia).
  destruct (Nat.lt_ge_cases (h_f x) (nextf s)) as [L|G]; [exact L|]. rewrite (i_fresh _ HI _ G) in P. lia.
Qed.

(* Release is only ever called on a file nobody is reading, and it stays that way *)
Theorem release_no_reader cf s0 s f s' : Inv s0 -> reach cf s0 s -> step cf s (Release f) = Some s' ->
  rc s f = 0 /\ ~ In f (held_files s) /\ ~ In f (held_files s').
Proof.
  intros H0 R Hs. pose proof (inv_reach _ _ _ H0 R) as HI.
  assert (M : memb f (relq s) = true) by (cbn [step] in Hs; destruct (memb f (relq s)); [reflexivity|discriminate]).
  apply memb_cnt in M. assert (Z : rc s f = 0) by (apply (i_zero _ HI); lia).
  assert (N : ~ In f (held_files s)) by (intros I; apply cnt_In in I; rewrite <- (i_rc _ HI) in I; lia).
  repeat split; auto. cbn [step] in Hs. destruct (memb f (relq s)); [|discriminate]. injection Hs as <-. exact N.
Qed.

Theorem released_stays_unheld cf s0 s f : Inv s0 -> reach cf s0 s -> 0 < released s f -> ~ In f (held_files s).
Proof.
  intros H0 R P I. pose proof (inv_reach _ _ _ H0 R) as HI. apply cnt_In in I. rewrite <- (i_rc _ HI) in I.
  rewrite (i_zero _ HI) in I; lia.
Qed.

Lemma settled_parts s : settled s = true -> closed s = true /\ holders s = [] /\ local s = [] /\ relq s = [].
Proof.
  unfold settled. intros H. apply andb_true_iff in H as [H1 H2]. apply andb_true_iff in H1 as [H1 _].
  destruct (holders s); [|discriminate]. destruct (local s); [|discriminate]. destruct (relq s); [|discriminate]. auto.
Qed.

Theorem eventually_released cf s0 s : Inv s0 -> reach cf s0 s -> settled s = true ->
  forall f, f < nextf s -> released s f = 1 \/ In f (leaked s).
Proof.
  intros H0 R St f Lf. pose proof (inv_reach _ _ _ H0 R) as HI.
  destruct (settled_parts _ St) as (Hc & Hh & Hl & Hr).
  destruct (i_closed _ HI Hc) as [Hca Hpf].
  pose proof (i_loc _ HI f) as L. unfold loc in L. rewrite Hl, Hr, Hca in L. cbn [map cnt] in L.
  destruct (Nat.ltb_spec f (nextf s)); [|lia].
  assert (Z : cnt f (pending s) + cnt f (floating s) = 0).
  { destruct (cnt f (pending s) + cnt f (floating s)) eqn:E; [reflexivity|].
    assert (P : 0 < rc s f) by (apply Hpf; lia). rewrite (i_rc _ HI) in P. unfold held_files in P. rewrite Hh in P. cbn in P. lia. }
  destruct (cnt f (leaked s)) eqn:E; [left; lia|right; apply cnt_In; lia].
Qed.

Lemma step_leaked cf s l s' : is_openfail l = false -> step cf s l = Some s' -> leaked s' = leaked s.
Proof.
  intros Hl Hs. destruct l; try discriminate Hl;
    destruct s as [ca pe cs cl cr rcf rl fz lo lk fl rq ho po bc dc bo nf nb br]; cbn [step] in Hs; projs; brk Hs;
    try (injection Hs as <-); reflexivity.
Qed.

Lemma nofail_reach cf s0 s : reach_nofail cf s0 s -> reach cf s0 s.
Proof. induction 1; [constructor|econstructor; eauto]. Qed.

Lemma nofail_no_leak cf s0 s : leaked s0 = [] -> reach_nofail cf s0 s -> leaked s = [].
Proof. intros H0 R. induction R; [exact H0|]. erewrite step_leaked; eauto. Qed.

Lemma run_reach cf tr : forall s0 s s', reach cf s0 s -> run cf s tr = Some s' -> reach cf s0 s'.
Proof.
  induction tr as [|l tr IH]; cbn; intros s0 s s' R H; [now injection H as <-|].
  destruct (step cf s l) eqn:E; [|discriminate]. eapply IH; [|exact H]. econstructor; eauto.
Qed.

(* ---------- invariant on the per-reader handles (ff.bigFiles) ---------- *)
Definition hhs (l : list holder) : list bid := flat_map (fun x => match h_b x with Some b => [b] | None => [] end) l.
Definition hbit (ob : option bid) (b : bid) : nat := match ob with Some b' => if Nat.eqb b' b then 1 else 0 | None => 0 end.

Lemma hhs_cons x l b : cnt b (hhs (x :: l)) = hbit (h_b x) b + cnt b (hhs l).
Proof. unfold hhs. cbn [flat_map]. rewrite cnt_app. destruct (h_b x); cbn; lia. Qed.

Lemma hhs_del h l x b : find_holder h l = Some x -> cnt b (hhs (del_holder h l)) + hbit (h_b x) b = cnt b (hhs l).
Proof.
  induction l as [|y l IH]; cbn [find_holder del_holder]; [discriminate|].
  destruct (Nat.eqb (h_id y) h).
  - intros H. injection H as ->. rewrite hhs_cons. lia.
  - intros H. rewrite !hhs_cons, <- (IH H). lia.
Qed.

Lemma cnt_rev x l : cnt x (rev l) = cnt x l.
Proof. induction l as [|y l IH]; cbn; [reflexivity|]. rewrite cnt_app, IH. cbn. lia. Qed.

Lemma bump_all_spec l : forall bc b, bump_all bc l b = bc b + cnt b l.
Proof.
  unfold bump_all. induction l as [|y l IH]; intros bc b; cbn [fold_left cnt]; [lia|].
  rewrite IH. unfold upd. rewrite (Nat.eqb_sym b y). destruct (Nat.eqb y b) eqn:E; [apply Nat.eqb_eq in E; subst; lia|lia].
Qed.

Record HInv (cf : cfg) (s : st) : Prop := {
  h_one : forall b, cnt b (hhs (holders s)) + cnt b (pool s (bowner s b)) + dclosed s b = if Nat.ltb b (nextb s) then 1 else 0;
  h_own : forall b f, f <> bowner s b -> cnt b (pool s f) = 0;
  h_hold : forall x b, In x (holders s) -> h_b x = Some b -> bowner s b = h_f x /\ is_big cf s (h_f x) = true;
  h_closed : forall b, bclosed s b = dclosed s b + cnt b (pool s (bowner s b)) * released s (bowner s b);
  h_big : forall f b, 0 < cnt b (pool s f) -> is_big cf s f = true;
  h_fresh : forall f, nextf s <= f -> pool s f = [];
  h_private : forall f, 0 < cnt f (local s) + cnt f (leaked s) -> pool s f = [];
  h_reads : badreads s = 0
}.

Lemma hinv_init cf : HInv cf init.
Proof. constructor; cbn; intros; auto; try lia; try tauto. Qed.
Lemma hinv_init_noop cf : HInv cf init_noop.
Proof. constructor; cbn; intros; auto; try lia; try tauto. Qed.

Ltac startH s HI HH Hs :=
  destruct s as [ca pe cs cl cr rcf rl fz lo lk fl rq ho po bc dc bo nf nb br]; cbn [step] in Hs; projs; brk Hs;
  try (injection Hs as <-); destruct HI as [Hrc Hloc Hz Hcl Hop Hfr]; destruct HH as [G1 G2 G3 G4 G5 G6 G7 G8];
  unfold loc, held_files, is_big, is_virtual in *; projs.

Lemma holder_live s x : Inv s -> In x (holders s) ->
  0 < rc s (h_f x) /\ h_f x < nextf s /\ released s (h_f x) = 0 /\ cnt (h_f x) (local s) + cnt (h_f x) (leaked s) = 0.
Proof.
  intros HI Hx. pose proof (held_pos _ _ Hx) as P. rewrite <- (i_rc _ HI) in P.
  assert (Z : cnt (h_f x) (local s) + cnt (h_f x) (leaked s) + cnt (h_f x) (relq s) + released s (h_f x) = 0).
  { destruct (cnt (h_f x) (local s) + cnt (h_f x) (leaked s) + cnt (h_f x) (relq s) + released s (h_f x)) eqn:E; [reflexivity|].
    rewrite (i_zero _ HI) in P; lia. }
  repeat split; try lia. destruct (Nat.lt_ge_cases (h_f x) (nextf s)) as [L|G]; [exact L|]. rewrite (i_fresh _ HI _ G) in P. lia.
Qed.

Lemma hpres_open cf s sz s' : Inv s -> HInv cf s -> step cf s (Open sz) = Some s' -> HInv cf s'.
Proof.
  intros HI HH Hs. pose proof (fun x Hx => holder_live s x HI Hx) as Live. startH s HI HH Hs. projs.
  constructor; unfold is_big, is_virtual; projs; auto.
  - intros x b Hx Hb. destruct (G3 x b Hx Hb) as [A B]. split; [exact A|].
    destruct (Live x Hx) as (_ & L & _). unfold upd. destruct (Nat.eqb_spec (h_f x) nf); [lia|exact B].
  - intros f b P. unfold upd. destruct (Nat.eqb_spec f nf) as [->|]; [rewrite (G6 nf) in P by lia; cbn in P; lia|eauto].
  - intros f L. apply G6. lia.
  - intros f P. cbn [cnt] in P. destruct (Nat.eqb_spec nf f) as [Ef|]; [subst f; apply G6; lia|apply G7; lia].
Qed.

Lemma hpres_openfail cf s f s' : Inv s -> HInv cf s -> step cf s (OpenFail f) = Some s' -> HInv cf s'.
Proof.
  intros HI HH Hs. startH s HI HH Hs. constructor; unfold is_big, is_virtual; projs; auto.
  intros x P. apply G7. pose proof (cnt_remove1 f x lo) as R. rewrite E in R. cbn [cnt] in P. destruct (Nat.eqb f x); lia.
Qed.

Lemma hpres_openabort cf s f s' : Inv s -> HInv cf s -> step cf s (OpenAbort f) = Some s' -> HInv cf s'.
Proof.
  intros HI HH Hs. startH s HI HH Hs. apply memb_cnt in E.
  constructor; unfold is_big, is_virtual; projs; auto.
  - intros b. rewrite (G4 b). unfold upd. destruct (Nat.eqb_spec (bo b) f) as [Eo|]; [|reflexivity].
    rewrite Eo. rewrite (G7 f) by lia. cbn. lia.
  - intros x P. apply G7. pose proof (cnt_remove1 f x lo) as R. destruct (memb f lo); destruct (Nat.eqb f x); lia.
Qed.

Lemma hpres_get cf s k h s' : Inv s -> HInv cf s -> step cf s (Get k h) = Some s' -> HInv cf s'.
Proof.
  intros HI HH Hs. startH s HI HH Hs. constructor; unfold is_big, is_virtual; projs; auto.
  intros x b [<-|Hx] Hb; [discriminate|eauto].
Qed.

Lemma hpres_setf cf s k f h s' : Inv s -> HInv cf s -> step cf s (SetF k f h) = Some s' -> HInv cf s'.
Proof.
  intros HI HH Hs. startH s HI HH Hs; apply negb_false_iff in E;
    assert (Rx : forall x, cnt x (remove1 f lo) + (if Nat.eqb f x then 1 else 0) = cnt x lo)
      by (intros x; pose proof (cnt_remove1 f x lo) as R; rewrite E in R; exact R);
    (constructor; unfold is_big, is_virtual; projs; auto;
     [intros x b [<-|Hx] Hb; [discriminate|eauto]
     |intros x P; apply G7; specialize (Rx x); destruct (Nat.eqb f x); lia]).
Qed.

Lemma hpres_trivial cf s l s' : Inv s -> HInv cf s ->
  match l with CleanTick _ | CloseBegin | CloseCollect => True | _ => False end ->
  step cf s l = Some s' -> HInv cf s'.
Proof.
  intros HI HH Hl Hs. destruct l; try contradiction; startH s HI HH Hs; constructor; unfold is_big, is_virtual; projs; auto.
Qed.

Lemma in_del_holder h l x : In x (del_holder h l) -> In x l.
Proof.
  induction l as [|y l IH]; cbn; [tauto|]. destruct (Nat.eqb (h_id y) h); cbn; [tauto|]. intros [->|H]; auto.
Qed.

Lemma hpres_newreader cf s h s' : Inv s -> HInv cf s -> step cf s (NewReader h) = Some s' -> HInv cf s'.
Proof.
  intros HI HH Hs.
  assert (Live := fun x Hx => holder_live s x HI Hx).
  startH s HI HH Hs; apply negb_false_iff in E2;
    pose proof (find_holder_in _ _ _ E) as Hin; destruct (Live _ Hin) as (Lrc & Llt & Lrel & Lpriv); cbn [h_f] in *;
    pose proof (fun b => hhs_del h ho _ b E) as Hd; cbn [h_b hbit] in Hd.
  - (* a new handle *)
    assert (Hp : po hf = []) by (destruct (po hf) as [|a r]; [reflexivity|cbn in E3; destruct (rev r); discriminate]).
    assert (Zn : cnt nb (hhs ho) + cnt nb (po (bo nb)) + dc nb = 0) by (rewrite G1; destruct (Nat.ltb_spec nb nb); lia).
    constructor; unfold is_big, is_virtual; projs; auto.
    + intros b. rewrite hhs_cons. cbn [h_b hbit]. specialize (Hd b). specialize (G1 b). unfold upd.
      destruct (Nat.eqb_spec b nb) as [->|N].
      * rewrite Nat.eqb_refl, Hp. cbn [cnt]. destruct (Nat.ltb_spec nb (S nb)); lia.
      * destruct (Nat.eqb_spec nb b); [congruence|]. destruct (Nat.ltb_spec b nb); destruct (Nat.ltb_spec b (S nb)); lia.
    + intros b f N. unfold upd in N. destruct (Nat.eqb_spec b nb) as [->|]; [|auto].
      destruct (Nat.eq_dec f (bo nb)) as [->|N2]; [lia|auto].
    + intros x b [<-|Hx] Hb.
      * cbn in Hb. injection Hb as <-. cbn [h_f]. unfold upd. rewrite Nat.eqb_refl. auto.
      * apply in_del_holder in Hx. destruct (G3 x b Hx Hb) as [A B]. split; [|exact B]. unfold upd.
        destruct (Nat.eqb_spec b nb) as [->|]; [|exact A].
        assert (0 < cnt nb (hhs ho)); [|lia]. apply cnt_In. unfold hhs. apply in_flat_map. exists x. rewrite Hb. cbn. auto.
    + intros b. unfold upd. destruct (Nat.eqb_spec b nb) as [->|]; [|apply G4]. rewrite Hp, (G4 nb).
      assert (Z0 : cnt nb (po (bo nb)) = 0) by lia. rewrite Z0. cbn. lia.
  - (* a pooled handle *)
    assert (Hp : po hf = rev l ++ [b]).
    { rewrite <- (rev_involutive (po hf)), E3. reflexivity. }
    assert (Hb : bo b = hf).
    { destruct (Nat.eq_dec hf (bo b)) as [->|N]; [reflexivity|]. pose proof (G2 b hf N) as Z. rewrite Hp, cnt_app in Z. cbn in Z.
      rewrite Nat.eqb_refl in Z. lia. }
    assert (Pc : forall x, cnt x (po hf) = cnt x (rev l) + (if Nat.eqb b x then 1 else 0)) by (intros x; rewrite Hp, cnt_app; cbn; lia).
    constructor; unfold is_big, is_virtual; projs; auto.
    + intros x. rewrite hhs_cons. cbn [h_b hbit]. specialize (Hd x). specialize (G1 x). unfold upd.
      destruct (Nat.eqb_spec (bo x) hf) as [Eo|No]; [|destruct (Nat.eqb_spec b x); [subst; congruence|lia]]. rewrite Eo in G1. rewrite Pc in G1. lia.
    + intros x f N. unfold upd. destruct (Nat.eqb_spec f hf) as [->|]; [|auto]. pose proof (G2 x hf N) as Z. rewrite Pc in Z. lia.
    + intros x b0 [<-|Hx] Hb0.
      * cbn in Hb0. injection Hb0 as <-. cbn [h_f]. auto.
      * apply in_del_holder in Hx. eauto.
    + intros x. unfold upd. rewrite (G4 x). destruct (Nat.eqb_spec (bo x) hf) as [Eo|No]; [|reflexivity]. rewrite Eo, Lrel. lia.
    + intros f x P. unfold upd in P. destruct (Nat.eqb_spec f hf) as [->|]; [exact E2|eauto].
    + intros f L. unfold upd. destruct (Nat.eqb_spec f hf) as [->|]; [lia|auto].
    + intros f P. unfold upd. destruct (Nat.eqb_spec f hf) as [->|]; [lia|auto].
Qed.

Lemma holder_handle_pos l x b : In x l -> h_b x = Some b -> 0 < cnt b (hhs l).
Proof. intros Hx Hb. apply cnt_In. unfold hhs. apply in_flat_map. exists x. rewrite Hb. cbn. auto. Qed.

Lemma hpres_read cf s h s' : Inv s -> HInv cf s -> step cf s (Read h) = Some s' -> HInv cf s'.
Proof.
  intros HI HH Hs.
  assert (Live := fun x Hx => holder_live s x HI Hx).
  startH s HI HH Hs; pose proof (find_holder_in _ _ _ E) as Hin; destruct (Live _ Hin) as (Lrc & Llt & Lrel & Lpriv); cbn [h_f] in *.
  constructor; unfold is_big, is_virtual; projs; auto.
  destruct hb as [b|].
  - pose proof (holder_handle_pos _ _ b Hin eq_refl) as P. specialize (G1 b). specialize (G4 b).
    assert (Z : cnt b (po (bo b)) = 0 /\ dc b = 0) by (destruct (Nat.ltb b nb); lia). destruct Z as [Z1 Z2].
    rewrite Z1, Z2 in G4. cbn in G4. rewrite G4. cbn. exact G8.
  - rewrite Lrel. cbn. destruct (fz hf <? 0)%Z; [exact G8|]. destruct (if osfs cf then _ else _); exact G8.
Qed.

Lemma hpres_dec cf s h sf s' : Inv s -> HInv cf s -> step cf s (Dec h sf) = Some s' -> HInv cf s'.
Proof.
  intros HI HH Hs.
  assert (Live := fun x Hx => holder_live s x HI Hx).
  startH s HI HH Hs; pose proof (find_holder_in _ _ _ E) as Hin; destruct (Live _ Hin) as (Lrc & Llt & Lrel & Lpriv); cbn [h_f] in *.
  pose proof (fun b => hhs_del h ho _ b E) as Hd. cbn [h_b] in Hd.
  assert (Hsub : forall x, In x (del_holder h ho) -> In x ho) by (intros x; apply in_del_holder).
  destruct hb as [b|]; [destruct sf|].
  - (* seek failed: the handle is closed by its reader *)
    destruct (G3 _ b Hin eq_refl) as [Ho Hbig]. cbn [h_f] in *.
    constructor; unfold is_big, is_virtual; projs; auto.
    + intros x. specialize (Hd x). specialize (G1 x). cbn [hbit] in Hd. unfold upd. destruct (Nat.eqb_spec x b) as [->|N].
      * rewrite Nat.eqb_refl in Hd. lia.
      * destruct (Nat.eqb_spec b x); [congruence|]. lia.
    + intros x. specialize (G4 x). unfold upd. destruct (Nat.eqb_spec x b) as [->|]; lia.
  - (* handle returned to ff.bigFiles *)
    destruct (G3 _ b Hin eq_refl) as [Ho Hbig]. cbn [h_f] in *.
    constructor; unfold is_big, is_virtual; projs; auto.
    + intros x. specialize (Hd x). specialize (G1 x). cbn [hbit] in Hd. unfold upd.
      destruct (Nat.eqb_spec (bo x) hf) as [Eo|No].
      * rewrite cnt_app. cbn [cnt]. rewrite Eo in G1. lia.
      * destruct (Nat.eqb_spec b x); [subst; congruence|]. lia.
    + intros x f N. unfold upd. destruct (Nat.eqb_spec f hf) as [->|]; [|auto]. rewrite cnt_app. cbn [cnt].
      destruct (Nat.eqb_spec b x); [subst; congruence|]. rewrite (G2 x hf N). lia.
    + intros x. specialize (G4 x). unfold upd. destruct (Nat.eqb_spec (bo x) hf) as [Eo|No]; [|exact G4].
      rewrite Eo in *. rewrite Lrel in *. lia.
    + intros f x P. unfold upd in P. destruct (Nat.eqb_spec f hf) as [->|]; [exact Hbig|eauto].
    + intros f L. unfold upd. destruct (Nat.eqb_spec f hf) as [->|]; [lia|auto].
    + intros f P. unfold upd. destruct (Nat.eqb_spec f hf) as [->|]; [|apply G7; destruct (cl && (n =? 0)); exact P].
      destruct (cl && (n =? 0)); lia.
  - constructor; unfold is_big, is_virtual; projs; auto.
    + intros x. specialize (Hd x). specialize (G1 x). cbn [hbit] in Hd. lia.
Qed.

Lemma hpres_release cf s f s' : Inv s -> HInv cf s -> step cf s (Release f) = Some s' -> HInv cf s'.
Proof.
  intros HI HH Hs. startH s HI HH Hs.
  constructor; unfold is_big, is_virtual; projs; auto.
  intros b. specialize (G4 b). unfold upd.
  destruct (Nat.eqb_spec (bo b) f) as [Eo|No].
  - rewrite Eo in *. destruct (if (fz f <? 0)%Z then _ else _) eqn:Big.
    + rewrite bump_all_spec. nia.
    + assert (Z : cnt b (po f) = 0).
      { destruct (cnt b (po f)) eqn:Ec; [reflexivity|]. assert (P : 0 < cnt b (po f)) by lia. apply G5 in P. congruence. }
      rewrite Z in *. lia.
  - destruct (if (fz f <? 0)%Z then _ else _); [|exact G4]. rewrite bump_all_spec, (G2 b f); [lia|congruence].
Qed.

Theorem hinv_step cf s l s' : Inv s -> HInv cf s -> step cf s l = Some s' -> HInv cf s'.
Proof.
  intros HI HH. destruct l.
  - now apply hpres_open. - now apply hpres_openfail. - now apply hpres_openabort. - now apply hpres_get. - now apply hpres_setf.
  - now apply hpres_newreader. - now apply hpres_read. - now apply hpres_dec.
  - now apply hpres_trivial. - now apply hpres_trivial. - now apply hpres_trivial. - now apply hpres_release.
Qed.

Theorem hinv_reach cf s0 s : Inv s0 -> HInv cf s0 -> reach cf s0 s -> Inv s /\ HInv cf s.
Proof. intros H H2 R. induction R; [auto|]. destruct IHR. split; eauto using inv_step, hinv_step. Qed.

(* ---------- consequences for reads and reader handles ---------- *)
Theorem no_bad_reads cf s0 s : Inv s0 -> HInv cf s0 -> reach cf s0 s -> badreads s = 0.
Proof. intros H H2 R. destruct (hinv_reach _ _ _ H H2 R) as [_ HH]. apply (h_reads _ _ HH). Qed.

Theorem reader_handle_open cf s0 s x b : Inv s0 -> HInv cf s0 -> reach cf s0 s ->
  In x (holders s) -> h_b x = Some b -> bclosed s b = 0 /\ bowner s b = h_f x.
Proof.
  intros H H2 R Hx Hb. destruct (hinv_reach _ _ _ H H2 R) as [HI HH].
  pose proof (holder_handle_pos _ _ b Hx Hb) as P. pose proof (h_one _ _ HH b) as O. pose proof (h_closed _ _ HH b) as C.
  assert (Z : cnt b (pool s (bowner s b)) = 0 /\ dclosed s b = 0) by (destruct (Nat.ltb b (nextb s)); lia).
  destruct Z as [Z1 Z2]. rewrite Z1, Z2 in C. split; [cbn in C; exact C|]. apply (h_hold _ _ HH x b Hx Hb).
Qed.

Theorem handle_closed_at_most_once cf s0 s b : Inv s0 -> HInv cf s0 -> reach cf s0 s -> bclosed s b <= 1.
Proof.
  intros H H2 R. destruct (hinv_reach _ _ _ H H2 R) as [HI HH].
  pose proof (h_one _ _ HH b) as O. pose proof (h_closed _ _ HH b) as C.
  pose proof (release_once cf s0 s (bowner s b) H R) as L. destruct (Nat.ltb b (nextb s)); nia.
Qed.

Theorem handles_closed_at_end cf s0 s : Inv s0 -> HInv cf s0 -> reach cf s0 s -> settled s = true ->
  forall b, b < nextb s -> bclosed s b = 1.
Proof.
  intros H H2 R St b Lb. destruct (hinv_reach _ _ _ H H2 R) as [HI HH].
  destruct (settled_parts _ St) as (Hc & Hh & Hl & Hr).
  pose proof (h_one _ _ HH b) as O. pose proof (h_closed _ _ HH b) as C. rewrite Hh in O. cbn [hhs flat_map cnt] in O.
  destruct (Nat.ltb_spec b (nextb s)); [|lia].
  destruct (Nat.eq_dec (dclosed s b) 1) as [D|D]; [nia|].
  assert (P : cnt b (pool s (bowner s b)) = 1) by lia.
  set (f := bowner s b) in *.
  assert (Lf : f < nextf s).
  { destruct (Nat.lt_ge_cases f (nextf s)) as [L|G]; [exact L|]. rewrite (h_fresh _ _ HH f G) in P. cbn in P. lia. }
  destruct (eventually_released cf s0 s H R St f Lf) as [Rl|Lk].
  - rewrite Rl in C. lia.
  - apply cnt_In in Lk. rewrite (h_private _ _ HH f) in P by lia. cbn in P. lia.
Qed.

Theorem released_invariant cf s0 s f : Inv s0 -> reach cf s0 s -> 0 < released s f ->
  rc s f = 0 /\ ~ In f (held_files s) /\ ~ In f (map snd (cache s)) /\ ~ In f (pending s) /\ ~ In f (relq s).
Proof.
  intros H R P. pose proof (inv_reach _ _ _ H R) as HI. pose proof (i_loc _ HI f) as L. unfold loc in L.
  assert (Z : rc s f = 0) by (apply (i_zero _ HI); lia).
  repeat split; [exact Z| | | |]; intros I; apply cnt_In in I; try (rewrite <- (i_rc _ HI) in I); destruct (Nat.ltb f (nextf s)); lia.
Qed.

Definition start_state (s0 : st) : Prop := s0 = init \/ s0 = init_noop.
Lemma start_inv s0 : start_state s0 -> Inv s0.
Proof. intros [->| ->]; [apply inv_init|apply inv_init_noop]. Qed.
Lemma start_hinv cf s0 : start_state s0 -> HInv cf s0.
Proof. intros [->| ->]; [apply hinv_init|apply hinv_init_noop]. Qed.
Lemma start_noleak s0 : start_state s0 -> leaked s0 = [].
Proof. intros [->| ->]; reflexivity. Qed.

(* ---------- statements of Properties/C25.v ---------- *)
Lemma p_released_invariant : forall cf s0 s f, start_state s0 -> reach cf s0 s -> 0 < released s f ->
  rc s f = 0 /\ ~ In f (held_files s) /\ ~ In f (map snd (cache s)) /\ ~ In f (pending s) /\ ~ In f (relq s).
Proof. intros cf s0 s f H. apply released_invariant. now apply start_inv. Qed.

Lemma p_release_once : forall cf s0 s, start_state s0 -> reach cf s0 s ->
  (forall f, released s f <= 1) /\ (forall b, bclosed s b <= 1).
Proof.
  intros cf s0 s H R. split; intros x.
  - apply (release_once cf s0); [now apply start_inv|exact R].
  - apply (handle_closed_at_most_once cf s0); [now apply start_inv|now apply start_hinv|exact R].
Qed.

Lemma p_release_no_reader : forall cf s0 s f s', start_state s0 -> reach cf s0 s -> step cf s (Release f) = Some s' ->
  rc s f = 0 /\ ~ In f (held_files s) /\ ~ In f (held_files s').
Proof. intros cf s0 s f s' H. apply release_no_reader. now apply start_inv. Qed.

Lemma p_no_read_after_release : forall cf s0 s, start_state s0 -> reach cf s0 s ->
  badreads s = 0 /\
  (forall x, In x (holders s) ->
     released s (h_f x) = 0 /\ ~ In (h_f x) (relq s) /\ (forall b, h_b x = Some b -> bclosed s b = 0)) /\
  (forall h, find_holder h (holders s) <> None -> step cf s (Read h) <> None /\ (exists sf, step cf s (Dec h sf) <> None)).
Proof.
  intros cf s0 s H R. pose proof (start_inv _ H) as HI0. pose proof (start_hinv cf _ H) as HH0. repeat split.
  - now apply (no_bad_reads cf s0).
  - now destruct (holder_safe cf s0 s x HI0 R H0).
  - now destruct (holder_safe cf s0 s x HI0 R H0) as (_ & N & _).
  - intros b Hb. now destruct (reader_handle_open cf s0 s x b HI0 HH0 R H0 Hb).
  - cbn [step]. destruct (find_holder h (holders s)) as [[i f ob]|]; [discriminate|contradiction].
  - exists false. cbn [step]. destruct (find_holder h (holders s)) as [[i f ob]|] eqn:E; [|contradiction].
    pose proof (find_holder_in _ _ _ E) as Hin. pose proof (inv_reach _ _ _ HI0 R) as HI.
    pose proof (held_pos _ _ Hin) as P. rewrite <- (i_rc _ HI) in P. cbn [h_f] in P. destruct (rc s f); [lia|discriminate].
Qed.

Lemma p_settled_released_or_leaked : forall cf s0 s, start_state s0 -> reach cf s0 s -> settled s = true ->
  (forall f, f < nextf s -> released s f = 1 \/ In f (leaked s)) /\ (forall b, b < nextb s -> bclosed s b = 1).
Proof.
  intros cf s0 s H R St. split.
  - apply (eventually_released cf s0); auto using start_inv.
  - apply (handles_closed_at_end cf s0); auto using start_inv, start_hinv.
Qed.

Lemma p_eventually_released_refuted : exists cf s, reach cf init s /\ settled s = true /\ 0 < nextf s /\ released s 0 = 0.
Proof.
  exists (mkCfg false). eexists. split; [|split; [|split]].
  - eapply (run_reach _ [Open 100; OpenFail 0; CloseBegin; CloseCollect]); [apply reach_init|]. vm_compute. reflexivity.
  - reflexivity.
  - cbn. auto.
  - reflexivity.
Qed.

Lemma p_eventually_released : forall cf s0 s, start_state s0 -> reach_nofail cf s0 s -> settled s = true ->
  (forall f, f < nextf s -> released s f = 1) /\ (forall b, b < nextb s -> bclosed s b = 1).
Proof.
  intros cf s0 s H R St. pose proof (nofail_reach _ _ _ R) as R'.
  destruct (p_settled_released_or_leaked cf s0 s H R' St) as [A B]. split; [|exact B].
  intros f L. destruct (A f L) as [E|I]; [exact E|]. rewrite (nofail_no_leak cf s0 s (start_noleak _ H) R) in I. destruct I.
Qed.

