(* FsPathProof.v — proofs for C23 on Model/FsPath.v (uses the C26 results of PathNormProof.v). *)
From Coq Require Import Lia ZifyBool ZifyN ZifyNat.
From FH Require Import Model.Base Gen.GenC26 Gen.GenC23 Model.PathNorm Model.FsPath Spec.Rfc3986 Spec.Clean Proof.PathNormProof.
Open Scope N_scope.


(* ================= hasDotDotPathSegment is "some segment is .." ================= *)
Lemma hasDotDot_loop_spec path : forall seg,
  hasDotDot_loop path seg =
  existsb is_dotdot (match split_segs path with hd :: tl => (seg ++ hd) :: tl | [] => [] end).
Proof.
  induction path as [|c r IH]; intros seg; cbn [hasDotDot_loop split_segs].
  - cbn. rewrite app_nil_r, orb_false_r. reflexivity.
  - destruct (c =? SLASH) eqn:E.
    + cbn [existsb]. rewrite app_nil_r. change (is_dotdot seg) with (beq seg dotdot).
      destruct (beq seg dotdot); [reflexivity|]. cbn [orb]. rewrite IH.
      destruct (split_segs r) as [|hd tl] eqn:Es; [now apply split_ne in Es|]. reflexivity.
    + rewrite IH. destruct (split_segs r) as [|hd tl] eqn:Es; [now apply split_ne in Es|].
      now rewrite <- app_assoc.
Qed.

Lemma hasDotDot_spec path : hasDotDotPathSegment path = existsb is_dotdot (split_segs path).
Proof.
  unfold hasDotDotPathSegment. rewrite hasDotDot_loop_spec.
  destruct (split_segs path); reflexivity.
Qed.

Lemma hasDotDot_false path : hasDotDotPathSegment path = false <-> no_dotdot path.
Proof.
  rewrite hasDotDot_spec. unfold no_dotdot. split.
  - intros H Hin. assert (existsb is_dotdot (split_segs path) = true); [|congruence].
    apply existsb_exists. exists sDotDot. split; [exact Hin|reflexivity].
  - intros H. destruct (existsb is_dotdot (split_segs path)) eqn:E; [|reflexivity].
    apply existsb_exists in E as (s & Hs & Hd). apply beq_eq in Hd. subst s. contradiction.
Qed.

(* ================= segments under the string operations of pathToFilePath ================= *)
Definition sfx_ok (s : bytes) : Prop := ~ In SLASH s /\ exists ch, In ch s /\ ch <> DOT.

Lemma split_app_noslash a s : ~ In SLASH s ->
  split_segs (a ++ s) = removelast (split_segs a) ++ [last (split_segs a) [] ++ s].
Proof.
  intros Hs. induction a as [|c a IH]; cbn [app].
  - now rewrite split_noslash.
  - cbn [split_segs]. destruct (c =? SLASH).
    + rewrite IH. destruct (split_segs a) as [|hd tl] eqn:Es; [now apply split_ne in Es|]. reflexivity.
    + rewrite IH. destruct (split_segs a) as [|hd tl] eqn:Es; [now apply split_ne in Es|].
      destruct tl as [|t2 tl]; reflexivity.
Qed.

Lemma no_dotdot_sfx rel s : no_dotdot rel -> sfx_ok s -> no_dotdot (rel ++ s).
Proof.
  intros Hr [Hs (ch & Hch & Hnd)]. unfold no_dotdot in *. rewrite split_app_noslash by exact Hs.
  intros Hin. apply in_app_or in Hin as [Hin|[Hin|[]]].
  - apply Hr. rewrite (app_removelast_last [] (split_ne rel)). apply in_or_app. now left.
  - assert (Hall : forall x, In x (last (split_segs rel) [] ++ s) -> x = DOT).
    { rewrite Hin. intros x [<-|[<-|[]]]; reflexivity. }
    apply Hnd, Hall. apply in_or_app. now right.
Qed.

Lemma no_dotdot_join a b : no_dotdot a -> no_dotdot b -> no_dotdot (a ++ SLASH :: b).
Proof.
  unfold no_dotdot. rewrite split_app. intros Ha Hb Hin. apply in_app_or in Hin as [H|H]; auto.
Qed.

Lemma no_dotdot_tl rel : no_dotdot (SLASH :: rel) -> no_dotdot rel.
Proof. unfold no_dotdot. cbn. intros H Hin. apply H. now right. Qed.

Lemma no_dotdot_nil : no_dotdot [].
Proof. unfold no_dotdot. cbn. intros [H|[]]. discriminate. Qed.

Lemma no_dotdot_drop_trailing p : no_dotdot (p ++ [SLASH]) -> no_dotdot p.
Proof. unfold no_dotdot. rewrite split_app. intros H Hin. apply H. apply in_or_app. now left. Qed.

Lemma trailing_slash_form path :
  match rev path with ch :: _ => ch =? SLASH | [] => false end = true ->
  path = firstn (length path - 1) path ++ [SLASH].
Proof.
  intros H. destruct (snoc_cases path) as [->|(i & z & ->)]; [discriminate|].
  rewrite rev_app_distr in H. cbn in H. apply N.eqb_eq in H. subst z.
  rewrite app_length. cbn [length]. replace (length i + 1 - 1)%nat with (length i) by lia.
  now rewrite firstn_len_app.
Qed.

(* ================= the rewriters never panic ================= *)
Lemma strip_ok k : forall p, (p = [] \/ wfp p) ->
  exists q, stripLeadingSlashes p k = SOk q /\ (q = [] \/ wfp q).
Proof.
  induction k as [|k IH]; intros p Hp; cbn [stripLeadingSlashes]; [eauto|].
  destruct Hp as [->|[r ->]]; [eauto|]. rewrite N.eqb_refl.
  destruct (indexByte r SLASH) as [n|] eqn:E; [|eauto].
  apply indexByte_Some in E as (x & y & -> & <- & _). rewrite skipn_len_app0.
  apply IH. right. eexists; reflexivity.
Qed.

Lemma ctxPath_eq reqPath : ctxPath reqPath = normalizePath reqPath.
Proof. unfold ctxPath. destruct (normalizePath_wfp reqPath) as [r ->]. reflexivity. Qed.

Lemma rewrite_no_panic rw reqPath host : rewrite rw (ctxPath reqPath) host <> RwPanic.
Proof.
  assert (Hp : ctxPath reqPath = [] \/ wfp (ctxPath reqPath)).
  { right. rewrite ctxPath_eq. apply normalizePath_wfp. }
  destruct rw as [|k|k|k]; cbn [rewrite]; try discriminate.
  - unfold vhostRewrite. destruct (strip_ok k _ Hp) as (q & -> & _). discriminate.
  - unfold slashesRewrite. destruct (strip_ok k _ Hp) as (q & -> & _). discriminate.
Qed.


(* ================= what handle lets through ================= *)
Lemma handle_serve c reqPath host path fp ts :
  handle c reqPath host = Serve path fp ts ->
  rewrite (rw c) (ctxPath reqPath) host = RwOk path /\
  ts = match rev path with ch :: _ => ch =? SLASH | [] => false end /\
  fp = pathToFilePath c path ts /\
  ~ In 0 path /\ no_dotdot path.
Proof.
  unfold handle. destruct (rewrite (rw c) (ctxPath reqPath) host) as [p|] eqn:Erw; [|discriminate].
  destruct (indexByte p 0) eqn:En; [discriminate|].
  destruct (negb (isRNone (rw c)) && hasDotDotPathSegment p) eqn:Ed; [discriminate|].
  intros [= <- <- <-]. repeat split; auto.
  - now apply indexByte_None.
  - destruct (rw c) eqn:Er; cbn [isRNone negb andb] in Ed.
    + (* no rewriter: C26 *)
      cbn [rewrite] in Erw. injection Erw as <-. rewrite ctxPath_eq.
      destruct (path_no_dotdot reqPath) as (Hn & _).
      destruct (normalizePath_wfp reqPath) as [r Hr]. rewrite Hr in *. cbn [psegs] in Hn.
      unfold no_dotdot. cbn. intros [H|H]; [discriminate|contradiction].
    + now apply hasDotDot_false.
    + now apply hasDotDot_false.
    + now apply hasDotDot_false.
Qed.

(* the shape of filePath on the default filesystem *)
Lemma filePath_os c path ts :
  osfs c = true -> root c <> [] -> no_dotdot path ->
  ts = match rev path with ch :: _ => ch =? SLASH | [] => false end ->
  (pathToFilePath c path ts = root c /\ trimmedNonEmpty path = false) \/
  exists rel, pathToFilePath c path ts = root c ++ SLASH :: rel /\ no_dotdot rel.
Proof.
  intros Hos Hroot Hnd Hts. unfold pathToFilePath. rewrite Hos. cbn [negb].
  set (path' := if ts then firstn (length path - 1) path else path).
  assert (Hempty : path' = [] -> trimmedNonEmpty path = false).
  { unfold path'. destruct ts; [|now intros ->]. symmetry in Hts. apply trailing_slash_form in Hts.
    intros E. rewrite E in Hts. rewrite Hts. reflexivity. }
  assert (Hnd' : no_dotdot path').
  { unfold path'. destruct ts; [|exact Hnd]. symmetry in Hts. apply trailing_slash_form in Hts.
    rewrite Hts in Hnd. now apply no_dotdot_drop_trailing in Hnd. }
  destruct path' as [|ch rest] eqn:Ep.
  - left. split; [|now apply Hempty]. cbn [beq negb]. rewrite andb_false_r, !app_nil_r. reflexivity.
  - destruct (ch =? SLASH) eqn:Ec.
    + apply N.eqb_eq in Ec. subst ch. right. exists rest. split; [reflexivity|]. now apply no_dotdot_tl.
    + right. exists (ch :: rest). split; [|exact Hnd'].
      destruct (root c) eqn:Er; [contradiction|]. cbn [beq negb andb]. now rewrite <- app_assoc.
Qed.

Definition relname_hd (p : bytes) : Prop := match p with ch :: _ => ch <> SLASH | [] => True end.

Definition tree_root (c : fscfg) (t : tree) : bytes :=
  match t with InRoot => root c | InCompressRoot => compressRoot c end.

(* names derived from a filePath that is strictly below root *)
Lemma openFSFile_names_inside c rel sfx t p :
  no_dotdot rel -> (forall s, sfx = Some s -> sfx_ok s) ->
  In (t, p) (openFSFile_names c (root c ++ SLASH :: rel) sfx) -> inside (tree_root c t) p.
Proof.
  intros Hrel Hsfx Hin. unfold openFSFile_names in Hin. destruct sfx as [s|].
  - specialize (Hsfx s eq_refl).
    assert (Hrs : no_dotdot (rel ++ s)) by now apply no_dotdot_sfx.
    destruct Hin as [[= <- <-]|[[= <- <-]|[[= <- <-]|[]]]]; cbn [tree_root].
    + right. exists (rel ++ s). split; [now rewrite <- app_assoc|exact Hrs].
    + right. exists rel. now split.
    + right. exists (rel ++ s). split; [|exact Hrs]. unfold filePathToCompressed.
      destruct (beq (root c) (compressRoot c)) eqn:Eb.
      * apply beq_eq in Eb. rewrite <- Eb. now rewrite <- app_assoc.
      * rewrite hasPrefix_app. cbn [negb]. rewrite skipn_len_app0. now rewrite <- app_assoc.
  - destruct Hin as [[= <- <-]|[]]. right. exists rel. now split.
Qed.

Lemma openFSFile_names_root_nosfx c t p :
  In (t, p) (openFSFile_names c (root c) None) -> inside (tree_root c t) p.
Proof. intros [[= <- <-]|[]]. now left. Qed.

Definition cfg_ok (c : fscfg) : Prop := Forall no_dotdot (indexNames c).

(* ---- C23, default filesystem ---- *)
Theorem opened_inside_os c reqPath host sfx t p :
  osfs c = true -> root c <> [] -> cfg_ok c -> (forall s, sfx = Some s -> sfx_ok s) ->
  In (t, p) (candidate_names c reqPath host sfx) -> inside (tree_root c t) p.
Proof.
  intros Hos Hroot Hcfg Hsfx Hin. unfold candidate_names in Hin.
  destruct (handle c reqPath host) as [| | |path fp ts] eqn:Hh; try contradiction.
  destruct (handle_serve _ _ _ _ _ _ Hh) as (_ & Hts & Hfp & _ & Hnd).
  cbv zeta in Hin.
  assert (Hsfx' : forall s, (if trimmedNonEmpty path then sfx else None) = Some s -> sfx_ok s).
  { intros s. destruct (trimmedNonEmpty path); [apply Hsfx|discriminate]. }
  destruct (filePath_os c path ts Hos Hroot Hnd Hts) as [[Hf Htrim]|(rel & Hf & Hrel)]; rewrite <- Hfp in Hf.
  - (* the root directory itself: opened without the compressed-file suffix *)
    rewrite Htrim, Hf in Hin.
    apply in_app_or in Hin as [Hin|Hin]; [now apply openFSFile_names_root_nosfx|].
    destruct ts; [|contradiction]. unfold openIndexFile_names in Hin.
    apply in_app_or in Hin as [Hin|[[= <- <-]|[]]].
    + apply in_flat_map in Hin as (name & Hname & Hin).
      unfold indexFilePath in Hin. destruct (root c) eqn:Er; [contradiction|]. rewrite <- Er in *.
      unfold cfg_ok in Hcfg. rewrite Forall_forall in Hcfg.
      apply (openFSFile_names_inside c name sfx); [now apply Hcfg|exact Hsfx|exact Hin].
    + destruct (root c) eqn:Er; [contradiction|]. now left.
  - rewrite Hf in Hin.
    apply in_app_or in Hin as [Hin|Hin]; [now apply (openFSFile_names_inside c rel _ t p Hrel Hsfx')|].
    destruct ts; [|contradiction]. unfold openIndexFile_names in Hin.
    apply in_app_or in Hin as [Hin|[[= <- <-]|[]]].
    + apply in_flat_map in Hin as (name & Hname & Hin).
      unfold indexFilePath in Hin.
      destruct (root c ++ SLASH :: rel) eqn:Er; [now apply app_eq_nil in Er as [_ Er]|]. rewrite <- Er in Hin.
      unfold cfg_ok in Hcfg. rewrite Forall_forall in Hcfg.
      replace ((root c ++ SLASH :: rel) ++ [SLASH] ++ name) with (root c ++ SLASH :: (rel ++ SLASH :: name)) in Hin
        by (now rewrite <- app_assoc).
      apply (openFSFile_names_inside c (rel ++ SLASH :: name) sfx); [|exact Hsfx|exact Hin].
      apply no_dotdot_join; [exact Hrel|now apply Hcfg].
    + destruct (root c ++ SLASH :: rel) eqn:Er; [now apply app_eq_nil in Er as [_ Er]|]. rewrite <- Er.
      right. exists rel. now split.
Qed.

(* what the theorem excludes: a sibling name Root ++ suffix is NOT inside Root (the former finding
   compress-root-sibling, fixed in b45a042), so it is never a candidate name *)
Lemma sibling_not_inside r s : s <> [] -> relname_hd s -> ~ inside r (r ++ s).
Proof.
  intros Hs Hh [H|(rel & H & _)].
  - rewrite <- (app_nil_r r) in H at 2. apply app_inv_head in H. contradiction.
  - apply app_inv_head in H. subst s. now apply Hh.
Qed.

(* the join step of pathToFilePath on the default filesystem: a path without a leading slash is never glued to
   Root directly — a '/' is inserted (so a prefix stripper that cuts inside a segment stays below Root) *)
Theorem join_inserts_slash c path :
  osfs c = true -> root c <> [] -> path <> [] ->
  match path with ch :: _ => ch <> SLASH | [] => True end ->
  match rev path with ch :: _ => ch =? SLASH | [] => false end = false ->
  pathToFilePath c path false = root c ++ SLASH :: path.
Proof.
  intros Hos Hroot Hne Hhd _. unfold pathToFilePath. rewrite Hos. cbn [negb].
  destruct path as [|ch rest]; [contradiction|].
  destruct (ch =? SLASH) eqn:E; [apply N.eqb_eq in E; contradiction|].
  destruct (root c) eqn:Er; [contradiction|]. cbn [beq negb andb]. now rewrite <- app_assoc.
Qed.

Theorem root_sibling_never_opened c reqPath host sfx s t :
  osfs c = true -> root c <> [] -> cfg_ok c -> (forall s, sfx = Some s -> sfx_ok s) ->
  sfx_ok s -> ~ In (t, tree_root c t ++ s) (candidate_names c reqPath host sfx).
Proof.
  intros Hos Hroot Hcfg Hsfx [Hs (ch & Hch & _)] Hin.
  apply (opened_inside_os c reqPath host sfx t _ Hos Hroot Hcfg Hsfx) in Hin.
  revert Hin. apply sibling_not_inside.
  - intros ->. contradiction.
  - destruct s as [|c0 s]; [exact I|]. cbn. intros ->. apply Hs. now left.
Qed.

(* ---- C23, FS over an io/fs.FS: no name handed to the fs.FS has a ".." segment ---- *)
Lemma filePath_fs c path ts :
  osfs c = false -> no_dotdot (root c) -> no_dotdot path ->
  ts = match rev path with ch :: _ => ch =? SLASH | [] => false end ->
  no_dotdot (pathToFilePath c path ts).
Proof.
  intros Hos Hroot Hnd Hts. unfold pathToFilePath. rewrite Hos. cbn [negb].
  set (path' := if ts then firstn (length path - 1) path else path).
  assert (Hnd' : no_dotdot path').
  { unfold path'. destruct ts; [|exact Hnd]. symmetry in Hts. apply trailing_slash_form in Hts.
    rewrite Hts in Hnd. now apply no_dotdot_drop_trailing in Hnd. }
  assert (Hdot : no_dotdot dotS) by (unfold no_dotdot; vm_compute; intros [H|[]]; discriminate).
  assert (Hrest : no_dotdot (if match path' with ch :: _ => ch =? SLASH | [] => false end then tl path' else path')).
  { destruct path' as [|ch rest]; [exact Hnd'|]. destruct (ch =? SLASH) eqn:Ec; [|exact Hnd'].
    apply N.eqb_eq in Ec. subst ch. now apply no_dotdot_tl. }
  destruct (Nat.ltb (length path') 1 || _).
  - destruct (beq (root c) dotS); [exact Hdot|exact Hroot].
  - destruct (beq (root c) dotS) eqn:Eb.
    + exact Hrest.
    + destruct (root c) eqn:Er; [exact Hrest|]. rewrite <- Er in *.
      cbn [app]. now apply no_dotdot_join.
Qed.

Theorem opened_inside_fs c reqPath host sfx p :
  osfs c = false -> no_dotdot (root c) -> cfg_ok c -> (forall s, sfx = Some s -> sfx_ok s) ->
  In (InRoot, p) (candidate_names c reqPath host sfx) -> no_dotdot p.
Proof.
  intros Hos Hroot Hcfg Hsfx Hin. unfold candidate_names in Hin.
  destruct (handle c reqPath host) as [| | |path fp ts] eqn:Hh; try contradiction.
  destruct (handle_serve _ _ _ _ _ _ Hh) as (_ & Hts & Hfp & _ & Hnd).
  assert (Hf : no_dotdot fp) by (rewrite Hfp; now apply filePath_fs).
  assert (Hopen : forall f sf, (forall s, sf = Some s -> sfx_ok s) -> no_dotdot f ->
                  In (InRoot, p) (openFSFile_names c f sf) -> no_dotdot p).
  { intros f sf Hsf Hff Hi. unfold openFSFile_names in Hi. destruct sf as [s|].
    - destruct Hi as [[= <-]|[[= <-]|[[=]|[]]]]; [apply no_dotdot_sfx; auto|exact Hff].
    - destruct Hi as [[= <-]|[]]. exact Hff. }
  cbv zeta in Hin.
  assert (Hsfx' : forall s, (if trimmedNonEmpty path then sfx else None) = Some s -> sfx_ok s).
  { intros s. destruct (trimmedNonEmpty path); [apply Hsfx|discriminate]. }
  apply in_app_or in Hin as [Hin|Hin]; [now apply (Hopen fp _ Hsfx')|].
  destruct ts; [|contradiction]. unfold openIndexFile_names in Hin.
  apply in_app_or in Hin as [Hin|[[= <-]|[]]].
  - apply in_flat_map in Hin as (name & Hname & Hin). unfold cfg_ok in Hcfg. rewrite Forall_forall in Hcfg.
    apply (Hopen (indexFilePath fp name) sfx Hsfx); [|exact Hin]. unfold indexFilePath.
    destruct fp eqn:Ef; [now apply Hcfg|]. rewrite <- Ef in *. cbn [app]. apply no_dotdot_join; auto.
  - destruct fp; [unfold no_dotdot; vm_compute; intros [H|[]]; discriminate|exact Hf].
Qed.

(* ---- rejections ---- *)
Theorem nul_rejected c reqPath host p :
  rewrite (rw c) (ctxPath reqPath) host = RwOk p -> In 0 p ->
  handle c reqPath host = Reject400 /\ forall sfx, candidate_names c reqPath host sfx = [].
Proof.
  intros Hrw Hin.
  assert (Hh : handle c reqPath host = Reject400).
  { unfold handle. rewrite Hrw. destruct (indexByte p 0) eqn:E; [reflexivity|].
    apply indexByte_None in E. contradiction. }
  split; [exact Hh|]. intros sfx. unfold candidate_names. now rewrite Hh.
Qed.

Theorem dotdot_rejected c reqPath host p :
  rw c <> RNone -> rewrite (rw c) (ctxPath reqPath) host = RwOk p -> ~ In 0 p ->
  In sDotDot (split_segs p) ->
  handle c reqPath host = Reject500 /\ forall sfx, candidate_names c reqPath host sfx = [].
Proof.
  intros Hr Hrw Hnul Hdd.
  assert (Hh : handle c reqPath host = Reject500).
  { unfold handle. rewrite Hrw. destruct (indexByte p 0) eqn:E.
    - apply indexByte_Some in E as (x & y & -> & _). exfalso. apply Hnul. apply in_or_app. right. now left.
    - destruct (rw c); [contradiction| | |]; cbn [isRNone negb andb];
        (destruct (hasDotDotPathSegment p) eqn:Ed; [reflexivity|apply hasDotDot_false in Ed; contradiction]). }
  split; [exact Hh|]. intros sfx. unfold candidate_names. now rewrite Hh.
Qed.

(* without a rewriter the '..' guard is not needed: ctx.Path() has no ".." segment (C26) *)
Theorem norewriter_no_dotdot reqPath : no_dotdot (ctxPath reqPath).
Proof.
  rewrite ctxPath_eq. destruct (path_no_dotdot reqPath) as (Hn & _).
  destruct (normalizePath_wfp reqPath) as [r Hr]. rewrite Hr in *. cbn [psegs] in Hn.
  unfold no_dotdot. cbn. intros [H|H]; [discriminate|contradiction].
Qed.

Theorem handle_never_panics c reqPath host : handle c reqPath host <> Panicked.
Proof.
  unfold handle. pose proof (rewrite_no_panic (rw c) reqPath host) as Hp.
  destruct (rewrite (rw c) (ctxPath reqPath) host) as [p|]; [|contradiction].
  destruct (indexByte p 0); [discriminate|].
  destruct (negb (isRNone (rw c)) && hasDotDotPathSegment p); discriminate.
Qed.


(* ================= fs.FS mode: the names are relative ================= *)
Definition relname (p : bytes) : Prop := match p with c :: _ => c <> SLASH | [] => True end.

Lemma occurs_skipn pat j p : occurs pat (skipn j p) -> occurs pat p.
Proof.
  intros (x & y & H). exists (firstn j p ++ x), y. rewrite <- app_assoc, <- H. symmetry. apply firstn_skipn.
Qed.

Lemma occurs_firstn pat j p : occurs pat (firstn j p) -> occurs pat p.
Proof.
  intros (x & y & H). exists x, (y ++ skipn j p). rewrite <- (firstn_skipn j p) at 1. rewrite H.
  now rewrite <- !app_assoc.
Qed.

Lemma skipn_skipn' {A} j i (l : list A) : skipn j (skipn i l) = skipn (j + i) l.
Proof.
  revert l; induction i as [|i IH]; intros l; [now rewrite Nat.add_0_r|].
  rewrite Nat.add_succ_r. destruct l; [now rewrite !skipn_nil|]. cbn. apply IH.
Qed.

Lemma strip_is_skipn k : forall p q, stripLeadingSlashes p k = SOk q -> exists j, q = skipn j p.
Proof.
  induction k as [|k IH]; intros p q; cbn [stripLeadingSlashes].
  - intros [= <-]. now exists O.
  - destruct p as [|c r]; [intros [= <-]; now exists O|].
    destruct (c =? SLASH); [|discriminate].
    destruct (indexByte r SLASH) as [n|].
    + intros H. apply IH in H as [j ->]. exists (j + S n)%nat. rewrite <- skipn_skipn'. reflexivity.
    + intros [= <-]. exists (length (c :: r)). symmetry. apply skipn_all.
Qed.

Lemma uriPath_norm x : uriPath (normalizePath x) = normalizePath x.
Proof. destruct (normalizePath_wfp x) as [r ->]. reflexivity. Qed.

Lemma rewrite_no_slsl rw reqPath host p :
  rewrite rw (ctxPath reqPath) host = RwOk p -> ~ occurs sSlSl p.
Proof.
  assert (Hc : ~ occurs sSlSl (ctxPath reqPath)).
  { rewrite ctxPath_eq. destruct (path_shape reqPath) as (_ & H & _). exact H. }
  destruct rw as [|k|k|k]; cbn [rewrite].
  - intros [= <-]. exact Hc.
  - unfold vhostRewrite. destruct (stripLeadingSlashes (ctxPath reqPath) k) as [q|]; [|discriminate].
    intros [= <-]. rewrite uriPath_norm.
    match goal with |- ~ occurs _ (normalizePath ?x) => destruct (path_shape x) as (_ & H & _) end. exact H.
  - unfold slashesRewrite. destruct (stripLeadingSlashes (ctxPath reqPath) k) as [q|] eqn:E; [|discriminate].
    intros [= <-]. apply strip_is_skipn in E as [j ->]. intros H. apply Hc. eapply occurs_skipn; eauto.
  - unfold prefixRewrite. intros [= <-]. destruct (Nat.leb k (length (ctxPath reqPath))); [|exact Hc].
    intros H. apply Hc. eapply occurs_skipn; eauto.
Qed.

Lemma filePath_fs_rel c path ts :
  osfs c = false -> relname (root c) -> ~ occurs sSlSl path ->
  relname (pathToFilePath c path ts).
Proof.
  intros Hos Hroot Hss. unfold pathToFilePath. rewrite Hos. cbn [negb].
  set (path' := if ts then firstn (length path - 1) path else path).
  assert (Hss' : ~ occurs sSlSl path').
  { unfold path'. destruct ts; [|exact Hss]. intros H. apply Hss. eapply occurs_firstn; eauto. }
  destruct (Nat.ltb (length path') 1 || _) eqn:Eshort.
  - destruct (beq (root c) dotS); [cbn; discriminate|exact Hroot].
  - assert (Hrest : relname (if match path' with ch :: _ => ch =? SLASH | [] => false end then tl path' else path')).
    { destruct path' as [|ch rest]; [exact I|]. destruct (ch =? SLASH) eqn:Ec.
      - apply N.eqb_eq in Ec. subst ch. cbn [tl]. destruct rest as [|c2 rest]; [exact I|]. cbn.
        intros ->. apply Hss'. exists [], rest. reflexivity.
      - cbn. now apply N.eqb_neq in Ec. }
    destruct (beq (root c) dotS) eqn:Eb; [exact Hrest|].
    destruct (root c) eqn:Er; [exact Hrest|]. cbn in *. exact Hroot.
Qed.

Definition cfg_ok_fs (c : fscfg) : Prop := Forall (fun n => no_dotdot n /\ relname n /\ n <> []) (indexNames c).

Theorem opened_relative_fs c reqPath host sfx p :
  osfs c = false -> relname (root c) -> cfg_ok_fs c -> (forall s, sfx = Some s -> sfx_ok s) ->
  In (InRoot, p) (candidate_names c reqPath host sfx) -> relname p.
Proof.
  intros Hos Hroot Hcfg Hsfx Hin. unfold candidate_names in Hin.
  destruct (handle c reqPath host) as [| | |path fp ts] eqn:Hh; try contradiction.
  destruct (handle_serve _ _ _ _ _ _ Hh) as (Hrw & Hts & Hfp & _ & _).
  assert (Hf : relname fp) by (rewrite Hfp; apply filePath_fs_rel; auto; eapply rewrite_no_slsl; eauto).
  assert (Happ : forall f s, relname f -> sfx_ok s -> relname (f ++ s)).
  { intros f s Hrf [Hs (ch & Hch & _)]. destruct f as [|c0 f]; [|exact Hrf]. cbn.
    destruct s as [|c1 s]; [contradiction|]. cbn. intros ->. apply Hs. now left. }
  assert (Hopen : forall f sf, (forall s, sf = Some s -> sfx_ok s) -> relname f ->
                  In (InRoot, p) (openFSFile_names c f sf) -> relname p).
  { intros f sf Hsf Hff Hi. unfold openFSFile_names in Hi. destruct sf as [s|].
    - destruct Hi as [[= <-]|[[= <-]|[[=]|[]]]]; [apply Happ; auto|exact Hff].
    - destruct Hi as [[= <-]|[]]. exact Hff. }
  cbv zeta in Hin.
  assert (Hsfx' : forall s, (if trimmedNonEmpty path then sfx else None) = Some s -> sfx_ok s).
  { intros s. destruct (trimmedNonEmpty path); [apply Hsfx|discriminate]. }
  apply in_app_or in Hin as [Hin|Hin]; [now apply (Hopen fp _ Hsfx')|].
  destruct ts; [|contradiction]. unfold openIndexFile_names in Hin.
  apply in_app_or in Hin as [Hin|[[= <-]|[]]].
  - apply in_flat_map in Hin as (name & Hname & Hin). unfold cfg_ok_fs in Hcfg. rewrite Forall_forall in Hcfg.
    apply (Hopen (indexFilePath fp name) sfx Hsfx); [|exact Hin]. unfold indexFilePath.
    destruct fp eqn:Ef; [now apply Hcfg|]. exact Hf.
  - destruct fp; [cbn; discriminate|exact Hf].
Qed.
