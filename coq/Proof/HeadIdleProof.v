(* HeadIdleProof.v — C09, second sentence: a complete head is answered without issuing a Read beyond the one
   that delivered its last byte, for every way the head is split into reads. *)
From Coq Require Import Lia.
From FH Require Import Model.Base Model.Lines Model.ReqHead Model.RespHead Spec.HeadSpec
  Proof.HeadLocalProof Proof.HeadTotalProof.
Open Scope nat_scope.

Definition all_nonempty (chunks : list bytes) : Prop := Forall (fun c => c <> []) chunks.

Lemma nonempty_chunks_id chunks : all_nonempty chunks -> nonempty_chunks chunks = chunks.
Proof.
  induction 1 as [|c l Hc _ IH]; [reflexivity|]. unfold nonempty_chunks in *. cbn [filter]. destruct c; [congruence|]. now rewrite IH.
Qed.

Lemma concat_length_ge (chunks : list bytes) : all_nonempty chunks -> length chunks <= length (concat chunks).
Proof.
  induction 1 as [|c l Hc _ IH]; [cbn; lia|]. cbn. rewrite app_length. destruct c; [congruence|]. cbn. lia.
Qed.

(* the loop, for any tryRead that answers once the whole head H is buffered *)
Lemma read_idle_answers {A} (try : nat -> bytes -> peek_err -> try_res A) H bsize :
  (forall n, try n H PENil <> TNeedMore) -> length H <= bsize ->
  forall fuel buf chunks reads,
    buf ++ concat chunks = H -> all_nonempty chunks -> chunks <> [] -> length chunks < fuel ->
    exists r k, read_idle try fuel bsize buf chunks reads = Answered r k /\ r <> TNeedMore /\
                k <= reads + length chunks.
Proof.
  intros Hans Hbs. induction fuel as [|fuel IH]; intros buf chunks reads E Hne Hnn Hf; [lia|].
  destruct chunks as [|c rest]; [congruence|]. apply Forall_cons_iff in Hne as [Hc Hrest].
  cbn [read_idle concat] in *.
  assert (Hlen : length buf + length c + length (concat rest) = length (buf ++ c ++ concat rest))
    by (rewrite !app_length; lia).
  rewrite E in Hlen.
  assert (Hc1 : 1 <= length c) by (destruct c; [congruence|cbn; lia]).
  replace (length buf <? bsize) with true by (symmetry; apply Nat.ltb_lt; lia).
  replace (Nat.min (length c) (bsize - length buf)) with (length c) by lia.
  rewrite firstn_all, skipn_all.
  destruct (try (length buf + 1) (buf ++ c) PENil) eqn:Et;
    try (do 2 eexists; split; [reflexivity|]; split; [discriminate|cbn [length]; lia]).
  (* NeedMore: the buffer is not yet the whole head, so the schedule goes on *)
  assert (Hrest' : rest <> []).
  { intros ->. cbn [concat] in E. rewrite app_nil_r in E. rewrite E in Et. exact (Hans _ Et). }
  destruct (IH (buf ++ c) rest (S reads)) as (r & k & Er & Hr & Hk); auto.
  - rewrite <- app_assoc. exact E.
  - cbn [length] in Hf. lia.
  - exists r, k. split; [exact Er|]. split; [exact Hr|]. cbn [length]. lia.
Qed.

Lemma complete_nonempty H : HeadComplete H -> H <> [].
Proof. intros HC ->. discriminate. Qed.

Theorem req_read_idle_answers cfg bsize H chunks :
  HeadComplete H -> concat chunks = H -> all_nonempty chunks -> length H <= bsize ->
  exists r k, req_read_idle cfg bsize chunks = Answered r k /\ r <> TNeedMore /\ k <= length chunks.
Proof.
  intros HC E Hne Hbs. unfold req_read_idle. rewrite (nonempty_chunks_id _ Hne).
  pose proof (complete_nonempty H HC) as HH.
  assert (Hans : forall n, req_try_read cfg n H PENil <> TNeedMore).
  { intros n. unfold req_try_read. destruct H as [|h0 H0]; [congruence|].
    pose proof (req_no_wait cfg _ HC) as Hnw.
    destruct (req_head_parse cfg (h0 :: H0)) as [[hd k]| |e| |]; try discriminate. congruence. }
  assert (Hnn : chunks <> []) by (intros ->; cbn in E; congruence).
  assert (Hfuel : length chunks < length (concat chunks) + 2) by (eapply Nat.le_lt_trans; [exact (concat_length_ge _ Hne)|lia]).
  destruct (read_idle_answers (req_try_read cfg) H bsize Hans Hbs (length (concat chunks) + 2) [] chunks 0 E Hne Hnn Hfuel)
    as (r & k & Er & Hr & Hk).
  exists r, k. auto.
Qed.

Theorem resp_read_idle_answers cfg bsize H chunks :
  HeadComplete H -> crlf_terminated H = true -> concat chunks = H -> all_nonempty chunks -> length H <= bsize ->
  exists r k, resp_read_idle cfg bsize chunks = Answered r k /\ r <> TNeedMore /\ k <= length chunks.
Proof.
  intros HC G E Hne Hbs. unfold resp_read_idle. rewrite (nonempty_chunks_id _ Hne).
  pose proof (complete_nonempty H HC) as HH.
  assert (Hans : forall n, resp_try_read cfg n H PENil <> TNeedMore).
  { intros n. unfold resp_try_read. destruct H as [|h0 H0]; [congruence|].
    pose proof (resp_no_wait cfg _ HC G) as Hnw.
    destruct (resp_head_parse cfg (h0 :: H0)) as [[hd k]| |e| |]; try discriminate. congruence. }
  assert (Hnn : chunks <> []) by (intros ->; cbn in E; congruence).
  assert (Hfuel : length chunks < length (concat chunks) + 2) by (eapply Nat.le_lt_trans; [exact (concat_length_ge _ Hne)|lia]).
  destruct (read_idle_answers (resp_try_read cfg) H bsize Hans Hbs (length (concat chunks) + 2) [] chunks 0 E Hne Hnn Hfuel)
    as (r & k & Er & Hr & Hk).
  exists r, k. auto.
Qed.

(* the response-side finding seen through the loop: the bare-LF head delivered whole, then silence *)
Theorem resp_read_idle_refuted :
  exists H, HeadComplete H /\ resp_read_idle default_cfg 4096 [H] = AsksMore 1.
Proof. exists bareLF_resp. split; vm_compute; reflexivity. Qed.
