(* HeadLocalProof.v — C09: a complete head whose header block is CRLF-terminated is parsed the same way
   whatever follows it, and is never answered NeedMore. *)
From Coq Require Import Lia.
From FH Require Import Model.Base Gen.GenC09 Model.Lines Model.ReqHead Model.RespHead Spec.HeadSpec Proof.LinesProof.
Open Scope nat_scope.

(* ---------- has_prefix / index_sub ---------- *)
Lemma has_prefix_split p b : has_prefix p b = true -> exists s, b = p ++ s.
Proof.
  revert b; induction p as [|x p IH]; intros b; cbn; [eauto|].
  destruct b as [|y b]; [discriminate|].
  intros H. apply andb_true_iff in H as [H1 H2]. apply N.eqb_eq in H1. subst.
  destruct (IH _ H2) as [s ->]. eauto.
Qed.

Lemma has_prefix_app p s : has_prefix p (p ++ s) = true.
Proof. induction p as [|x p IH]; cbn; [reflexivity|]. now rewrite N.eqb_refl. Qed.

Lemma has_prefix_app_l p b s : length p <= length b -> has_prefix p (b ++ s) = has_prefix p b.
Proof.
  revert b; induction p as [|x p IH]; intros b Hl; cbn; [destruct b; reflexivity|].
  destruct b as [|y b]; cbn in *; [lia|]. rewrite IH by lia. reflexivity.
Qed.

Lemma index_sub_split p b i : index_sub p b = Some i -> exists pre suf, b = pre ++ p ++ suf /\ length pre = i.
Proof.
  revert i; induction b as [|x b IH]; intros i; cbn.
  - destruct (has_prefix p []) eqn:E; [|discriminate].
    intros [= <-]. apply has_prefix_split in E as [s E]. exists [], s. auto.
  - destruct (has_prefix p (x :: b)) eqn:E.
    + intros [= <-]. apply has_prefix_split in E as [s E]. exists [], s. auto.
    + destruct (index_sub p b) as [j|] eqn:Ej; cbn; [|discriminate].
      intros [= <-]. destruct (IH j eq_refl) as (pre & suf & -> & Hl). exists (x :: pre), suf. cbn. auto.
Qed.

Lemma index_sub_le p pre suf : exists i, index_sub p (pre ++ p ++ suf) = Some i /\ i <= length pre.
Proof.
  induction pre as [|x pre IH]; cbn [app].
  - exists 0. split; [|cbn; lia]. destruct (p ++ suf) eqn:E; cbn; rewrite <- ?E, has_prefix_app; reflexivity.
  - destruct IH as (i & Hi & Hle). cbn [index_sub].
    destruct (has_prefix p (x :: pre ++ p ++ suf)).
    + exists 0. split; [reflexivity|lia].
    + rewrite Hi. exists (S i). split; [reflexivity|cbn; lia].
Qed.

(* a CRLFCRLF at offset |p| puts a blank line at or before |p| + 4 *)
Lemma crlfcrlf_blank p s cur n :
  exists N, head_len_aux true cur (p ++ [CR; LF; CR; LF] ++ s) n = Some N /\ N <= n + length p + 4.
Proof.
  revert cur n; induction p as [|x p IH]; intros cur n.
  - cbn. destruct cur; cbn; eexists; (split; [reflexivity|lia]).
  - cbn [app head_len_aux]. destruct (N.eqb x LF).
    + destruct (cur_blank cur).
      * eexists; split; [reflexivity|]. cbn. lia.
      * destruct (IH CurEmpty (S n)) as (N & HN & Hle). exists N. split; [exact HN|]. cbn. lia.
    + destruct (IH (cur_step cur x) (S n)) as (N & HN & Hle). exists N. split; [exact HN|]. cbn. lia.
Qed.

Lemma ends_with_split p b : ends_with p b = true -> exists q, b = q ++ p.
Proof.
  unfold ends_with. intros H. apply andb_true_iff in H as [H1 H2].
  apply Nat.leb_le in H1. apply beq_eq in H2.
  exists (firstn (length b - length p) b).
  pose proof (firstn_skipn (length b - length p) b) as E. rewrite H2 in E. symmetry; exact E.
Qed.

(* ---------- scan_init is local under the guard ---------- *)
Definition guard_block (rest : bytes) : bool := beq rest [CR; LF] || ends_with [CR; LF; CR; LF] rest.

Lemma firstn_app_exact {A} (a b : list A) : firstn (length a) (a ++ b) = a.
Proof. rewrite firstn_app, Nat.sub_diag, firstn_all. cbn. apply app_nil_r. Qed.

Lemma skipn_app_exact {A} (a b : list A) : skipn (length a) (a ++ b) = b.
Proof. rewrite skipn_app, Nat.sub_diag, skipn_all. reflexivity. Qed.

Definition init_of_block (b : bytes) : R init_res :=
  if has_prefix strCRLF b then Ok IEmpty
  else match b with
       | c :: _ => if is_sp_ht c then Ok IStartSpace else Ok (IReady b)
       | [] => Ok (IReady b)
       end.

Lemma init_of_block_answers b : init_of_block b <> Ok INeedMore.
Proof.
  unfold init_of_block. destruct (has_prefix strCRLF b); [discriminate|].
  destruct b as [|c b]; [discriminate|]. destruct (is_sp_ht c); discriminate.
Qed.

(* a block delimited by the line rule ends in LF *)
Lemma head_len_aux_ends_lf ih cur b n N :
  head_len_aux ih cur b n = Some N -> exists p s, b = p ++ LF :: s /\ N = n + length p + 1.
Proof.
  revert ih cur n; induction b as [|x b IH]; intros ih cur n; cbn; [discriminate|].
  destruct (N.eqb x LF) eqn:Ex.
  - apply N.eqb_eq in Ex. subst x. destruct (cur_blank cur); [destruct ih|].
    + intros [= <-]. exists [], b. split; [reflexivity|cbn; lia].
    + intros H. destruct (IH _ _ _ H) as (p & s & -> & ->). exists (LF :: p), s. split; [reflexivity|cbn; lia].
    + intros H. destruct (IH _ _ _ H) as (p & s & -> & ->). exists (LF :: p), s. split; [reflexivity|cbn; lia].
  - intros H. destruct (IH _ _ _ H) as (p & s & -> & ->). exists (x :: p), s. split; [reflexivity|cbn; lia].
Qed.

Lemma idx_app_l b s i : i < length b -> idx (b ++ s) i = idx b i.
Proof. intros H. unfold idx. now rewrite nth_error_app1. Qed.

Lemma block_end_ok_app b s bE : bE <= length b -> block_end_ok (b ++ s) bE = block_end_ok b bE.
Proof.
  intros H. unfold block_end_ok.
  replace (length (b ++ s) <? bE) with false by (symmetry; apply Nat.ltb_ge; rewrite app_length; lia).
  replace (length b <? bE) with false by (symmetry; apply Nat.ltb_ge; lia).
  destruct (bE <? 3) eqn:E3; [reflexivity|]. apply Nat.ltb_ge in E3. cbn [orb].
  rewrite !idx_app_l by lia. reflexivity.
Qed.

(* requests (f7a0f16): blockEnd = |rest| > 0, the decision is made from the block alone — no guard *)
Lemma scan_init_local_req rest s :
  head_len_aux true CurEmpty rest 0 = Some (length rest) ->
  scan_init (rest ++ s) (length rest) = scan_init rest (length rest) /\ scan_init rest (length rest) <> Ok INeedMore.
Proof.
  intros HC. unfold scan_init.
  assert (Hpre : has_prefix strCRLF (rest ++ s) = has_prefix strCRLF rest).
  { destruct rest as [|a [|b r]]; [discriminate| |apply has_prefix_app_l; cbn; lia].
    cbn in HC. destruct (N.eqb a LF) eqn:Ea; [|discriminate]. apply N.eqb_eq in Ea. subst a. reflexivity. }
  rewrite Hpre. destruct (has_prefix strCRLF rest); [split; [reflexivity|discriminate]|].
  assert (Hpos : 0 <? length rest = true) by (destruct rest; [discriminate|reflexivity]).
  rewrite Hpos. rewrite block_end_ok_app by lia.
  destruct (block_end_ok rest (length rest)) as [good| |]; cbn [bind]; try (split; [reflexivity|discriminate]).
  destruct good; cbn [bind]; [|split; [reflexivity|discriminate]].
  rewrite !slice_to by (rewrite ?app_length; lia). rewrite firstn_app_exact, firstn_all. cbn [bind].
  split; [reflexivity|]. destruct rest as [|c t]; [discriminate|]. destruct (is_sp_ht c); discriminate.
Qed.

(* responses: blockEnd = 0, the scanner searches; the first CRLFCRLF is the block's own end because the
   line rule finds no blank line earlier *)
Lemma scan_init_resp_any q z :
  head_len_aux true CurEmpty (q ++ [CR; LF; CR; LF]) 0 = Some (length (q ++ [CR; LF; CR; LF])) ->
  scan_init ((q ++ [CR; LF; CR; LF]) ++ z) 0 = init_of_block (q ++ [CR; LF; CR; LF]).
Proof.
  intros HC.
  assert (Hlen : length (q ++ [CR; LF; CR; LF]) = length q + 4) by (rewrite app_length; reflexivity).
  unfold scan_init, init_of_block. rewrite has_prefix_app_l by (rewrite Hlen; cbn; lia).
  destruct (has_prefix strCRLF (q ++ [CR; LF; CR; LF])); [reflexivity|].
  cbn [Nat.ltb Nat.leb bind].
  assert (Hi : index_sub strCRLFCRLF ((q ++ [CR; LF; CR; LF]) ++ z) = Some (length q)).
  { rewrite <- app_assoc.
    destruct (index_sub_le strCRLFCRLF q z) as (i & Hi & Hle).
    change strCRLFCRLF with [CR; LF; CR; LF] in *. rewrite Hi. f_equal.
    destruct (index_sub_split _ _ _ Hi) as (pre & suf & E & Hpre).
    destruct (crlfcrlf_blank pre suf CurEmpty 0) as (N & HN & HNle).
    rewrite <- E in HN.
    pose proof (head_len_aux_app true CurEmpty _ 0 _ z HC) as HC'.
    rewrite <- app_assoc in HC'. rewrite HC' in HN. injection HN as <-. rewrite Hlen in HNle. lia. }
  rewrite Hi. cbn [bind]. rewrite <- Hlen.
  rewrite slice_to by (rewrite ?app_length; lia).
  rewrite firstn_app_exact. cbn [bind]. reflexivity.
Qed.

Lemma scan_init_local_resp rest s :
  head_len_aux true CurEmpty rest 0 = Some (length rest) ->
  guard_block rest = true ->
  scan_init (rest ++ s) 0 = scan_init rest 0 /\ scan_init rest 0 <> Ok INeedMore.
Proof.
  unfold guard_block. intros HC G. apply orb_true_iff in G as [G|G].
  - apply beq_eq in G. subst. cbn. split; [reflexivity|discriminate].
  - destruct (ends_with_split _ _ G) as [q ->].
    pose proof (scan_init_resp_any q [] HC) as E0. rewrite app_nil_r in E0.
    rewrite (scan_init_resp_any q s HC), E0. split; [reflexivity|apply init_of_block_answers].
Qed.

(* ---------- what a complete head gives the model ---------- *)
Lemma complete_head H :
  HeadComplete H ->
  exists line rest pre,
    H = pre ++ rest /\ line <> [] /\
    first_line_end H = Some (length pre) /\
    head_len_aux true CurEmpty rest 0 = Some (length rest) /\
    forall s, firstLine_loop (S (length (H ++ s))) (H ++ s) = Ok (Some (line, rest ++ s)).
Proof.
  unfold HeadComplete, head_len. intros HC.
  destruct (firstLine_loop_spec (S (length H)) H 0 _ HC ltac:(lia))
    as (line & rest & pre & H1 & H2 & H3 & H4 & H5 & H6 & H7).
  exists line, rest, pre. subst H. rewrite app_length in *.
  split; [reflexivity|]. split; [exact H3|]. split; [|split].
  - unfold first_line_end. rewrite H6. f_equal. lia.
  - rewrite head_len_aux_shift in H5.
    destruct (head_len_aux true CurEmpty rest 0) as [k|]; cbn in H5; [|discriminate].
    injection H5 as H5. f_equal. lia.
  - intros s. apply H7. lia.
Qed.

Lemma crlf_terminated_block H pre rest :
  H = pre ++ rest -> first_line_end H = Some (length pre) ->
  crlf_terminated H = guard_block rest.
Proof.
  intros -> Hf. unfold crlf_terminated. rewrite Hf. rewrite skipn_app_exact. reflexivity.
Qed.

(* ---------- the first-line parsers report the consumed count they were given ---------- *)
Ltac destruct_matches :=
  repeat (match goal with
          | |- context [match ?x with _ => _ end] => destruct x eqn:?; cbn [bind]
          end); try discriminate.

Lemma req_line_parse_len b c l : req_line_parse b c = Ok (FLOk l) -> rl_len l = c.
Proof.
  unfold req_line_parse. unfold bind. destruct_matches; intros [= <-]; reflexivity.
Qed.

Lemma resp_line_parse_len b c l : resp_line_parse b c = Ok (FLOk l) -> sl_len l = c.
Proof.
  unfold resp_line_parse. unfold bind. destruct_matches; intros [= <-]; reflexivity.
Qed.

Lemma req_line_parse_answers b c : req_line_parse b c <> Ok FLNeedMore.
Proof.
  unfold req_line_parse. unfold bind. destruct_matches.
Qed.

Lemma resp_line_parse_answers b c : resp_line_parse b c <> Ok FLNeedMore.
Proof.
  unfold resp_line_parse. unfold bind. destruct_matches.
Qed.

(* ---------- C09 for requests ---------- *)
Lemma req_parse_local cfg H s :
  HeadComplete H ->
  req_parse_R cfg (H ++ s) = req_parse_R cfg H /\ req_parse_R cfg H <> Ok HNeedMore.
Proof.
  intros HC.
  destruct (complete_head H HC) as (line & rest & pre & E & Hne & Hf & Hr & Hfl).
  assert (Hmain : forall z, req_parse_R cfg (H ++ z) =
            do fl <- req_line_parse line (length pre);
            match fl with
            | FLNeedMore => Ok HNeedMore
            | FLErr e => Ok (HErr e)
            | FLOk l =>
                do ph <- req_parseHeaders cfg (rl_noHTTP11 l) (rest ++ z) (length rest);
                match ph with
                | PHNeedMore => Ok HNeedMore
                | PHErr e => Ok (HErr e)
                | PHOk st n =>
                    let hd := mk_req_head l st (raw_of rest (length rest)) in
                    if http11 hd && (length (Host cfg hd) =? 0) then Ok (HErr EHostRequired)
                    else Ok (HOk (hd, length pre + n))
                end
            end).
  { intros z. unfold req_parse_R, req_parseFirstLine. rewrite Hfl. cbn [bind].
    replace (length (H ++ z) - length (rest ++ z)) with (length pre) by (subst H; rewrite !app_length; lia).
    destruct (req_line_parse line (length pre)) as [fl| |] eqn:Efl; cbn [bind]; try reflexivity.
    destruct fl as [|e|l]; try reflexivity.
    rewrite (req_line_parse_len _ _ _ Efl).
    rewrite slice_from by (subst H; rewrite !app_length; lia).
    subst H. rewrite <- app_assoc, skipn_app_exact. cbn [bind].
    rewrite readRawHeaders_spec. cbn [bind].
    rewrite (head_len_aux_app _ _ _ _ _ z Hr). cbn [raw_res].
    rewrite (raw_of_app rest z Hr). reflexivity. }
  pose proof (Hmain []) as H0. rewrite !app_nil_r in H0. rewrite (Hmain s), H0. clear H0 Hmain.
  destruct (req_line_parse line (length pre)) as [fl| |] eqn:Efl; cbn [bind]; try (split; [reflexivity|discriminate]).
  destruct fl as [|e|l]; try (split; [reflexivity|discriminate]).
  - exfalso. exact (req_line_parse_answers _ _ Efl).
  - unfold req_parseHeaders.
    destruct (scan_init_local_req rest s Hr) as [E1 E2]. rewrite E1.
    destruct (scan_init rest (length rest)) as [ir| |]; cbn [bind]; try (split; [reflexivity|discriminate]).
    destruct ir as [| | | |b'].
    + cbn. destruct (_ && _); split; try reflexivity; discriminate.
    + congruence.
    + split; [reflexivity|discriminate].
    + split; [reflexivity|discriminate].
    + destruct (req_headers_loop _ _ _ _ _ _) as [lr| |]; cbn [bind]; try (split; [reflexivity|discriminate]).
      destruct lr as [[st n]|e]; cbn; [|split; [reflexivity|discriminate]].
      destruct (_ && _); split; try reflexivity; discriminate.
Qed.

(* ---------- C09 for responses ---------- *)
Lemma resp_parse_local cfg H s :
  HeadComplete H -> crlf_terminated H = true ->
  resp_parse_R cfg (H ++ s) = resp_parse_R cfg H /\ resp_parse_R cfg H <> Ok HNeedMore.
Proof.
  intros HC G.
  destruct (complete_head H HC) as (line & rest & pre & E & Hne & Hf & Hr & Hfl).
  rewrite (crlf_terminated_block H pre rest E Hf) in G.
  assert (Hmain : forall z, resp_parse_R cfg (H ++ z) =
            do fl <- resp_line_parse line (length pre);
            match fl with
            | FLNeedMore => Ok HNeedMore
            | FLErr e => Ok (HErr e)
            | FLOk l =>
                do ph <- resp_parseHeaders cfg (sl_noHTTP11 l) (sl_code l) (rest ++ z);
                match ph with
                | RPHNeedMore => Ok HNeedMore
                | RPHErr e => Ok (HErr e)
                | RPHOk st n => Ok (HOk (mk_resp_head l st, length pre + n))
                end
            end).
  { intros z. unfold resp_parse_R, resp_parseFirstLine. rewrite Hfl. cbn [bind].
    replace (length (H ++ z) - length (rest ++ z)) with (length pre) by (subst H; rewrite !app_length; lia).
    destruct (resp_line_parse line (length pre)) as [fl| |] eqn:Efl; cbn [bind]; try reflexivity.
    destruct fl as [|e|l]; try reflexivity.
    rewrite (resp_line_parse_len _ _ _ Efl).
    rewrite slice_from by (subst H; rewrite !app_length; lia).
    subst H. rewrite <- app_assoc, skipn_app_exact. cbn [bind]. reflexivity. }
  pose proof (Hmain []) as H0. rewrite !app_nil_r in H0. rewrite (Hmain s), H0. clear H0 Hmain.
  destruct (resp_line_parse line (length pre)) as [fl| |] eqn:Efl; cbn [bind]; try (split; [reflexivity|discriminate]).
  destruct fl as [|e|l]; try (split; [reflexivity|discriminate]).
  - exfalso. exact (resp_line_parse_answers _ _ Efl).
  - unfold resp_parseHeaders.
    destruct (scan_init_local_resp rest s Hr G) as [E1 E2]. rewrite E1.
    destruct (scan_init rest 0) as [ir| |]; cbn [bind]; try (split; [reflexivity|discriminate]).
    destruct ir as [| | | |b'].
    + cbn. split; [reflexivity|discriminate].
    + congruence.
    + split; [reflexivity|discriminate].
    + split; [reflexivity|discriminate].
    + destruct (resp_headers_loop _ _ _ _ _ _) as [lr| |]; cbn [bind]; try (split; [reflexivity|discriminate]).
      destruct lr as [[st n]|e]; cbn; split; try reflexivity; discriminate.
Qed.

(* ---------- statements at the interface ---------- *)
Theorem req_head_local cfg H S1 S2 :
  HeadComplete H ->
  req_head_parse cfg (H ++ S1) = req_head_parse cfg (H ++ S2).
Proof.
  intros HC. unfold req_head_parse.
  destruct (req_parse_local cfg H S1 HC) as [E1 _], (req_parse_local cfg H S2 HC) as [E2 _].
  now rewrite E1, E2.
Qed.

Theorem req_head_local_alone cfg H S :
  HeadComplete H ->
  req_head_parse cfg (H ++ S) = req_head_parse cfg H.
Proof.
  intros HC. unfold req_head_parse. destruct (req_parse_local cfg H S HC) as [E1 _]. now rewrite E1.
Qed.

Theorem req_no_wait cfg H :
  HeadComplete H -> req_head_parse cfg H <> HNeedMore.
Proof.
  intros HC. unfold req_head_parse. destruct (req_parse_local cfg H [] HC) as [_ E].
  destruct (req_parse_R cfg H) as [r| |]; try discriminate. intros ->. now apply E.
Qed.

Theorem resp_head_local cfg H S1 S2 :
  HeadComplete H -> crlf_terminated H = true ->
  resp_head_parse cfg (H ++ S1) = resp_head_parse cfg (H ++ S2).
Proof.
  intros HC G. unfold resp_head_parse.
  destruct (resp_parse_local cfg H S1 HC G) as [E1 _], (resp_parse_local cfg H S2 HC G) as [E2 _].
  now rewrite E1, E2.
Qed.

Theorem resp_head_local_alone cfg H S :
  HeadComplete H -> crlf_terminated H = true ->
  resp_head_parse cfg (H ++ S) = resp_head_parse cfg H.
Proof.
  intros HC G. unfold resp_head_parse. destruct (resp_parse_local cfg H S HC G) as [E1 _]. now rewrite E1.
Qed.

Theorem resp_no_wait cfg H :
  HeadComplete H -> crlf_terminated H = true -> resp_head_parse cfg H <> HNeedMore.
Proof.
  intros HC G. unfold resp_head_parse. destruct (resp_parse_local cfg H [] HC G) as [_ E].
  destruct (resp_parse_R cfg H) as [r| |]; try discriminate. intros ->. now apply E.
Qed.

(* ---------- the unguarded statements are false of the code ---------- *)
Definition bareLF_req : bytes := s2b "GET / HTTP/1.1" ++ [LF] ++ s2b "Host: h" ++ [LF; LF].
Definition next_req : bytes := s2b "GET /b HTTP/1.1" ++ [CR; LF] ++ s2b "Host: h" ++ [CR; LF; CR; LF].
Definition bareLF_resp : bytes := s2b "HTTP/1.1 200 OK" ++ [LF] ++ s2b "Content-Length: 3" ++ [LF; LF].
Definition some_body : bytes := s2b "abc" ++ [CR; LF; CR; LF].

(* the request-side witness of the old finding is now rejected from its own bytes *)
Example req_bareLF_now_rejected :
  HeadComplete bareLF_req /\ req_head_parse default_cfg bareLF_req = HErr EBadBlockEnd /\
  req_head_parse default_cfg (bareLF_req ++ next_req) = HErr EBadBlockEnd.
Proof. vm_compute. repeat split; reflexivity. Qed.

Theorem resp_no_wait_refuted : exists H, HeadComplete H /\ resp_head_parse default_cfg H = HNeedMore.
Proof. exists bareLF_resp. split; vm_compute; reflexivity. Qed.

Theorem resp_head_local_refuted :
  exists H S1 S2, HeadComplete H /\ resp_head_parse default_cfg (H ++ S1) <> resp_head_parse default_cfg (H ++ S2).
Proof. exists bareLF_resp, [], some_body. split; [vm_compute; reflexivity|]. vm_compute. discriminate. Qed.
