(* HeadTotalProof.v — C08 for the head parsers: req_head_parse / resp_head_parse never reach Panic or
   OutOfFuel, and an accepted head consumes exactly the head's own length (Spec.HeadSpec.head_len). *)
From Coq Require Import Lia.
From FH Require Import Model.Base Gen.GenC09 Model.ByteClassModel Model.Lines Model.ReqHead Model.RespHead Spec.HeadSpec
  Proof.LinesProof Proof.ScannerProof Proof.HeadLocalProof.
Open Scope nat_scope.

Ltac tot_step :=
  match goal with
  | |- total (Ok _) => apply total_ok
  | |- total (bind _ _) => apply total_bind; [|intros ? ?]
  | |- total (slice _ _ _) => apply total_slice; try lia
  | |- total (if ?c then _ else _) => destruct c eqn:?
  | |- total (match ?x with _ => _ end) => destruct x eqn:?
  | |- total (let '(_, _) := ?x in _) => destruct x eqn:?
  end.

(* ---------- isHTTPVersion ---------- *)
Lemma isHTTPVersion_total p : total (isHTTPVersion p).
Proof.
  unfold isHTTPVersion.
  destruct (length p =? length strHTTP11) eqn:E; cbn [negb]; [|apply total_ok].
  apply Nat.eqb_eq in E. change (length strHTTP11) with 8 in E.
  destruct (negb (has_prefix (firstn 5 strHTTP11) p)); [apply total_ok|].
  destruct (idx_ok p 6 ltac:(lia)) as (c6 & -> & _). cbn [bind].
  destruct (negb (N.eqb c6 DOT)); [apply total_ok|].
  destruct (idx_ok p 5 ltac:(lia)) as (c5 & -> & _). cbn [bind].
  destruct (negb (is_digit c5)); [apply total_ok|].
  destruct (idx_ok p 7 ltac:(lia)) as (c7 & -> & _). cbn [bind]. apply total_ok.
Qed.

(* ---------- first lines ---------- *)
Lemma req_line_parse_total b c : total (req_line_parse b c).
Proof.
  unfold req_line_parse.
  destruct (index_byte b SP) as [n|] eqn:En; [|apply total_ok].
  pose proof (index_byte_lt _ _ _ En) as Hn.
  destruct n as [|n]; [apply total_ok|].
  rewrite slice_to by lia. cbn [bind].
  destruct (negb (isValidMethod _)); [apply total_ok|].
  rewrite slice_from by lia. cbn [bind].
  destruct (index_byte (skipn (S n + 1) b) SP) as [n2|] eqn:En2; [|apply total_ok].
  pose proof (index_byte_lt _ _ _ En2) as Hn2.
  rewrite slice_from by lia. cbn [bind].
  destruct (isHTTPVersion_total (skipn (n2 + 1) (skipn (S n + 1) b))) as [okv ->]. cbn [bind].
  destruct (negb okv); [apply total_ok|].
  destruct (n2 =? 0); [apply total_ok|].
  rewrite slice_to by lia. cbn [bind].
  destruct (negb (validateRequestURI _ _)); apply total_ok.
Qed.

Lemma resp_line_parse_total b c : total (resp_line_parse b c).
Proof.
  unfold resp_line_parse.
  destruct (index_byte b SP) as [n|] eqn:En; [|apply total_ok].
  pose proof (index_byte_lt _ _ _ En) as Hn.
  rewrite slice_to by lia. cbn [bind].
  rewrite slice_from by lia. cbn [bind].
  set (b2 := drop_while is_sp (skipn (n + 1) b)).
  assert (Hcm : total (match index_byte b2 SP with
                       | Some n2 => do c0 <- slice b2 0 n2; do m <- slice b2 (n2 + 1) (length b2); Ok (c0, m)
                       | None => Ok (b2, [])
                       end)).
  { destruct (index_byte b2 SP) as [n2|] eqn:En2; [|apply total_ok].
    pose proof (index_byte_lt _ _ _ En2) as Hn2.
    rewrite slice_to by lia. cbn [bind]. rewrite slice_from by lia. cbn [bind]. apply total_ok. }
  destruct Hcm as [[sc sm] ->]. cbn [bind].
  destruct (negb (length sc =? 3)); [apply total_ok|].
  destruct (Ints.parseUintBuf 64 sc) as [[v k] err].
  destruct err; [apply total_ok|].
  destruct (negb (Z.eqb k 3)); [apply total_ok|].
  destruct (isHTTPVersion_total (firstn n b)) as [okv ->]. cbn [bind].
  destruct (negb okv); apply total_ok.
Qed.

(* firstLine_loop never panics and relates to the spec for every input *)
Lemma firstLine_loop_gen fuel b n :
  length b < fuel ->
  (firstLine_loop fuel b = Ok None /\ head_len_aux false CurEmpty b n = None) \/
  (exists line rest pre, b = pre ++ rest /\ firstLine_loop fuel b = Ok (Some (line, rest)) /\
     head_len_aux false CurEmpty b n = head_len_aux true CurEmpty rest (n + length pre)).
Proof.
  revert b n; induction fuel as [|fuel IH]; intros b n Hf; [lia|].
  destruct (index_byte b LF) as [i|] eqn:Ei.
  - destruct (index_byte_split _ _ _ Ei) as (l & r & -> & Hli & Hl).
    assert (Hlen : length (l ++ LF :: r) = length l + 1 + length r) by (rewrite app_length; cbn; lia).
    rewrite head_len_aux_line by exact Hl. rewrite cur_after_blank.
    cbn [firstLine_loop]. rewrite nextLine_line by exact Hl. cbn [bind].
    destruct (blank_line l) eqn:Eb.
    + pose proof Eb as Eb'. apply strip_cr_blank in Eb'. rewrite Eb'.
      destruct (IH r (n + length l + 1) ltac:(lia)) as [[H1 H2]|(line & rest & pre & H0 & H1 & H2)].
      * left. split; assumption.
      * right. exists line, rest, (l ++ LF :: pre). split; [rewrite H0 at 1; now rewrite <- app_assoc|].
        split; [exact H1|]. rewrite H2. f_equal. rewrite app_length. cbn. lia.
    + right. exists (strip_cr l), r, (l ++ [LF]). split; [now rewrite <- app_assoc|].
      split.
      * destruct (strip_cr l) eqn:Es; [apply strip_cr_blank in Es; congruence|reflexivity].
      * f_equal. rewrite app_length. cbn. lia.
  - left. cbn [firstLine_loop]. rewrite nextLine_none by exact Ei. cbn [bind].
    split; [reflexivity|now apply head_len_aux_noLF].
Qed.

(* ---------- trailers ---------- *)
Lemma const_slices :
  slice strContentType 0 8 = Ok (firstn 8 strContentType) /\
  slice strContentEncoding 8 (length strContentEncoding) = Ok (skipn 8 strContentEncoding) /\
  slice strContentLength 8 (length strContentLength) = Ok (skipn 8 strContentLength) /\
  slice strContentType 8 (length strContentType) = Ok (skipn 8 strContentType) /\
  slice strContentRange 8 (length strContentRange) = Ok (skipn 8 strContentRange) /\
  slice strProxyConnection 0 6 = Ok (firstn 6 strProxyConnection) /\
  slice strProxyConnection 6 (length strProxyConnection) = Ok (skipn 6 strProxyConnection) /\
  slice strProxyAuthenticate 6 (length strProxyAuthenticate) = Ok (skipn 6 strProxyAuthenticate) /\
  slice strProxyAuthorization 6 (length strProxyAuthorization) = Ok (skipn 6 strProxyAuthorization).
Proof. repeat split; reflexivity. Qed.

Lemma isBadTrailer_total key : total (isBadTrailer key).
Proof.
  destruct const_slices as (C1 & C2 & C3 & C4 & C5 & C6 & C7 & C8 & C9).
  unfold isBadTrailer. destruct key as [|k0 key']; [apply total_ok|].
  set (key := k0 :: key').
  repeat (match goal with |- total (if N.eqb ?c ?d then _ else _) => destruct (N.eqb c d) end);
    try apply total_ok.
  - (* 'c' *)
    destruct (length strContentType <=? length key) eqn:E; [|apply total_ok].
    apply Nat.leb_le in E. change (length strContentType) with 12 in E.
    rewrite slice_to by lia. cbn [bind]. rewrite C1. cbn [bind].
    destruct (cic _ _); [|apply total_ok].
    rewrite slice_from by lia. cbn [bind]. rewrite C2, C3, C4, C5. cbn [bind]. apply total_ok.
  - (* 'p' *)
    destruct (length strProxyConnection <=? length key) eqn:E; [|apply total_ok].
    apply Nat.leb_le in E. change (length strProxyConnection) with 16 in E.
    rewrite slice_to by lia. cbn [bind]. rewrite C6. cbn [bind].
    destruct (cic _ _); [|apply total_ok].
    rewrite slice_from by lia. cbn [bind]. rewrite C7, C8, C9. cbn [bind]. apply total_ok.
  - (* 'x' *)
    destruct (11 <=? length key) eqn:E1.
    + apply Nat.leb_le in E1. rewrite slice_to by lia. cbn [bind].
      destruct (cic _ x_forwarded); [apply total_ok|].
      destruct (9 <=? length key) eqn:E2; [|apply total_ok].
      rewrite slice_to by lia. cbn [bind]. apply total_ok.
    + cbn [bind]. destruct (9 <=? length key) eqn:E2; [|apply total_ok].
      apply Nat.leb_le in E2. rewrite slice_to by lia. cbn [bind]. apply total_ok.
Qed.

Lemma addTrailer_loop_total fuel dn trailer start acc bad :
  length trailer - start < fuel -> total (addTrailer_loop fuel dn trailer start acc bad).
Proof.
  revert trailer start acc bad; induction fuel as [|fuel IH]; intros trailer start acc bad Hf; [lia|].
  cbn [addTrailer_loop]. destruct (start <? length trailer) eqn:Es; [|apply total_ok].
  apply Nat.ltb_lt in Es. rewrite slice_from by lia. cbn [bind].
  set (t := skipn start trailer).
  assert (Ht : length t = length trailer - start) by (unfold t; apply skipn_length).
  set (i := match index_byte t COMMA with Some i => i | None => length t end).
  assert (Hi : i <= length t).
  { unfold i. destruct (index_byte t COMMA) eqn:E; [apply index_byte_lt in E; lia|lia]. }
  rewrite slice_to by exact Hi. cbn [bind].
  assert (Hb : total (if negb (isValidTrailerKey (trim (firstn i t))) then Ok true else isBadTrailer (trim (firstn i t)))).
  { destruct (negb _); [apply total_ok|apply isBadTrailer_total]. }
  destruct Hb as [isbad ->]. cbn [bind].
  destruct isbad; apply IH; lia.
Qed.

Lemma SetTrailerBytes_total dn v : total (SetTrailerBytes dn v).
Proof. unfold SetTrailerBytes. apply addTrailer_loop_total. lia. Qed.

(* ---------- per-header steps ---------- *)
Lemma req_header_step_total cfg no11 st k v inner : total (req_header_step cfg no11 st k v inner).
Proof.
  unfold req_header_step.
  destruct (SetTrailerBytes_total (disable_norm cfg) v) as [[tl bad] Etr]. rewrite Etr. cbn [bind].
  repeat (first [ apply total_ok
                | match goal with
                  | |- total (if ?c then _ else _) => destruct c
                  | |- total (match ?x with _ => _ end) => destruct x
                  | |- total (let x := _ in _) => cbv zeta
                  end ]).
Qed.

Lemma resp_header_step_total cfg no11 st k v inner : total (resp_header_step cfg no11 st k v inner).
Proof.
  unfold resp_header_step.
  destruct (SetTrailerBytes_total (disable_norm cfg) v) as [[tl bad] Etr]. rewrite Etr. cbn [bind].
  repeat (first [ apply total_ok
                | match goal with
                  | |- total (if ?c then _ else _) => destruct c
                  | |- total (match ?x with _ => _ end) => destruct x
                  | |- total (let x := _ in _) => cbv zeta
                  end ]).
Qed.

(* ---------- the header loops ---------- *)
Lemma req_headers_loop_lines cfg no11 fuel P rem st :
  tail_inv rem -> starts_spht (hd [] rem) = false -> length (join rem) < fuel ->
  exists res, req_headers_loop fuel cfg no11 (P ++ join rem) (length P) st = Ok res /\
    forall st' r', res = StOk (st', r') -> head_len_aux true CurEmpty (join rem) (length P) = Some r'.
Proof.
  revert P rem st; induction fuel as [|fuel IH]; intros P rem st Hinv Hhd Hf; [lia|].
  destruct rem as [|l rem0]; [destruct Hinv as [H _]; congruence|]. cbn [hd] in Hhd.
  assert (Hl : no_lf l) by (destruct Hinv as (_ & _ & Hfa); now inversion Hfa).
  assert (Hrem0 : Forall no_lf rem0) by (destruct Hinv as (_ & _ & Hfa); now inversion Hfa).
  cbn [req_headers_loop].
  destruct (scan_next_lines P l rem0 Hinv Hhd) as (nx & -> & Hnx). cbn [bind].
  destruct nx as [k v inner r'|[e|] r'].
  - destruct Hnx as (Hnb & used & rem' & E & Hu & Hi & Hs & Hr').
    destruct (req_header_step_total cfg no11 st k v inner) as [sr ->]. cbn [bind].
    destruct sr as [st'|e].
    + subst rem0. apply Forall_app in Hrem0 as [Hused _].
      assert (EP : P ++ join (l :: used ++ rem') = (P ++ l ++ [LF] ++ join used) ++ join rem').
      { rewrite join_cons, join_app, <- !app_assoc. reflexivity. }
      assert (Er : r' = length (P ++ l ++ [LF] ++ join used)) by (rewrite !app_length; cbn [length]; lia).
      rewrite EP, Er.
      destruct (IH (P ++ l ++ [LF] ++ join used) rem' st' Hi Hs) as (res & Hres & Hpost).
      { rewrite join_cons, join_app, !app_length in Hf. cbn [length] in Hf. rewrite app_length in Hf. lia. }
      exists res. split; [exact Hres|]. intros st2 r2 E2.
      rewrite head_len_lines_skip by assumption.
      rewrite head_len_lines_used by assumption.
      rewrite <- (Hpost _ _ E2). f_equal. rewrite !app_length. cbn [length]. lia.
    + eexists. split; [reflexivity|]. intros ? ? [=].
  - eexists. split; [reflexivity|]. intros ? ? [=].
  - destruct Hnx as [Hb ->]. eexists. split; [reflexivity|]. intros st' r2 [= <- <-].
    now apply head_len_lines_stop.
Qed.

Lemma resp_headers_loop_lines cfg no11 fuel P rem st :
  tail_inv rem -> starts_spht (hd [] rem) = false -> length (join rem) < fuel ->
  exists res, resp_headers_loop fuel cfg no11 (P ++ join rem) (length P) st = Ok res /\
    forall st' r', res = StOk (st', r') -> head_len_aux true CurEmpty (join rem) (length P) = Some r'.
Proof.
  revert P rem st; induction fuel as [|fuel IH]; intros P rem st Hinv Hhd Hf; [lia|].
  destruct rem as [|l rem0]; [destruct Hinv as [H _]; congruence|]. cbn [hd] in Hhd.
  assert (Hl : no_lf l) by (destruct Hinv as (_ & _ & Hfa); now inversion Hfa).
  assert (Hrem0 : Forall no_lf rem0) by (destruct Hinv as (_ & _ & Hfa); now inversion Hfa).
  cbn [resp_headers_loop].
  destruct (scan_next_lines P l rem0 Hinv Hhd) as (nx & -> & Hnx). cbn [bind].
  destruct nx as [k v inner r'|[e|] r'].
  - destruct Hnx as (Hnb & used & rem' & E & Hu & Hi & Hs & Hr').
    destruct (resp_header_step_total cfg no11 st k v inner) as [sr ->]. cbn [bind].
    destruct sr as [st'|e].
    + subst rem0. apply Forall_app in Hrem0 as [Hused _].
      assert (EP : P ++ join (l :: used ++ rem') = (P ++ l ++ [LF] ++ join used) ++ join rem').
      { rewrite join_cons, join_app, <- !app_assoc. reflexivity. }
      assert (Er : r' = length (P ++ l ++ [LF] ++ join used)) by (rewrite !app_length; cbn [length]; lia).
      rewrite EP, Er.
      destruct (IH (P ++ l ++ [LF] ++ join used) rem' st' Hi Hs) as (res & Hres & Hpost).
      { rewrite join_cons, join_app, !app_length in Hf. cbn [length] in Hf. rewrite app_length in Hf. lia. }
      exists res. split; [exact Hres|]. intros st2 r2 E2.
      rewrite head_len_lines_skip by assumption.
      rewrite head_len_lines_used by assumption.
      rewrite <- (Hpost _ _ E2). f_equal. rewrite !app_length. cbn [length]. lia.
    + eexists. split; [reflexivity|]. intros ? ? [=].
  - eexists. split; [reflexivity|]. intros ? ? [=].
  - destruct Hnx as [Hb ->]. eexists. split; [reflexivity|]. intros st' r2 [= <- <-].
    now apply head_len_lines_stop.
Qed.

(* ---------- scan_init ---------- *)
Lemma firstn_add {A} a b (l : list A) : firstn (a + b) l = firstn a l ++ firstn b (skipn a l).
Proof.
  revert l; induction a as [|a IH]; intros l; [reflexivity|].
  destruct l as [|x l]; cbn; [now rewrite firstn_nil|]. now rewrite IH.
Qed.

(* blockEnd is either 0 (search) or the offset just after an LF (what readRawHeaders returns) *)
Definition block_end_wf (buf : bytes) (blockEnd : nat) : Prop :=
  blockEnd = 0 \/ exists p s, buf = p ++ LF :: s /\ blockEnd = length p + 1.

Lemma block_end_ok_inv b bE : block_end_ok b bE = Ok true ->
  3 <= bE /\ bE <= length b /\ nth_error b (bE - 3) = Some LF /\ nth_error b (bE - 2) = Some CR.
Proof.
  unfold block_end_ok. destruct (bE <? 3) eqn:E3; [discriminate|]. destruct (length b <? bE) eqn:El; [discriminate|].
  apply Nat.ltb_ge in E3, El. cbn [orb].
  destruct (idx_ok b (bE - 3) ltac:(lia)) as (c3 & -> & H3). cbn [bind].
  destruct (N.eqb c3 LF) eqn:Ec3; [|discriminate]. cbn [negb].
  destruct (idx_ok b (bE - 2) ltac:(lia)) as (c2 & -> & H2). cbn [bind].
  intros [= Ec2]. apply N.eqb_eq in Ec3, Ec2. subst. auto.
Qed.

Lemma block_end_ok_total b bE : exists g, block_end_ok b bE = Ok g.
Proof.
  unfold block_end_ok. destruct (bE <? 3) eqn:E3; [cbn; eauto|]. destruct (length b <? bE) eqn:El; [cbn; eauto|].
  apply Nat.ltb_ge in E3, El. cbn [orb].
  destruct (idx_ok b (bE - 3) ltac:(lia)) as (c3 & -> & H3). cbn [bind].
  destruct (negb (N.eqb c3 LF)); [eauto|].
  destruct (idx_ok b (bE - 2) ltac:(lia)) as (c2 & -> & H2). cbn [bind]. eauto.
Qed.

Lemma nth_error_split3 (b : bytes) n x y z :
  nth_error b n = Some x -> nth_error b (S n) = Some y -> nth_error b (S (S n)) = Some z ->
  firstn (n + 3) b = firstn n b ++ [x; y; z].
Proof.
  revert b; induction n as [|n IH]; intros b H1 H2 H3.
  - destruct b as [|a [|b' [|c b'']]]; cbn in *; try discriminate. congruence.
  - destruct b as [|a b]; [discriminate|]. cbn in *. f_equal. now apply IH.
Qed.

Lemma scan_init_spec buf blockEnd :
  block_end_wf buf blockEnd ->
  exists ir, scan_init buf blockEnd = Ok ir /\
    match ir with
    | IEmpty => has_prefix strCRLF buf = true
    | IReady b' => exists q z c t, b' = q ++ [LF; CR; LF] /\ buf = b' ++ z /\ b' = c :: t /\ is_sp_ht c = false
    | _ => True
    end.
Proof.
  intros Hwf. unfold scan_init.
  destruct (has_prefix strCRLF buf) eqn:Ep; [eexists; split; [reflexivity|cbn; reflexivity]|].
  assert (Hblock : exists ob,
            (if 0 <? blockEnd
             then do good <- block_end_ok buf blockEnd;
                  if good then do x <- slice buf 0 blockEnd; Ok (BlkOk x) else Ok BlkBad
             else match index_sub strCRLFCRLF buf with
                  | None => Ok BlkNeed
                  | Some i => do x <- slice buf 0 (i + 4); Ok (BlkOk x)
                  end) = Ok ob /\
            match ob with
            | BlkOk b' => exists q z, b' = q ++ [LF; CR; LF] /\ buf = b' ++ z
            | _ => True
            end).
  { destruct (0 <? blockEnd) eqn:Epos.
    - apply Nat.ltb_lt in Epos.
      destruct (block_end_ok_total buf blockEnd) as [good Eg]. rewrite Eg. cbn [bind].
      destruct good; [|eexists; split; [reflexivity|exact I]].
      destruct (block_end_ok_inv _ _ Eg) as (H3 & Hle & Hn3 & Hn2).
      rewrite slice_to by exact Hle. cbn [bind]. eexists. split; [reflexivity|].
      destruct Hwf as [->|(p & s & E & HbE)]; [lia|].
      assert (Hn1 : nth_error buf (blockEnd - 1) = Some LF).
      { rewrite E, HbE. replace (length p + 1 - 1) with (length p) by lia.
        rewrite nth_error_app2 by lia. now rewrite Nat.sub_diag. }
      exists (firstn (blockEnd - 3) buf), (skipn blockEnd buf). split.
      + replace blockEnd with ((blockEnd - 3) + 3) at 1 by lia.
        apply nth_error_split3; [exact Hn3| |].
        * replace (S (blockEnd - 3)) with (blockEnd - 2) by lia. exact Hn2.
        * replace (S (S (blockEnd - 3))) with (blockEnd - 1) by lia. exact Hn1.
      + symmetry. apply firstn_skipn.
    - destruct (index_sub strCRLFCRLF buf) as [i|] eqn:Ei; [|eexists; split; [reflexivity|exact I]].
      destruct (index_sub_split _ _ _ Ei) as (pre & suf & E & Hpre).
      change strCRLFCRLF with [CR; LF; CR; LF] in E.
      rewrite slice_to by (rewrite E, !app_length; cbn; lia). cbn [bind].
      assert (Hfn : firstn (i + 4) buf = pre ++ [CR; LF; CR; LF]).
      { rewrite E, <- Hpre. rewrite firstn_add, firstn_at, skipn_at. reflexivity. }
      eexists. split; [reflexivity|]. exists (pre ++ [CR]), suf. split.
      + rewrite Hfn, <- app_assoc. reflexivity.
      + rewrite Hfn, <- app_assoc. exact E. }
  destruct Hblock as (ob & -> & Hob). cbn [bind].
  destruct ob as [| |b']; try (eexists; split; [reflexivity|exact I]).
  destruct Hob as (q & z & Eq & Ez).
  destruct b' as [|c t]; [destruct q; discriminate|].
  destruct (is_sp_ht c) eqn:Ec; [eexists; split; [reflexivity|exact I]|].
  eexists. split; [reflexivity|]. exists q, z, c, t. auto.
Qed.

(* ---------- parseHeaders ---------- *)
Lemma crlf_prefix_head_len buf : has_prefix strCRLF buf = true -> head_len_aux true CurEmpty buf 0 = Some 2.
Proof. intros H. apply has_prefix_split in H as [s ->]. reflexivity. Qed.

Lemma req_parseHeaders_sound cfg no11 buf blockEnd :
  block_end_wf buf blockEnd ->
  exists res, req_parseHeaders cfg no11 buf blockEnd = Ok res /\
    forall st n, res = PHOk st n -> head_len_aux true CurEmpty buf 0 = Some n.
Proof.
  intros Hwf. unfold req_parseHeaders.
  destruct (scan_init_spec buf blockEnd Hwf) as (ir & -> & Hir). cbn [bind].
  destruct ir as [| | | |b'].
  - eexists. split; [reflexivity|]. intros st n [= _ <-]. now apply crlf_prefix_head_len.
  - eexists. split; [reflexivity|]. intros ? ? [=].
  - eexists. split; [reflexivity|]. intros ? ? [=].
  - eexists. split; [reflexivity|]. intros ? ? [=].
  - destruct Hir as (q & z & c & t & Eq & Ez & Ec & Hc).
    destruct (block_lines_lf q) as (ls & Els & Hinv). rewrite <- Eq in Els.
    pose proof (hd_ok_first b' ls c t Els Ec Hc) as Hhd.
    destruct (req_headers_loop_lines cfg no11 (S (length b')) [] ls rq_init Hinv Hhd) as (res & Hres & Hpost).
    { rewrite <- Els. lia. }
    cbn [app length] in Hres. rewrite <- Els in Hres. rewrite Hres. cbn [bind].
    destruct res as [[st r]|e].
    + eexists. split; [reflexivity|]. intros st' n [= _ <-].
      specialize (Hpost _ _ eq_refl). cbn [length] in Hpost. rewrite <- Els in Hpost.
      rewrite Ez. now apply head_len_aux_app.
    + eexists. split; [reflexivity|]. intros ? ? [=].
Qed.

Lemma resp_parseHeaders_sound cfg no11 code buf :
  exists res, resp_parseHeaders cfg no11 code buf = Ok res /\
    forall st n, res = RPHOk st n -> head_len_aux true CurEmpty buf 0 = Some n.
Proof.
  unfold resp_parseHeaders.
  destruct (scan_init_spec buf 0 (or_introl eq_refl)) as (ir & -> & Hir). cbn [bind].
  destruct ir as [| | | |b'].
  - eexists. split; [reflexivity|]. intros st n [= _ <-]. now apply crlf_prefix_head_len.
  - eexists. split; [reflexivity|]. intros ? ? [=].
  - eexists. split; [reflexivity|]. intros ? ? [=].
  - eexists. split; [reflexivity|]. intros ? ? [=].
  - destruct Hir as (q & z & c & t & Eq & Ez & Ec & Hc).
    destruct (block_lines_lf q) as (ls & Els & Hinv). rewrite <- Eq in Els.
    pose proof (hd_ok_first b' ls c t Els Ec Hc) as Hhd.
    destruct (resp_headers_loop_lines cfg no11 (S (length b')) [] ls rs_init Hinv Hhd) as (res & Hres & Hpost).
    { rewrite <- Els. lia. }
    cbn [app length] in Hres. rewrite <- Els in Hres. rewrite Hres. cbn [bind].
    destruct res as [[st r]|e].
    + eexists. split; [reflexivity|]. intros st' n [= _ <-].
      specialize (Hpost _ _ eq_refl). cbn [length] in Hpost. rewrite <- Els in Hpost.
      rewrite Ez. now apply head_len_aux_app.
    + eexists. split; [reflexivity|]. intros ? ? [=].
Qed.

(* ---------- the whole parse ---------- *)
Definition answer_ok {A} (buf : bytes) (res : hres (A * nat)) : Prop :=
  res = HNeedMore \/ (exists e, res = HErr e) \/ (exists hd n, res = HOk (hd, n) /\ head_len buf = Some n).

Lemma req_parse_sound cfg buf : exists res, req_parse_R cfg buf = Ok res /\ answer_ok buf res.
Proof.
  unfold req_parse_R, req_parseFirstLine, answer_ok.
  destruct (firstLine_loop_gen (S (length buf)) buf 0 ltac:(lia)) as [[-> _]|(line & rest & pre & E & -> & Hh)]; cbn [bind].
  - eexists. split; [reflexivity|]. now left.
  - destruct (req_line_parse_total line (length buf - length rest)) as [fl Efl]. rewrite Efl. cbn [bind].
    destruct fl as [|e|l].
    + eexists. split; [reflexivity|]. now left.
    + eexists. split; [reflexivity|]. right. left. eauto.
    + rewrite (req_line_parse_len _ _ _ Efl).
      assert (Em : length buf - length rest = length pre) by (rewrite E, app_length; lia).
      assert (Esk : skipn (length pre) buf = rest) by (rewrite E; apply skipn_at).
      rewrite Em. rewrite slice_from by (rewrite E, app_length; lia). rewrite Esk. cbn [bind].
      rewrite readRawHeaders_spec. cbn [bind].
      destruct (head_len_aux true CurEmpty rest 0) as [rawEnd|] eqn:Eraw.
      2:{ eexists. split; [reflexivity|]. now left. }
      cbn [raw_res].
      assert (Hwf : block_end_wf rest rawEnd).
      { right. destruct (head_len_aux_ends_lf _ _ _ _ _ Eraw) as (p0 & s0 & E0 & EN). exists p0, s0. split; [exact E0|lia]. }
      destruct (req_parseHeaders_sound cfg (rl_noHTTP11 l) rest rawEnd Hwf) as (ph & -> & Hph). cbn [bind].
      destruct ph as [|e|st n].
      * eexists. split; [reflexivity|]. now left.
      * eexists. split; [reflexivity|]. right. left. eauto.
      * cbv zeta. destruct (_ && _).
        -- eexists. split; [reflexivity|]. right. left. eauto.
        -- eexists. split; [reflexivity|]. right. right. do 2 eexists. split; [reflexivity|].
           unfold head_len. rewrite Hh. rewrite head_len_aux_shift. rewrite (Hph _ _ eq_refl). reflexivity.
Qed.

Lemma resp_parse_sound cfg buf : exists res, resp_parse_R cfg buf = Ok res /\ answer_ok buf res.
Proof.
  unfold resp_parse_R, resp_parseFirstLine, answer_ok.
  destruct (firstLine_loop_gen (S (length buf)) buf 0 ltac:(lia)) as [[-> _]|(line & rest & pre & E & -> & Hh)]; cbn [bind].
  - eexists. split; [reflexivity|]. now left.
  - destruct (resp_line_parse_total line (length buf - length rest)) as [fl Efl]. rewrite Efl. cbn [bind].
    destruct fl as [|e|l].
    + eexists. split; [reflexivity|]. now left.
    + eexists. split; [reflexivity|]. right. left. eauto.
    + rewrite (resp_line_parse_len _ _ _ Efl).
      assert (Em : length buf - length rest = length pre) by (rewrite E, app_length; lia).
      assert (Esk : skipn (length pre) buf = rest) by (rewrite E; apply skipn_at).
      rewrite Em. rewrite slice_from by (rewrite E, app_length; lia). rewrite Esk. cbn [bind].
      destruct (resp_parseHeaders_sound cfg (sl_noHTTP11 l) (sl_code l) rest) as (ph & -> & Hph). cbn [bind].
      destruct ph as [|e|st n].
      * eexists. split; [reflexivity|]. now left.
      * eexists. split; [reflexivity|]. right. left. eauto.
      * eexists. split; [reflexivity|]. right. right. do 2 eexists. split; [reflexivity|].
        unfold head_len. rewrite Hh. rewrite head_len_aux_shift. rewrite (Hph _ _ eq_refl). reflexivity.
Qed.

(* ---------- C08 at the interface ---------- *)
Theorem req_head_total cfg input : req_head_parse cfg input <> HPanic /\ req_head_parse cfg input <> HOutOfFuel.
Proof.
  unfold req_head_parse. destruct (req_parse_sound cfg input) as (res & -> & [->|[[e ->]|(hd & n & -> & _)]]);
    split; discriminate.
Qed.

Theorem resp_head_total cfg input : resp_head_parse cfg input <> HPanic /\ resp_head_parse cfg input <> HOutOfFuel.
Proof.
  unfold resp_head_parse. destruct (resp_parse_sound cfg input) as (res & -> & [->|[[e ->]|(hd & n & -> & _)]]);
    split; discriminate.
Qed.

Theorem req_head_no_overread cfg input hd n :
  req_head_parse cfg input = HOk (hd, n) -> head_len input = Some n /\ n <= length input.
Proof.
  unfold req_head_parse. destruct (req_parse_sound cfg input) as (res & -> & [->|[[e ->]|(hd' & n' & -> & Hn)]]);
    try discriminate.
  intros [= <- <-]. split; [exact Hn|]. apply head_len_aux_bound in Hn. lia.
Qed.

Theorem resp_head_no_overread cfg input hd n :
  resp_head_parse cfg input = HOk (hd, n) -> head_len input = Some n /\ n <= length input.
Proof.
  unfold resp_head_parse. destruct (resp_parse_sound cfg input) as (res & -> & [->|[[e ->]|(hd' & n' & -> & Hn)]]);
    try discriminate.
  intros [= <- <-]. split; [exact Hn|]. apply head_len_aux_bound in Hn. lia.
Qed.

(* an accepted complete head consumes exactly |H| whatever follows — no guard needed *)
Theorem req_consumed_is_head cfg H S hd n :
  HeadComplete H -> req_head_parse cfg (H ++ S) = HOk (hd, n) -> n = length H.
Proof.
  intros HC Hp. apply req_head_no_overread in Hp as [Hn _].
  unfold HeadComplete, head_len in *. rewrite (head_len_aux_app _ _ _ _ _ S HC) in Hn. congruence.
Qed.

Theorem resp_consumed_is_head cfg H S hd n :
  HeadComplete H -> resp_head_parse cfg (H ++ S) = HOk (hd, n) -> n = length H.
Proof.
  intros HC Hp. apply resp_head_no_overread in Hp as [Hn _].
  unfold HeadComplete, head_len in *. rewrite (head_len_aux_app _ _ _ _ _ S HC) in Hn. congruence.
Qed.

(* ---------- C09 at the level of Read (what the harness observes) ---------- *)
Lemma head_complete_nonempty H : HeadComplete H -> H <> [].
Proof. intros HC ->. discriminate. Qed.

Lemma firstn_app_ge {A} (a b : list A) n : length a <= n -> firstn n (a ++ b) = a ++ firstn (n - length a) b.
Proof. intros Hl. rewrite firstn_app, firstn_all2 by lia. reflexivity. Qed.

Theorem req_read_local cfg bs H S final final' :
  HeadComplete H -> length H <= bs ->
  req_read cfg bs (H ++ S) final = req_read cfg bs H final'.
Proof.
  intros HC Hbs. pose proof (head_complete_nonempty H HC) as Hne.
  unfold req_read. rewrite firstn_app_ge by exact Hbs. rewrite (firstn_all2 H) by exact Hbs.
  set (S' := firstn (bs - length H) S).
  assert (Hp : req_head_parse cfg (H ++ S') = req_head_parse cfg H) by now apply req_head_local_alone.
  pose proof (req_no_wait cfg H HC) as Hnw.
  destruct H as [|h0 H0]; [congruence|]. cbn [app].
  unfold req_try_read. change (h0 :: H0 ++ S') with ((h0 :: H0) ++ S'). rewrite Hp.
  destruct (req_head_parse cfg (h0 :: H0)) as [[hd k]| |e| |]; try reflexivity. congruence.
Qed.

Theorem resp_read_local cfg bs H S final final' :
  HeadComplete H -> crlf_terminated H = true -> length H <= bs ->
  resp_read cfg bs (H ++ S) final = resp_read cfg bs H final'.
Proof.
  intros HC G Hbs. pose proof (head_complete_nonempty H HC) as Hne.
  unfold resp_read. rewrite firstn_app_ge by exact Hbs. rewrite (firstn_all2 H) by exact Hbs.
  set (S' := firstn (bs - length H) S).
  assert (Hp : resp_head_parse cfg (H ++ S') = resp_head_parse cfg H) by now apply resp_head_local_alone.
  pose proof (resp_no_wait cfg H HC G) as Hnw.
  destruct H as [|h0 H0]; [congruence|]. cbn [app].
  unfold resp_try_read. change (h0 :: H0 ++ S') with ((h0 :: H0) ++ S'). rewrite Hp.
  destruct (resp_head_parse cfg (h0 :: H0)) as [[hd k]| |e| |]; try reflexivity. congruence.
Qed.

(* ---------- the guard is exact: outside it a complete head whose first line parses is answered NeedMore ---------- *)
Lemma ends_with_intro q p : ends_with p (q ++ p) = true.
Proof.
  unfold ends_with. rewrite app_length. apply andb_true_iff. split; [apply Nat.leb_le; lia|].
  replace (length q + length p - length p) with (length q) by lia. rewrite skipn_at. apply beq_refl.
Qed.

Lemma scan_init_needmore rest :
  head_len_aux true CurEmpty rest 0 = Some (length rest) -> guard_block rest = false ->
  scan_init rest 0 = Ok INeedMore.
Proof.
  intros HC G. unfold guard_block in G. apply orb_false_iff in G as [G1 G2].
  unfold scan_init.
  destruct (has_prefix strCRLF rest) eqn:Ep.
  { exfalso. pose proof (crlf_prefix_head_len _ Ep) as H2. rewrite HC in H2. injection H2 as H2.
    apply has_prefix_split in Ep as [s ->]. destruct s; [cbn in G1; discriminate|cbn in H2; lia]. }
  assert (Hnone : index_sub strCRLFCRLF rest = None).
  { destruct (index_sub strCRLFCRLF rest) as [i|] eqn:Ei; [|reflexivity]. exfalso.
    destruct (index_sub_split _ _ _ Ei) as (pre & suf & E & Hpre).
    change strCRLFCRLF with [CR; LF; CR; LF] in E.
    destruct (crlfcrlf_blank pre suf CurEmpty 0) as (N & HN & HNle).
    rewrite <- E, HC in HN. injection HN as <-.
    rewrite E, !app_length in HNle. cbn [length] in HNle.
    destruct suf; [|cbn [length] in HNle; lia].
    rewrite app_nil_r in E. rewrite E, ends_with_intro in G2. discriminate. }
  cbn [Nat.ltb Nat.leb]. rewrite Hnone. reflexivity.
Qed.

Theorem resp_guard_exact cfg H :
  HeadComplete H -> crlf_terminated H = false ->
  resp_head_parse cfg H = HNeedMore \/ exists e, forall S, resp_head_parse cfg (H ++ S) = HErr e.
Proof.
  intros HC G.
  destruct (complete_head H HC) as (line & rest & pre & E & Hne & Hf & Hr & Hfl).
  rewrite (crlf_terminated_block H pre rest E Hf) in G.
  destruct (resp_line_parse_total line (length pre)) as [fl Efl].
  assert (Hfirst : forall z, resp_parseFirstLine (H ++ z) = Ok fl).
  { intros z. unfold resp_parseFirstLine. rewrite Hfl. cbn [bind].
    replace (length (H ++ z) - length (rest ++ z)) with (length pre) by (subst H; rewrite !app_length; lia).
    exact Efl. }
  destruct fl as [|e|l].
  - exfalso. exact (resp_line_parse_answers _ _ Efl).
  - right. exists e. intros S. unfold resp_head_parse, resp_parse_R. rewrite Hfirst. reflexivity.
  - left. unfold resp_head_parse, resp_parse_R. rewrite <- (app_nil_r H) at 1. rewrite Hfirst. cbn [bind].
    rewrite (resp_line_parse_len _ _ _ Efl).
    rewrite slice_from by (subst H; rewrite app_length; lia).
    assert (Esk : skipn (length pre) H = rest) by (rewrite E; apply skipn_at). rewrite Esk. cbn [bind].
    unfold resp_parseHeaders. rewrite scan_init_needmore by auto. reflexivity.
Qed.

Lemma scan_next_safe P l rem :
  tail_inv (l :: rem) -> starts_spht l = false ->
  exists res, scan_next (P ++ join (l :: rem)) (length P) = Ok res.
Proof. intros H1 H2. destruct (scan_next_lines P l rem H1 H2) as (res & E & _). eauto. Qed.
