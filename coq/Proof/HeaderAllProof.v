(* Proof/HeaderAllProof.v — C29: All() / VisitAll (hence PeekKeys and Len) yields, under EVERY name, exactly the
   values of the reference multimap, in order.  Needs one more invariant of reachable headers: h.h holds no field
   under a specially stored name, and no Connection field while the close flag is raised. *)
From Coq Require Import Lia ZifyBool ZifyN ZifyNat.
From FH Require Import Model.Base Gen.GenC05 Gen.GenC06 Model.Ints Model.ByteClassModel Model.Cookie
  Model.HeaderWrite Model.HeaderMap Spec.HeaderSpec Proof.HeaderMapProof Proof.HeaderSpecProof Proof.HeaderCaseProof.
Open Scope N_scope.

Lemma vals_of_optkv_same X v : vals_of (optkv X v) X = opt1 v.
Proof. unfold optkv, vals_of. destruct v; cbn [filter map fst snd]; [reflexivity|]. now rewrite beq_refl. Qed.
Lemma vals_of_hh h c : vals_of h c = peekAllArgs h c.
Proof. unfold vals_of. now rewrite peekAll_vals. Qed.
Lemma vals_of_const_same (X : bytes) (l : kvs) : vals_of (map (fun kv => (X, snd kv)) l) X = map snd l.
Proof. unfold vals_of. induction l as [|[k v] l IH]; cbn [map filter fst snd]; [reflexivity|]. rewrite beq_refl. cbn. now f_equal. Qed.

(* ====================== ResponseHeader ====================== *)
Definition rstored : list bytes := [strContentType; strContentEncoding; strServer; strContentLength; strSetCookie; strTrailer].
Definition rclean (r : resp) : Prop :=
  (forall X, In X rstored -> peekAllArgs (hh (rh r)) X = [])
  /\ (hclose (rh r) = true -> peekAllArgs (hh (rh r)) strConnection = []).

Lemma rstored_special X : In X rstored -> existsb (beq X) rspecials = true.
Proof. intros H. cbn in H. repeat (destruct H as [<-|H]; [reflexivity|]). contradiction. Qed.
Lemma rstored_not_conn X : In X rstored -> X <> strConnection.
Proof. intros H. cbn in H. repeat (destruct H as [<-|H]; [discriminate|]). contradiction. Qed.

Lemma RSetExact_clean r c v : rclean r -> rclean (RSetExact r c v).
Proof.
  intros [H1 H2]. unfold RSetExact.
  beq_case c strContentType E1; [split; assumption|].
  beq_case c strContentLength E2.
  { destruct (parseContentLength v); [|split; assumption]. split; cbn.
    - intros X HX. rewrite peekAll_del_other; [now apply H1|]. intros ->. cbn in HX. repeat (destruct HX as [HX|HX]; [discriminate HX|]). contradiction.
    - intros Hc. rewrite peekAll_del_other by discriminate. now apply H2. }
  beq_case c strContentEncoding E3; [split; assumption|].
  beq_case c strConnection E4.
  { subst c. destruct (hasHeaderValue v strClose).
    - split; cbn.
      + intros X HX. rewrite peekAll_del_other by (apply rstored_not_conn; exact HX). now apply H1.
      + intros _. apply peekAll_del_same.
    - unfold hResetConnectionClose. destruct (hclose (rh r)) eqn:Hc; split; cbn.
      + intros X HX. pose proof (rstored_not_conn X HX) as Hn. rewrite peekAll_set_other, peekAll_del_other by assumption. now apply H1.
      + discriminate.
      + intros X HX. pose proof (rstored_not_conn X HX) as Hn. rewrite peekAll_set_other by assumption. now apply H1.
      + rewrite Hc. discriminate. }
  beq_case c strServer E5; [split; assumption|].
  beq_case c strSetCookie E6; [split; assumption|].
  beq_case c strTransferEncoding E7; [split; assumption|].
  beq_case c strTrailer E8.
  { unfold RSetTrailerBytes. destruct (hSetTrailer_shape (rh r) v) as [tr ->]. split; assumption. }
  beq_case c strDate E9; [split; assumption|].
  assert (Hns : existsb (beq c) rspecials = false) by (cbn [existsb rspecials]; now rewrite E1, E2, E3, E4, E5, E6, E7, E8, E9).
  split; cbn.
  - intros X HX. rewrite peekAll_set_other; [now apply H1|]. intros ->. rewrite (rstored_special _ HX) in Hns. discriminate.
  - intros Hc. rewrite peekAll_set_other; [now apply H2|]. intros <-. rewrite beq_refl in E4. discriminate.
Qed.
Lemma RAddExact_clean r c v : rclean r -> rclean (RAddExact r c v).
Proof.
  intros H. unfold RAddExact. destruct (existsb (beq c) rspecials) eqn:Hns; [now apply RSetExact_clean|].
  destruct H as [H1 H2]. split; cbn.
  - intros X HX. rewrite peekAll_append_other; [now apply H1|]. intros ->. rewrite (rstored_special _ HX) in Hns. discriminate.
  - intros Hc. rewrite peekAll_append_other; [now apply H2|]. intros <-. cbn in Hns. discriminate.
Qed.
Lemma Rdel_clean r c : rclean r -> rclean (Rdel r c).
Proof.
  intros [H1 H2]. unfold Rdel.
  set (r1 := if beq c strContentType then _ else _).
  assert (Hh : hh (rh r1) = hh (rh r)).
  { subst r1. repeat match goal with |- context[if beq c ?X then _ else _] => destruct (beq c X) end; reflexivity. }
  assert (Hcl : hclose (rh r1) = true -> hclose (rh r) = true /\ c <> strConnection).
  { subst r1. beq_case c strContentType E1; [subst; split; [assumption|discriminate]|].
    beq_case c strContentEncoding E2; [subst; split; [assumption|discriminate]|].
    beq_case c strServer E3; [subst; split; [assumption|discriminate]|].
    beq_case c strSetCookie E4; [subst; split; [assumption|discriminate]|].
    beq_case c strContentLength E5; [subst; split; [assumption|discriminate]|].
    beq_case c strConnection E6; [cbn; discriminate|].
    beq_case c strTrailer E7; [subst; split; [assumption|discriminate]|].
    intros H. split; [exact H|]. intros ->. rewrite beq_refl in E6. discriminate. }
  clearbody r1. split; cbn; rewrite Hh.
  - intros X HX. destruct (beq X c) eqn:E; [apply beq_eq in E; subst; apply peekAll_del_same|].
    apply beq_false_ne in E. rewrite peekAll_del_other by assumption. now apply H1.
  - intros Hc. destruct (Hcl Hc) as [Hc' Hn]. rewrite peekAll_del_other by congruence. now apply H2.
Qed.

Lemma rstep29_clean nonorm r o : hdisableNorm (rh r) = nonorm -> key_ok rspecials nonorm o = true ->
  rclean r -> rclean (rstep29 r o).
Proof.
  intros Hd Hk H. rewrite (rstep29_exact nonorm r o Hd Hk).
  destruct o; [now apply RSetExact_clean|now apply RAddExact_clean|now apply Rdel_clean|exact H].
Qed.

Lemma Rrun_clean nonorm nodefct ops : ops_ok rspecials nonorm ops -> rclean (fold_left rstep29 ops (rinit nonorm nodefct)).
Proof.
  intros Hok.
  assert (G : forall ops r, ops_ok rspecials nonorm ops -> hdisableNorm (rh r) = nonorm -> rclean r ->
              rclean (fold_left rstep29 ops r)).
  { induction ops0 as [|o ops0 IH]; intros r Hops Hd Hc; [exact Hc|].
    apply Forall_cons_iff in Hops as [[Hk Hw] Hrest]. cbn [fold_left]. apply IH; [exact Hrest| |].
    - rewrite <- Hd. apply rflags_norm. now apply (rstep29_flags nonorm).
    - now apply (rstep29_clean nonorm). }
  apply G; [exact Hok|reflexivity|]. split; [intros X _; reflexivity|discriminate].
Qed.

(* All() per name = PeekAll, except that every Set-Cookie value is its own field *)
Lemma RAll_vals r c : rclean r ->
  vals_of (RAll r) c = if beq c strSetCookie then rvals r c else RpeekAll r c.
Proof.
  intros [H1 H2]. unfold RAll. cbv zeta. rewrite !vals_of_app, (vals_of_hh (hh (rh r))).
  assert (Htr : forall X, vals_of (match htrailer (rh r) with [] => [] | tr => [(strTrailer, appendTrailerBytes [] tr strCommaSpace)] end) X
                = if beq X strTrailer then match htrailer (rh r) with [] => [] | tr => [appendTrailerBytes [] tr strCommaSpace] end else []).
  { intros X. destruct (htrailer (rh r)); [now destruct (beq X strTrailer)|]. unfold vals_of. cbn [filter fst]. rewrite (beq_sym strTrailer X).
    destruct (beq X strTrailer); reflexivity. }
  assert (Hcl : forall X, vals_of (if hclose (rh r) then [(strConnection, strClose)] else []) X
                = if beq X strConnection && hclose (rh r) then [strClose] else []).
  { intros X. destruct (hclose (rh r)); [|now rewrite andb_false_r]. unfold vals_of. cbn [filter fst]. rewrite (beq_sym strConnection X).
    destruct (beq X strConnection); reflexivity. }
  rewrite Htr, Hcl. unfold RpeekAll, rvals.
  beq_case c strContentType E1.
  { subst c. rewrite vals_of_optkv_same, !vals_of_optkv, vals_of_const by reflexivity. rewrite (H1 strContentType) by (cbn; tauto).
    cbn. now rewrite app_nil_r. }
  beq_case c strContentEncoding E2.
  { subst c. rewrite vals_of_optkv_same, !vals_of_optkv, vals_of_const by reflexivity. rewrite (H1 strContentEncoding) by (cbn; tauto).
    cbn. now rewrite app_nil_r. }
  beq_case c strServer E3.
  { subst c. rewrite vals_of_optkv_same, !vals_of_optkv, vals_of_const by reflexivity. rewrite (H1 strServer) by (cbn; tauto).
    cbn. now rewrite app_nil_r. }
  beq_case c strConnection E4.
  { subst c. rewrite !vals_of_optkv, vals_of_const by reflexivity. change (beq strConnection strTrailer) with false.
    change (beq strConnection strConnection) with true. cbn [andb app].
    destruct (hclose (rh r)) eqn:Hc; [rewrite (H2 eq_refl); reflexivity|now rewrite app_nil_r]. }
  beq_case c strContentLength E5.
  { subst c. rewrite vals_of_optkv_same, !vals_of_optkv, vals_of_const by reflexivity. rewrite (H1 strContentLength) by (cbn; tauto).
    cbn. now rewrite app_nil_r. }
  beq_case c strSetCookie E6.
  { subst c. rewrite !vals_of_optkv, vals_of_const_same by reflexivity. rewrite (H1 strSetCookie) by (cbn; tauto).
    cbn. now rewrite app_nil_r. }
  beq_case c strTrailer E7.
  { subst c. rewrite !vals_of_optkv, vals_of_const by reflexivity. rewrite (H1 strTrailer) by (cbn; tauto).
    cbn. now rewrite app_nil_r. }
  rewrite !vals_of_optkv, vals_of_const by assumption. cbn [app andb]. now rewrite app_nil_r.
Qed.

Theorem resp_all nonorm nodefct ops c : ops_ok rspecials nonorm ops ->
  let r := fold_left rstep29 ops (rinit nonorm nodefct) in
  vals_of (RAll r) c = spec_all_vals HResp nodefct (srun HResp nonorm (map sop_of ops)) c.
Proof.
  intros Hok r. destruct (Rrun_sim nonorm nodefct ops Hok) as (HS & Hn & Htr). fold r in HS, Hn, Htr.
  rewrite (RAll_vals r c (Rrun_clean nonorm nodefct ops Hok)).
  unfold spec_all_vals. destruct (beq c strSetCookie) eqn:E.
  - apply beq_eq in E. subst c. change (cls_of HResp strSetCookie) with CSetCookie. cbv iota. apply HS.
  - rewrite (RpeekAll_spec nonorm r _ c HS Htr), Hn.
    destruct (cls_resp_cases c) as [[-> ->]|[[-> ->]|[[-> ->]|[[-> ->]|[[-> ->]|[[-> _]|[[-> ->]|[_ [-> | ->]]]]]]]]]; try reflexivity.
    rewrite beq_refl in E. discriminate.
Qed.

(* ====================== RequestHeader ====================== *)
Definition qstored : list bytes := [strHost; strContentType; strUserAgent; strContentLength; strTrailer].
Definition qclean (q : req) : Prop :=
  (forall X, In X qstored -> peekAllArgs (hh (qh q)) X = [])
  /\ (hclose (qh q) = true -> peekAllArgs (hh (qh q)) strConnection = []).

Lemma qstored_special X : In X qstored -> existsb (beq X) qspecials = true.
Proof. intros H. cbn in H. repeat (destruct H as [<-|H]; [reflexivity|]). contradiction. Qed.
Lemma qstored_not_conn X : In X qstored -> X <> strConnection.
Proof. intros H. cbn in H. repeat (destruct H as [<-|H]; [discriminate|]). contradiction. Qed.

Lemma QSetExact_clean q c v : no_cookie_hh (hh (qh q)) -> qclean q -> qclean (QSetExact q c v).
Proof.
  intros Hnc [H1 H2]. unfold QSetExact.
  beq_case c strContentType E1; [split; assumption|].
  beq_case c strContentLength E2.
  { destruct (parseContentLength v); [|split; assumption]. split; cbn.
    - intros X HX. rewrite peekAll_del_other; [now apply H1|]. intros ->. cbn in HX. repeat (destruct HX as [HX|HX]; [discriminate HX|]). contradiction.
    - intros Hc. rewrite peekAll_del_other by discriminate. now apply H2. }
  beq_case c strConnection E4.
  { subst c. destruct (hasHeaderValue v strClose).
    - split; cbn.
      + intros X HX. rewrite peekAll_del_other by (apply qstored_not_conn; exact HX). now apply H1.
      + intros _. apply peekAll_del_same.
    - unfold hResetConnectionClose. destruct (hclose (qh q)) eqn:Hc; split; cbn.
      + intros X HX. pose proof (qstored_not_conn X HX) as Hn. rewrite peekAll_set_other, peekAll_del_other by assumption. now apply H1.
      + discriminate.
      + intros X HX. pose proof (qstored_not_conn X HX) as Hn. rewrite peekAll_set_other by assumption. now apply H1.
      + rewrite Hc. discriminate. }
  beq_case c strCookie E5.
  { destruct (collect_fields q Hnc) as (F1 & _). cbv zeta. split; cbn; rewrite F1; assumption. }
  beq_case c strTransferEncoding E6; [split; assumption|].
  beq_case c strTrailer E7.
  { unfold QSetTrailerBytes. destruct (hSetTrailer_shape (qh q) v) as [tr ->]. split; assumption. }
  beq_case c strHost E8; [split; assumption|].
  beq_case c strUserAgent E9; [split; assumption|].
  assert (Hns : existsb (beq c) qspecials = false) by (cbn [existsb qspecials]; now rewrite E1, E2, E4, E5, E6, E7, E8, E9).
  split; cbn.
  - intros X HX. rewrite peekAll_set_other; [now apply H1|]. intros ->. rewrite (qstored_special _ HX) in Hns. discriminate.
  - intros Hc. rewrite peekAll_set_other; [now apply H2|]. intros <-. rewrite beq_refl in E4. discriminate.
Qed.
Lemma QAddExact_clean q c v : no_cookie_hh (hh (qh q)) -> qclean q -> qclean (QAddExact q c v).
Proof.
  intros Hnc H. unfold QAddExact. destruct (existsb (beq c) qspecials) eqn:Hns; [now apply QSetExact_clean|].
  destruct H as [H1 H2]. split; cbn.
  - intros X HX. rewrite peekAll_append_other; [now apply H1|]. intros ->. rewrite (qstored_special _ HX) in Hns. discriminate.
  - intros Hc. rewrite peekAll_append_other; [now apply H2|]. intros <-. cbn in Hns. discriminate.
Qed.
Lemma Qdel_clean q c : qclean q -> qclean (Qdel q c).
Proof.
  intros [H1 H2]. unfold Qdel.
  set (q1 := if beq c strHost then _ else _).
  assert (Hh : hh (qh q1) = hh (qh q)).
  { subst q1. repeat match goal with |- context[if beq c ?X then _ else _] => destruct (beq c X) end; reflexivity. }
  assert (Hcl : hclose (qh q1) = true -> hclose (qh q) = true /\ c <> strConnection).
  { subst q1. beq_case c strHost E0; [subst; split; [assumption|discriminate]|].
    beq_case c strContentType E1; [subst; split; [assumption|discriminate]|].
    beq_case c strUserAgent E2; [subst; split; [assumption|discriminate]|].
    beq_case c strCookie E4; [subst; split; [assumption|discriminate]|].
    beq_case c strContentLength E5; [subst; split; [assumption|discriminate]|].
    beq_case c strConnection E6; [cbn; discriminate|].
    beq_case c strTrailer E7; [subst; split; [assumption|discriminate]|].
    intros H. split; [exact H|]. intros ->. rewrite beq_refl in E6. discriminate. }
  clearbody q1. split; cbn; rewrite Hh.
  - intros X HX. destruct (beq X c) eqn:E; [apply beq_eq in E; subst; apply peekAll_del_same|].
    apply beq_false_ne in E. rewrite peekAll_del_other by assumption. now apply H1.
  - intros Hc. destruct (Hcl Hc) as [Hc' Hn]. rewrite peekAll_del_other by congruence. now apply H2.
Qed.

Lemma Qrun_clean nonorm nodefct evs : qev_ok nonorm evs -> qclean (fold_left qevstep evs (qinit nonorm nodefct)).
Proof.
  intros Hok.
  assert (G : forall evs q m, qev_ok nonorm evs -> Qsim nonorm q m -> qclean q ->
              qclean (fold_left qevstep evs q)).
  { induction evs0 as [|e evs0 IH]; intros q m Hops HS Hc; [exact Hc|].
    pose proof HS as (Hd & Hds & _ & _ & _ & Hnc & _).
    destruct e as [o|]; cbn [fold_left qevstep].
    - unfold qev_ok in Hops. cbn [qev_ops flat_map app] in Hops. apply Forall_cons_iff in Hops as [[Hk Hw] Hrest].
      apply (IH _ (sstep HReq nonorm m (sop_of o))); [exact Hrest|now apply Qstep_sim|].
      rewrite (qstep29_exact nonorm q o Hd Hds Hk).
      destruct o; [now apply QSetExact_clean|now apply QAddExact_clean|now apply Qdel_clean|exact Hc].
    - apply (IH _ m); [exact Hops|now apply Qcollect_sim|].
      cbn [QAll fst]. destruct (collect_fields q Hnc) as (F1 & _). destruct Hc as [C1 C2]. split; rewrite F1; assumption. }
  apply (G evs _ []); [exact Hok|apply Qsim_init|]. split; [intros X _; reflexivity|discriminate].
Qed.

(* All() per name = PeekAll of the header after the iteration (the cookies are collected by All) *)
Lemma QAll_vals q c : qdisableSpecial q = false -> no_cookie_hh (hh (qh q)) -> qclean q ->
  vals_of (snd (QAll q)) c = QpeekAll (fst (QAll q)) c.
Proof.
  intros Hds Hnc [H1 H2]. unfold QAll. cbv zeta. cbn [fst snd].
  destruct (collect_fields q Hnc) as (F1 & F2 & F3 & F4 & F5).
  unfold QpeekAll, QHost, QContentType, QUserAgent. rewrite F1, F2, F3, F4, F5, Hds. cbn [negb].
  rewrite !vals_of_app, (vals_of_hh (hh (qh q))).
  assert (Htr : forall X, vals_of (match htrailer (qh q) with [] => [] | tr => [(strTrailer, appendTrailerBytes [] tr strCommaSpace)] end) X
                = if beq X strTrailer then match htrailer (qh q) with [] => [] | tr => [appendTrailerBytes [] tr strCommaSpace] end else []).
  { intros X. destruct (htrailer (qh q)); [now destruct (beq X strTrailer)|]. unfold vals_of. cbn [filter fst]. rewrite (beq_sym strTrailer X).
    destruct (beq X strTrailer); reflexivity. }
  assert (Hck : forall X, vals_of (match hcookies (qh q) with [] => [] | cs => [(strCookie, appendRequestCookieBytes [] cs)] end) X
                = if beq X strCookie then match hcookies (qh q) with [] => [] | cs => [appendRequestCookieBytes [] cs] end else []).
  { intros X. destruct (hcookies (qh q)); [now destruct (beq X strCookie)|]. unfold vals_of. cbn [filter fst]. rewrite (beq_sym strCookie X).
    destruct (beq X strCookie); reflexivity. }
  assert (Hcl : forall X, vals_of (if hclose (qh q) then [(strConnection, strClose)] else []) X
                = if beq X strConnection && hclose (qh q) then [strClose] else []).
  { intros X. destruct (hclose (qh q)); [|now rewrite andb_false_r]. unfold vals_of. cbn [filter fst]. rewrite (beq_sym strConnection X).
    destruct (beq X strConnection); reflexivity. }
  rewrite Htr, Hck, Hcl.
  beq_case c strHost E0.
  { subst c. rewrite vals_of_optkv_same, !vals_of_optkv by reflexivity. rewrite (H1 strHost) by (cbn; tauto). cbn. now rewrite app_nil_r. }
  beq_case c strContentType E1.
  { subst c. rewrite vals_of_optkv_same, !vals_of_optkv by reflexivity. rewrite (H1 strContentType) by (cbn; tauto). cbn. now rewrite app_nil_r. }
  beq_case c strUserAgent E2.
  { subst c. rewrite vals_of_optkv_same, !vals_of_optkv by reflexivity. rewrite (H1 strUserAgent) by (cbn; tauto). cbn. now rewrite app_nil_r. }
  beq_case c strConnection E4.
  { subst c. rewrite !vals_of_optkv by reflexivity. change (beq strConnection strTrailer) with false. change (beq strConnection strCookie) with false.
    change (beq strConnection strConnection) with true. cbn [andb app].
    destruct (hclose (qh q)) eqn:Hc; [rewrite (H2 eq_refl); reflexivity|now rewrite app_nil_r]. }
  beq_case c strContentLength E5.
  { subst c. rewrite vals_of_optkv_same, !vals_of_optkv by reflexivity. rewrite (H1 strContentLength) by (cbn; tauto). cbn. now rewrite app_nil_r. }
  beq_case c strCookie E6.
  { subst c. rewrite !vals_of_optkv by reflexivity. rewrite (no_cookie_peekAll _ Hnc). cbn. now rewrite app_nil_r. }
  beq_case c strTrailer E7.
  { subst c. rewrite !vals_of_optkv by reflexivity. rewrite (H1 strTrailer) by (cbn; tauto). cbn. now rewrite app_nil_r. }
  rewrite !vals_of_optkv by assumption. cbn [app andb]. now rewrite app_nil_r.
Qed.

Theorem req_all nonorm nodefct evs c : qev_ok nonorm evs ->
  let q := fold_left qevstep evs (qinit nonorm nodefct) in
  vals_of (snd (QAll q)) c = spec_all_vals HReq nodefct (srun HReq nonorm (map sop_of (qev_ops evs))) c.
Proof.
  intros Hok q. destruct (Qrun_sim nonorm nodefct evs Hok) as (HS & Hn & Htr). fold q in HS, Hn, Htr.
  pose proof HS as (_ & Hds & _ & _ & _ & Hnc & _).
  rewrite (QAll_vals q c Hds Hnc (Qrun_clean nonorm nodefct evs Hok)).
  cbn [QAll fst]. pose proof (Qcollect_sim nonorm q _ HS) as HS'.
  assert (Htr' : tr_ok (htrailer (qh (collectCookies q)))) by (destruct (collect_fields q Hnc) as (F1 & _); now rewrite F1).
  rewrite (QpeekAll_spec nonorm _ _ c nodefct HS' Htr').
  unfold spec_all_vals.
  destruct (cls_req_cases c) as [[-> ->]|[[-> ->]|[[-> ->]|[[-> ->]|[[-> ->]|[[-> ->]|[[-> ->]|[_ [-> | ->]]]]]]]]]; reflexivity.
Qed.

(* under the guard of Properties/C29.v *)
Theorem resp_all_g nonorm nodefct ops c : ops_guard rspecials nonorm ops ->
  let r := fold_left rstep29 ops (rinit nonorm nodefct) in
  vals_of (RAll r) c = spec_all_vals HResp nodefct (srun HResp nonorm (map sop_of ops)) c
  /\ RPeekKeys r = map fst (RAll r) /\ RLen r = Z.of_nat (length (RAll r)).
Proof.
  intros H r. split; [|split; reflexivity]. apply resp_all. apply ops_guard_ok; [apply rspecials_canonical|exact H].
Qed.
Theorem req_all_g nonorm nodefct evs c : ops_guard qspecials nonorm (qev_ops evs) ->
  let q := fold_left qevstep evs (qinit nonorm nodefct) in
  vals_of (snd (QAll q)) c = spec_all_vals HReq nodefct (srun HReq nonorm (map sop_of (qev_ops evs))) c
  /\ snd (QPeekKeys q) = map fst (snd (QAll q)) /\ snd (QLen q) = Z.of_nat (length (snd (QAll q))).
Proof.
  intros H q. split; [|split; reflexivity]. apply req_all. apply ops_guard_ok; [apply qspecials_canonical|exact H].
Qed.
