(* Proof/HeaderCaseProof.v — C29: with normalisation enabled no key is a "case variant" of a special name:
   a canonicalised key that matches a specially handled name case-insensitively IS that name.  Finite facts about
   the byte tables are decided over all 256 (or 256 x 256) bytes by computation. *)
From Coq Require Import Lia ZifyBool ZifyN ZifyNat.
From FH Require Import Model.Base Gen.GenC05 Gen.GenC32 Model.ByteClassModel Model.Cookie Model.HeaderWrite Model.HeaderMap
  Spec.HeaderSpec Proof.ByteClassProof Proof.HeaderMapProof Proof.HeaderSpecProof.
Open Scope N_scope.

(* ASCII letter or dash: the bytes the special names are made of *)
Definition ld (x : N) : bool := ((65 <=? x) && (x <=? 90)) || ((97 <=? x) && (x <=? 122)) || (x =? 45).
Definition U (x : N) : N := tbl toUpperTable x.
Definition L (x : N) : N := tbl toLowerTable x.

Definition pair_ok (x y : N) : bool :=
  implb (ld x && (N.lor x 32 =? N.lor y 32) && negb (y =? 13))
        ((U x =? U y) && (L x =? L y) && validHeaderFieldByte y).
Lemma pairs_ok : forallb (fun x => forallb (fun y => pair_ok x y) all256) all256 = true.
Proof. vm_compute. reflexivity. Qed.

Definition byte_ok (x : N) : bool :=
  (U (U x) =? U x) && (L (L x) =? L x) && (U x <? 256) && (L x <? 256)
  && implb (validHeaderFieldByte x) (negb (U x =? 13) && negb (L x =? 13)).
Lemma bytes_ok : forallb byte_ok all256 = true.
Proof. vm_compute. reflexivity. Qed.

Lemma pair_fact x y : x < 256 -> y < 256 -> ld x = true -> N.lor x 32 = N.lor y 32 -> y <> 13 ->
  U x = U y /\ L x = L y /\ validHeaderFieldByte y = true.
Proof.
  intros Hx Hy Hl He Hn. pose proof pairs_ok as H. rewrite forallb_forall in H.
  specialize (H x (in_all256 x Hx)). rewrite forallb_forall in H. specialize (H y (in_all256 y Hy)).
  unfold pair_ok in H. rewrite Hl, He, N.eqb_refl in H. destruct (N.eqb_spec y 13); [contradiction|]. cbn in H.
  apply andb_true_iff in H as [H H3]. apply andb_true_iff in H as [H1 H2]. apply N.eqb_eq in H1, H2. tauto.
Qed.
Lemma byte_fact x : x < 256 ->
  U (U x) = U x /\ L (L x) = L x /\ U x < 256 /\ L x < 256 /\ (validHeaderFieldByte x = true -> U x <> 13 /\ L x <> 13).
Proof.
  intros Hx. pose proof bytes_ok as H. rewrite forallb_forall in H. specialize (H x (in_all256 x Hx)).
  unfold byte_ok in H.
  apply andb_true_iff in H as [H H5]. apply andb_true_iff in H as [H H4]. apply andb_true_iff in H as [H H3].
  apply andb_true_iff in H as [H1 H2].
  apply N.eqb_eq in H1, H2. apply N.ltb_lt in H3, H4.
  split; [exact H1|split; [exact H2|split; [exact H3|split; [exact H4|]]]].
  intros Hv. rewrite Hv in H5. cbn [implb] in H5. apply andb_true_iff in H5 as [A B].
  split; intros E; [rewrite E in A|rewrite E in B]; discriminate.
Qed.

Lemma ld_lt x : ld x = true -> x < 256.
Proof. unfold ld. lia. Qed.

(* a key that matches X (letters and dashes) case-insensitively and has no CR canonicalises like X and is a token *)
Lemma nhk_ci X : forall c up, forallb ld X = true -> wf_bytes c -> Forall (fun y => y <> 13) c -> ci X c = true ->
  nhk_loop up c = nhk_loop up X /\ forallb validHeaderFieldByte c = true.
Proof.
  induction X as [|x X IH]; intros c up HX Hwf Hn Hci; destruct c as [|y c]; try discriminate; [split; reflexivity|].
  cbn in HX. apply andb_true_iff in HX as [Hx HX]. unfold ci in Hci. cbn in Hci. apply andb_true_iff in Hci as [He Hci].
  apply N.eqb_eq in He. inversion Hwf as [|? ? Hy Hwf']; subst. inversion Hn as [|? ? Hy13 Hn']; subst.
  destruct (pair_fact x y (ld_lt x Hx) Hy Hx He Hy13) as (HU & HL & Hv).
  destruct (IH c (if up then U y =? 45 else L y =? 45) HX Hwf' Hn' Hci) as [IH1 IH2].
  split; [|cbn; now rewrite Hv, IH2].
  cbn [nhk_loop]. fold (U y) (L y) (U x) (L x). rewrite <- HU, <- HL.
  destruct up; f_equal; [rewrite HU|rewrite HL]; rewrite IH1; now rewrite <- ?HU, <- ?HL.
Qed.

Lemma nhk_idem s : wf_bytes s -> forall up, nhk_loop up (nhk_loop up s) = nhk_loop up s.
Proof.
  induction 1 as [|x s Hx Hs IH]; intros up; [reflexivity|].
  destruct (byte_fact x Hx) as (HUU & HLL & _).
  cbn [nhk_loop]. fold (U x) (L x). destruct up; cbn [nhk_loop]; fold (U (U x)) (L (L x)); rewrite ?HUU, ?HLL; now rewrite IH.
Qed.
Lemma nhk_wf s : wf_bytes s -> forall up, forallb validHeaderFieldByte s = true ->
  wf_bytes (nhk_loop up s) /\ Forall (fun y => y <> 13) (nhk_loop up s).
Proof.
  induction 1 as [|x s Hx Hs IH]; intros up Hv; [split; constructor|].
  cbn in Hv. apply andb_true_iff in Hv as [Hvx Hv].
  destruct (byte_fact x Hx) as (_ & _ & HU & HL & H13). destruct (H13 Hvx) as [HU13 HL13].
  cbn [nhk_loop]. fold (U x) (L x).
  destruct (IH ((if up then U x else L x) =? 45) Hv) as [I1 I2].
  destruct up; (split; constructor; assumption).
Qed.

Lemma removeNewLines_wf k : wf_bytes k -> wf_bytes (removeNewLines k) /\ Forall (fun y => y <> 13) (removeNewLines k).
Proof.
  induction 1 as [|x s Hx Hs [I1 I2]]; [split; constructor|]. cbn [removeNewLines map]. fold (removeNewLines s).
  destruct (N.eqb_spec x 13); cbn [orb]; [split; constructor; try assumption; lia|].
  destruct (x =? 10); (split; constructor; try assumption; lia).
Qed.

Definition canonical_special (X : bytes) : bool := forallb ld X && beq (nhk_loop true X) X.

Theorem casefold_ok_normalised specials k :
  forallb canonical_special specials = true -> wf_bytes k ->
  casefold_ok specials (normalizeHeaderKey k false) = true.
Proof.
  intros Hsp Hwf. unfold casefold_ok. apply forallb_forall. intros X HX.
  rewrite forallb_forall in Hsp. specialize (Hsp X HX). unfold canonical_special in Hsp.
  apply andb_true_iff in Hsp as [Hld Hcan]. apply beq_eq in Hcan.
  destruct (ci X (normalizeHeaderKey k false)) eqn:Hci; [|reflexivity]. cbn [implb].
  unfold normalizeHeaderKey in *. cbv zeta in *. destruct (removeNewLines_wf k Hwf) as [Hbw Hbn].
  destruct (forallb validHeaderFieldByte (removeNewLines k)) eqn:Hv.
  - unfold normalizeHeaderKeyValidated in *. cbv iota in *.
    destruct (nhk_wf _ Hbw true Hv) as [Hcw Hcn].
    destruct (nhk_ci X _ true Hld Hcw Hcn Hci) as [Hn _].
    rewrite nhk_idem in Hn by exact Hbw. rewrite Hn, Hcan. apply beq_refl.
  - destruct (nhk_ci X _ true Hld Hbw Hbn Hci) as [_ Hv']. congruence.
Qed.

Lemma rspecials_canonical : forallb canonical_special rspecials = true.
Proof. vm_compute. reflexivity. Qed.
Lemma qspecials_canonical : forallb canonical_special qspecials = true.
Proof. vm_compute. reflexivity. Qed.

(* ---- the guard of the C29 theorems: well-formed bytes; and, only when normalisation is OFF, no mutated name is a
        case variant of a specially handled name (known finding nonorm-special-casefold) ---- *)
Definition wf_opk (o : hop) : Prop :=
  match o with HSet k v | HAdd k v => wf_bytes k /\ wf_bytes v | HDel k => wf_bytes k | HCopy => True end.
Definition ops_guard (specials : list bytes) (nonorm : bool) (ops : list hop) : Prop :=
  Forall (fun o => wf_opk o /\ (nonorm = true -> key_ok specials true o = true)) ops.

Lemma ops_guard_ok specials nonorm ops :
  forallb canonical_special specials = true -> ops_guard specials nonorm ops -> ops_ok specials nonorm ops.
Proof.
  intros Hsp H. unfold ops_guard, ops_ok in *. eapply Forall_impl; [|exact H].
  intros o [Hw Hk]. destruct nonorm.
  - split; [apply Hk; reflexivity|]. destruct o; cbn in *; tauto.
  - destruct o as [k v|k v|k|]; cbn in *; (split; [|tauto]); try reflexivity;
      apply casefold_ok_normalised; tauto.
Qed.
Lemma ops_guard_app specials nonorm a b : ops_guard specials nonorm (a ++ b) <-> ops_guard specials nonorm a /\ ops_guard specials nonorm b.
Proof. unfold ops_guard. apply Forall_app. Qed.

Theorem resp_refines_spec_g nonorm nodefct ops k : ops_guard rspecials nonorm ops ->
  let r := fold_left rstep29 ops (rinit nonorm nodefct) in
  let m := srun HResp nonorm (map sop_of ops) in
  let c := canon nonorm k in
  RPeek r k = spec_peek HResp nodefct m c
  /\ RPeekAll r k = spec_peek_all HResp nodefct m c
  /\ RContentType r = spec_peek HResp nodefct m strContentType
  /\ RContentEncoding r = spec_peek HResp nodefct m strContentEncoding
  /\ RServer r = spec_peek HResp nodefct m strServer.
Proof. intros H. apply resp_refines_spec. apply ops_guard_ok; [apply rspecials_canonical|exact H]. Qed.

Theorem req_refines_spec_g nonorm nodefct evs k : ops_guard qspecials nonorm (qev_ops evs) ->
  let q := fold_left qevstep evs (qinit nonorm nodefct) in
  let m := srun HReq nonorm (map sop_of (qev_ops evs)) in
  let c := canon nonorm k in
  QPeek q k = spec_peek HReq nodefct m c
  /\ QPeekAll q k = spec_peek_all HReq nodefct m c
  /\ QContentType q = spec_peek HReq nodefct m strContentType
  /\ QHost q = spec_peek HReq nodefct m strHost
  /\ QUserAgent q = spec_peek HReq nodefct m strUserAgent.
Proof. intros H. apply req_refines_spec. apply ops_guard_ok; [apply qspecials_canonical|exact H]. Qed.

Theorem resp_other_names_untouched_g nonorm nodefct ops o k' : ops_guard rspecials nonorm (ops ++ [o]) ->
  let r := fold_left rstep29 ops (rinit nonorm nodefct) in
  match op_key nonorm o with Some c => canon nonorm k' <> c | None => True end ->
  RPeekAll (rstep29 r o) k' = RPeekAll r k' /\ RPeek (rstep29 r o) k' = RPeek r k'.
Proof. intros H. apply resp_other_names_untouched. apply ops_guard_ok; [apply rspecials_canonical|exact H]. Qed.

Theorem req_other_names_untouched_g nonorm nodefct evs o k' : ops_guard qspecials nonorm (qev_ops (evs ++ [QOp o])) ->
  let q := fold_left qevstep evs (qinit nonorm nodefct) in
  match op_key nonorm o with Some c => canon nonorm k' <> c | None => True end ->
  QPeekAll (qstep29 q o) k' = QPeekAll q k' /\ QPeek (qstep29 q o) k' = QPeek q k'.
Proof. intros H. apply req_other_names_untouched. apply ops_guard_ok; [apply qspecials_canonical|exact H]. Qed.

Theorem resp_all_ordinary_g nonorm nodefct ops c : ops_guard rspecials nonorm ops -> ordinary_r c = true ->
  let r := fold_left rstep29 ops (rinit nonorm nodefct) in
  vals_of (RAll r) c = spec_all_vals HResp nodefct (srun HResp nonorm (map sop_of ops)) c.
Proof. intros H. apply resp_all_ordinary. apply ops_guard_ok; [apply rspecials_canonical|exact H]. Qed.
Theorem req_all_ordinary_g nonorm nodefct evs c : ops_guard qspecials nonorm (qev_ops evs) -> ordinary_q c = true ->
  let q := fold_left qevstep evs (qinit nonorm nodefct) in
  vals_of (snd (QAll q)) c = spec_all_vals HReq nodefct (srun HReq nonorm (map sop_of (qev_ops evs))) c.
Proof. intros H. apply req_all_ordinary. apply ops_guard_ok; [apply qspecials_canonical|exact H]. Qed.

(* ---- the known findings, as theorems about the model ---- *)
Lemma untouched_refuted :
  exists ops o k', Forall wf_opk (ops ++ [o]) /\
    match op_key true o with Some c => canon true k' <> c | None => True end /\
    RPeekAll (rstep29 (fold_left rstep29 ops (rinit true false)) o) k' <> RPeekAll (fold_left rstep29 ops (rinit true false)) k'.
Proof.
  exists [], (HSet (s2b "content-type") (s2b "a/b")), (s2b "Content-Type").
  split; [|split].
  - repeat constructor; apply Forall_forall; intros x Hx; vm_compute in Hx;
      repeat (destruct Hx as [<-|Hx]; [vm_compute; reflexivity|]); contradiction.
  - vm_compute. discriminate.
  - vm_compute. discriminate.
Qed.
(* the two repaired defects, as facts about the model of the repaired code *)
Lemma repaired_examples :
  RPeekAll (rinit false false) (s2b "Content-Length") = [] /\ RPeekAll (rinit false false) (s2b "Set-Cookie") = []
  /\ RPeekAll (rinit false false) (s2b "Trailer") = [] /\ QPeekAll (fst (QAll (qinit false false))) (s2b "Cookie") = []
  /\ (let ops := [HSet (s2b "Connection") (s2b "keep-alive"); HSet (s2b "Connection") (s2b "close")] in
      vals_of (RAll (fold_left rstep29 ops (rinit false false))) strConnection = [s2b "close"]
      /\ vals_of (snd (QAll (fold_left qstep29 ops (qinit false false)))) strConnection = [s2b "close"]).
Proof. vm_compute. repeat split; reflexivity. Qed.
