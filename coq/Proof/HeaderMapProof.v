(* Proof/HeaderMapProof.v — lemmas for C29, part 1: the list helpers of args.go as used on header fields, and the
   "exact dispatch" form of setSpecialHeader for keys that are not case variants of a special name. *)
From Coq Require Import Lia ZifyBool ZifyN ZifyNat.
From FH Require Import Model.Base Gen.GenC05 Gen.GenC06 Model.Ints Model.ByteClassModel Model.Cookie
  Model.HeaderWrite Model.HeaderMap Spec.HeaderSpec.
Open Scope N_scope.

(* ---------------- beq ---------------- *)
Lemma beq_sym a b : beq a b = beq b a.
Proof.
  revert b; induction a as [|x a IH]; destruct b as [|y b]; cbn; try reflexivity.
  now rewrite N.eqb_sym, IH.
Qed.
Lemma beq_true a b : beq a b = true -> a = b.
Proof. apply beq_eq. Qed.
Lemma beq_false_ne a b : beq a b = false -> a <> b.
Proof. intros H E. subst. now rewrite beq_refl in H. Qed.
Lemma beq_ne_false a b : a <> b -> beq a b = false.
Proof. intros H. destruct (beq a b) eqn:E; [|reflexivity]. apply beq_eq in E. contradiction. Qed.

(* ---------------- values stored under a key in a []argsKV ---------------- *)
Definition set_first (v : bytes) (l : list bytes) : list bytes := match l with [] => [v] | _ :: r => v :: r end.

Lemma peekAll_del_same h k : peekAllArgs (delAllArgsStable h k) k = [].
Proof.
  induction h as [|[k' v] h IH]; cbn; [reflexivity|].
  destruct (beq k k') eqn:E; [exact IH|]. cbn. rewrite beq_sym, E. exact IH.
Qed.
Lemma peekAll_del_other h k c : c <> k -> peekAllArgs (delAllArgsStable h k) c = peekAllArgs h c.
Proof.
  intros Hne. induction h as [|[k' v] h IH]; cbn; [reflexivity|].
  destruct (beq k k') eqn:E.
  - apply beq_eq in E. subst k'. rewrite (beq_ne_false k c) by congruence. exact IH.
  - cbn. rewrite IH. reflexivity.
Qed.
Lemma peekAll_set_same h k v : peekAllArgs (setArg h k v) k = set_first v (peekAllArgs h k).
Proof.
  induction h as [|[k' x] h IH]; cbn; [now rewrite beq_refl|].
  destruct (beq k k') eqn:E.
  - apply beq_eq in E. subst k'. cbn. rewrite beq_refl. reflexivity.
  - cbn. rewrite beq_sym, E. exact IH.
Qed.
Lemma peekAll_set_other h k v c : c <> k -> peekAllArgs (setArg h k v) c = peekAllArgs h c.
Proof.
  intros Hne. induction h as [|[k' x] h IH]; cbn.
  - now rewrite (beq_ne_false k c) by congruence.
  - destruct (beq k k') eqn:E.
    + apply beq_eq in E. subst k'. cbn. now rewrite (beq_ne_false k c) by congruence.
    + cbn. now rewrite IH.
Qed.
Lemma peekAll_app h1 h2 c : peekAllArgs (h1 ++ h2) c = peekAllArgs h1 c ++ peekAllArgs h2 c.
Proof. induction h1 as [|[k' x] h IH]; cbn; [reflexivity|]. destruct (beq k' c); cbn; now rewrite IH. Qed.
Lemma peekAll_append_same h k v : peekAllArgs (appendArg h k v) k = peekAllArgs h k ++ [v].
Proof. unfold appendArg. rewrite peekAll_app. cbn. now rewrite beq_refl. Qed.
Lemma peekAll_append_other h k v c : c <> k -> peekAllArgs (appendArg h k v) c = peekAllArgs h c.
Proof. intros. unfold appendArg. rewrite peekAll_app. cbn. rewrite (beq_ne_false k c) by congruence. apply app_nil_r. Qed.
Lemma peekArg_peekAll h c : peekArgBytes h c = match peekAllArgs h c with v :: _ => v | [] => [] end.
Proof. induction h as [|[k' x] h IH]; cbn; [reflexivity|]. destruct (beq k' c); [reflexivity|exact IH]. Qed.
Lemma peekAll_vals h c : peekAllArgs h c = map snd (filter (fun e => beq (fst e) c) h).
Proof. induction h as [|[k' x] h IH]; cbn; [reflexivity|]. destruct (beq k' c); cbn; now rewrite IH. Qed.

(* ---------------- caseInsensitiveCompare and the first letter ---------------- *)
Lemma ci_head a b x y : caseInsensitiveCompare (x :: a) (y :: b) = true -> N.lor x 32 = N.lor y 32.
Proof. cbn. intros H. apply andb_true_iff in H as [H _]. now apply N.eqb_eq. Qed.

(* ====================== ResponseHeader ====================== *)
Definition rspecials : list bytes :=
  [strContentType; strContentLength; strContentEncoding; strConnection; strServer; strSetCookie;
   strTransferEncoding; strTrailer; strDate].
(* the key is not a case variant of a specially handled name: if it matches one case-insensitively it IS that name *)
Definition casefold_ok (specials : list bytes) (c : bytes) : bool :=
  forallb (fun X => implb (ci X c) (beq c X)) specials.

(* setSpecialHeader + setNonSpecial with the special names recognised by exact comparison *)
Definition RSetExact (r : resp) (key value : bytes) : resp :=
  if beq key strContentType then RSetContentTypeBytes r value
  else if beq key strContentLength then
    match parseContentLength value with
    | Some n => with_rh r (with_hh (with_hclb (with_hcl (rh r) n) value) (delAllArgsStable (hh (rh r)) strTransferEncoding))
    | None => r
    end
  else if beq key strContentEncoding then RSetContentEncodingBytes r value
  else if beq key strConnection then
    (if hasHeaderValue value strClose then with_rh r (with_hh (hSetConnectionClose (rh r)) (delAllArgsStable (hh (rh r)) key))
     else with_rh r (hsetNonSpecial (hResetConnectionClose (rh r)) key value))
  else if beq key strServer then RSetServerBytes r value
  else if beq key strSetCookie then with_rh r (with_hcookies (rh r) (hcookies (rh r) ++ [(getCookieKey value, value)]))
  else if beq key strTransferEncoding then r
  else if beq key strTrailer then RSetTrailerBytes r value
  else if beq key strDate then r
  else with_rh r (hsetNonSpecial (rh r) key value).
Definition RAddExact (r : resp) (key value : bytes) : resp :=
  if existsb (beq key) rspecials then RSetExact r key value
  else with_rh r (with_hh (rh r) (appendArg (hh (rh r)) key value)).

Lemma casefold_ok_spec specials c X : casefold_ok specials c = true -> In X specials -> ci X c = true -> c = X.
Proof.
  unfold casefold_ok. rewrite forallb_forall. intros H Hin Hci. specialize (H X Hin). rewrite Hci in H. cbn in H.
  now apply beq_eq.
Qed.

Lemma RsetSpecial_none r c v :
  casefold_ok rspecials c = true -> existsb (beq c) rspecials = false -> RsetSpecialHeader r c v = None.
Proof.
  intros Hok Hns.
  assert (Hci : forall X, In X rspecials -> ci X c = false).
  { intros X Hin. destruct (ci X c) eqn:E; [|reflexivity].
    pose proof (casefold_ok_spec _ _ _ Hok Hin E) as ->.
    assert (existsb (beq X) rspecials = true) by (apply existsb_exists; exists X; split; [assumption|apply beq_refl]).
    congruence. }
  unfold RsetSpecialHeader. destruct c as [|c0 c]; [reflexivity|].
  rewrite !Hci by (cbn; tauto).
  repeat match goal with |- context[if ?b then _ else _] => destruct b end; reflexivity.
Qed.

Lemma RSetCanonical_exact r c v :
  casefold_ok rspecials c = true -> RSetCanonical r c v = RSetExact r c (initHeaderValueBytes v).
Proof.
  intros Hok. unfold RSetCanonical, RSetExact.
  destruct (beq c strContentType) eqn:E1; [apply beq_eq in E1; subst; reflexivity|].
  destruct (beq c strContentLength) eqn:E2; [apply beq_eq in E2; subst; cbn -[beq parseContentLength initHeaderValueBytes hasHeaderValue]; destruct (parseContentLength _); reflexivity|].
  destruct (beq c strContentEncoding) eqn:E3; [apply beq_eq in E3; subst; reflexivity|].
  destruct (beq c strConnection) eqn:E4; [apply beq_eq in E4; subst; cbn -[beq parseContentLength initHeaderValueBytes hasHeaderValue]; destruct (hasHeaderValue _ strClose); reflexivity|].
  destruct (beq c strServer) eqn:E5; [apply beq_eq in E5; subst; reflexivity|].
  destruct (beq c strSetCookie) eqn:E6; [apply beq_eq in E6; subst; reflexivity|].
  destruct (beq c strTransferEncoding) eqn:E7; [apply beq_eq in E7; subst; reflexivity|].
  destruct (beq c strTrailer) eqn:E8; [apply beq_eq in E8; subst; reflexivity|].
  destruct (beq c strDate) eqn:E9; [apply beq_eq in E9; subst; reflexivity|].
  rewrite RsetSpecial_none; [reflexivity|assumption|].
  cbn [existsb rspecials]. rewrite E1, E2, E3, E4, E5, E6, E7, E8, E9. reflexivity.
Qed.

Lemma RsetSpecial_some r X v : In X rspecials -> exists r', RsetSpecialHeader r X v = Some r'.
Proof.
  intros Hin. cbn in Hin.
  repeat (destruct Hin as [<-|Hin];
          [cbn -[beq parseContentLength initHeaderValueBytes hasHeaderValue];
           repeat match goal with |- context[match ?x with _ => _ end] => destruct x end; eexists; reflexivity|]).
  contradiction.
Qed.

Lemma RAdd_exact r c v :
  casefold_ok rspecials c = true ->
  match RsetSpecialHeader r c (initHeaderValueBytes v) with
  | Some r' => r'
  | None => with_rh r (with_hh (rh r) (appendArg (hh (rh r)) c (initHeaderValueBytes v)))
  end = RAddExact r c (initHeaderValueBytes v).
Proof.
  intros Hok. unfold RAddExact.
  destruct (existsb (beq c) rspecials) eqn:Hs.
  - rewrite <- (RSetCanonical_exact r c v Hok). unfold RSetCanonical.
    apply existsb_exists in Hs as (X & Hin & HX). apply beq_eq in HX. subst c.
    destruct (RsetSpecial_some r X (initHeaderValueBytes v) Hin) as (r' & ->). reflexivity.
  - now rewrite RsetSpecial_none.
Qed.

(* ---------------- the values the response header stores under a name ---------------- *)
Definition jointr (tr : list bytes) : bytes := appendTrailerBytes [] tr strCommaSpace.
Definition rvals (r : resp) (c : bytes) : list bytes :=
  if beq c strContentType then opt1 (hct (rh r))
  else if beq c strContentEncoding then opt1 (rce r)
  else if beq c strServer then opt1 (rserver r)
  else if beq c strConnection then (if hclose (rh r) then [strClose] else peekAllArgs (hh (rh r)) c)
  else if beq c strContentLength then opt1 (hclb (rh r))
  else if beq c strSetCookie then map snd (hcookies (rh r))
  else if beq c strTrailer then opt1 (jointr (htrailer (rh r)))
  else peekAllArgs (hh (rh r)) c.

Lemma hSetTrailer_shape x v : exists tr, fst (hSetTrailerBytes x v) = with_htrailer x tr.
Proof.
  unfold hSetTrailerBytes, hAddTrailerBytes. destruct v as [|b v]; [exists []; reflexivity|].
  destruct (atb_loop _ _ _ _ _) as [tr err]. exists tr. reflexivity.
Qed.

Ltac beq_case c X E := destruct (beq c X) eqn:E; [apply beq_eq in E|].
Ltac kill_ne := match goal with H : ?a <> ?a |- _ => contradiction H; reflexivity end.

(* every branch of rvals at a name different from the one written reads unchanged fields *)
Lemma rvals_frame_set r c v c' : peekAllArgs (hh (rh r)) strTransferEncoding = [] -> c' <> c -> rvals (RSetExact r c v) c' = rvals r c'.
Proof.
  intros Hte Hne. unfold RSetExact.
  beq_case c strContentType E1. { subst c. unfold rvals. rewrite (beq_ne_false _ _ Hne). reflexivity. }
  beq_case c strContentLength E2.
  { subst c. destruct (parseContentLength v); [|reflexivity]. unfold rvals.
    beq_case c' strContentType F1; [reflexivity|]. beq_case c' strContentEncoding F2; [reflexivity|].
    beq_case c' strServer F3; [reflexivity|].
    beq_case c' strConnection F4. { subst c'. cbn. destruct (hclose (rh r)); [reflexivity|]. apply peekAll_del_other. discriminate. }
    rewrite (beq_ne_false _ _ Hne).
    beq_case c' strSetCookie F6; [reflexivity|]. beq_case c' strTrailer F7; [reflexivity|].
    cbn. destruct (beq c' strTransferEncoding) eqn:F8.
    - apply beq_eq in F8. subst c'. now rewrite peekAll_del_same, Hte.
    - apply peekAll_del_other. now apply beq_false_ne. }
  beq_case c strContentEncoding E3.
  { subst c. unfold rvals. beq_case c' strContentType F1; [reflexivity|]. rewrite (beq_ne_false _ _ Hne). reflexivity. }
  beq_case c strConnection E4.
  { subst c. unfold rvals.
    beq_case c' strContentType F1. { destruct (hasHeaderValue v strClose); [reflexivity|]. cbn. unfold hResetConnectionClose. destruct (hclose (rh r)); reflexivity. }
    beq_case c' strContentEncoding F2. { destruct (hasHeaderValue v strClose); reflexivity. }
    beq_case c' strServer F3. { destruct (hasHeaderValue v strClose); reflexivity. }
    rewrite (beq_ne_false _ _ Hne).
    beq_case c' strContentLength F5. { destruct (hasHeaderValue v strClose); [reflexivity|]. cbn. unfold hResetConnectionClose. destruct (hclose (rh r)); reflexivity. }
    beq_case c' strSetCookie F6. { destruct (hasHeaderValue v strClose); [reflexivity|]. cbn. unfold hResetConnectionClose. destruct (hclose (rh r)); reflexivity. }
    beq_case c' strTrailer F7. { destruct (hasHeaderValue v strClose); [reflexivity|]. cbn. unfold hResetConnectionClose. destruct (hclose (rh r)); reflexivity. }
    destruct (hasHeaderValue v strClose); [cbn; apply peekAll_del_other; assumption|]. cbn. unfold hResetConnectionClose.
    destruct (hclose (rh r)); cbn; rewrite peekAll_set_other by assumption; [apply peekAll_del_other; assumption|reflexivity]. }
  beq_case c strServer E5.
  { subst c. unfold rvals. beq_case c' strContentType F1; [reflexivity|]. beq_case c' strContentEncoding F2; [reflexivity|].
    rewrite (beq_ne_false _ _ Hne). reflexivity. }
  beq_case c strSetCookie E6.
  { subst c. unfold rvals. beq_case c' strContentType F1; [reflexivity|]. beq_case c' strContentEncoding F2; [reflexivity|].
    beq_case c' strServer F3; [reflexivity|]. beq_case c' strConnection F4; [reflexivity|].
    beq_case c' strContentLength F5; [reflexivity|]. rewrite (beq_ne_false _ _ Hne). reflexivity. }
  beq_case c strTransferEncoding E7; [reflexivity|].
  beq_case c strTrailer E8.
  { subst c. unfold RSetTrailerBytes. destruct (hSetTrailer_shape (rh r) v) as [tr ->].
    unfold rvals. beq_case c' strContentType F1; [reflexivity|]. beq_case c' strContentEncoding F2; [reflexivity|].
    beq_case c' strServer F3; [reflexivity|]. beq_case c' strConnection F4; [reflexivity|].
    beq_case c' strContentLength F5; [reflexivity|]. beq_case c' strSetCookie F6; [reflexivity|].
    rewrite (beq_ne_false _ _ Hne). reflexivity. }
  beq_case c strDate E9; [reflexivity|].
  unfold rvals.
  beq_case c' strContentType F1; [reflexivity|]. beq_case c' strContentEncoding F2; [reflexivity|].
  beq_case c' strServer F3; [reflexivity|].
  beq_case c' strConnection F4. { cbn. destruct (hclose (rh r)); [reflexivity|]. apply peekAll_set_other; assumption. }
  beq_case c' strContentLength F5; [reflexivity|]. beq_case c' strSetCookie F6; [reflexivity|].
  beq_case c' strTrailer F7; [reflexivity|].
  cbn. apply peekAll_set_other; assumption.
Qed.

Lemma rvals_frame_add r c v c' : peekAllArgs (hh (rh r)) strTransferEncoding = [] -> c' <> c -> rvals (RAddExact r c v) c' = rvals r c'.
Proof.
  intros Hte Hne. unfold RAddExact. destruct (existsb (beq c) rspecials); [apply rvals_frame_set; assumption|].
  unfold rvals.
  beq_case c' strContentType F1; [reflexivity|]. beq_case c' strContentEncoding F2; [reflexivity|].
  beq_case c' strServer F3; [reflexivity|].
  beq_case c' strConnection F4. { cbn. destruct (hclose (rh r)); [reflexivity|]. apply peekAll_append_other; assumption. }
  beq_case c' strContentLength F5; [reflexivity|]. beq_case c' strSetCookie F6; [reflexivity|].
  beq_case c' strTrailer F7; [reflexivity|].
  cbn. apply peekAll_append_other; assumption.
Qed.

Lemma rvals_frame_del r c c' : c' <> c -> rvals (Rdel r c) c' = rvals r c'.
Proof.
  intros Hne. unfold Rdel.
  set (r1 := if beq c strContentType then _ else _).
  assert (H1 : forall X, X <> c -> rvals r1 X = rvals r X /\ True).
  { intros X HX. split; [|exact I]. subst r1. unfold rvals.
    beq_case c strContentType E1. { subst c. rewrite (beq_ne_false _ _ HX). reflexivity. }
    beq_case c strContentEncoding E2. { subst c. beq_case X strContentType F1; [reflexivity|]. rewrite (beq_ne_false _ _ HX). reflexivity. }
    beq_case c strServer E3. { subst c. beq_case X strContentType F1; [reflexivity|]. beq_case X strContentEncoding F2; [reflexivity|].
      rewrite (beq_ne_false _ _ HX). reflexivity. }
    beq_case c strSetCookie E4. { subst c. beq_case X strContentType F1; [reflexivity|]. beq_case X strContentEncoding F2; [reflexivity|].
      beq_case X strServer F3; [reflexivity|]. beq_case X strConnection F4; [reflexivity|]. beq_case X strContentLength F5; [reflexivity|].
      rewrite (beq_ne_false _ _ HX). reflexivity. }
    beq_case c strContentLength E5. { subst c. beq_case X strContentType F1; [reflexivity|]. beq_case X strContentEncoding F2; [reflexivity|].
      beq_case X strServer F3; [reflexivity|]. beq_case X strConnection F4; [reflexivity|]. rewrite (beq_ne_false _ _ HX). reflexivity. }
    beq_case c strConnection E6. { subst c. beq_case X strContentType F1; [reflexivity|]. beq_case X strContentEncoding F2; [reflexivity|].
      beq_case X strServer F3; [reflexivity|]. rewrite (beq_ne_false _ _ HX). reflexivity. }
    beq_case c strTrailer E7. { subst c. beq_case X strContentType F1; [reflexivity|]. beq_case X strContentEncoding F2; [reflexivity|].
      beq_case X strServer F3; [reflexivity|]. beq_case X strConnection F4; [reflexivity|]. beq_case X strContentLength F5; [reflexivity|].
      beq_case X strSetCookie F6; [reflexivity|]. rewrite (beq_ne_false _ _ HX). reflexivity. }
    reflexivity. }
  destruct (H1 c' Hne) as [<- _]. clearbody r1. unfold rvals.
  beq_case c' strContentType F1; [reflexivity|]. beq_case c' strContentEncoding F2; [reflexivity|].
  beq_case c' strServer F3; [reflexivity|].
  beq_case c' strConnection F4. { cbn. destruct (hclose (rh r1)); [reflexivity|]. apply peekAll_del_other; assumption. }
  beq_case c' strContentLength F5; [reflexivity|]. beq_case c' strSetCookie F6; [reflexivity|].
  beq_case c' strTrailer F7; [reflexivity|].
  cbn. apply peekAll_del_other; assumption.
Qed.

(* ---- what an operation does to the values under its own name ---- *)
Lemma rvals_del_same r c : rvals (Rdel r c) c = [].
Proof.
  unfold Rdel, rvals.
  beq_case c strContentType E1; [subst c; reflexivity|].
  beq_case c strContentEncoding E2; [subst c; reflexivity|].
  beq_case c strServer E3; [subst c; reflexivity|].
  beq_case c strSetCookie E4; [subst c; reflexivity|].
  beq_case c strContentLength E5; [subst c; reflexivity|].
  beq_case c strConnection E6; [subst c; cbn; apply peekAll_del_same|].
  beq_case c strTrailer E7; [subst c; reflexivity|].
  cbn. apply peekAll_del_same.
Qed.

Lemma opt1_clean_idem v : opt1 (initHeaderValueBytes (initHeaderValueBytes v)) = opt1 (initHeaderValueBytes v).
Proof.
  unfold initHeaderValueBytes, removeNewLines. rewrite map_map. f_equal. apply map_ext. intros a.
  destruct ((a =? 13) || (a =? 10)) eqn:E; [reflexivity|]. rewrite E. reflexivity.
Qed.
Lemma clean_idem v : initHeaderValueBytes (initHeaderValueBytes v) = initHeaderValueBytes v.
Proof.
  unfold initHeaderValueBytes, removeNewLines. rewrite map_map. apply map_ext. intros a.
  destruct ((a =? 13) || (a =? 10)) eqn:E; [reflexivity|]. rewrite E. reflexivity.
Qed.

Definition ordinary_r (c : bytes) : bool := negb (existsb (beq c) rspecials).

Lemma rvals_set_single r c v : (c = strContentType \/ c = strContentEncoding \/ c = strServer) ->
  rvals (RSetExact r c (initHeaderValueBytes v)) c = opt1 (initHeaderValueBytes v).
Proof.
  intros [->|[->| ->]]; unfold RSetExact, rvals; cbn -[initHeaderValueBytes opt1]; apply opt1_clean_idem.
Qed.
Lemma rvals_set_conn r v :
  rvals (RSetExact r strConnection v) strConnection =
  if hasHeaderValue v strClose then [strClose] else set_first v (rvals r strConnection).
Proof.
  unfold RSetExact. cbn -[beq hasHeaderValue]. destruct (hasHeaderValue v strClose) eqn:E; [reflexivity|].
  unfold rvals, hsetNonSpecial, hResetConnectionClose. cbn.
  destruct (hclose (rh r)) eqn:Hc; cbn; rewrite ?Hc; rewrite peekAll_set_same; [rewrite peekAll_del_same|]; reflexivity.
Qed.
Lemma rvals_set_cl r v :
  rvals (RSetExact r strContentLength v) strContentLength =
  match parseContentLength v with Some _ => opt1 v | None => rvals r strContentLength end.
Proof. unfold RSetExact. cbn -[parseContentLength]. destruct (parseContentLength v); reflexivity. Qed.
Lemma rvals_set_cookie r v :
  rvals (RSetExact r strSetCookie v) strSetCookie = rvals r strSetCookie ++ [v].
Proof. unfold RSetExact, rvals. cbn. rewrite map_app. reflexivity. Qed.
Lemma rvals_set_ignored r c v : (c = strTransferEncoding \/ c = strDate) -> RSetExact r c v = r.
Proof. intros [->| ->]; reflexivity. Qed.
Lemma rvals_set_ord r c v : ordinary_r c = true -> rvals (RSetExact r c v) c = set_first v (rvals r c).
Proof.
  unfold ordinary_r. intros H. apply negb_true_iff in H. cbn [existsb rspecials] in H.
  repeat (apply orb_false_iff in H as [?E H]).
  unfold RSetExact. rewrite E, E0, E1, E2, E3, E4, E5, E6, E7. unfold rvals. rewrite E, E1, E3, E2, E0, E4, E6. cbn. apply peekAll_set_same.
Qed.
Lemma rvals_add_ord r c v : ordinary_r c = true -> rvals (RAddExact r c v) c = rvals r c ++ [v].
Proof.
  unfold ordinary_r. intros H. unfold RAddExact. apply negb_true_iff in H. rewrite H. cbn [existsb rspecials] in H.
  repeat (apply orb_false_iff in H as [?E H]).
  unfold rvals. rewrite E, E1, E3, E2, E0, E4, E6. cbn. apply peekAll_append_same.
Qed.

(* ====================== RequestHeader ====================== *)
Ltac beq_caseq c X E := destruct (beq c X) eqn:E; [apply beq_eq in E|].
Definition qspecials : list bytes :=
  [strContentType; strContentLength; strConnection; strCookie; strTransferEncoding; strTrailer; strHost; strUserAgent].

Definition QSetExact (q : req) (key value : bytes) : req :=
  if beq key strContentType then QSetContentTypeBytes q value
  else if beq key strContentLength then
    match parseContentLength value with
    | Some n => with_qh q (with_hh (with_hclb (with_hcl (qh q) n) value) (delAllArgsStable (hh (qh q)) strTransferEncoding))
    | None => q
    end
  else if beq key strConnection then
    (if hasHeaderValue value strClose then with_qh q (with_hh (hSetConnectionClose (qh q)) (delAllArgsStable (hh (qh q)) key))
     else with_qh q (hsetNonSpecial (hResetConnectionClose (qh q)) key value))
  else if beq key strCookie then
    (let q := collectCookies q in with_qh q (with_hcookies (qh q) (prc (hcookies (qh q)) value)))
  else if beq key strTransferEncoding then q
  else if beq key strTrailer then QSetTrailerBytes q value
  else if beq key strHost then QSetHostBytes q value
  else if beq key strUserAgent then QSetUserAgentBytes q value
  else with_qh q (hsetNonSpecial (qh q) key value).
Definition QAddExact (q : req) (key value : bytes) : req :=
  if existsb (beq key) qspecials then QSetExact q key value
  else with_qh q (with_hh (qh q) (appendArg (hh (qh q)) key value)).

Lemma QsetSpecial_none q c v :
  casefold_ok qspecials c = true -> existsb (beq c) qspecials = false -> QsetSpecialHeader q c v = None.
Proof.
  intros Hok Hns.
  assert (Hci : forall X, In X qspecials -> ci X c = false).
  { intros X Hin. destruct (ci X c) eqn:E; [|reflexivity].
    pose proof (casefold_ok_spec _ _ _ Hok Hin E) as ->.
    assert (existsb (beq X) qspecials = true) by (apply existsb_exists; exists X; split; [assumption|apply beq_refl]).
    congruence. }
  unfold QsetSpecialHeader. destruct c as [|c0 c]; [reflexivity|].
  rewrite !Hci by (cbn; tauto).
  repeat match goal with |- context[if ?b then _ else _] => destruct b end; reflexivity.
Qed.

Lemma QSetCanonical_exact q c v : qdisableSpecial q = false ->
  casefold_ok qspecials c = true -> QSetCanonical q c v = QSetExact q c (initHeaderValueBytes v).
Proof.
  intros Hds Hok. unfold QSetCanonical, QSetExact.
  beq_caseq c strContentType E1; [subst; unfold QsetSpecialHeader; rewrite Hds; reflexivity|].
  beq_caseq c strContentLength E2;
    [subst; unfold QsetSpecialHeader; rewrite Hds; cbn -[beq parseContentLength initHeaderValueBytes hasHeaderValue]; destruct (parseContentLength _); reflexivity|].
  beq_caseq c strConnection E4;
    [subst; unfold QsetSpecialHeader; rewrite Hds; cbn -[beq parseContentLength initHeaderValueBytes hasHeaderValue]; destruct (hasHeaderValue _ strClose); reflexivity|].
  beq_caseq c strCookie E5; [subst; unfold QsetSpecialHeader; rewrite Hds; reflexivity|].
  beq_caseq c strTransferEncoding E6; [subst; unfold QsetSpecialHeader; rewrite Hds; reflexivity|].
  beq_caseq c strTrailer E7; [subst; unfold QsetSpecialHeader; rewrite Hds; reflexivity|].
  beq_caseq c strHost E8; [subst; unfold QsetSpecialHeader; rewrite Hds; reflexivity|].
  beq_caseq c strUserAgent E9; [subst; unfold QsetSpecialHeader; rewrite Hds; reflexivity|].
  rewrite QsetSpecial_none; [reflexivity|assumption|].
  cbn [existsb qspecials]. rewrite E1, E2, E4, E5, E6, E7, E8, E9. reflexivity.
Qed.

Lemma QsetSpecial_some q X v : qdisableSpecial q = false -> In X qspecials -> exists q', QsetSpecialHeader q X v = Some q'.
Proof.
  intros Hds Hin. cbn in Hin.
  repeat (destruct Hin as [<-|Hin];
          [unfold QsetSpecialHeader; rewrite Hds; cbn -[beq parseContentLength initHeaderValueBytes collectCookies hasHeaderValue];
           repeat match goal with |- context[match ?x with _ => _ end] => destruct x end; eexists; reflexivity|]).
  contradiction.
Qed.

Lemma QAdd_exact q c v : qdisableSpecial q = false ->
  casefold_ok qspecials c = true ->
  match QsetSpecialHeader q c (initHeaderValueBytes v) with
  | Some q' => q'
  | None => with_qh q (with_hh (qh q) (appendArg (hh (qh q)) c (initHeaderValueBytes v)))
  end = QAddExact q c (initHeaderValueBytes v).
Proof.
  intros Hds Hok. unfold QAddExact.
  destruct (existsb (beq c) qspecials) eqn:Hs.
  - rewrite <- (QSetCanonical_exact q c v Hds Hok). unfold QSetCanonical.
    apply existsb_exists in Hs as (X & Hin & HX). apply beq_eq in HX. subst c.
    destruct (QsetSpecial_some q X (initHeaderValueBytes v) Hds Hin) as (q' & ->). reflexivity.
  - now rewrite QsetSpecial_none.
Qed.

(* no field stored in h.h is a Cookie header (they all live in the jar): collectCookies then only raises the flag *)
Definition no_cookie_hh (h : kvs) : Prop := Forall (fun e => ci (fst e) strCookie = false) h.
Lemma cc_loop_id h cs : no_cookie_hh h -> cc_loop h cs = (h, cs).
Proof.
  induction 1 as [|[k v] h Hk _ IH]; cbn; [reflexivity|]. cbn in Hk. rewrite Hk, IH. reflexivity.
Qed.
Lemma collect_id q : no_cookie_hh (hh (qh q)) ->
  collectCookies q = if qcookiesCollected q then q else with_qcookiesCollected q true.
Proof.
  intros H. unfold collectCookies. destruct (qcookiesCollected q); [reflexivity|].
  rewrite (cc_loop_id _ _ H). destruct q as [[? ? ? ? ? ? ? ? ? ?] ? ? ? ? ? ?]. reflexivity.
Qed.
Lemma collect_fields q : no_cookie_hh (hh (qh q)) ->
  qh (collectCookies q) = qh q /\ qhost (collectCookies q) = qhost q /\ qua (collectCookies q) = qua q
  /\ qdisableSpecial (collectCookies q) = qdisableSpecial q /\ qcookiesCollected (collectCookies q) = true.
Proof. intros H. rewrite (collect_id q H). destruct (qcookiesCollected q) eqn:E; repeat split; try reflexivity; exact E. Qed.

Definition qvals (q : req) (c : bytes) : list bytes :=
  if beq c strHost then opt1 (qhost q)
  else if beq c strContentType then opt1 (hct (qh q))
  else if beq c strUserAgent then opt1 (qua q)
  else if beq c strConnection then (if hclose (qh q) then [strClose] else peekAllArgs (hh (qh q)) c)
  else if beq c strContentLength then opt1 (hclb (qh q))
  else if beq c strCookie then map cookie_str (hcookies (qh q))
  else if beq c strTrailer then opt1 (jointr (htrailer (qh q)))
  else peekAllArgs (hh (qh q)) c.

Lemma qvals_frame_set q c v c' : peekAllArgs (hh (qh q)) strTransferEncoding = [] -> no_cookie_hh (hh (qh q)) -> c' <> c -> qvals (QSetExact q c v) c' = qvals q c'.
Proof.
  intros Hte Hnc Hne. unfold QSetExact.
  beq_case c strContentType E1.
  { subst c. unfold qvals. beq_case c' strHost F0; [reflexivity|]. rewrite (beq_ne_false _ _ Hne). reflexivity. }
  beq_case c strContentLength E2.
  { subst c. destruct (parseContentLength v); [|reflexivity]. unfold qvals.
    beq_case c' strHost F0; [reflexivity|]. beq_case c' strContentType F1; [reflexivity|]. beq_case c' strUserAgent F2; [reflexivity|].
    beq_case c' strConnection F4. { subst c'. cbn. destruct (hclose (qh q)); [reflexivity|]. apply peekAll_del_other. discriminate. }
    rewrite (beq_ne_false _ _ Hne).
    beq_case c' strCookie F6; [reflexivity|]. beq_case c' strTrailer F7; [reflexivity|].
    cbn. destruct (beq c' strTransferEncoding) eqn:F8.
    - apply beq_eq in F8. subst c'. now rewrite peekAll_del_same, Hte.
    - apply peekAll_del_other. now apply beq_false_ne. }
  beq_case c strConnection E4.
  { subst c. unfold qvals.
    beq_case c' strHost F0. { destruct (hasHeaderValue v strClose); [reflexivity|]. cbn. unfold hResetConnectionClose. destruct (hclose (qh q)); reflexivity. }
    beq_case c' strContentType F1. { destruct (hasHeaderValue v strClose); [reflexivity|]. cbn. unfold hResetConnectionClose. destruct (hclose (qh q)); reflexivity. }
    beq_case c' strUserAgent F2. { destruct (hasHeaderValue v strClose); [reflexivity|]. cbn. unfold hResetConnectionClose. destruct (hclose (qh q)); reflexivity. }
    rewrite (beq_ne_false _ _ Hne).
    beq_case c' strContentLength F5. { destruct (hasHeaderValue v strClose); [reflexivity|]. cbn. unfold hResetConnectionClose. destruct (hclose (qh q)); reflexivity. }
    beq_case c' strCookie F6. { destruct (hasHeaderValue v strClose); [reflexivity|]. cbn. unfold hResetConnectionClose. destruct (hclose (qh q)); reflexivity. }
    beq_case c' strTrailer F7. { destruct (hasHeaderValue v strClose); [reflexivity|]. cbn. unfold hResetConnectionClose. destruct (hclose (qh q)); reflexivity. }
    destruct (hasHeaderValue v strClose); [cbn; apply peekAll_del_other; assumption|]. cbn. unfold hResetConnectionClose.
    destruct (hclose (qh q)); cbn; rewrite peekAll_set_other by assumption; [apply peekAll_del_other; assumption|reflexivity]. }
  beq_case c strCookie E5.
  { subst c. destruct (collect_fields q Hnc) as (H1 & H2 & H3 & _ & _). cbv zeta. unfold qvals. cbn [qh with_qh qhost qua].
    rewrite H1, H2, H3.
    beq_case c' strHost F0; [reflexivity|]. beq_case c' strContentType F1; [reflexivity|]. beq_case c' strUserAgent F2; [reflexivity|].
    beq_case c' strConnection F4; [reflexivity|]. beq_case c' strContentLength F5; [reflexivity|].
    rewrite (beq_ne_false _ _ Hne). reflexivity. }
  beq_case c strTransferEncoding E6; [reflexivity|].
  beq_case c strTrailer E7.
  { subst c. unfold QSetTrailerBytes. destruct (hSetTrailer_shape (qh q) v) as [tr ->].
    unfold qvals. beq_case c' strHost F0; [reflexivity|]. beq_case c' strContentType F1; [reflexivity|].
    beq_case c' strUserAgent F2; [reflexivity|]. beq_case c' strConnection F4; [reflexivity|].
    beq_case c' strContentLength F5; [reflexivity|]. beq_case c' strCookie F6; [reflexivity|].
    rewrite (beq_ne_false _ _ Hne). reflexivity. }
  beq_case c strHost E8. { subst c. unfold qvals. rewrite (beq_ne_false _ _ Hne). reflexivity. }
  beq_case c strUserAgent E9.
  { subst c. unfold qvals. beq_case c' strHost F0; [reflexivity|]. beq_case c' strContentType F1; [reflexivity|].
    rewrite (beq_ne_false _ _ Hne). reflexivity. }
  unfold qvals.
  beq_case c' strHost F0; [reflexivity|]. beq_case c' strContentType F1; [reflexivity|]. beq_case c' strUserAgent F2; [reflexivity|].
  beq_case c' strConnection F4. { cbn. destruct (hclose (qh q)); [reflexivity|]. apply peekAll_set_other; assumption. }
  beq_case c' strContentLength F5; [reflexivity|]. beq_case c' strCookie F6; [reflexivity|].
  beq_case c' strTrailer F7; [reflexivity|].
  cbn. apply peekAll_set_other; assumption.
Qed.

Lemma qvals_frame_add q c v c' : peekAllArgs (hh (qh q)) strTransferEncoding = [] -> no_cookie_hh (hh (qh q)) -> c' <> c -> qvals (QAddExact q c v) c' = qvals q c'.
Proof.
  intros Hte Hnc Hne. unfold QAddExact. destruct (existsb (beq c) qspecials); [apply qvals_frame_set; assumption|].
  unfold qvals.
  beq_case c' strHost F0; [reflexivity|]. beq_case c' strContentType F1; [reflexivity|]. beq_case c' strUserAgent F2; [reflexivity|].
  beq_case c' strConnection F4. { cbn. destruct (hclose (qh q)); [reflexivity|]. apply peekAll_append_other; assumption. }
  beq_case c' strContentLength F5; [reflexivity|]. beq_case c' strCookie F6; [reflexivity|].
  beq_case c' strTrailer F7; [reflexivity|].
  cbn. apply peekAll_append_other; assumption.
Qed.

Lemma qvals_frame_del q c c' : c' <> c -> qvals (Qdel q c) c' = qvals q c'.
Proof.
  intros Hne. unfold Qdel.
  set (q1 := if beq c strHost then _ else _).
  assert (H1 : forall X, X <> c -> qvals q1 X = qvals q X).
  { intros X HX. subst q1. unfold qvals.
    beq_case c strHost E0. { subst c. rewrite (beq_ne_false _ _ HX). reflexivity. }
    beq_case c strContentType E1. { subst c. beq_case X strHost F0; [reflexivity|]. rewrite (beq_ne_false _ _ HX). reflexivity. }
    beq_case c strUserAgent E2. { subst c. beq_case X strHost F0; [reflexivity|]. beq_case X strContentType F1; [reflexivity|].
      rewrite (beq_ne_false _ _ HX). reflexivity. }
    beq_case c strCookie E4. { subst c. beq_case X strHost F0; [reflexivity|]. beq_case X strContentType F1; [reflexivity|].
      beq_case X strUserAgent F2; [reflexivity|]. beq_case X strConnection F4; [reflexivity|]. beq_case X strContentLength F5; [reflexivity|].
      rewrite (beq_ne_false _ _ HX). reflexivity. }
    beq_case c strContentLength E5. { subst c. beq_case X strHost F0; [reflexivity|]. beq_case X strContentType F1; [reflexivity|].
      beq_case X strUserAgent F2; [reflexivity|]. beq_case X strConnection F4; [reflexivity|]. rewrite (beq_ne_false _ _ HX). reflexivity. }
    beq_case c strConnection E6. { subst c. beq_case X strHost F0; [reflexivity|]. beq_case X strContentType F1; [reflexivity|].
      beq_case X strUserAgent F2; [reflexivity|]. rewrite (beq_ne_false _ _ HX). reflexivity. }
    beq_case c strTrailer E7. { subst c. beq_case X strHost F0; [reflexivity|]. beq_case X strContentType F1; [reflexivity|].
      beq_case X strUserAgent F2; [reflexivity|]. beq_case X strConnection F4; [reflexivity|]. beq_case X strContentLength F5; [reflexivity|].
      beq_case X strCookie F6; [reflexivity|]. rewrite (beq_ne_false _ _ HX). reflexivity. }
    reflexivity. }
  rewrite <- (H1 c' Hne). clearbody q1. unfold qvals.
  beq_case c' strHost F0; [reflexivity|]. beq_case c' strContentType F1; [reflexivity|]. beq_case c' strUserAgent F2; [reflexivity|].
  beq_case c' strConnection F4. { cbn. destruct (hclose (qh q1)); [reflexivity|]. apply peekAll_del_other; assumption. }
  beq_case c' strContentLength F5; [reflexivity|]. beq_case c' strCookie F6; [reflexivity|].
  beq_case c' strTrailer F7; [reflexivity|].
  cbn. apply peekAll_del_other; assumption.
Qed.

Lemma qvals_del_same q c : qvals (Qdel q c) c = [].
Proof.
  unfold Qdel, qvals.
  beq_case c strHost E0; [subst c; reflexivity|].
  beq_case c strContentType E1; [subst c; reflexivity|].
  beq_case c strUserAgent E2; [subst c; reflexivity|].
  beq_case c strCookie E4; [subst c; reflexivity|].
  beq_case c strContentLength E5; [subst c; reflexivity|].
  beq_case c strConnection E6; [subst c; cbn; apply peekAll_del_same|].
  beq_case c strTrailer E7; [subst c; reflexivity|].
  cbn. apply peekAll_del_same.
Qed.

Definition ordinary_q (c : bytes) : bool := negb (existsb (beq c) qspecials).

Lemma qvals_set_single q c v : (c = strContentType \/ c = strHost \/ c = strUserAgent) ->
  qvals (QSetExact q c (initHeaderValueBytes v)) c = opt1 (initHeaderValueBytes v).
Proof.
  intros [->|[->| ->]]; unfold QSetExact, qvals; cbn -[initHeaderValueBytes opt1]; apply opt1_clean_idem.
Qed.
Lemma qvals_set_conn q v :
  qvals (QSetExact q strConnection v) strConnection =
  if hasHeaderValue v strClose then [strClose] else set_first v (qvals q strConnection).
Proof.
  unfold QSetExact. cbn -[beq hasHeaderValue]. destruct (hasHeaderValue v strClose) eqn:E; [reflexivity|].
  unfold qvals, hsetNonSpecial, hResetConnectionClose. cbn.
  destruct (hclose (qh q)) eqn:Hc; cbn; rewrite ?Hc; rewrite peekAll_set_same; [rewrite peekAll_del_same|]; reflexivity.
Qed.
Lemma qvals_set_cl q v :
  qvals (QSetExact q strContentLength v) strContentLength =
  match parseContentLength v with Some _ => opt1 v | None => qvals q strContentLength end.
Proof. unfold QSetExact. cbn -[parseContentLength]. destruct (parseContentLength v); reflexivity. Qed.
Lemma qvals_set_cookie q v : no_cookie_hh (hh (qh q)) ->
  qvals (QSetExact q strCookie v) strCookie = map cookie_str (prc (hcookies (qh q)) v).
Proof.
  intros Hnc. destruct (collect_fields q Hnc) as (H1 & _).
  replace (QSetExact q strCookie v) with
    (let q' := collectCookies q in with_qh q' (with_hcookies (qh q') (prc (hcookies (qh q')) v))) by reflexivity.
  cbv zeta. rewrite H1. reflexivity.
Qed.
Lemma qvals_set_ignored q v : QSetExact q strTransferEncoding v = q.
Proof. reflexivity. Qed.
Lemma qvals_set_ord q c v : ordinary_q c = true -> qvals (QSetExact q c v) c = set_first v (qvals q c).
Proof.
  unfold ordinary_q. intros H. apply negb_true_iff in H. cbn [existsb qspecials] in H.
  repeat (apply orb_false_iff in H as [?E H]).
  unfold QSetExact. rewrite E, E0, E1, E2, E3, E4, E5, E6. unfold qvals. rewrite E5, E, E6, E1, E0, E2, E4. cbn. apply peekAll_set_same.
Qed.
Lemma qvals_add_ord q c v : ordinary_q c = true -> qvals (QAddExact q c v) c = qvals q c ++ [v].
Proof.
  unfold ordinary_q. intros H. unfold QAddExact. apply negb_true_iff in H. rewrite H. cbn [existsb qspecials] in H.
  repeat (apply orb_false_iff in H as [?E H]).
  unfold qvals. rewrite E5, E, E6, E1, E0, E2, E4. cbn. apply peekAll_append_same.
Qed.
