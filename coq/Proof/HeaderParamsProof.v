(* HeaderParamsProof.v — VisitHeaderParams never panics and never runs out of fuel (C08). *)
From Coq Require Import Lia.
From FH Require Import Model.Base Model.ByteClassModel Model.Lines Model.HeaderParams Proof.LinesProof.
Open Scope nat_scope.

Lemma take_while_len_le f b : take_while_len f b <= length b.
Proof. induction b as [|c r IH]; cbn; [lia|]. destruct (f c); cbn; lia. Qed.

Lemma quote_end_lt b e k : quote_end b e = Some k -> k < length b.
Proof.
  revert e k; induction b as [|c r IH]; intros e k; cbn; [discriminate|].
  destruct (N.eqb c DQ && negb e); [intros [= <-]; lia|].
  destruct (quote_end r _) as [j|] eqn:E; cbn; [|discriminate]. intros [= <-]. apply IH in E. lia.
Qed.

Lemma drop_while_len f b : length (drop_while f b) <= length b.
Proof. induction b as [|c r IH]; cbn; [lia|]. destruct (f c); cbn; lia. Qed.

Lemma vhp_loop_total fuel : forall b acc, length b < fuel -> exists r, vhp_loop fuel b acc = Ok r.
Proof.
  induction fuel as [|fuel IH]; intros b acc Hf; [lia|].
  cbn [vhp_loop]. destruct b as [|b0 b']; [eauto|]. set (b := b0 :: b') in *.
  destruct (index_byte b SEMI) as [i|] eqn:Ei; [|eauto].
  pose proof (index_byte_lt _ _ _ Ei) as Hi.
  rewrite slice_from by lia. cbn [bind].
  set (b2 := drop_while is_sp (skipn (i + 1) b)).
  assert (Hb2 : length b2 < length b).
  { unfold b2. pose proof (drop_while_len is_sp (skipn (i + 1) b)) as H. rewrite skipn_length in H. lia. }
  destruct b2 as [|c0 t] eqn:Eb2; [eauto|]. rewrite <- Eb2 in *. clear Eb2.
  destruct (negb (validHeaderFieldByte c0)); [eauto|].
  set (n := take_while_len validHeaderFieldByte b2).
  pose proof (take_while_len_le validHeaderFieldByte b2) as Hn. fold n in Hn.
  destruct (length b2 - 1 <=? n) eqn:En; [eauto|]. apply Nat.leb_gt in En.
  destruct (idx_ok b2 n ltac:(lia)) as (c & -> & _). cbn [bind].
  destruct (negb (N.eqb c EQS)); [eauto|].
  rewrite slice_to by lia. cbn [bind].
  destruct (idx_ok b2 (n + 1) ltac:(lia)) as (c1 & -> & _). cbn [bind].
  destruct (validHeaderFieldByte c1).
  - set (n2 := n + 1 + take_while_len validHeaderFieldByte (skipn (n + 1) b2)).
    assert (Hn2 : n + 1 <= n2 /\ n2 <= length b2).
    { unfold n2. pose proof (take_while_len_le validHeaderFieldByte (skipn (n + 1) b2)) as H.
      rewrite skipn_length in H. lia. }
    rewrite slice_ok by lia. cbn [bind]. rewrite slice_from by lia. cbn [bind].
    apply IH. rewrite skipn_length. lia.
  - destruct (N.eqb c1 DQ); [|eauto].
    destruct (quote_end (skipn (n + 1 + 1) b2) false) as [k|] eqn:Ek; [|eauto].
    apply quote_end_lt in Ek. rewrite skipn_length in Ek.
    rewrite slice_ok by lia. cbn [bind]. rewrite slice_from by lia. cbn [bind].
    apply IH. rewrite skipn_length. lia.
Qed.

Theorem VisitHeaderParams_total b : exists r, VisitHeaderParams b = Ok r.
Proof. apply vhp_loop_total. lia. Qed.
